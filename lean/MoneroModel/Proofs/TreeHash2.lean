import MoneroModel.Proofs.TreeHash1
import MoneroModel.Spec.TreeHash
/-! C06 helper lemmas, part 2: assembly of `tree_hash` and the bridge from the level-by-level description
(`pairs`, `treeOf`) to the reference definition (`Spec.TreeHash.pairUp`, `perfect`, `treeSpec`). Core Lean only. -/
namespace Monero
namespace TreeHash
open Spec.TreeHash

section generic
variable {α : Type} (H : α → α → α)

theorem phase1_of_L (f : Nat) (hs : Array α) (i j cnt : Nat) (L : List α) (i' : Nat)
    (h : phase1L H f hs.toList i j cnt = some (L, i')) :
    ∃ arr, phase1 H f hs i j cnt = some (arr, i') ∧ arr.toList = L := by
  rw [← phase1_toList] at h
  cases hp : phase1 H f hs i j cnt with
  | none => rw [hp] at h; simp at h
  | some p =>
    rw [hp] at h
    simp only [Option.map_some, Option.some.injEq, Prod.mk.injEq] at h
    exact ⟨p.1, by rw [← h.2], h.1⟩

theorem phase2_of_L (f : Nat) (hs : Array α) (cnt : Nat) (L : List α)
    (h : phase2L H f hs.toList cnt = some L) :
    ∃ arr, phase2 H f hs cnt = some arr ∧ arr.toList = L := by
  rw [← phase2_toList] at h
  cases hp : phase2 H f hs cnt with
  | none => rw [hp] at h; simp at h
  | some p =>
    rw [hp] at h
    simp only [Option.map_some, Option.some.injEq] at h
    exact ⟨p, rfl, h⟩

/-- the level-by-level description for `n ≥ 3` leaves, given the level `m` with `2^m < n ≤ 2^(m+1)` -/
def treeLevels (m : Nat) (hs : List α) : Option α :=
  let k := 2 * 2^m - hs.length
  treeOf H m (hs.take k ++ pairs H (2^m - k) (hs.drop k))

theorem treeHashMany_eq_levels (root : α) (extra : List α) (h2 : 2 ≤ extra.length)
    (hmax : extra.length + 1 ≤ 2^28) :
    ∃ m, 1 ≤ m ∧ 2^m < extra.length + 1 ∧ extra.length + 1 ≤ 2^(m+1) ∧
      treeHashMany H root extra = treeLevels H m (root :: extra) := by
  obtain ⟨m, hm1, hcnt, hlo, hhi⟩ := treeHashCnt_spec (extra.length + 1) (by omega) hmax
  refine ⟨m, hm1, hlo, hhi, ?_⟩
  have hpow : 2^(m+1) = 2 * 2^m := by rw [Nat.pow_succ]; omega
  unfold treeHashMany
  simp only [hcnt]
  have hnlt : ¬ (2 * 2^m < extra.length + 1) := by omega
  simp only [hnlt, if_false]
  have hlen : (root :: extra).length = extra.length + 1 := by simp
  have hk : 2 * 2^m - (extra.length + 1) ≤ 2^m := by omega
  have hp := phase1L_spec H (2^m) (root :: extra) (2 * 2^m - (extra.length + 1))
    (2 * 2^m - (extra.length + 1)) (2^m)
    (Nat.le_refl _) hk (by omega) (by rw [hlen]; omega) (by rw [hlen]; omega)
  have hi : 2 * 2^m - (extra.length + 1) + 2 * (2^m - (2 * 2^m - (extra.length + 1))) = extra.length + 1 := by
    omega
  rw [hi] at hp
  obtain ⟨arr1, ha1, hl1⟩ := phase1_of_L H (2^m) (root :: extra).toArray _ _ _ _ _ hp
  rw [ha1]
  simp only [ne_eq, not_true_eq_false, if_false]
  have hpl : (pairs H (2^m - (2 * 2^m - (extra.length + 1)))
      ((root :: extra).drop (2 * 2^m - (extra.length + 1)))).length
      = 2^m - (2 * 2^m - (extra.length + 1)) :=
    pairs_length H _ _ (by simp only [List.length_drop, hlen]; omega)
  have hlevel : ((root :: extra).take (2 * 2^m - (extra.length + 1)) ++
      pairs H (2^m - (2 * 2^m - (extra.length + 1)))
        ((root :: extra).drop (2 * 2^m - (extra.length + 1)))).length = 2^m := by
    rw [List.length_append, hpl, List.length_take, hlen]; omega
  obtain ⟨m', rfl⟩ : ∃ m', m = m' + 1 := ⟨m - 1, by omega⟩
  have hm28 : m' + 1 < 28 := by
    have : 2^(m'+1) < 2^28 := by omega
    exact (Nat.pow_lt_pow_iff_right (a := 2) (by decide)).1 this
  obtain ⟨hs2, e1, e2⟩ := phase2L_spec H m' 64 arr1.toList (by omega)
    (by rw [hl1, List.length_append, hlevel]; omega)
  obtain ⟨arr2, ha2, hl2⟩ := phase2_of_L H 64 arr1 _ _ e1
  rw [ha2]
  simp only
  rw [← Array.getElem?_toList, ← Array.getElem?_toList (xs := arr2) (i := 1), hl2]
  refine Eq.trans e2 ?_
  rw [hl1, treeOf_append H (m'+1) _ _ (by rw [hlevel]; exact Nat.le_refl _)]
  simp [treeLevels, hlen]

end generic

/-! ### bridge to the reference definition -/
variable (H : Bytes → Bytes)

theorem pairs_eq_pairUp : ∀ (n : Nat) (l : List Bytes), l.length = 2 * n →
    pairs (hashConcat H) n l = pairUp H l
  | 0, [], _ => rfl
  | 0, _ :: _, h => by simp at h
  | n+1, [], h => by simp at h
  | n+1, [_], h => by simp at h; omega
  | n+1, a :: b :: t, h => by
    simp only [pairs, pairUp, hashConcat]
    rw [pairs_eq_pairUp n t (by simp at h; omega)]

theorem pairUp_length : ∀ (n : Nat) (l : List Bytes), l.length = 2 * n → (pairUp H l).length = n
  | 0, [], _ => rfl
  | 0, _ :: _, h => by simp at h
  | n+1, [], h => by simp at h
  | n+1, [_], h => by simp at h; omega
  | n+1, a :: b :: t, h => by
    simp only [pairUp, List.length_cons]
    rw [pairUp_length n t (by simp at h; omega)]

theorem pairUp_take : ∀ (n : Nat) (l : List Bytes), (pairUp H l).take n = pairUp H (l.take (2 * n))
  | 0, l => by cases l <;> simp [pairUp]
  | n+1, [] => by simp [pairUp]
  | n+1, [a] => by
    have : 2 * (n + 1) = 2 * n + 1 + 1 := by omega
    rw [this]; simp [pairUp]
  | n+1, a :: b :: t => by
    have : 2 * (n + 1) = 2 * n + 1 + 1 := by omega
    rw [this]
    simp only [pairUp, List.take_succ_cons]
    rw [pairUp_take n t]

theorem pairUp_drop : ∀ (n : Nat) (l : List Bytes), 2 * n ≤ l.length →
    (pairUp H l).drop n = pairUp H (l.drop (2 * n))
  | 0, l, _ => by simp
  | n+1, [], h => by simp at h
  | n+1, [a], h => by simp at h; omega
  | n+1, a :: b :: t, h => by
    have : 2 * (n + 1) = 2 * n + 1 + 1 := by omega
    rw [this]
    simp only [pairUp, List.drop_succ_cons]
    rw [pairUp_drop n t (by simp at h; omega)]

/-- level-by-level reduction = recursive root of the two halves -/
theorem perfect_pairUp : ∀ (m : Nat) (l : List Bytes), l.length = 2^(m+1) →
    perfect H (m+1) l = perfect H m (pairUp H l) := by
  intro m
  induction m with
  | zero =>
    intro l hl
    match l, hl with
    | [a, b], _ => simp [perfect, pairUp]
  | succ m ih =>
    intro l hl
    have hpow : 2^(m+1+1) = 2 * 2^(m+1) := by rw [Nat.pow_succ]; omega
    have hpow' : 2^(m+1) = 2 * 2^m := by rw [Nat.pow_succ]; omega
    rw [perfect]
    rw [ih (l.take (2^(m+1))) (by rw [List.length_take, hl, hpow]; omega)]
    rw [ih (l.drop (2^(m+1))) (by rw [List.length_drop, hl, hpow]; omega)]
    conv => rhs; rw [perfect]
    rw [pairUp_take, pairUp_drop H (2^m) l (by rw [hl, hpow, hpow']; omega), ← hpow']

theorem treeOf_eq_perfect : ∀ (m : Nat) (l : List Bytes), l.length = 2^m →
    treeOf (hashConcat H) m l = some (perfect H m l) := by
  intro m
  induction m with
  | zero =>
    intro l hl
    match l, hl with
    | [a], _ => simp [treeOf, perfect]
  | succ m ih =>
    intro l hl
    have hpow : 2^(m+1) = 2 * 2^m := by rw [Nat.pow_succ]; omega
    rw [treeOf, pairs_eq_pairUp H (2^m) l (by rw [hl, hpow]),
      ih _ (pairUp_length H (2^m) l (by rw [hl, hpow])), perfect_pairUp H m l hl]

theorem levelBelow_eq (n m : Nat) (hlo : 2^m < n) (hhi : n ≤ 2^(m+1)) : levelBelow n = m := by
  unfold levelBelow
  have hne : n - 1 ≠ 0 := by
    have : 1 ≤ 2^m := Nat.one_le_two_pow
    omega
  have h1 : (n - 1).log2 < m + 1 := (Nat.log2_lt hne).2 (by omega)
  have h2 : ¬ (n - 1).log2 < m := fun h => by
    have := (Nat.log2_lt hne).1 h
    omega
  omega

theorem treeLevels_eq_spec (root : Bytes) (extra : List Bytes) (m : Nat) (h2 : 2 ≤ extra.length)
    (hlo : 2^m < extra.length + 1) (hhi : extra.length + 1 ≤ 2^(m+1)) :
    treeLevels (hashConcat H) m (root :: extra) = some (treeSpec H (root :: extra)) := by
  have hpow : 2^(m+1) = 2 * 2^m := by rw [Nat.pow_succ]; omega
  have hlen : (root :: extra).length = extra.length + 1 := by simp
  have hspec : treeSpec H (root :: extra) =
      perfect H m ((root :: extra).take (2 * 2^m - (extra.length + 1)) ++
        pairUp H ((root :: extra).drop (2 * 2^m - (extra.length + 1)))) := by
    match extra, h2 with
    | a :: b :: t, _ =>
      have := levelBelow_eq ((root :: a :: b :: t).length) m (by simpa using hlo) (by simpa using hhi)
      simp only [List.length_cons] at this
      simp only [treeSpec, List.length_cons, this]
  rw [hspec]
  unfold treeLevels
  simp only [hlen]
  have hdl : ((root :: extra).drop (2 * 2^m - (extra.length + 1))).length
      = 2 * (2^m - (2 * 2^m - (extra.length + 1))) := by
    rw [List.length_drop, hlen]; omega
  rw [pairs_eq_pairUp H _ _ hdl]
  apply treeOf_eq_perfect
  rw [List.length_append, pairUp_length H _ _ hdl, List.length_take, hlen]; omega

/-- main lemma: the imperative `tree_hash` computes the reference tree hash -/
theorem treeHash_eq_treeSpec (root : Bytes) (extra : List Bytes) (hmax : extra.length + 1 ≤ 2^28) :
    treeHash H root extra = some (treeSpec H (root :: extra)) := by
  match extra, hmax with
  | [], _ => rfl
  | [e], _ => rfl
  | a :: b :: t, hmax =>
    have h2 : 2 ≤ (a :: b :: t).length := by simp
    have hbranch : treeHash H root (a :: b :: t) = treeHashMany (hashConcat H) root (a :: b :: t) := rfl
    rw [hbranch]
    obtain ⟨m, _, hlo, hhi, he⟩ := treeHashMany_eq_levels (hashConcat H) root (a :: b :: t) h2 hmax
    rw [he]
    exact treeLevels_eq_spec H root (a :: b :: t) m h2 hlo hhi

end TreeHash
end Monero
