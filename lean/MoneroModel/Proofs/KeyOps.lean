import MoneroModel.Model.KeyOps
import MoneroModel.Proofs.EdwardsLawful
/-! The operator model `Model/KeyOps.lean` (permissive `point()` + extended-coordinate arithmetic + recompression) computes,
on accepted keys, the operations of the group `EdPoint` through the strict encoding; results are accepted keys; no `expect`
fails. The scalar operators of the model (dalek's `Scalar52::add` / `Scalar52::mul` transcribed on integers: one conditional
subtraction, two Montgomery reductions) are addition / multiplication modulo `l` on reduced operands (`sc52Add_eq`, `sc52Mul_eq`,
`montReduce_spec`). Further: `enc_zero`, `dec_spec`, `enc_of_dec`, `hexDecode_spec`. Helper lemmas for `Props/C13.lean`. -/
namespace Monero.Edw
open Ed Monero.Keys

/-- the fourth coordinate returned by the permissive decompression is `x·y` -/
theorem decompressDalek_t_keyops (k : ℕ) (P : Pt) (h : decompressDalek k = some P) : P.t = P.x * P.y % Ed.p := by
  unfold decompressDalek at h
  simp only [] at h
  split at h
  · exact absurd h (by simp)
  · simp only [Option.some.injEq] at h
    subst h
    rfl

/-- a successful permissive decompression returns valid (reduced, affine, on-curve) extended coordinates -/
theorem decompressDalek_valid_keyops (k : ℕ) (P : Pt) (h : decompressDalek k = some P) : Valid P := by
  obtain ⟨-, hz, hx, hy, hc, -⟩ := decompressDalek_sound k P h
  have ht := decompressDalek_t_keyops k P h
  have hz1 : ((P.z : ℕ) : F) = 1 := by rw [hz]; simp
  refine ⟨⟨hx, hy, by rw [hz]; exact p_gt_one, by rw [ht]; exact mod_p_lt _⟩, ?_, ?_, ?_⟩
  · rw [hz1]; exact one_ne_zero
  · rw [hz1, ht, cast_mod]; push_cast; ring
  · unfold OnCurve aff dF
    simp only [hz1, div_one]
    linear_combination hc

/-- every group element's encoding is an accepted key -/
theorem publicAccept_enc (A : EdPoint) : publicAccept (edOps.enc A) = true := by
  rw [publicAccept_eq_ref]
  have h := edOps_dec_enc A
  rw [edOps_dec] at h
  cases hd : Ed.decodePt (edOps.enc A) with
  | none => rw [decPoint_none hd] at h; exact absurd h (by simp)
  | some P => rfl

/-- encoding of valid coordinates = encoding of the group element they represent -/
theorem encodePt_eq_enc {P : Pt} (hP : Valid P) : Ed.encodePt P = edOps.enc (toPoint P hP) :=
  refOps_refines_edOps.enc P hP

/-- on an accepted key `point()` does not panic, returns valid coordinates, and they represent the group element that the
strict decoder `edOps.dec` assigns to the bytes -/
theorem keyPoint_of_accept (a : Bytes) (ha : publicAccept a = true) :
    ∃ (P : Pt) (hP : Valid P), keyPoint a = some P ∧ edOps.dec a = some (toPoint P hP) := by
  obtain ⟨hlen, P, hd, he⟩ := (publicAccept_iff a).mp ha
  have hP := decompressDalek_valid_keyops _ P hd
  have hk : keyPoint a = some P := by
    unfold keyPoint
    rw [if_neg (by simp [hlen])]; exact hd
  refine ⟨P, hP, hk, ?_⟩
  have := edOps_dec_enc (toPoint P hP)
  rwa [← encodePt_eq_enc hP, he] at this

/-- an accepted key decodes (strictly) to a group element whose encoding is the key -/
theorem dec_of_accept (a : Bytes) (ha : publicAccept a = true) : ∃ A : EdPoint, edOps.dec a = some A ∧ edOps.enc A = a := by
  obtain ⟨-, P, hd, he⟩ := (publicAccept_iff a).mp ha
  have hP := decompressDalek_valid_keyops _ P hd
  refine ⟨toPoint P hP, ?_, ?_⟩
  · have := edOps_dec_enc (toPoint P hP)
    rwa [← encodePt_eq_enc hP, he] at this
  · rw [← encodePt_eq_enc hP, he]

/-- `point()` of the encoding of a group element: valid coordinates of that element -/
theorem keyPoint_enc (A : EdPoint) : ∃ (P : Pt) (hP : Valid P), keyPoint (edOps.enc A) = some P ∧ toPoint P hP = A := by
  obtain ⟨P, hP, h1, h2⟩ := keyPoint_of_accept _ (publicAccept_enc A)
  refine ⟨P, hP, h1, ?_⟩
  rw [edOps_dec_enc] at h2
  exact (Option.some.inj h2).symm

/-! ### dalek's Niels-form addition / subtraction (Model/KeyOps `dalekAdd`, `dalekSub`) compute the coordinates of `Ed.add` / `Ed.sub` -/
/-- two reduced residues with the same image in the field are equal -/
theorem mod_eq_of_cast {a b : ℕ} (h : ((a : ℕ) : F) = (b : F)) : a % Ed.p = b % Ed.p := (cast_eq_iff a b).mp h

theorem dalekAdd_eq (a b : Pt) : dalekAdd a b = Ed.add a b := by
  have hA : (a.y + Ed.p - a.x) % Ed.p * ((b.y + Ed.p - b.x) % Ed.p) % Ed.p
      = (a.y + Ed.p - a.x) * (b.y + Ed.p - b.x) % Ed.p := (Nat.mul_mod _ _ _).symm
  have hB : (a.y + a.x) % Ed.p * ((b.y + b.x) % Ed.p) % Ed.p = (a.y + a.x) * (b.y + b.x) % Ed.p := (Nat.mul_mod _ _ _).symm
  have hC : a.t * (b.t * (2 * Ed.d % Ed.p) % Ed.p) % Ed.p = a.t * 2 * Ed.d % Ed.p * b.t % Ed.p := by
    apply mod_eq_of_cast
    push_cast; simp only [cast_mod]; push_cast; simp only [cast_mod]; push_cast; ring
  have hD : (a.z * b.z % Ed.p + a.z * b.z % Ed.p) % Ed.p = a.z * 2 * b.z % Ed.p := by
    apply mod_eq_of_cast
    push_cast; simp only [cast_mod]; push_cast; ring
  unfold dalekAdd Ed.add toNiels completedToExtended
  simp only [hA, hB, hC, hD]
  refine congr (congr (congr (congrArg Pt.mk rfl) ?_) ?_) rfl
  · rw [Nat.mul_comm]
  · rw [Nat.mul_comm]

theorem dalekSub_eq (a b : Pt) (hb : b.x < Ed.p) : dalekSub a b = Ed.sub a b := by
  have hnx : (((Ed.p - b.x % Ed.p) % Ed.p : ℕ) : F) = -(b.x : F) := by rw [cast_neg _ (mod_p_lt _), cast_mod]
  have hnt : (((Ed.p - b.t % Ed.p) % Ed.p : ℕ) : F) = -(b.t : F) := by rw [cast_neg _ (mod_p_lt _), cast_mod]
  have hnt' : (((Ed.p - b.t % Ed.p : ℕ)) : F) = -(b.t : F) := by rw [← hnt, cast_mod]
  have hnxle : (Ed.p - b.x % Ed.p) % Ed.p ≤ b.y + Ed.p := Nat.le_trans (Nat.le_of_lt (mod_p_lt _)) (Nat.le_add_left _ _)
  -- MP (mine) = A of Ed.add a (neg b); PM = B; TT2d = −C; ZZ2 = D
  have hA : (a.y + Ed.p - a.x) % Ed.p * ((b.y + b.x) % Ed.p) % Ed.p
      = (a.y + Ed.p - a.x) * (b.y + Ed.p - (Ed.p - b.x % Ed.p) % Ed.p) % Ed.p := by
    rw [← Nat.mul_mod]
    apply mod_eq_of_cast
    push_cast; rw [cast_sub_p _ _ hnxle, hnx]; ring
  have hB : (a.y + a.x) % Ed.p * ((b.y + Ed.p - b.x) % Ed.p) % Ed.p
      = (a.y + a.x) * (b.y + (Ed.p - b.x % Ed.p) % Ed.p) % Ed.p := by
    rw [← Nat.mul_mod]
    apply mod_eq_of_cast
    push_cast; rw [cast_sub_p _ _ (by omega), hnx]; ring
  have hD : (a.z * b.z % Ed.p + a.z * b.z % Ed.p) % Ed.p = a.z * 2 * b.z % Ed.p := by
    apply mod_eq_of_cast
    push_cast; simp only [cast_mod]; push_cast; ring
  -- F and G of the reference against Z and T of dalek's completed point
  have hG : ∀ D : ℕ, (D + Ed.p - a.t * (b.t * (2 * Ed.d % Ed.p) % Ed.p) % Ed.p) % Ed.p
      = (D + a.t * 2 * Ed.d % Ed.p * ((Ed.p - b.t % Ed.p) % Ed.p) % Ed.p) % Ed.p := by
    intro D
    apply mod_eq_of_cast
    rw [cast_sub_p _ _ (Nat.le_trans (Nat.le_of_lt (mod_p_lt _)) (Nat.le_add_left _ _))]
    simp only [cast_mod, Nat.cast_mul, Nat.cast_add, Nat.cast_ofNat, hnt']; ring
  have hF : ∀ D : ℕ, (D + a.t * (b.t * (2 * Ed.d % Ed.p) % Ed.p) % Ed.p) % Ed.p
      = (D + Ed.p - a.t * 2 * Ed.d % Ed.p * ((Ed.p - b.t % Ed.p) % Ed.p) % Ed.p) % Ed.p := by
    intro D
    apply mod_eq_of_cast
    rw [cast_sub_p _ _ (Nat.le_trans (Nat.le_of_lt (mod_p_lt _)) (Nat.le_add_left _ _))]
    simp only [cast_mod, Nat.cast_mul, Nat.cast_add, Nat.cast_ofNat, hnt']; ring
  unfold dalekSub Ed.sub Ed.add Ed.neg toNiels completedToExtended
  simp only [hA, hB, hD, hG, hF]
  refine congr (congr (congr (congrArg Pt.mk rfl) ?_) ?_) rfl
  · rw [Nat.mul_comm]
  · rw [Nat.mul_comm]

theorem keyAdd_of_points (a b : Bytes) (P Q : Pt) (h1 : keyPoint a = some P) (h2 : keyPoint b = some Q) :
    keyAdd a b = some (Ed.encodePt (Ed.add P Q)) := by
  unfold keyAdd keyOfPoint
  rw [h1, h2]
  show some (Ed.encodePt (dalekAdd P Q)) = _
  rw [dalekAdd_eq]
theorem keySub_of_points (a b : Bytes) (P Q : Pt) (hQ : Q.x < Ed.p) (h1 : keyPoint a = some P) (h2 : keyPoint b = some Q) :
    keySub a b = some (Ed.encodePt (Ed.sub P Q)) := by
  unfold keySub keyOfPoint
  rw [h1, h2]
  show some (Ed.encodePt (dalekSub P Q)) = _
  rw [dalekSub_eq _ _ hQ]
theorem keySmul_of_point (s a : Bytes) (P : Pt) (h1 : keyPoint a = some P) :
    keySmul s a = some (Ed.encodePt (Ed.smul (Ed.leNat s) P)) := by
  unfold keySmul keyOfPoint
  rw [h1]

theorem keyAdd_enc (A B : EdPoint) : keyAdd (edOps.enc A) (edOps.enc B) = some (edOps.enc (A + B)) := by
  obtain ⟨P, hP, h1, hA⟩ := keyPoint_enc A
  obtain ⟨Q, hQ, h2, hB⟩ := keyPoint_enc B
  rw [keyAdd_of_points _ _ P Q h1 h2, encodePt_eq_enc (valid_add' hP hQ), toPoint_add hP hQ, hA, hB]

theorem keySub_enc (A B : EdPoint) : keySub (edOps.enc A) (edOps.enc B) = some (edOps.enc (A - B)) := by
  obtain ⟨P, hP, h1, hA⟩ := keyPoint_enc A
  obtain ⟨Q, hQ, h2, hB⟩ := keyPoint_enc B
  rw [keySub_of_points _ _ P Q hQ.reduced.1 h1 h2, encodePt_eq_enc (valid_sub' hP hQ), toPoint_sub hP hQ, hA, hB]

theorem keySmul_enc (s : Bytes) (hs : Ed.leNat s < 2 ^ 260) (A : EdPoint) :
    keySmul s (edOps.enc A) = some (edOps.enc (Ed.leNat s • A)) := by
  obtain ⟨P, hP, h1, hA⟩ := keyPoint_enc A
  rw [keySmul_of_point _ _ P h1, encodePt_eq_enc (valid_smul' _ hP), toPoint_smul hs hP, hA]
theorem keyPubOf_eq (s : Bytes) (hs : Ed.leNat s < 2 ^ 260) : keyPubOf s = edOps.enc (Ed.leNat s • edOps.base) := by
  unfold keyPubOf keyOfPoint
  rw [encodePt_eq_enc (valid_smul' _ G_valid), toPoint_smul hs G_valid, edOps_base]

theorem secret_lt_260 (s : Bytes) (hs : secretAccept s = true) : Ed.leNat s < 2 ^ 260 :=
  Nat.lt_trans ((secretAccept_iff s).mp hs).2 l_lt_260

/-! ### dalek's `Scalar52` arithmetic (Model/KeyOps: `sc52Sub`, `sc52Add`, `montReduce`, `sc52Mul`) is arithmetic modulo `l`
on reduced operands -/
set_option exponentiation.threshold 300
theorem l_literal : Ed.l = 7237005577332262213973186563042994240857116359379907606001950938285454250989 := by decide
theorem R260_literal : R260 = 1852673427797059126777135760139006525652319754650249024631321344126610074238976 := by decide

/-- `sub(t, L)` of a value below `2l`: the conditional subtraction -/
theorem sc52Sub_l (t : ℕ) (ht : t < 2 * Ed.l) : sc52Sub t Ed.l = if t < Ed.l then t else t - Ed.l := by
  unfold sc52Sub
  simp only [l_literal, R260_literal] at ht ⊢
  split <;> omega

theorem sc52Sub_l_lt (t : ℕ) (ht : t < 2 * Ed.l) : sc52Sub t Ed.l < Ed.l := by
  rw [sc52Sub_l t ht]; split <;> omega

theorem sc52Sub_l_mod (t : ℕ) (ht : t < 2 * Ed.l) : sc52Sub t Ed.l = t % Ed.l := by
  rw [sc52Sub_l t ht]
  simp only [l_literal] at ht ⊢
  split <;> omega

/-- `Scalar52::add` on reduced operands is addition modulo `l` (it is NOT for unreduced operands: one subtraction only) -/
theorem sc52Add_eq (a b : ℕ) (ha : a < Ed.l) (hb : b < Ed.l) : sc52Add a b = (a + b) % Ed.l := by
  unfold sc52Add
  have hs : (a + b) % R260 = a + b := by
    simp only [l_literal, R260_literal] at ha hb ⊢; omega
  rw [hs, sc52Sub_l_mod _ (by omega)]

/-- the reduction is not vacuous: on unreduced operands the transcription differs from `(a + b) % l` -/
example : sc52Add (2 * Ed.l) (2 * Ed.l) ≠ (2 * Ed.l + 2 * Ed.l) % Ed.l := by decide

theorem lFactor_spec : (1 + lFactor * Ed.l) % R260 = 0 := by decide
theorem lFactor_low_limb : lFactor % 2 ^ 52 = 0x51da312547e1b := by decide
theorem scRR_spec : scRR = R260 * R260 % Ed.l := by decide
theorem coprime_R260_l : Nat.Coprime R260 Ed.l := by
  unfold Nat.Coprime; decide

/-- Montgomery reduction: for `x < R·l` the result is reduced and equals `x·R⁻¹` modulo `l` -/
theorem montReduce_spec (x : ℕ) (hx : x < R260 * Ed.l) :
    montReduce x < Ed.l ∧ montReduce x * R260 ≡ x [MOD Ed.l] := by
  unfold montReduce
  simp only []
  generalize hm : x % R260 * lFactor % R260 = m
  have hRpos : 0 < R260 := by rw [R260_literal]; norm_num
  have hmlt : m < R260 := by rw [← hm]; exact Nat.mod_lt _ hRpos
  -- x + m·l is divisible by R
  have hdiv : (x + m * Ed.l) % R260 = 0 := by
    have h1 : (x + m * Ed.l) ≡ x + (x * lFactor) * Ed.l [MOD R260] := by
      apply Nat.ModEq.add_left
      apply Nat.ModEq.mul_right
      rw [← hm]
      exact (Nat.mod_modEq _ _).trans (Nat.ModEq.mul_right _ (Nat.mod_modEq _ _))
    have h2 : x + (x * lFactor) * Ed.l = x * (1 + lFactor * Ed.l) := by ring
    have h3 : x * (1 + lFactor * Ed.l) ≡ x * 0 [MOD R260] := Nat.ModEq.mul_left _ lFactor_spec
    rw [h2] at h1
    have := h1.trans h3
    simpa [Nat.ModEq] using this
  obtain ⟨t, ht⟩ := Nat.dvd_of_mod_eq_zero hdiv
  have hq : (x + m * Ed.l) / R260 = t := by rw [ht]; exact Nat.mul_div_cancel_left _ hRpos
  rw [hq]
  have ht2 : t < 2 * Ed.l := by
    have hml : m * Ed.l < R260 * Ed.l := Nat.mul_lt_mul_of_pos_right hmlt l_pos
    have : R260 * t < R260 * (2 * Ed.l) := by rw [← ht]; nlinarith
    exact Nat.lt_of_mul_lt_mul_left this
  refine ⟨sc52Sub_l_lt t ht2, ?_⟩
  rw [sc52Sub_l_mod t ht2]
  have h4 : t % Ed.l * R260 ≡ t * R260 [MOD Ed.l] := Nat.ModEq.mul_right _ (Nat.mod_modEq _ _)
  refine h4.trans ?_
  rw [Nat.mul_comm t R260, ← ht]
  show (x + m * Ed.l) % Ed.l = x % Ed.l
  rw [Nat.add_mul_mod_self_right]

/-- `Scalar52::mul` on reduced operands is multiplication modulo `l` -/
theorem sc52Mul_eq (a b : ℕ) (ha : a < Ed.l) (hb : b < Ed.l) : sc52Mul a b = (a * b) % Ed.l := by
  unfold sc52Mul
  have hlR : Ed.l < R260 := by rw [l_literal, R260_literal]; norm_num
  have hab : a * b < R260 * Ed.l := by
    have : a * b < Ed.l * Ed.l := Nat.mul_lt_mul'' ha hb
    have : Ed.l * Ed.l < R260 * Ed.l := Nat.mul_lt_mul_of_pos_right hlR l_pos
    omega
  obtain ⟨hu, hue⟩ := montReduce_spec (a * b) hab
  generalize montReduce (a * b) = u at hu hue
  have hRRlt : scRR < Ed.l := by rw [scRR_spec]; exact Nat.mod_lt _ l_pos
  have huRR : u * scRR < R260 * Ed.l := by
    have : u * scRR < Ed.l * Ed.l := Nat.mul_lt_mul'' hu hRRlt
    have : Ed.l * Ed.l < R260 * Ed.l := Nat.mul_lt_mul_of_pos_right hlR l_pos
    omega
  obtain ⟨hv, hve⟩ := montReduce_spec (u * scRR) huRR
  generalize montReduce (u * scRR) = v at hv hve
  -- v·R ≡ u·RR ≡ u·R·R ≡ a·b·R, cancel R
  have h1 : u * scRR ≡ u * (R260 * R260) [MOD Ed.l] := by
    apply Nat.ModEq.mul_left; rw [scRR_spec]; exact Nat.mod_modEq _ _
  have h2 : u * (R260 * R260) ≡ (a * b) * R260 [MOD Ed.l] := by
    rw [← Nat.mul_assoc]; exact Nat.ModEq.mul_right _ hue
  have h3 : v * R260 ≡ (a * b) * R260 [MOD Ed.l] := hve.trans (h1.trans h2)
  have h4 : v ≡ a * b [MOD Ed.l] := Nat.ModEq.cancel_right_of_coprime coprime_R260_l.symm h3
  have : v % Ed.l = v := Nat.mod_eq_of_lt hv
  rw [← this]; exact h4

/-! ### further helper lemmas for Props/C13 -/
/-- the encoding of the neutral element is the byte string `01 00 … 00` -/
theorem ofPoint_zero : ofPoint (0 : EdPoint) = ⟨0, 1, 1, 0⟩ := by
  have h1 : (1 : F).val = 1 := by
    haveI : Fact (1 < Ed.p) := ⟨p_gt_one⟩
    exact ZMod.val_one Ed.p
  unfold ofPoint
  simp only [Point.zero_x, Point.zero_y, ZMod.val_zero, zero_mul, h1]

set_option maxRecDepth 100000 in
theorem encodePt_identity : Ed.encodePt ⟨0, 1, 1, 0⟩ = Ed.toBytesLE 1 32 := by decide +kernel

theorem enc_zero : edOps.enc 0 = Ed.toBytesLE 1 32 := by
  rw [edOps_enc, ofPoint_zero, encodePt_identity]

/-- what strict decoding into the group returns, arithmetically: y is the low 255 bits (so they are < p), the parity of x is bit 255 -/
theorem dec_spec (b : Bytes) (A : EdPoint) (h : edOps.dec b = some A) :
    b.length = 32 ∧ A.y.val = Ed.leNat b % 2 ^ 255 ∧ A.x.val % 2 = Ed.leNat b / 2 ^ 255 := by
  rw [edOps_dec] at h
  cases hd : Ed.decodePt b with
  | none => rw [decPoint_none hd] at h; exact absurd h (by simp)
  | some P =>
    rw [decPoint_some hd, Option.some.injEq] at h
    obtain ⟨hlen, hdc⟩ := decodePt_some hd
    obtain ⟨hv, hz, hy, hx⟩ := decompress_spec _ (leNat_lt_256 b hlen) P hdc
    have hAx : A.x = (P.x : F) := by
      rw [← h]; show (P.x : F) / (P.z : F) = _; rw [hz]; simp
    have hAy : A.y = (P.y : F) := by
      rw [← h]; show (P.y : F) / (P.z : F) = _; rw [hz]; simp
    refine ⟨hlen, ?_, ?_⟩
    · rw [hAy, ZMod.val_natCast, Nat.mod_eq_of_lt hv.reduced.2.1, hy]
    · rw [hAx, ZMod.val_natCast, Nat.mod_eq_of_lt hv.reduced.1, hx]

/-- a byte string that decodes (strictly) is an accepted key and is the encoding of what it decodes to -/
theorem enc_of_dec (b : Bytes) (A : EdPoint) (h : edOps.dec b = some A) : publicAccept b = true ∧ edOps.enc A = b := by
  have hacc : publicAccept b = true := by
    rw [publicAccept_eq_ref]
    cases hd : Ed.decodePt b with
    | none => rw [edOps_dec, decPoint_none hd] at h; exact absurd h (by simp)
    | some P => rfl
  obtain ⟨A', h1, h2⟩ := dec_of_accept b hacc
  rw [h] at h1
  rw [Option.some.inj h1]; exact ⟨hacc, h2⟩

/-- `hex::decode` on the model side: two characters per byte, every character a hex digit -/
theorem hexDecode_spec : ∀ (s : List Char) (b : Bytes), hexDecode s = some b →
    s.length = 2 * b.length ∧ ∀ c ∈ s, (hexVal c).isSome = true
  | [], b, h => by
    simp only [hexDecode, Option.some.injEq] at h
    subst h; simp
  | [_], b, h => by simp [hexDecode] at h
  | x :: y :: t, b, h => by
    rw [hexDecode] at h
    cases hx : hexVal x with
    | none => simp [hx] at h
    | some vx =>
      cases hy : hexVal y with
      | none => simp [hx, hy] at h
      | some vy =>
        cases ht : hexDecode t with
        | none => simp [hx, hy, ht] at h
        | some r =>
          simp only [hx, hy, ht, Option.some.injEq] at h
          obtain ⟨ih1, ih2⟩ := hexDecode_spec t r ht
          subst h
          refine ⟨by simp only [List.length_cons, ih1]; omega, ?_⟩
          intro c hc
          simp only [List.mem_cons] at hc
          rcases hc with rfl | rfl | hc
          · rw [hx]; rfl
          · rw [hy]; rfl
          · exact ih2 c hc

theorem l_lt_256_32 : Ed.l < 256 ^ 32 := by decide

/-- a reduced value written on 32 bytes is an accepted secret key with that value -/
theorem secretAccept_toBytesLE (n : ℕ) (hn : n < Ed.l) :
    secretAccept (Ed.toBytesLE n 32) = true ∧ Ed.leNat (Ed.toBytesLE n 32) = n := by
  have hv : Ed.leNat (Ed.toBytesLE n 32) = n := Ed.leNat_toBytesLE 32 n (Nat.lt_trans hn l_lt_256_32)
  exact ⟨(secretAccept_iff _).mpr ⟨Ed.length_toBytesLE _ _, by rw [hv]; exact hn⟩, hv⟩

end Monero.Edw
