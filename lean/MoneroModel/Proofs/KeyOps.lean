import MoneroModel.Model.KeyOps
import MoneroModel.Proofs.EdwardsLawful
/-! The operator model `Model/KeyOps.lean` (permissive `point()` + extended-coordinate arithmetic + recompression) computes,
on accepted keys, the operations of the group `EdPoint` through the strict encoding; results are accepted keys; no `expect`
fails. Helper lemmas for `Props/C13.lean`. -/
namespace Monero.Edw
open Ed Monero.Keys

/-- the fourth coordinate returned by the permissive decompression is `x·y` -/
theorem decompressDalek_t_keyops (k : ℕ) (P : Pt) (h : decompressDalek k = some P) : P.t = P.x * P.y % Ed.p := by
  unfold decompressDalek at h
  simp only [] at h
  split at h
  · exact absurd h (by simp)
  · simp only [Option.some.injEq] at h
    subst h
    rfl

/-- a successful permissive decompression returns valid (reduced, affine, on-curve) extended coordinates -/
theorem decompressDalek_valid_keyops (k : ℕ) (P : Pt) (h : decompressDalek k = some P) : Valid P := by
  obtain ⟨-, hz, hx, hy, hc, -⟩ := decompressDalek_sound k P h
  have ht := decompressDalek_t_keyops k P h
  have hz1 : ((P.z : ℕ) : F) = 1 := by rw [hz]; simp
  refine ⟨⟨hx, hy, by rw [hz]; exact p_gt_one, by rw [ht]; exact mod_p_lt _⟩, ?_, ?_, ?_⟩
  · rw [hz1]; exact one_ne_zero
  · rw [hz1, ht, cast_mod]; push_cast; ring
  · unfold OnCurve aff dF
    simp only [hz1, div_one]
    linear_combination hc

/-- every group element's encoding is an accepted key -/
theorem publicAccept_enc (A : EdPoint) : publicAccept (edOps.enc A) = true := by
  rw [publicAccept_eq_ref]
  have h := edOps_dec_enc A
  rw [edOps_dec] at h
  cases hd : Ed.decodePt (edOps.enc A) with
  | none => rw [decPoint_none hd] at h; exact absurd h (by simp)
  | some P => rfl

/-- encoding of valid coordinates = encoding of the group element they represent -/
theorem encodePt_eq_enc {P : Pt} (hP : Valid P) : Ed.encodePt P = edOps.enc (toPoint P hP) :=
  refOps_refines_edOps.enc P hP

/-- on an accepted key `point()` does not panic, returns valid coordinates, and they represent the group element that the
strict decoder `edOps.dec` assigns to the bytes -/
theorem keyPoint_of_accept (a : Bytes) (ha : publicAccept a = true) :
    ∃ (P : Pt) (hP : Valid P), keyPoint a = some P ∧ edOps.dec a = some (toPoint P hP) := by
  obtain ⟨hlen, P, hd, he⟩ := (publicAccept_iff a).mp ha
  have hP := decompressDalek_valid_keyops _ P hd
  have hk : keyPoint a = some P := by
    unfold keyPoint
    rw [if_neg (by simp [hlen])]; exact hd
  refine ⟨P, hP, hk, ?_⟩
  have := edOps_dec_enc (toPoint P hP)
  rwa [← encodePt_eq_enc hP, he] at this

/-- an accepted key decodes (strictly) to a group element whose encoding is the key -/
theorem dec_of_accept (a : Bytes) (ha : publicAccept a = true) : ∃ A : EdPoint, edOps.dec a = some A ∧ edOps.enc A = a := by
  obtain ⟨-, P, hd, he⟩ := (publicAccept_iff a).mp ha
  have hP := decompressDalek_valid_keyops _ P hd
  refine ⟨toPoint P hP, ?_, ?_⟩
  · have := edOps_dec_enc (toPoint P hP)
    rwa [← encodePt_eq_enc hP, he] at this
  · rw [← encodePt_eq_enc hP, he]

/-- `point()` of the encoding of a group element: valid coordinates of that element -/
theorem keyPoint_enc (A : EdPoint) : ∃ (P : Pt) (hP : Valid P), keyPoint (edOps.enc A) = some P ∧ toPoint P hP = A := by
  obtain ⟨P, hP, h1, h2⟩ := keyPoint_of_accept _ (publicAccept_enc A)
  refine ⟨P, hP, h1, ?_⟩
  rw [edOps_dec_enc] at h2
  exact (Option.some.inj h2).symm

theorem keyAdd_of_points (a b : Bytes) (P Q : Pt) (h1 : keyPoint a = some P) (h2 : keyPoint b = some Q) :
    keyAdd a b = some (Ed.encodePt (Ed.add P Q)) := by
  unfold keyAdd keyOfPoint
  rw [h1, h2]
theorem keySub_of_points (a b : Bytes) (P Q : Pt) (h1 : keyPoint a = some P) (h2 : keyPoint b = some Q) :
    keySub a b = some (Ed.encodePt (Ed.sub P Q)) := by
  unfold keySub keyOfPoint
  rw [h1, h2]
theorem keySmul_of_point (s a : Bytes) (P : Pt) (h1 : keyPoint a = some P) :
    keySmul s a = some (Ed.encodePt (Ed.smul (Ed.leNat s) P)) := by
  unfold keySmul keyOfPoint
  rw [h1]

theorem keyAdd_enc (A B : EdPoint) : keyAdd (edOps.enc A) (edOps.enc B) = some (edOps.enc (A + B)) := by
  obtain ⟨P, hP, h1, hA⟩ := keyPoint_enc A
  obtain ⟨Q, hQ, h2, hB⟩ := keyPoint_enc B
  rw [keyAdd_of_points _ _ P Q h1 h2, encodePt_eq_enc (valid_add' hP hQ), toPoint_add hP hQ, hA, hB]

theorem keySub_enc (A B : EdPoint) : keySub (edOps.enc A) (edOps.enc B) = some (edOps.enc (A - B)) := by
  obtain ⟨P, hP, h1, hA⟩ := keyPoint_enc A
  obtain ⟨Q, hQ, h2, hB⟩ := keyPoint_enc B
  rw [keySub_of_points _ _ P Q h1 h2, encodePt_eq_enc (valid_sub' hP hQ), toPoint_sub hP hQ, hA, hB]

theorem keySmul_enc (s : Bytes) (hs : Ed.leNat s < 2 ^ 260) (A : EdPoint) :
    keySmul s (edOps.enc A) = some (edOps.enc (Ed.leNat s • A)) := by
  obtain ⟨P, hP, h1, hA⟩ := keyPoint_enc A
  rw [keySmul_of_point _ _ P h1, encodePt_eq_enc (valid_smul' _ hP), toPoint_smul hs hP, hA]
theorem keyPubOf_eq (s : Bytes) (hs : Ed.leNat s < 2 ^ 260) : keyPubOf s = edOps.enc (Ed.leNat s • edOps.base) := by
  unfold keyPubOf keyOfPoint
  rw [encodePt_eq_enc (valid_smul' _ G_valid), toPoint_smul hs G_valid, edOps_base]

theorem secret_lt_260 (s : Bytes) (hs : secretAccept s = true) : Ed.leNat s < 2 ^ 260 :=
  Nat.lt_trans ((secretAccept_iff s).mp hs).2 l_lt_260

theorem l_lt_256_32 : Ed.l < 256 ^ 32 := by decide

/-- a reduced value written on 32 bytes is an accepted secret key with that value -/
theorem secretAccept_toBytesLE (n : ℕ) (hn : n < Ed.l) :
    secretAccept (Ed.toBytesLE n 32) = true ∧ Ed.leNat (Ed.toBytesLE n 32) = n := by
  have hv : Ed.leNat (Ed.toBytesLE n 32) = n := Ed.leNat_toBytesLE 32 n (Nat.lt_trans hn l_lt_256_32)
  exact ⟨(secretAccept_iff _).mpr ⟨Ed.length_toBytesLE _ _, by rw [hv]; exact hn⟩, hv⟩

end Monero.Edw
