import MoneroModel.Model.TreeHash
/-! C06 helper lemmas, part 1: list-level (functional) versions of the two in-place loops of `tree_hash`, their
closed forms, the count loop, and the simulation of the array loops of the model by the list loops. Core Lean only. -/
namespace Monero
namespace TreeHash
variable {α : Type} (H : α → α → α)

/-- take `n` adjacent pairs from the front of a list -/
def pairs : Nat → List α → List α
  | 0, _ => []
  | n+1, a :: b :: t => H a b :: pairs n t
  | _+1, _ => []

/-- `phase1` on lists -/
def phase1L : Nat → List α → Nat → Nat → Nat → Option (List α × Nat)
  | 0, hs, i, _, _ => some (hs, i)
  | f+1, hs, i, j, cnt =>
    if j < cnt then
      match hs[i]?, hs[i+1]? with
      | some a, some b =>
        if j < hs.length then phase1L f (hs.set j (H a b)) (i+2) (j+1) cnt else none
      | _, _ => none
    else some (hs, i)

theorem pairs_drop (hs : List α) (i n : Nat) (a b : α) (ha : hs[i]? = some a) (hb : hs[i+1]? = some b) :
    pairs H (n+1) (hs.drop i) = H a b :: pairs H n (hs.drop (i+2)) := by
  have hi : i < hs.length := by
    rcases Nat.lt_or_ge i hs.length with h | h
    · exact h
    · simp [List.getElem?_eq_none h] at ha
  have hi1 : i + 1 < hs.length := by
    rcases Nat.lt_or_ge (i+1) hs.length with h | h
    · exact h
    · simp [List.getElem?_eq_none h] at hb
  have e1 : hs.drop i = hs[i] :: hs.drop (i+1) := List.drop_eq_getElem_cons hi
  have e2 : hs.drop (i+1) = hs[i+1] :: hs.drop (i+2) := List.drop_eq_getElem_cons hi1
  have ha' : hs[i] = a := by simpa [List.getElem?_eq_getElem hi] using ha
  have hb' : hs[i+1] = b := by simpa [List.getElem?_eq_getElem hi1] using hb
  rw [e1, e2, ha', hb']; rfl

/-- closed form of the first loop: slots `j..cnt` receive the pair hashes of the entries from `i` on; reads never
see a slot already overwritten (`j ≤ i`) -/
theorem phase1L_spec : ∀ (f : Nat) (hs : List α) (i j cnt : Nat),
    j ≤ i → j ≤ cnt → cnt - j ≤ f → i + 2 * (cnt - j) ≤ hs.length → cnt ≤ hs.length →
    phase1L H f hs i j cnt =
      some (hs.take j ++ pairs H (cnt - j) (hs.drop i) ++ hs.drop cnt, i + 2 * (cnt - j)) := by
  intro f
  induction f with
  | zero =>
    intro hs i j cnt hji hjc hf _ _
    have : cnt - j = 0 := by omega
    have hcj : cnt = j := by omega
    subst hcj
    simp [phase1L, pairs]
  | succ f ih =>
    intro hs i j cnt hji hjc hf hlen hclen
    unfold phase1L
    by_cases hlt : j < cnt
    · simp only [hlt, if_true]
      have hi : i < hs.length := by omega
      have hi1 : i + 1 < hs.length := by omega
      have hjl : j < hs.length := by omega
      rw [List.getElem?_eq_getElem hi, List.getElem?_eq_getElem hi1]
      simp only [hjl, if_true]
      have hlen' : (hs.set j (H hs[i] hs[i+1])).length = hs.length := List.length_set
      rw [ih (hs.set j (H hs[i] hs[i+1])) (i+2) (j+1) cnt (by omega) (by omega) (by omega)
            (by rw [hlen']; omega) (by rw [hlen']; omega)]
      have hsub : cnt - j = (cnt - (j+1)) + 1 := by omega
      have hpd := pairs_drop H hs i (cnt - (j+1)) hs[i] hs[i+1]
        (List.getElem?_eq_getElem hi) (List.getElem?_eq_getElem hi1)
      rw [hsub, hpd]
      have d1 : (hs.set j (H hs[i] hs[i+1])).drop (i+2) = hs.drop (i+2) :=
        List.drop_set_of_lt (by omega)
      have d2 : (hs.set j (H hs[i] hs[i+1])).drop cnt = hs.drop cnt :=
        List.drop_set_of_lt (by omega)
      have t1 : (hs.set j (H hs[i] hs[i+1])).take (j+1) = hs.take j ++ [H hs[i] hs[i+1]] := by
        rw [List.take_add_one, List.take_set_of_le (by omega)]
        simp [List.getElem?_set_self hjl]
      rw [d1, d2, t1]
      have : i + 2 + 2 * (cnt - (j + 1)) = i + 2 * (cnt - (j + 1) + 1) := by omega
      simp [this]
    · have hcj : cnt = j := by omega
      subst hcj
      simp [pairs]

/-! ### the count loop -/

theorem cntLoop_spec : ∀ (f k count : Nat), 1 ≤ k → 2^(k-1) < count → count ≤ 2^(k + f) → count ≤ 2^63 →
    ∃ m, k ≤ m ∧ cntLoop f (2^k) count = 2^m ∧ 2^(m-1) < count ∧ count ≤ 2^m := by
  intro f; induction f with
  | zero => intro k count hk hlo hhi _; exact ⟨k, Nat.le_refl _, rfl, hlo, by simpa using hhi⟩
  | succ f ih =>
    intro k count hk hlo hhi h63
    simp only [cntLoop]
    by_cases hlt : 2^k < count
    · simp only [hlt, if_true]
      have hp : 2^k * 2 = 2^(k+1) := by rw [Nat.pow_succ]
      have hm : 2^k * 2 % 2^64 = 2^(k+1) := by
        rw [hp]; apply Nat.mod_eq_of_lt
        have : 2^(k+1) < 2 * 2^63 := by rw [← hp]; omega
        have e : (2:Nat)^64 = 2 * 2^63 := by decide
        omega
      rw [hm]
      obtain ⟨m, hm, h1, h2, h3⟩ := ih (k+1) count (by omega) (by simpa using hlt)
        (by rw [show k + 1 + f = k + (f + 1) by omega]; exact hhi) h63
      exact ⟨m, by omega, h1, h2, h3⟩
    · simp only [hlt, if_false]
      exact ⟨k, Nat.le_refl _, rfl, hlo, by omega⟩

theorem treeHashCnt_spec (count : Nat) (h3 : 3 ≤ count) (hmax : count ≤ 2^28) :
    ∃ m, 1 ≤ m ∧ treeHashCnt count = some (2^m) ∧ 2^m < count ∧ count ≤ 2^(m+1) := by
  have h63 : count ≤ 2^63 := by
    have : (2:Nat)^28 ≤ 2^63 := by decide
    omega
  obtain ⟨m, hm, h1, h2, h3'⟩ := cntLoop_spec 64 1 count (Nat.le_refl _) (by simp; omega)
    (by have : (2:Nat)^28 ≤ 2^(1+64) := by decide
        omega) h63
  have hm2 : 2 ≤ m := by
    rcases Nat.lt_or_ge m 2 with h | h
    · have : m = 1 := by omega
      subst this; simp at h3'; omega
    · exact h
  refine ⟨m - 1, by omega, ?_, ?_, ?_⟩
  · unfold treeHashCnt
    have hmax' : count ≤ 0x10000000 := by
      have : (2:Nat)^28 = 0x10000000 := by decide
      omega
    have hge : count ≥ 3 := h3
    simp only [hge, hmax', not_true_eq_false, if_false]
    have e : cntLoop 64 (2^1) count = cntLoop 64 2 count := by simp
    rw [← e, h1]
    have : 2^m = 2^(m-1) * 2 := by rw [← Nat.pow_succ]; congr 1; omega
    rw [this]; simp
  · exact h2
  · have : m - 1 + 1 = m := by omega
    rw [this]; exact h3'

/-! ### phase 2 on lists -/

def phase2L : Nat → List α → Nat → Option (List α)
  | 0, hs, _ => some hs
  | f+1, hs, cnt =>
    if cnt > 2 then
      match phase1L H (cnt / 2) hs 0 0 (cnt / 2) with
      | some (hs', _) => phase2L f hs' (cnt / 2)
      | none => none
    else some hs

/-- perfect binary tree (level by level) over the first `2^m` entries of a list -/
def treeOf : Nat → List α → Option α
  | 0, l => l[0]?
  | m+1, l => treeOf m (pairs H (2^m) l)

theorem pairs_length : ∀ (n : Nat) (l : List α), 2 * n ≤ l.length → (pairs H n l).length = n
  | 0, _, _ => rfl
  | n+1, [], h => by simp at h
  | n+1, [_], h => by simp at h; omega
  | n+1, a :: b :: t, h => by
    simp only [pairs, List.length_cons]
    rw [pairs_length n t (by simp at h; omega)]

theorem pairs_append : ∀ (n : Nat) (l l' : List α), 2 * n ≤ l.length → pairs H n (l ++ l') = pairs H n l
  | 0, _, _, _ => rfl
  | n+1, [], _, h => by simp at h
  | n+1, [_], _, h => by simp at h; omega
  | n+1, a :: b :: t, l', h => by
    simp only [List.cons_append, pairs]
    rw [pairs_append n t l' (by simp at h; omega)]

theorem treeOf_append : ∀ (m : Nat) (l l' : List α), 2^m ≤ l.length → treeOf H m (l ++ l') = treeOf H m l
  | 0, l, l', h => by
    simp only [treeOf]
    have : 0 < l.length := by simp at h; omega
    rw [List.getElem?_append_left this]
  | m+1, l, l', h => by
    simp only [treeOf]
    have h2 : 2 * 2^m ≤ l.length := by rw [Nat.pow_succ] at h; omega
    rw [pairs_append H (2^m) l l' h2]

/-- after phase 2 started at `cnt = 2^(m+1)`, combining the first two slots gives the perfect tree -/
theorem phase2L_spec : ∀ (m f : Nat) (hs : List α), m ≤ f → 2^(m+1) ≤ hs.length →
    ∃ hs', phase2L H f hs (2^(m+1)) = some hs' ∧
      (match hs'[0]?, hs'[1]? with | some a, some b => some (H a b) | _, _ => none) = treeOf H (m+1) hs := by
  intro m; induction m with
  | zero =>
    intro f hs _ hlen
    refine ⟨hs, ?_, ?_⟩
    · cases f with
      | zero => rfl
      | succ f => simp [phase2L]
    · simp only [treeOf, Nat.pow_zero]
      match hs, hlen with
      | a :: b :: t, _ => simp [pairs]
  | succ m ih =>
    intro f hs hf hlen
    cases f with
    | zero => omega
    | succ f =>
      have hpow : 2^(m+1+1) = 2 * 2^(m+1) := by rw [Nat.pow_succ]; omega
      have hgt : 2^(m+1+1) > 2 := by
        have : 1 ≤ 2^m := Nat.one_le_two_pow
        rw [hpow, Nat.pow_succ]; omega
      have hhalf : 2^(m+1+1) / 2 = 2^(m+1) := by rw [hpow]; simp
      simp only [phase2L, hgt, if_true, hhalf]
      have hp := phase1L_spec H (2^(m+1)) hs 0 0 (2^(m+1)) (Nat.le_refl _) (Nat.zero_le _) (by simp)
        (by rw [hpow] at hlen; simpa using hlen) (by rw [hpow] at hlen; omega)
      rw [hp]
      simp only [List.take_zero, List.nil_append, Nat.sub_zero, List.drop_zero]
      have hl1 : (pairs H (2^(m+1)) hs).length = 2^(m+1) := pairs_length H _ _ (by rw [hpow] at hlen; exact hlen)
      obtain ⟨hs', h1, h2⟩ := ih f (pairs H (2^(m+1)) hs ++ hs.drop (2^(m+1))) (by omega)
        (by simp [hl1])
      refine ⟨hs', h1, ?_⟩
      rw [h2, treeOf_append H (m+1) _ _ (by rw [hl1]; exact Nat.le_refl _)]
      rfl

/-! ### the array loops of the model are the list loops -/

theorem phase1_toList : ∀ (f : Nat) (hs : Array α) (i j cnt : Nat),
    (phase1 H f hs i j cnt).map (fun p => (p.1.toList, p.2)) = phase1L H f hs.toList i j cnt := by
  intro f
  induction f with
  | zero => intro hs i j cnt; rfl
  | succ f ih =>
    intro hs i j cnt
    unfold phase1 phase1L
    by_cases hlt : j < cnt
    · simp only [hlt, if_true, Array.getElem?_toList, Array.length_toList]
      cases h1 : hs[i]? with
      | none => simp
      | some a =>
        cases h2 : hs[i+1]? with
        | none => simp
        | some b =>
          simp only
          by_cases hj : j < hs.size
          · simp only [hj, dite_true, if_true]
            rw [ih]; simp
          · simp [hj]
    · simp [hlt]

theorem halve_eq_phase1 : ∀ (f : Nat) (hs : Array α) (i cnt : Nat),
    halve H f hs i cnt = (phase1 H f hs (2*i) i cnt).map (fun p => p.1) := by
  intro f
  induction f with
  | zero => intro hs i cnt; rfl
  | succ f ih =>
    intro hs i cnt
    unfold halve phase1
    by_cases hlt : i < cnt
    · simp only [hlt, if_true]
      cases h1 : hs[2*i]? with
      | none => simp
      | some a =>
        cases h2 : hs[2*i+1]? with
        | none => simp
        | some b =>
          simp only
          by_cases hj : i < hs.size
          · simp only [hj, dite_true]
            rw [ih]; rfl
          · simp [hj]
    · simp [hlt]

theorem phase2_toList : ∀ (f : Nat) (hs : Array α) (cnt : Nat),
    (phase2 H f hs cnt).map Array.toList = phase2L H f hs.toList cnt := by
  intro f
  induction f with
  | zero => intro hs cnt; rfl
  | succ f ih =>
    intro hs cnt
    unfold phase2 phase2L
    by_cases hgt : cnt > 2
    · simp only [hgt, if_true]
      rw [halve_eq_phase1, ← phase1_toList]
      cases h : phase1 H (cnt / 2) hs (2 * 0) 0 (cnt / 2) with
      | none => simp at h ⊢
      | some p => simp at h ⊢; simp [ih]
    · simp [hgt]

end TreeHash
end Monero
