import MoneroModel.Proofs.VarIntImp
open Monero

/-! Helper lemmas for C14 that tie `Spec.leb128` to the independent valuation `Spec.readGroups` / `Spec.valOf`,
verify the closed-form length `Spec.leb128Len`, and give the decoder's behaviour on continuation-only prefixes.
Core Lean only. -/
namespace VarIntSpec

theorem ofNat_toNat (x : UInt8) : UInt8.ofNat x.toNat = x := by
  apply UInt8.toNat_inj.1
  rw [toNat_ofNat_lt _ x.toNat_lt]

/-- reading the canonical string of `n` (followed by anything) yields groups that value to `n` and consumes exactly
the canonical string -/
theorem readGroups_leb128 (r : List UInt8) : ∀ n, ∃ gs,
    Spec.readGroups (Spec.leb128 n ++ r) = some (gs, (Spec.leb128 n).length) ∧ Spec.valOf gs = n := by
  intro n
  induction n using Nat.strongRecOn with
  | _ n ih =>
    rw [Spec.leb128]
    by_cases hlt : n < 128
    · have ht : (UInt8.ofNat n).toNat = n := toNat_ofNat_lt n (by omega)
      refine ⟨[n], ?_, by simp [Spec.valOf]⟩
      simp [hlt, Spec.readGroups, ht]
    · obtain ⟨gs, h1, h2⟩ := ih (n / 128) (by omega)
      have ht : (UInt8.ofNat (128 + n % 128)).toNat = 128 + n % 128 := toNat_ofNat_lt _ (by omega)
      have hge : ¬ (128 + n % 128 < 128) := by omega
      refine ⟨(n % 128) :: gs, ?_, by simp only [Spec.valOf, h2]; omega⟩
      simp only [hlt, dif_neg, not_false_eq_true, List.cons_append, Spec.readGroups, ht, hge, if_false, h1,
        List.length_cons, Nat.add_sub_cancel_left]

theorem readGroups_pos : ∀ (b : List UInt8) gs k, Spec.readGroups b = some (gs, k) → 1 ≤ k ∧ k ≤ b.length
  | [], _, _, h => by simp [Spec.readGroups] at h
  | x :: xs, gs, k, h => by
    simp only [Spec.readGroups] at h
    split at h
    · simp at h; obtain ⟨_, rfl⟩ := h; simp
    · cases h' : Spec.readGroups xs with
      | none => simp [h'] at h
      | some p =>
        obtain ⟨gs', k'⟩ := p
        simp [h'] at h; obtain ⟨_, rfl⟩ := h
        have := readGroups_pos xs gs' k' h'
        simp; omega

/-- minimality and uniqueness: any terminated base-128 string whose groups value to `n` is at least as long as
`leb128 n`, and one of the same length IS `leb128 n` -/
theorem shortest : ∀ (b : List UInt8) (gs : List Nat) (k n : Nat),
    Spec.readGroups b = some (gs, k) → Spec.valOf gs = n →
    (Spec.leb128 n).length ≤ k ∧ ((Spec.leb128 n).length = k → b.take k = Spec.leb128 n)
  | [], _, _, _, h, _ => by simp [Spec.readGroups] at h
  | x :: xs, gs, k, n, h, hv => by
    simp only [Spec.readGroups] at h
    split at h
    · rename_i hlt
      simp at h; obtain ⟨rfl, rfl⟩ := h
      simp [Spec.valOf] at hv; subst hv
      rw [Spec.leb128]; simp [hlt]
    · rename_i hge
      cases h' : Spec.readGroups xs with
      | none => simp [h'] at h
      | some p =>
        obtain ⟨gs', k'⟩ := p
        simp [h'] at h; obtain ⟨rfl, rfl⟩ := h
        have hx : x.toNat < 256 := x.toNat_lt
        obtain ⟨ih1, ih2⟩ := shortest xs gs' k' (Spec.valOf gs') h' rfl
        obtain ⟨hk1, _⟩ := readGroups_pos xs gs' k' h'
        simp only [Spec.valOf] at hv
        rw [Spec.leb128]
        by_cases hn : n < 128
        · simp only [hn, dif_pos, List.length_singleton]
          exact ⟨by omega, fun e => by omega⟩
        · have e1 : n % 128 = x.toNat - 128 := by omega
          have e2 : n / 128 = Spec.valOf gs' := by omega
          have e3 : 128 + (x.toNat - 128) = x.toNat := by omega
          simp only [hn, dif_neg, not_false_eq_true, List.length_cons, e1, e2, e3, ofNat_toNat]
          refine ⟨by omega, fun e => ?_⟩
          rw [List.take_succ_cons, ih2 (by omega)]

/-- `leb128` is a prefix code: no canonical string is a prefix of (a continuation of) another -/
theorem leb128_prefix_free : ∀ (n m : Nat) (r r' : List UInt8),
    Spec.leb128 n ++ r = Spec.leb128 m ++ r' → n = m := by
  intro n
  induction n using Nat.strongRecOn with
  | _ n ih =>
    intro m r r' he
    rw [Spec.leb128, Spec.leb128.eq_1 m] at he
    by_cases hn : n < 128 <;> by_cases hm : m < 128
    · simp [hn, hm] at he
      have := congrArg UInt8.toNat he.1
      rwa [toNat_ofNat_lt _ (by omega), toNat_ofNat_lt _ (by omega)] at this
    · simp only [hn, hm, dif_pos, dif_neg, not_false_eq_true, List.cons_append, List.cons.injEq] at he
      have := congrArg UInt8.toNat he.1
      rw [toNat_ofNat_lt _ (by omega), toNat_ofNat_lt _ (by omega)] at this
      omega
    · simp only [hn, hm, dif_pos, dif_neg, not_false_eq_true, List.cons_append, List.cons.injEq] at he
      have := congrArg UInt8.toNat he.1
      rw [toNat_ofNat_lt _ (by omega), toNat_ofNat_lt _ (by omega)] at this
      omega
    · simp only [hn, hm, dif_neg, not_false_eq_true, List.cons_append, List.cons.injEq] at he
      have := congrArg UInt8.toNat he.1
      rw [toNat_ofNat_lt _ (by omega), toNat_ofNat_lt _ (by omega)] at this
      have := ih (n / 128) (by omega) (m / 128) r r' he.2
      omega

theorem pow128 (k : Nat) : 128 ^ k = 2 ^ (7 * k) := by
  rw [Nat.pow_mul]

/-- the closed form printed by the oracle, `⌊log2 n / 7⌋ + 1` (1 for 0), is the length of `leb128 n` -/
theorem leb128_length (n : Nat)
    (hb : 1 ≤ (Spec.leb128 n).length ∧ n < 128 ^ (Spec.leb128 n).length ∧
      (1 < (Spec.leb128 n).length → 128 ^ ((Spec.leb128 n).length - 1) ≤ n)) :
    (Spec.leb128 n).length = Spec.leb128Len n := by
  obtain ⟨h1, h2, h3⟩ := hb
  unfold Spec.leb128Len
  by_cases h0 : n = 0
  · subst h0; rw [Spec.leb128]; simp
  · simp only [h0, if_false]
    rw [pow128] at h2
    have hlt : n.log2 < 7 * (Spec.leb128 n).length := (Nat.log2_lt h0).2 h2
    have hle : 7 * ((Spec.leb128 n).length - 1) ≤ n.log2 := by
      by_cases hk : 1 < (Spec.leb128 n).length
      · have := h3 hk
        rw [pow128] at this
        exact (Nat.le_log2 h0).2 this
      · have : (Spec.leb128 n).length - 1 = 0 := by omega
        rw [this]; omega
    omega

/-! ### the model decoder on a continuation-only prefix -/

theorem collect_cont (t : Bytes) : ∀ (p : Bytes) (acc : List Nat), (∀ x ∈ p, 128 ≤ x.toNat) →
    collect (p ++ t) acc = collect t (acc ++ p.map (fun x => x.toNat % 128))
  | [], acc, _ => by simp
  | x :: xs, acc, h => by
    have hx : 128 ≤ x.toNat := h x (by simp)
    have h0 : ¬ (x.toNat = 0 ∧ acc ≠ []) := by omega
    have h1 : ¬ (x.toNat < 128) := by omega
    simp only [List.cons_append, collect, h0, h1, if_false]
    rw [collect_cont t xs _ (fun y hy => h y (by simp [hy]))]
    simp

end VarIntSpec
