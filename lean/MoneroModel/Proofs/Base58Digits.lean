import MoneroModel.Ref.Base58
/-! Positional-notation lemmas for the base-58 reference: fixed-width digit strings ↔ numbers below `B ^ k`. -/
namespace Base58

theorem toLE_length (B : Nat) : ∀ k n, (toLE B k n).length = k
  | 0, _ => rfl
  | k + 1, n => by simp [toLE, toLE_length B k]

theorem toLE_lt (B : Nat) (hB : 0 < B) : ∀ k n, ∀ d ∈ toLE B k n, d < B
  | 0, _, d, h => by simp [toLE] at h
  | k + 1, n, d, h => by
    simp only [toLE, List.mem_cons] at h
    rcases h with rfl | h
    · exact Nat.mod_lt _ hB
    · exact toLE_lt B hB k _ d h

/-- the value of the `k` low digits is `n mod B^k` -/
theorem ofLE_toLE (B : Nat) : ∀ k n, ofLE B (toLE B k n) = n % B ^ k
  | 0, n => by simp [toLE, ofLE, Nat.mod_one]
  | k + 1, n => by
    simp only [toLE, ofLE, ofLE_toLE B k]
    rw [Nat.pow_succ', Nat.mod_mul]

theorem ofLE_lt (B : Nat) : ∀ ds : List Nat, (∀ d ∈ ds, d < B) → ofLE B ds < B ^ ds.length
  | [], _ => by simp [ofLE]
  | d :: ds, h => by
    have hd : d < B := h d (List.mem_cons_self ..)
    have ih := ofLE_lt B ds (fun x hx => h x (List.mem_cons_of_mem _ hx))
    simp only [ofLE, List.length_cons, Nat.pow_succ']
    have : B * (ofLE B ds + 1) ≤ B * B ^ ds.length := Nat.mul_le_mul_left B ih
    rw [Nat.mul_add, Nat.mul_one] at this
    omega

/-- a digit string is recovered from its value -/
theorem toLE_ofLE (B : Nat) : ∀ ds : List Nat, (∀ d ∈ ds, d < B) → toLE B ds.length (ofLE B ds) = ds
  | [], _ => rfl
  | d :: ds, h => by
    have hd : d < B := h d (List.mem_cons_self ..)
    have hB : 0 < B := by omega
    have ih := toLE_ofLE B ds (fun x hx => h x (List.mem_cons_of_mem _ hx))
    simp only [List.length_cons, toLE, ofLE]
    rw [Nat.add_mul_mod_self_left, Nat.mod_eq_of_lt hd, Nat.add_mul_div_left _ _ hB, Nat.div_eq_of_lt hd, Nat.zero_add, ih]

theorem toDigits_length (B k n : Nat) : (toDigits B k n).length = k := by simp [toDigits, toLE_length]
theorem toDigits_lt (B : Nat) (hB : 0 < B) (k n : Nat) : ∀ d ∈ toDigits B k n, d < B := by
  intro d h; exact toLE_lt B hB k n d (by simpa [toDigits] using h)
theorem ofDigits_toDigits (B k n : Nat) (h : n < B ^ k) : ofDigits B (toDigits B k n) = n := by
  simp [ofDigits, toDigits, ofLE_toLE, Nat.mod_eq_of_lt h]
theorem ofDigits_lt (B : Nat) (ds : List Nat) (h : ∀ d ∈ ds, d < B) : ofDigits B ds < B ^ ds.length := by
  have := ofLE_lt B ds.reverse (by simpa using h)
  simpa [ofDigits] using this
theorem toDigits_ofDigits (B : Nat) (ds : List Nat) (h : ∀ d ∈ ds, d < B) : toDigits B ds.length (ofDigits B ds) = ds := by
  have := toLE_ofLE B ds.reverse (by simpa using h)
  simp only [List.length_reverse] at this
  simp [toDigits, ofDigits, this]
end Base58
