import MoneroModel.Proofs.Base58Digits
/-! Per-block bijection of the base-58 reference: a block of `k ≤ 8` bytes ↔ `encSize k` alphabet characters whose
value is below `256 ^ k`. -/
namespace Base58

/-! ### the alphabet -/
theorem digitOf_charOf : ∀ d, d < 58 → digitOf (charOf d) = some d := by decide +kernel

private def digitOk (n : Nat) : Bool :=
  match digitOf (UInt8.ofNat n) with
  | some d => decide (d < 58) && charOf d == UInt8.ofNat n
  | none => true
private theorem digitOf_table : ∀ n, n < 256 → digitOk n = true := by decide +kernel

theorem digitOf_some (c : UInt8) (d : Nat) (h : digitOf c = some d) : d < 58 ∧ charOf d = c := by
  have := digitOf_table c.toNat c.toNat_lt
  simp only [digitOk, UInt8.ofNat_toNat, h, Bool.and_eq_true, decide_eq_true_eq, beq_iff_eq] at this
  exact this

theorem digitsOf_map_charOf : ∀ ds : List Nat, (∀ d ∈ ds, d < 58) → digitsOf (ds.map charOf) = some ds
  | [], _ => rfl
  | d :: ds, h => by
    have ih := digitsOf_map_charOf ds (fun x hx => h x (List.mem_cons_of_mem _ hx))
    simp only [List.map_cons, digitsOf, digitOf_charOf d (h d (List.mem_cons_self ..)), ih]

theorem digitsOf_some : ∀ (cs : List UInt8) (ds : List Nat), digitsOf cs = some ds →
    ds.map charOf = cs ∧ (∀ d ∈ ds, d < 58) ∧ ds.length = cs.length
  | [], ds, h => by
    simp only [digitsOf, Option.some.injEq] at h
    subst h; simp
  | c :: cs, ds, h => by
    simp only [digitsOf] at h
    cases hd : digitOf c with
    | none => simp [hd] at h
    | some d =>
      cases hr : digitsOf cs with
      | none => simp [hd, hr] at h
      | some r =>
        simp only [hd, hr, Option.some.injEq] at h
        subst h
        obtain ⟨h1, h2, h3⟩ := digitsOf_some cs r hr
        obtain ⟨g1, g2⟩ := digitOf_some c d hd
        refine ⟨by simp [h1, g2], ?_, by simp [h3]⟩
        intro x hx
        rcases List.mem_cons.1 hx with rfl | hx
        · exact g1
        · exact h2 x hx

/-! ### the size table -/
theorem decSize_encSize (k : Nat) (h : k ≤ 8) : decSize (encSize k) = some k := by
  have : k = 0 ∨ k = 1 ∨ k = 2 ∨ k = 3 ∨ k = 4 ∨ k = 5 ∨ k = 6 ∨ k = 7 ∨ k = 8 := by omega
  rcases this with rfl | rfl | rfl | rfl | rfl | rfl | rfl | rfl | rfl <;> rfl

theorem decSize_some (s k : Nat) (h : decSize s = some k) : k ≤ 8 ∧ encSize k = s := by
  unfold decSize at h
  split at h <;> simp at h <;> subst h <;> simp [encSize]

/-- the characters of a block are enough for every value of its bytes -/
theorem pow_le (k : Nat) (h : k ≤ 8) : 256 ^ k ≤ 58 ^ encSize k := by
  have : k = 0 ∨ k = 1 ∨ k = 2 ∨ k = 3 ∨ k = 4 ∨ k = 5 ∨ k = 6 ∨ k = 7 ∨ k = 8 := by omega
  rcases this with rfl | rfl | rfl | rfl | rfl | rfl | rfl | rfl | rfl <;> decide

theorem encSize_le (k : Nat) : encSize k ≤ 11 := by
  unfold encSize; split <;> omega
theorem encSize_pos (k : Nat) (h0 : 0 < k) (h : k ≤ 8) : 2 ≤ encSize k := by
  have : k = 1 ∨ k = 2 ∨ k = 3 ∨ k = 4 ∨ k = 5 ∨ k = 6 ∨ k = 7 ∨ k = 8 := by omega
  rcases this with rfl | rfl | rfl | rfl | rfl | rfl | rfl | rfl <;> decide

/-! ### bytes as base-256 digits -/
theorem bytes_lt (data : Bytes) : ∀ d ∈ data.map (·.toNat), d < 256 := by
  intro d h
  obtain ⟨b, _, rfl⟩ := List.mem_map.1 h
  exact b.toNat_lt

theorem map_ofNat_toNat (data : Bytes) : (data.map (·.toNat)).map UInt8.ofNat = data := by
  induction data with
  | nil => rfl
  | cons b r ih => simp only [List.map_cons, UInt8.ofNat_toNat, ih]

theorem map_toNat_ofNat : ∀ ds : List Nat, (∀ d ∈ ds, d < 256) → (ds.map UInt8.ofNat).map (·.toNat) = ds
  | [], _ => rfl
  | d :: ds, h => by
    have hd : d < 256 := h d (List.mem_cons_self ..)
    have ih := map_toNat_ofNat ds (fun x hx => h x (List.mem_cons_of_mem _ hx))
    have e : (UInt8.ofNat d).toNat = d := by
      show (UInt8.ofNat d).toNat = d
      simp only [UInt8.toNat_ofNat']
      omega
    simp only [List.map_cons, e, ih]

/-! ### the block bijection -/
theorem encodeBlock_length (data : Bytes) : (encodeBlock data).length = encSize data.length := by
  simp [encodeBlock, toDigits_length]

/-- decoding an encoded block gives the block back -/
theorem decodeBlock_encodeBlock (data : Bytes) (h : data.length ≤ 8) : decodeBlock (encodeBlock data) = some data := by
  have hn : ofDigits 256 (data.map (·.toNat)) < 256 ^ data.length := by
    have := ofDigits_lt 256 (data.map (·.toNat)) (bytes_lt data)
    simpa using this
  have hn58 : ofDigits 256 (data.map (·.toNat)) < 58 ^ encSize data.length := Nat.lt_of_lt_of_le hn (pow_le _ h)
  unfold decodeBlock
  rw [encodeBlock_length, decSize_encSize _ h]
  simp only [encodeBlock]
  rw [digitsOf_map_charOf _ (toDigits_lt 58 (by decide) _ _)]
  simp only [ofDigits_toDigits 58 _ _ hn58, hn, if_true]
  have := toDigits_ofDigits 256 (data.map (·.toNat)) (bytes_lt data)
  rw [List.length_map] at this
  rw [this, map_ofNat_toNat]

/-- an accepted block of text is the encoding of the bytes returned -/
theorem encodeBlock_of_decodeBlock (cs : List UInt8) (b : Bytes) (h : decodeBlock cs = some b) :
    encodeBlock b = cs ∧ b.length ≤ 8 ∧ encSize b.length = cs.length := by
  unfold decodeBlock at h
  cases hk : decSize cs.length with
  | none => simp [hk] at h
  | some k =>
    cases hd : digitsOf cs with
    | none => simp [hk, hd] at h
    | some ds =>
      simp only [hk, hd] at h
      by_cases hlt : ofDigits 58 ds < 256 ^ k
      · simp only [hlt, if_true, Option.some.injEq] at h
        obtain ⟨hk8, hsz⟩ := decSize_some _ _ hk
        obtain ⟨hmap, hds, hlen⟩ := digitsOf_some cs ds hd
        have hbl : b.length = k := by rw [← h]; simp [toDigits_length]
        refine ⟨?_, by omega, by rw [hbl]; exact hsz⟩
        unfold encodeBlock
        rw [hbl, ← h, map_toNat_ofNat _ (toDigits_lt 256 (by decide) _ _), ofDigits_toDigits 256 _ _ hlt, hsz, ← hlen,
          toDigits_ofDigits 58 ds hds, hmap]
      · simp [hlt] at h
end Base58
