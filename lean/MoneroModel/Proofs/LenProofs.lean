import MoneroModel.Model.Len
import MoneroModel.Proofs.VarIntImp
open Monero
/-! reported length = number of bytes written, for every encoder -/

theorem lenVarint_eq (n : Nat) : lenVarint n = (encVarint n).length := by
  unfold lenVarint; rw [encVarintImp_eq]

theorem foldl_add_eq {α} (l : α → Nat) (xs : List α) (a : Nat) :
    xs.foldl (fun acc x => acc + l x) a = a + (xs.map l).sum := by
  induction xs generalizing a with
  | nil => simp
  | cons x xs ih => simp [List.foldl_cons, ih]; omega

theorem lenSized_eq {α} (l : α → Nat) (e : α → Bytes) (h : ∀ x, l x = (e x).length) (xs : List α) :
    lenSized l xs = (encSized e xs).length := by
  unfold lenSized encSized
  rw [foldl_add_eq]
  induction xs with
  | nil => simp
  | cons x xs ih => simp [h x] at ih ⊢; omega

theorem lenVec_eq {α} (l : α → Nat) (e : α → Bytes) (h : ∀ x, l x = (e x).length) (xs : List α) :
    lenVec l xs = (encVec e xs).length := by
  have := lenSized_eq l e h xs
  unfold lenSized at this
  rw [foldl_add_eq] at this
  unfold lenVec encVec
  rw [foldl_add_eq, lenVarint_eq, List.length_append]
  unfold encSized at this
  omega

theorem lenBytes_eq (b : Bytes) : lenBytes b = b.length := by
  unfold lenBytes lenSized; rw [foldl_add_eq]; induction b with
  | nil => simp
  | cons a t ih => simp at ih ⊢; omega
theorem lenBytes_eq' (b : Bytes) : lenBytes b = (id b).length := lenBytes_eq b

theorem lenTxIn_eq (x : TxIn) : lenTxIn x = (encTxIn x).length := by
  cases x with
  | gen h => simp [lenTxIn, encTxIn, lenVarint_eq]; omega
  | toKey a o k =>
    simp [lenTxIn, encTxIn, lenVarint_eq, lenVec_eq lenVarint encVarint lenVarint_eq, lenBytes_eq]; omega
theorem lenTarget_eq (x : Target) : lenTarget x = (encTarget x).length := by
  cases x <;> simp [lenTarget, encTarget, lenBytes_eq] <;> omega
theorem lenTxOut_eq (x : TxOut) : lenTxOut x = (encTxOut x).length := by
  simp [lenTxOut, encTxOut, lenVarint_eq, lenTarget_eq]
theorem lenPrefix_eq (p : Prefix) : lenPrefix p = (encPrefix p).length := by
  simp [lenPrefix, encPrefix, lenVarint_eq, lenVec_eq lenTxIn encTxIn lenTxIn_eq, lenVec_eq lenTxOut encTxOut lenTxOut_eq,
    lenVec_eq (fun _ => 1) (fun b : UInt8 => [b]) (fun _ => rfl)]; omega
theorem lenEcdh_eq (x : Ecdh) : lenEcdh x = (encEcdh x).length := by
  cases x <;> simp [lenEcdh, encEcdh, lenBytes_eq]
theorem lenBase_eq (b : Base) : lenBase b = (encBase b).length := by
  unfold lenBase encBase
  by_cases h0 : b.ty = 0
  · simp [h0]
  · by_cases h2 : b.ty = 2
    · simp [h0, h2, lenVarint_eq, lenSized_eq lenBytes id lenBytes_eq', lenSized_eq lenEcdh encEcdh lenEcdh_eq]; omega
    · simp [h0, h2, lenVarint_eq, lenSized_eq lenBytes id lenBytes_eq', lenSized_eq lenEcdh encEcdh lenEcdh_eq]; omega
theorem lenBP_eq (x : BP) : lenBP x = (encBP x).length := by
  simp [lenBP, encBP, lenBytes_eq, lenVec_eq lenBytes id lenBytes_eq']; omega
theorem lenBPP_eq (x : BPP) : lenBPP x = (encBPP x).length := by
  simp [lenBPP, encBPP, lenBytes_eq, lenVec_eq lenBytes id lenBytes_eq']; omega
theorem lenProofs_eq (rs : List Bytes) (bps : List BP) (bpps : List BPP) (ty : Nat) :
    lenProofs rs bps bpps ty = (encProofs rs bps bpps ty).length := by
  unfold lenProofs encProofs
  split
  · exact lenVec_eq lenBP encBP lenBP_eq bps
  · split
    · simp [lenSized_eq lenBP encBP lenBP_eq, leBytes]
    · split
      · simp [lenSized_eq lenBPP encBPP lenBPP_eq]; omega
      · exact lenSized_eq lenBytes id lenBytes_eq' rs
theorem lenClsag_eq (c : Clsag) : lenClsag c = (encClsag c).length := by
  simp [lenClsag, encClsag, lenBytes_eq, lenSized_eq lenBytes id lenBytes_eq']; omega
theorem lenMG_eq (m : MG) : lenMG m = (encMG m).length := by
  simp [lenMG, encMG, lenBytes_eq, lenSized_eq (lenSized lenBytes) (encSized id) (lenSized_eq lenBytes id lenBytes_eq')]
theorem lenSigs_eq (ms : List MG) (cs : List Clsag) (ty : Nat) : lenSigs ms cs ty = (encSigs ms cs ty).length := by
  unfold lenSigs encSigs; split
  · exact lenSized_eq lenClsag encClsag lenClsag_eq cs
  · exact lenSized_eq lenMG encMG lenMG_eq ms
theorem lenPseudo_eq (po : List Bytes) (ty : Nat) : lenPseudo po ty = (encPseudo po ty).length := by
  unfold lenPseudo encPseudo; split
  · exact lenSized_eq lenBytes id lenBytes_eq' po
  · rfl
theorem lenPrunable_eq (p : Prunable) (ty : Nat) : lenPrunable p ty = (encPrunable p ty).length := by
  unfold lenPrunable encPrunable; split
  · rfl
  · simp [lenProofs_eq, lenSigs_eq, lenPseudo_eq]; omega
theorem lenTx_eq (t : Tx) : lenTx t = (encTx t).length := by
  unfold lenTx encTx
  rw [List.length_append, lenPrefix_eq]
  congr 1
  split
  · exact lenSized_eq (lenSized lenBytes) (encSized id) (lenSized_eq lenBytes id lenBytes_eq') t.sigs
  · cases t.base with
    | none => rfl
    | some b =>
      cases t.prun with
      | none => simp [lenBase_eq]
      | some p => simp [lenBase_eq, lenPrunable_eq]
theorem lenHeader_eq (h : Header) : lenHeader h = (encHeader h).length := by
  simp [lenHeader, lenUint, encHeader, lenVarint_eq, lenBytes_eq, encUintLE, leBytes]; omega
theorem lenBlock_eq (b : Block) : lenBlock b = (encBlock b).length := by
  simp [lenBlock, encBlock, lenHeader_eq, lenTx_eq, lenVec_eq lenBytes id lenBytes_eq']; omega

/-! fixed-width integers, `bool`, `RctType`: the constant the Rust returns = the number of bytes the model encoder writes -/
theorem leBytes_length' (n k : Nat) : (leBytes n k).length = k := by simp [leBytes]
theorem lenUint_eq (k n : Nat) : lenUint k = (encUintLE k n).length := by simp [lenUint, encUintLE, leBytes]
theorem lenInt_eq (k : Nat) (v : Int) : lenUint k = (encIntLE k v).length := by simp [lenUint, encIntLE, leBytes]
theorem lenBool_eq (v : Bool) : lenBool v = (encBool v).length := rfl
theorem lenRctType_eq (ty : Nat) : lenRctType ty = (encRctType ty).length := rfl

/-! extra sub-fields: the `usize` returned by `SubField::consensus_encode` = the number of bytes it writes -/
theorem sum_map_const_one {α} (xs : List α) : (xs.map fun _ => 1).sum = xs.length := by
  induction xs with
  | nil => rfl
  | cons x xs ih => simp [ih]; omega
theorem length_flatten_singletons (l : Bytes) : ((l.map fun b => [b]).flatten).length = l.length := by
  induction l with
  | nil => rfl
  | cons a t ih => simp only [List.map_cons, List.flatten_cons, List.length_append, ih, List.length_cons, List.length_nil]; omega
theorem length_flatten_id (ks : List Bytes) : ((ks.map id).flatten).length = (ks.flatten).length := by simp
theorem lenVecU8_eq (n : Bytes) : lenVec (fun _ => lenUint 1) n = (encVarint n.length ++ n).length := by
  rw [lenVec_eq (fun _ => lenUint 1) (fun b : UInt8 => [b]) (fun _ => rfl) n]
  unfold encVec
  rw [List.length_append, List.length_append, length_flatten_singletons]
theorem lenVecKeys_eq (ks : List Bytes) : lenVec lenBytes ks = (encVarint ks.length ++ ks.flatten).length := by
  rw [lenVec_eq lenBytes id lenBytes_eq' ks]
  unfold encVec
  rw [List.length_append, List.length_append, length_flatten_id]
theorem lenSub_eq (sf : Extra.SubField) : Extra.lenSub sf = (Extra.encSub sf).length := by
  cases sf with
  | padding n =>
    simp only [Extra.lenSub, Extra.encSub, lenUint, foldl_add_eq, sum_map_const_one]
    simp; omega
  | txPub k => simp [Extra.lenSub, Extra.encSub, lenUint, lenBytes_eq]; omega
  | nonce n => simp only [Extra.lenSub, Extra.encSub]; rw [lenVecU8_eq]; simp only [List.length_cons, lenUint]; omega
  | mergeMining d h => simp [Extra.lenSub, Extra.encSub, lenUint, lenBytes_eq, lenVarint_eq]; omega
  | addKeys ks => simp only [Extra.lenSub, Extra.encSub, lenVecKeys_eq, List.length_cons, lenUint]; omega
  | minerGate d => simp only [Extra.lenSub, Extra.encSub]; rw [lenVecU8_eq]; simp only [List.length_cons, lenUint]; omega
