import MoneroModel.Model.AmountText
/-! Core lemmas about the digit loop and the rescale loop of `parse_signed_to_piconero` (core Lean only).
`val l v` is the accumulator after reading the digit string `l` starting from `v`, computed without any bound. -/
namespace Monero.AmtText


/-- value of a digit string appended to an accumulator -/
def val : Bytes → Nat → Nat
  | [], v => v
  | c :: cs, v => val cs (10 * v + (c.toNat - 0x30))

def AllDigits (l : Bytes) : Prop := ∀ c ∈ l, isDigit c = true

theorem val_ge : ∀ (l : Bytes) (v : Nat), v ≤ val l v
  | [], _ => Nat.le_refl _
  | c :: cs, v => by
    have := val_ge cs (10 * v + (c.toNat - 0x30))
    simp only [val]; omega

theorem val_append : ∀ (a b : Bytes) (v : Nat), val (a ++ b) v = val b (val a v)
  | [], _, _ => rfl
  | c :: cs, b, v => by simp only [List.cons_append, val]; exact val_append cs b _

/-- accepted runs after the decimal point -/
theorem ok_after_dot : ∀ (s : Bytes) (v k md v' : Nat) (d' : Option Nat),
    v ≤ U64MAX → k ≤ md → parseLoop s v (some k) md = .ok (v', d') →
    AllDigits s ∧ d' = some (k + s.length) ∧ k + s.length ≤ md ∧ v' = val s v ∧ v' ≤ U64MAX
  | [], v, k, md, v', d', hv, hk, h => by
    simp only [parseLoop, Except.ok.injEq, Prod.mk.injEq] at h
    obtain ⟨rfl, rfl⟩ := h
    exact ⟨by intro c hc; simp at hc, by simp, by simpa using hk, rfl, hv⟩
  | c :: cs, v, k, md, v', d', hv, hk, h => by
    simp only [parseLoop] at h
    by_cases hdg : isDigit c = true
    · simp only [hdg, if_true] at h
      by_cases h1 : 10 * v > U64MAX
      · simp [h1] at h
      · simp only [h1, if_false] at h
        by_cases h2 : 10 * v + (c.toNat - 0x30) > U64MAX
        · simp [h2] at h
        · simp only [h2, if_false] at h
          by_cases h3 : k < md
          · simp only [h3, if_true] at h
            obtain ⟨a1, a2, a3, a4, a5⟩ := ok_after_dot cs _ (k+1) md v' d' (by omega) (by omega) h
            refine ⟨?_, ?_, ?_, ?_, a5⟩
            · intro x hx; simp at hx; rcases hx with rfl | hx
              · exact hdg
              · exact a1 x hx
            · rw [a2]; simp; omega
            · simp; omega
            · simpa [val] using a4
          · simp [h3] at h
    · simp only [hdg] at h
      by_cases hdot : c.toNat = 0x2e
      · simp [hdot] at h
      · simp [hdot] at h

/-- accepted runs before the decimal point: either all digits, or digits '.' digits -/
theorem ok_before_dot : ∀ (s : Bytes) (v md v' : Nat) (d' : Option Nat),
    v ≤ U64MAX → parseLoop s v none md = .ok (v', d') →
    (AllDigits s ∧ d' = none ∧ v' = val s v ∧ v' ≤ U64MAX) ∨
    (∃ ip fp, s = ip ++ 0x2e :: fp ∧ AllDigits ip ∧ AllDigits fp ∧ d' = some fp.length ∧ fp.length ≤ md ∧
        v' = val fp (val ip v) ∧ v' ≤ U64MAX)
  | [], v, md, v', d', hv, h => by
    simp only [parseLoop, Except.ok.injEq, Prod.mk.injEq] at h
    obtain ⟨rfl, rfl⟩ := h
    exact Or.inl ⟨by intro c hc; simp at hc, rfl, rfl, hv⟩
  | c :: cs, v, md, v', d', hv, h => by
    simp only [parseLoop] at h
    by_cases hdg : isDigit c = true
    · simp only [hdg, if_true] at h
      by_cases h1 : 10 * v > U64MAX
      · simp [h1] at h
      · simp only [h1, if_false] at h
        by_cases h2 : 10 * v + (c.toNat - 0x30) > U64MAX
        · simp [h2] at h
        · simp only [h2, if_false] at h
          rcases ok_before_dot cs _ md v' d' (by omega) h with ⟨a1, a2, a3, a4⟩ | ⟨ip, fp, e, a1, a2, a3, a4, a5, a6⟩
          · left
            refine ⟨?_, a2, by simpa [val] using a3, a4⟩
            intro x hx; simp at hx; rcases hx with rfl | hx
            · exact hdg
            · exact a1 x hx
          · right
            refine ⟨c :: ip, fp, by simp [e], ?_, a2, a3, a4, by simpa [val] using a5, a6⟩
            intro x hx; simp at hx; rcases hx with rfl | hx
            · exact hdg
            · exact a1 x hx
    · simp only [hdg] at h
      by_cases hdot : c.toNat = 0x2e
      · simp only [hdot, if_true] at h
        have hc : c = 0x2e := UInt8.toNat_inj.mp (by simpa using hdot)
        obtain ⟨a1, a2, a3, a4, a5⟩ := ok_after_dot cs v 0 md v' d' hv (Nat.zero_le _) h
        right
        refine ⟨[], cs, by simp [hc], by intro x hx; simp at hx, a1, by simpa using a2, by simpa using a3, by simpa [val] using a4, a5⟩
      · simp [hdot] at h

/-- the ← direction: digit runs are consumed exactly when the value fits and the counter allows -/
theorem run_digits_none : ∀ (ds rest : Bytes) (v md : Nat), AllDigits ds → val ds v ≤ U64MAX →
    parseLoop (ds ++ rest) v none md = parseLoop rest (val ds v) none md
  | [], _, _, _, _, _ => rfl
  | c :: cs, rest, v, md, hd, hv => by
    have hc : isDigit c = true := hd c (by simp)
    have hge := val_ge cs (10 * v + (c.toNat - 0x30))
    simp only [val] at hv
    simp only [List.cons_append, parseLoop, hc, if_true]
    have h1 : ¬ (10 * v > U64MAX) := by omega
    have h2 : ¬ (10 * v + (c.toNat - 0x30) > U64MAX) := by omega
    simp only [h1, h2, if_false, val]
    exact run_digits_none cs rest _ md (fun x hx => hd x (by simp [hx])) hv

theorem run_digits_some : ∀ (ds rest : Bytes) (v k md : Nat), AllDigits ds → val ds v ≤ U64MAX →
    k + ds.length ≤ md →
    parseLoop (ds ++ rest) v (some k) md = parseLoop rest (val ds v) (some (k + ds.length)) md
  | [], _, _, _, _, _, _, _ => by simp [val]
  | c :: cs, rest, v, k, md, hd, hv, hk => by
    have hc : isDigit c = true := hd c (by simp)
    have hge := val_ge cs (10 * v + (c.toNat - 0x30))
    simp only [val] at hv
    simp only [List.cons_append, parseLoop, hc, if_true]
    have h1 : ¬ (10 * v > U64MAX) := by omega
    have h2 : ¬ (10 * v + (c.toNat - 0x30) > U64MAX) := by omega
    have hk' : k + (cs.length + 1) ≤ md := by simpa using hk
    have h3 : k < md := by omega
    simp only [h1, h2, h3, if_false, if_true, val]
    rw [run_digits_some cs rest _ (k+1) md (fun x hx => hd x (by simp [hx])) hv (by omega)]
    have e : k + 1 + cs.length = k + (c :: cs).length := by simp only [List.length_cons]; omega
    rw [e]

/-- the rescale loop multiplies by 10^n exactly, or fails exactly when that leaves u64 -/
theorem rescale_spec : ∀ (n v : Nat), v ≤ U64MAX →
    rescale n v = if v * 10^n ≤ U64MAX then .ok (v * 10^n) else .error .tooBig
  | 0, v, hv => by simp [rescale, hv]
  | n+1, v, hv => by
    simp only [rescale]
    by_cases h1 : 10 * v > U64MAX
    · have : ¬ (v * 10^(n+1) ≤ U64MAX) := by
        have : 1 ≤ 10^n := Nat.one_le_pow _ _ (by decide)
        rw [Nat.pow_succ]
        have : v * 10 ≤ v * (10^n * 10) := Nat.mul_le_mul_left v (by omega)
        omega
      simp [h1, this]
    · simp only [h1, if_false]
      rw [rescale_spec n (10 * v) (by omega)]
      have : 10 * v * 10^n = v * 10^(n+1) := by rw [Nat.pow_succ]; ac_rfl
      rw [this]


end Monero.AmtText
