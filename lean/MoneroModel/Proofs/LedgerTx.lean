import MoneroModel.Proofs.LedgerInst
open Monero Ledger
/-! C04 allocation ledger, instantiated on the WHOLE transaction decoder and on the block decoder (the instrumented decoders
`r…` are defined in Model/Ledger.lean — see its header for what is charged and what the ledger omits).

For every instrumented decoder: `Agrees rX X` (it returns exactly what the model decoder returns) and
`BW A B w rX` = `Bounded A B rX` (peak ≤ A + B·used, live ≤ B·used) plus "a success consumes at least `w` bytes"
(needed to pay for the elements of an enclosing vector). Every decoder that reads a VarInt has slope at least 8: the scratch
vector of `VarInt::consensus_decode` (`rvarint`, `max 8 (4·k) ≤ 8·k` bytes for `k` groups read, also on the failing paths). -/

/-! ## agreement with the model, compositionally -/

/-- the instrumented decoder returns exactly the model decoder's result -/
def Agrees {α} (rd : RDec α) (d : Dec α) : Prop := ∀ b, (rd b).val = d b

theorem agrees_lift {α} (d : Dec α) : Agrees (lift d) d := fun _ => rfl
theorem agrees_pure {α} (x : α) : Agrees (rpure x) (pure' x) := fun _ => rfl
theorem agrees_rvarint : Agrees rvarint varint := fun _ => rfl
theorem agrees_fail {α} : Agrees (rfail : RDec α) fail := fun _ => rfl
theorem agrees_bind {α β} {rd : RDec α} {d : Dec α} {rf : α → RDec β} {f : α → Dec β}
    (h1 : Agrees rd d) (h2 : ∀ x, Agrees (rf x) (f x)) : Agrees (rbind rd rf) (Monero.bind d f) := by
  intro b
  rw [rbind_val, h1 b]
  unfold Monero.bind
  cases d b with
  | none => rfl
  | some xr => obtain ⟨x, r⟩ := xr; exact h2 x r
theorem agrees_rep {α} {rd : RDec α} {d : Dec α} (h : Agrees rd d) (n : Nat) : Agrees (rrep rd n) (rep d n) :=
  fun b => rrep_val rd d h n b
theorem agrees_vecN {α} (sz : Nat) {rd : RDec α} {d : Dec α} (h : Agrees rd d) (n : Nat) :
    Agrees (rvecN CAP sz rd n) (sizedVec sz d n) := fun b => rvecN_val sz rd d h n b
theorem agrees_vec {α} (sz : Nat) {rd : RDec α} {d : Dec α} (h : Agrees rd d) : Agrees (rvec sz rd) (vec sz d) :=
  fun b => rvec_val sz rd d h b

/-! ## new combinators -/

theorem rcharge_val {α} (c : Nat) (d : RDec α) (b : Bytes) : (rcharge c d b).val = (d b).val := by
  unfold rcharge
  cases d b with
  | mk v p l => cases v <;> rfl
theorem ralloc_val {α} (C : Nat) (d : RDec α) (b : Bytes) : (ralloc C d b).val = (d b).val := by
  unfold ralloc
  cases d b with
  | mk v p l => cases v <;> rfl
theorem agrees_charge {α} (c : Nat) {rd : RDec α} {d : Dec α} (h : Agrees rd d) : Agrees (rcharge c rd) d :=
  fun b => by rw [rcharge_val]; exact h b
theorem agrees_alloc {α} (C : Nat) {rd : RDec α} {d : Dec α} (h : Agrees rd d) : Agrees (ralloc C rd) d :=
  fun b => by rw [ralloc_val]; exact h b
theorem agrees_pushN {α} (c : Nat) {rd : RDec α} {d : Dec α} (h : Agrees rd d) (n : Nat) :
    Agrees (rpushN c rd n) (rep d n) := agrees_rep (agrees_charge c h) n

/-! ## consumption of model decoders (for the lifted, allocation-free ones) -/

/-- a success consumes at least `w` bytes (`w = 0`: the rest is a suffix) -/
def Eats {α} (w : Nat) (d : Dec α) : Prop := ∀ b x r, d b = some (x, r) → r.length + w ≤ b.length

theorem eats_mono {α} {w w' : Nat} {d : Dec α} (h : Eats w d) (hw : w' ≤ w) : Eats w' d :=
  fun b x r hd => by have := h b x r hd; omega
theorem eats_pure {α} (x : α) : Eats 0 (pure' x) := fun b y r h => by obtain ⟨_, rfl⟩ := pure_some h; simp
theorem eats_fail {α} (w : Nat) : Eats w (fail : Dec α) := fun _ _ _ h => (fail_some h).elim
theorem eats_u8 : Eats 1 u8 := u8_consumes
theorem eats_varint : Eats 1 varint := varint_consumes
theorem eats_takeN (k : Nat) : Eats k (takeN k) := by
  intro b x r h
  have hl := takeN_length k b x r h
  have := sound_takeN k b x r h
  simp only [id] at this; subst this; simp [hl]; omega
theorem eats_key : Eats 32 key := eats_takeN 32
theorem eats_bind {α β} {w1 w2 : Nat} {d : Dec α} {f : α → Dec β} (h1 : Eats w1 d) (h2 : ∀ x, Eats w2 (f x)) :
    Eats (w1 + w2) (Monero.bind d f) := by
  intro b y r h
  obtain ⟨x, r1, a, c⟩ := bind_some h
  have := h1 b x r1 a; have := h2 x r1 y r c; omega
theorem eats_rep {α} {w : Nat} {d : Dec α} (h : Eats w d) : ∀ n, Eats (n * w) (rep d n)
  | 0 => by simpa [rep] using eats_pure ([] : List α)
  | n+1 => by
    have := eats_bind h fun x => eats_bind (eats_rep h n) fun xs => eats_pure (x :: xs)
    rw [rep]; exact eats_mono this (by rw [Nat.succ_mul]; omega)
theorem eats_sized {α} {w : Nat} (sz : Nat) {d : Dec α} (h : Eats w d) (n : Nat) : Eats (n * w) (sizedVec sz d n) := by
  unfold sizedVec; split
  · exact eats_fail _
  · exact eats_rep h n
/-- a parsed explicit-length vector of `k` elements consumed at least `k·w` bytes -/
theorem vec_eats_len {α} {w : Nat} (sz : Nat) {d : Dec α} (h : Eats w d) (b : Bytes) (xs : List α) (r : Bytes)
    (hv : vec sz d b = some (xs, r)) : r.length + xs.length * w ≤ b.length := by
  unfold vec at hv
  obtain ⟨n, r1, a, c⟩ := bind_some hv
  have := eats_varint b n r1 a
  have := eats_sized sz h n r1 xs r c
  rw [sizedVec_length sz d n r1 xs r c]; omega

/-! ## the ledger invariant together with a minimal consumption -/

def REats {α} (w : Nat) (rd : RDec α) : Prop := ∀ b x r, (rd b).val = some (x, r) → r.length + w ≤ b.length

/-- `Bounded A B rd`, and every success of `rd` consumes at least `w` bytes -/
structure BW {α} (A B w : Nat) (rd : RDec α) : Prop where
  bd : Bounded A B rd
  eats : REats w rd

theorem bw_mono {α} {A B w A' B' w' : Nat} {d : RDec α} (h : BW A B w d) (hA : A ≤ A') (hB : B ≤ B') (hw : w' ≤ w) :
    BW A' B' w' d :=
  ⟨bounded_mono h.bd hA hB, fun b x r hd => by have := h.eats b x r hd; omega⟩
theorem bw_pure {α} (x : α) : BW 0 0 0 (rpure x) := ⟨bounded_pure x, (bounded_pure x).suffix⟩
theorem bw_fail {α} (w : Nat) : BW 0 0 w (rfail : RDec α) := ⟨bounded_rfail, fun b x r h => by simp [rfail] at h⟩
theorem bw_lift {α} {w : Nat} {d : Dec α} (h : Eats w d) : BW 0 0 w (lift d) :=
  ⟨bounded_lift d fun b x r hd => by have := h b x r hd; omega, fun b x r hd => h b x r hd⟩
theorem bw_of_bounded {α} {A B : Nat} {d : RDec α} (h : Bounded A B d) : BW A B 0 d := ⟨h, h.suffix⟩

theorem rbind_some {α β} {d : RDec α} {f : α → RDec β} {b : Bytes} {y : β} {r' : Bytes}
    (h : (rbind d f b).val = some (y, r')) : ∃ x r, (d b).val = some (x, r) ∧ (f x r).val = some (y, r') := by
  rw [rbind_val] at h
  cases hd : (d b).val with
  | none => rw [hd] at h; simp at h
  | some xr => obtain ⟨x, r⟩ := xr; rw [hd] at h; exact ⟨x, r, rfl, h⟩

theorem bw_bind {α β} {A B w1 w2 : Nat} {d : RDec α} {f : α → RDec β}
    (hd : BW A B w1 d) (hf : ∀ x, BW A B w2 (f x)) : BW A B (w1 + w2) (rbind d f) := by
  refine ⟨bounded_bind hd.bd fun x => (hf x).bd, ?_⟩
  intro b y r' h
  obtain ⟨x, r, a, c⟩ := rbind_some h
  have := hd.eats b x r a; have := (hf x).eats r y r' c; omega

theorem bw_rep {α} {A B w : Nat} {d : RDec α} (hd : BW A B w d) : ∀ n, BW A B (n * w) (rrep d n)
  | 0 => bw_mono (bw_pure []) (Nat.zero_le _) (Nat.zero_le _) (by simp)
  | n+1 => by
    have := bw_bind hd fun x => bw_bind (bw_rep hd n) fun xs =>
      bw_mono (bw_pure (x :: xs)) (Nat.zero_le _) (Nat.zero_le _) (Nat.le_refl 0)
    rw [rrep]; exact bw_mono this (Nat.le_refl _) (Nat.le_refl _) (by rw [Nat.succ_mul]; omega)

/-- pushing one element onto a growing vector: the slope grows by `k` when `c ≤ k·w` and the element consumed `≥ w` bytes -/
theorem bw_charge {α} {A B w c k : Nat} {d : RDec α} (hd : BW A B w d) (hk : c ≤ k * w) :
    BW A (B + k) w (rcharge c d) := by
  refine ⟨⟨?_, ?_, ?_, ?_⟩, ?_⟩
  · intro b x r h; rw [rcharge_val] at h; exact hd.bd.suffix b x r h
  · intro b
    have P := hd.bd.peak b; have L := hd.bd.live b
    unfold rcharge
    cases hdb : d b with
    | mk v p l =>
      rw [hdb] at P L
      cases v with
      | none =>
        simp only [used] at P ⊢
        have : (B + k) * b.length = B * b.length + k * b.length := Nat.add_mul _ _ _
        omega
      | some xr =>
        obtain ⟨x, r⟩ := xr
        have e := hd.eats b x r (by rw [hdb])
        simp only [used] at P L ⊢
        have h1 : k * w ≤ k * (b.length - r.length) := Nat.mul_le_mul_left k (by omega)
        have : (B + k) * (b.length - r.length) = B * (b.length - r.length) + k * (b.length - r.length) := Nat.add_mul _ _ _
        simp only [Nat.max_le]
        omega
  · intro b
    have L := hd.bd.live b
    unfold rcharge
    cases hdb : d b with
    | mk v p l =>
      rw [hdb] at L
      cases v with
      | none => simp
      | some xr =>
        obtain ⟨x, r⟩ := xr
        have e := hd.eats b x r (by rw [hdb])
        simp only [used] at L ⊢
        have h1 : k * w ≤ k * (b.length - r.length) := Nat.mul_le_mul_left k (by omega)
        have : (B + k) * (b.length - r.length) = B * (b.length - r.length) + k * (b.length - r.length) := Nat.add_mul _ _ _
        omega
  · intro b h
    unfold rcharge at h ⊢
    cases hdb : d b with
    | mk v p l =>
      rw [hdb] at h
      cases v with
      | none => rfl
      | some xr => simp at h
  · intro b x r h; rw [rcharge_val] at h; exact hd.eats b x r h

/-- closure lemma for push-grown vectors: NO cap term, the slope grows by `k ≥ c / w` -/
theorem bw_pushN {α} {A B w c k : Nat} {d : RDec α} (hd : BW A B w d) (hk : c ≤ k * w) (n : Nat) :
    BW A (B + k) (n * w) (rpushN c d n) := bw_rep (bw_charge hd hk) n
theorem bounded_pushN {α} {A B w c k : Nat} {d : RDec α} (hd : Bounded A B d)
    (hmin : ∀ b x r, (d b).val = some (x, r) → r.length + w ≤ b.length) (hk : c ≤ k * w) (n : Nat) :
    Bounded A (B + k) (rpushN c d n) := (bw_pushN ⟨hd, hmin⟩ hk n).bd

/-- closure lemma for capped pre-allocated vectors, sharpened: one more CAP, slope `+ k` when `sz ≤ k·w` -/
theorem bw_vecN {α} {A B w sz k : Nat} {d : RDec α} (hd : BW A B w d) (hk : sz ≤ k * w) (n : Nat) :
    BW (A + CAP) (B + k) (n * w) (rvecN CAP sz d n) := by
  have hr := bw_rep hd n
  refine ⟨⟨?_, ?_, ?_, ?_⟩, ?_⟩
  · intro b x r h
    unfold rvecN at h
    split at h
    · simp at h
    · cases hrr : rrep d n b with
      | mk v p l =>
        rw [hrr] at h
        cases v with
        | none => simp at h
        | some yr => simp at h; exact hr.bd.suffix b x r (by rw [hrr]; simp [h])
  · intro b
    unfold rvecN
    split
    · simp
    · rename_i hcap
      have hcap' : n * sz ≤ CAP := by omega
      cases hrr : rrep d n b with
      | mk v p l =>
        have P := hr.bd.peak b; rw [hrr] at P
        cases v with
        | none =>
          simp only [used] at P ⊢
          have : (B + k) * b.length = B * b.length + k * b.length := Nat.add_mul _ _ _
          omega
        | some yr =>
          obtain ⟨ys, r⟩ := yr
          simp only [used] at P ⊢
          have : (B + k) * (b.length - r.length) = B * (b.length - r.length) + k * (b.length - r.length) := Nat.add_mul _ _ _
          omega
  · intro b
    unfold rvecN
    split
    · simp
    · cases hrr : rrep d n b with
      | mk v p l =>
        have L := hr.bd.live b; rw [hrr] at L
        cases v with
        | none => simp
        | some yr =>
          obtain ⟨ys, r⟩ := yr
          have hc := hr.eats b ys r (by rw [hrr])
          simp only [used] at L ⊢
          have h1 : n * sz ≤ n * (k * w) := Nat.mul_le_mul_left n hk
          have h2 : n * (k * w) = k * (n * w) := Nat.mul_left_comm n k w
          have h3 : k * (n * w) ≤ k * (b.length - r.length) := Nat.mul_le_mul_left k (by omega)
          have : (B + k) * (b.length - r.length) = B * (b.length - r.length) + k * (b.length - r.length) := Nat.add_mul _ _ _
          omega
  · intro b h
    unfold rvecN at h ⊢
    split
    · rfl
    · split at h
      · contradiction
      · cases hrr : rrep d n b with
        | mk v p l =>
          rw [hrr] at h
          cases v with
          | none => rfl
          | some yr => simp at h
  · intro b x r h
    unfold rvecN at h
    split at h
    · simp at h
    · cases hrr : rrep d n b with
      | mk v p l =>
        rw [hrr] at h
        cases v with
        | none => simp at h
        | some yr => simp at h; exact hr.eats b x r (by rw [hrr]; simp [h])

/-- a VarInt: 8 heap bytes per byte looked at while it is decoded (the scratch vector), nothing afterwards -/
theorem bw_rvarint : BW 0 8 1 rvarint := ⟨bounded_rvarint, fun b x r h => varint_consumes b x r h⟩

/-- `Vec<T>::consensus_decode`: the count is a VarInt (slope at least 8), then the capped vector -/
theorem bw_vec {α} {A B B' w sz k : Nat} {d : RDec α} (hd : BW A B w d) (hk : sz ≤ k * w) (hB : B + k ≤ B') (hv : 8 ≤ B') :
    BW (A + CAP) B' 1 (rvec sz d) := by
  unfold rvec
  have := bw_bind (bw_mono bw_rvarint (Nat.zero_le (A + CAP)) hv (Nat.le_refl 1)) fun n =>
    bw_mono (bw_vecN hd hk n) (Nat.le_refl _) hB (Nat.zero_le _)
  exact this

/-! ## a reservation paid for by the bytes of an EARLIER field

The rows vector of a version-1 transaction (`Vec<Vec<Signature>>`, one 24-byte header per key input) grows by `push`
while the signature section is read, but a row for an input without ring members consumes no byte at all: this vector
cannot be paid for by the bytes of the signature section. It is paid for by the bytes of the inputs vector (every input
consumed at least `w` bytes there). `BoundedC A B C` is `Bounded A B` with `C` extra bytes of credit. -/

structure BoundedC {α} (A B C : Nat) (d : RDec α) : Prop where
  suffix : ∀ b x r, (d b).val = some (x, r) → r.length ≤ b.length
  peak : ∀ b, (d b).peak ≤ A + C + B * used b (d b)
  live : ∀ b, (d b).live ≤ C + B * used b (d b)
  live_fail : ∀ b, (d b).val = none → (d b).live = 0

theorem boundedC_of_bounded {α} {A B : Nat} {d : RDec α} (h : Bounded A B d) (C : Nat) : BoundedC A B C d :=
  ⟨h.suffix, fun b => by have := h.peak b; omega, fun b => by have := h.live b; omega, h.live_fail⟩

theorem boundedC_mono {α} {A B C C' : Nat} {d : RDec α} (h : BoundedC A B C d) (hC : C ≤ C') : BoundedC A B C' d :=
  ⟨h.suffix, fun b => by have := h.peak b; omega, fun b => by have := h.live b; omega, h.live_fail⟩

theorem boundedC_alloc {α} {A B : Nat} {d : RDec α} (h : Bounded A B d) (C : Nat) : BoundedC A B C (ralloc C d) := by
  refine ⟨?_, ?_, ?_, ?_⟩
  · intro b x r hv; rw [ralloc_val] at hv; exact h.suffix b x r hv
  · intro b
    have P := h.peak b
    unfold ralloc
    cases hdb : d b with
    | mk v p l =>
      rw [hdb] at P
      cases v with
      | none => simp only [used] at P ⊢; omega
      | some xr => simp only [used] at P ⊢; omega
  · intro b
    have L := h.live b
    unfold ralloc
    cases hdb : d b with
    | mk v p l =>
      rw [hdb] at L
      cases v with
      | none => simp
      | some xr => simp only [used] at L ⊢; omega
  · intro b hv
    unfold ralloc at hv ⊢
    cases hdb : d b with
    | mk v p l =>
      rw [hdb] at hv
      cases v with
      | none => rfl
      | some xr => simp at hv

/-- sequencing where the continuation holds a reservation of `g x · c` bytes and the first decoder consumed at least
`g x · w` bytes with a slope `B1` that leaves room for `k ≥ c / w` -/
theorem bounded_bind_credit {α β} {A B B1 c k w : Nat} {d : RDec α} {f : α → RDec β} {g : α → Nat}
    (hd : Bounded A B1 d) (hk : c ≤ k * w) (hB : B1 + k ≤ B)
    (hg : ∀ b x r, (d b).val = some (x, r) → r.length + g x * w ≤ b.length)
    (hf : ∀ x, BoundedC A B (g x * c) (f x)) : Bounded A B (rbind d f) := by
  have hB1 : B1 ≤ B := by omega
  refine ⟨?_, ?_, ?_, ?_⟩
  · intro b y r' h
    obtain ⟨x, r, a, e⟩ := rbind_some h
    have := hd.suffix b x r a; have := (hf x).suffix r y r' e; omega
  · intro b
    unfold rbind
    cases hdb : d b with
    | mk v p1 l1 =>
      have P1 := hd.peak b; have L1 := hd.live b; rw [hdb] at P1 L1
      cases v with
      | none =>
        simp only [used] at P1 ⊢
        have := Nat.mul_le_mul_right b.length hB1
        omega
      | some xr =>
        obtain ⟨x, r⟩ := xr
        have s1 := hd.suffix b x r (by rw [hdb])
        have G := hg b x r (by rw [hdb])
        simp only [used] at P1 L1
        simp only
        have c1 : g x * c ≤ g x * (k * w) := Nat.mul_le_mul_left _ hk
        have c2 : g x * (k * w) = k * (g x * w) := Nat.mul_left_comm _ _ _
        have c3 : k * (g x * w) ≤ k * (b.length - r.length) := Nat.mul_le_mul_left k (by omega)
        have c4 : (B1 + k) * (b.length - r.length) ≤ B * (b.length - r.length) := Nat.mul_le_mul_right _ hB
        have c5 : (B1 + k) * (b.length - r.length) = B1 * (b.length - r.length) + k * (b.length - r.length) :=
          Nat.add_mul _ _ _
        cases hfx : f x r with
        | mk v2 p2 l2 =>
          have P2 := (hf x).peak r; rw [hfx] at P2
          cases v2 with
          | none =>
            simp only [used] at P2 ⊢
            have : B * (b.length - r.length) + B * r.length = B * b.length := by rw [← Nat.mul_add]; congr 1; omega
            simp only [Nat.max_le]
            refine ⟨?_, ?_⟩ <;> omega
          | some yr =>
            obtain ⟨y, r'⟩ := yr
            have s2 := (hf x).suffix r y r' (by rw [hfx])
            simp only [used] at P2 ⊢
            have : B * (b.length - r.length) + B * (r.length - r'.length) = B * (b.length - r'.length) := by
              rw [← Nat.mul_add]; congr 1; omega
            simp only [Nat.max_le]
            refine ⟨?_, ?_⟩ <;> omega
  · intro b
    unfold rbind
    cases hdb : d b with
    | mk v p1 l1 =>
      have L1 := hd.live b; rw [hdb] at L1
      cases v with
      | none => simp
      | some xr =>
        obtain ⟨x, r⟩ := xr
        have s1 := hd.suffix b x r (by rw [hdb])
        have G := hg b x r (by rw [hdb])
        simp only [used] at L1
        simp only
        have c1 : g x * c ≤ g x * (k * w) := Nat.mul_le_mul_left _ hk
        have c2 : g x * (k * w) = k * (g x * w) := Nat.mul_left_comm _ _ _
        have c3 : k * (g x * w) ≤ k * (b.length - r.length) := Nat.mul_le_mul_left k (by omega)
        have c4 : (B1 + k) * (b.length - r.length) ≤ B * (b.length - r.length) := Nat.mul_le_mul_right _ hB
        have c5 : (B1 + k) * (b.length - r.length) = B1 * (b.length - r.length) + k * (b.length - r.length) :=
          Nat.add_mul _ _ _
        cases hfx : f x r with
        | mk v2 p2 l2 =>
          have L2 := (hf x).live r; rw [hfx] at L2
          cases v2 with
          | none => simp
          | some yr =>
            obtain ⟨y, r'⟩ := yr
            have s2 := (hf x).suffix r y r' (by rw [hfx])
            simp only [used] at L2 ⊢
            have : B * (b.length - r.length) + B * (r.length - r'.length) = B * (b.length - r'.length) := by
              rw [← Nat.mul_add]; congr 1; omega
            omega
  · intro b h
    unfold rbind at h ⊢
    cases hdb : d b with
    | mk v p1 l1 =>
      rw [hdb] at h
      cases v with
      | none => rfl
      | some xr =>
        obtain ⟨x, r⟩ := xr
        simp only at h ⊢
        cases hfx : f x r with
        | mk v2 p2 l2 =>
          rw [hfx] at h
          cases v2 with
          | none => rfl
          | some yr => simp at h

/-! ## constants

`size_of` of the element types of push-grown vectors (DESIGN.md §12 "Heap measurements"; the ones of capped vectors are
the generated `sizes.*`, because the cap check of the model uses them). All dependence on the generated layout table is
in the `sz_*` facts below: `size_of::<T>() ≤ k · (minimal encoded length of a T)`. -/
theorem sz_varint : sizes.varint ≤ 8 * 1 := by decide
theorem sz_txin : sizes.txin ≤ 32 * 2 := by decide
theorem sz_txout : sizes.txout ≤ 2 * 34 := by decide
theorem sz_u8 : sizes.u8 ≤ 1 * 1 := by decide
theorem sz_key : sizes.key ≤ 1 * 32 := by decide
theorem sz_bp : sizes.bp ≤ 2 * 290 := by decide
theorem sz_bpp : sizes.bpp ≤ 2 * 194 := by decide
theorem sz_rangesig : sizes.rangesig ≤ 1 * 6176 := by decide

theorem bw_w {α} {A B w w' : Nat} {d : RDec α} (h : BW A B w d) (hw : w' ≤ w) : BW A B w' d :=
  bw_mono h (Nat.le_refl _) (Nat.le_refl _) hw
theorem eats_of_agrees {α} {w : Nat} {rd : RDec α} {d : Dec α} (ha : Agrees rd d) (h : REats w rd) : Eats w d :=
  fun b x r hd => h b x r (by rw [ha b]; exact hd)

/-! ## transaction prefix -/

theorem bw_rvec_varint : BW CAP 16 1 (rvec sizes.varint rvarint) :=
  bw_mono (bw_vec (B' := 16) bw_rvarint sz_varint (by omega) (by omega)) (by omega) (by omega) (Nat.le_refl _)

/-- `TxIn`: at most one capped vector in progress (`key_offsets`, 8 heap bytes per offset byte, plus 8 for the scratch vector
of the offset being decoded); a coinbase input is 2 bytes, a key input at least 35 -/
theorem bw_rtxin : BW CAP 16 2 rtxin := by
  unfold rtxin
  have up {α} {B w : Nat} {d : RDec α} (h : BW 0 B w d) (hB : B ≤ 16 := by omega) : BW CAP 16 w d :=
    bw_mono h (Nat.zero_le _) hB (Nat.le_refl _)
  refine bw_w (bw_bind (w2 := 1) (up (bw_lift eats_u8)) fun t => ?_) (by omega)
  split
  · exact bw_w (bw_bind (up bw_rvarint) fun h => up (bw_pure _)) (by omega)
  · split
    · exact bw_w (bw_bind (up bw_rvarint) fun a => bw_bind bw_rvec_varint fun o =>
        bw_bind (up (bw_lift eats_key)) fun k => up (bw_pure _)) (by omega)
    · exact up (bw_fail 1)

theorem eats_txin : Eats 2 txin := eats_of_agrees rtxin_val bw_rtxin.eats

theorem bw_rvecTxIn : BW (CAP + CAP) 48 1 rvecTxIn := by
  unfold rvecTxIn
  exact bw_vec bw_rtxin sz_txin (by omega) (by omega)

theorem eats_target : Eats 33 target := by
  unfold target
  refine eats_bind (w2 := 32) eats_u8 fun t => ?_
  split
  · exact eats_mono (eats_bind eats_key fun k => eats_pure _) (by omega)
  · split
    · exact eats_mono (eats_bind eats_key fun k => eats_bind eats_u8 fun v => eats_pure _) (by omega)
    · exact eats_fail _
theorem eats_txout : Eats 34 txout := by
  unfold txout
  exact eats_mono (eats_bind eats_varint fun a => eats_bind eats_target fun t => eats_pure _) (by omega)

theorem agrees_rtxout : Agrees rtxout txout := by
  unfold rtxout txout
  exact agrees_bind agrees_rvarint fun a => agrees_bind (agrees_lift target) fun t => agrees_pure _
/-- `TxOut`: the amount's scratch vector; at least 34 bytes -/
theorem bw_rtxout : BW 0 8 34 rtxout := by
  unfold rtxout
  have up {α} {w : Nat} {d : RDec α} (h : BW 0 0 w d) : BW 0 8 w d := bw_mono h (Nat.zero_le _) (Nat.zero_le _) (Nat.le_refl _)
  exact bw_w (bw_bind bw_rvarint fun a => bw_bind (up (bw_lift eats_target)) fun t => up (bw_pure _)) (by omega)

theorem agrees_rprefix : Agrees rprefix prefix' := by
  unfold rprefix prefix'
  exact agrees_bind agrees_rvarint fun v => agrees_bind agrees_rvarint fun u =>
    agrees_bind rvecTxIn_val fun i => agrees_bind (agrees_vec _ agrees_rtxout) fun o =>
    agrees_bind (agrees_vec _ (agrees_lift u8)) fun e => agrees_pure _
theorem rprefix_val (b : Bytes) : (rprefix b).val = prefix' b := agrees_rprefix b

/-- slope of the prefix bound: the inputs vector — per byte, 8 for the scratch vector of the VarInt being decoded, 8 for the
key offsets already held (`size_of::<VarInt>() = 8` per offset of at least 1 byte), 32 for the inputs themselves
(`size_of::<TxIn>() = 64` per input of at least 2 bytes) -/
def Bprefix : Nat := 48

theorem bw_rprefix : BW (2 * CAP) Bprefix 5 rprefix := by
  unfold rprefix
  have up {α} {A B w : Nat} {d : RDec α} (h : BW A B w d) (hA : A ≤ 2 * CAP := by omega) (hB : B ≤ 48 := by omega) :
      BW (2 * CAP) Bprefix w d := bw_mono h hA hB (Nat.le_refl _)
  exact bw_w (bw_bind (up bw_rvarint) fun v => bw_bind (up bw_rvarint) fun u => bw_bind (up bw_rvecTxIn) fun i =>
    bw_bind (up (bw_vec (B' := 10) bw_rtxout sz_txout (by omega) (by omega))) fun o =>
    bw_bind (up (bw_vec (B' := 8) (bw_lift eats_u8) sz_u8 (by omega) (by omega))) fun e => up (bw_pure _)) (by omega)
theorem bounded_rprefix : Bounded (2 * CAP) Bprefix rprefix := bw_rprefix.bd

/-- a parsed prefix consumed at least 2 bytes per input -/
theorem prefix_eats_ins (b : Bytes) (p : Prefix) (r : Bytes) (h : prefix' b = some (p, r)) :
    r.length + p.ins.length * 2 ≤ b.length := by
  unfold prefix' at h
  obtain ⟨v, r1, h1, h2⟩ := bind_some h
  obtain ⟨u, r2, h3, h4⟩ := bind_some h2
  obtain ⟨i, r3, h5, h6⟩ := bind_some h4
  obtain ⟨o, r4, h7, h8⟩ := bind_some h6
  obtain ⟨e, r5, h9, h10⟩ := bind_some h8
  obtain ⟨rfl, rfl⟩ := pure_some h10
  have := eats_varint _ _ _ h1
  have := eats_varint _ _ _ h3
  have := vec_eats_len _ eats_txin _ _ _ h5
  have := vec_eats_len _ eats_txout _ _ _ h7
  have := vec_eats_len _ eats_u8 _ _ _ h9
  show r5.length + i.length * 2 ≤ b.length
  omega

/-! ## RctSigBase -/

theorem eats_ecdh (ty : Nat) : Eats 8 (ecdh ty) := by
  unfold ecdh
  split
  · exact eats_mono (eats_bind eats_key fun m => eats_bind eats_key fun a => eats_pure _) (by omega)
  · exact eats_mono (eats_bind (eats_takeN 8) fun a => eats_pure _) (by omega)

/-- a capped vector of 32-byte keys (`consensus_decode_sized_vec::<Key>` / `::<CtKey>`): one heap byte per input byte; with
its own count (`Vec<Key>::consensus_decode`) the count's scratch vector makes the slope 8 -/
theorem bw_keysN (n : Nat) : BW CAP 1 (n * 32) (rvecN CAP sizes.key (lift key) n) :=
  bw_mono (bw_vecN (bw_lift eats_key) sz_key n) (by omega) (by omega) (Nat.le_refl _)
theorem bw_keys : BW CAP 8 1 (rvec sizes.key (lift key)) :=
  bw_mono (bw_vec (B' := 8) (bw_lift eats_key) sz_key (by omega) (by omega)) (by omega) (by omega) (Nat.le_refl _)

theorem agrees_rbase (i o : Nat) : Agrees (rbase i o) (base i o) := by
  unfold rbase base
  refine agrees_bind (agrees_lift u8) fun t => ?_
  dsimp only
  split
  · exact agrees_fail
  · split
    · exact agrees_pure _
    · refine agrees_bind agrees_rvarint fun fee => agrees_bind ?_ fun ps =>
        agrees_bind (agrees_pushN _ (agrees_lift _) _) fun e =>
        agrees_bind (agrees_vecN _ (agrees_lift key) _) fun pk => agrees_pure _
      split
      · exact agrees_vecN _ (agrees_lift key) _
      · exact agrees_pure _
theorem rbase_val (i o : Nat) (b : Bytes) : (rbase i o b).val = base i o b := agrees_rbase i o b

theorem bw_rbase (i o : Nat) : BW CAP 33 1 (rbase i o) := by
  unfold rbase
  have up {α} {A B w : Nat} {d : RDec α} (h : BW A B w d) (hA : A ≤ CAP := by omega) (hB : B ≤ 33 := by omega) :
      BW CAP 33 w d := bw_mono h hA hB (Nat.le_refl _)
  refine bw_w (bw_bind (w2 := 0) (up (bw_lift eats_u8)) fun t => ?_) (by omega)
  split
  · exact up (bw_fail 0)
  · split
    · exact up (bw_pure _)
    · refine bw_w (bw_bind (up bw_rvarint) fun fee => bw_bind (w1 := 0) ?_ fun ps =>
        bw_bind (up (bw_pushN (k := 33) (bw_lift (eats_ecdh _)) (by decide) o)) fun e =>
        bw_bind (up (bw_keysN o)) fun pk => up (bw_pure _)) (by omega)
      split
      · exact bw_w (up (bw_keysN i)) (Nat.zero_le _)
      · exact up (bw_pure _)

/-! ## RctSigPrunable -/

theorem agrees_rbp : Agrees rbp bp := by
  unfold rbp bp
  exact agrees_bind (agrees_lift _) fun f => agrees_bind (agrees_vec _ (agrees_lift key)) fun l =>
    agrees_bind (agrees_vec _ (agrees_lift key)) fun r => agrees_bind (agrees_lift _) fun t => agrees_pure _
theorem agrees_rbpp : Agrees rbpp bpp := by
  unfold rbpp bpp
  exact agrees_bind (agrees_lift _) fun f => agrees_bind (agrees_vec _ (agrees_lift key)) fun l =>
    agrees_bind (agrees_vec _ (agrees_lift key)) fun r => agrees_pure _

/-- a Bulletproof is at least 290 bytes (9 fixed keys, two counts) and holds two capped key vectors -/
theorem bw_rbp : BW CAP 8 290 rbp := by
  unfold rbp
  have up {α} {w : Nat} {d : RDec α} (h : BW 0 0 w d) : BW CAP 8 w d := bw_mono h (Nat.zero_le _) (Nat.zero_le _) (Nat.le_refl _)
  exact bw_w (bw_bind (up (bw_lift (eats_takeN (32*6)))) fun f => bw_bind bw_keys fun l => bw_bind bw_keys fun r =>
    bw_bind (up (bw_lift (eats_takeN (32*3)))) fun t => up (bw_pure _)) (by omega)
theorem bw_rbpp : BW CAP 8 194 rbpp := by
  unfold rbpp
  have up {α} {w : Nat} {d : RDec α} (h : BW 0 0 w d) : BW CAP 8 w d := bw_mono h (Nat.zero_le _) (Nat.zero_le _) (Nat.le_refl _)
  exact bw_w (bw_bind (up (bw_lift (eats_takeN (32*6)))) fun f => bw_bind bw_keys fun l => bw_bind bw_keys fun r =>
    up (bw_pure _)) (by omega)

theorem agrees_rproofs (ty o : Nat) : Agrees (rproofs ty o) (proofsDec ty o) := by
  unfold rproofs proofsDec
  split
  · exact agrees_bind (agrees_vec _ agrees_rbp) fun x => agrees_pure _
  · split
    · exact agrees_bind (agrees_lift _) fun n => agrees_bind (agrees_vecN _ agrees_rbp _) fun x => agrees_pure _
    · split
      · exact agrees_bind (agrees_lift _) fun n => agrees_bind (agrees_vecN _ agrees_rbpp _) fun x => agrees_pure _
      · exact agrees_bind (agrees_vecN _ (agrees_lift _) _) fun x => agrees_pure _

theorem eats_u32le : Eats 4 u32le := by
  unfold u32le
  exact eats_mono (eats_bind (eats_takeN 4) fun b => eats_pure _) (by omega)

theorem bw_rproofs (ty o : Nat) : BW (2 * CAP) 10 0 (rproofs ty o) := by
  unfold rproofs
  have up {α} {A B w : Nat} {d : RDec α} (h : BW A B w d) (hA : A ≤ 2 * CAP := by omega) (hB : B ≤ 10 := by omega) :
      BW (2 * CAP) 10 0 d := bw_mono h hA hB (Nat.zero_le _)
  split
  · exact up (bw_bind (up (bw_vec (B' := 10) bw_rbp sz_bp (by omega) (by omega))) fun x => up (bw_pure _))
  · split
    · exact up (bw_bind (up (bw_lift eats_u32le)) fun n => bw_bind (up (bw_vecN bw_rbp sz_bp n)) fun x => up (bw_pure _))
    · split
      · exact up (bw_bind (up (bw_lift eats_u8)) fun n => bw_bind (up (bw_vecN bw_rbpp sz_bpp n.toNat)) fun x => up (bw_pure _))
      · exact up (bw_bind (up (bw_vecN (bw_lift (eats_takeN 6176)) sz_rangesig o)) fun x => up (bw_pure _))

theorem agrees_rclsag (m : Nat) : Agrees (rclsag m) (clsagDec m) := by
  unfold rclsag clsagDec
  exact agrees_bind (agrees_pushN _ (agrees_lift key) _) fun s => agrees_bind (agrees_lift key) fun c1 =>
    agrees_bind (agrees_lift key) fun d => agrees_pure _
theorem agrees_rmg (cols m : Nat) : Agrees (rmg cols m) (mgDec cols m) := by
  unfold rmg mgDec
  exact agrees_bind (agrees_pushN _ (agrees_vecN _ (agrees_lift key) _) _) fun ss =>
    agrees_bind (agrees_lift key) fun cc => agrees_pure _

/-- a Clsag is at least 64 bytes; 4 heap bytes per input byte for `s` -/
theorem bw_rclsag (m : Nat) : BW 0 4 64 (rclsag m) := by
  unfold rclsag
  have up {α} {w : Nat} {d : RDec α} (h : BW 0 0 w d) : BW 0 4 w d := bw_mono h (Nat.zero_le _) (Nat.zero_le _) (Nat.le_refl _)
  exact bw_w (bw_bind (bw_mono (bw_pushN (k := 4) (bw_lift eats_key) (by decide) (m+1)) (Nat.le_refl _) (by omega) (Nat.le_refl _))
    fun s => bw_bind (up (bw_lift eats_key)) fun c1 => bw_bind (up (bw_lift eats_key)) fun d => up (bw_pure _)) (by omega)

/-- an MgSig (with at least one column) is at least 32 bytes; rows: 1 heap byte per input byte for the keys plus 3 for
the pushed `Vec` headers (24 bytes, growth 4, at least 32 input bytes per row) -/
theorem bw_rmg (cols m : Nat) (hc : 1 ≤ cols) : BW CAP 4 32 (rmg cols m) := by
  unfold rmg
  have up {α} {w : Nat} {d : RDec α} (h : BW 0 0 w d) : BW CAP 4 w d := bw_mono h (Nat.zero_le _) (Nat.zero_le _) (Nat.le_refl _)
  have row : BW CAP 1 32 (rvecN CAP sizes.key (lift key) cols) := bw_w (bw_keysN cols) (by omega)
  exact bw_w (bw_bind (w1 := 0) (bw_mono (bw_pushN (k := 3) row (by decide) (m+1)) (Nat.le_refl _) (by omega) (Nat.zero_le _))
    fun ss => bw_bind (up (bw_lift eats_key)) fun cc => up (bw_pure _)) (by omega)

theorem agrees_rsigs (ty i m : Nat) : Agrees (rsigs ty i m) (sigsDec ty i m) := by
  unfold rsigs sigsDec
  split
  · exact agrees_bind (agrees_pushN _ (agrees_rclsag m) _) fun cs => agrees_pure _
  · exact agrees_bind (agrees_pushN _ (agrees_rmg _ m) _) fun ms => agrees_pure _

theorem bw_rsigs (ty i m : Nat) : BW CAP 11 0 (rsigs ty i m) := by
  unfold rsigs
  have up {α} {A B w : Nat} {d : RDec α} (h : BW A B w d) (hA : A ≤ CAP := by omega) (hB : B ≤ 11 := by omega) :
      BW CAP 11 0 d := bw_mono h hA hB (Nat.zero_le _)
  split
  · exact up (bw_bind (up (bw_pushN (k := 6) (bw_rclsag m) (by decide) i)) fun cs => up (bw_pure _))
  · have hc : 1 ≤ (if ty = 2 ∨ ty = 3 ∨ ty = 4 then 2 else 1 + i) := by split <;> omega
    exact up (bw_bind (up (bw_pushN (k := 7) (bw_rmg _ m hc) (by decide) _)) fun ms => up (bw_pure _))

theorem agrees_rpseudo (ty i : Nat) : Agrees (rpseudo ty i) (pseudoDec ty i) := by
  unfold rpseudo pseudoDec
  split
  · exact agrees_vecN _ (agrees_lift key) _
  · exact agrees_pure _
theorem bw_rpseudo (ty i : Nat) : BW CAP 1 0 (rpseudo ty i) := by
  unfold rpseudo
  split
  · exact bw_w (bw_keysN i) (Nat.zero_le _)
  · exact bw_mono (bw_pure _) (Nat.zero_le _) (Nat.zero_le _) (Nat.le_refl _)

theorem agrees_rprunable (ty i o m : Nat) : Agrees (rprunable ty i o m) (prunable ty i o m) := by
  unfold rprunable prunable
  split
  · exact agrees_pure _
  · exact agrees_bind (agrees_rproofs ty o) fun (rs, bps, bpps) => agrees_bind (agrees_rsigs ty i m) fun (ms, cs) =>
      agrees_bind (agrees_rpseudo ty i) fun po => agrees_pure _
theorem rprunable_val (ty i o m : Nat) (b : Bytes) : (rprunable ty i o m b).val = prunable ty i o m b :=
  agrees_rprunable ty i o m b

theorem bw_rprunable (ty i o m : Nat) : BW (2 * CAP) 11 0 (rprunable ty i o m) := by
  unfold rprunable
  have up {α} {A B w : Nat} {d : RDec α} (h : BW A B w d) (hA : A ≤ 2 * CAP := by omega) (hB : B ≤ 11 := by omega) :
      BW (2 * CAP) 11 0 d := bw_mono h hA hB (Nat.zero_le _)
  split
  · exact up (bw_pure _)
  · exact up (bw_bind (up (bw_rproofs ty o)) fun (rs, bps, bpps) => bw_bind (up (bw_rsigs ty i m)) fun (ms, cs) =>
      bw_bind (up (bw_rpseudo ty i)) fun po => up (bw_pure _))

/-! ## Transaction -/

theorem agrees_rsigRows : ∀ rings, Agrees (rsigRows rings) (tx.sigs rings)
  | [] => by simp only [rsigRows, tx.sigs]; exact agrees_pure _
  | n :: t => by
    simp only [rsigRows, tx.sigs]
    exact agrees_bind (agrees_pushN _ (agrees_lift _) _) fun s => agrees_bind (agrees_rsigRows t) fun ss => agrees_pure _

theorem bounded_rsigRows : ∀ rings, Bounded 0 4 (rsigRows rings)
  | [] => by simp only [rsigRows]; exact bounded_mono (bounded_pure _) (Nat.zero_le _) (Nat.zero_le _)
  | n :: t => by
    simp only [rsigRows]
    exact bounded_bind (bounded_mono (bw_pushN (k := 4) (bw_lift (eats_takeN 64)) (by decide) n).bd (Nat.le_refl _) (by omega))
      fun s => bounded_bind (bounded_rsigRows t) fun ss => bounded_mono (bounded_pure _) (Nat.zero_le _) (Nat.zero_le _)

theorem agrees_rtx : Agrees rtx tx := by
  unfold rtx tx
  refine agrees_bind agrees_rprefix fun p => ?_
  dsimp only
  split
  · exact agrees_alloc _ (agrees_bind (agrees_rsigRows _) fun s => agrees_pure _)
  · split
    · exact agrees_pure _
    · refine agrees_bind (agrees_rbase _ _) fun b => ?_
      split
      · cases hh : p.ins.head? with
        | none => exact agrees_bind (agrees_rprunable _ _ _ _) fun pr => agrees_pure _
        | some i0 =>
          cases i0 with
          | gen h => exact agrees_bind (agrees_rprunable _ _ _ _) fun pr => agrees_pure _
          | toKey a o k =>
            dsimp only
            split
            · exact agrees_fail
            · exact agrees_bind (agrees_rprunable _ _ _ _) fun pr => agrees_pure _
      · exact agrees_pure _

/-- the instrumented transaction decoder computes exactly the model's result -/
theorem rtx_val (b : Bytes) : (rtx b).val = tx b := agrees_rtx b

/-- slope of the transaction bound: 48 for the inputs vector (`Bprefix`: 8 VarInt scratch + 8 per key-offset byte + 64/2 per
input byte) plus 48 for the version-1 rows vector (`GROW·24` per input of at least 2 bytes); all other sections need less
(ecdh 33, ring signatures 11, range proofs 10) -/
def Btx : Nat := 96

theorem bounded_rtx : Bounded (2 * CAP) Btx rtx := by
  unfold rtx
  have up {α} {A B : Nat} {d : RDec α} (h : Bounded A B d) (hA : A ≤ 2 * CAP := by omega) (hB : B ≤ 96 := by omega) :
      Bounded (2 * CAP) Btx d := bounded_mono h hA hB
  refine bounded_bind_credit (B1 := Bprefix) (c := GROW * szVec) (k := 48) (w := 2) (g := fun p => p.ins.length)
    bounded_rprefix (by decide) (by decide) (fun b p r h => prefix_eats_ins b p r (by rw [← rprefix_val]; exact h)) fun p => ?_
  split
  · refine boundedC_mono (boundedC_alloc (up (A := 0) (B := 4) ?_) _)
      (Nat.mul_le_mul_right _ (List.length_filterMap_le _ _))
    exact bounded_bind (bounded_rsigRows _) fun s => bounded_mono (bounded_pure _) (Nat.zero_le _) (Nat.zero_le _)
  · refine boundedC_of_bounded ?_ _
    split
    · exact up (bounded_pure _)
    · refine bounded_bind (up (bw_rbase _ _).bd) fun b => ?_
      have fin (m : Nat) : Bounded (2 * CAP) Btx
          (rbind (rprunable b.ty p.ins.length p.outs.length m) fun pr => rpure (Tx.mk p [] (some b) pr)) :=
        bounded_bind (up (bw_rprunable _ _ _ _).bd) fun pr => up (bounded_pure _)
      split
      · split
        · split
          · exact up bounded_rfail
          · exact fin _
        · exact fin 0
      · exact up (bounded_pure _)

/-- whole transaction: the instrumented decoder returns the model's result, and at every moment of the decode the
outstanding heap (as the ledger of Model/Ledger.lean counts it) is at most `2·CAP + 96·|input|`, whether it succeeds or fails -/
theorem alloc_bound_tx (b : Bytes) : (rtx b).val = tx b ∧ (rtx b).peak ≤ 2 * CAP + 96 * b.length := by
  show _ ∧ _ ≤ 2 * CAP + Btx * b.length
  refine ⟨rtx_val b, ?_⟩
  have hp := bounded_rtx.peak b
  have hu : used b (rtx b) ≤ b.length := by unfold used; split <;> omega
  have := Nat.mul_le_mul_left Btx hu
  omega
theorem alloc_released_tx (b : Bytes) (h : (rtx b).val = none) : (rtx b).live = 0 := bounded_rtx.live_fail b h

/-! ## Block -/

theorem eats_uintLE (k : Nat) : Eats k (uintLE k) := by
  unfold uintLE
  exact eats_mono (eats_bind (eats_takeN k) fun b => eats_pure _) (by omega)
theorem eats_header : Eats 39 header := by
  unfold header
  exact eats_mono (eats_bind eats_varint fun ma => eats_bind eats_varint fun mi => eats_bind eats_varint fun ts =>
    eats_bind eats_key fun pv => eats_bind (eats_uintLE 4) fun n => eats_pure _) (by omega)

theorem agrees_rheader : Agrees rheader header := by
  unfold rheader header
  exact agrees_bind agrees_rvarint fun ma => agrees_bind agrees_rvarint fun mi => agrees_bind agrees_rvarint fun ts =>
    agrees_bind (agrees_lift key) fun pv => agrees_bind (agrees_lift (uintLE 4)) fun n => agrees_pure _
theorem bw_rheader : BW 0 8 39 rheader := by
  unfold rheader
  have up {α} {w : Nat} {d : RDec α} (h : BW 0 0 w d) : BW 0 8 w d := bw_mono h (Nat.zero_le _) (Nat.zero_le _) (Nat.le_refl _)
  exact bw_w (bw_bind bw_rvarint fun ma => bw_bind bw_rvarint fun mi => bw_bind bw_rvarint fun ts =>
    bw_bind (up (bw_lift eats_key)) fun pv => bw_bind (up (bw_lift (eats_uintLE 4))) fun n => up (bw_pure _)) (by omega)

theorem agrees_rblock : Agrees rblock block := by
  unfold rblock block
  exact agrees_bind agrees_rheader fun h => agrees_bind agrees_rtx fun t =>
    agrees_bind (agrees_vec _ (agrees_lift key)) fun hs => agrees_pure _
theorem rblock_val (b : Bytes) : (rblock b).val = block b := agrees_rblock b

def Bblock : Nat := 96

theorem bounded_rblock : Bounded (2 * CAP) Bblock rblock := by
  unfold rblock
  have up {α} {A B : Nat} {d : RDec α} (h : Bounded A B d) (hA : A ≤ 2 * CAP := by omega) (hB : B ≤ 96 := by omega) :
      Bounded (2 * CAP) Bblock d := bounded_mono h hA hB
  exact bounded_bind (up bw_rheader.bd) fun h => bounded_bind (up bounded_rtx (Nat.le_refl _) (Nat.le_refl _)) fun t =>
    bounded_bind (up bw_keys.bd) fun hs => up (bounded_pure _)

theorem alloc_bound_block (b : Bytes) : (rblock b).val = block b ∧ (rblock b).peak ≤ 2 * CAP + 96 * b.length := by
  show _ ∧ _ ≤ 2 * CAP + Bblock * b.length
  refine ⟨rblock_val b, ?_⟩
  have hp := bounded_rblock.peak b
  have hu : used b (rblock b) ≤ b.length := by unfold used; split <;> omega
  have := Nat.mul_le_mul_left Bblock hu
  omega
theorem alloc_released_block (b : Bytes) (h : (rblock b).val = none) : (rblock b).live = 0 := bounded_rblock.live_fail b h

/-! ## the unbounded scratch vector is IN the ledger: a VarInt that never ends -/

theorem rbind_fail_first {α β} (d : RDec α) (f : α → RDec β) (b : Bytes) (h : (d b).val = none) :
    (rbind d f b).val = none ∧ (rbind d f b).peak = (d b).peak := by
  unfold rbind
  cases hd : d b with
  | mk v p l =>
    rw [hd] at h
    simp only at h
    subst h
    exact ⟨rfl, rfl⟩

theorem collect_ff (n : Nat) : ∀ acc, collect (List.replicate n (0xff : UInt8)) acc = none := by
  induction n with
  | zero => intro acc; rfl
  | succ n ih =>
    intro acc
    rw [List.replicate_succ]
    unfold collect
    rw [if_neg (fun h => absurd h.1 (by decide)), if_neg (by decide)]
    exact ih _

theorem rvarint_ff_res (n : Nat) :
    (rvarint (List.replicate n 0xff)).val = none ∧ (rvarint (List.replicate n 0xff)).peak = scratchU8 n := by
  refine ⟨?_, ?_⟩
  · show varint _ = none
    unfold varint; rw [collect_ff]
  · show scratchU8 (varintPushed _ 0) = _
    rw [rvarint_ff]

/-- on `0xff^n` the transaction and block decoders fail in their first VarInt after reading (and keeping) the whole input: the
ledger's peak is the scratch vector, `max 8 (4·n)` bytes -/
theorem ledger_ff (n : Nat) :
    (rtx (List.replicate n 0xff)).val = none ∧ (rtx (List.replicate n 0xff)).peak = scratchU8 n ∧
    (rblock (List.replicate n 0xff)).val = none ∧ (rblock (List.replicate n 0xff)).peak = scratchU8 n := by
  obtain ⟨hv, hp⟩ := rvarint_ff_res n
  have h1 := rbind_fail_first rvarint (fun v => rbind rvarint fun u => rbind rvecTxIn fun i => rbind (rvec sizes.txout rtxout) fun o =>
    rbind (rvec sizes.u8 (lift u8)) fun e => rpure (⟨v, u, i, o, e⟩ : Prefix)) _ hv
  have hpre : (rprefix (List.replicate n 0xff)).val = none ∧ (rprefix (List.replicate n 0xff)).peak = scratchU8 n := by
    unfold rprefix; exact ⟨h1.1, by rw [h1.2, hp]⟩
  have h2 : (rtx (List.replicate n 0xff)).val = none ∧ (rtx (List.replicate n 0xff)).peak = (rprefix (List.replicate n 0xff)).peak := by
    unfold rtx; exact rbind_fail_first _ _ _ hpre.1
  have h3 := rbind_fail_first rvarint (fun ma => rbind rvarint fun mi => rbind rvarint fun ts => rbind (lift key) fun pv =>
    rbind (lift (uintLE 4)) fun n => rpure (⟨ma, mi, ts, pv, n⟩ : Header)) _ hv
  have hhd : (rheader (List.replicate n 0xff)).val = none ∧ (rheader (List.replicate n 0xff)).peak = scratchU8 n := by
    unfold rheader; exact ⟨h3.1, by rw [h3.2, hp]⟩
  have h4 : (rblock (List.replicate n 0xff)).val = none ∧ (rblock (List.replicate n 0xff)).peak = (rheader (List.replicate n 0xff)).peak := by
    unfold rblock; exact rbind_fail_first _ _ _ hhd.1
  exact ⟨h2.1, by rw [h2.2, hpre.2], h4.1, by rw [h4.2, hhd.2]⟩
