import MoneroModel.Proofs.Base58Block
/-! The base-58 reference is a bijection between byte strings and accepted texts. -/
namespace Base58

@[simp] theorem join_none_left (x : Option Bytes) : join none x = none := by cases x <;> rfl
@[simp] theorem join_none_right (x : Option Bytes) : join x none = none := by cases x <;> rfl
@[simp] theorem join_some (b r : Bytes) : join (some b) (some r) = some (b ++ r) := rfl

theorem encode_le (data : Bytes) (h : data.length ≤ 8) : encode data = encodeBlock data := by
  rw [encode]; simp [h]
theorem encode_gt (data : Bytes) (h : 8 < data.length) :
    encode data = encodeBlock (data.take 8) ++ encode (data.drop 8) := by
  rw [encode]; simp [Nat.not_le.2 h]
theorem decode_le (s : List UInt8) (h : s.length ≤ 11) : decode s = decodeBlock s := by
  rw [decode]; simp [h]
theorem decode_gt (s : List UInt8) (h : 11 < s.length) :
    decode s = join (decodeBlock (s.take 11)) (decode (s.drop 11)) := by
  rw [decode]; simp [Nat.not_le.2 h]

/-- the encoding of a non-empty byte string is non-empty -/
theorem encode_pos (data : Bytes) (h : 0 < data.length) : 0 < (encode data).length := by
  by_cases h8 : data.length ≤ 8
  · rw [encode_le _ h8, encodeBlock_length]
    have := encSize_pos _ h h8
    omega
  · rw [encode_gt _ (by omega), List.length_append, encodeBlock_length]
    have : (data.take 8).length = 8 := by simp; omega
    rw [this]; simp only [encSize]; omega

/-- exact length of the text: 11 characters per full block plus the tail size -/
theorem encode_length : ∀ (n : Nat) (data : Bytes), data.length = n →
    (encode data).length = 11 * (n / 8) + encSize (n % 8) := by
  intro n
  induction n using Nat.strongRecOn with
  | _ n ih =>
    intro data hl
    by_cases h8 : data.length ≤ 8
    · rw [encode_le _ h8, encodeBlock_length, hl]
      by_cases h : n = 8
      · subst h; rfl
      · have : n / 8 = 0 := by omega
        have h2 : n % 8 = n := by omega
        rw [this, h2]; omega
    · rw [encode_gt _ (by omega), List.length_append, encodeBlock_length]
      have ht : (data.take 8).length = 8 := by simp; omega
      have := ih (n - 8) (by omega) (data.drop 8) (by simp; omega)
      rw [this, ht]
      have e1 : n / 8 = (n - 8) / 8 + 1 := by omega
      have e2 : n % 8 = (n - 8) % 8 := by omega
      rw [e1, e2]; simp [encSize]; omega

/-- decode ∘ encode = id on all byte strings -/
theorem decode_encode : ∀ (n : Nat) (data : Bytes), data.length = n → decode (encode data) = some data := by
  intro n
  induction n using Nat.strongRecOn with
  | _ n ih =>
    intro data hl
    by_cases h8 : data.length ≤ 8
    · rw [encode_le _ h8, decode_le _ (by rw [encodeBlock_length]; exact encSize_le _)]
      exact decodeBlock_encodeBlock data h8
    · have ht : (data.take 8).length = 8 := by simp; omega
      have hx : (encodeBlock (data.take 8)).length = 11 := by rw [encodeBlock_length, ht]; rfl
      have hy : 0 < (encode (data.drop 8)).length := encode_pos _ (by simp; omega)
      rw [encode_gt _ (by omega), decode_gt _ (by rw [List.length_append]; omega)]
      have t1 : (encodeBlock (data.take 8) ++ encode (data.drop 8)).take 11 = encodeBlock (data.take 8) := by
        rw [← hx]; exact List.take_left
      have t2 : (encodeBlock (data.take 8) ++ encode (data.drop 8)).drop 11 = encode (data.drop 8) := by
        rw [← hx]; exact List.drop_left
      rw [t1, t2, decodeBlock_encodeBlock _ (by omega), ih (n - 8) (by omega) (data.drop 8) (by simp; omega)]
      simp [join]

/-- only the empty text decodes to the empty byte string -/
theorem decode_nil (s : List UInt8) (h : decode s = some []) : s = [] := by
  by_cases h11 : s.length ≤ 11
  · rw [decode_le _ h11] at h
    obtain ⟨_, _, h3⟩ := encodeBlock_of_decodeBlock s [] h
    exact List.eq_nil_of_length_eq_zero (by simpa [encSize] using h3.symm)
  · rw [decode_gt _ (by omega)] at h
    cases hb : decodeBlock (s.take 11) with
    | none => simp [hb] at h
    | some b =>
      cases hr : decode (s.drop 11) with
      | none => simp [hb, hr, join] at h
      | some r =>
        simp only [hb, hr, join, Option.some.injEq, List.append_eq_nil_iff] at h
        obtain ⟨_, _, h3⟩ := encodeBlock_of_decodeBlock _ _ hb
        rw [h.1] at h3
        have : (s.take 11).length = 11 := by simp; omega
        rw [this] at h3
        simp [encSize] at h3

/-- decode s = some b → encode b = s: only the canonical text of a byte string is accepted -/
theorem encode_of_decode : ∀ (n : Nat) (s : List UInt8) (b : Bytes), s.length = n → decode s = some b → encode b = s := by
  intro n
  induction n using Nat.strongRecOn with
  | _ n ih =>
    intro s b hl h
    by_cases h11 : s.length ≤ 11
    · rw [decode_le _ h11] at h
      obtain ⟨h1, h2, _⟩ := encodeBlock_of_decodeBlock s b h
      rw [encode_le _ h2, h1]
    · rw [decode_gt _ (by omega)] at h
      cases hb : decodeBlock (s.take 11) with
      | none => simp [hb, join] at h
      | some b1 =>
        cases hr : decode (s.drop 11) with
        | none => simp [hb, hr, join] at h
        | some r =>
          simp only [hb, hr, join, Option.some.injEq] at h
          subst h
          obtain ⟨h1, h2, h3⟩ := encodeBlock_of_decodeBlock _ _ hb
          have hs11 : (s.take 11).length = 11 := by simp; omega
          rw [hs11] at h3
          have hb8 : b1.length = 8 := by
            have : b1.length = 0 ∨ b1.length = 1 ∨ b1.length = 2 ∨ b1.length = 3 ∨ b1.length = 4 ∨ b1.length = 5 ∨
                b1.length = 6 ∨ b1.length = 7 ∨ b1.length = 8 := by omega
            rcases this with e | e | e | e | e | e | e | e | e <;> rw [e] at h3 <;> simp [encSize] at h3 <;> exact e
          have hrne : 0 < r.length := by
            cases r with
            | nil =>
              have := decode_nil _ hr
              have hd : (s.drop 11).length = 0 := by rw [this]; rfl
              simp at hd; omega
            | cons _ _ => simp
          have ihr := ih (n - 11) (by omega) (s.drop 11) r (by simp; omega) hr
          rw [encode_gt _ (by rw [List.length_append]; omega)]
          have t1 : (b1 ++ r).take 8 = b1 := by rw [← hb8]; exact List.take_left
          have t2 : (b1 ++ r).drop 8 = r := by rw [← hb8]; exact List.drop_left
          rw [t1, t2, h1, ihr, List.take_append_drop]
end Base58
