import MoneroModel.Proofs.ExtraTotal
open Monero Monero.Extra

/-! Encode-then-decode for well-formed sub-fields and sub-field sequences, the raw conversion, the accessors.
Core Lean only. -/
namespace Monero.Extra

theorem CAP_lt : CAP < 2^64 := by decide

/-- a sub-field value that the decoder accepts back: `Padding(u8)`, valid 32-byte keys, `VarInt(u64)` depth and a
32-byte root, vectors within the allocation cap (hence shorter than 2^64). (The Rust types can hold more: `PublicKey`
has a public `point` field, so values whose bytes fail `vk` can be built by hand; they are outside `WFField`.
Conversely every value the decoder returns satisfies `WFField`: `subFieldRd_sound`.) -/
def WFField (vk : Bytes → Bool) : SubField → Prop
  | .padding n => n ≤ 255
  | .txPub k => k.length = 32 ∧ vk k = true
  | .nonce n => n.length * sizes.u8 ≤ CAP ∧ n.length < 2^64
  | .mergeMining d h => d < 2^64 ∧ h.length = 32
  | .addKeys ks => (∀ k ∈ ks, k.length = 32 ∧ vk k = true) ∧ ks.length * sizes.key ≤ CAP ∧ ks.length < 2^64
  | .minerGate d => d.length * sizes.u8 ≤ CAP ∧ d.length < 2^64

/-- padding of fewer than 255 bytes -/
def ShortPad : SubField → Prop
  | .padding n => n ≠ 255
  | _ => False

/-- a well-formed sequence: every field well formed, padding of fewer than 255 bytes only in last position -/
def WFSeq (vk : Bytes → Bool) : List SubField → Prop
  | [] => True
  | [f] => WFField vk f
  | f :: g :: rest => WFField vk f ∧ ¬ ShortPad f ∧ WFSeq vk (g :: rest)

/-- plain concatenation of the encodings (what `encFields` computes) -/
def flat (fs : List SubField) : Bytes := (fs.map encSub).flatten

theorem encFieldsAux_eq : ∀ (fs : List SubField) (acc : Bytes), encFieldsAux fs acc = acc.reverse ++ flat fs
  | [], acc => by simp [encFieldsAux, flat]
  | f :: fs, acc => by
    rw [encFieldsAux, encFieldsAux_eq fs]
    simp [flat, List.reverseAux_eq]

theorem encFields_eq (fs : List SubField) : encFields fs = flat fs := by
  simp [encFields, encFieldsAux_eq]

/-! ### readers on encoded values -/

theorem takeRd_append (x r : Bytes) (n : Nat) (h : x.length = n) : takeRd n (x ++ r) = (some x, r) := by
  unfold takeRd
  have : ¬ ((x ++ r).length < n) := by simp [h]
  rw [if_neg this]; subst h; simp

theorem rbind_some {α β} {d : Rd α} {f : α → Rd β} {b r : Bytes} {x : α} (h : d b = (some x, r)) :
    rbind d f b = f x r := by
  unfold rbind; rw [h]

theorem vecU8Rd_complete (x r : Bytes) (hc : x.length * sizes.u8 ≤ CAP) (hl : x.length < 2^64) :
    vecU8Rd (encVarint x.length ++ x ++ r) = (some x, r) := by
  unfold vecU8Rd
  rw [List.append_assoc, rbind_some (varintRd_complete x.length hl (x ++ r)), if_neg (by omega)]
  exact takeRd_append x r _ rfl

theorem keyRd_complete (vk : Bytes → Bool) (k r : Bytes) (hk : k.length = 32) (hv : vk k = true) :
    keyRd vk (k ++ r) = (some k, r) := by
  unfold keyRd
  rw [rbind_some (takeRd_append k r 32 hk), hv]; rfl

theorem keysLoop_complete (vk : Bytes → Bool) : ∀ (ks : List Bytes) (acc : List Bytes) (r : Bytes),
    (∀ k ∈ ks, k.length = 32 ∧ vk k = true) → keysLoop vk ks.length acc (ks.flatten ++ r) = (some (acc.reverse ++ ks), r)
  | [], acc, r, _ => by simp [keysLoop, rpure]
  | k :: ks, acc, r, h => by
    have hk := h k (by simp)
    simp only [List.length_cons, List.flatten_cons, List.append_assoc]
    unfold keysLoop
    rw [keyRd_complete vk k _ hk.1 hk.2]
    simp only
    rw [keysLoop_complete vk ks (k :: acc) r (fun k' hk' => h k' (by simp [hk']))]
    simp

theorem keysRd_complete (vk : Bytes → Bool) (ks : List Bytes) (r : Bytes) (hk : ∀ k ∈ ks, k.length = 32 ∧ vk k = true)
    (hc : ks.length * sizes.key ≤ CAP) (hl : ks.length < 2^64) :
    keysRd vk (encVarint ks.length ++ ks.flatten ++ r) = (some ks, r) := by
  unfold keysRd
  rw [List.append_assoc, rbind_some (varintRd_complete ks.length hl _), if_neg (by omega)]
  simpa using keysLoop_complete vk ks [] r hk

/-- `n` zero bytes with exactly `n` iterations left: all are swallowed, whatever follows -/
theorem padLoop_full : ∀ (n i : Nat) (r : Bytes),
    padLoop n i (List.replicate n 0 ++ r) = (some (.padding (i + n)), r)
  | 0, i, r => by simp [padLoop_zero]
  | n+1, i, r => by
    rw [List.replicate_succ, List.cons_append, padLoop_cons, if_neg (by simp), padLoop_full n (i+1) r]
    simp; omega

/-- greedy rule: `n` zero bytes then `r`, with at least `n` iterations left — the loop goes on into `r` -/
theorem padLoop_zeros : ∀ (n fuel i : Nat) (r : Bytes),
    padLoop (fuel + n) i (List.replicate n 0 ++ r) = padLoop fuel (i + n) r
  | 0, fuel, i, r => by simp
  | n+1, fuel, i, r => by
    rw [List.replicate_succ, List.cons_append, ← Nat.add_assoc, padLoop_cons, if_neg (by simp),
      padLoop_zeros n fuel (i+1) r]
    congr 1; omega

/-- `n ≤ fuel` zero bytes and then the end of the input -/
theorem padLoop_end (n fuel i : Nat) (h : n ≤ fuel) :
    padLoop fuel i (List.replicate n 0) = (some (.padding (i + n)), []) := by
  obtain ⟨k, rfl⟩ : ∃ k, fuel = k + n := ⟨fuel - n, by omega⟩
  have := padLoop_zeros n k i []
  rw [List.append_nil] at this
  rw [this]
  cases k <;> rfl

/-- decode ∘ encode on one well-formed sub-field followed by `r`; a padding of fewer than 255 bytes needs `r = []` -/
theorem subField_complete (vk : Bytes → Bool) (sf : SubField) (r : Bytes) (hw : WFField vk sf)
    (hp : ShortPad sf → r = []) : subFieldRd vk (encSub sf ++ r) = (some sf, r) := by
  cases sf with
  | padding n =>
    simp only [encSub, List.cons_append]
    rw [subFieldRd_cons]
    show padLoop 255 0 _ = _
    by_cases h : n = 255
    · subst h
      have := padLoop_full 255 0 r
      rw [Nat.zero_add] at this; exact this
    · have hr : r = [] := hp h
      subst hr
      have := padLoop_end n 255 0 hw
      rw [Nat.zero_add] at this; rw [List.append_nil]; exact this
  | txPub k =>
    simp only [encSub, List.cons_append]
    rw [subFieldRd_cons]
    show rbind (keyRd vk) _ _ = _
    rw [rbind_some (keyRd_complete vk k r hw.1 hw.2)]; rfl
  | nonce n =>
    simp only [encSub, List.cons_append]
    rw [subFieldRd_cons]
    show rbind vecU8Rd _ _ = _
    rw [rbind_some (vecU8Rd_complete n r hw.1 hw.2)]; rfl
  | mergeMining d h =>
    simp only [encSub, List.cons_append]
    rw [subFieldRd_cons]
    have e : afterTag vk 3 = rbind byteRd (fun _size => rbind varintRd fun d => rbind (takeRd 32) fun h =>
        rpure (.mergeMining d h)) := rfl
    rw [e, rbind_some (show byteRd (_ :: _) = (some _, _) from rfl), List.append_assoc,
      rbind_some (varintRd_complete d hw.1 _), rbind_some (takeRd_append h r 32 hw.2)]; rfl
  | addKeys ks =>
    simp only [encSub, List.cons_append]
    rw [subFieldRd_cons]
    show rbind (keysRd vk) _ _ = _
    rw [rbind_some (keysRd_complete vk ks r hw.1 hw.2.1 hw.2.2)]; rfl
  | minerGate d =>
    simp only [encSub, List.cons_append]
    rw [subFieldRd_cons]
    show rbind vecU8Rd _ _ = _
    rw [rbind_some (vecU8Rd_complete d r hw.1 hw.2)]; rfl

theorem encSub_ne_nil (sf : SubField) : encSub sf ≠ [] := by cases sf <;> simp [encSub]

/-- the loop on the concatenated encodings of a well-formed sequence pushes exactly that sequence, without error -/
theorem loop_flat (vk : Bytes → Bool) : ∀ (fs : List SubField) (fuel : Nat) (acc : List SubField) (npre : Nat),
    WFSeq vk fs → (flat fs).length ≤ fuel →
    loop vk fuel (flat fs) acc false npre =
      some ⟨false, acc.reverse ++ fs, (acc.reverse ++ fs).take (npre + fs.length)⟩
  | [], fuel, acc, npre, _, _ => by simp [flat, loop_nil]
  | f :: fs, fuel, acc, npre, hw, hf => by
    have hcons : flat (f :: fs) = encSub f ++ flat fs := by simp [flat]
    rw [hcons] at hf ⊢
    have hne : encSub f ++ flat fs ≠ [] := by simp [encSub_ne_nil]
    have hlen : 1 ≤ (encSub f).length := by
      cases h : encSub f with
      | nil => exact absurd h (encSub_ne_nil f)
      | cons _ _ => simp
    obtain ⟨fuel', rfl⟩ : ∃ k, fuel = k + 1 := ⟨fuel - 1, by simp at hf; omega⟩
    have hwf : WFField vk f ∧ (ShortPad f → flat fs = []) ∧ WFSeq vk fs := by
      cases fs with
      | nil => exact ⟨hw, fun _ => rfl, trivial⟩
      | cons g rest => exact ⟨hw.1, fun h => absurd h hw.2.1, hw.2.2⟩
    rw [loop_step_some vk fuel' _ hne (subField_complete vk f (flat fs) hwf.1 hwf.2.1)]
    rw [loop_flat vk fs fuel' (f :: acc) _ hwf.2.2 (by simp at hf; omega)]
    simp [Nat.add_comm, Nat.add_left_comm]

theorem tryParse_flat (vk : Bytes → Bool) (fs : List SubField) (hw : WFSeq vk fs) :
    tryParse vk (flat fs) = ⟨false, fs, fs⟩ := by
  have h1 := tryParse_eq_loop vk (flat fs) _ (Nat.le_refl _)
  rw [loop_flat vk fs _ [] 0 hw (Nat.le_refl _)] at h1
  simp at h1
  exact h1.symm

/-! ### the raw conversion -/

theorem rawDecode_complete (e : Bytes) (hc : e.length ≤ CAP) : rawDecode (encVarint e.length ++ e) = some e := by
  unfold rawDecode
  have := vecU8Rd_complete e [] (by simpa [sizes, Gen.sizes] using hc) (Nat.lt_of_le_of_lt hc CAP_lt)
  rw [List.append_nil] at this
  rw [this]

theorem toRaw_eq (fs : List SubField) (hc : (flat fs).length ≤ CAP) : toRaw fs = some (flat fs) := by
  unfold toRaw encExtra
  simp only [encFields_eq]
  exact rawDecode_complete _ hc

/-- `rep u8 n` is `n` one-byte reads -/
theorem rep_u8 : ∀ (n : Nat) (b : Bytes), rep u8 n b = if b.length < n then none else some (b.take n, b.drop n)
  | 0, b => by simp [rep, pure']
  | n+1, [] => by simp [rep, Monero.bind, u8]
  | n+1, x :: xs => by
    simp only [rep, Monero.bind, u8, rep_u8 n xs, List.length_cons, Nat.add_lt_add_iff_right]
    by_cases h : xs.length < n
    · simp [h]
    · simp [h, pure']

/-- `rawDecode` is the `Vec<u8>` decoder of the transaction model (`vec sizes.u8 u8`, the one `prefix'` uses for the
extra) followed by the all-consumed check of `deserialize` -/
theorem rawDecode_eq (b : Bytes) :
    rawDecode b = match vec sizes.u8 u8 b with | some (e, []) => some e | _ => none := by
  unfold rawDecode vecU8Rd vec rbind Monero.bind
  rw [varint_of_varintRd]
  cases h : varintRd b with
  | mk o r =>
    cases o with
    | none => rfl
    | some n =>
      simp only [sizedVec]
      by_cases hc : n * sizes.u8 > CAP
      · simp [hc, rfail, fail]
      · simp only [hc, ite_false, rep_u8, takeRd]
        by_cases hl : r.length < n
        · simp [hl]
        · simp only [hl, ite_false]
          generalize List.drop n r = dr
          cases dr <;> rfl

theorem flatten_singletons : ∀ e : Bytes, (e.map (fun b : UInt8 => [b])).flatten = e
  | [] => rfl
  | x :: xs => by rw [List.map_cons, List.flatten_cons, flatten_singletons xs]; rfl

/-! ### accessors -/

def isTxPub : SubField → Bool | .txPub _ => true | _ => false
def isAddKeys : SubField → Bool | .addKeys _ => true | _ => false

theorem txPubkey_some_iff : ∀ (fs : List SubField) (k : Bytes),
    txPubkey fs = some k ↔ ∃ pre post, fs = pre ++ .txPub k :: post ∧ ∀ f ∈ pre, isTxPub f = false
  | [], k => by simp [txPubkey]
  | f :: fs, k => by
    by_cases hf : isTxPub f = true
    · cases f <;> simp [isTxPub] at hf
      rename_i k0
      simp only [txPubkey]
      constructor
      · intro h; cases h; exact ⟨[], fs, rfl, by simp⟩
      · rintro ⟨pre, post, he, hp⟩
        cases pre with
        | nil => simp at he; rw [he.1]
        | cons p ps =>
          simp at he
          have := hp p (by simp)
          rw [← he.1] at this; simp [isTxPub] at this
    · have hstep : txPubkey (f :: fs) = txPubkey fs := by cases f <;> simp [isTxPub] at hf <;> rfl
      rw [hstep, txPubkey_some_iff fs k]
      constructor
      · rintro ⟨pre, post, rfl, hp⟩
        exact ⟨f :: pre, post, rfl, by intro g hg; simp at hg; rcases hg with rfl | hg; exact (by simpa using hf); exact hp g hg⟩
      · rintro ⟨pre, post, he, hp⟩
        cases pre with
        | nil => simp at he; rw [he.1] at hf; simp [isTxPub] at hf
        | cons p ps =>
          simp at he
          exact ⟨ps, post, he.2, fun g hg => hp g (by simp [hg])⟩

theorem txPubkey_none_iff : ∀ (fs : List SubField), txPubkey fs = none ↔ ∀ f ∈ fs, isTxPub f = false
  | [] => by simp [txPubkey]
  | f :: fs => by
    cases f <;> simp [txPubkey, isTxPub, txPubkey_none_iff fs]

theorem txAdd_some_iff : ∀ (fs : List SubField) (ks : List Bytes),
    txAdditionalPubkeys fs = some ks ↔ ∃ pre post, fs = pre ++ .addKeys ks :: post ∧ ∀ f ∈ pre, isAddKeys f = false
  | [], k => by simp [txAdditionalPubkeys]
  | f :: fs, k => by
    by_cases hf : isAddKeys f = true
    · cases f <;> simp [isAddKeys] at hf
      rename_i k0
      simp only [txAdditionalPubkeys]
      constructor
      · intro h; cases h; exact ⟨[], fs, rfl, by simp⟩
      · rintro ⟨pre, post, he, hp⟩
        cases pre with
        | nil => simp at he; rw [he.1]
        | cons p ps =>
          simp at he
          have := hp p (by simp)
          rw [← he.1] at this; simp [isAddKeys] at this
    · have hstep : txAdditionalPubkeys (f :: fs) = txAdditionalPubkeys fs := by
        cases f <;> simp [isAddKeys] at hf <;> rfl
      rw [hstep, txAdd_some_iff fs k]
      constructor
      · rintro ⟨pre, post, rfl, hp⟩
        exact ⟨f :: pre, post, rfl, by intro g hg; simp at hg; rcases hg with rfl | hg; exact (by simpa using hf); exact hp g hg⟩
      · rintro ⟨pre, post, he, hp⟩
        cases pre with
        | nil => simp at he; rw [he.1] at hf; simp [isAddKeys] at hf
        | cons p ps =>
          simp at he
          exact ⟨ps, post, he.2, fun g hg => hp g (by simp [hg])⟩

theorem txAdd_none_iff : ∀ (fs : List SubField), txAdditionalPubkeys fs = none ↔ ∀ f ∈ fs, isAddKeys f = false
  | [] => by simp [txAdditionalPubkeys]
  | f :: fs => by
    cases f <;> simp [txAdditionalPubkeys, isAddKeys, txAdd_none_iff fs]

end Monero.Extra
