import MoneroModel.Proofs.ExtraComplete
open Monero Monero.Extra

/-! Lengths: a successfully decoded sub-field re-encodes to exactly the bytes it consumed, so the re-encoding of
whatever `try_parse` salvages is never longer than the raw extra, and the `unwrap` of
`From<ExtraField> for RawExtraField` cannot panic on a parsed extra within the allocation cap. Core Lean only. -/
namespace Monero.Extra

theorem rbind_inv {α β} {d : Rd α} {f : α → Rd β} {b r : Bytes} {y : β} (h : rbind d f b = (some y, r)) :
    ∃ x r', d b = (some x, r') ∧ f x r' = (some y, r) := by
  unfold rbind at h
  cases hd : d b with
  | mk o r' =>
    rw [hd] at h
    cases o with
    | none => cases h
    | some x => exact ⟨x, r', rfl, h⟩

theorem rpure_inv {α} {x y : α} {b r : Bytes} (h : rpure x b = (some y, r)) : y = x ∧ r = b := by
  cases h; exact ⟨rfl, rfl⟩

theorem byteRd_len {b r : Bytes} {x : UInt8} (h : byteRd b = (some x, r)) : 1 + r.length = b.length := by
  cases b with
  | nil => cases h
  | cons y ys => cases h; simp only [List.length_cons]; omega

theorem takeRd_len {n : Nat} {b x r : Bytes} (h : takeRd n b = (some x, r)) :
    x.length = n ∧ n + r.length = b.length := by
  unfold takeRd at h
  by_cases hl : b.length < n
  · rw [if_pos hl] at h; cases h
  · rw [if_neg hl] at h; cases h
    simp only [List.length_take, List.length_drop]; omega

theorem varintRd_len {b r : Bytes} {n : Nat} (h : varintRd b = (some n, r)) :
    (encVarint n).length + r.length = b.length := by
  have := sound_varint b n r (varint_of_varintRd_some h)
  rw [this, List.length_append]

theorem vecU8Rd_len {b x r : Bytes} (h : vecU8Rd b = (some x, r)) :
    (encVarint x.length).length + x.length + r.length = b.length := by
  unfold vecU8Rd at h
  obtain ⟨n, r', h1, h2⟩ := rbind_inv h
  have hv := varintRd_len h1
  by_cases hc : n * sizes.u8 > CAP
  · rw [if_pos hc] at h2; cases h2
  · rw [if_neg hc] at h2
    have ht := takeRd_len h2
    rw [ht.1]; omega

theorem keyRd_len {vk : Bytes → Bool} {b k r : Bytes} (h : keyRd vk b = (some k, r)) :
    k.length = 32 ∧ 32 + r.length = b.length := by
  unfold keyRd at h
  obtain ⟨k', r', h1, h2⟩ := rbind_inv h
  have ht := takeRd_len h1
  cases hv : vk k' with
  | false => rw [hv] at h2; cases h2
  | true =>
    rw [hv] at h2
    obtain ⟨rfl, rfl⟩ := rpure_inv h2
    exact ht

theorem keysLoop_len (vk : Bytes → Bool) : ∀ (n : Nat) (acc : List Bytes) (b : Bytes) (ks : List Bytes) (r : Bytes),
    keysLoop vk n acc b = (some ks, r) →
    ks.length = acc.length + n ∧ ks.flatten.length + r.length = acc.reverse.flatten.length + b.length
  | 0, acc, b, ks, r, h => by
    unfold keysLoop at h
    obtain ⟨rfl, rfl⟩ := rpure_inv h
    exact ⟨by simp, rfl⟩
  | n+1, acc, b, ks, r, h => by
    unfold keysLoop at h
    cases hk : keyRd vk b with
    | mk o r' =>
      rw [hk] at h
      cases o with
      | none => cases h
      | some k =>
        have h1 := keyRd_len hk
        have h2 := keysLoop_len vk n (k :: acc) r' ks r h
        refine ⟨by rw [h2.1, List.length_cons]; omega, ?_⟩
        rw [h2.2, List.reverse_cons, List.flatten_append, List.length_append]
        simp only [List.flatten_cons, List.flatten_nil, List.append_nil]
        omega

theorem keysRd_len {vk : Bytes → Bool} {b r : Bytes} {ks : List Bytes} (h : keysRd vk b = (some ks, r)) :
    (encVarint ks.length).length + ks.flatten.length + r.length = b.length := by
  unfold keysRd at h
  obtain ⟨n, r', h1, h2⟩ := rbind_inv h
  have hv := varintRd_len h1
  by_cases hc : n * sizes.key > CAP
  · rw [if_pos hc] at h2; cases h2
  · rw [if_neg hc] at h2
    have hk := keysLoop_len vk n [] r' ks r h2
    have hl : ks.length = n := by rw [hk.1]; simp
    have hf : ks.flatten.length + r.length = r'.length := by rw [hk.2]; simp
    rw [hl]; omega

theorem padLoop_len : ∀ (fuel i : Nat) (b : Bytes) (sf : SubField) (r : Bytes), padLoop fuel i b = (some sf, r) →
    ∃ n, sf = .padding n ∧ n + r.length = i + b.length
  | 0, i, b, sf, r, h => by
    rw [padLoop_zero] at h; cases h; exact ⟨i, rfl, rfl⟩
  | fuel+1, i, [], sf, r, h => by
    rw [padLoop_nil] at h; cases h; exact ⟨i, rfl, rfl⟩
  | fuel+1, i, x :: xs, sf, r, h => by
    rw [padLoop_cons] at h
    by_cases hx : x ≠ 0
    · rw [if_pos hx] at h; cases h
    · rw [if_neg hx] at h
      obtain ⟨n, hs, hn⟩ := padLoop_len fuel (i+1) xs sf r h
      exact ⟨n, hs, by rw [hn, List.length_cons]; omega⟩

/-- every successfully decoded sub-field re-encodes to exactly as many bytes as were consumed -/
theorem subFieldRd_len (vk : Bytes → Bool) (b : Bytes) (sf : SubField) (r : Bytes)
    (h : subFieldRd vk b = (some sf, r)) : (encSub sf).length + r.length = b.length := by
  cases b with
  | nil => rw [subFieldRd_nil] at h; cases h
  | cons tag xs =>
    rw [subFieldRd_cons] at h
    unfold afterTag at h
    simp only [List.length_cons]
    split at h
    · obtain ⟨n, rfl, hn⟩ := padLoop_len 255 0 xs sf r h
      simp only [encSub, List.length_cons, List.length_replicate]; omega
    split at h
    · obtain ⟨k, r', h1, h2⟩ := rbind_inv h
      obtain ⟨rfl, rfl⟩ := rpure_inv h2
      have := keyRd_len h1
      simp only [encSub, List.length_cons]; omega
    split at h
    · obtain ⟨n, r', h1, h2⟩ := rbind_inv h
      obtain ⟨rfl, rfl⟩ := rpure_inv h2
      have := vecU8Rd_len h1
      simp only [encSub, List.length_cons, List.length_append]; omega
    split at h
    · obtain ⟨_, r1, h1, h2⟩ := rbind_inv h
      obtain ⟨d, r2, h3, h4⟩ := rbind_inv h2
      obtain ⟨hh, r3, h5, h6⟩ := rbind_inv h4
      obtain ⟨rfl, rfl⟩ := rpure_inv h6
      have a1 := byteRd_len h1
      have a2 := varintRd_len h3
      have a3 := takeRd_len h5
      simp only [encSub, List.length_cons, List.length_append]; omega
    split at h
    · obtain ⟨ks, r', h1, h2⟩ := rbind_inv h
      obtain ⟨rfl, rfl⟩ := rpure_inv h2
      have := keysRd_len h1
      simp only [encSub, List.length_cons, List.length_append]; omega
    split at h
    · obtain ⟨n, r', h1, h2⟩ := rbind_inv h
      obtain ⟨rfl, rfl⟩ := rpure_inv h2
      have := vecU8Rd_len h1
      simp only [encSub, List.length_cons, List.length_append]; omega
    · cases h

theorem flat_snoc_len (fs : List SubField) (f : SubField) :
    (flat (fs ++ [f])).length = (flat fs).length + (encSub f).length := by
  simp [flat]

/-- the re-encoding of the pushed fields never exceeds what was already pushed plus the remaining input -/
theorem loop_len (vk : Bytes → Bool) : ∀ (fuel : Nat) (b : Bytes) (acc : List SubField) (err : Bool) (npre : Nat)
    (p : Parsed), loop vk fuel b acc err npre = some p →
    (flat p.fields).length ≤ (flat acc.reverse).length + b.length := by
  intro fuel
  induction fuel with
  | zero =>
    intro b acc err npre p h
    cases b with
    | nil => rw [loop_nil] at h; cases h; exact Nat.le_add_right _ _
    | cons x xs => rw [loop_zero_cons] at h; cases h
  | succ fuel ih =>
    intro b acc err npre p h
    cases b with
    | nil => rw [loop_nil] at h; cases h; exact Nat.le_add_right _ _
    | cons x xs =>
      rw [loop_succ_cons] at h
      cases h' : subFieldRd vk (x :: xs) with
      | mk o r =>
        rw [h'] at h
        cases o with
        | none =>
          have h1 := ih r acc true npre p h
          have h2 := subFieldRd_consumes vk x xs
          rw [h'] at h2
          simp only [List.length_cons] at h2 ⊢; omega
        | some sf =>
          have h1 := ih r (sf :: acc) err _ p h
          have h2 := subFieldRd_len vk (x :: xs) sf r h'
          rw [List.reverse_cons, flat_snoc_len] at h1
          omega

/-- what `try_parse` returns re-encodes to at most the length of the raw extra -/
theorem tryParse_len (vk : Bytes → Bool) (e : Bytes) : (encFields (tryParse vk e).fields).length ≤ e.length := by
  have h := loop_len vk e.length e [] false 0 _ (tryParse_eq_loop vk e e.length (Nat.le_refl _))
  rw [encFields_eq]
  simpa [flat] using h

/-- the `unwrap` of `From<ExtraField> for RawExtraField` cannot panic on an `ExtraField` parsed from a raw extra
within the allocation cap -/
theorem toRaw_parsed (vk : Bytes → Bool) (e : Bytes) (hc : e.length ≤ CAP) :
    toRaw (tryParse vk e).fields = some (encFields (tryParse vk e).fields) := by
  have h := tryParse_len vk e
  rw [encFields_eq] at h ⊢
  exact toRaw_eq _ (Nat.le_trans h hc)

end Monero.Extra
