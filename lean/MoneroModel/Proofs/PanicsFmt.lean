import MoneroModel.Proofs.PanicsProofs
import MoneroModel.Proofs.AmountText5
/-! Proofs for the amount formatting / signed parsing part of Model/Panics.lean. Core Lean only. -/
namespace Monero.Panics
open Monero Monero.AmtText

theorem isDigit_ascii (c : UInt8) (h : isDigit c = true) : c.toNat < 0x80 := by
  simp only [isDigit, Bool.and_eq_true, decide_eq_true_eq] at h; omega

/-- in a string of ASCII characters every index up to the length is a character boundary -/
theorem isBoundary_ascii (s : Bytes) (h : ∀ c ∈ s, c.toNat < 0x80) (i : Nat) (hi : i ≤ s.length) : isBoundary s i = true := by
  unfold isBoundary
  by_cases h0 : i = 0
  · simp [h0]
  · by_cases hl : i = s.length
    · simp [hl]
    · have hlt : i < s.length := by omega
      have hc := h s[i] (List.getElem_mem hlt)
      rw [List.getElem?_eq_getElem hlt]
      simp only [isCont, Bool.or_eq_true, beq_iff_eq, Bool.not_eq_true', Bool.and_eq_false_iff, decide_eq_false_iff_not, Nat.not_le, Nat.not_lt]
      right; left; omega

theorem padZero_ascii (k n : Nat) : ∀ c ∈ padZero k (digits n), c.toNat < 0x80 := by
  intro c hc
  unfold padZero at hc
  rw [List.mem_append] at hc
  cases hc with
  | inl h => rw [List.mem_replicate] at h; rw [h.2]; decide
  | inr h => exact isDigit_ascii c (AllDigits_digits n c h)

theorem padZero_length_ge (k : Nat) (ds : Bytes) : k ≤ (padZero k ds).length := by
  unfold padZero; rw [List.length_append, List.length_replicate]; omega

theorem strSlice_ascii (site : String) (s : Bytes) (h : ∀ c ∈ s, c.toNat < 0x80) (lo hi : Nat) (h1 : lo ≤ hi) (h2 : hi ≤ s.length) :
    strSlice site s lo hi = .ok ((s.drop lo).take (hi - lo)) := by
  unfold strSlice
  rw [if_pos ⟨h1, h2, isBoundary_ascii s h lo (by omega), isBoundary_ascii s h hi h2⟩]

/-- `fmt_piconero_in` reaches no panic site, for every `u64` (indeed every natural number), sign and denomination, and
prints what the C15 model prints -/
theorem fmtPiconeroInP_eq (p : Nat) (neg : Bool) (d : Denom) : fmtPiconeroInP p neg d = .ok (fmtPiconeroIn p neg d) := by
  unfold fmtPiconeroInP fmtPiconeroIn
  simp only []
  by_cases hp : precisionOf d > 0
  · rw [if_pos hp, if_pos hp]
  · rw [if_neg hp, if_neg hp]
    by_cases hn : precisionOf d < 0
    · rw [if_pos hn, if_pos hn]
      have hasc := padZero_ascii (precisionOf d).natAbs p
      have hge := padZero_length_ge (precisionOf d).natAbs (digits p)
      generalize padZero (precisionOf d).natAbs (digits p) = real at hasc hge
      have hsub : subU "fmt_piconero_in: real.len() - nb_decimals" real.length (precisionOf d).natAbs
          = .ok (real.length - (precisionOf d).natAbs) := by unfold subU; rw [if_pos hge]
      have hfrac : strSlice "fmt_piconero_in: &real[real.len() - nb_decimals..]" real (real.length - (precisionOf d).natAbs) real.length
          = .ok (real.drop (real.length - (precisionOf d).natAbs)) := by
        rw [strSlice_ascii _ _ hasc _ _ (by omega) (Nat.le_refl _)]
        congr 1
        apply List.take_of_length_le
        rw [List.length_drop]; omega
      by_cases hl : real.length = (precisionOf d).natAbs
      · rw [if_pos hl, if_pos hl, hsub, bind_ok, hfrac, bind_ok]
      · rw [if_neg hl, if_neg hl, hsub, bind_ok, strSlice_ascii _ _ hasc _ _ (Nat.zero_le _) (by omega), bind_ok, hfrac, bind_ok]
        simp
    · rw [if_neg hn, if_neg hn]

theorem signedToStringInP_eq (a : Int) (d : Denom) : signedToStringInP a d = .ok (signedToStringIn a d) := by
  unfold signedToStringInP signedToStringIn
  by_cases h : a = -(2 ^ 63 : Int)
  · subst h
    have h1 : ((-(2 ^ 63 : Int)) % (2 ^ 64 : Int)).toNat = 2 ^ 63 := by decide
    have hs : subU "SignedAmount::fmt_value_in: u64::MAX - (x as u64)" U64MAX (2 ^ 63) = .ok (U64MAX - 2 ^ 63) := by
      unfold subU; rw [if_pos (by decide)]
    have ha : addU 64 "SignedAmount::fmt_value_in: (u64::MAX - x) + 1" (U64MAX - 2 ^ 63) 1 = .ok (U64MAX - 2 ^ 63 + 1) := by
      unfold addU; rw [if_pos (by decide)]
    simp only [if_true, h1, hs, bind_ok, ha, fmtPiconeroInP_eq]
  · simp only [h, if_false, bind_ok, fmtPiconeroInP_eq]

/-- below `2^63` the cast `as i64` keeps the value -/
theorem castI64_small (q : Nat) (h : ¬ q > I64MAX) : castI64 q = (q : Int) := by
  have h63 : I64MAX = 2 ^ 63 - 1 := rfl
  have hq : q < 2 ^ 63 := by omega
  have hm : q % 2 ^ 64 = q := Nat.mod_eq_of_lt (by omega)
  unfold castI64
  simp only [hm]
  rw [if_pos hq]

/-- the negation site is unreachable BECAUSE of the range test: the operand is the wrapped cast, which is `i64::MIN` exactly
for `q = 2^63 (mod 2^64)`, a value the test `q > i64::MAX` excludes -/
theorem negI64_cast_guarded (site : String) (q : Nat) (h : ¬ q > I64MAX) : negI64 site (castI64 q) = .ok (-(q : Int)) := by
  rw [castI64_small q h]
  unfold negI64
  rw [if_neg]
  have : (0 : Int) ≤ (q : Int) := Int.natCast_nonneg q
  have h63 : (2 : Int) ^ 63 = 9223372036854775808 := by decide
  omega

/-- … and it is REACHABLE without the test: `piconero = 2^63` -/
theorem negI64_cast_fires (site : String) : negI64 site (castI64 (2 ^ 63)) = .panic site := by
  have : castI64 (2 ^ 63) = -(2 : Int) ^ 63 := by decide
  rw [this]; unfold negI64; rw [if_pos rfl]

theorem signedFromStrInP_eq (s : Bytes) (d : Denom) (hu : Utf8 s) : signedFromStrInP s d = ofExc (signedFromStrIn s d) := by
  unfold signedFromStrInP signedFromStrInG signedFromStrIn
  rw [parseSignedToPiconeroP_eq s d hu]
  cases parseSignedToPiconero s d with
  | error e => rfl
  | ok v =>
    obtain ⟨neg, q⟩ := v
    simp only [ofExc_ok, bind_ok, true_and]
    by_cases hq : q > I64MAX
    · rw [if_pos hq, if_pos hq]; rfl
    · rw [if_neg hq, if_neg hq]
      cases neg with
      | true => simp only [if_true]; rw [negI64_cast_guarded _ _ hq]; rfl
      | false => simp only [Bool.false_eq_true, if_false]; rw [castI64_small q hq]; rfl
end Monero.Panics
