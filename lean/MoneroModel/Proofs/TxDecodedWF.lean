import MoneroModel.Proofs.TxComplete2
import MoneroModel.Proofs.TxSound4
import MoneroModel.Proofs.BlockSound
/-! The well-formedness predicates of the completeness (round-trip) theorems are the weakest possible: every value the
model decoder accepts satisfies them (`decoded_wf_tx`, `decoded_wf_block`). Together with soundness and completeness
this gives `wfTx t ↔ ∃ b, strict tx b = some t` (and the same for blocks): the well-formed values are exactly the
values that can come out of a strict parse. Core Lean only. -/
namespace Monero

/-! generic combinators -/

theorem decoded_rep {α} (d : Dec α) (P : α → Prop) (hP : ∀ b x r, d b = some (x, r) → P x) :
    ∀ n b xs r, rep d n b = some (xs, r) → xs.length = n ∧ ∀ x ∈ xs, P x := by
  intro n; induction n with
  | zero => intro b xs r h; obtain ⟨rfl, _⟩ := pure_some h; simp
  | succ n ih =>
    intro b xs r h
    simp only [rep] at h
    obtain ⟨y, r1, h1, h2⟩ := bind_some h
    obtain ⟨ys, r2, h3, h4⟩ := bind_some h2
    obtain ⟨rfl, _⟩ := pure_some h4
    obtain ⟨hl, hall⟩ := ih _ _ _ h3
    refine ⟨by simp [hl], ?_⟩
    intro x hx
    rcases List.mem_cons.mp hx with rfl | hx
    · exact hP _ _ _ h1
    · exact hall x hx

theorem decoded_sized {α} (sz : Nat) (d : Dec α) (P : α → Prop) (hP : ∀ b x r, d b = some (x, r) → P x)
    (n : Nat) (b : Bytes) (xs : List α) (r : Bytes) (h : sizedVec sz d n b = some (xs, r)) :
    n * sz ≤ CAP ∧ xs.length = n ∧ ∀ x ∈ xs, P x := by
  unfold sizedVec at h
  split at h
  · exact (fail_some h).elim
  · rename_i hc
    obtain ⟨hl, hall⟩ := decoded_rep d P hP n _ _ _ h
    exact ⟨by omega, hl, hall⟩

theorem decoded_vec {α} (sz : Nat) (d : Dec α) (P : α → Prop) (hP : ∀ b x r, d b = some (x, r) → P x)
    (b : Bytes) (xs : List α) (r : Bytes) (h : vec sz d b = some (xs, r)) : VecOK sz P xs := by
  unfold vec at h
  obtain ⟨n, r1, h1, h2⟩ := bind_some h
  obtain ⟨hc, hl, hall⟩ := decoded_sized sz d P hP n _ _ _ h2
  have hn := varint_lt _ _ _ h1
  subst hl
  exact ⟨hall, hc, hn⟩

theorem decoded_varint (b : Bytes) (n : Nat) (r : Bytes) (h : varint b = some (n, r)) : U64 n :=
  varint_lt b n r h

theorem decoded_key (b : Bytes) (k : Bytes) (r : Bytes) (h : key b = some (k, r)) : Key32 k :=
  takeN_length 32 b k r h

theorem decoded_keys (n : Nat) (b : Bytes) (ks : List Bytes) (r : Bytes)
    (h : sizedVec sizes.key key n b = some (ks, r)) : KeysOK n ks := by
  obtain ⟨hc, hl, hall⟩ := decoded_sized sizes.key key Key32 decoded_key n _ _ _ h
  exact ⟨hl, hall, hc⟩

theorem decoded_keyvec (b : Bytes) (ks : List Bytes) (r : Bytes)
    (h : vec sizes.key key b = some (ks, r)) : KeyVecOK ks :=
  decoded_vec sizes.key key Key32 decoded_key b ks r h

/-! prefix -/

theorem decoded_wf_txin (b : Bytes) (x : TxIn) (r : Bytes) (h : txin b = some (x, r)) : wfTxIn x := by
  unfold txin at h
  obtain ⟨t, r1, _, h2⟩ := bind_some h
  split at h2
  · obtain ⟨hh, r2, h3, h4⟩ := bind_some h2
    obtain ⟨rfl, _⟩ := pure_some h4
    exact decoded_varint _ _ _ h3
  · split at h2
    · obtain ⟨a, r2, h3, h4⟩ := bind_some h2
      obtain ⟨o, r3, h5, h6⟩ := bind_some h4
      obtain ⟨k, r4, h7, h8⟩ := bind_some h6
      obtain ⟨rfl, _⟩ := pure_some h8
      exact ⟨decoded_varint _ _ _ h3, decoded_vec sizes.varint varint U64 decoded_varint _ _ _ h5,
        decoded_key _ _ _ h7⟩
    · exact (fail_some h2).elim

theorem decoded_wf_target (b : Bytes) (x : Target) (r : Bytes) (h : target b = some (x, r)) : wfTarget x := by
  unfold target at h
  obtain ⟨t, r1, _, h2⟩ := bind_some h
  split at h2
  · obtain ⟨k, r2, h3, h4⟩ := bind_some h2
    obtain ⟨rfl, _⟩ := pure_some h4
    exact decoded_key _ _ _ h3
  · split at h2
    · obtain ⟨k, r2, h3, h4⟩ := bind_some h2
      obtain ⟨v, r3, _, h6⟩ := bind_some h4
      obtain ⟨rfl, _⟩ := pure_some h6
      exact decoded_key _ _ _ h3
    · exact (fail_some h2).elim

theorem decoded_wf_txout (b : Bytes) (x : TxOut) (r : Bytes) (h : txout b = some (x, r)) : wfTxOut x := by
  unfold txout at h
  obtain ⟨a, r1, h1, h2⟩ := bind_some h
  obtain ⟨t, r2, h3, h4⟩ := bind_some h2
  obtain ⟨rfl, _⟩ := pure_some h4
  exact ⟨decoded_varint _ _ _ h1, decoded_wf_target _ _ _ h3⟩

theorem decoded_wf_prefix (b : Bytes) (x : Prefix) (r : Bytes) (h : prefix' b = some (x, r)) : wfPrefix x := by
  unfold prefix' at h
  obtain ⟨v, r1, h1, h2⟩ := bind_some h
  obtain ⟨u, r2, h3, h4⟩ := bind_some h2
  obtain ⟨i, r3, h5, h6⟩ := bind_some h4
  obtain ⟨o, r4, h7, h8⟩ := bind_some h6
  obtain ⟨e, r5, h9, h10⟩ := bind_some h8
  obtain ⟨rfl, _⟩ := pure_some h10
  exact ⟨decoded_varint _ _ _ h1, decoded_varint _ _ _ h3,
    decoded_vec sizes.txin txin wfTxIn decoded_wf_txin _ _ _ h5,
    decoded_vec sizes.txout txout wfTxOut decoded_wf_txout _ _ _ h7,
    decoded_vec sizes.u8 u8 (fun _ => True) (fun _ _ _ _ => trivial) _ _ _ h9⟩

/-! RingCT base -/

theorem decoded_wf_ecdh (ty : Nat) (b : Bytes) (x : Ecdh) (r : Bytes) (h : ecdh ty b = some (x, r)) :
    wfEcdh ty x := by
  unfold ecdh at h
  split at h
  · rename_i hty
    obtain ⟨m, r1, h1, h2⟩ := bind_some h
    obtain ⟨a, r2, h3, h4⟩ := bind_some h2
    obtain ⟨rfl, _⟩ := pure_some h4
    exact ⟨hty, decoded_key _ _ _ h1, decoded_key _ _ _ h3⟩
  · rename_i hty
    obtain ⟨a, r1, h1, h2⟩ := bind_some h
    obtain ⟨rfl, _⟩ := pure_some h2
    exact ⟨hty, takeN_length 8 _ _ _ h1⟩

theorem decoded_wf_base (i o : Nat) (b : Bytes) (x : Base) (r : Bytes) (h : base i o b = some (x, r)) :
    wfBase i o x := by
  unfold base at h
  obtain ⟨t, r1, _, h2⟩ := bind_some h
  simp only at h2
  split at h2
  · exact (fail_some h2).elim
  · rename_i hle
    split at h2
    · obtain ⟨rfl, _⟩ := pure_some h2
      exact ⟨by decide, fun _ => ⟨rfl, rfl, rfl, rfl⟩, fun hne => absurd rfl hne⟩
    · rename_i hne
      obtain ⟨fee, r2, h3, h4⟩ := bind_some h2
      obtain ⟨ps, r3, h5, h6⟩ := bind_some h4
      obtain ⟨e, r4, h7, h8⟩ := bind_some h6
      obtain ⟨pk, r5, h9, h10⟩ := bind_some h8
      obtain ⟨rfl, _⟩ := pure_some h10
      obtain ⟨hel, hea⟩ := decoded_rep (ecdh t.toNat) (wfEcdh t.toNat) (decoded_wf_ecdh t.toNat) o _ _ _ h7
      refine ⟨by show t.toNat ≤ 6; omega, fun h0 => absurd h0 hne, fun _ => ⟨decoded_varint _ _ _ h3, ?_, hel, hea,
        decoded_keys o _ _ _ h9⟩⟩
      show (if t.toNat = 2 then KeysOK i ps else ps = [])
      by_cases h2t : t.toNat = 2
      · simp only [h2t, if_true] at h5 ⊢
        exact decoded_keys i _ _ _ h5
      · simp only [h2t, if_false] at h5 ⊢
        obtain ⟨rfl, _⟩ := pure_some h5
        rfl

/-! prunable part -/

theorem decoded_wf_bp (b : Bytes) (x : BP) (r : Bytes) (h : bp b = some (x, r)) : wfBP x := by
  unfold bp at h
  obtain ⟨f, r1, h1, h2⟩ := bind_some h
  obtain ⟨l, r2, h3, h4⟩ := bind_some h2
  obtain ⟨rr, r3, h5, h6⟩ := bind_some h4
  obtain ⟨t, r4, h7, h8⟩ := bind_some h6
  obtain ⟨rfl, _⟩ := pure_some h8
  exact ⟨takeN_length _ _ _ _ h1, decoded_keyvec _ _ _ h3, decoded_keyvec _ _ _ h5, takeN_length _ _ _ _ h7⟩

theorem decoded_wf_bpp (b : Bytes) (x : BPP) (r : Bytes) (h : bpp b = some (x, r)) : wfBPP x := by
  unfold bpp at h
  obtain ⟨f, r1, h1, h2⟩ := bind_some h
  obtain ⟨l, r2, h3, h4⟩ := bind_some h2
  obtain ⟨rr, r3, h5, h6⟩ := bind_some h4
  obtain ⟨rfl, _⟩ := pure_some h6
  exact ⟨takeN_length _ _ _ _ h1, decoded_keyvec _ _ _ h3, decoded_keyvec _ _ _ h5⟩

theorem decoded_u32le (b : Bytes) (n : Nat) (r : Bytes) (h : u32le b = some (n, r)) : n < 2^32 := by
  have h' : uintLE 4 b = some (n, r) := h
  have := (sound_uintLE 4 _ _ _ h').2
  have hpow : (256:Nat)^4 = 2^32 := by decide
  omega

theorem decoded_wf_proofs (ty o : Nat) (b : Bytes) (rs : List Bytes) (bps : List BP) (bpps : List BPP) (r : Bytes)
    (h : proofsDec ty o b = some ((rs, bps, bpps), r)) : wfProofs ty o rs bps bpps := by
  unfold proofsDec at h
  unfold wfProofs
  split at h
  · rename_i h45
    obtain ⟨x, r1, h1, h2⟩ := bind_some h
    obtain ⟨he, _⟩ := pure_some h2
    simp at he; obtain ⟨rfl, rfl, rfl⟩ := he
    rw [if_pos h45]
    exact ⟨rfl, rfl, decoded_vec sizes.bp bp wfBP decoded_wf_bp _ _ _ h1⟩
  · rename_i h45
    split at h
    · rename_i h3
      obtain ⟨n, r1, h1, h2⟩ := bind_some h
      obtain ⟨x, r2, h3', h4⟩ := bind_some h2
      obtain ⟨he, _⟩ := pure_some h4
      simp at he; obtain ⟨rfl, rfl, rfl⟩ := he
      have hn := decoded_u32le _ _ _ h1
      obtain ⟨hc, hl, hall⟩ := decoded_sized sizes.bp bp wfBP decoded_wf_bp n _ _ _ h3'
      rw [if_neg h45, if_pos h3]
      subst hl
      exact ⟨rfl, rfl, hall, hc, hn⟩
    · rename_i h3
      split at h
      · rename_i h6
        obtain ⟨n, r1, _, h2⟩ := bind_some h
        obtain ⟨x, r2, h3', h4⟩ := bind_some h2
        obtain ⟨he, _⟩ := pure_some h4
        simp at he; obtain ⟨rfl, rfl, rfl⟩ := he
        have hn := n.toNat_lt
        obtain ⟨hc, hl, hall⟩ := decoded_sized sizes.bpp bpp wfBPP decoded_wf_bpp n.toNat _ _ _ h3'
        rw [if_neg h45, if_neg h3, if_pos h6]
        rw [← hl] at hc hn
        exact ⟨rfl, rfl, hall, hc, by omega⟩
      · rename_i h6
        obtain ⟨x, r1, h1, h2⟩ := bind_some h
        obtain ⟨he, _⟩ := pure_some h2
        simp at he; obtain ⟨rfl, rfl, rfl⟩ := he
        obtain ⟨hc, hl, hall⟩ := decoded_sized sizes.rangesig (takeN 6176) (fun x : Bytes => x.length = 6176)
          (takeN_length 6176) o _ _ _ h1
        rw [if_neg h45, if_neg h3, if_neg h6]
        exact ⟨rfl, rfl, hl, hall, hc⟩

theorem decoded_wf_clsag (m : Nat) (b : Bytes) (x : Clsag) (r : Bytes) (h : clsagDec m b = some (x, r)) :
    wfClsag m x := by
  unfold clsagDec at h
  obtain ⟨s, r1, h1, h2⟩ := bind_some h
  obtain ⟨c1, r2, h3, h4⟩ := bind_some h2
  obtain ⟨d, r3, h5, h6⟩ := bind_some h4
  obtain ⟨rfl, _⟩ := pure_some h6
  obtain ⟨hl, hall⟩ := decoded_rep key Key32 decoded_key _ _ _ _ h1
  exact ⟨hl, hall, decoded_key _ _ _ h3, decoded_key _ _ _ h5⟩

theorem decoded_wf_mg (cols m : Nat) (b : Bytes) (x : MG) (r : Bytes) (h : mgDec cols m b = some (x, r)) :
    wfMG cols m x := by
  unfold mgDec at h
  obtain ⟨ss, r1, h1, h2⟩ := bind_some h
  obtain ⟨cc, r2, h3, h4⟩ := bind_some h2
  obtain ⟨rfl, _⟩ := pure_some h4
  obtain ⟨hl, hall⟩ := decoded_rep (sizedVec sizes.key key cols) (KeysOK cols) (decoded_keys cols) _ _ _ _ h1
  exact ⟨hl, hall, decoded_key _ _ _ h3⟩

theorem decoded_wf_sigs (ty i m : Nat) (b : Bytes) (ms : List MG) (cs : List Clsag) (r : Bytes)
    (h : sigsDec ty i m b = some ((ms, cs), r)) : wfSigs ty i m ms cs := by
  unfold sigsDec at h
  unfold wfSigs
  split at h
  · rename_i h56
    obtain ⟨x, r1, h1, h2⟩ := bind_some h
    obtain ⟨he, _⟩ := pure_some h2
    simp at he; obtain ⟨rfl, rfl⟩ := he
    obtain ⟨hl, hall⟩ := decoded_rep (clsagDec m) (wfClsag m) (decoded_wf_clsag m) _ _ _ _ h1
    rw [if_pos h56]
    exact ⟨rfl, hl, hall⟩
  · rename_i h56
    simp only at h
    obtain ⟨x, r1, h1, h2⟩ := bind_some h
    obtain ⟨he, _⟩ := pure_some h2
    simp at he; obtain ⟨rfl, rfl⟩ := he
    obtain ⟨hl, hall⟩ := decoded_rep (mgDec _ m) (wfMG _ m) (decoded_wf_mg _ m) _ _ _ _ h1
    rw [if_neg h56]
    exact ⟨rfl, hl, hall⟩

theorem decoded_wf_pseudo (ty i : Nat) (b : Bytes) (po : List Bytes) (r : Bytes)
    (h : pseudoDec ty i b = some (po, r)) : wfPseudo ty i po := by
  unfold pseudoDec at h
  unfold wfPseudo
  split at h
  · rename_i h3
    rw [if_pos h3]
    exact decoded_keys i _ _ _ h
  · rename_i h3
    obtain ⟨rfl, _⟩ := pure_some h
    rw [if_neg h3]

theorem decoded_wf_prunable (ty i o m : Nat) (b : Bytes) (x : Option Prunable) (r : Bytes)
    (h : prunable ty i o m b = some (x, r)) :
    (ty = 0 ∧ x = none) ∨ (ty ≠ 0 ∧ ∃ p, x = some p ∧ wfPrunable ty i o m p) := by
  unfold prunable at h
  split at h
  · rename_i h0
    obtain ⟨rfl, _⟩ := pure_some h
    exact Or.inl ⟨h0, rfl⟩
  · rename_i h0
    obtain ⟨⟨rs, bps, bpps⟩, r1, h1, h2⟩ := bind_some h
    obtain ⟨⟨ms, cs⟩, r2, h3, h4⟩ := bind_some h2
    obtain ⟨po, r3, h5, h6⟩ := bind_some h4
    obtain ⟨rfl, _⟩ := pure_some h6
    exact Or.inr ⟨h0, _, rfl, decoded_wf_proofs ty o _ _ _ _ _ h1, decoded_wf_sigs ty i m _ _ _ _ h3,
      decoded_wf_pseudo ty i _ _ _ h5⟩

/-! transaction -/

theorem decoded_wf_sigs_v1 : ∀ (rings : List Nat) (b : Bytes) (s : List (List Bytes)) (r : Bytes),
    tx.sigs rings b = some (s, r) → wfSigsV1 rings s := by
  intro rings; induction rings with
  | nil =>
    intro b s r h
    simp only [tx.sigs] at h
    obtain ⟨rfl, _⟩ := pure_some h
    simp [wfSigsV1]
  | cons n t ih =>
    intro b s r h
    simp only [tx.sigs] at h
    obtain ⟨x, r1, h1, h2⟩ := bind_some h
    obtain ⟨xs, r2, h3, h4⟩ := bind_some h2
    obtain ⟨rfl, _⟩ := pure_some h4
    obtain ⟨hl, hall⟩ := decoded_rep (takeN 64) (fun x : Bytes => x.length = 64) (takeN_length 64) _ _ _ _ h1
    exact ⟨x, xs, rfl, hl, hall, ih _ _ _ h3⟩

/-- everything the transaction decoder accepts is well-formed -/
theorem decoded_wf_tx (b : Bytes) (t : Tx) (r : Bytes) (h : tx b = some (t, r)) : wfTx t := by
  unfold tx at h
  obtain ⟨p, r1, h1, h2⟩ := bind_some h
  have wp := decoded_wf_prefix _ _ _ h1
  simp only at h2
  split at h2
  · -- version 1
    rename_i hv
    obtain ⟨s, r2, h3, h4⟩ := bind_some h2
    obtain ⟨rfl, _⟩ := pure_some h4
    have ws : wfSigsV1 (ringsOf p.ins) s := decoded_wf_sigs_v1 _ _ _ _ h3
    exact ⟨wp, fun _ => ⟨ws, rfl, rfl⟩, fun hne => absurd hv hne⟩
  · rename_i hv
    split at h2
    · -- no inputs
      rename_i hz
      obtain ⟨rfl, _⟩ := pure_some h2
      have hnil : p.ins = [] := List.length_eq_zero_iff.mp hz
      exact ⟨wp, fun h1 => absurd h1 hv, fun _ => ⟨rfl, fun _ => ⟨rfl, rfl⟩, fun hne => absurd hnil hne⟩⟩
    · rename_i hz
      have hnn : p.ins ≠ [] := fun hnil => hz (by simp [hnil])
      obtain ⟨bs, r2, h3, h4⟩ := bind_some h2
      have wb := decoded_wf_base _ _ _ _ _ h3
      split at h4
      · rename_i hty
        have fin : ∀ m pr r', prunable bs.ty p.ins.length p.outs.length m r2 = some (pr, r') →
            pure' (Tx.mk p [] (some bs) pr) r' = some (t, r) → m = mixinOf p.ins → ringNonEmpty p.ins →
            wfTx t := by
          intro m pr r' hp hq hm hring
          obtain ⟨rfl, _⟩ := pure_some hq
          rcases decoded_wf_prunable _ _ _ _ _ _ _ hp with ⟨h0, _⟩ | ⟨_, q, rfl, hw⟩
          · exact absurd h0 hty
          · subst hm
            exact ⟨wp, fun h1 => absurd h1 hv, fun _ => ⟨rfl, fun hnil => absurd hnil hnn,
              fun _ => ⟨bs, rfl, wb, fun h0 => absurd h0 hty, fun _ => ⟨hring, q, rfl, hw⟩⟩⟩⟩
        cases hh : p.ins.head? with
        | none =>
          simp only [hh] at h4
          obtain ⟨pr, r3, h5, h6⟩ := bind_some h4
          exact fin _ _ _ h5 h6 (by simp [mixinOf, hh]) (by simp [ringNonEmpty, hh])
        | some i0 =>
          cases i0 with
          | gen hgt =>
            simp only [hh] at h4
            obtain ⟨pr, r3, h5, h6⟩ := bind_some h4
            exact fin _ _ _ h5 h6 (by simp [mixinOf, hh]) (by simp [ringNonEmpty, hh])
          | toKey a o k =>
            simp only [hh] at h4
            split at h4
            · exact (fail_some h4).elim
            · rename_i hlen
              obtain ⟨pr, r3, h5, h6⟩ := bind_some h4
              exact fin _ _ _ h5 h6 (by simp [mixinOf, hh]) (by simpa [ringNonEmpty, hh] using hlen)
      · rename_i hty
        have hty0 : bs.ty = 0 := Decidable.not_not.mp hty
        obtain ⟨rfl, _⟩ := pure_some h4
        exact ⟨wp, fun h1 => absurd h1 hv, fun _ => ⟨rfl, fun hnil => absurd hnil hnn,
          fun _ => ⟨bs, rfl, wb, fun _ => rfl, fun hne => absurd hty0 hne⟩⟩⟩

/-! block -/

theorem decoded_wf_header (b : Bytes) (x : Header) (r : Bytes) (h : header b = some (x, r)) : wfHeader x := by
  unfold header at h
  obtain ⟨ma, r1, h1, h⟩ := bind_some h
  obtain ⟨mi, r2, h2, h⟩ := bind_some h
  obtain ⟨ts, r3, h3, h⟩ := bind_some h
  obtain ⟨pv, r4, h4, h⟩ := bind_some h
  obtain ⟨n, r5, h5, h⟩ := bind_some h
  obtain ⟨rfl, _⟩ := pure_some h
  have hn := (sound_uintLE 4 _ _ _ h5).2
  have hpow : (256:Nat)^4 = 2^32 := by decide
  exact ⟨decoded_varint _ _ _ h1, decoded_varint _ _ _ h2, decoded_varint _ _ _ h3, decoded_key _ _ _ h4,
    by show n < 2^32; omega⟩

/-- everything the block decoder accepts is well-formed -/
theorem decoded_wf_block (b : Bytes) (x : Block) (r : Bytes) (h : block b = some (x, r)) : wfBlock x := by
  unfold block at h
  obtain ⟨hd, r1, h1, h⟩ := bind_some h
  obtain ⟨t, r2, h2, h⟩ := bind_some h
  obtain ⟨hs, r3, h3, h⟩ := bind_some h
  obtain ⟨rfl, _⟩ := pure_some h
  exact ⟨decoded_wf_header _ _ _ h1, decoded_wf_tx _ _ _ h2, decoded_keyvec _ _ _ h3⟩

/-! corollaries: the well-formed values are exactly the strictly parsed ones -/

theorem strict_some {α} {d : Dec α} {b : Bytes} {x : α} : strict d b = some x ↔ d b = some (x, []) := by
  unfold strict
  constructor
  · intro h
    split at h
    · rename_i y hd
      simp at h; subst h; exact hd
    · simp at h
  · intro h; rw [h]

/-- a computable witness test: if the strict parse succeeds, the decoder accepted some value and consumed everything -/
theorem accepts_of_isSome {α} {d : Dec α} {b : Bytes} (h : (strict d b).isSome = true) : ∃ x, d b = some (x, []) := by
  cases hs : strict d b with
  | none => rw [hs] at h; cases h
  | some x => exact ⟨x, strict_some.mp hs⟩

theorem wfTx_iff_parsed (t : Tx) : wfTx t ↔ ∃ b, strict tx b = some t := by
  constructor
  · intro h
    refine ⟨encTx t, strict_some.mpr ?_⟩
    have := complete_tx t [] h
    simpa using this
  · rintro ⟨b, h⟩
    exact decoded_wf_tx b t [] (strict_some.mp h)

theorem wfBlock_iff_parsed (x : Block) : wfBlock x ↔ ∃ b, strict block b = some x := by
  constructor
  · intro h
    refine ⟨encBlock x, strict_some.mpr ?_⟩
    have := complete_block x [] h
    simpa using this
  · rintro ⟨b, h⟩
    exact decoded_wf_block b x [] (strict_some.mp h)

/-- sharper form: the well-formed values are exactly those parsed back, strictly, from their own encoding. (That this
encoding is the ONLY byte string that parses strictly to the value is not part of this statement; it is
`strict_preimage_unique_tx` below, a consequence of C01 soundness.) -/
theorem wfTx_iff_parsed_enc (t : Tx) : wfTx t ↔ strict tx (encTx t) = some t := by
  constructor
  · intro h
    have := complete_tx t [] h
    exact strict_some.mpr (by simpa using this)
  · intro h; exact (wfTx_iff_parsed t).mpr ⟨_, h⟩

theorem wfBlock_iff_parsed_enc (x : Block) : wfBlock x ↔ strict block (encBlock x) = some x := by
  constructor
  · intro h
    have := complete_block x [] h
    exact strict_some.mpr (by simpa using this)
  · intro h; exact (wfBlock_iff_parsed x).mpr ⟨_, h⟩

/-- the encoding is the only strict preimage: any byte string that parses strictly to `t` is `encTx t` (from soundness) -/
theorem strict_preimage_unique_tx (t : Tx) (b : Bytes) (h : strict tx b = some t) : b = encTx t := by
  have := sound_tx b t [] (strict_some.mp h)
  simpa using this

theorem strict_preimage_unique_block (x : Block) (b : Bytes) (h : strict block b = some x) : b = encBlock x := by
  have := sound_block b x [] (strict_some.mp h)
  simpa using this

end Monero
