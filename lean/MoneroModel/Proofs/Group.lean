import Mathlib.Algebra.Module.Basic
import Mathlib.Tactic.Abel
import MoneroModel.Proofs.GroupBridge
/-! The algebra behind C07–C11. `Lawful ops`: the primitives of a `CryptoOps` record are the operations of an additive
commutative group in which the base point has order dividing `l`. Everything proved for every lawful `ops` holds in
particular for Ed25519 with dalek's arithmetic (a commutative group of order 8·l, base point of order l, injective
canonical encoding) — that dalek / the Lean reference curve IS lawful is conformance (C13, differential), not proved here.
A concrete lawful instance (so the hypotheses are satisfiable) is in `Proofs/GroupInstance.lean`. -/
namespace Monero
open Spec.Sender (Prims)

/-- `ops` are the operations of the additive commutative group structure on `P` (given as an instance argument, so the
theorems read `∀ P [AddCommGroup P] ops, Lawful ops → …`):
`add`/`sub` are `+`/`-`, `smul k` is the k-fold sum `k • ·` for the integer k on EVERY point,
the base point is killed by `l`, `l > 8` (so the scalar 8 is reduced: `MONERO_MUL_FACTOR.into()`),
the 32-byte encoding is injective and is accepted by `dec` (`PublicKey::from_slice (P.to_bytes()) = Ok P`). -/
structure Lawful {P : Type} [AddCommGroup P] (ops : CryptoOps P) : Prop where
  add_eq : ∀ a b, ops.add a b = a + b
  sub_eq : ∀ a b, ops.sub a b = a - b
  smul_eq : ∀ (k : ℕ) a, ops.smul k a = k • a
  l_gt : 8 < ops.l
  base_order : ops.l • ops.base = 0
  enc_inj : Function.Injective ops.enc
  dec_enc : ∀ a, ops.dec (ops.enc a) = some a

/-- the derivation AS IT WAS on the pinned tree (before the fix commit): `(keys.view * MONERO_MUL_FACTOR) * &random`,
i.e. the scalar `8·v mod l` applied to the point. Not part of the model of HEAD; kept to document the repaired defect. -/
def derivePinned {P : Type} (ops : CryptoOps P) (v : Nat) (R : P) : P := ops.smul ((8 * v) % ops.l) R

/-- glue (definitional): the separately written constructor models `deriveSender` / `deriveReceiver` are `derive` -/
theorem deriveSender_eq_derive {P : Type} (ops : CryptoOps P) (r v : ℕ) (V R : P) :
    deriveSender ops r V = derive ops r V ∧ deriveReceiver ops v R = derive ops v R := ⟨rfl, rfl⟩

variable {P : Type} [AddCommGroup P]

/-- scalar reduction is invisible on points killed by `l` -/
theorem smul_mod_of_torsion (l : ℕ) (B : P) (hB : l • B = 0) (k : ℕ) : (k % l) • B = k • B := by
  conv_rhs => rw [← Nat.div_add_mod k l]
  rw [add_smul, mul_comm, mul_smul, hB, smul_zero, zero_add]

theorem torsion_smul (l : ℕ) (B : P) (hB : l • B = 0) (k : ℕ) : l • (k • B) = 0 := by
  rw [smul_comm, hB, smul_zero]
theorem torsion_add (l : ℕ) (A B : P) (hA : l • A = 0) (hB : l • B = 0) : l • (A + B) = 0 := by
  rw [smul_add, hA, hB, add_zero]

namespace Lawful
variable {ops : CryptoOps P} (L : Lawful ops)
include L

theorem l_pos : 0 < ops.l := by have := L.l_gt; omega

/-- on the base point scalars may be reduced mod l -/
theorem smul_mod_base (k : ℕ) : (k % ops.l) • ops.base = k • ops.base :=
  smul_mod_of_torsion ops.l ops.base L.base_order k

theorem pubOf_eq (k : ℕ) : pubOf ops k = k • ops.base := L.smul_eq k ops.base

/-- the model's derivation (HEAD of /repo): the reduced scalar 8 times (v times R) -/
theorem derive_eq (a : ℕ) (B : P) : derive ops a B = 8 • (a • B) := by
  unfold derive
  have h8 : Gen.mulFactor % ops.l = 8 := by
    have := L.l_gt; show 8 % ops.l = 8; exact Nat.mod_eq_of_lt this
  rw [h8, L.smul_eq, L.smul_eq]

theorem mulFactor_mod : Gen.mulFactor % ops.l = 8 := by
  have := L.l_gt; show 8 % ops.l = 8; exact Nat.mod_eq_of_lt this

/-- `PrivateKey * &PublicKey` on ANY stored bytes that `point()` decompresses (canonical or not) to `B`: the result is the encoding of
the multiple -/
theorem mulKeyBytes_of_dec (decP : Bytes → Option P) (a : ℕ) (b : Bytes) (B : P) (hb : decP b = some B) :
    mulKeyBytes ops decP a b = some (ops.enc (a • B)) := by
  unfold mulKeyBytes; rw [hb]; simp only [L.smul_eq]

/-- … in particular on the encoding of a point, for every decoder that extends the strict one: the `expect` of `PublicKey::point()`
does not fire -/
theorem mulKeyBytes_enc (decP : Bytes → Option P) (hdec : ∀ b X, ops.dec b = some X → decP b = some X) (a : ℕ) (B : P) :
    mulKeyBytes ops decP a (ops.enc B) = some (ops.enc (a • B)) :=
  L.mulKeyBytes_of_dec decP a _ B (hdec _ _ (L.dec_enc B))

/-- the byte-level constructors on stored bytes that decompress to `B` (the FIRST `point()` call sees the caller's bytes, canonical or
not; the second one sees the compression of a point): neither panics, and `rv` is the encoding of 8•(a•B) -/
theorem deriveSenderBytes_of_dec (decP : Bytes → Option P) (hdec : ∀ b X, ops.dec b = some X → decP b = some X) (r : ℕ) (b : Bytes)
    (V : P) (hb : decP b = some V) : deriveSenderBytes ops decP r b = some (ops.enc (8 • (r • V))) := by
  unfold deriveSenderBytes; rw [L.mulKeyBytes_of_dec decP r b V hb, L.mulFactor_mod]; exact L.mulKeyBytes_enc decP hdec 8 _
theorem deriveReceiverBytes_of_dec (decP : Bytes → Option P) (hdec : ∀ b X, ops.dec b = some X → decP b = some X) (v : ℕ) (b : Bytes)
    (R : P) (hb : decP b = some R) : deriveReceiverBytes ops decP v b = some (ops.enc (8 • (v • R))) := by
  unfold deriveReceiverBytes; rw [L.mulKeyBytes_of_dec decP v b R hb, L.mulFactor_mod]; exact L.mulKeyBytes_enc decP hdec 8 _

/-- … on the encoding of ANY point -/
theorem deriveSenderBytes_enc (decP : Bytes → Option P) (hdec : ∀ b X, ops.dec b = some X → decP b = some X) (r : ℕ) (V : P) :
    deriveSenderBytes ops decP r (ops.enc V) = some (ops.enc (8 • (r • V))) :=
  L.deriveSenderBytes_of_dec decP hdec r _ V (hdec _ _ (L.dec_enc V))
theorem deriveReceiverBytes_enc (decP : Bytes → Option P) (hdec : ∀ b X, ops.dec b = some X → decP b = some X) (v : ℕ) (R : P) :
    deriveReceiverBytes ops decP v (ops.enc R) = some (ops.enc (8 • (v • R))) :=
  L.deriveReceiverBytes_of_dec decP hdec v _ R (hdec _ _ (L.dec_enc R))

/-- glue (was conjuncts 3-4 of `C10_constructors`; `C10_derivation` under `some ∘ enc`): the byte-level constructors store the encoding
of what the point-level models compute -/
theorem deriveBytes_enc_eq_point (decP : Bytes → Option P) (hdec : ∀ b X, ops.dec b = some X → decP b = some X) (r v : ℕ) (V R : P) :
    deriveSenderBytes ops decP r (ops.enc V) = some (ops.enc (deriveSender ops r V)) ∧
    deriveReceiverBytes ops decP v (ops.enc R) = some (ops.enc (deriveReceiver ops v R)) := by
  rw [L.deriveSenderBytes_enc decP hdec, L.deriveReceiverBytes_enc decP hdec]
  exact ⟨congrArg (fun X => some (ops.enc X)) (L.derive_eq r V).symm, congrArg (fun X => some (ops.enc X)) (L.derive_eq v R).symm⟩

/-- three doublings are multiplication by 8 -/
theorem mul8_eq (X : P) : Spec.Sender.mul8 (specPrims ops) X = 8 • X := by
  show ops.add (ops.add (ops.add X X) (ops.add X X)) (ops.add (ops.add X X) (ops.add X X)) = 8 • X
  simp only [L.add_eq]; abel

/-- the specification's derivation is 8•(a•B) -/
theorem spec_derivation_eq (a : ℕ) (B : P) : Spec.Sender.derivation (specPrims ops) a B = 8 • (a • B) := by
  unfold Spec.Sender.derivation; rw [L.mul8_eq]; show 8 • ops.smul a B = _; rw [L.smul_eq]

theorem derive_eq_spec (a : ℕ) (B : P) : derive ops a B = Spec.Sender.derivation (specPrims ops) a B := by
  rw [L.derive_eq, L.spec_derivation_eq]

theorem oneTimeKey_val (D S : P) (n : ℕ) : oneTimeKey ops D S n = rvnScalar ops D n • ops.base + S := by
  unfold oneTimeKey; rw [L.add_eq, L.pubOf_eq]

theorem spec_oneTimeKey_val (D S : P) (n : ℕ) :
    Spec.Sender.oneTimeKey (specPrims ops) D S n
      = Spec.Sender.derivationScalar (specPrims ops) D n • ops.base + S := by
  rw [← oneTimeKey_eq_spec, L.oneTimeKey_val, rvnScalar_eq]

theorem spec_subSpend_val (v : ℕ) (S : P) (i j : ℕ) :
    Spec.Sender.subSpend (specPrims ops) v S i j = S + Spec.Sender.subScalar (specPrims ops) v i j • ops.base := by
  show ops.add S (ops.smul _ ops.base) = _; rw [L.add_eq, L.smul_eq]

theorem spec_subView_val (v : ℕ) (S : P) (i j : ℕ) :
    Spec.Sender.subView (specPrims ops) v S i j = v • Spec.Sender.subSpend (specPrims ops) v S i j := by
  show ops.smul v _ = _; rw [L.smul_eq]
theorem spec_txKey_val (r : ℕ) (d : Spec.Sender.Dest P) :
    Spec.Sender.txKey (specPrims ops) r d = r • (if d.isSub then d.spend else ops.base) := by
  unfold Spec.Sender.txKey
  cases d.isSub
  · show ops.smul r ops.base = _; rw [L.smul_eq]; rfl
  · show ops.smul r d.spend = _; rw [L.smul_eq]; rfl

/-- what the sender derives from the destination's view key is what the wallet derives from the transaction key -/
theorem derive_txKey (v r : ℕ) (d : Spec.Sender.Dest P)
    (hview : d.view = v • (if d.isSub then d.spend else ops.base)) :
    derive ops v (Spec.Sender.txKey (specPrims ops) r d) = derive ops r d.view := by
  rw [L.derive_eq, L.derive_eq, hview, L.spec_txKey_val, smul_comm r v]

/-- sender's output key = receiver's candidate (core of C10_onetime_recognised) -/
theorem sendKey_recognised (v r n : ℕ) (d : Spec.Sender.Dest P)
    (hview : d.view = v • (if d.isSub then d.spend else ops.base)) :
    Spec.Sender.sendKey (specPrims ops) r d n
      = oneTimeKey ops (derive ops v (Spec.Sender.txKey (specPrims ops) r d)) d.spend n := by
  unfold Spec.Sender.sendKey
  rw [L.derive_txKey v r d hview, oneTimeKey_eq_spec, L.derive_eq_spec]

/-! ### subaddress keys: model vs specification, secret vs public side -/
omit L in
theorem idxZero_iff (i j : ℕ) : idxZero i j = true ↔ i = 0 ∧ j = 0 := by simp [idxZero]

omit [AddCommGroup P] L in
/-- the model's `get_spend_public_key` is the spend key of the specification's address at index (i,j) -/
theorem subSpendPub_eq_spec (v : ℕ) (S : P) (i j : ℕ) :
    subSpendPub ops v S i j = (Spec.Sender.destAt (specPrims ops) v S i j).spend := by
  unfold subSpendPub Spec.Sender.destAt
  by_cases h : i = 0 ∧ j = 0
  · rw [if_pos ((idxZero_iff i j).2 h), if_pos h]; rfl
  · rw [if_neg (fun h' => h ((idxZero_iff i j).1 h')), if_neg h]
    show ops.add S (pubOf ops (subScalar ops v i j)) = ops.add S (ops.smul _ ops.base)
    rw [subScalar_eq]; rfl

omit [AddCommGroup P] L in
/-- the model's `get_public_keys` is (view, spend) of the specification's address at index (i,j) -/
theorem subPublicKeys_eq_spec (v : ℕ) (S : P) (i j : ℕ) :
    subPublicKeys ops v S i j
      = ((Spec.Sender.destAt (specPrims ops) v S i j).view, (Spec.Sender.destAt (specPrims ops) v S i j).spend) := by
  have hs := subSpendPub_eq_spec (ops := ops) v S i j
  unfold subPublicKeys
  by_cases h : i = 0 ∧ j = 0
  · rw [if_pos ((idxZero_iff i j).2 h)]; unfold Spec.Sender.destAt; rw [if_pos h]; rfl
  · rw [if_neg (fun h' => h ((idxZero_iff i j).1 h'))]
    show (ops.smul v (subSpendPub ops v S i j), subSpendPub ops v S i j) = _
    rw [hs]; unfold Spec.Sender.destAt; rw [if_neg h]; rfl

/-- the address at (i,j) has the shape the sender/receiver symmetry needs: V = v•G resp. V' = v•S' -/
theorem destAt_view (v : ℕ) (S : P) (i j : ℕ) :
    (Spec.Sender.destAt (specPrims ops) v S i j).view
      = v • (if (Spec.Sender.destAt (specPrims ops) v S i j).isSub
              then (Spec.Sender.destAt (specPrims ops) v S i j).spend else ops.base) := by
  unfold Spec.Sender.destAt
  by_cases h : i = 0 ∧ j = 0
  · rw [if_pos h]; exact L.smul_eq v ops.base
  · rw [if_neg h]; exact L.spec_subView_val v S i j

/-- secret and public spend key agree: s'•G = S' when S = s•G -/
theorem subSpendSec_pub (v s : ℕ) (S : P) (hS : S = s • ops.base) (i j : ℕ) :
    subSpendSec ops v s i j • ops.base = subSpendPub ops v S i j := by
  unfold subSpendSec subSpendPub
  cases idxZero i j
  · simp only [Bool.false_eq_true, if_false]
    rw [L.smul_mod_base, add_smul, L.add_eq, L.pubOf_eq, hS]
  · simp only [if_true]; exact hS.symm

/-- secret and public view key agree: v'•G = V' (= v•G at index (0,0)) when S = s•G -/
theorem subViewSec_pub (v s : ℕ) (S : P) (hS : S = s • ops.base) (i j : ℕ) :
    subViewSec ops v s i j • ops.base = (subPublicKeys ops v S i j).1 := by
  have h := L.subSpendSec_pub v s S hS i j
  unfold subViewSec subPublicKeys
  cases hz : idxZero i j
  · simp only [Bool.false_eq_true, if_false]
    rw [L.smul_mod_base, mul_smul, h, L.smul_eq]
  · simp only [if_true]; exact (L.pubOf_eq v).symm

/-- the recovered scalar is the discrete logarithm of the receiver's candidate key, for EVERY transaction key R -/
theorem recoverKey_pub (v s : ℕ) (S : P) (hS : S = s • ops.base) (R : P) (n i j : ℕ) :
    recoverKey ops v s R n i j • ops.base = oneTimeKey ops (derive ops v R) (subSpendPub ops v S i j) n := by
  unfold recoverKey
  rw [L.smul_mod_base, add_smul, L.subSpendSec_pub v s S hS, L.oneTimeKey_val]
end Lawful
end Monero
