import Lean
import MoneroModel.Ref.Keccak
import MoneroModel.Proofs.KeccakSize
import MoneroModel.Proofs.KeccakKat
/-! A BOUNDS-CHECKED copy of the reference sponge, and the proof that the reference equals it.

`Ref/Keccak.lean` is written with the totalised accessors `st[i]!` / `st.set! i x` / `rc[r]!` (an out-of-range read returns 0, an
out-of-range write is dropped). That the size of the state stays 25 (`KeccakSize.lean`) says nothing about the INDICES — an
out-of-range `set!` preserves the size too. Here the whole function is written a second time over `Vector UInt64 25` with the
proof-carrying accessors `v[i]'h` / `v.set i x h` only: Lean accepts `roundV`, `xorBlockV`, `digestV`, `absorbV` only because every
index (`i+20`, `j*5+i`, `j*5+4` with `i, j < 5`; `piln[i] < 25`; byte `i < 200` of a block goes to lane `i/8 < 25`; the digest reads
lanes `i/8 < 4`; `rc[r]`, `rotc[i]`, `piln[i]` with `r, i < 24`) is proved to be in range; there is no default value and no
`!`/`?`/`getD` anywhere in them. The theorems `*_checked` then say that on a 25-lane state the reference computes exactly these
functions, so no totalised accessor of the reference ever takes its fall-back branch.

How `round_checked` / `digest_checked` are proved: a 25-lane array is `#[a0, …, a24]` for 25 unknown lanes (`array25_lit`); on such
a literal both sides evaluate (all loops have literal bounds; nothing branches on a lane value) to the same array of 25 expressions
in `a0 … a24`, which the KERNEL checks by definitional unfolding. `kernel_rfl` closes `a = b` with `Eq.refl a` and leaves the check
to the kernel (the elaborator's own unifier gives up on the amount of unfolding; the kernel needs about 3 s). It adds no axiom and
nothing is trusted: the declaration is rejected by the kernel if the two sides are not definitionally equal. -/
namespace Keccak

/-- a Keccak state whose number of lanes is part of the type -/
abbrev State := Vector UInt64 25

/-- an array of 25 lanes is the literal of its 25 lanes -/
theorem array25_lit (st : Array UInt64) (h : st.size = 25) :
    ∃ a0 a1 a2 a3 a4 a5 a6 a7 a8 a9 a10 a11 a12 a13 a14 a15 a16 a17 a18 a19 a20 a21 a22 a23 a24 : UInt64,
      st = #[a0, a1, a2, a3, a4, a5, a6, a7, a8, a9, a10, a11, a12, a13, a14, a15, a16, a17, a18, a19, a20, a21, a22, a23, a24] := by
  obtain ⟨l⟩ := st
  simp only [List.size_toArray] at h
  obtain _ | ⟨a0, l⟩ := l; · simp at h
  obtain _ | ⟨a1, l⟩ := l; · simp at h
  obtain _ | ⟨a2, l⟩ := l; · simp at h
  obtain _ | ⟨a3, l⟩ := l; · simp at h
  obtain _ | ⟨a4, l⟩ := l; · simp at h
  obtain _ | ⟨a5, l⟩ := l; · simp at h
  obtain _ | ⟨a6, l⟩ := l; · simp at h
  obtain _ | ⟨a7, l⟩ := l; · simp at h
  obtain _ | ⟨a8, l⟩ := l; · simp at h
  obtain _ | ⟨a9, l⟩ := l; · simp at h
  obtain _ | ⟨a10, l⟩ := l; · simp at h
  obtain _ | ⟨a11, l⟩ := l; · simp at h
  obtain _ | ⟨a12, l⟩ := l; · simp at h
  obtain _ | ⟨a13, l⟩ := l; · simp at h
  obtain _ | ⟨a14, l⟩ := l; · simp at h
  obtain _ | ⟨a15, l⟩ := l; · simp at h
  obtain _ | ⟨a16, l⟩ := l; · simp at h
  obtain _ | ⟨a17, l⟩ := l; · simp at h
  obtain _ | ⟨a18, l⟩ := l; · simp at h
  obtain _ | ⟨a19, l⟩ := l; · simp at h
  obtain _ | ⟨a20, l⟩ := l; · simp at h
  obtain _ | ⟨a21, l⟩ := l; · simp at h
  obtain _ | ⟨a22, l⟩ := l; · simp at h
  obtain _ | ⟨a23, l⟩ := l; · simp at h
  obtain _ | ⟨a24, l⟩ := l; · simp at h
  obtain _ | ⟨a25, l⟩ := l
  · exact ⟨a0, a1, a2, a3, a4, a5, a6, a7, a8, a9, a10, a11, a12, a13, a14, a15, a16, a17, a18, a19, a20, a21, a22, a23, a24, rfl⟩
  · simp at h

/-- XOR the bytes of a block into the lanes, byte number `i` first (checked: `i/8 < 25` because at most 200 bytes follow position 0) -/
def xorGo (v : State) (i : Nat) : (blk : List UInt8) → i + blk.length ≤ 200 → State
  | [], _ => v
  | b :: t, h =>
    have hi : i / 8 < 25 := by simp only [List.length_cons] at h; omega
    xorGo (v.set (i / 8) (v[i / 8] ^^^ ((UInt64.ofNat b.toNat) <<< (UInt64.ofNat ((i % 8) * 8))))) (i + 1) t
      (by simp only [List.length_cons] at h; omega)

/-- `xorBlock` with checked accesses; the block must fit the 25 lanes (the sponge uses blocks of at most `rate` = 136 bytes) -/
def xorBlockV (v : State) (blk : List UInt8) (h : blk.length ≤ 200) : State := xorGo v 0 blk (by omega)

/-- the `for` loop of `xorBlock` as a left fold over the block carrying (state, byte position) -/
theorem xorBlock_eq_foldl (st : Array UInt64) (blk : List UInt8) :
    xorBlock st blk = (blk.foldl (fun (p : Array UInt64 × Nat) b =>
      (p.1.set! (p.2 / 8) (p.1[p.2 / 8]! ^^^ ((UInt64.ofNat b.toNat) <<< (UInt64.ofNat ((p.2 % 8) * 8)))), p.2 + 1)) (st, 0)).1 := by
  unfold xorBlock
  simp only [Id.run, List.forIn_pure_yield_eq_foldl, bind_pure_comp, map_pure]
  rfl

theorem xorGo_eq : ∀ (blk : List UInt8) (v : State) (i : Nat) (h : i + blk.length ≤ 200),
    (blk.foldl (fun (p : Array UInt64 × Nat) b =>
      (p.1.set! (p.2 / 8) (p.1[p.2 / 8]! ^^^ ((UInt64.ofNat b.toNat) <<< (UInt64.ofNat ((p.2 % 8) * 8)))), p.2 + 1)) (v.toArray, i)).1
      = (xorGo v i blk h).toArray := by
  intro blk
  induction blk with
  | nil => intro v i h; rfl
  | cons b t ih =>
    intro v i h
    have hi : i / 8 < 25 := by simp only [List.length_cons] at h; omega
    have hi' : i / 8 < v.toArray.size := by simp; exact hi
    rw [List.foldl_cons, xorGo]
    rw [← ih]
    congr 2
    simp only [Array.set!_eq_setIfInBounds, Vector.toArray_set, Array.setIfInBounds, dif_pos hi', getElem!_pos v.toArray (i/8) hi', Vector.getElem_toArray]


/-- on a 25-lane state and a block of at most 200 bytes `xorBlock` IS the checked function: no `st[lane]!` / `set! lane` falls back -/
theorem xorBlock_checked (st : Array UInt64) (hs : st.size = 25) (blk : List UInt8) (hb : blk.length ≤ 200) :
    xorBlock st blk = (xorBlockV ⟨st, hs⟩ blk hb).toArray := by
  rw [xorBlock_eq_foldl]; exact xorGo_eq blk ⟨st, hs⟩ 0 (by omega)

/-- every target lane of the pi step is a lane -/
theorem piln_lt (i : Nat) (h : i < 24) : piln[i]'h < 25 := by
  have : ∀ i : Fin 24, piln[i.val]'i.isLt < 25 := by decide
  exact this ⟨i, h⟩

/-- one round of Keccak-f[1600] with round constant `c`: the text of `Keccak.round` with every `st[i]!` replaced by `st[i]` (index proof
found by Lean from `hi`, `hj` in scope) and every `set!` by `Vector.set` (same) -/
def roundV (st : State) (c : UInt64) : State := Id.run do
  let mut st := st
  let mut bc : Vector UInt64 5 := Vector.replicate 5 0
  for h : i in [0:5] do
    have hi : i < 5 := h.2.1
    bc := bc.set i (st[i] ^^^ st[i+5] ^^^ st[i+10] ^^^ st[i+15] ^^^ st[i+20])
  for h : i in [0:5] do
    have hi : i < 5 := h.2.1
    let t := bc[(i+4)%5]'(Nat.mod_lt _ (by decide)) ^^^ rotl (bc[(i+1)%5]'(Nat.mod_lt _ (by decide))) 1
    for h' : j in [0:5] do
      have hj : j < 5 := h'.2.1
      st := st.set (j*5+i) (st[j*5+i] ^^^ t)
  let mut t := st[1]
  for h : i in [0:24] do
    have hi : i < 24 := h.2.1
    let j := piln[i]'hi
    have hj : j < 25 := piln_lt i hi
    let b := st[j]
    st := st.set j (rotl t (rotc[i]'hi))
    t := b
  for h : j in [0:5] do
    have hj : j < 5 := h.2.1
    let a0 := st[j*5]; let a1 := st[j*5+1]; let a2 := st[j*5+2]; let a3 := st[j*5+3]; let a4 := st[j*5+4]
    st := st.set (j*5) (a0 ^^^ ((~~~a1) &&& a2))
    st := st.set (j*5+1) (a1 ^^^ ((~~~a2) &&& a3))
    st := st.set (j*5+2) (a2 ^^^ ((~~~a3) &&& a4))
    st := st.set (j*5+3) (a3 ^^^ ((~~~a4) &&& a0))
    st := st.set (j*5+4) (a4 ^^^ ((~~~a0) &&& a1))
  st := st.set 0 (st[0] ^^^ c)
  return st

open Lean Elab Tactic Meta in
/-- close `a = b` by `Eq.refl a`, checked by the kernel only (see the header) -/
elab "kernel_rfl" : tactic => do
  let g ← getMainGoal
  let t ← g.getType
  let some (_, a, _) := t.eq? | throwError "not an equality"
  g.assign (← mkEqRefl a)

set_option maxRecDepth 100000 in
/-- on 25 unknown lanes the reference round and the checked round evaluate to the same 25 expressions (kernel evaluation); the round
constant is the reference's own `rc[r]!` on both sides here, its range is dealt with in `round_checked` -/
theorem round_lit (a0 a1 a2 a3 a4 a5 a6 a7 a8 a9 a10 a11 a12 a13 a14 a15 a16 a17 a18 a19 a20 a21 a22 a23 a24 : UInt64) (r : Nat)
  (h : #[a0, a1, a2, a3, a4, a5, a6, a7, a8, a9, a10, a11, a12, a13, a14, a15, a16, a17, a18, a19, a20, a21, a22, a23, a24].size = 25) :
  round #[a0, a1, a2, a3, a4, a5, a6, a7, a8, a9, a10, a11, a12, a13, a14, a15, a16, a17, a18, a19, a20, a21, a22, a23, a24] r =
   (roundV ⟨#[a0, a1, a2, a3, a4, a5, a6, a7, a8, a9, a10, a11, a12, a13, a14, a15, a16, a17, a18, a19, a20, a21, a22, a23, a24], h⟩ rc[r]!).toArray := by
  kernel_rfl

/-- on a 25-lane state and for a round number below 24, `round` IS the checked round with the checked constant `rc[r]`: no accessor
of theta / rho / pi / chi / iota falls back -/
theorem round_checked (st : Array UInt64) (hs : st.size = 25) (r : Nat) (hr : r < 24) :
    round st r = (roundV ⟨st, hs⟩ (rc[r]'hr)).toArray := by
  obtain ⟨a0, a1, a2, a3, a4, a5, a6, a7, a8, a9, a10, a11, a12, a13, a14, a15, a16, a17, a18, a19, a20, a21, a22, a23, a24, rfl⟩ := array25_lit st hs
  rw [round_lit _ _ _ _ _ _ _ _ _ _ _ _ _ _ _ _ _ _ _ _ _ _ _ _ _ r hs, getElem!_pos rc r hr]

/-- rounds `r, r+1, …, r+n-1` (checked: `r+n ≤ 24` puts every round number in the range of `rc`) -/
def roundsV (v : State) : (r n : Nat) → r + n ≤ 24 → State
  | _, 0, _ => v
  | r, n + 1, h => roundsV (roundV v (rc[r]'(by show r < 24; omega))) (r + 1) n (by omega)

/-- the permutation: 24 checked rounds -/
def f1600V (v : State) : State := roundsV v 0 24 (by decide)

theorem roundsV_eq : ∀ (n r : Nat) (v : State) (h : r + n ≤ 24),
    (List.range' r n).foldl round v.toArray = (roundsV v r n h).toArray := by
  intro n
  induction n with
  | zero => intro r v h; rfl
  | succ k ih =>
    intro r v h
    rw [List.range'_succ, List.foldl_cons, roundsV, ← ih]
    congr 1
    exact round_checked v.toArray v.size_toArray r (by omega)

/-- on a 25-lane state `f1600` IS the checked permutation -/
theorem f1600_checked (st : Array UInt64) (hs : st.size = 25) : f1600 st = (f1600V ⟨st, hs⟩).toArray := by
  rw [f1600_eq_foldl]; exact roundsV_eq 24 0 ⟨st, hs⟩ (by decide)

/-- the absorbing loop of `Keccak.absorb` over checked functions (a block is `m.take 136`: at most 136 ≤ 200 bytes) -/
def absorbV (v : State) (m : List UInt8) : State :=
  if h : m = [] then v else
  absorbV (f1600V (xorBlockV v (m.take rate) (by rw [List.length_take]; simp only [rate]; omega))) (m.drop rate)
termination_by m.length
decreasing_by
  have : 0 < m.length := List.length_pos_iff.mpr h
  simp [rate]; omega

/-- `absorb` from a 25-lane state IS the checked absorption, for every input string -/
theorem absorb_checked : ∀ (n : Nat) (m : List UInt8) (v : State), m.length ≤ n → absorb v.toArray m = (absorbV v m).toArray := by
  intro n
  induction n with
  | zero => intro m v h; have : m = [] := List.length_eq_zero_iff.mp (by omega); subst this; rw [absorb, absorbV]; simp
  | succ k ih =>
    intro m v h
    rw [absorb, absorbV]
    by_cases hm : m = []
    · simp [hm]
    · rw [dif_neg hm, dif_neg hm, ← ih _ _ (by have : 0 < m.length := List.length_pos_iff.mpr hm; simp [List.length_drop, rate]; omega)]
      congr 1
      rw [xorBlock_checked v.toArray v.size_toArray (m.take rate) (by rw [List.length_take]; simp only [rate]; omega)]
      rw [f1600_checked _ (by simp)]

/-- the squeezing step with checked lane access (byte `i < 32` comes from lane `i/8 < 4`) -/
def digestV (v : State) : List UInt8 :=
  List.ofFn (n := 32) fun i => UInt8.ofNat ((v[i.val / 8]'(by omega) >>> (UInt64.ofNat ((i.val % 8) * 8))).toNat % 256)

set_option maxRecDepth 100000 in
theorem digest_lit (a0 a1 a2 a3 a4 a5 a6 a7 a8 a9 a10 a11 a12 a13 a14 a15 a16 a17 a18 a19 a20 a21 a22 a23 a24 : UInt64)
  (h : #[a0, a1, a2, a3, a4, a5, a6, a7, a8, a9, a10, a11, a12, a13, a14, a15, a16, a17, a18, a19, a20, a21, a22, a23, a24].size = 25) :
  digestOf #[a0, a1, a2, a3, a4, a5, a6, a7, a8, a9, a10, a11, a12, a13, a14, a15, a16, a17, a18, a19, a20, a21, a22, a23, a24] =
   digestV ⟨#[a0, a1, a2, a3, a4, a5, a6, a7, a8, a9, a10, a11, a12, a13, a14, a15, a16, a17, a18, a19, a20, a21, a22, a23, a24], h⟩ := by
  kernel_rfl

/-- on a 25-lane state the squeezing step `digestOf` (= the last line of `keccak256`) IS the checked one -/
theorem digest_checked (st : Array UInt64) (hs : st.size = 25) : digestOf st = digestV ⟨st, hs⟩ := by
  obtain ⟨a0, a1, a2, a3, a4, a5, a6, a7, a8, a9, a10, a11, a12, a13, a14, a15, a16, a17, a18, a19, a20, a21, a22, a23, a24, rfl⟩ := array25_lit st hs
  exact digest_lit _ _ _ _ _ _ _ _ _ _ _ _ _ _ _ _ _ _ _ _ _ _ _ _ _ hs

/-- Keccak-256 made of checked functions only -/
def keccak256V (m : List UInt8) : List UInt8 := digestV (absorbV (Vector.replicate 25 0) (pad m))

/-- for EVERY message the reference equals the fully bounds-checked function: none of the totalised accessors of `Ref/Keccak.lean` ever
falls back to its out-of-bounds behaviour -/
theorem keccak256_checked (m : List UInt8) : keccak256 m = keccak256V m := by
  rw [keccak256_eq, keccak256V]
  have h := absorb_checked (pad m).length (pad m) (Vector.replicate 25 0) (Nat.le_refl _)
  have h0 : (Vector.replicate 25 (0 : UInt64)).toArray = Array.replicate 25 0 := rfl
  rw [h0] at h
  rw [digest_checked _ (state_size _)]
  congr 1
  apply Vector.toArray_inj.mp
  exact h

end Keccak
