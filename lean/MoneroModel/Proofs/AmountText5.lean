import MoneroModel.Proofs.AmountText2
/-! Decimal numerals: the model's `digits` (what `format!("{}", n)` prints) is Lean's `Nat.toDigits 10`, its value is `n`,
its length is the number of decimal digits; the fixed-width fraction digits (core Lean only). -/
namespace Monero.AmtText
open Spec.Decimal (natOfDigits digitVal natDigits fracDigits)

/-- the ASCII digit of `m` -/
def dch (m : Nat) : UInt8 := UInt8.ofNat (0x30 + m)

theorem dch_digitChar : ∀ m, m < 10 → UInt8.ofNat (Nat.digitChar m).toNat = dch m := by decide
theorem dch_isDigit : ∀ m, m < 10 → isDigit (dch m) = true := by decide
theorem dch_val : ∀ m, m < 10 → digitVal (dch m) = m := by decide

theorem digits_eq (n : Nat) :
    digits n = if n < 10 then [dch n] else digits (n / 10) ++ [dch (n % 10)] := by
  conv => lhs; rw [digits]
  rfl

theorem natDigits_eq (n : Nat) :
    natDigits n = if n < 10 then [dch n] else natDigits (n / 10) ++ [dch (n % 10)] := by
  unfold natDigits
  rw [Nat.toDigits_eq_if (by decide)]
  split
  · rename_i h; simp [dch_digitChar n h]
  · simp [dch_digitChar (n % 10) (Nat.mod_lt _ (by decide))]

/-- the model's numeral is Lean's -/
theorem digits_eq_natDigits (n : Nat) : digits n = natDigits n := by
  induction n using Nat.strongRecOn with
  | _ n ih =>
    rw [digits_eq, natDigits_eq]
    by_cases h : n < 10
    · simp [h]
    · simp only [h, if_false]
      rw [ih (n / 10) (by omega)]

theorem AllDigits_digits (n : Nat) : AllDigits (digits n) := by
  induction n using Nat.strongRecOn with
  | _ n ih =>
    rw [digits_eq]
    by_cases h : n < 10
    · simp only [h, if_true]
      exact AllDigits_cons.mpr ⟨dch_isDigit n h, AllDigits_nil⟩
    · simp only [h, if_false]
      exact AllDigits_append.mpr ⟨ih (n / 10) (by omega), AllDigits_cons.mpr ⟨dch_isDigit _ (Nat.mod_lt _ (by decide)), AllDigits_nil⟩⟩

theorem natOfDigits_snoc (l : Bytes) (c : UInt8) : natOfDigits (l ++ [c]) = natOfDigits l * 10 + digitVal c := by
  rw [natOfDigits_append]; simp [natOfDigits]

theorem natOfDigits_digits (n : Nat) : natOfDigits (digits n) = n := by
  induction n using Nat.strongRecOn with
  | _ n ih =>
    rw [digits_eq]
    by_cases h : n < 10
    · simp [h, natOfDigits, dch_val n h]
    · simp only [h, if_false]
      rw [natOfDigits_snoc, ih (n / 10) (by omega), dch_val _ (Nat.mod_lt _ (by decide))]
      omega

theorem digits_length_le_iff (n k : Nat) (hk : 0 < k) : (digits n).length ≤ k ↔ n < 10 ^ k := by
  rw [digits_eq_natDigits]
  unfold natDigits
  rw [List.length_map]
  exact Nat.length_toDigits_le_iff (by decide) hk

theorem digits_ne_nil (n : Nat) : digits n ≠ [] := by
  rw [digits_eq]
  split
  · simp
  · simp

theorem digits_zero : digits 0 = [0x30] := by
  rw [digits_eq]; rfl

theorem fracDigits_length : ∀ (k n : Nat), (fracDigits k n).length = k
  | 0, _ => rfl
  | k+1, n => by simp [fracDigits, fracDigits_length k]

theorem AllDigits_fracDigits : ∀ (k n : Nat), AllDigits (fracDigits k n)
  | 0, _ => AllDigits_nil
  | k+1, n => by
    simp only [fracDigits]
    exact AllDigits_append.mpr ⟨AllDigits_fracDigits k _, AllDigits_cons.mpr ⟨dch_isDigit _ (Nat.mod_lt _ (by decide)), AllDigits_nil⟩⟩

theorem natOfDigits_fracDigits : ∀ (k n : Nat), natOfDigits (fracDigits k n) = n % 10 ^ k
  | 0, n => by simp [fracDigits, natOfDigits, Nat.mod_one]
  | k+1, n => by
    simp only [fracDigits]
    have hd : UInt8.ofNat (48 + n % 10) = dch (n % 10) := rfl
    rw [hd, natOfDigits_snoc, natOfDigits_fracDigits k, dch_val _ (Nat.mod_lt _ (by decide))]
    rw [Nat.pow_succ, Nat.mul_comm (10 ^ k) 10, Nat.mod_mul]
    omega

theorem fracDigits_zero : ∀ k, fracDigits k 0 = List.replicate k 0x30
  | 0 => rfl
  | k+1 => by
    simp only [fracDigits, Nat.zero_div, fracDigits_zero k]
    rw [List.replicate_succ']
    rfl

/-- a number with more than `k` digits: its numeral is the numeral of the quotient followed by the `k` low digits -/
theorem digits_split : ∀ (k n : Nat), 10 ^ k ≤ n → digits n = digits (n / 10 ^ k) ++ fracDigits k n
  | 0, n, _ => by simp [fracDigits]
  | k+1, n, h => by
    have h10 : 10 ≤ n := by
      have : 1 ≤ 10 ^ k := Nat.one_le_pow _ _ (by decide)
      rw [Nat.pow_succ] at h
      have : 1 * 10 ≤ 10 ^ k * 10 := Nat.mul_le_mul_right _ this
      omega
    have hk : 10 ^ k ≤ n / 10 := by
      rw [Nat.pow_succ] at h
      exact (Nat.le_div_iff_mul_le (by decide)).mpr h
    rw [digits_eq n]
    simp only [show ¬ n < 10 by omega, if_false, fracDigits]
    rw [digits_split k (n / 10) hk, Nat.div_div_eq_div_mul, Nat.pow_succ, Nat.mul_comm 10 (10 ^ k), List.append_assoc]
    rfl

/-- a number with at most `k ≥ 1` digits: zero-padding its numeral to width `k` gives the `k` low digits -/
theorem padZero_small : ∀ (k n : Nat), 0 < k → n < 10 ^ k → padZero k (digits n) = fracDigits k n
  | 0, _, h, _ => absurd h (by decide)
  | k+1, n, _, h => by
    by_cases h10 : n < 10
    · rw [digits_eq n]
      simp only [h10, if_true, fracDigits, padZero, List.length_singleton]
      have : n / 10 = 0 := Nat.div_eq_of_lt h10
      rw [this, fracDigits_zero, Nat.mod_eq_of_lt h10, Nat.add_sub_cancel]
      rfl
    · have hk : 0 < k := by
        cases k with
        | zero => simp at h; omega
        | succ k => omega
      have hlt : n / 10 < 10 ^ k := by
        rw [Nat.pow_succ] at h
        exact (Nat.div_lt_iff_lt_mul (by decide)).mpr h
      have ih := padZero_small k (n / 10) hk hlt
      rw [digits_eq n]
      simp only [h10, if_false, fracDigits]
      rw [← ih]
      simp only [padZero, List.length_append, List.length_singleton, List.append_assoc]
      have : k + 1 - ((digits (n / 10)).length + 1) = k - (digits (n / 10)).length := by omega
      rw [this]
      rfl

end Monero.AmtText
