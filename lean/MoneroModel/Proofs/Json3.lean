import MoneroModel.Proofs.Json1
import MoneroModel.Proofs.AmountText6
/-! Lemmas for the amount helper paths of the serde model (C19): what the C15 specification says about formatted
amounts above the parsing limit, and `mapOpt` on a refused element. Core Lean only. -/
namespace Monero.AmtText
open Spec.Decimal (natOfDigits specFormat specParse splitSign maxAmount)

/-- the specification's parser refuses the specification's rendering of every amount above `2^63 − 1` in magnitude -/
theorem specParse_specFormat_none (signed : Bool) (md : Nat) (a : Int) (hmag : a.natAbs > maxAmount) :
    specParse signed md (specFormat md a) = none := by
  cases hp : specParse signed md (specFormat md a) with
  | none => rfl
  | some r =>
    exfalso
    obtain ⟨ip, fp, he, h1, h2, h3, h4, h5, _⟩ := specFormat_shape md a
    obtain ⟨_, _, ip', fp', hl', _, hle, _⟩ := (specParse_some_iff signed md _ r).mp hp
    have hfp0 : md = 0 → fp = [] := by
      intro h0; rw [h0] at h4; exact List.eq_nil_of_length_eq_zero h4
    have hlit : Lit (ip ++ (if md = 0 then [] else 0x2e :: fp)) ip fp := by
      by_cases h0 : md = 0
      · simp only [h0, if_true, List.append_nil]
        rw [hfp0 h0]
        exact ⟨h1, AllDigits_nil, Or.inl ⟨rfl, rfl⟩⟩
      · simp only [h0, if_false]
        exact ⟨h1, h3, Or.inr rfl⟩
    have hbody : (splitSign (specFormat md a)).2 = ip ++ (if md = 0 then [] else 0x2e :: fp) := by
      rw [he]
      by_cases hneg : a < 0
      · simp only [hneg, if_true]
        have : splitSign ([0x2d] ++ ip ++ (if md = 0 then [] else 0x2e :: fp)) =
            (true, ip ++ (if md = 0 then [] else 0x2e :: fp)) := by simp [splitSign]
        rw [this]
      · simp only [hneg, if_false, List.nil_append]
        rw [splitSign_digits_first ip _ h1 h2]
    rw [hbody] at hl'
    obtain ⟨rfl, rfl⟩ := Lit_unique hlit hl'
    rw [h4, h5, Nat.sub_self, Nat.pow_zero, Nat.mul_one] at hle
    omega

end Monero.AmtText

namespace Monero.Json

theorem mapOpt_none {α β} (g : α → Option β) (xs : List α) (x : α) (hx : x ∈ xs) (h : g x = none) : mapOpt g xs = none := by
  induction xs with
  | nil => cases hx
  | cons y ys ih =>
    simp only [mapOpt]
    rcases List.mem_cons.mp hx with rfl | hm
    · rw [h]
    · cases g y with
      | none => rfl
      | some v => simp only [ih hm]

end Monero.Json
