import MoneroModel.Proofs.KeysComplete
/-! The reference (RFC 8032 §5.1.3, `Ed.decompress`) accepts exactly the canonical encodings of curve points — the same
characterisation as the model of the library (`publicAccept_sound` / `publicAccept_complete`); hence model acceptance and
reference acceptance coincide on every byte string. -/
namespace Monero.Keys
open Ed

theorem cast_sub_mod_zero (a b : ℕ) (hb : b < Ed.p) : (a + Ed.p - b) % Ed.p = 0 ↔ (a : F) = (b : F) := by
  have h1 : (((a + Ed.p - b : ℕ)) : F) = (a : F) - b := by
    rw [Nat.cast_sub (by omega)]; push_cast; rw [cast_p]; ring
  constructor
  · intro h
    have : (((a + Ed.p - b : ℕ)) : F) = ((0 : ℕ) : F) := (cast_eq_iff _ _).mpr (by rw [h]; simp)
    rw [h1] at this
    simpa [sub_eq_zero] using this
  · intro h
    have : (((a + Ed.p - b : ℕ)) : F) = ((0 : ℕ) : F) := by rw [h1, h]; simp
    have := (cast_eq_iff _ _).mp this
    simpa using this

theorem sq_check (a b : ℕ) (hb : b < Ed.p) : (a * a + Ed.p - b) % Ed.p = 0 ↔ (a : F) * a = (b : F) := by
  rw [cast_sub_mod_zero (a * a) b hb]; push_cast; rfl

theorem cast_inv (v : ℕ) (hv : (v : F) ≠ 0) : (v : F) * ((inv v : ℕ) : F) = 1 := by
  unfold inv
  rw [cast_powmod v (Ed.p - 2) (by decide)]
  have h : Ed.p - 2 = 8 * e8 + 3 := by have := p_eq; omega
  rw [h, ← fermat _ hv]; ring

theorem p3_eq : (Ed.p + 3) / 8 = e8 + 1 := by have := p_eq; omega

theorem refDecompress_isSome_iff (k : ℕ) (hk : k < 2 ^ 256) :
    (Ed.decompress k).isSome = true ↔
      k % 2 ^ 255 < Ed.p ∧ ∃ x, x < Ed.p ∧
        ((k % 2 ^ 255) * (k % 2 ^ 255)) % Ed.p = (1 + x * x + d * (x * x) * ((k % 2 ^ 255) * (k % 2 ^ 255))) % Ed.p ∧
        x % 2 = k / 2 ^ 255 := by
  have hs : k / 2 ^ 255 < 2 := by omega
  have hpodd := p_odd
  unfold Ed.decompress
  simp only []
  generalize k % 2 ^ 255 = y at *
  generalize k / 2 ^ 255 = s at *
  by_cases hy : y ≥ Ed.p
  · rw [if_pos hy]
    simp only [Option.isSome_none, Bool.false_eq_true, false_iff]
    rintro ⟨h, _⟩; omega
  rw [if_neg hy]
  have hylt : y < Ed.p := by omega
  simp only [hylt, true_and]
  have huF : (((y * y + Ed.p - 1) % Ed.p : ℕ) : F) = (y : F) * y - 1 := by
    rw [cast_mod, Nat.cast_sub (by have := p_pos; omega)]; push_cast; rw [cast_p]; ring
  have hvF : (((d * y % Ed.p * y + 1) % Ed.p : ℕ) : F) = (y : F) * y * d + 1 := by
    rw [cast_mod]; push_cast; rw [cast_mod]; push_cast; ring
  generalize (y * y + Ed.p - 1) % Ed.p = u at *
  generalize (d * y % Ed.p * y + 1) % Ed.p = v at *
  have hv0 : (v : F) ≠ 0 := by rw [hvF]; exact denom_ne_zero _
  have hx2F : (v : F) * ((u * inv v % Ed.p : ℕ) : F) = u := by
    rw [cast_mod]; push_cast
    have := cast_inv v hv0
    linear_combination (u : F) * this
  have hx2lt : u * inv v % Ed.p < Ed.p := Nat.mod_lt _ p_pos
  generalize u * inv v % Ed.p = x2 at *
  have hcF : ((powmod x2 ((Ed.p + 3) / 8) Ed.p : ℕ) : F) = (x2 : F) ^ (e8 + 1) := by
    rw [p3_eq, cast_powmod _ _ (by decide)]
  have hclt : powmod x2 ((Ed.p + 3) / 8) Ed.p < Ed.p := powmod_lt _ _ _ p_gt_one (by decide)
  generalize powmod x2 ((Ed.p + 3) / 8) Ed.p = c at *
  have hfirst := sq_check c x2 hx2lt
  have hx'lt : (if ((c * c + Ed.p - x2) % Ed.p != 0) = true then c * sqrtm1 % Ed.p else c) < Ed.p := by
    split
    · exact Nat.mod_lt _ p_pos
    · exact hclt
  have hx'F : (((if ((c * c + Ed.p - x2) % Ed.p != 0) = true then c * sqrtm1 % Ed.p else c : ℕ)) : F) =
      if (c * c + Ed.p - x2) % Ed.p = 0 then (c : F) else (c : F) * (sqrtm1 : F) := by
    by_cases h : (c * c + Ed.p - x2) % Ed.p = 0
    · simp [h]
    · simp [h, cast_mod]
  generalize (if ((c * c + Ed.p - x2) % Ed.p != 0) = true then c * sqrtm1 % Ed.p else c) = x' at *
  have hsecond := sq_check x' x2 hx2lt
  -- the curve equation for a field element X with v·X² = u
  have hcurve_of : ∀ X : ℕ, (v : F) * ((X : F) * X) = u →
      y * y % Ed.p = (1 + X * X + d * (X * X) * (y * y)) % Ed.p := by
    intro X hX
    apply (cast_eq_iff _ _).mp
    push_cast
    rw [hvF, huF] at hX
    linear_combination (-1 : F) * hX
  have hvx_of : ∀ X : ℕ, y * y % Ed.p = (1 + X * X + d * (X * X) * (y * y)) % Ed.p → (v : F) * ((X : F) * X) = u := by
    intro X hX
    have := (cast_eq_iff _ _).mpr hX
    push_cast at this
    rw [hvF, huF]
    linear_combination (-1 : F) * this
  constructor
  · -- reference accepts ⇒ witness
    intro h
    by_cases h2 : (x' * x' + Ed.p - x2) % Ed.p = 0
    · have hsq : (x' : F) * x' = x2 := hsecond.mp h2
      by_cases h3 : x' = 0 ∧ s = 1
      · simp [h2, h3] at h
      · have hvx' : (v : F) * ((x' : F) * x') = u := by rw [hsq]; exact hx2F
        by_cases hpar : x' % 2 = s
        · exact ⟨x', hx'lt, hcurve_of x' hvx', hpar⟩
        · have hx'0 : x' ≠ 0 := by
            intro h0; apply h3; subst h0; exact ⟨rfl, by omega⟩
          refine ⟨Ed.p - x', by omega, hcurve_of _ ?_, by omega⟩
          rw [Nat.cast_sub (Nat.le_of_lt hx'lt), cast_p]
          linear_combination hvx'
    · simp [h2] at h
  · -- witness ⇒ reference accepts
    rintro ⟨x, hx, hc, hpar⟩
    have hvx := hvx_of x hc
    have hx2 : (x2 : F) = (x : F) * x := by
      have : (v : F) * ((x2 : F) - (x : F) * x) = 0 := by linear_combination hx2F - hvx
      rcases mul_eq_zero.mp this with h | h
      · exact absurd h hv0
      · exact sub_eq_zero.mp h
    have hsq : (x' : F) * x' = x2 := by
      by_cases hf : (c * c + Ed.p - x2) % Ed.p = 0
      · rw [hx'F, if_pos hf]; exact hfirst.mp hf
      · rw [hx'F, if_neg hf]
        have hne : (c : F) * c ≠ x2 := fun h => hf (hfirst.mpr h)
        have hi := i_sq
        by_cases hx0 : (x : F) = 0
        · exfalso; apply hne
          rw [hcF, hx2, hx0]; simp
        · have ht : ((x : F) ^ (4 * e8 + 2)) * ((x : F) ^ (4 * e8 + 2)) = 1 := by rw [← fermat _ hx0]; ring
          have hcc : (c : F) * c = x2 * (x : F) ^ (4 * e8 + 2) := by rw [hcF, hx2]; ring
          rcases mul_self_eq_one_iff.mp ht with h1 | h1
          · exfalso; apply hne; rw [hcc, h1]; ring
          · rw [h1] at hcc
            linear_combination (-1 : F) * hcc + (c : F) * c * hi
    have h2 : (x' * x' + Ed.p - x2) % Ed.p = 0 := hsecond.mpr hsq
    have h3 : ¬ (x' = 0 ∧ s = 1) := by
      rintro ⟨h0, h1⟩
      subst h0
      have hxx : (x : F) * x = 0 := by rw [← hx2, ← hsq]; simp
      have hx0 : (x : F) = 0 := by rcases mul_eq_zero.mp hxx with h | h <;> exact h
      have := cast_eq_zero_lt x hx hx0
      subst this
      omega
    simp [h2, h3]

/-- 32-byte strings: the reference decoder accepts exactly when the library model accepts -/
theorem publicAccept_eq_ref (b : Bytes) : publicAccept b = (Ed.decodePt b).isSome := by
  unfold Ed.decodePt
  by_cases hlen : b.length = 32
  · rw [if_pos hlen]
    have hk : leNat b < 2 ^ 256 := by
      have := leNat_lt b
      rw [hlen, show (256 : ℕ) ^ 32 = 2 ^ 256 by norm_num] at this
      exact this
    have href := refDecompress_isSome_iff (leNat b) hk
    cases hm : publicAccept b with
    | true =>
      obtain ⟨_, h2, x, h3, h4, h5, _⟩ := publicAccept_sound b hm
      exact (href.mpr ⟨h2, x, h3, h4, h5⟩).symm
    | false =>
      cases hr : (Ed.decompress (leNat b)).isSome with
      | false => rfl
      | true =>
        obtain ⟨h2, x, h3, h4, h5⟩ := href.mp hr
        rw [publicAccept_complete b hlen x h3 h2 h4 h5] at hm
        exact absurd hm (by simp)
  · rw [if_neg hlen]
    have : publicAccept b = false := by
      unfold publicAccept
      have hne : (b.length != 32) = true := by simp [hlen]
      rw [hne]; simp
    rw [this]; rfl

end Monero.Keys
