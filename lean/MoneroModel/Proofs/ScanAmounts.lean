import MoneroModel.Proofs.ScanTop
import MoneroModel.Spec.Amounts
/-! Amount recovery (`ecdhDecode`, `openCommitment`, `openStep` of the scan model) against Monero's `ecdhEncode`
(Spec/Amounts.lean): scalar and byte-level lemmas, and the bridge between the two independently written texts. -/
namespace Monero.Scan
open Spec.Sender (Prims)

theorem amountSalt_eq : Gen.amountSalt = Spec.Amounts.amountSalt := by decide
theorem maskSalt_eq : Gen.maskSalt = Spec.Amounts.maskSalt := by decide

/-- dalek's scalar subtraction undoes the sender's addition -/
theorem scalarSub_add (l x k : Nat) (hx : x < l) (hk : k < l) : scalarSub l ((x + k) % l) k = x := by
  unfold scalarSub
  rw [Nat.mod_eq_of_lt hk, Nat.mod_add_mod]
  have : x + k + (l - k) = x + l := by omega
  rw [this, Nat.add_mod_right, Nat.mod_eq_of_lt hx]

theorem scalarSub_lt (l a b : Nat) (hl : 0 < l) : scalarSub l a b < l := Nat.mod_lt _ hl

theorem leNat_scalarBytes (x : Nat) (hx : x < 2 ^ 256) : leNat (scalarBytes x) = x := by
  have e : (2 : Nat) ^ 256 = 256 ^ 32 := by decide
  unfold scalarBytes; rw [leNat_eq_Ed, toBytesLE_eq_Ed]
  exact Ed.leNat_toBytesLE 32 x (e ▸ hx)

theorem leNat_le8 (a : Nat) (ha : a < 2 ^ 64) : leNat (Spec.Sender.le 8 a) = a := by
  have e : (2 : Nat) ^ 64 = 256 ^ 8 := by decide
  rw [← toBytesLE_eq_le, leNat_eq_Ed, toBytesLE_eq_Ed]
  exact Ed.leNat_toBytesLE 8 a (e ▸ ha)

theorem length_le (n a : Nat) : (Spec.Sender.le n a).length = n := by
  rw [← toBytesLE_eq_le, toBytesLE_eq_Ed, Ed.length_toBytesLE]

/-- xor of two numbers given by a low byte and the rest -/
theorem xor_byte_split (x y a b : Nat) (hx : x < 256) (hy : y < 256) :
    (x + 256 * a) ^^^ (y + 256 * b) = (x ^^^ y) + 256 * (a ^^^ b) := by
  have hxy : x ^^^ y < 2 ^ 8 := Nat.xor_lt_two_pow (n := 8) hx hy
  have e1 : x + 256 * a = 2 ^ 8 * a + x := by omega
  have e2 : y + 256 * b = 2 ^ 8 * b + y := by omega
  have e3 : (x ^^^ y) + 256 * (a ^^^ b) = 2 ^ 8 * (a ^^^ b) + (x ^^^ y) := by omega
  rw [e1, e2, e3]
  apply Nat.eq_of_testBit_eq
  intro j
  rw [Nat.testBit_xor, Nat.testBit_two_pow_mul_add a (i := 8) hx, Nat.testBit_two_pow_mul_add b (i := 8) hy,
    Nat.testBit_two_pow_mul_add (a ^^^ b) (i := 8) hxy]
  split <;> simp [Nat.testBit_xor]

/-- byte-wise xor of equally long strings is the xor of their little-endian values -/
theorem leNat_xorBytes : ∀ (A B : Bytes), A.length = B.length →
    leNat (Spec.Amounts.xorBytes A B) = leNat A ^^^ leNat B
  | [], [], _ => by simp [Spec.Amounts.xorBytes, leNat]
  | [], _ :: _, h => by simp at h
  | _ :: _, [], h => by simp at h
  | x :: xs, y :: ys, h => by
    have ih := leNat_xorBytes xs ys (by simpa using h)
    rw [Spec.Amounts.xorBytes]
    show (x ^^^ y).toNat + 256 * leNat (Spec.Amounts.xorBytes xs ys) = (x.toNat + 256 * leNat xs) ^^^ (y.toNat + 256 * leNat ys)
    rw [ih, UInt8.toNat_xor, xor_byte_split _ _ _ _ x.toNat_lt y.toNat_lt]

variable {P : Type}

/-- the sender's commitment and the scan's recomputed commitment are the same expression -/
theorem commit_eq_spec (ops : CryptoOps P) (decP : Bytes → Option P) (H : P) (hH : decP Gen.pointH = some H) (y a : Nat) :
    commit ops decP y a = some (Spec.Amounts.commitment (specPrims ops) H y a) := by
  unfold commit; rw [hH]; rfl

/-- **legacy decode ∘ encode** on the shared scalar `k` -/
theorem ecdhDecode_legacy (ops : CryptoOps P) (k y a : Nat) (hy : y < ops.l) (ha : a < 2 ^ 64)
    (hl64 : 2 ^ 64 ≤ ops.l) (hl256 : ops.l ≤ 2 ^ 256) :
    ecdhDecode ops (.std (Spec.Amounts.legacyEncode (specPrims ops) k y a).1 (Spec.Amounts.legacyEncode (specPrims ops) k y a).2) k
      = (a, y) := by
  have hl : 0 < ops.l := by omega
  unfold ecdhDecode Spec.Amounts.legacyEncode
  simp only
  rw [← hsOf_eq, ← scalarBytes_eq, ← hsOf_eq, ← scalarBytes_eq, ← scalarBytes_eq, ← scalarBytes_eq]
  show (scalarSub ops.l (scalarOfBytes ops.l (scalarBytes ((a + hsOf ops (scalarBytes (hsOf ops (scalarBytes k)))) % ops.l)))
          (hsOf ops (scalarBytes (hsOf ops (scalarBytes k)))) % 2 ^ 64,
        scalarSub ops.l (scalarOfBytes ops.l (scalarBytes ((y + hsOf ops (scalarBytes k)) % ops.l))) (hsOf ops (scalarBytes k)))
      = (a, y)
  have h1 := hsOf_lt ops hl (scalarBytes k)
  have h2 := hsOf_lt ops hl (scalarBytes (hsOf ops (scalarBytes k)))
  have m1 : (y + hsOf ops (scalarBytes k)) % ops.l < ops.l := Nat.mod_lt _ hl
  have m2 : (a + hsOf ops (scalarBytes (hsOf ops (scalarBytes k)))) % ops.l < ops.l := Nat.mod_lt _ hl
  unfold scalarOfBytes
  rw [leNat_scalarBytes _ (by omega), leNat_scalarBytes _ (by omega), Nat.mod_eq_of_lt m1, Nat.mod_eq_of_lt m2,
    scalarSub_add _ _ _ hy h1, scalarSub_add _ _ _ (by omega) h2, Nat.mod_eq_of_lt ha]

/-- **compact decode ∘ encode** on the shared scalar `k` (Keccak output at least 8 bytes long) -/
theorem ecdhDecode_compact (ops : CryptoOps P) (k a : Nat) (ha : a < 2 ^ 64) (hk : ∀ m, 8 ≤ (ops.keccak m).length) :
    ecdhDecode ops (.bp (Spec.Amounts.compactEncode (specPrims ops) k a)) k
      = (a, Spec.Amounts.compactMask (specPrims ops) k) := by
  unfold ecdhDecode xorAmount maskOf Spec.Amounts.compactEncode Spec.Amounts.compactMask Spec.Amounts.ecdhHash
  simp only
  rw [← hsOf_eq, ← scalarBytes_eq, ← amountSalt_eq, ← maskSalt_eq]
  show (leNat (Spec.Amounts.xorBytes (Spec.Sender.le 8 a) ((ops.keccak (Gen.amountSalt ++ scalarBytes k)).take 8)) ^^^
        leNat ((ops.keccak (Gen.amountSalt ++ scalarBytes k)).take 8), _) = _
  have hlen : (Spec.Sender.le 8 a).length = ((ops.keccak (Gen.amountSalt ++ scalarBytes k)).take 8).length := by
    rw [length_le, List.length_take]; have := hk (Gen.amountSalt ++ scalarBytes k); omega
  rw [leNat_xorBytes _ _ hlen, leNat_le8 a ha, Nat.xor_assoc, Nat.xor_self, Nat.xor_zero]

/-- whatever `openCommitment` returns opens the candidate commitment -/
theorem openCommitment_sound [AddCommGroup P] {ops : CryptoOps P} (L : Lawful ops) (decP : Bytes → Option P) (e : Ecdh)
    (v : Nat) (R : P) (i : Nat) (cand : P) (o : Opening) (h : openCommitment ops decP e v R i cand = some o) :
    ∃ H, decP Gen.pointH = some H ∧ o.mask • ops.base + o.amount • H = cand ∧ o.commitment = ops.enc cand ∧
      (o.amount, o.mask) = ecdhDecode ops e (rvnScalar ops (derive ops v R) i) := by
  unfold openCommitment at h
  simp only at h
  cases hH : decP Gen.pointH with
  | none => simp [commit, hH] at h
  | some H =>
    simp only [commit, hH] at h
    split at h
    · cases h
    · rename_i hne
      simp only [Option.some.injEq] at h
      have heq : ops.enc (ops.add (ops.smul (ecdhDecode ops e (rvnScalar ops (derive ops v R) i)).2 ops.base)
          (ops.smul (ecdhDecode ops e (rvnScalar ops (derive ops v R) i)).1 H)) = ops.enc cand := by
        simpa using hne
      have hpt := L.enc_inj heq
      rw [L.add_eq, L.smul_eq, L.smul_eq] at hpt
      subst h
      exact ⟨H, rfl, hpt, heq, rfl⟩

/-- if the decoded pair opens the candidate, `openCommitment` reports it -/
theorem openCommitment_complete (ops : CryptoOps P) (decP : Bytes → Option P) (e : Ecdh) (v : Nat) (R : P) (i : Nat)
    (cand H : P) (hH : decP Gen.pointH = some H) (a y : Nat)
    (hd : ecdhDecode ops e (rvnScalar ops (derive ops v R) i) = (a, y))
    (hc : Spec.Amounts.commitment (specPrims ops) H y a = cand) :
    openCommitment ops decP e v R i cand = some ⟨a, y, ops.enc cand⟩ := by
  unfold openCommitment
  simp only [hd, commit_eq_spec ops decP H hH, hc, bne_self_eq_false, Bool.false_eq_true, if_false]

/-- the outcomes of the opening step -/
theorem openStep_cases [AddCommGroup P] {ops : CryptoOps P} (L : Lawful ops) (decP : Bytes → Option P) (v : Nat)
    (base : Option Base) (i : Nat) (K : Bytes) :
    (∃ e, openStep ops decP v base i K = .error e) ∨
    (openStep ops decP v base i K = .ok none ∧ (base = none ∨ ∃ b, base = some b ∧ b.ty = 0)) ∨
    (∃ o b e cb C H R, openStep ops decP v base i K = .ok (some o) ∧ base = some b ∧ b.ty ≠ 0 ∧
      b.ecdh[i]? = some e ∧ b.outPk[i]? = some cb ∧ decP cb = some C ∧ decP Gen.pointH = some H ∧ ops.dec K = some R ∧
      o.mask • ops.base + o.amount • H = C ∧ o.commitment = ops.enc C ∧
      (o.amount, o.mask) = ecdhDecode ops e (rvnScalar ops (derive ops v R) i)) := by
  unfold openStep
  cases base with
  | none => right; left; exact ⟨rfl, Or.inl rfl⟩
  | some b =>
    simp only
    by_cases hty : b.ty = 0
    · right; left; simp only [hty, if_true]; exact ⟨trivial, Or.inr ⟨b, rfl, hty⟩⟩
    · simp only [hty, if_false]
      cases he : b.ecdh[i]? with
      | none => left; exact ⟨_, rfl⟩
      | some e =>
        simp only
        cases hc : b.outPk[i]? with
        | none => left; exact ⟨_, rfl⟩
        | some cb =>
          simp only
          cases hC : decP cb with
          | none => left; exact ⟨_, rfl⟩
          | some C =>
            simp only
            cases hR : ops.dec K with
            | none => left; exact ⟨_, rfl⟩
            | some R =>
              simp only
              cases ho : openCommitment ops decP e v R i C with
              | none => left; exact ⟨_, rfl⟩
              | some o =>
                right; right
                obtain ⟨H, hH, h1, h2, h3⟩ := openCommitment_sound L decP e v R i C o ho
                exact ⟨o, b, e, cb, C, H, R, rfl, rfl, hty, by first | rfl | assumption, by first | rfl | assumption, hC, hH, rfl, h1, h2, h3⟩
end Monero.Scan
