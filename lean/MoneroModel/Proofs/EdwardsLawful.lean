import MoneroModel.Proofs.EdwardsGroup
import MoneroModel.Proofs.EdwardsRef
import MoneroModel.Proofs.Group
import MoneroModel.Drv.CryptoRef
import Mathlib.GroupTheory.OrderOfElement
/-! Ed25519 is a lawful instance of `CryptoOps`: the abelian group `Point dF` of `Proofs/EdwardsGroup.lean`
(d = Ed.d over GF(2^255 − 19)) with the group's own `+`, `-`, `•`, the base point decoded from `Ed.Gy`, and the RFC 8032
encoding satisfies every field of `Lawful` (no hypotheses); and the executable record `Drv.refOps` that the compiled driver
runs (extended coordinates on `Nat`, double-and-add with fuel 260) refines it on valid points (`refOps_refines_edOps`). -/
namespace Monero.Edw
open Ed Monero.Keys

/-! ### 1. completeness for d = Ed.d, the group -/
theorem complete_dF : Complete dF := fun _ _ hP hQ =>
  Monero.Edw.denom_ne_zero nonsquare_d isSquare_neg_one hP hQ

instance factNonsquare_dF : Fact (¬ IsSquare dF) := ⟨nonsquare_d⟩
instance factIsSquareNegOne : Fact (IsSquare (-1 : F)) := ⟨isSquare_neg_one⟩

/-- the group of points of −x² + y² = 1 + d·x²·y² over GF(2^255 − 19) -/
abbrev EdPoint := Point dF

/-- hypothesis-free forms of the phase-1 lemmas -/
theorem valid_add' {a b : Ed.Pt} (ha : Valid a) (hb : Valid b) : Valid (Ed.add a b) := valid_add complete_dF ha hb
theorem valid_sub' {a b : Ed.Pt} (ha : Valid a) (hb : Valid b) : Valid (Ed.sub a b) := valid_sub complete_dF ha hb
theorem valid_smul' (k : ℕ) {P : Ed.Pt} (hP : Valid P) : Valid (Ed.smul k P) := valid_smul complete_dF k hP

/-! ### 2. abstraction / representation functions -/
/-- the group element represented by valid extended coordinates -/
def toPoint (P : Ed.Pt) (h : Valid P) : EdPoint := Point.ofPair (aff P) h.onCurve

@[simp] theorem toPair_toPoint (P : Ed.Pt) (h : Valid P) : (toPoint P h).toPair = aff P := rfl

theorem toPoint_eq_iff {a b : Ed.Pt} (ha : Valid a) (hb : Valid b) : toPoint a ha = toPoint b hb ↔ aff a = aff b :=
  ⟨fun h => congrArg Point.toPair h, fun h => Point.toPair_injective h⟩

/-- canonical (affine, reduced) coordinates of a group element -/
def ofPoint (A : EdPoint) : Ed.Pt := ⟨A.x.val, A.y.val, 1, (A.x * A.y).val⟩

instance neZero_p : NeZero Ed.p := ⟨Nat.pos_iff_ne_zero.mp p_pos⟩

theorem aff_ofPoint (A : EdPoint) : aff (ofPoint A) = A.toPair := by
  unfold aff ofPoint Point.toPair
  simp only [Nat.cast_one, div_one, ZMod.natCast_zmod_val]

theorem valid_ofPoint (A : EdPoint) : Valid (ofPoint A) := by
  refine ⟨⟨ZMod.val_lt A.x, ZMod.val_lt A.y, p_gt_one, ZMod.val_lt (A.x * A.y)⟩, ?_, ?_, ?_⟩
  · show ((1 : ℕ) : F) ≠ 0
    simp
  · show ((A.x.val : ℕ) : F) * ((A.y.val : ℕ) : F) = ((1 : ℕ) : F) * (((A.x * A.y).val : ℕ) : F)
    simp only [ZMod.natCast_zmod_val, Nat.cast_one, one_mul]
  · rw [aff_ofPoint]; exact A.on

theorem toPoint_ofPoint (A : EdPoint) : toPoint (ofPoint A) (valid_ofPoint A) = A :=
  Point.toPair_injective (aff_ofPoint A)

/-- `ofPoint ∘ toPoint` normalises the representative (same affine point, z = 1) -/
theorem aff_ofPoint_toPoint (P : Ed.Pt) (h : Valid P) : aff (ofPoint (toPoint P h)) = aff P := aff_ofPoint _

theorem toPoint_surjective (A : EdPoint) : ∃ P h, toPoint P h = A := ⟨_, _, toPoint_ofPoint A⟩

/-! homomorphism lemmas (the validity proof of the left-hand side is arbitrary: `valid_add'` etc. provide one) -/
theorem toPoint_zero (h : Valid Ed.zero) : toPoint Ed.zero h = 0 :=
  Point.toPair_injective aff_zero

theorem toPoint_add {a b : Ed.Pt} (ha : Valid a) (hb : Valid b) (h : Valid (Ed.add a b)) :
    toPoint (Ed.add a b) h = toPoint a ha + toPoint b hb :=
  Point.toPair_injective (aff_add complete_dF ha hb)

theorem toPoint_neg {a : Ed.Pt} (ha : Valid a) (h : Valid (Ed.neg a)) : toPoint (Ed.neg a) h = -toPoint a ha :=
  Point.toPair_injective (aff_neg a)

theorem toPoint_sub {a b : Ed.Pt} (ha : Valid a) (hb : Valid b) (h : Valid (Ed.sub a b)) :
    toPoint (Ed.sub a b) h = toPoint a ha - toPoint b hb := by
  rw [sub_eq_add_neg, ← toPoint_neg hb (valid_neg hb)]
  exact toPoint_add ha (valid_neg hb) h

/-- projective equality of the reference is equality in the group -/
theorem eqPt_iff_toPoint {a b : Ed.Pt} (ha : Valid a) (hb : Valid b) :
    Ed.eqPt a b = true ↔ toPoint a ha = toPoint b hb := by
  rw [eqPt_iff ha hb, toPoint_eq_iff]

/-! ### 3. scalar multiplication -/
/-- invariant of double-and-add: with `fuel` iterations the low `fuel` bits of `k` are consumed -/
theorem toPoint_smulAux : ∀ (fuel : ℕ) (r q : Ed.Pt) (k : ℕ) (hr : Valid r) (hq : Valid q)
    (h : Valid (Ed.smulAux fuel r q k)),
    toPoint (Ed.smulAux fuel r q k) h = toPoint r hr + (k % 2 ^ fuel) • toPoint q hq := by
  intro fuel
  induction fuel with
  | zero =>
    intro r q k hr hq h
    simp only [pow_zero, Nat.mod_one, zero_smul, add_zero]
    rfl
  | succ n ih =>
    intro r q k hr hq h
    by_cases hk : k = 0
    · subst hk
      simp only [Nat.zero_mod, zero_smul, add_zero]
      rfl
    · have hstep : Ed.smulAux (n + 1) r q k
          = Ed.smulAux n (if k % 2 = 1 then Ed.add r q else r) (Ed.add q q) (k / 2) := by
        rw [Ed.smulAux, if_neg hk]
      have hmod : k % 2 ^ (n + 1) = 2 * (k / 2 % 2 ^ n) + k % 2 := by
        rw [pow_succ, mul_comm (2 ^ n) 2, Nat.mod_mul]; omega
      have hqq := valid_add' hq hq
      have hdbl : ∀ m : ℕ, m • toPoint (Ed.add q q) hqq = (2 * m) • toPoint q hq := by
        intro m
        rw [toPoint_add hq hq hqq, ← two_smul ℕ (toPoint q hq), smul_smul, mul_comm]
      by_cases hodd : k % 2 = 1
      · have hstep' : Ed.smulAux (n + 1) r q k = Ed.smulAux n (Ed.add r q) (Ed.add q q) (k / 2) := by
          rw [hstep, if_pos hodd]
        have hrq := valid_add' hr hq
        have h' : Valid (Ed.smulAux n (Ed.add r q) (Ed.add q q) (k / 2)) := hstep' ▸ h
        have e : toPoint (Ed.smulAux (n + 1) r q k) h = toPoint _ h' := by
          apply Point.toPair_injective; simp only [toPair_toPoint, hstep']
        rw [e, ih _ _ _ hrq hqq h', hdbl, toPoint_add hr hq hrq, hmod, hodd, add_smul, one_smul]
        abel
      · have hstep' : Ed.smulAux (n + 1) r q k = Ed.smulAux n r (Ed.add q q) (k / 2) := by
          rw [hstep, if_neg hodd]
        have h' : Valid (Ed.smulAux n r (Ed.add q q) (k / 2)) := hstep' ▸ h
        have e : toPoint (Ed.smulAux (n + 1) r q k) h = toPoint _ h' := by
          apply Point.toPair_injective; simp only [toPair_toPoint, hstep']
        have h0 : k % 2 = 0 := by omega
        rw [e, ih _ _ _ hr hqq h', hdbl, hmod, h0, add_zero]

/-- `Ed.smul k` is multiplication by `k mod 2^260` (the fuel of the reference ladder) on every valid point … -/
theorem toPoint_smul_mod (k : ℕ) {P : Ed.Pt} (hP : Valid P) (h : Valid (Ed.smul k P)) :
    toPoint (Ed.smul k P) h = (k % 2 ^ 260) • toPoint P hP := by
  have := toPoint_smulAux 260 Ed.zero P k valid_zero hP h
  rw [toPoint_zero, zero_add] at this
  exact this

/-- … in particular multiplication by `k` for every `k < 2^260` (all model scalars are < l < 2^253) -/
theorem toPoint_smul {k : ℕ} (hk : k < 2 ^ 260) {P : Ed.Pt} (hP : Valid P) (h : Valid (Ed.smul k P)) :
    toPoint (Ed.smul k P) h = k • toPoint P hP := by
  rw [toPoint_smul_mod k hP h, Nat.mod_eq_of_lt hk]

theorem l_lt_260 : Ed.l < 2 ^ 260 := by decide

/-! ### 4. the lawful instance -/
/-- `Drv.decodeKey` re-encodes and compares; the RFC decoder only accepts canonical encodings, so the check is redundant -/
theorem decodeKey_eq (b : Bytes) : Drv.decodeKey b = Ed.decodePt b := by
  unfold Drv.decodeKey
  cases h : Ed.decodePt b with
  | none => rfl
  | some P =>
    have := encodePt_decodePt h
    simp only [this, beq_self_eq_true, if_true]

/-- decoding into the group -/
def decPoint (b : Bytes) : Option EdPoint :=
  Option.pmap toPoint (Ed.decodePt b) (fun _ h => (decodePt_valid h).1)

theorem decPoint_some {b : Bytes} {P : Ed.Pt} (h : Ed.decodePt b = some P) :
    decPoint b = some (toPoint P (decodePt_valid h).1) := by
  unfold decPoint; rw [Option.pmap_some' h]
theorem decPoint_none {b : Bytes} (h : Ed.decodePt b = none) : decPoint b = none := by
  unfold decPoint; rw [Option.pmap_none' h]

/-- Ed25519 as an instance of the primitives record: the group's own operations, RFC 8032 encoding of the canonical
representative, strict RFC 8032 decoding, Keccak-256, the prime order `l` of the base point -/
def edOps : CryptoOps EdPoint :=
  { add := (· + ·), sub := (· - ·), smul := fun k A => k • A, base := toPoint Ed.G G_valid,
    enc := fun A => Ed.encodePt (ofPoint A), dec := decPoint, keccak := Keccak.keccak256, l := Ed.l }

theorem edOps_add (A B : EdPoint) : edOps.add A B = A + B := rfl
theorem edOps_sub (A B : EdPoint) : edOps.sub A B = A - B := rfl
theorem edOps_smul (k : ℕ) (A : EdPoint) : edOps.smul k A = k • A := rfl
theorem edOps_base : edOps.base = toPoint Ed.G G_valid := rfl
theorem edOps_enc (A : EdPoint) : edOps.enc A = Ed.encodePt (ofPoint A) := rfl
theorem edOps_dec : edOps.dec = decPoint := rfl
theorem edOps_keccak : edOps.keccak = Keccak.keccak256 := rfl
theorem edOps_l : edOps.l = Ed.l := rfl

theorem l_smul_base : Ed.l • toPoint Ed.G G_valid = 0 := by
  have hv := valid_smul' Ed.l G_valid
  rw [← toPoint_smul l_lt_260 G_valid hv, ← toPoint_zero valid_zero, toPoint_eq_iff, aff_zero]
  exact G_order_aff complete_dF

theorem base_ne_zero : toPoint Ed.G G_valid ≠ 0 := by
  rw [← toPoint_zero valid_zero, Ne, toPoint_eq_iff, aff_zero]
  exact G_ne_zero

theorem edOps_enc_inj : Function.Injective edOps.enc := by
  intro A B h
  rw [edOps_enc, edOps_enc] at h
  have := encodePt_inj (valid_ofPoint A) (valid_ofPoint B) h
  rw [aff_ofPoint, aff_ofPoint] at this
  exact Point.toPair_injective this

theorem edOps_dec_enc (A : EdPoint) : edOps.dec (edOps.enc A) = some A := by
  obtain ⟨P', h1, h2⟩ := decodePt_encodePt (valid_ofPoint A)
  rw [edOps_dec, edOps_enc, decPoint_some h1, Option.some.injEq]
  apply Point.toPair_injective
  rw [toPair_toPoint, h2, aff_ofPoint]

/-- **Ed25519 is lawful**: every field, no hypotheses -/
theorem edOps_lawful : Lawful edOps where
  add_eq := edOps_add
  sub_eq := edOps_sub
  smul_eq := edOps_smul
  l_gt := by rw [edOps_l]; decide
  base_order := by rw [edOps_l, edOps_base]; exact l_smul_base
  enc_inj := edOps_enc_inj
  dec_enc := edOps_dec_enc

instance factPrimeL : Fact (Nat.Prime Ed.l) :=
  ⟨by show Nat.Prime (2 ^ 252 + 27742317777372353535851937790883648493); exact Primes.prime_l⟩

/-- the base point has order exactly `l` -/
theorem addOrderOf_base : addOrderOf edOps.base = Ed.l := by
  rw [edOps_base]; exact addOrderOf_eq_prime l_smul_base base_ne_zero

/-! ### 5. the executable record refines the lawful instance -/
/-- `ops` (on extended coordinates) computes, on valid points, what `edOps` computes on the group -/
structure RefinesEd (ops : CryptoOps Ed.Pt) : Prop where
  add : ∀ (a b : Ed.Pt) (ha : Valid a) (hb : Valid b),
    ∃ h : Valid (ops.add a b), toPoint (ops.add a b) h = edOps.add (toPoint a ha) (toPoint b hb)
  sub : ∀ (a b : Ed.Pt) (ha : Valid a) (hb : Valid b),
    ∃ h : Valid (ops.sub a b), toPoint (ops.sub a b) h = edOps.sub (toPoint a ha) (toPoint b hb)
  smul : ∀ (k : ℕ), k < 2 ^ 260 → ∀ (a : Ed.Pt) (ha : Valid a),
    ∃ h : Valid (ops.smul k a), toPoint (ops.smul k a) h = edOps.smul k (toPoint a ha)
  base : ∃ h : Valid ops.base, toPoint ops.base h = edOps.base
  enc : ∀ (a : Ed.Pt) (ha : Valid a), ops.enc a = edOps.enc (toPoint a ha)
  dec_some : ∀ (b : Bytes) (P : Ed.Pt), ops.dec b = some P → ∃ h : Valid P, edOps.dec b = some (toPoint P h)
  dec_none : ∀ (b : Bytes), ops.dec b = none → edOps.dec b = none
  keccak : ops.keccak = edOps.keccak
  l : ops.l = edOps.l

theorem refOps_add : Drv.refOps.add = Ed.add := rfl
theorem refOps_sub : Drv.refOps.sub = Ed.sub := rfl
theorem refOps_smul : Drv.refOps.smul = Ed.smul := rfl
theorem refOps_base : Drv.refOps.base = Ed.G := by unfold Drv.refOps; with_reducible rfl
theorem refOps_enc : Drv.refOps.enc = Ed.encodePt := rfl
theorem refOps_dec : Drv.refOps.dec = Drv.decodeKey := rfl
theorem refOps_keccak : Drv.refOps.keccak = Keccak.keccak256 := rfl
theorem refOps_l : Drv.refOps.l = Ed.l := rfl

theorem refOps_refines_edOps : RefinesEd Drv.refOps where
  add a b ha hb := by
    simp only [refOps_add, edOps_add]
    exact ⟨valid_add' ha hb, toPoint_add ha hb _⟩
  sub a b ha hb := by
    simp only [refOps_sub, edOps_sub]
    exact ⟨valid_sub' ha hb, toPoint_sub ha hb _⟩
  smul k hk a ha := by
    simp only [refOps_smul, edOps_smul]
    exact ⟨valid_smul' k ha, toPoint_smul hk ha _⟩
  base := by
    simp only [refOps_base, edOps_base]
    exact ⟨G_valid, trivial⟩
  enc a ha := by
    rw [refOps_enc, edOps_enc]
    exact (encodePt_eq_iff ha (valid_ofPoint _)).mpr (aff_ofPoint_toPoint a ha).symm
  dec_some b P h := by
    rw [refOps_dec, decodeKey_eq] at h
    rw [edOps_dec]
    exact ⟨(decodePt_valid h).1, decPoint_some h⟩
  dec_none b h := by
    rw [refOps_dec, decodeKey_eq] at h
    rw [edOps_dec]
    exact decPoint_none h
  keccak := by rw [refOps_keccak, edOps_keccak]
  l := by rw [refOps_l, edOps_l]

/-- consequence: everything the driver's record can produce from decoded keys stays valid -/
theorem refOps_dec_valid {b : Bytes} {P : Ed.Pt} (h : Drv.refOps.dec b = some P) : Valid P :=
  (refOps_refines_edOps.dec_some b P h).1

/-! ### 6. the torsion subgroup is there -/
/-- the point encoded by 32 zero bytes: y = 0, x = the even square root of −1 -/
def T4raw : Ed.Pt := (Ed.decodePt (List.replicate 32 0)).getD Ed.zero

set_option maxRecDepth 100000 in
theorem decodePt_zeros_isSome : (Ed.decodePt (List.replicate 32 0)).isSome = true := by decide +kernel

theorem decodePt_zeros : Ed.decodePt (List.replicate 32 0) = some T4raw := by
  obtain ⟨P, h⟩ := Option.isSome_iff_exists.mp decodePt_zeros_isSome
  unfold T4raw
  rw [h]; rfl

theorem T4raw_valid : Valid T4raw := (decodePt_valid decodePt_zeros).1

/-- a point of order 4 of the lawful instance -/
def T4 : EdPoint := toPoint T4raw T4raw_valid

theorem edOps_dec_zeros : edOps.dec (List.replicate 32 0) = some T4 := by
  rw [edOps_dec]; exact decPoint_some decodePt_zeros

set_option maxRecDepth 100000 in
theorem T4raw_smul4 : Ed.eqPt (Ed.smul 4 T4raw) Ed.zero = true := by decide +kernel
set_option maxRecDepth 100000 in
theorem T4raw_smul2 : Ed.eqPt (Ed.smul 2 T4raw) Ed.zero = false := by decide +kernel

theorem T4_order : 4 • T4 = 0 ∧ 2 • T4 ≠ 0 := by
  have h4 := valid_smul' 4 T4raw_valid
  have h2 := valid_smul' 2 T4raw_valid
  constructor
  · rw [T4, ← toPoint_smul (by decide) T4raw_valid h4, ← toPoint_zero valid_zero]
    exact (eqPt_iff_toPoint h4 valid_zero).mp T4raw_smul4
  · rw [T4, ← toPoint_smul (by decide) T4raw_valid h2, ← toPoint_zero valid_zero]
    intro h
    have := (eqPt_iff_toPoint h2 valid_zero).mpr h
    rw [T4raw_smul2] at this
    exact absurd this (by simp)

/-- hence `l` does not kill every point of `edOps`: the instance is not torsion-free / not of prime order -/
theorem T4_not_l_torsion : Ed.l • T4 ≠ 0 := by
  intro h
  have h4 := T4_order.1
  -- l is odd: l = 4·q + 1 with q = l / 4 … so l • T4 = T4
  have hl : Ed.l = 4 * (Ed.l / 4) + 1 := by decide
  rw [hl, add_smul, mul_smul, smul_comm, h4, smul_zero, zero_add, one_smul] at h
  apply T4_order.2
  rw [h, smul_zero]

end Monero.Edw
