import MoneroModel.Proofs.TxSound3
open Monero

theorem sound_sigs_v1 : ∀ (rings : List Nat) b s r, tx.sigs rings b = some (s, r) →
    b = encSized (encSized id) s ++ r := by
  intro rings; induction rings with
  | nil => intro b s r h; simp only [tx.sigs] at h; obtain ⟨rfl, rfl⟩ := pure_some h; simp [encSized]
  | cons n t ih =>
    intro b s r h
    simp only [tx.sigs] at h
    obtain ⟨x, r1, h1, h2⟩ := bind_some h
    obtain ⟨xs, r2, h3, h4⟩ := bind_some h2
    obtain ⟨rfl, rfl⟩ := pure_some h4
    have c1 := sound_rep id (takeN 64) (sound_takeN 64) _ _ _ _ h1
    have c2 := ih _ _ _ h3
    subst c1; subst c2; simp [encSized]

/-- C01 for Transaction: whatever the decoder accepts re-serialises to exactly the bytes consumed -/
theorem sound_tx : Sound encTx tx := by
  intro b t r h
  unfold tx at h
  obtain ⟨p, r1, h1, h2⟩ := bind_some h
  have cp := sound_prefix _ _ _ h1
  simp only at h2
  split at h2
  · -- version 1
    rename_i hv
    obtain ⟨s, r2, h3, h4⟩ := bind_some h2
    obtain ⟨rfl, rfl⟩ := pure_some h4
    have c := sound_sigs_v1 _ _ _ _ h3
    subst cp; subst c; simp [encTx, hv]
  · rename_i hv
    split at h2
    · -- no inputs
      obtain ⟨rfl, rfl⟩ := pure_some h2
      subst cp; simp [encTx, hv]
    · obtain ⟨bs, r2, h3, h4⟩ := bind_some h2
      obtain ⟨cb, _⟩ := sound_base _ _ _ _ _ h3
      split at h4
      · rename_i hty
        -- non-null: three sub-cases on the first input
        have fin : ∀ m pr r', prunable bs.ty p.ins.length p.outs.length m r2 = some (pr, r') →
            pure' (Tx.mk p [] (some bs) pr) r' = some (t, r) → b = encTx t ++ r := by
          intro m pr r' hp hq
          obtain ⟨rfl, rfl⟩ := pure_some hq
          rcases sound_prunable _ _ _ _ _ _ _ hp with ⟨h0, _, _⟩ | ⟨_, q, rfl, hb⟩
          · exact absurd h0 hty
          · subst cp; subst cb; subst hb; simp [encTx, hv]
        cases hh : p.ins.head? with
        | none =>
          simp only [hh] at h4
          obtain ⟨pr, r3, h5, h6⟩ := bind_some h4
          exact fin _ _ _ h5 h6
        | some i0 =>
          cases i0 with
          | gen hgt =>
            simp only [hh] at h4
            obtain ⟨pr, r3, h5, h6⟩ := bind_some h4
            exact fin _ _ _ h5 h6
          | toKey a o k =>
            simp only [hh] at h4
            split at h4
            · exact (fail_some h4).elim
            · obtain ⟨pr, r3, h5, h6⟩ := bind_some h4
              exact fin _ _ _ h5 h6
      · rename_i hty
        obtain ⟨rfl, rfl⟩ := pure_some h4
        subst cp; subst cb; simp [encTx, hv]


/-- corollaries in the shape of the property statement -/
theorem tx_consumed_prefix (b : Bytes) (t : Tx) (r : Bytes) (h : tx b = some (t, r)) :
    encTx t = b.take (b.length - r.length) := by
  have := sound_tx b t r h
  subst this; simp

theorem tx_strict_injective (b1 b2 : Bytes) (t : Tx) (h1 : tx b1 = some (t, [])) (h2 : tx b2 = some (t, [])) :
    b1 = b2 := by
  have e1 := sound_tx _ _ _ h1; have e2 := sound_tx _ _ _ h2
  simp at e1 e2; rw [e1, e2]
