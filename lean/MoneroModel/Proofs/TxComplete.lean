import MoneroModel.Proofs.VarIntComplete
open Monero

/-- completeness on a well-formedness predicate: encode then decode gives the value back and leaves the rest -/
def Complete {α} (wf : α → Prop) (enc : α → Bytes) (dec : Dec α) : Prop :=
  ∀ x r, wf x → dec (enc x ++ r) = some (x, r)

theorem bind_eq {α β} {d : Dec α} {f : α → Dec β} {b r1 : Bytes} {x : α}
    (h : d b = some (x, r1)) : bind d f b = f x r1 := by
  unfold Monero.bind; rw [h]

theorem complete_u8 : Complete (fun _ => True) (fun b => [b]) u8 := by
  intro x r _; simp [u8]

theorem complete_takeN (n : Nat) : Complete (fun x : Bytes => x.length = n) id (takeN n) := by
  intro x r h
  unfold takeN
  have : ¬ ((id x ++ r).length < n) := by simp [h]
  simp only [this, if_false, id]
  simp [← h]

theorem complete_rep {α} (wf : α → Prop) (e : α → Bytes) (d : Dec α) (h : Complete wf e d) :
    ∀ (xs : List α) r, (∀ x ∈ xs, wf x) → rep d xs.length (encSized e xs ++ r) = some (xs, r) := by
  intro xs; induction xs with
  | nil => intro r _; simp [rep, encSized, pure']
  | cons x xs ih =>
    intro r hw
    have hx := h x (encSized e xs ++ r) (hw x (by simp))
    have hxs := ih r (fun y hy => hw y (by simp [hy]))
    simp only [List.length_cons, rep]
    have e1 : encSized e (x :: xs) ++ r = e x ++ (encSized e xs ++ r) := by simp [encSized]
    rw [e1, bind_eq hx, bind_eq hxs]; rfl

theorem complete_sized {α} (sz : Nat) (wf : α → Prop) (e : α → Bytes) (d : Dec α) (h : Complete wf e d)
    (xs : List α) (r : Bytes) (hw : ∀ x ∈ xs, wf x) (hcap : xs.length * sz ≤ CAP) :
    sizedVec sz d xs.length (encSized e xs ++ r) = some (xs, r) := by
  unfold sizedVec
  have : ¬ (xs.length * sz > CAP) := by omega
  simp only [this, if_false]
  exact complete_rep wf e d h xs r hw

theorem complete_vec {α} (sz : Nat) (wf : α → Prop) (e : α → Bytes) (d : Dec α) (h : Complete wf e d)
    (xs : List α) (r : Bytes) (hw : ∀ x ∈ xs, wf x) (hcap : xs.length * sz ≤ CAP) (hlen : xs.length < 2^64) :
    vec sz d (encVec e xs ++ r) = some (xs, r) := by
  unfold vec
  have e1 : encVec e xs ++ r = encVarint xs.length ++ (encSized e xs ++ r) := by simp [encVec, encSized]
  rw [e1, bind_eq (complete_varint xs.length hlen _)]
  exact complete_sized sz wf e d h xs r hw hcap

/-- WF of a vector field with explicit length prefix -/
def VecOK {α} (sz : Nat) (wf : α → Prop) (xs : List α) : Prop :=
  (∀ x ∈ xs, wf x) ∧ xs.length * sz ≤ CAP ∧ xs.length < 2^64

def U64 (n : Nat) : Prop := n < 2^64
def Key32 (k : Bytes) : Prop := k.length = 32

def wfTxIn : TxIn → Prop
  | .gen h => U64 h
  | .toKey a o k => U64 a ∧ VecOK sizes.varint U64 o ∧ Key32 k
def wfTarget : Target → Prop
  | .key k => Key32 k
  | .tagged k _ => Key32 k
def wfTxOut (o : TxOut) : Prop := U64 o.amount ∧ wfTarget o.target
def wfPrefix (p : Prefix) : Prop :=
  U64 p.version ∧ U64 p.unlock ∧ VecOK sizes.txin wfTxIn p.ins ∧ VecOK sizes.txout wfTxOut p.outs ∧
  VecOK sizes.u8 (fun _ => True) p.extra

theorem complete_key : Complete Key32 id key := complete_takeN 32
theorem complete_key' (k r : Bytes) (h : Key32 k) : key (k ++ r) = some (k, r) := complete_key k r h
theorem u8_cons (x : UInt8) (r : Bytes) : u8 (x :: r) = some (x, r) := rfl
theorem complete_varint' : Complete U64 encVarint varint := fun n r h => complete_varint n h r

theorem complete_txin : Complete wfTxIn encTxIn txin := by
  intro x r h
  cases x with
  | gen hgt =>
    simp only [encTxIn, List.cons_append, txin]
    rw [bind_eq (u8_cons _ _)]
    simp only [if_true]
    rw [bind_eq (complete_varint' hgt r h)]; rfl
  | toKey a o k =>
    obtain ⟨ha, ⟨ho1, ho2, ho3⟩, hk⟩ := h
    simp only [encTxIn, List.cons_append, List.append_assoc, txin]
    rw [bind_eq (u8_cons _ _)]
    have h1 : ¬ ((2 : UInt8) = 0xff) := by decide
    simp only [h1, if_false, if_true]
    rw [bind_eq (complete_varint' a _ ha),
        bind_eq (complete_vec sizes.varint U64 encVarint varint complete_varint' o _ ho1 ho2 ho3),
        bind_eq (complete_key' k r hk)]; rfl

theorem complete_target : Complete wfTarget encTarget target := by
  intro x r h
  cases x with
  | key k =>
    simp only [encTarget, List.cons_append, target]
    rw [bind_eq (u8_cons _ _)]
    simp only [if_true]
    rw [bind_eq (complete_key' k r h)]; rfl
  | tagged k t =>
    simp only [encTarget, List.cons_append, List.append_assoc, List.nil_append, target]
    rw [bind_eq (u8_cons _ _)]
    have h1 : ¬ ((3 : UInt8) = 2) := by decide
    simp only [h1, if_false, if_true]
    rw [bind_eq (complete_key' k _ h), bind_eq (u8_cons _ _)]; rfl

theorem complete_txout : Complete wfTxOut encTxOut txout := by
  intro x r ⟨ha, ht⟩
  simp only [encTxOut, List.append_assoc, txout]
  rw [bind_eq (complete_varint' x.amount _ ha), bind_eq (complete_target x.target r ht)]; rfl

theorem complete_prefix : Complete wfPrefix encPrefix prefix' := by
  intro p r ⟨hv, hu, ⟨hi1, hi2, hi3⟩, ⟨ho1, ho2, ho3⟩, ⟨he1, he2, he3⟩⟩
  simp only [encPrefix, List.append_assoc, prefix']
  rw [bind_eq (complete_varint' p.version _ hv), bind_eq (complete_varint' p.unlock _ hu),
      bind_eq (complete_vec sizes.txin wfTxIn encTxIn txin complete_txin p.ins _ hi1 hi2 hi3),
      bind_eq (complete_vec sizes.txout wfTxOut encTxOut txout complete_txout p.outs _ ho1 ho2 ho3),
      bind_eq (complete_vec sizes.u8 (fun _ => True) (fun b => [b]) u8 complete_u8 p.extra r he1 he2 he3)]
  rfl

/-- the strictness clause of C02: nothing may be left over -/
theorem strict_rejects_trailing (p : Prefix) (t : Bytes) (hwf : wfPrefix p) (ht : t ≠ []) :
    ¬ ∃ q, prefix' (encPrefix p ++ t) = some (q, []) := by
  rintro ⟨q, hq⟩
  rw [complete_prefix p t hwf] at hq
  simp at hq; exact ht hq.2

