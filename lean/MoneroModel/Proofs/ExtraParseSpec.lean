import MoneroModel.Proofs.ExtraSpec
import MoneroModel.Proofs.VarIntSpec
import MoneroModel.Spec.ExtraParse
open Monero Monero.Extra

/-! The independent grammar reader `Spec.Extra.parse` (`Spec/ExtraParse.lean`: no cursor, no resynchronisation, a field
"is entirely present or is not") computes, on every input within the allocation cap, exactly the `Ok`/`Err` flag and
the fields before the first failure (`pre`) of the model of `ExtraField::try_parse`. Below the cap a declared length
above the cap can never be entirely present, so the two failure reasons (cap test / not present) coincide.
Core Lean only. -/
namespace Monero.Extra

open Drv.C16 (toSpec)

/-! ### the reference varint acceptance test is the cursor reader -/

theorem leb128Accept_sound (b : Bytes) (n k : Nat) (h : Spec.leb128Accept b = some (n, k)) :
    varint b = some (n, b.drop k) := by
  unfold Spec.leb128Accept at h
  split at h
  · simp at h
  · rename_i gs k' _
    simp only [] at h
    split at h
    · rename_i hc
      simp at h; obtain ⟨rfl, rfl⟩ := h
      have hb : b = encVarint (Spec.valOf gs) ++ b.drop k' := by
        rw [encVarint_eq_leb128, hc.2]; simp
      have := complete_varint (Spec.valOf gs) hc.1 (b.drop k')
      rw [← hb] at this; exact this
    · simp at h

/-- `Spec.leb128Accept` in terms of the model's cursor reader: same value, and the number of bytes is what the
reader consumed -/
theorem leb128Accept_eq (b : Bytes) :
    Spec.leb128Accept b = match varintRd b with
      | (some n, r) => some (n, b.length - r.length)
      | (none, _) => none := by
  cases hv : varintRd b with
  | mk o r =>
    cases o with
    | none =>
      simp only
      cases hs : Spec.leb128Accept b with
      | none => rfl
      | some p =>
        obtain ⟨n, k⟩ := p
        have h1 := leb128Accept_sound b n k hs
        rw [varint_of_varintRd, hv] at h1
        simp at h1
    | some n =>
      simp only
      obtain ⟨hb, hn⟩ := varintRd_sound hv
      obtain ⟨gs, h1, h2⟩ := VarIntSpec.readGroups_leb128 r n
      rw [← encVarint_eq_leb128] at h1
      unfold Spec.leb128Accept
      rw [hb, h1]
      simp [h2, hn, encVarint_eq_leb128]

/-! ### padding -/

theorem padLoop_takeWhile : ∀ (fuel i : Nat) (b : Bytes),
    padLoop fuel i b =
      if (b.takeWhile (· == 0)).length ≥ fuel then (some (.padding (i + fuel)), b.drop fuel)
      else if (b.takeWhile (· == 0)).length = b.length then (some (.padding (i + (b.takeWhile (· == 0)).length)), [])
      else (none, b.drop ((b.takeWhile (· == 0)).length + 1))
  | 0, i, b => by simp [padLoop_zero]
  | fuel+1, i, [] => by simp [padLoop_nil]
  | fuel+1, i, x :: xs => by
    rw [padLoop_cons]
    by_cases hx : x ≠ 0
    · have hx' : (x == 0) = false := by simpa using hx
      rw [if_pos hx, List.takeWhile_cons, hx']
      simp
    · have hx0 : x = 0 := Classical.not_not.mp hx
      subst hx0
      rw [if_neg hx, padLoop_takeWhile fuel (i+1) xs, List.takeWhile_cons]
      simp only [beq_self_eq_true, if_true, List.length_cons, List.drop_succ_cons, Nat.add_le_add_iff_right,
        Nat.add_right_cancel_iff, ge_iff_le]
      have e1 : i + 1 + fuel = i + (fuel + 1) := by omega
      have e2 : i + 1 + (List.takeWhile (fun x => x == 0) xs).length =
          i + ((List.takeWhile (fun x => x == 0) xs).length + 1) := by omega
      rw [e1, e2]

/-! ### key vectors -/

theorem chunks_zero (b : Bytes) : Spec.Extra.chunks 0 b = [] := rfl

theorem chunks_succ (n : Nat) (b : Bytes) :
    Spec.Extra.chunks (n+1) b = b.take 32 :: Spec.Extra.chunks n (b.drop 32) := by
  unfold Spec.Extra.chunks
  rw [List.range_succ_eq_map]
  simp only [List.map_cons, List.map_map, Nat.mul_zero, List.drop_zero]
  congr 1
  apply List.map_congr_left
  intro i _
  simp only [Function.comp, List.drop_drop]
  congr 2
  omega

theorem keyRd_eq (vk : Bytes → Bool) (b : Bytes) :
    keyRd vk b = if b.length < 32 then (none, [])
      else if vk (b.take 32) then (some (b.take 32), b.drop 32) else (none, b.drop 32) := by
  unfold keyRd rbind takeRd
  by_cases h : b.length < 32
  · simp [h]
  · simp only [h, if_false]
    cases vk (b.take 32) <;> simp [rpure, rfail]

/-- the element loop succeeds exactly when all `n` keys are present and valid; it then returns them in order -/
theorem keysLoop_spec (vk : Bytes → Bool) : ∀ (n : Nat) (acc : List Bytes) (b : Bytes),
    (32 * n ≤ b.length ∧ (Spec.Extra.chunks n b).all vk = true →
      keysLoop vk n acc b = (some (acc.reverse ++ Spec.Extra.chunks n b), b.drop (32 * n))) ∧
    (¬ (32 * n ≤ b.length ∧ (Spec.Extra.chunks n b).all vk = true) → (keysLoop vk n acc b).1 = none)
  | 0, acc, b => by
    constructor
    · intro _; simp [keysLoop, rpure, chunks_zero]
    · intro h; exact absurd ⟨Nat.zero_le _, rfl⟩ h
  | n+1, acc, b => by
    have ih := keysLoop_spec vk n
    unfold keysLoop
    rw [keyRd_eq, chunks_succ]
    by_cases hl : b.length < 32
    · constructor
      · intro h; omega
      · intro _; simp [hl]
    · simp only [hl, if_false, List.all_cons, Bool.and_eq_true]
      cases hv : vk (b.take 32) with
      | false =>
        constructor
        · intro h; simp at h
        · intro _; simp
      | true =>
        simp only [if_true, true_and]
        have hd : (b.drop 32).length = b.length - 32 := List.length_drop
        constructor
        · intro h
          rw [(ih (b.take 32 :: acc) (b.drop 32)).1 ⟨by omega, h.2⟩]
          have e : 32 + 32 * n = 32 * (n + 1) := by omega
          simp only [List.reverse_cons, List.append_assoc, List.singleton_append, List.drop_drop, e]
        · intro h
          exact (ih (b.take 32 :: acc) (b.drop 32)).2 (fun h' => h ⟨by omega, h'.2⟩)

/-! ### one field -/

/-- a length-prefixed blob (nonce / MinerGate) -/
theorem blob_branch (rest : Bytes) (hc : rest.length < CAP) (mk : Bytes → SubField) (mkS : Bytes → Spec.Extra.Field)
    (hmk : ∀ d, toSpec (mk d) = mkS d) :
    (match Spec.leb128Accept rest with
      | none => none
      | some (n, k) => if k + n ≤ rest.length then some (mkS ((rest.drop k).take n), 1 + k + n) else none) =
    (match rbind vecU8Rd (fun d => rpure (mk d)) rest with
      | (some sf, r) => some (toSpec sf, rest.length + 1 - r.length)
      | (none, _) => none) := by
  rw [leb128Accept_eq]
  unfold vecU8Rd rbind
  cases hv : varintRd rest with
  | mk o r1 =>
    cases o with
    | none => rfl
    | some n =>
      obtain ⟨hb, _⟩ := varintRd_sound hv
      have hlen : rest.length = (encVarint n).length + r1.length := by rw [hb]; simp
      have hk : rest.length - r1.length = (encVarint n).length := by omega
      have hdrop : rest.drop (encVarint n).length = r1 := by rw [hb]; simp
      simp only [hk]
      by_cases hcap : n * sizes.u8 > CAP
      · have hn : CAP < n := by simpa [sizes, Gen.sizes] using hcap
        rw [if_pos hcap, if_neg (by omega)]
        rfl
      · rw [if_neg hcap]
        unfold takeRd
        by_cases hs : r1.length < n
        · rw [if_pos hs, if_neg (by omega)]
        · rw [if_neg hs, if_pos (by omega), hdrop]
          simp only [rpure, hmk, List.length_drop]
          congr 2
          omega

section tags
open Spec.Extra
/-! `readField` and `afterTag` on each literal tag (definitional) -/
theorem readField_t0 (vk : Bytes → Bool) (rest : Bytes) : readField vk (0x00 :: rest) =
    if (rest.takeWhile (· == 0)).length ≥ 255 then some (.padding 255, 256)
    else if (rest.takeWhile (· == 0)).length = rest.length then
      some (.padding (rest.takeWhile (· == 0)).length, (rest.takeWhile (· == 0)).length + 1)
    else none := rfl
theorem readField_t1 (vk : Bytes → Bool) (rest : Bytes) : readField vk (0x01 :: rest) =
    if 32 ≤ rest.length ∧ vk (rest.take 32) then some (.pubkey (rest.take 32), 33) else none := rfl
theorem readField_t2 (vk : Bytes → Bool) (rest : Bytes) : readField vk (0x02 :: rest) =
    match Spec.leb128Accept rest with
    | none => none
    | some (n, k) => if k + n ≤ rest.length then some (.nonce ((rest.drop k).take n), 1 + k + n) else none := rfl
theorem readField_tde (vk : Bytes → Bool) (rest : Bytes) : readField vk (0xde :: rest) =
    match Spec.leb128Accept rest with
    | none => none
    | some (n, k) => if k + n ≤ rest.length then some (.minergate ((rest.drop k).take n), 1 + k + n) else none := rfl
theorem readField_t3_nil (vk : Bytes → Bool) : readField vk [0x03] = none := rfl
theorem readField_t3 (vk : Bytes → Bool) (sz : UInt8) (body : Bytes) : readField vk (0x03 :: sz :: body) =
    match Spec.leb128Accept body with
    | none => none
    | some (depth, k) =>
      if k + 32 ≤ body.length then some (.mergeMining depth ((body.drop k).take 32), 2 + k + 32) else none := rfl
theorem readField_t4 (vk : Bytes → Bool) (rest : Bytes) : readField vk (0x04 :: rest) =
    match Spec.leb128Accept rest with
    | none => none
    | some (c, k) =>
      if k + 32 * c ≤ rest.length then
        if (chunks c (rest.drop k)).all vk then some (.additional (chunks c (rest.drop k)), 1 + k + 32 * c) else none
      else none := rfl
theorem readField_other (vk : Bytes → Bool) (tag : UInt8) (rest : Bytes) (h0 : tag ≠ 0) (h1 : tag ≠ 1) (h2 : tag ≠ 2)
    (h3 : tag ≠ 3) (h4 : tag ≠ 4) (hd : tag ≠ 0xde) : readField vk (tag :: rest) = none := by
  simp [readField, h0, h1, h2, h3, h4, hd]
theorem afterTag_other (vk : Bytes → Bool) (tag : UInt8) (rest : Bytes) (h0 : tag ≠ 0) (h1 : tag ≠ 1) (h2 : tag ≠ 2)
    (h3 : tag ≠ 3) (h4 : tag ≠ 4) (hd : tag ≠ 0xde) : afterTag vk tag rest = (none, rest) := by
  simp [afterTag, h0, h1, h2, h3, h4, hd, rfail]
theorem afterTag_t0 (vk : Bytes → Bool) : afterTag vk 0x00 = padLoop 255 0 := rfl
theorem afterTag_t1 (vk : Bytes → Bool) : afterTag vk 0x01 = rbind (keyRd vk) fun k => rpure (.txPub k) := rfl
theorem afterTag_t2 (vk : Bytes → Bool) : afterTag vk 0x02 = rbind vecU8Rd fun n => rpure (.nonce n) := rfl
theorem afterTag_t3 (vk : Bytes → Bool) : afterTag vk 0x03 =
    rbind byteRd fun _size => rbind varintRd fun d => rbind (takeRd 32) fun h => rpure (.mergeMining d h) := rfl
theorem afterTag_t4 (vk : Bytes → Bool) : afterTag vk 0x04 = rbind (keysRd vk) fun ks => rpure (.addKeys ks) := rfl
theorem afterTag_tde (vk : Bytes → Bool) : afterTag vk 0xde = rbind vecU8Rd fun d => rpure (.minerGate d) := rfl
end tags

theorem readField_pad (rest : Bytes) (vk : Bytes → Bool) :
    Spec.Extra.readField vk (0x00 :: rest) = match padLoop 255 0 rest with
      | (some sf, r) => some (toSpec sf, rest.length + 1 - r.length)
      | (none, _) => none := by
  rw [readField_t0, padLoop_takeWhile]
  have hle : (rest.takeWhile (· == 0)).length ≤ rest.length := (List.takeWhile_prefix _).length_le
  by_cases hz : (rest.takeWhile (· == 0)).length ≥ 255
  · rw [if_pos hz, if_pos hz]
    simp only [Nat.zero_add, List.length_drop, toSpec]
    have e : rest.length + 1 - (rest.length - 255) = 256 := by omega
    rw [e]
  · rw [if_neg hz, if_neg hz]
    by_cases he : (rest.takeWhile (· == 0)).length = rest.length
    · rw [if_pos he, if_pos he]
      simp only [Nat.zero_add, List.length_nil, toSpec, Nat.sub_zero, he]
    · rw [if_neg he, if_neg he]

theorem readField_key (rest : Bytes) (vk : Bytes → Bool) :
    Spec.Extra.readField vk (0x01 :: rest) = match rbind (keyRd vk) (fun k => rpure (.txPub k)) rest with
      | (some sf, r) => some (toSpec sf, rest.length + 1 - r.length)
      | (none, _) => none := by
  rw [readField_t1]
  unfold rbind
  rw [keyRd_eq]
  by_cases hl : rest.length < 32
  · have : ¬ (32 ≤ rest.length ∧ vk (rest.take 32) = true) := by omega
    rw [if_neg this, if_pos hl]
  · rw [if_neg hl]
    cases hv : vk (rest.take 32) with
    | false => simp
    | true =>
      have : 32 ≤ rest.length ∧ true = true := ⟨by omega, rfl⟩
      rw [if_pos this]
      simp only [if_true, rpure, toSpec, List.length_drop]
      congr 2
      omega

theorem readField_mm (rest : Bytes) (vk : Bytes → Bool) :
    Spec.Extra.readField vk (0x03 :: rest) =
      match (rbind byteRd fun _size => rbind varintRd fun d => rbind (takeRd 32) fun h => rpure (.mergeMining d h)) rest with
      | (some sf, r) => some (toSpec sf, rest.length + 1 - r.length)
      | (none, _) => none := by
  cases rest with
  | nil => rfl
  | cons sz body =>
    rw [readField_t3, leb128Accept_eq]
    unfold rbind
    simp only [byteRd]
    cases hv : varintRd body with
    | mk o r1 =>
      cases o with
      | none => rfl
      | some d =>
        obtain ⟨hb, _⟩ := varintRd_sound hv
        have hlen : body.length = (encVarint d).length + r1.length := by rw [hb]; simp
        have hk : body.length - r1.length = (encVarint d).length := by omega
        have hdrop : body.drop (encVarint d).length = r1 := by rw [hb]; simp
        simp only [hk]
        unfold takeRd
        by_cases hs : r1.length < 32
        · rw [if_pos hs, if_neg (by omega)]
        · rw [if_neg hs, if_pos (by omega), hdrop]
          simp only [rpure, toSpec, List.length_cons, List.length_drop]
          congr 2
          omega

theorem readField_keys (rest : Bytes) (vk : Bytes → Bool) (hrest : rest.length < CAP) :
    Spec.Extra.readField vk (0x04 :: rest) = match rbind (keysRd vk) (fun ks => rpure (.addKeys ks)) rest with
      | (some sf, r) => some (toSpec sf, rest.length + 1 - r.length)
      | (none, _) => none := by
  rw [readField_t4, leb128Accept_eq]
  unfold keysRd rbind
  cases hv : varintRd rest with
  | mk o r1 =>
    cases o with
    | none => rfl
    | some n =>
      obtain ⟨hb, _⟩ := varintRd_sound hv
      have hlen : rest.length = (encVarint n).length + r1.length := by rw [hb]; simp
      have hk : rest.length - r1.length = (encVarint n).length := by omega
      have hdrop : rest.drop (encVarint n).length = r1 := by rw [hb]; simp
      simp only [hk, hdrop]
      by_cases hcap : n * sizes.key > CAP
      · have hn : CAP < n * 32 := by simpa [sizes, Gen.sizes] using hcap
        rw [if_pos hcap, if_neg (by omega)]
        rfl
      · rw [if_neg hcap]
        have hsp := keysLoop_spec vk n [] r1
        by_cases hp : (encVarint n).length + 32 * n ≤ rest.length
        · rw [if_pos hp]
          cases hall : (Spec.Extra.chunks n r1).all vk with
          | true =>
            rw [hsp.1 ⟨by omega, hall⟩]
            simp only [if_true, rpure, toSpec, List.reverse_nil, List.nil_append, List.length_drop]
            congr 2
            omega
          | false =>
            have := hsp.2 (fun h => by rw [hall] at h; exact absurd h.2 (by simp))
            cases hk' : keysLoop vk n [] r1 with
            | mk o' r' => rw [hk'] at this; simp only at this; subst this; simp
        · rw [if_neg hp]
          have := hsp.2 (fun h => hp (by omega))
          cases hk' : keysLoop vk n [] r1 with
          | mk o' r' => rw [hk'] at this; simp only at this; subst this; rfl

/-- **One field.** On an input within the allocation cap the grammar reader finds a field at the start of `b` exactly
when the library's sub-field decoder succeeds; it is the same field, and it occupies the bytes the decoder consumed. -/
theorem readField_eq (vk : Bytes → Bool) (b : Bytes) (hc : b.length ≤ CAP) :
    Spec.Extra.readField vk b = match subFieldRd vk b with
      | (some sf, r) => some (toSpec sf, b.length - r.length)
      | (none, _) => none := by
  cases b with
  | nil => rfl
  | cons tag rest =>
    have hrest : rest.length < CAP := by simp only [List.length_cons] at hc; omega
    rw [subFieldRd_cons, List.length_cons]
    by_cases h0 : tag = 0x00
    · subst h0; rw [afterTag_t0]; exact readField_pad rest vk
    by_cases h1 : tag = 0x01
    · subst h1; rw [afterTag_t1]; exact readField_key rest vk
    by_cases h2 : tag = 0x02
    · subst h2; rw [afterTag_t2, readField_t2]; exact blob_branch rest hrest .nonce .nonce (fun _ => rfl)
    by_cases h3 : tag = 0x03
    · subst h3; rw [afterTag_t3]; exact readField_mm rest vk
    by_cases h4 : tag = 0x04
    · subst h4; rw [afterTag_t4]; exact readField_keys rest vk hrest
    by_cases hd : tag = 0xde
    · subst hd; rw [afterTag_tde, readField_tde]; exact blob_branch rest hrest .minerGate .minergate (fun _ => rfl)
    rw [readField_other vk tag rest h0 h1 h2 h3 h4 hd, afterTag_other vk tag rest h0 h1 h2 h3 h4 hd]

/-! ### the whole input -/

theorem readAll_eq (vk : Bytes → Bool) : ∀ (fuel : Nat) (b : Bytes) (acc : List Spec.Extra.Field),
    b.length ≤ fuel → b.length ≤ CAP →
    Spec.Extra.readAll vk fuel b acc =
      (!(tryParse vk b).err, acc.reverse ++ (tryParse vk b).pre.map toSpec)
  | 0, b, acc, hf, _ => by
    have : b = [] := List.eq_nil_of_length_eq_zero (by omega)
    subst this
    simp [Spec.Extra.readAll, tryParse_nil]
  | fuel+1, b, acc, hf, hc => by
    unfold Spec.Extra.readAll
    cases b with
    | nil => simp [tryParse_nil]
    | cons x xs =>
      have hne : (x :: xs) ≠ [] := by simp
      simp only [List.isEmpty_cons, Bool.false_eq_true, if_false]
      rw [readField_eq vk _ hc]
      cases h : subFieldRd vk (x :: xs) with
      | mk o r =>
        cases o with
        | none => simp [tryParse_none vk hne h]
        | some sf =>
          simp only
          obtain ⟨_, _, sz, hbz⟩ := subFieldRd_sound vk _ sf r h
          have hcons := subFieldRd_consumes vk x xs
          rw [h] at hcons
          simp only at hcons
          have hdrop : (x :: xs).drop ((x :: xs).length - r.length) = r := by
            have hl : (x :: xs).length - r.length = (encSubSz sz sf).length := by rw [hbz]; simp
            rw [hl, hbz]; simp
          rw [hdrop, readAll_eq vk fuel r (toSpec sf :: acc) (by simp only [List.length_cons] at hf; omega)
            (by simp only [List.length_cons] at hc; omega), tryParse_some vk hne h]
          simp

/-- **The grammar reader computes flag and `pre`.** -/
theorem parse_eq_tryParse (vk : Bytes → Bool) (e : Bytes) (hc : e.length ≤ CAP) :
    Spec.Extra.parse vk e = (!(tryParse vk e).err, (tryParse vk e).pre.map toSpec) := by
  unfold Spec.Extra.parse
  rw [readAll_eq vk e.length e [] (Nat.le_refl _) hc]
  simp

end Monero.Extra
