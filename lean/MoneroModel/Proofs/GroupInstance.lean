import Mathlib.Data.ZMod.Basic
import Mathlib.Tactic.NormNum
import MoneroModel.Proofs.Group
/-! A concrete lawful instance: the cyclic group Z/(8·l) (the abstract shape of the Ed25519 point group: order 8·l), base
point 8 (of order l), with a trivially injective encoding. It shows that the hypotheses `Lawful ops` are satisfiable and
carries the counterexample separating the pinned tree's derivation `(8·a mod l)•B` from Monero's `8•(a•B)`. -/
namespace Monero
/-- 8·l, the order of the Ed25519 point group -/
def zN : ℕ := 8 * Ed.l
instance : NeZero zN := ⟨by unfold zN Ed.l; norm_num⟩

def zmodOps : CryptoOps (ZMod zN) :=
  { add := (· + ·), sub := (· - ·), smul := fun k x => k • x, base := 8,
    enc := fun x => List.replicate x.val 0, dec := fun b => some (b.length : ZMod zN),
    keccak := fun _ => [], l := Ed.l }

theorem zmodOps_lawful : Lawful zmodOps where
  add_eq _ _ := rfl
  sub_eq _ _ := rfl
  smul_eq _ _ := rfl
  l_gt := by show 8 < Ed.l; unfold Ed.l; norm_num
  base_order := by
    show Ed.l • (8 : ZMod zN) = 0
    rw [nsmul_eq_mul]
    have : ((Ed.l : ℕ) : ZMod zN) * 8 = ((Ed.l * 8 : ℕ) : ZMod zN) := by push_cast; rfl
    rw [this, ZMod.natCast_eq_zero_iff]
    exact ⟨1, by unfold zN; omega⟩
  enc_inj := by
    intro x y h
    have := congrArg List.length h
    simp only [zmodOps, List.length_replicate] at this
    exact ZMod.val_injective _ this
  dec_enc := by
    intro x
    show some (((List.replicate x.val (0 : UInt8)).length : ℕ) : ZMod zN) = some x
    rw [List.length_replicate, ZMod.natCast_zmod_val]

/-- the element l of Z/(8l) has order exactly 8 -/
theorem zmod_torsion_point : 8 • ((Ed.l : ℕ) : ZMod zN) = 0 ∧ 4 • ((Ed.l : ℕ) : ZMod zN) ≠ 0 := by
  rw [nsmul_eq_mul, nsmul_eq_mul]
  constructor
  · have : ((8 : ℕ) : ZMod zN) * ((Ed.l : ℕ) : ZMod zN) = ((8 * Ed.l : ℕ) : ZMod zN) := by push_cast; rfl
    rw [this, ZMod.natCast_eq_zero_iff]; exact dvd_refl _
  · have : ((4 : ℕ) : ZMod zN) * ((Ed.l : ℕ) : ZMod zN) = ((4 * Ed.l : ℕ) : ZMod zN) := by push_cast; rfl
    rw [this]
    intro h
    rw [ZMod.natCast_eq_zero_iff] at h
    revert h
    unfold zN Ed.l; norm_num

/-- with B = l (order 8) and a = l − 1: (8a mod l)•B ≠ 8•(a•B) = 0 -/
theorem zmod_counter :
    ((8 * (Ed.l - 1)) % Ed.l) • ((Ed.l : ℕ) : ZMod zN) ≠ 8 • ((Ed.l - 1) • ((Ed.l : ℕ) : ZMod zN)) := by
  rw [← mul_smul, nsmul_eq_mul, nsmul_eq_mul, ← Nat.cast_mul, ← Nat.cast_mul]
  have h0 : (((8 * (Ed.l - 1) * Ed.l : ℕ)) : ZMod zN) = 0 := by
    rw [ZMod.natCast_eq_zero_iff]; exact ⟨Ed.l - 1, by unfold zN; exact Nat.mul_right_comm 8 (Ed.l - 1) Ed.l⟩
  rw [h0]
  intro h
  rw [ZMod.natCast_eq_zero_iff] at h
  revert h
  unfold zN Ed.l; norm_num
end Monero
