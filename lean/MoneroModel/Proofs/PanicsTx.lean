import MoneroModel.Proofs.PanicsProofs
import MoneroModel.Proofs.TxSound3
/-! Proofs for the transaction part of Model/Panics.lean: `1 + inputs` (usize) in `RctSigPrunable::consensus_decode` and
`&prefix.inputs[0]` in `Transaction::consensus_decode`. Core Lean only. -/
namespace Monero.Panics
open Monero

@[simp] theorem ofOption_some {α} (x : α) : Out.ofOption (some x) = .ok x := rfl
@[simp] theorem ofOption_none {α} : (Out.ofOption (none : Option α)) = .err := rfl
theorem ofOption_toOption {α} (o : Option α) : (Out.ofOption o).toOption = o := by cases o <;> rfl
theorem ofOption_isPanic {α} (o : Option α) : (Out.ofOption o).isPanic = false := by cases o <;> rfl

theorem sizedVec_over_cap {α} (sz : Nat) (d : Dec α) (n : Nat) (b : Bytes) (h : n * sz > CAP) : sizedVec sz d n b = none := by
  unfold sizedVec; rw [if_pos h]; rfl

/-- an MLSAG with more columns than the allocation cap admits is refused before anything is read -/
theorem mgDec_over_cap (cols mixin : Nat) (b : Bytes) (h : cols * sizes.key > CAP) : mgDec cols mixin b = none := by
  unfold mgDec
  simp only [rep, bind, sizedVec_over_cap _ _ _ _ h]

/-- for every `usize` value of `inputs`, section 2 is the total model's: below the maximum the saturating sum is the sum;
at `usize::MAX` both `usize::MAX` and `2^64` columns exceed the allocation cap and the decoder refuses -/
theorem sigsDecP_eq (ty inputs mixin : Nat) (b : Bytes) (h : inputs < 2 ^ 64) :
    sigsDecP ty inputs mixin b = .ofOption (sigsDec ty inputs mixin b) := by
  unfold sigsDecP
  by_cases h1 : ty = 5 ∨ ty = 6
  · rw [if_pos h1]
  · rw [if_neg h1]
    by_cases h2 : ty = 2 ∨ ty = 3 ∨ ty = 4
    · rw [if_pos h2]
    · rw [if_neg h2]
      unfold sigsDec
      rw [if_neg h1]
      simp only [h2, if_false]
      by_cases hs : inputs + 1 < 2 ^ 64
      · have : satAddU 64 inputs 1 = 1 + inputs := by unfold satAddU; omega
        rw [this]
      · have e : inputs = 2 ^ 64 - 1 := by omega
        have hk : 1 ≤ sizes.key := by decide
        have hc : CAP < 2 ^ 63 := by decide
        have c1 : satAddU 64 inputs 1 * sizes.key > CAP := by
          have : satAddU 64 inputs 1 = 2 ^ 64 - 1 := by unfold satAddU; omega
          rw [this]
          have := Nat.le_mul_of_pos_right (2 ^ 64 - 1) hk
          omega
        have c2 : (1 + inputs) * sizes.key > CAP := by
          have := Nat.le_mul_of_pos_right (1 + inputs) hk
          omega
        simp only [rep, bind, mgDec_over_cap _ _ _ c1, mgDec_over_cap _ _ _ c2]

theorem prunableP_eq (ty inputs outputs mixin : Nat) (b : Bytes) (h : inputs < 2 ^ 64) :
    prunableP ty inputs outputs mixin b = .ofOption (prunable ty inputs outputs mixin b) := by
  unfold prunableP prunable
  by_cases h0 : ty = 0
  · rw [if_pos h0, if_pos h0]; rfl
  · rw [if_neg h0, if_neg h0]
    simp only [bind]
    cases hp : proofsDec ty outputs b with
    | none => rfl
    | some v =>
      obtain ⟨⟨rs, bps, bpps⟩, r1⟩ := v
      simp only [ofOption_some, bind_ok]
      rw [sigsDecP_eq _ _ _ _ h]
      cases hs : sigsDec ty inputs mixin r1 with
      | none => rfl
      | some w =>
        obtain ⟨⟨ms, cs⟩, r2⟩ := w
        simp only [ofOption_some, bind_ok]
        cases hq : pseudoDec ty inputs r2 with
        | none => rfl
        | some u =>
          obtain ⟨po, r3⟩ := u
          rfl

/-- at `inputs = usize::MAX` (type Full, no outputs, empty reader: the call that overflowed before the fix) the decoder now
refuses: the saturated column count exceeds the allocation cap -/
theorem prunableP_at_max : (prunableP 1 (2 ^ 64 - 1) 0 0 []).isPanic = false ∧ (prunableP 1 (2 ^ 64 - 1) 0 0 []).toOption = none := by
  rw [prunableP_eq 1 (2 ^ 64 - 1) 0 0 [] (by omega)]
  have : prunable 1 (2 ^ 64 - 1) 0 0 [] = none := by decide
  rw [this]; exact ⟨rfl, rfl⟩

theorem mixin_guarded (ins : List TxIn) : (if ins.length > 0 then mixinAtP ins else .ok 0) = mixinP ins := by
  cases ins with
  | nil => rfl
  | cons i r =>
    unfold mixinP mixinAtP
    rw [if_pos (by simp), if_neg (by simp)]

/-- the input list of a decoded prefix passed the allocation cap -/
theorem prefix_inputs_cap (b : Bytes) (p : Prefix) (r : Bytes) (h : prefix' b = some (p, r)) :
    p.ins.length * sizes.txin ≤ CAP := by
  unfold prefix' at h
  obtain ⟨v, r1, _, h⟩ := bind_some h
  obtain ⟨u, r2, _, h⟩ := bind_some h
  obtain ⟨i, r3, hi, h⟩ := bind_some h
  obtain ⟨o, r4, _, h⟩ := bind_some h
  obtain ⟨e, r5, _, h⟩ := bind_some h
  obtain ⟨rfl, rfl⟩ := pure_some h
  show i.length * sizes.txin ≤ CAP
  unfold vec at hi
  obtain ⟨n, r1', _, h2⟩ := bind_some hi
  have hl := sizedVec_length sizes.txin txin n r1' i r3 h2
  unfold sizedVec at h2
  split at h2
  · exact (fail_some h2).elim
  · rw [hl]; omega

theorem txP_eq (b : Bytes) : txP b = .ofOption (tx b) := by
  unfold txP tx
  simp only [bind]
  cases hp : prefix' b with
  | none => rfl
  | some v =>
    obtain ⟨p, r0⟩ := v
    simp only [ofOption_some, bind_ok]
    by_cases hv : p.version = 1
    · rw [if_pos hv, if_pos hv]; rfl
    · rw [if_neg hv, if_neg hv]
      by_cases hi : p.ins.length = 0
      · rw [if_pos hi, if_pos hi]; rfl
      · rw [if_neg hi, if_neg hi]
        cases hb : base p.ins.length p.outs.length r0 with
        | none => simp only [Monero.bind, hb]; rfl
        | some w =>
          obtain ⟨bs, r1⟩ := w
          simp only [Monero.bind, hb, ofOption_some, bind_ok]
          by_cases ht : bs.ty ≠ 0
          · rw [if_pos ht, if_pos ht]
            have hcap := prefix_inputs_cap b p r0 hp
            have hk : 1 ≤ sizes.txin := by decide
            have hc : CAP + 2 ≤ 2 ^ 64 := by decide
            have hle : p.ins.length ≤ p.ins.length * sizes.txin := Nat.le_mul_of_pos_right _ hk
            have hin : 1 + p.ins.length < 2 ^ 64 := by omega
            rw [mixin_guarded, mixinP_eq]
            cases hh : p.ins.head? with
            | none =>
              simp only [bind_ok]
              rw [prunableP_eq _ _ _ _ _ (by omega)]
              cases hq : prunable bs.ty p.ins.length p.outs.length 0 r1 with
              | none => simp only [Monero.bind, hq]; rfl
              | some u => obtain ⟨pr, r2⟩ := u; simp only [Monero.bind, hq]; rfl
            | some i0 =>
              cases i0 with
              | gen g =>
                simp only [bind_ok]
                rw [prunableP_eq _ _ _ _ _ (by omega)]
                cases hq : prunable bs.ty p.ins.length p.outs.length 0 r1 with
                | none => simp only [Monero.bind, hq]; rfl
                | some u => obtain ⟨pr, r2⟩ := u; simp only [Monero.bind, hq]; rfl
              | toKey a o k =>
                simp only []
                by_cases ho : o.length = 0
                · rw [if_pos ho, if_pos ho]; rfl
                · rw [if_neg ho, if_neg ho, bind_ok]
                  rw [prunableP_eq _ _ _ _ _ (by omega)]
                  cases hq : prunable bs.ty p.ins.length p.outs.length (o.length - 1) r1 with
                  | none => simp only [Monero.bind, hq]; rfl
                  | some u => obtain ⟨pr, r2⟩ := u; simp only [Monero.bind, hq]; rfl
          · rw [if_neg ht, if_neg ht]; rfl

end Monero.Panics
