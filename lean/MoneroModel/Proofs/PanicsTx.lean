import MoneroModel.Proofs.PanicsProofs
import MoneroModel.Proofs.TxSound3
/-! Proofs for the transaction part of Model/Panics.lean: `1 + inputs` (usize) in `RctSigPrunable::consensus_decode` and
`&prefix.inputs[0]` in `Transaction::consensus_decode`. Core Lean only. -/
namespace Monero.Panics
open Monero

@[simp] theorem ofOption_some {α} (x : α) : Out.ofOption (some x) = .ok x := rfl
@[simp] theorem ofOption_none {α} : (Out.ofOption (none : Option α)) = .err := rfl
theorem ofOption_toOption {α} (o : Option α) : (Out.ofOption o).toOption = o := by cases o <;> rfl
theorem ofOption_isPanic {α} (o : Option α) : (Out.ofOption o).isPanic = false := by cases o <;> rfl

/-- under the precondition `1 + inputs` fits a `usize`, section 2 is the total model's -/
theorem sigsDecP_eq (ty inputs mixin : Nat) (b : Bytes) (h : 1 + inputs < 2 ^ 64) :
    sigsDecP ty inputs mixin b = .ofOption (sigsDec ty inputs mixin b) := by
  unfold sigsDecP
  by_cases h1 : ty = 5 ∨ ty = 6
  · rw [if_pos h1]
  · rw [if_neg h1]
    by_cases h2 : ty = 2 ∨ ty = 3 ∨ ty = 4
    · rw [if_pos h2]
    · rw [if_neg h2]
      have : addU 64 "RctSigPrunable::consensus_decode: 1 + inputs" 1 inputs = .ok (1 + inputs) := by
        unfold addU; rw [if_pos h]
      rw [this, bind_ok]
      unfold sigsDec
      rw [if_neg h1]
      simp only [h2, if_false]

theorem prunableP_eq (ty inputs outputs mixin : Nat) (b : Bytes) (h : 1 + inputs < 2 ^ 64) :
    prunableP ty inputs outputs mixin b = .ofOption (prunable ty inputs outputs mixin b) := by
  unfold prunableP prunable
  by_cases h0 : ty = 0
  · rw [if_pos h0, if_pos h0]; rfl
  · rw [if_neg h0, if_neg h0]
    simp only [bind]
    cases hp : proofsDec ty outputs b with
    | none => rfl
    | some v =>
      obtain ⟨⟨rs, bps, bpps⟩, r1⟩ := v
      simp only [ofOption_some, bind_ok]
      rw [sigsDecP_eq _ _ _ _ h]
      cases hs : sigsDec ty inputs mixin r1 with
      | none => rfl
      | some w =>
        obtain ⟨⟨ms, cs⟩, r2⟩ := w
        simp only [ofOption_some, bind_ok]
        cases hq : pseudoDec ty inputs r2 with
        | none => rfl
        | some u =>
          obtain ⟨po, r3⟩ := u
          rfl

/-- without the precondition the public decoder DOES reach the overflow: type Full, `inputs = usize::MAX`, no outputs,
empty reader (the zero-length range-signature vector is read first and succeeds) -/
theorem prunableP_panics_at_max : (prunableP 1 (2 ^ 64 - 1) 0 0 []).isPanic = true := by decide

theorem mixin_guarded (ins : List TxIn) : (if ins.length > 0 then mixinAtP ins else .ok 0) = mixinP ins := by
  cases ins with
  | nil => rfl
  | cons i r =>
    unfold mixinP mixinAtP
    rw [if_pos (by simp), if_neg (by simp)]

/-- the input list of a decoded prefix passed the allocation cap -/
theorem prefix_inputs_cap (b : Bytes) (p : Prefix) (r : Bytes) (h : prefix' b = some (p, r)) :
    p.ins.length * sizes.txin ≤ CAP := by
  unfold prefix' at h
  obtain ⟨v, r1, _, h⟩ := bind_some h
  obtain ⟨u, r2, _, h⟩ := bind_some h
  obtain ⟨i, r3, hi, h⟩ := bind_some h
  obtain ⟨o, r4, _, h⟩ := bind_some h
  obtain ⟨e, r5, _, h⟩ := bind_some h
  obtain ⟨rfl, rfl⟩ := pure_some h
  show i.length * sizes.txin ≤ CAP
  unfold vec at hi
  obtain ⟨n, r1', _, h2⟩ := bind_some hi
  have hl := sizedVec_length sizes.txin txin n r1' i r3 h2
  unfold sizedVec at h2
  split at h2
  · exact (fail_some h2).elim
  · rw [hl]; omega

theorem txP_eq (b : Bytes) : txP b = .ofOption (tx b) := by
  unfold txP tx
  simp only [bind]
  cases hp : prefix' b with
  | none => rfl
  | some v =>
    obtain ⟨p, r0⟩ := v
    simp only [ofOption_some, bind_ok]
    by_cases hv : p.version = 1
    · rw [if_pos hv, if_pos hv]; rfl
    · rw [if_neg hv, if_neg hv]
      by_cases hi : p.ins.length = 0
      · rw [if_pos hi, if_pos hi]; rfl
      · rw [if_neg hi, if_neg hi]
        cases hb : base p.ins.length p.outs.length r0 with
        | none => simp only [Monero.bind, hb]; rfl
        | some w =>
          obtain ⟨bs, r1⟩ := w
          simp only [Monero.bind, hb, ofOption_some, bind_ok]
          by_cases ht : bs.ty ≠ 0
          · rw [if_pos ht, if_pos ht]
            have hcap := prefix_inputs_cap b p r0 hp
            have hk : 1 ≤ sizes.txin := by decide
            have hc : CAP + 2 ≤ 2 ^ 64 := by decide
            have hle : p.ins.length ≤ p.ins.length * sizes.txin := Nat.le_mul_of_pos_right _ hk
            have hin : 1 + p.ins.length < 2 ^ 64 := by omega
            rw [mixin_guarded, mixinP_eq]
            cases hh : p.ins.head? with
            | none =>
              simp only [bind_ok]
              rw [prunableP_eq _ _ _ _ _ hin]
              cases hq : prunable bs.ty p.ins.length p.outs.length 0 r1 with
              | none => simp only [Monero.bind, hq]; rfl
              | some u => obtain ⟨pr, r2⟩ := u; simp only [Monero.bind, hq]; rfl
            | some i0 =>
              cases i0 with
              | gen g =>
                simp only [bind_ok]
                rw [prunableP_eq _ _ _ _ _ hin]
                cases hq : prunable bs.ty p.ins.length p.outs.length 0 r1 with
                | none => simp only [Monero.bind, hq]; rfl
                | some u => obtain ⟨pr, r2⟩ := u; simp only [Monero.bind, hq]; rfl
              | toKey a o k =>
                simp only []
                by_cases ho : o.length = 0
                · rw [if_pos ho, if_pos ho]; rfl
                · rw [if_neg ho, if_neg ho, bind_ok]
                  rw [prunableP_eq _ _ _ _ _ hin]
                  cases hq : prunable bs.ty p.ins.length p.outs.length (o.length - 1) r1 with
                  | none => simp only [Monero.bind, hq]; rfl
                  | some u => obtain ⟨pr, r2⟩ := u; simp only [Monero.bind, hq]; rfl
          · rw [if_neg ht, if_neg ht]; rfl

end Monero.Panics
