import MoneroModel.Proofs.PanicsProofs
import MoneroModel.Proofs.TxSound3
/-! Proofs for the transaction part of Model/Panics.lean: the MLSAG column count in `RctSigPrunable::consensus_decode`
(`inputs.saturating_add(1)` on a usize since the fix commit; it was `1 + inputs`) and `&prefix.inputs[0]` in
`Transaction::consensus_decode`. Core Lean only. -/
namespace Monero.Panics
open Monero

@[simp] theorem ofOption_some {α} (x : α) : Out.ofOption (some x) = .ok x := rfl
@[simp] theorem ofOption_none {α} : (Out.ofOption (none : Option α)) = .err := rfl
theorem ofOption_toOption {α} (o : Option α) : (Out.ofOption o).toOption = o := by cases o <;> rfl
theorem ofOption_isPanic {α} (o : Option α) : (Out.ofOption o).isPanic = false := by cases o <;> rfl

theorem sizedVec_over_cap {α} (sz : Nat) (d : Dec α) (n : Nat) (b : Bytes) (h : n * sz > CAP) : sizedVec sz d n b = none := by
  unfold sizedVec; rw [if_pos h]; rfl

/-- an MLSAG with more columns than the allocation cap admits is refused before anything is read -/
theorem mgDec_over_cap (cols mixin : Nat) (b : Bytes) (h : cols * sizes.key > CAP) : mgDec cols mixin b = none := by
  unfold mgDec
  simp only [rep, bind, sizedVec_over_cap _ _ _ _ h]

/-- the operator the translator reads from the CURRENT source. If the source goes back to `1 + inputs` (`mgColsPlain = true`) or
to another method, these two facts — and with them `C04_no_panic_prunable` / `C04_no_panic_tx` — stop being provable. -/
theorem mgCols_src : Gen.mgColsPlain = false ∧ Gen.mgColsOp = some .saturating_add := ⟨rfl, rfl⟩

theorem sat_u64 (n : Nat) : (TyU64.sat ((n : Int) + 1)).toNat = min (n + 1) (2 ^ 64 - 1) := by
  unfold IntTy.sat
  have hlo : TyU64.lo = 0 := rfl
  have hhi : TyU64.hi = 2 ^ 64 - 1 := rfl
  have h64 : (2 : Int) ^ 64 = 18446744073709551616 := by decide
  have n64 : (2 : Nat) ^ 64 = 18446744073709551616 := by decide
  by_cases h1 : (n : Int) + 1 < TyU64.lo
  · rw [hlo] at h1; omega
  · rw [if_neg h1]
    by_cases h2 : (n : Int) + 1 > TyU64.hi
    · rw [if_pos h2, hhi]; rw [hhi] at h2; omega
    · rw [if_neg h2]; rw [hhi] at h2; omega

/-- with the source's operator the column count never panics: it is the saturated sum -/
theorem mgColsWith_sat (inputs : Nat) : mgColsWith false (some .saturating_add) inputs = .ok (min (inputs + 1) (2 ^ 64 - 1)) := by
  unfold mgColsWith
  simp only [Bool.false_eq_true, if_false, StdOp.eval]
  rw [sat_u64]

/-- for EVERY value of `inputs`, section 2 is the total model's: below the maximum the saturating sum is the sum; from
`usize::MAX` on both the saturated count and the mathematical `1 + inputs` exceed the allocation cap and the decoder refuses -/
theorem sigsDecP_eq (ty inputs mixin : Nat) (b : Bytes) :
    sigsDecP ty inputs mixin b = .ofOption (sigsDec ty inputs mixin b) := by
  unfold sigsDecP sigsDecPW
  by_cases h1 : ty = 5 ∨ ty = 6
  · rw [if_pos h1]
  · rw [if_neg h1]
    by_cases h2 : ty = 2 ∨ ty = 3 ∨ ty = 4
    · rw [if_pos h2]
    · rw [if_neg h2]
      rw [mgCols_src.1, mgCols_src.2, mgColsWith_sat, bind_ok]
      unfold sigsDec
      rw [if_neg h1]
      simp only [h2, if_false]
      by_cases hs : inputs + 1 ≤ 2 ^ 64 - 1
      · have : min (inputs + 1) (2 ^ 64 - 1) = 1 + inputs := by omega
        rw [this]
      · have hk : 1 ≤ sizes.key := by decide
        have hc : CAP < 2 ^ 63 := by decide
        have c1 : min (inputs + 1) (2 ^ 64 - 1) * sizes.key > CAP := by
          have : min (inputs + 1) (2 ^ 64 - 1) = 2 ^ 64 - 1 := by omega
          rw [this]
          have := Nat.le_mul_of_pos_right (2 ^ 64 - 1) hk
          omega
        have c2 : (1 + inputs) * sizes.key > CAP := by
          have := Nat.le_mul_of_pos_right (1 + inputs) hk
          omega
        simp only [rep, bind, mgDec_over_cap _ _ _ c1, mgDec_over_cap _ _ _ c2]

theorem prunableP_eq (ty inputs outputs mixin : Nat) (b : Bytes) :
    prunableP ty inputs outputs mixin b = .ofOption (prunable ty inputs outputs mixin b) := by
  unfold prunableP prunablePW prunable
  by_cases h0 : ty = 0
  · rw [if_pos h0, if_pos h0]; rfl
  · rw [if_neg h0, if_neg h0]
    simp only [bind]
    cases hp : proofsDec ty outputs b with
    | none => rfl
    | some v =>
      obtain ⟨⟨rs, bps, bpps⟩, r1⟩ := v
      simp only [ofOption_some, bind_ok]
      have := sigsDecP_eq ty inputs mixin r1
      unfold sigsDecP at this
      rw [this]
      cases hs : sigsDec ty inputs mixin r1 with
      | none => rfl
      | some w =>
        obtain ⟨⟨ms, cs⟩, r2⟩ := w
        simp only [ofOption_some, bind_ok]
        cases hq : pseudoDec ty inputs r2 with
        | none => rfl
        | some u =>
          obtain ⟨po, r3⟩ := u
          rfl

/-- at `inputs = usize::MAX` (type Full, no outputs, empty reader: the call that overflowed before the fix) the decoder now
refuses: the saturated column count exceeds the allocation cap -/
theorem prunableP_at_max : (prunableP 1 (2 ^ 64 - 1) 0 0 []).isPanic = false ∧ (prunableP 1 (2 ^ 64 - 1) 0 0 []).toOption = none := by
  rw [prunableP_eq 1 (2 ^ 64 - 1) 0 0 []]
  have : prunable 1 (2 ^ 64 - 1) 0 0 [] = none := by decide
  rw [this]; exact ⟨rfl, rfl⟩

/-- the SAME decoder with the bare `1 + inputs` (what the source had before the fix commit) panics at that point: the site is
real, and it is the operator read from the source that keeps it unreachable -/
theorem prunablePW_plain_panics : (prunablePW true none 1 (2 ^ 64 - 1) 0 0 []).isPanic = true := by decide
/-- … and a wrapping sum would not panic but decode zero columns where the mathematical count is `2^64` (accepts what the total
model refuses) -/
theorem prunablePW_wrapping_differs :
    (prunablePW false (some .wrapping_add) 1 (2 ^ 64 - 1) 0 0 (List.replicate 32 0)).toOption.isSome = true ∧
    (prunable 1 (2 ^ 64 - 1) 0 0 (List.replicate 32 0)).isSome = false := by decide

theorem mixin_guarded (ins : List TxIn) : (if ins.length > 0 then mixinAtP ins else .ok 0) = mixinP ins := by
  cases ins with
  | nil => rfl
  | cons i r =>
    unfold mixinP mixinAtP
    rw [if_pos (by simp), if_neg (by simp)]

/-- the input list of a decoded prefix passed the allocation cap -/
theorem prefix_inputs_cap (b : Bytes) (p : Prefix) (r : Bytes) (h : prefix' b = some (p, r)) :
    p.ins.length * sizes.txin ≤ CAP := by
  unfold prefix' at h
  obtain ⟨v, r1, _, h⟩ := bind_some h
  obtain ⟨u, r2, _, h⟩ := bind_some h
  obtain ⟨i, r3, hi, h⟩ := bind_some h
  obtain ⟨o, r4, _, h⟩ := bind_some h
  obtain ⟨e, r5, _, h⟩ := bind_some h
  obtain ⟨rfl, rfl⟩ := pure_some h
  show i.length * sizes.txin ≤ CAP
  unfold vec at hi
  obtain ⟨n, r1', _, h2⟩ := bind_some hi
  have hl := sizedVec_length sizes.txin txin n r1' i r3 h2
  unfold sizedVec at h2
  split at h2
  · exact (fail_some h2).elim
  · rw [hl]; omega

theorem txP_eq (b : Bytes) : txP b = .ofOption (tx b) := by
  unfold txP tx
  simp only [bind]
  cases hp : prefix' b with
  | none => rfl
  | some v =>
    obtain ⟨p, r0⟩ := v
    simp only [ofOption_some, bind_ok]
    by_cases hv : p.version = 1
    · rw [if_pos hv, if_pos hv]; rfl
    · rw [if_neg hv, if_neg hv]
      by_cases hi : p.ins.length = 0
      · rw [if_pos hi, if_pos hi]; rfl
      · rw [if_neg hi, if_neg hi]
        cases hb : base p.ins.length p.outs.length r0 with
        | none => simp only [Monero.bind, hb]; rfl
        | some w =>
          obtain ⟨bs, r1⟩ := w
          simp only [Monero.bind, hb, ofOption_some, bind_ok]
          by_cases ht : bs.ty ≠ 0
          · rw [if_pos ht, if_pos ht]
            have hcap := prefix_inputs_cap b p r0 hp
            have hk : 1 ≤ sizes.txin := by decide
            have hc : CAP + 2 ≤ 2 ^ 64 := by decide
            have hle : p.ins.length ≤ p.ins.length * sizes.txin := Nat.le_mul_of_pos_right _ hk
            have hin : 1 + p.ins.length < 2 ^ 64 := by omega
            rw [mixin_guarded, mixinP_eq]
            cases hh : p.ins.head? with
            | none =>
              simp only [bind_ok]
              rw [prunableP_eq]
              cases hq : prunable bs.ty p.ins.length p.outs.length 0 r1 with
              | none => simp only [Monero.bind, hq]; rfl
              | some u => obtain ⟨pr, r2⟩ := u; simp only [Monero.bind, hq]; rfl
            | some i0 =>
              cases i0 with
              | gen g =>
                simp only [bind_ok]
                rw [prunableP_eq]
                cases hq : prunable bs.ty p.ins.length p.outs.length 0 r1 with
                | none => simp only [Monero.bind, hq]; rfl
                | some u => obtain ⟨pr, r2⟩ := u; simp only [Monero.bind, hq]; rfl
              | toKey a o k =>
                simp only []
                by_cases ho : o.length = 0
                · rw [if_pos ho, if_pos ho]; rfl
                · rw [if_neg ho, if_neg ho, bind_ok]
                  rw [prunableP_eq]
                  cases hq : prunable bs.ty p.ins.length p.outs.length (o.length - 1) r1 with
                  | none => simp only [Monero.bind, hq]; rfl
                  | some u => obtain ⟨pr, r2⟩ := u; simp only [Monero.bind, hq]; rfl
          · rw [if_neg ht, if_neg ht]; rfl

end Monero.Panics
