import MoneroModel.Proofs.Group
import MoneroModel.Proofs.ScanTable
/-! Per-output matching of the scan model against the Monero one-time-address relation, for every lawful `ops`. -/
namespace Monero.Scan
variable {P : Type} [AddCommGroup P]

/-- The one-time-address relation as the receiver `(v, S)` sees it: the target key of `out` is an accepted point `Pi`, `K` is
an accepted point `R`, the view tag (when the output carries one) is the one derived from `8·v·R` and position `i`, and
`Pi = Hs(8·v·R ‖ varint i)·G + S'(idx)`. -/
def Addressed (ops : CryptoOps P) (v : Nat) (S : P) (out : TxOut) (i : Nat) (K : Bytes) (idx : Nat × Nat) : Prop :=
  ∃ Pi R, asOneTimeKey ops out.target = some Pi ∧ ops.dec K = some R ∧
    checkViewTag ops out.target (derive ops v R) i = true ∧
    Pi = rvnScalar ops (derive ops v R) i • ops.base + subSpendPub ops v S idx.1 idx.2

/-- the candidate spend key computed by the receiver equals the destination spend key iff the output key was built from it -/
theorem candidate_iff {ops : CryptoOps P} (L : Lawful ops) (Pi S' : P) (h : Nat) :
    ops.enc (ops.sub Pi (pubOf ops h)) = ops.enc S' ↔ Pi = h • ops.base + S' := by
  rw [L.sub_eq, L.pubOf_eq]
  constructor
  · intro e; have := L.enc_inj e; rw [← this]; abel
  · intro e; rw [e]; congr 1; abel

variable {ops : CryptoOps P}

theorem checkKey_some (L : Lawful ops) (v : Nat) (S : P) (a b c d : Nat) (out : TxOut) (i : Nat) (K : Bytes)
    (r : Nat × (Nat × Nat) × Bytes) (h : checkKey ops (Checker.new ops v S a b c d) out i K = some r) :
    r.1 = i ∧ r.2.2 = K ∧ InRange a b c d r.2.1 ∧ Addressed ops v S out i K r.2.1 ∧
    ∀ idx', InRange a b c d idx' → subSpendPub ops v S idx'.1 idx'.2 = subSpendPub ops v S r.2.1.1 r.2.1.2 →
      idx' = r.2.1 ∨ LexLt idx' r.2.1 := by
  unfold checkKey at h
  cases hk : asOneTimeKey ops out.target with
  | none => rw [hk] at h; simp at h
  | some Pi =>
    rw [hk] at h; simp only at h
    cases hR : ops.dec K with
    | none => rw [hR] at h; simp at h
    | some R =>
      rw [hR] at h; simp only [new_v] at h
      cases ht : checkViewTag ops out.target (derive ops v R) i with
      | false => simp [ht] at h
      | true =>
        simp only [ht, Bool.not_true, Bool.false_eq_true, if_false] at h
        cases hg : (Checker.new ops v S a b c d).checkWithKeyGenerator ops (derive ops v R) i Pi with
        | none => rw [hg] at h; simp at h
        | some idx =>
          rw [hg] at h; simp only [Option.some.injEq] at h
          subst h
          unfold Checker.checkWithKeyGenerator at hg
          obtain ⟨hr, hkey, hmax⟩ := tblGet_new_some ops v S a b c d _ idx hg
          refine ⟨rfl, rfl, hr, ⟨Pi, R, hk, hR, ht, (candidate_iff L _ _ _).mp hkey⟩, ?_⟩
          intro idx' hr' he
          exact hmax idx' hr' (by rw [he, ← hkey])

theorem checkKey_of_addressed (L : Lawful ops) (v : Nat) (S : P) (a b c d : Nat) (out : TxOut) (i : Nat) (K : Bytes)
    (idx : Nat × Nat) (hr : InRange a b c d idx) (hA : Addressed ops v S out i K idx) :
    ∃ idx', checkKey ops (Checker.new ops v S a b c d) out i K = some (i, idx', K) ∧
      subSpendPub ops v S idx'.1 idx'.2 = subSpendPub ops v S idx.1 idx.2 := by
  obtain ⟨Pi, R, hk, hR, ht, he⟩ := hA
  have hkey := (candidate_iff L Pi (subSpendPub ops v S idx.1 idx.2) (rvnScalar ops (derive ops v R) i)).mpr he
  cases hg : tblGet (Checker.new ops v S a b c d).table (ops.enc (ops.sub Pi (pubOf ops (rvnScalar ops (derive ops v R) i)))) with
  | none => exact absurd hkey.symm (tblGet_new_none ops v S a b c d _ hg idx hr)
  | some idx' =>
    refine ⟨idx', ?_, ?_⟩
    · unfold checkKey
      rw [hk]; simp only
      rw [hR]; simp only [new_v, ht, Bool.not_true, Bool.false_eq_true, if_false]
      unfold Checker.checkWithKeyGenerator
      rw [hg]
    · have := (tblGet_new_some ops v S a b c d _ idx' hg).2.1
      rw [hkey] at this
      exact (L.enc_inj this).symm

theorem checkKey_none (L : Lawful ops) (v : Nat) (S : P) (a b c d : Nat) (out : TxOut) (i : Nat) (K : Bytes)
    (h : checkKey ops (Checker.new ops v S a b c d) out i K = none) :
    ∀ idx, InRange a b c d idx → ¬ Addressed ops v S out i K idx := by
  intro idx hr hA
  obtain ⟨idx', h', _⟩ := checkKey_of_addressed L v S a b c d out i K idx hr hA
  rw [h] at h'; cases h'

/-- some in-range index is addressed through key `K` -/
def AddressedVia (ops : CryptoOps P) (v : Nat) (S : P) (a b c d : Nat) (out : TxOut) (i : Nat) (K : Bytes) : Prop :=
  ∃ idx, InRange a b c d idx ∧ Addressed ops v S out i K idx

theorem matchOutput_some (L : Lawful ops) (v : Nat) (S : P) (a b c d : Nat) (out : TxOut) (i : Nat) (R : Bytes)
    (add? : Option Bytes) (r : Nat × (Nat × Nat) × Bytes)
    (h : matchOutput ops (Checker.new ops v S a b c d) out i R add? = some r) :
    r.1 = i ∧ InRange a b c d r.2.1 ∧ Addressed ops v S out i r.2.2 r.2.1 ∧
    (r.2.2 = R ∨ (add? = some r.2.2 ∧ ¬ AddressedVia ops v S a b c d out i R)) ∧
    ∀ idx', InRange a b c d idx' → subSpendPub ops v S idx'.1 idx'.2 = subSpendPub ops v S r.2.1.1 r.2.1.2 →
      idx' = r.2.1 ∨ LexLt idx' r.2.1 := by
  unfold matchOutput at h
  cases h1 : checkKey ops (Checker.new ops v S a b c d) out i R with
  | some r1 =>
    rw [h1] at h; simp only [Option.some.injEq] at h; subst h
    obtain ⟨e1, e2, hr, hA, hm⟩ := checkKey_some L v S a b c d out i R r1 h1
    exact ⟨e1, hr, by rw [e2]; exact hA, Or.inl e2, hm⟩
  | none =>
    rw [h1] at h; simp only at h
    cases add? with
    | none => simp at h
    | some ak =>
      simp only at h
      obtain ⟨e1, e2, hr, hA, hm⟩ := checkKey_some L v S a b c d out i ak r h
      refine ⟨e1, hr, by rw [e2]; exact hA, Or.inr ⟨by rw [e2], ?_⟩, hm⟩
      rintro ⟨idx, hr', hA'⟩
      exact checkKey_none L v S a b c d out i R h1 idx hr' hA'

theorem matchOutput_main (L : Lawful ops) (v : Nat) (S : P) (a b c d : Nat) (out : TxOut) (i : Nat) (R : Bytes)
    (add? : Option Bytes) (idx : Nat × Nat) (hr : InRange a b c d idx) (hA : Addressed ops v S out i R idx) :
    ∃ idx', matchOutput ops (Checker.new ops v S a b c d) out i R add? = some (i, idx', R) ∧
      subSpendPub ops v S idx'.1 idx'.2 = subSpendPub ops v S idx.1 idx.2 := by
  obtain ⟨idx', h1, h2⟩ := checkKey_of_addressed L v S a b c d out i R idx hr hA
  exact ⟨idx', by unfold matchOutput; rw [h1], h2⟩

theorem matchOutput_add (L : Lawful ops) (v : Nat) (S : P) (a b c d : Nat) (out : TxOut) (i : Nat) (R K : Bytes)
    (idx : Nat × Nat) (hr : InRange a b c d idx) (hA : Addressed ops v S out i K idx)
    (hno : ¬ AddressedVia ops v S a b c d out i R) :
    ∃ idx', matchOutput ops (Checker.new ops v S a b c d) out i R (some K) = some (i, idx', K) ∧
      subSpendPub ops v S idx'.1 idx'.2 = subSpendPub ops v S idx.1 idx.2 := by
  obtain ⟨idx', h1, h2⟩ := checkKey_of_addressed L v S a b c d out i K idx hr hA
  refine ⟨idx', ?_, h2⟩
  unfold matchOutput
  cases h0 : checkKey ops (Checker.new ops v S a b c d) out i R with
  | none => simp only; exact h1
  | some r0 =>
    exfalso
    obtain ⟨_, _, hr0, hA0, _⟩ := checkKey_some L v S a b c d out i R r0 h0
    exact hno ⟨_, hr0, hA0⟩

theorem matchOutput_none (L : Lawful ops) (v : Nat) (S : P) (a b c d : Nat) (out : TxOut) (i : Nat) (R : Bytes)
    (add? : Option Bytes) (h : matchOutput ops (Checker.new ops v S a b c d) out i R add? = none) :
    ¬ AddressedVia ops v S a b c d out i R ∧ ∀ K, add? = some K → ¬ AddressedVia ops v S a b c d out i K := by
  unfold matchOutput at h
  cases h1 : checkKey ops (Checker.new ops v S a b c d) out i R with
  | some r1 => rw [h1] at h; simp at h
  | none =>
    rw [h1] at h; simp only at h
    refine ⟨fun ⟨idx, hr, hA⟩ => checkKey_none L v S a b c d out i R h1 idx hr hA, ?_⟩
    intro K hK
    subst hK
    simp only at h
    exact fun ⟨idx, hr, hA⟩ => checkKey_none L v S a b c d out i K h idx hr hA

/-! ### sender and receiver compute the same derivation -/

/-- receiver's `8·(v·K)` for the published key `K = txKey r dest + T` (`T` of small order) = sender's `8·(r·V_dest)`, for
the address of the wallet `(v, S)` at index `(i,j)` -/
theorem derive_sender (L : Lawful ops) (v : Nat) (S : P) (i j r : Nat) (T : P) (hT : 8 • T = 0) :
    derive ops v (Spec.Sender.txKey (specPrims ops) r (Spec.Sender.destAt (specPrims ops) v S i j) + T)
      = Spec.Sender.derivation (specPrims ops) r (Spec.Sender.destAt (specPrims ops) v S i j).view := by
  rw [L.derive_eq, L.spec_derivation_eq, smul_add, smul_add, smul_comm 8 v T, hT, smul_zero, add_zero]
  unfold Spec.Sender.destAt Spec.Sender.txKey
  by_cases hz : i = 0 ∧ j = 0
  · simp only [hz, and_self, if_true, Spec.Sender.primaryDest]
    show 8 • v • ops.smul r ops.base = 8 • r • ops.smul v ops.base
    rw [L.smul_eq, L.smul_eq, smul_comm v r]
  · simp only [hz, if_false, Spec.Sender.subDest, if_true]
    rw [L.spec_subView_val]
    show 8 • v • ops.smul r _ = _
    rw [L.smul_eq, smul_comm v r]

/-- the destination spend key of the sender specification is the model's subaddress spend key -/
theorem destAt_spend (L : Lawful ops) (v : Nat) (S : P) (i j : Nat) :
    (Spec.Sender.destAt (specPrims ops) v S i j).spend = subSpendPub ops v S i j := by
  unfold Spec.Sender.destAt subSpendPub idxZero
  by_cases hz : i = 0 ∧ j = 0
  · obtain ⟨rfl, rfl⟩ := hz; simp [Spec.Sender.primaryDest]
  · have hb : (i == 0 && j == 0) = false := by
      cases hi : i == 0 <;> cases hj : j == 0 <;> simp_all
    simp only [hz, if_false, hb, Spec.Sender.subDest, Bool.false_eq_true]
    rw [L.spec_subSpend_val, L.add_eq, L.pubOf_eq, subScalar_eq]

/-- hence the shared scalar of output `n` is the same on both sides -/
theorem shared_scalar_sender (L : Lawful ops) (v : Nat) (S : P) (i j r n : Nat) (T : P) (hT : 8 • T = 0) :
    rvnScalar ops (derive ops v (Spec.Sender.txKey (specPrims ops) r (Spec.Sender.destAt (specPrims ops) v S i j) + T)) n
      = Spec.Sender.derivationScalar (specPrims ops)
          (Spec.Sender.derivation (specPrims ops) r (Spec.Sender.destAt (specPrims ops) v S i j).view) n := by
  rw [derive_sender L v S i j r T hT, rvnScalar_eq]
end Monero.Scan
