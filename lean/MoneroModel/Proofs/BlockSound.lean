import MoneroModel.Proofs.TxSound4
import MoneroModel.Model.Block
open Monero
/-! Soundness (C01) for the block-level decoders. -/

theorem sound_uintLE (k : Nat) : ∀ b n r, uintLE k b = some (n, r) → b = encUintLE k n ++ r ∧ n < 256 ^ k := by
  intro b n r h
  unfold uintLE at h
  obtain ⟨x, r1, h1, h2⟩ := bind_some h
  obtain ⟨rfl, rfl⟩ := pure_some h2
  have hb := sound_takeN k _ _ _ h1
  have hl := takeN_length k _ _ _ h1
  simp only [id] at hb
  subst hb
  have key : ∀ (x : Bytes), leBytes (x.foldr (fun x acc => x.toNat + 256 * acc) 0) x.length = x ∧
      x.foldr (fun x acc => x.toNat + 256 * acc) 0 < 256 ^ x.length := by
    intro x
    induction x with
    | nil => simp [leBytes]
    | cons a t ih =>
      obtain ⟨ih1, ih2⟩ := ih
      have ha := a.toNat_lt
      generalize hv : List.foldr (fun x acc => x.toNat + 256 * acc) 0 t = v at ih1 ih2
      constructor
      · simp only [List.foldr_cons, List.length_cons, hv]
        unfold leBytes at *
        rw [List.range_succ_eq_map, List.map_cons, List.map_map]
        congr 1
        · apply UInt8.toNat_inj.mp; simp
        · conv => rhs; rw [← ih1]
          apply List.map_congr_left
          intro i _
          simp only [Function.comp, Nat.pow_succ]
          congr 2
          rw [Nat.mul_comm (256 ^ i) 256, ← Nat.div_div_eq_div_mul]
          congr 1; omega
      · simp only [List.foldr_cons, List.length_cons, Nat.pow_succ, hv]; omega
  unfold encUintLE
  rw [← hl]
  exact ⟨by rw [(key x).1], (key x).2⟩

theorem sound_header : Sound encHeader header := by
  intro b x r h
  unfold header at h
  obtain ⟨ma, r1, h1, h⟩ := bind_some h
  obtain ⟨mi, r2, h2, h⟩ := bind_some h
  obtain ⟨ts, r3, h3, h⟩ := bind_some h
  obtain ⟨pv, r4, h4, h⟩ := bind_some h
  obtain ⟨n, r5, h5, h⟩ := bind_some h
  obtain ⟨rfl, rfl⟩ := pure_some h
  have e1 := sound_varint' _ _ _ h1
  have e2 := sound_varint' _ _ _ h2
  have e3 := sound_varint' _ _ _ h3
  have e4 := sound_key _ _ _ h4
  have e5 := (sound_uintLE 4 _ _ _ h5).1
  subst e1 e2 e3 e4 e5
  simp [encHeader]

theorem sound_block : Sound encBlock block := by
  intro b x r h
  unfold block at h
  obtain ⟨hd, r1, h1, h⟩ := bind_some h
  obtain ⟨t, r2, h2, h⟩ := bind_some h
  obtain ⟨hs, r3, h3, h⟩ := bind_some h
  obtain ⟨rfl, rfl⟩ := pure_some h
  have e1 := sound_header _ _ _ h1
  have e2 := sound_tx _ _ _ h2
  have e3 := sound_vec sizes.key id key sound_key _ _ _ h3
  subst e1 e2 e3
  simp [encBlock]
