import MoneroModel.Proofs.AmountText7
/-! `from_str_with_denomination` against `Spec.Decimal.specParseWithDenomination` for every string (core Lean only). -/
namespace Monero.AmtText
open Spec.Decimal (specParse pieces denomOfName specParseWithDenomination decimals)

/-- the generated `FromStr` table accepts exactly the specification's spellings, each for its denomination -/
theorem denomFromStr_iff (b : Bytes) (d : Denom) : denomFromStr b = .ok d ↔ denomOfName b = some d := by
  have hfwd : ∀ p ∈ Gen.denomFromStr, denomOfName p.1 = some p.2 := by decide
  have hbwd : ∀ d, ∀ n ∈ Spec.Decimal.spellings d, Gen.denomFromStr.lookup (Spec.Decimal.utf8 n) = some d := by
    intro d; cases d <;> decide
  unfold denomFromStr
  constructor
  · intro h
    cases hl : Gen.denomFromStr.lookup b with
    | none => rw [hl] at h; cases h
    | some d' =>
      rw [hl] at h
      simp only [Except.ok.injEq] at h
      subst h
      exact hfwd (b, d') (lookup_some_mem _ _ _ hl)
  · intro h
    unfold denomOfName at h
    have hm := List.find?_some h
    simp only [List.any_eq_true, beq_iff_eq] at hm
    obtain ⟨n, hn, he⟩ := hm
    rw [← he, hbwd d n hn]

theorem pieces_eq : ∀ (s : Bytes), pieces s = (match splitSpace s with | (a, none) => [a] | (a, some r) => a :: pieces r)
  | [] => rfl
  | c :: cs => by
    by_cases hc : c = 32
    · subst hc; simp [pieces, splitSpace]
    · have ih := pieces_eq cs
      simp only [pieces, splitSpace, hc, if_false]
      cases hsp : splitSpace cs with
      | mk a o =>
        rw [hsp] at ih
        cases o with
        | none => simp only at ih ⊢; rw [ih]
        | some r => simp only at ih ⊢; rw [ih]

theorem pieces_ne_nil (s : Bytes) : pieces s ≠ [] := by
  rw [pieces_eq]
  cases splitSpace s with
  | mk a o => cases o <;> simp

/-- `from_str_with_denomination` (= `FromStr`) returns exactly what the specification says, for every byte string -/
theorem fromStrWithDenomination_iff (signed : Bool) (s : Bytes) (r : Int) :
    fromStrWithDenomination signed s = .ok r ↔ specParseWithDenomination signed s = some r := by
  unfold fromStrWithDenomination specParseWithDenomination
  rw [pieces_eq s]
  cases h1 : splitSpace s with
  | mk amt o =>
    cases o with
    | none => simp
    | some r1 =>
      simp only
      rw [pieces_eq r1]
      cases h2 : splitSpace r1 with
      | mk den o2 =>
        cases o2 with
        | some r2 =>
          simp only
          cases hp : pieces r2 with
          | nil => exact absurd hp (pieces_ne_nil r2)
          | cons x t => simp
        | none =>
          simp only
          cases hd : denomFromStr den with
          | ok d =>
            rw [(denomFromStr_iff den d).mp hd]
            simp only
            exact fromStrIn_iff signed amt d (decimals d) (precisionOf_eq d) r
          | error e =>
            cases hd2 : denomOfName den with
            | none => simp
            | some d => rw [(denomFromStr_iff den d).mpr hd2] at hd; cases hd

end Monero.AmtText
