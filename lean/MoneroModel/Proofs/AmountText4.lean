import MoneroModel.Proofs.AmountText3
/-! What `Spec.Decimal.specParse` says in words (a declarative reading of the executable specification), and the
two `from_str_in` functions against it (core Lean only). -/
namespace Monero.AmtText
open Spec.Decimal (natOfDigits digitVal splitBody splitSign literal specParse maxAmount maxLen)

/-- declarative reading of the specification: `specParse signed md s = some r` iff `s` has at most 50 bytes, is an optional
`-` followed by a non-empty body `ip` or `ip . fp` of digits with `|fp| ≤ md`, the magnitude `N(ip fp) · 10^(md − |fp|)` is
at most `2^63 − 1`, and `r` is that magnitude, negated when the sign is present — which only the signed type allows -/
theorem specParse_some_iff (signed : Bool) (md : Nat) (s : Bytes) (r : Int) :
    specParse signed md s = some r ↔
      s.length ≤ 50 ∧ (splitSign s).2 ≠ [] ∧ ∃ ip fp, Lit (splitSign s).2 ip fp ∧ fp.length ≤ md ∧
        natOfDigits (ip ++ fp) * 10 ^ (md - fp.length) ≤ maxAmount ∧
        (((splitSign s).1 = false ∧ r = ((natOfDigits (ip ++ fp) * 10 ^ (md - fp.length) : Nat) : Int)) ∨
         ((splitSign s).1 = true ∧ signed = true ∧ r = -((natOfDigits (ip ++ fp) * 10 ^ (md - fp.length) : Nat) : Int))) := by
  unfold specParse literal maxLen
  cases hsp : splitSign s with
  | mk neg body =>
  simp only
  by_cases hlen : s.length > 50
  · simp only [hlen, if_true]
    constructor
    · intro h; cases h
    · intro h; omega
  simp only [hlen, if_false]
  by_cases hb : body = []
  · simp [hb]
  simp only [hb, if_false]
  cases hsb : splitBody body with
  | none =>
    simp only
    constructor
    · intro h; cases h
    · rintro ⟨_, _, ip, fp, hl, _⟩
      rw [(splitBody_iff _ _ _).mpr hl] at hsb; cases hsb
  | some p =>
    obtain ⟨ip, fp⟩ := p
    have hl := (splitBody_iff _ _ _).mp hsb
    simp only
    by_cases hf : fp.length > md
    · simp only [hf, if_true]
      constructor
      · intro h; cases h
      · rintro ⟨_, _, ip', fp', hl', h1, _⟩
        obtain ⟨rfl, rfl⟩ := Lit_unique hl hl'
        omega
    simp only [hf, if_false]
    by_cases hm : natOfDigits (ip ++ fp) * 10 ^ (md - fp.length) > maxAmount
    · simp only [hm, if_true]
      constructor
      · intro h; cases h
      · rintro ⟨_, _, ip', fp', hl', _, h2, _⟩
        obtain ⟨rfl, rfl⟩ := Lit_unique hl hl'
        omega
    simp only [hm, if_false]
    constructor
    · intro h
      refine ⟨by omega, hb, ip, fp, hl, by omega, by omega, ?_⟩
      cases neg with
      | false => simp at h; exact Or.inl ⟨rfl, h.symm⟩
      | true =>
        cases signed with
        | false => simp at h
        | true => simp at h; exact Or.inr ⟨rfl, rfl, h.symm⟩
    · rintro ⟨_, _, ip', fp', hl', _, _, h3⟩
      obtain ⟨rfl, rfl⟩ := Lit_unique hl hl'
      rcases h3 with ⟨h4, h5⟩ | ⟨h4, h5, h6⟩
      · subst h4; simp [h5]
      · subst h4; subst h5; simp [h6]

theorem I64MAX_le_U64MAX : I64MAX ≤ U64MAX := by decide
theorem maxAmount_eq : maxAmount = I64MAX := rfl

/-- `Amount::from_str_in` / `SignedAmount::from_str_in` return exactly what the specification says, for a denomination
whose generated precision is `-(md)` -/
theorem fromStrIn_iff (signed : Bool) (s : Bytes) (d : Denom) (md : Nat) (hp : precisionOf d = -(md : Int)) (r : Int) :
    fromStrIn signed s d = .ok r ↔ specParse signed md s = some r := by
  rw [specParse_some_iff, maxAmount_eq]
  constructor
  · intro h
    unfold fromStrIn at h
    cases signed with
    | true =>
      simp only [if_true] at h
      unfold signedFromStrIn at h
      cases hps : parseSignedToPiconero s d with
      | error e => rw [hps] at h; cases h
      | ok p =>
        obtain ⟨neg, q⟩ := p
        rw [hps] at h
        simp only at h
        obtain ⟨h1, h2, h3, ip, fp, hl, h4, h5, h6⟩ := (parseSigned_ok_iff s d md hp neg q).mp hps
        by_cases hq : q > I64MAX
        · simp [hq] at h
        · simp only [hq, if_false, Except.ok.injEq] at h
          refine ⟨h1, h2, ip, fp, hl, h4, by omega, ?_⟩
          rw [← h5, ← h3]
          cases neg with
          | false => simp at h; exact Or.inl ⟨rfl, h.symm⟩
          | true => simp at h; exact Or.inr ⟨rfl, rfl, h.symm⟩
    | false =>
      simp only [Bool.false_eq_true, if_false] at h
      unfold amountFromStrIn at h
      cases hps : parseSignedToPiconero s d with
      | error e => rw [hps] at h; cases h
      | ok p =>
        obtain ⟨neg, q⟩ := p
        rw [hps] at h
        simp only at h
        obtain ⟨h1, h2, h3, ip, fp, hl, h4, h5, h6⟩ := (parseSigned_ok_iff s d md hp neg q).mp hps
        cases neg with
        | true => simp [Except.map] at h
        | false =>
          by_cases hq : q > I64MAX
          · simp [hq, Except.map] at h
          · simp only [hq, if_false, Except.map, Bool.false_eq_true, Except.ok.injEq] at h
            refine ⟨h1, h2, ip, fp, hl, h4, by omega, Or.inl ⟨h3.symm, ?_⟩⟩
            rw [← h5]; exact h.symm
  · rintro ⟨h1, h2, ip, fp, hl, h4, h5, h6⟩
    have hps := (parseSigned_ok_iff s d md hp (splitSign s).1 (natOfDigits (ip ++ fp) * 10 ^ (md - fp.length))).mpr
      ⟨h1, h2, rfl, ip, fp, hl, h4, rfl, Nat.le_trans h5 I64MAX_le_U64MAX⟩
    have hq : ¬ (natOfDigits (ip ++ fp) * 10 ^ (md - fp.length) > I64MAX) := by omega
    unfold fromStrIn
    rcases h6 with ⟨h7, h8⟩ | ⟨h7, h8, h9⟩
    · rw [h7] at hps
      cases signed with
      | true => simp [signedFromStrIn, hps, hq, h8]
      | false => simp [amountFromStrIn, hps, hq, h8, Except.map]
    · rw [h7] at hps
      subst h8
      simp [signedFromStrIn, hps, hq, h9]

end Monero.AmtText
