import MoneroModel.Model.Address
import MoneroModel.Model.Keys
import MoneroModel.Spec.Address
import MoneroModel.Ref.Keccak
/-! Known-answer vectors for the address text form: address strings that exist outside this project, with their keys.
`integrated`: a vector of the library's own test-suite (src/util/address.rs `deserialize_integrated_address`, wallet
generated; keys and payment id are given there as bytes). `donation`: the Monero project's donation address; its public
view key (bytes 33..65 of the blob) is `v·G` for the published secret view key
`f359631075708155cc3d92a32b75a7d02a5dcf27756707b47a2b31b21c389501` (checked with dalek in the harness, c12.rs "known answer").
The blobs were obtained with an independent base58 decoder (python, outside the repository).
Decided by evaluation in the kernel, one Keccak-256 evaluation per vector: the by-the-book blob (`Spec.Address.blob`: hand
tag table, reference Keccak-256) is the decoded blob, the reference base58 of that blob is the published string, and both
keys pass the model of `PublicKey::from_slice`. Props/C12.lean derives the statements about `Display` / `FromStr`. -/
open Monero Monero.Address
namespace Monero.AddressKAT
def str (s : String) : List UInt8 := s.toUTF8.toList

def integratedAddr : Address := ⟨.Mainnet, .Integrated, [88, 118, 184, 183, 41, 150, 255, 151],
  [17, 81, 127, 230, 166, 35, 81, 36, 161, 94, 154, 206, 60, 98, 195, 62, 12, 11, 234, 133, 228, 196, 77, 3, 68, 188, 84, 78, 94, 109, 238, 44],
  [115, 212, 211, 204, 198, 30, 73, 70, 235, 52, 160, 200, 39, 215, 134, 239, 249, 129, 47, 156, 14, 116, 18, 191, 112, 207, 139, 208, 54, 59, 92, 115]⟩
def integratedBlob : Bytes := [19, 17, 81, 127, 230, 166, 35, 81, 36, 161, 94, 154, 206, 60, 98, 195, 62, 12, 11, 234, 133, 228, 196, 77, 3, 68, 188, 84, 78, 94, 109, 238, 44, 115, 212, 211, 204, 198, 30, 73, 70, 235, 52, 160, 200, 39, 215, 134, 239, 249, 129, 47, 156, 14, 116, 18, 191, 112, 207, 139, 208, 54, 59, 92, 115, 88, 118, 184, 183, 41, 150, 255, 151, 133, 45, 85, 110]
def integratedText : List UInt8 := str "4Byr22j9M2878Mtyb3fEPcBNwBZf5EXqn1Yi6VzR46618SFBrYysab2Cs1474CVDbsh94AJq7vuV3Z2DRq4zLcY3LHzo1Nbv3d8J6VhvCV"
set_option maxRecDepth 100000 in
theorem integrated_blob : Spec.Address.blob Keccak.keccak256 integratedAddr.net integratedAddr.kind integratedAddr.spend integratedAddr.view integratedAddr.pid = integratedBlob := by decide +kernel
set_option maxRecDepth 100000 in
theorem integrated_b58 : Base58.encode integratedBlob = integratedText := by decide +kernel
set_option maxRecDepth 100000 in
theorem integrated_keys : Keys.publicAccept integratedAddr.spend = true ∧ Keys.publicAccept integratedAddr.view = true := by decide +kernel
theorem integrated_wf : WF Keys.publicAccept integratedAddr := ⟨by decide, by decide, integrated_keys.1, integrated_keys.2, by decide⟩

def donationAddr : Address := ⟨.Mainnet, .Standard, [],
  [66, 241, 143, 198, 21, 134, 85, 64, 149, 176, 121, 155, 92, 75, 111, 0, 205, 235, 38, 169, 59, 32, 84, 13, 54, 105, 50, 198, 0, 22, 23, 183],
  [93, 179, 81, 9, 251, 186, 125, 95, 39, 95, 239, 75, 156, 73, 224, 204, 28, 132, 178, 25, 236, 111, 246, 82, 253, 165, 79, 137, 247, 246, 60, 136]⟩
def donationBlob : Bytes := [18, 66, 241, 143, 198, 21, 134, 85, 64, 149, 176, 121, 155, 92, 75, 111, 0, 205, 235, 38, 169, 59, 32, 84, 13, 54, 105, 50, 198, 0, 22, 23, 183, 93, 179, 81, 9, 251, 186, 125, 95, 39, 95, 239, 75, 156, 73, 224, 204, 28, 132, 178, 25, 236, 111, 246, 82, 253, 165, 79, 137, 247, 246, 60, 136, 126, 196, 167, 93]
def donationText : List UInt8 := str "44AFFq5kSiGBoZ4NMDwYtN18obc8AemS33DBLWs3H7otXft3XjrpDtQGv7SqSsaBYBb98uNbr2VBBEt7f2wfn3RVGQBEP3A"
set_option maxRecDepth 100000 in
theorem donation_blob : Spec.Address.blob Keccak.keccak256 donationAddr.net donationAddr.kind donationAddr.spend donationAddr.view donationAddr.pid = donationBlob := by decide +kernel
set_option maxRecDepth 100000 in
theorem donation_b58 : Base58.encode donationBlob = donationText := by decide +kernel
set_option maxRecDepth 100000 in
theorem donation_keys : Keys.publicAccept donationAddr.spend = true ∧ Keys.publicAccept donationAddr.view = true := by decide +kernel
theorem donation_wf : WF Keys.publicAccept donationAddr := ⟨by decide, by decide, donation_keys.1, donation_keys.2, by decide⟩
end Monero.AddressKAT
