import MoneroModel.Proofs.Address
/-! The by-the-book blob parser `Spec.Address.parse` accepts exactly the reference blobs of well-formed addresses. -/
open Monero
namespace Monero.Address
variable (H : Bytes → Bytes) (vk : Bytes → Bool)

theorem take_three (rest : Bytes) (m : Nat) :
    rest.take 32 ++ (rest.drop 32).take 32 ++ (rest.drop 64).take m = rest.take (64 + m) := by
  have e : 64 + m = 32 + (32 + m) := by omega
  rw [e, List.take_add, List.take_add, List.drop_drop, List.append_assoc]

/-- the by-the-book parser, characterised the same way as the model -/
theorem spec_parse_some (b : Bytes) (n : Net) (k : Kind) (s v p : Bytes)
    (h : Spec.Address.parse H vk b = some (n, k, s, v, p)) :
    WF vk ⟨n, k, p, s, v⟩ ∧ Spec.Address.blob H n k s v p = b := by
  unfold Spec.Address.parse at h
  cases b with
  | nil => simp at h
  | cons t rest =>
    simp only at h
    cases hu : Spec.untag t.toNat with
    | none => simp [hu] at h
    | some nk =>
      obtain ⟨n', k'⟩ := nk
      simp only [hu] at h
      have ht := untag_some _ _ _ hu
      by_cases hk : k' = .Integrated
      · simp [hk] at h
        obtain ⟨hl, ⟨hvs, hvv⟩, hc, rfl, rfl, rfl, rfl, rfl⟩ := h
        refine ⟨⟨by simp; omega, by simp; omega, hvs, hvv, by simp; omega⟩, ?_⟩
        unfold Spec.Address.blob
        simp only [hk] at ht
        rw [ht, UInt8.ofNat_toNat, take_three rest 8]
        show (t :: List.take 72 rest) ++ List.take 4 (H (t :: List.take 72 rest)) = t :: rest
        rw [hc]; simp
      · simp [hk] at h
        obtain ⟨hl, ⟨hvs, hvv⟩, hc, rfl, rfl, rfl, rfl, rfl⟩ := h
        refine ⟨⟨by simp; omega, by simp; omega, hvs, hvv, by simp [hk]⟩, ?_⟩
        unfold Spec.Address.blob
        have := take_three rest 0
        simp only [List.take_zero, List.append_nil, Nat.add_zero] at this
        rw [ht, UInt8.ofNat_toNat, List.append_nil, this]
        show (t :: List.take 64 rest) ++ List.take 4 (H (t :: List.take 64 rest)) = t :: rest
        rw [hc]; simp

theorem untag_tag (n : Net) (k : Kind) : Spec.untag (Spec.tag n k) = some (n, k) := by
  cases n <;> cases k <;> decide

/-- … and it accepts every reference blob of a well-formed address -/
theorem spec_parse_blob (n : Net) (k : Kind) (s v p : Bytes) (hw : WF vk ⟨n, k, p, s, v⟩)
    (hH : ∀ x, 4 ≤ (H x).length) :
    Spec.Address.parse H vk (Spec.Address.blob H n k s v p) = some (n, k, s, v, p) := by
  obtain ⟨hs, hv, hvs, hvv, hp⟩ := hw
  simp only at hs hv hvs hvv hp
  unfold Spec.Address.blob
  simp only [List.cons_append, List.append_assoc]
  generalize hc : (H (UInt8.ofNat (Spec.tag n k) :: (s ++ (v ++ p)))).take 4 = c
  have hcl : c.length = 4 := by
    rw [← hc, List.length_take]; have := hH (UInt8.ofNat (Spec.tag n k) :: (s ++ (v ++ p))); omega
  obtain ⟨e1, e2, e3, e4, e5, e6⟩ := blob_parts (UInt8.ofNat (Spec.tag n k)) s v p c hs hv
  have e1' : (s ++ (v ++ (p ++ c))).take 32 = s := by simpa using e1
  have e2' : ((s ++ (v ++ (p ++ c))).drop 32).take 32 = v := by simpa using e2
  have e3' : (s ++ (v ++ (p ++ c))).drop 64 = p ++ c := by simpa using e3
  have e6' : (s ++ (v ++ (p ++ c))).length = 64 + p.length + 4 := by
    simp only [List.length_cons] at e6; omega
  unfold Spec.Address.parse
  simp only [toNat_ofNat_tag, untag_tag]
  by_cases hk : k = .Integrated
  · subst hk
    simp only [if_true] at hp ⊢
    rw [hp] at e4 e5 e6'
    have e7 : (p ++ c).take 8 = p := by rw [← hp, List.take_left]
    have e4' : (s ++ (v ++ (p ++ c))).take 72 = s ++ (v ++ p) := by simpa using e4
    have e5' : (s ++ (v ++ (p ++ c))).drop 72 = c := by simpa using e5
    simp [e1', e2', e3', e4', e5', e6', e7, hvs, hvv, hc]
  · simp only [hk, if_false] at hp ⊢
    subst hp
    simp only [List.length_nil, Nat.add_zero, List.nil_append, List.append_nil] at *
    have e4' : (s ++ (v ++ c)).take 64 = s ++ v := by simpa using e4
    have e5' : (s ++ (v ++ c)).drop 64 = c := by simpa using e5
    have e6'' : s.length + (v.length + c.length) = 68 := by omega
    simp [e1', e2', e4', e5', e6'', hvs, hvv, hc]

end Monero.Address
