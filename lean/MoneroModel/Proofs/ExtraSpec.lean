import MoneroModel.Proofs.ExtraEqns
import MoneroModel.Proofs.VarIntImp
import MoneroModel.Spec.Extra
import MoneroModel.Drv.C16
import MoneroModel.Gen.Codec
open Monero Monero.Extra

/-! The model's encoder is the independent by-the-book layout (`Spec.Extra.layout` / `serialise`, through the driver's
`toSpec`); the merge-mining size byte never wraps; what happens above the allocation cap; the driver's Ed25519 key
validity test is satisfiable. Core Lean only. -/
namespace Monero.Extra

/-- a `u64` varint has at most 10 bytes (stated for every width) -/
theorem encVarint_len_le : ∀ (k n : Nat), n < 128^(k+1) → (encVarint n).length ≤ k+1
  | 0, n, h => by
    rw [encVarint]
    have hn : n < 128 := by simpa using h
    simp [hn]
  | k+1, n, h => by
    rw [encVarint]
    by_cases hn : n < 128
    · simp [hn]
    · rw [dif_neg hn, List.length_cons]
      have h' : n / 128 < 128^(k+1) := by
        rw [Nat.div_lt_iff_lt_mul (by decide)]
        rw [Nat.pow_succ] at h; exact h
      have := encVarint_len_le k (n/128) h'
      omega

theorem encVarint_len_u64 (n : Nat) (h : n < 2^64) : (encVarint n).length ≤ 10 :=
  encVarint_len_le 9 n (Nat.lt_trans h (by decide))

theorem encVarint_len_pos (n : Nat) : 1 ≤ (encVarint n).length := by
  rw [encVarint]; by_cases hn : n < 128 <;> simp [hn]

/-- the values of `SubField::MergeMining` a Rust program can hold: `VarInt(u64)` depth, 32-byte `Hash` -/
def MMOK : SubField → Prop
  | .mergeMining d h => d < 2^64 ∧ h.length = 32
  | _ => True

theorem MMOK_of_WF {vk : Bytes → Bool} {sf : SubField} (h : WFField vk sf) : MMOK sf := by
  cases sf <;> first | trivial | exact h

/-- the `u8` size byte `32 + len(varint depth)` does not wrap: it is the real size of what follows, 33..42 -/
theorem mm_size_byte (d : Nat) (hd : d < 2^64) :
    (UInt8.ofNat (32 + (encVarint d).length)).toNat = (encVarint d).length + 32 ∧
      33 ≤ (encVarint d).length + 32 ∧ (encVarint d).length + 32 ≤ 42 := by
  have h1 := encVarint_len_u64 d hd
  have h2 := encVarint_len_pos d
  refine ⟨?_, by omega, by omega⟩
  rw [UInt8.toNat_ofNat']
  omega

/-- **the model's sub-field encoder is the by-the-book layout** -/
theorem encSub_eq_layout (sf : SubField) (hm : MMOK sf) : encSub sf = Spec.Extra.layout (Drv.C16.toSpec sf) := by
  cases sf with
  | padding n => rfl
  | txPub k => rfl
  | nonce n => simp [encSub, Spec.Extra.layout, Drv.C16.toSpec, encVarint_eq_leb128]
  | addKeys ks => simp [encSub, Spec.Extra.layout, Drv.C16.toSpec, encVarint_eq_leb128]
  | minerGate d => simp [encSub, Spec.Extra.layout, Drv.C16.toSpec, encVarint_eq_leb128]
  | mergeMining d h =>
    obtain ⟨hd, hh⟩ := hm
    have h1 := encVarint_len_u64 d hd
    have hlen : (Spec.leb128 d ++ h).length = (encVarint d).length + 32 := by
      rw [List.length_append, hh, encVarint_eq_leb128]
    have hsz : Spec.leb128 ((encVarint d).length + 32) = [UInt8.ofNat (32 + (encVarint d).length)] := by
      rw [Spec.leb128, dif_pos (by omega), Nat.add_comm]
    simp only [encSub, Spec.Extra.layout, Drv.C16.toSpec]
    rw [hlen, hsz, encVarint_eq_leb128]
    rfl

theorem flat_eq_serialise (fs : List SubField) (hm : ∀ f ∈ fs, MMOK f) :
    flat fs = Spec.Extra.serialise (fs.map Drv.C16.toSpec) := by
  unfold flat Spec.Extra.serialise
  rw [List.map_map]
  congr 1
  apply List.map_congr_left
  intro f hf
  exact encSub_eq_layout f (hm f hf)

theorem WFSeq_all {vk : Bytes → Bool} : ∀ {fs : List SubField}, WFSeq vk fs → ∀ f ∈ fs, WFField vk f
  | [], _, f, hf => by cases hf
  | [g], h, f, hf => by
    have : f = g := by simpa using hf
    subst this; exact h
  | g :: g' :: rest, h, f, hf => by
    rcases List.mem_cons.mp hf with rfl | hm
    · exact h.1
    · exact WFSeq_all h.2.2 f hm

/-! ### above the allocation cap -/

/-- an `ExtraField` whose buffer is longer than the cap cannot be converted: the `unwrap` panics -/
theorem toRaw_over_cap (fs : List SubField) (h : CAP < (encFields fs).length) (hl : (encFields fs).length < 2^64) :
    toRaw fs = none := by
  unfold toRaw encExtra rawDecode vecU8Rd
  simp only
  rw [rbind_some (varintRd_complete _ hl _), if_pos (by simpa [sizes, Gen.sizes] using h)]
  rfl

/-- the capped `Vec<u8>` decoder accepts a length-prefixed byte string exactly when it is within the cap -/
theorem vec_u8_isSome_iff (e r : Bytes) (hl : e.length < 2^64) :
    (vec sizes.u8 u8 (encVarint e.length ++ e ++ r)).isSome = true ↔ e.length ≤ CAP := by
  constructor
  · intro h
    unfold vec at h
    rw [List.append_assoc, bind_eq (complete_varint e.length hl _)] at h
    unfold sizedVec at h
    by_cases hc : e.length * sizes.u8 > CAP
    · rw [if_pos hc] at h; simp [fail] at h
    · simpa [sizes, Gen.sizes] using hc
  · intro h
    have := complete_vec sizes.u8 (fun _ => True) (fun b => [b]) u8 complete_u8 e r (fun _ _ => trivial)
      (by simpa [sizes, Gen.sizes] using h) hl
    have hflat : encVec (fun b : UInt8 => [b]) e = encVarint e.length ++ e := by
      unfold encVec; rw [flatten_singletons]
    rw [hflat] at this
    rw [this]; rfl

/-- the enclosing prefix with extra bytes `e` (everything else well formed) decodes exactly when `e` is within the cap -/
theorem prefix_isSome_iff (p : Prefix) (e r : Bytes) (hp : wfPrefix p) (hl : e.length < 2^64) :
    (prefix' (encPrefix { p with extra := e } ++ r)).isSome = true ↔ e.length ≤ CAP := by
  obtain ⟨hv, hu, ⟨hi1, hi2, hi3⟩, ⟨ho1, ho2, ho3⟩, _⟩ := hp
  have hflat : encVec (fun b : UInt8 => [b]) e = encVarint e.length ++ e := by
    unfold encVec; rw [flatten_singletons]
  have key : prefix' (encPrefix { p with extra := e } ++ r) =
      bind (vec sizes.u8 u8) (fun e' => pure' ⟨p.version, p.unlock, p.ins, p.outs, e'⟩) (encVarint e.length ++ e ++ r) := by
    simp only [encPrefix, List.append_assoc, prefix']
    rw [bind_eq (complete_varint' p.version _ hv), bind_eq (complete_varint' p.unlock _ hu),
        bind_eq (complete_vec sizes.txin wfTxIn encTxIn txin complete_txin p.ins _ hi1 hi2 hi3),
        bind_eq (complete_vec sizes.txout wfTxOut encTxOut txout complete_txout p.outs _ ho1 ho2 ho3), hflat,
        List.append_assoc]
  rw [key, ← vec_u8_isSome_iff e r hl]
  unfold Monero.bind
  cases vec sizes.u8 u8 (encVarint e.length ++ e ++ r) with
  | none => simp
  | some x => simp [pure']

/-! ### the tag bytes of the model are those of the regenerated tables -/

def variantOf : SubField → SubFieldV
  | .padding _ => .Padding
  | .txPub _ => .TxPublicKey
  | .nonce _ => .Nonce
  | .mergeMining _ _ => .MergeMining
  | .addKeys _ => .AdditionalPublickKey
  | .minerGate _ => .MysteriousMinerGate

theorem encSub_tag (sf : SubField) :
    (encSub sf).head? = (Gen.subFieldEncode.lookup (variantOf sf)).map UInt8.ofNat := by
  cases sf <;> rfl

theorem subFieldRd_tag (vk : Bytes → Bool) (b : Bytes) (sf : SubField) (r : Bytes)
    (h : subFieldRd vk b = (some sf, r)) :
    ∃ t rest, b = t :: rest ∧ (t.toNat, variantOf sf) ∈ Gen.subFieldDecode := by
  obtain ⟨_, _, sz, hb⟩ := subFieldRd_sound vk b sf r h
  cases sf <;> exact ⟨_, _, by rw [hb]; rfl, by simp only [variantOf]; decide⟩

theorem subFieldRd_unknown_tag (vk : Bytes → Bool) (t : UInt8) (xs : Bytes)
    (h : ∀ v, (t.toNat, v) ∉ Gen.subFieldDecode) : subFieldRd vk (t :: xs) = (none, xs) := by
  have ne : ∀ (c : UInt8) (v : SubFieldV), (c.toNat, v) ∈ Gen.subFieldDecode → t ≠ c := by
    intro c v hm ht; subst ht; exact h v hm
  rw [subFieldRd_cons]
  unfold afterTag
  rw [if_neg (ne 0x00 .Padding (by decide)), if_neg (ne 0x01 .TxPublicKey (by decide)),
    if_neg (ne 0x02 .Nonce (by decide)), if_neg (ne 0x03 .MergeMining (by decide)),
    if_neg (ne 0x04 .AdditionalPublickKey (by decide)), if_neg (ne 0xde .MysteriousMinerGate (by decide))]
  rfl

/-! ### the driver's key validity -/

/-- the Ed25519 base point `(x, 4/5)`, compressed -/
def basePointBytes : Bytes := 0x58 :: List.replicate 31 0x66

set_option maxRecDepth 100000 in
theorem edValid_basePoint : Drv.C16.edValid basePointBytes = true := by decide +kernel

end Monero.Extra
