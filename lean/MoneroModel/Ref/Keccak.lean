/-! Reference Keccak-256 (original Keccak padding 0x01…0x80, rate 136, capacity 512, 24 rounds of Keccak-f[1600]).
Written from the Keccak specification; independent of /repo and of tiny-keccak. Executable; total. -/
namespace Keccak

def rc : Array UInt64 := #[
  0x0000000000000001, 0x0000000000008082, 0x800000000000808A, 0x8000000080008000,
  0x000000000000808B, 0x0000000080000001, 0x8000000080008081, 0x8000000000008009,
  0x000000000000008A, 0x0000000000000088, 0x0000000080008009, 0x000000008000000A,
  0x000000008000808B, 0x800000000000008B, 0x8000000000008089, 0x8000000000008003,
  0x8000000000008002, 0x8000000000000080, 0x000000000000800A, 0x800000008000000A,
  0x8000000080008081, 0x8000000000008080, 0x0000000080000001, 0x8000000080008008]

def rotc : Array Nat := #[1, 3, 6, 10, 15, 21, 28, 36, 45, 55, 2, 14, 27, 41, 56, 8, 25, 43, 62, 18, 39, 61, 20, 44]
def piln : Array Nat := #[10, 7, 11, 17, 18, 3, 5, 16, 8, 21, 24, 4, 15, 23, 19, 13, 12, 2, 20, 14, 22, 9, 6, 1]

@[inline] def rotl (x : UInt64) (n : Nat) : UInt64 :=
  (x <<< (UInt64.ofNat n)) ||| (x >>> (UInt64.ofNat (64 - n)))

def round (st : Array UInt64) (r : Nat) : Array UInt64 := Id.run do
  let mut st := st
  -- theta
  let mut bc : Array UInt64 := Array.replicate 5 0
  for i in [0:5] do
    bc := bc.set! i (st[i]! ^^^ st[i+5]! ^^^ st[i+10]! ^^^ st[i+15]! ^^^ st[i+20]!)
  for i in [0:5] do
    let t := bc[(i+4)%5]! ^^^ rotl bc[(i+1)%5]! 1
    for j in [0:5] do
      st := st.set! (j*5+i) (st[j*5+i]! ^^^ t)
  -- rho pi
  let mut t := st[1]!
  for i in [0:24] do
    let j := piln[i]!
    let b := st[j]!
    st := st.set! j (rotl t rotc[i]!)
    t := b
  -- chi
  for j in [0:5] do
    let a0 := st[j*5]!; let a1 := st[j*5+1]!; let a2 := st[j*5+2]!; let a3 := st[j*5+3]!; let a4 := st[j*5+4]!
    st := st.set! (j*5) (a0 ^^^ ((~~~a1) &&& a2))
    st := st.set! (j*5+1) (a1 ^^^ ((~~~a2) &&& a3))
    st := st.set! (j*5+2) (a2 ^^^ ((~~~a3) &&& a4))
    st := st.set! (j*5+3) (a3 ^^^ ((~~~a4) &&& a0))
    st := st.set! (j*5+4) (a4 ^^^ ((~~~a0) &&& a1))
  st := st.set! 0 (st[0]! ^^^ rc[r]!)
  return st

def f1600 (st : Array UInt64) : Array UInt64 := Id.run do
  let mut st := st
  for r in [0:24] do
    st := round st r
  return st

def xorBlock (st : Array UInt64) (blk : List UInt8) : Array UInt64 := Id.run do
  let mut st := st
  let mut i := 0
  for b in blk do
    let lane := i / 8
    let sh := (i % 8) * 8
    st := st.set! lane (st[lane]! ^^^ ((UInt64.ofNat b.toNat) <<< (UInt64.ofNat sh)))
    i := i + 1
  return st

def rate : Nat := 136

def pad (msg : List UInt8) : List UInt8 :=
  let r := msg.length % rate
  let padlen := rate - r
  if padlen == 1 then msg ++ [0x81]
  else msg ++ [0x01] ++ List.replicate (padlen - 2) 0 ++ [0x80]

def absorb (st : Array UInt64) (m : List UInt8) : Array UInt64 :=
  if h : m = [] then st else
  absorb (f1600 (xorBlock st (m.take rate))) (m.drop rate)
termination_by m.length
decreasing_by
  have : 0 < m.length := List.length_pos_iff.mpr h
  simp [rate]; omega

def keccak256 (msg : List UInt8) : List UInt8 :=
  let st := absorb (Array.replicate 25 0) (pad msg)
  (List.range 32).map fun i => UInt8.ofNat ((st[i/8]! >>> (UInt64.ofNat ((i%8)*8))).toNat % 256)

end Keccak
