/-! Reference Monero base58 (cryptonote `tools::base58`, src/common/base58.cpp), written from the algorithm and
independent of /repo and of the `base58-monero` crate. Executable, total, core Lean only.

The input is cut into blocks of 8 bytes (the last one may be shorter). A block of `k` bytes is read as a big-endian
number and written with a *fixed* number `encSize k` of base-58 digits, most significant first, over the alphabet
`123456789ABCDEFGHJKLMNPQRSTUVWXYZabcdefghijkmnopqrstuvwxyz` (no `0 O I l`). Decoding cuts the text into blocks of 11
characters (the last one may be shorter), rejects a last block whose length is not one of the sizes, rejects
characters outside the alphabet, and rejects a block whose value does not fit into its `k` bytes (overflow). -/
namespace Base58
abbrev Bytes := List UInt8

/-- `123456789ABCDEFGHJKLMNPQRSTUVWXYZabcdefghijkmnopqrstuvwxyz` as ASCII codes -/
def alphabet : List UInt8 :=
  [49, 50, 51, 52, 53, 54, 55, 56, 57,                          -- 1..9
   65, 66, 67, 68, 69, 70, 71, 72,                              -- A..H
   74, 75, 76, 77, 78,                                          -- J..N
   80, 81, 82, 83, 84, 85, 86, 87, 88, 89, 90,                  -- P..Z
   97, 98, 99, 100, 101, 102, 103, 104, 105, 106, 107,          -- a..k
   109, 110, 111, 112, 113, 114, 115, 116, 117, 118, 119, 120, 121, 122]  -- m..z

/-- number of characters that encode a block of `k` bytes (`encoded_block_sizes`) -/
def encSize : Nat → Nat
  | 0 => 0 | 1 => 2 | 2 => 3 | 3 => 5 | 4 => 6 | 5 => 7 | 6 => 9 | 7 => 10 | 8 => 11 | _ => 0
/-- number of bytes encoded by a block of `s` characters, if `s` is a legal block length -/
def decSize : Nat → Option Nat
  | 0 => some 0 | 2 => some 1 | 3 => some 2 | 5 => some 3 | 6 => some 4 | 7 => some 5 | 9 => some 6 | 10 => some 7
  | 11 => some 8 | _ => none

/-- `k` digits of `n` in base `B`, least significant first -/
def toLE (B : Nat) : Nat → Nat → List Nat
  | 0, _ => []
  | k + 1, n => n % B :: toLE B k (n / B)
/-- value of a least-significant-first digit string -/
def ofLE (B : Nat) : List Nat → Nat
  | [] => 0
  | d :: ds => d + B * ofLE B ds
/-- `k` digits of `n` in base `B`, most significant first -/
def toDigits (B k n : Nat) : List Nat := (toLE B k n).reverse
/-- value of a most-significant-first digit string -/
def ofDigits (B : Nat) (ds : List Nat) : Nat := ofLE B ds.reverse

/-- the character of a digit -/
def charOf (d : Nat) : UInt8 := alphabet.getD d 0
/-- position of `c` in `l`, counted from `i` -/
def indexFrom (c : UInt8) : List UInt8 → Nat → Option Nat
  | [], _ => none
  | x :: xs, i => if x = c then some i else indexFrom c xs (i + 1)
/-- the digit of a character, if it belongs to the alphabet -/
def digitOf (c : UInt8) : Option Nat := indexFrom c alphabet 0
/-- the digits of a text; `none` if some character is not in the alphabet -/
def digitsOf : List UInt8 → Option (List Nat)
  | [] => some []
  | c :: cs => match digitOf c, digitsOf cs with | some d, some ds => some (d :: ds) | _, _ => none

/-- one block: at most 8 bytes ↦ `encSize` characters -/
def encodeBlock (data : Bytes) : List UInt8 :=
  (toDigits 58 (encSize data.length) (ofDigits 256 (data.map (·.toNat)))).map charOf

/-- one block of text ↦ its bytes; rejects illegal lengths, foreign characters and overflowing values -/
def decodeBlock (cs : List UInt8) : Option Bytes :=
  match decSize cs.length with
  | none => none
  | some k =>
    match digitsOf cs with
    | none => none
    | some ds =>
      let n := ofDigits 58 ds
      if n < 256 ^ k then some ((toDigits 256 k n).map UInt8.ofNat) else none

/-- bytes ↦ text -/
def encode (data : Bytes) : List UInt8 :=
  if data.length ≤ 8 then encodeBlock data
  else encodeBlock (data.take 8) ++ encode (data.drop 8)
termination_by data.length
decreasing_by simp only [List.length_drop]; omega

/-- both parts decoded ↦ their concatenation -/
def join : Option Bytes → Option Bytes → Option Bytes
  | some b, some r => some (b ++ r)
  | _, _ => none

/-- text ↦ bytes -/
def decode (s : List UInt8) : Option Bytes :=
  if s.length ≤ 11 then decodeBlock s
  else join (decodeBlock (s.take 11)) (decode (s.drop 11))
termination_by s.length
decreasing_by simp only [List.length_drop]; omega

end Base58
