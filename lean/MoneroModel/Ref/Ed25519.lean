/-! Reference Ed25519 arithmetic (twisted Edwards curve −x² + y² = 1 + d·x²·y² over GF(2^255 − 19), extended
coordinates, complete addition law), point compression / decompression by RFC 8032 §5.1.3, scalar field order `l`.
Written from the RFC; independent of /repo and of curve25519-dalek. Executable, total, core Lean only. -/
namespace Ed
def p : Nat := 2^255 - 19
def l : Nat := 2^252 + 27742317777372353535851937790883648493
def d : Nat := 37095705934669439343138083508754565189542113879843219016388785533085940283555
def sqrtm1 : Nat := 19681161376707505956807079304988542015446066515923890162744021073123829784752

/-- square-and-multiply, least significant bit first; `fuel` bounds the number of bits (e < 2^fuel) -/
def powmodAux (m : Nat) : Nat → Nat → Nat → Nat → Nat
  | 0, r, _, _ => r
  | fuel + 1, r, b, e => if e = 0 then r else powmodAux m fuel (if e % 2 = 1 then r * b % m else r) (b * b % m) (e / 2)
def powmod (b e m : Nat) : Nat := powmodAux m 260 (1 % m) (b % m) e
def inv (x : Nat) : Nat := powmod x (p - 2) p

structure Pt where (x y z t : Nat) deriving Repr, DecidableEq

def zero : Pt := ⟨0, 1, 1, 0⟩
instance : Inhabited Pt := ⟨zero⟩
/-- complete unified addition (add-2008-hwcd-3), valid for all pairs of curve points including doublings -/
def add (a b : Pt) : Pt :=
  let A := (a.y + p - a.x) * (b.y + p - b.x) % p
  let B := (a.y + a.x) * (b.y + b.x) % p
  let C := a.t * 2 * d % p * b.t % p
  let D := a.z * 2 * b.z % p
  let E := (B + p - A) % p
  let F := (D + p - C) % p
  let G := (D + C) % p
  let H := (B + A) % p
  ⟨E * F % p, G * H % p, F * G % p, E * H % p⟩
def neg (a : Pt) : Pt := ⟨(p - a.x % p) % p, a.y, a.z, (p - a.t % p) % p⟩
def sub (a b : Pt) : Pt := add a (neg b)
/-- double-and-add on the integer `k` (any point, including points with a small-order component) -/
def smulAux : Nat → Pt → Pt → Nat → Pt
  | 0, r, _, _ => r
  | fuel + 1, r, q, k => if k = 0 then r else smulAux fuel (if k % 2 = 1 then add r q else r) (add q q) (k / 2)
def smul (k : Nat) (P : Pt) : Pt := smulAux 260 zero P k
def mul8 (P : Pt) : Pt := let a := add P P; let b := add a a; add b b
/-- projective equality -/
def eqPt (a b : Pt) : Bool := (a.x * b.z + p * p - b.x * a.z) % p == 0 && (a.y * b.z + p * p - b.y * a.z) % p == 0

/-- encoding as an integer < 2^256: y with the parity of x in bit 255 -/
def compress (P : Pt) : Nat :=
  let zi := inv P.z
  let x := P.x * zi % p
  let y := P.y * zi % p
  y + (x % 2) * 2^255
/-- RFC 8032 decoding of the 256-bit integer `k`: rejects y ≥ p, non-squares, and x = 0 with the sign bit set -/
def decompress (k : Nat) : Option Pt :=
  let y := k % 2^255
  let sign := k / 2^255
  if y ≥ p then none else
  let u := (y * y + p - 1) % p
  let v := (d * y % p * y + 1) % p
  let x2 := u * inv v % p
  let x := powmod x2 ((p + 3) / 8) p
  let x := if (x * x + p - x2) % p != 0 then x * sqrtm1 % p else x
  if (x * x + p - x2) % p != 0 then none else
  if x == 0 && sign == 1 then none else
  let x := if x % 2 != sign then p - x else x
  some ⟨x, y, 1, x * y % p⟩
def Gy : Nat := 46316835694926478169428394003475163141307993866256225615783033603165251855960
def G : Pt := (decompress Gy).getD zero

def leNat (b : List UInt8) : Nat := b.foldr (fun x acc => x.toNat + 256 * acc) 0
def toBytesLE (n : Nat) (len : Nat) : List UInt8 := (List.range len).map fun i => UInt8.ofNat ((n / 256^i) % 256)
/-- point from its 32-byte encoding / back -/
def decodePt (b : List UInt8) : Option Pt := if b.length = 32 then decompress (leNat b) else none
def encodePt (P : Pt) : List UInt8 := toBytesLE (compress P) 32
end Ed
