/-! Byte strings and the decoder monad shared by every model file. Core Lean only (no imports). -/
namespace Monero
abbrev Bytes := List UInt8
abbrev Dec (α : Type) := Bytes → Option (α × Bytes)

@[inline] def bind {α β} (d : Dec α) (f : α → Dec β) : Dec β := fun b =>
  match d b with | none => none | some (x, r) => f x r
@[inline] def pure' {α} (x : α) : Dec α := fun b => some (x, b)
def fail {α} : Dec α := fun _ => none

def u8 : Dec UInt8 | [] => none | b :: r => some (b, r)
def takeN (n : Nat) : Dec Bytes := fun b => if b.length < n then none else some (b.take n, b.drop n)

end Monero
