import MoneroModel.Model.Keys
import MoneroModel.Proofs.KeysBasic
import MoneroModel.Proofs.KeysSound
import MoneroModel.Proofs.KeysComplete
import MoneroModel.Proofs.KeysRef
import MoneroModel.Proofs.EdwardsLawful
import MoneroModel.Model.KeyOps
import MoneroModel.Proofs.KeyOps
/-! C13 — "Keys are accepted exactly when canonical, and key arithmetic is the group law".
Proved here, about the model `Monero.Keys` (which mirrors `PrivateKey::from_slice` / `PublicKey::from_slice` including dalek's
permissive `decompress` followed by the recompress-and-compare of key.rs): the acceptance conditions and the byte / text /
consensus round trips. The "is the group law" half of the property: the POINT operators delegate to curve25519-dalek (a
dependency), whose results are compared on every run with `Ref.Ed25519` (Drv/C13 + harness/src/c13.rs). The model of the point
operators (`Model/KeyOps.lean`) has its own operand path (permissive `point()` of the stored bytes, panic) and its own `+` / `−`
(dalek's Niels-form addition transcribed: `dalekAdd`, `dalekSub`, proved equal to `Ed.add` / `Ed.sub`); for scalar multiplication,
`from_private_key` and the final compression it calls the same `Ed.smul/Ed.encodePt` as the reference, so for those the
comparison is library-vs-reference only. That this reference IS
the group law of the curve is proved (last section: `C13_curve_points_form_a_group` pins the operations of `EdPoint` to the
Edwards addition law, `C13_group_law` ties the executable reference to them). The SCALAR operators are modelled after dalek's
`Scalar52` (conditional subtraction, Montgomery multiplication) and proved to be arithmetic modulo `l` on accepted keys. -/
namespace C13
open Monero hiding leNat toBytesLE
open Monero.Keys Ed

/-- a secret key is accepted exactly when it is 32 bytes whose little-endian value is below the group order -/
theorem C13_secret_iff (b : Bytes) : secretAccept b = true ↔ b.length = 32 ∧ leNat b < Ed.l := secretAccept_iff b

/-- an accepted public key is 32 bytes; its y (low 255 bits) is canonical (`y < p`); and there is an `x < p` with
`y² ≡ 1 + x² + d·x²·y² (mod p)` — i.e. `−x² + y² = 1 + d·x²·y²`, the point is on the curve — whose parity is the encoded sign
bit; in particular the encoding is not a "negative zero" (x = 0 with the sign bit set). No primality assumption. -/
theorem C13_public_sound (b : Bytes) (h : publicAccept b = true) :
    b.length = 32 ∧ leNat b % 2 ^ 255 < Ed.p ∧
    ∃ x, x < Ed.p ∧
      ((leNat b % 2 ^ 255) * (leNat b % 2 ^ 255)) % Ed.p
        = (1 + x * x + Ed.d * (x * x) * ((leNat b % 2 ^ 255) * (leNat b % 2 ^ 255))) % Ed.p ∧
      x % 2 = leNat b / 2 ^ 255 ∧ ¬ (x = 0 ∧ leNat b / 2 ^ 255 = 1) := publicAccept_sound b h

/-- (⇐) every canonical encoding of a curve point is accepted: 32 bytes, y < p, some x < p with (x, y) on the curve and the
sign bit equal to the parity of x (which excludes negative zero). Uses primality of p (Pratt certificate, `Proofs/Primes.lean`),
Fermat's little theorem, the p ≡ 5 (mod 8) square-root argument and the non-residuosity of d (`Proofs/KeysComplete.lean`). -/
theorem C13_public_complete (b : Bytes) (hlen : b.length = 32) (x : Nat) (hx : x < Ed.p)
    (hy : leNat b % 2 ^ 255 < Ed.p)
    (hcurve : ((leNat b % 2 ^ 255) * (leNat b % 2 ^ 255)) % Ed.p
        = (1 + x * x + Ed.d * (x * x) * ((leNat b % 2 ^ 255) * (leNat b % 2 ^ 255))) % Ed.p)
    (hpar : x % 2 = leNat b / 2 ^ 255) : publicAccept b = true :=
  publicAccept_complete b hlen x hx hy hcurve hpar

/-- acceptance of a public key, both directions: exactly the canonical encodings of curve points -/
theorem C13_public_iff (b : Bytes) : publicAccept b = true ↔
    b.length = 32 ∧ leNat b % 2 ^ 255 < Ed.p ∧
    ∃ x, x < Ed.p ∧
      ((leNat b % 2 ^ 255) * (leNat b % 2 ^ 255)) % Ed.p
        = (1 + x * x + Ed.d * (x * x) * ((leNat b % 2 ^ 255) * (leNat b % 2 ^ 255))) % Ed.p ∧
      x % 2 = leNat b / 2 ^ 255 := by
  constructor
  · intro h
    obtain ⟨h1, h2, x, h3, h4, h5, _⟩ := publicAccept_sound b h
    exact ⟨h1, h2, x, h3, h4, h5⟩
  · rintro ⟨h1, h2, x, h3, h4, h5⟩
    exact publicAccept_complete b h1 x h3 h2 h4 h5

/-- the library model (permissive dalek decompression + recompress-and-compare) accepts exactly the byte strings that the
independent RFC 8032 reference decoder `Ed.decodePt` (strict: rejects y ≥ p, non-residues, x = 0 with sign) accepts —
for every byte string of every length. This is the spec side of the `c13_pk` operation, here as a theorem. -/
theorem C13_public_eq_reference (b : Bytes) : publicAccept b = (Ed.decodePt b).isSome := publicAccept_eq_ref b

/-- every encoding whose y field lies in [p, 2^255) is rejected (either sign bit) -/
theorem C13_rejects_noncanonical_y (b : Bytes) (hy : Ed.p ≤ leNat b % 2 ^ 255) : publicAccept b = false := by
  cases h : publicAccept b with
  | false => rfl
  | true => exact absurd (publicAccept_sound b h).2.1 (Nat.not_lt.mpr hy)

/-- the 38 such encodings, explicitly: y = p + i for i < 19, sign bit s -/
theorem C13_rejects_noncanonical_y_enumerated (i s : Nat) (hi : i < 19) (hs : s < 2) :
    publicAccept (toBytesLE (Ed.p + i + s * 2 ^ 255) 32) = false := by
  apply C13_rejects_noncanonical_y
  have hp : Ed.p = 2 ^ 255 - 19 := rfl
  have hlt : Ed.p + i + s * 2 ^ 255 < 256 ^ 32 := by
    rw [hp, show (256 : Nat) ^ 32 = 2 ^ 256 by norm_num]; omega
  rw [leNat_toBytesLE 32 _ hlt, hp]
  omega

/-- negative zero, general form: whenever the sign bit is set, the x witnessed by acceptance is odd, hence non-zero;
an encoding whose only possible x is 0 can therefore not be accepted with the sign bit set -/
theorem C13_rejects_negative_zero (b : Bytes) (hs : leNat b / 2 ^ 255 = 1)
    (hx0 : ∀ x, x < Ed.p →
      ((leNat b % 2 ^ 255) * (leNat b % 2 ^ 255)) % Ed.p
        = (1 + x * x + Ed.d * (x * x) * ((leNat b % 2 ^ 255) * (leNat b % 2 ^ 255))) % Ed.p → x % 2 = 0) :
    publicAccept b = false := by
  cases h : publicAccept b with
  | false => rfl
  | true =>
    obtain ⟨_, _, x, hx, hc, hpar, _⟩ := publicAccept_sound b h
    have := hx0 x hx hc
    omega

set_option maxRecDepth 100000 in
/-- the two negative-zero encodings (x = 0: y = 1 and y = p − 1, sign bit set) are rejected, while the same encodings with
the sign bit clear (the identity and the point of order two) are accepted — by evaluation of the model in the kernel -/
theorem C13_rejects_negative_zero_encodings :
    publicAccept (toBytesLE (1 + 2 ^ 255) 32) = false ∧ publicAccept (toBytesLE (Ed.p - 1 + 2 ^ 255) 32) = false ∧
    publicAccept (toBytesLE 1 32) = true ∧ publicAccept (toBytesLE (Ed.p - 1) 32) = true := by decide +kernel

/-- accepted keys give back the same bytes: binary (`to_bytes`), recompression of the decoded point, text form
(`to_string` then `from_str`), consensus form (`consensus_encode` then `consensus_decode`, any suffix left untouched) -/
theorem C13_bytes_roundtrip (b k : Bytes) :
    (publicFromSlice b = some k →
      keyToBytes k = b ∧ (∃ P, decompressDalek (leNat b) = some P ∧ encodePt P = b) ∧
      publicFromStr (keyToString k) = some k ∧
      ∀ rest, publicConsensusDecode (consensusEncode k ++ rest) = some (k, rest)) ∧
    (secretFromSlice b = some k →
      keyToBytes k = b ∧ toBytesLE (leNat b % Ed.l) 32 = b ∧
      secretFromStr (keyToString k) = some k ∧
      ∀ rest, secretConsensusDecode (consensusEncode k ++ rest) = some (k, rest)) := by
  constructor
  · intro h
    unfold publicFromSlice at h
    by_cases ha : publicAccept b = true
    · rw [if_pos ha] at h
      have hk : b = k := by simpa using h
      subst hk
      obtain ⟨hlen, P, hd, he⟩ := (publicAccept_iff b).mp ha
      refine ⟨rfl, ⟨P, hd, he⟩, ?_, fun rest => consensusDecode_encode _ _ _ hlen ha⟩
      unfold publicFromStr keyToString publicFromSlice
      rw [hexDecode_hexEncode]; simp [ha]
    · rw [if_neg ha] at h; simp at h
  · intro h
    unfold secretFromSlice at h
    by_cases ha : secretAccept b = true
    · rw [if_pos ha] at h
      have hk : b = k := by simpa using h
      subst hk
      obtain ⟨hlen, hlt⟩ := (secretAccept_iff b).mp ha
      refine ⟨rfl, ?_, ?_, fun rest => consensusDecode_encode _ _ _ hlen ha⟩
      · rw [Nat.mod_eq_of_lt hlt, ← hlen]; exact toBytesLE_leNat b
      · unfold secretFromStr keyToString secretFromSlice
        rw [hexDecode_hexEncode]; simp [ha]
    · rw [if_neg ha] at h; simp at h

/-- the hypotheses are satisfiable: the base point encoding and a mid-range scalar are accepted, l itself is not -/
example : secretAccept (toBytesLE (Ed.l - 1) 32) = true ∧ secretAccept (toBytesLE Ed.l 32) = false := by decide +kernel
set_option maxRecDepth 100000 in
example : publicAccept (toBytesLE Ed.Gy 32) = true := by decide +kernel


/-! ### the curve is Ed25519 (RFC 8032 §5.1): the literals of `Ref/Ed25519.lean` are pinned by their defining equations -/
section Constants
/-- `p = 2^255 − 19`, `l = 2^252 + 27742317777372353535851937790883648493`. This restates the defining text of `Ref/Ed25519.lean`
(`rfl`); it is a readable record, not a check. What pins `l` is `C13_base_point_order` (the base point has order exactly `l`)
together with its primality (`Proofs/Primes.lean`); `d`, `sqrtm1`, `G` are pinned by the equations below. -/
theorem C13_p_l_are_ed25519 : Ed.p = 2 ^ 255 - 19 ∧ Ed.l = 2 ^ 252 + 27742317777372353535851937790883648493 := ⟨rfl, rfl⟩
/-- `d = −121665/121666 (mod p)`, as the reduced residue -/
theorem C13_d_is_ed25519 : (121666 * Ed.d + 121665) % Ed.p = 0 ∧ Ed.d < Ed.p := by decide
/-- `sqrtm1² = −1 (mod p)`, reduced -/
theorem C13_sqrtm1_is_root_of_minus_one : (Ed.sqrtm1 * Ed.sqrtm1 + 1) % Ed.p = 0 ∧ Ed.sqrtm1 < Ed.p := by decide
/-- the base point: `y = 4/5 (mod p)` (reduced, sign bit clear in the encoding `Gy`), `x` the even ("positive") root — the
base point of RFC 8032; `Ed.G` is the strict decoding of `Gy` -/
theorem C13_G_is_ed25519 : (5 * Ed.Gy) % Ed.p = 4 ∧ Ed.Gy < Ed.p ∧ Ed.decompress Ed.Gy = some Ed.G ∧
    Ed.G.y = Ed.Gy ∧ Ed.G.x % 2 = 0 := by
  have h1 : (5 * Ed.Gy) % Ed.p = 4 := by decide
  have h2 : Ed.Gy < Ed.p := by decide
  have h3 : Ed.Gy < 2 ^ 255 := by decide
  obtain ⟨-, -, hy, hx⟩ := Monero.Edw.decompress_spec Ed.Gy Monero.Edw.Gy_lt Ed.G Monero.Edw.decompress_Gy
  refine ⟨h1, h2, Monero.Edw.decompress_Gy, ?_, ?_⟩
  · rw [hy]; exact Nat.mod_eq_of_lt h3
  · rw [hx]; exact Nat.div_eq_of_lt h3
end Constants

/-- negative zero, every 32-byte string: sign bit set and y field 1 or p − 1 (the two y with x = 0) is refused -/
theorem C13_rejects_negative_zero_bytes (b : Bytes) (hlen : b.length = 32) (hs : leNat b / 2 ^ 255 = 1)
    (hy : leNat b % 2 ^ 255 = 1 ∨ leNat b % 2 ^ 255 = Ed.p - 1) : publicAccept b = false := by
  have hb : toBytesLE (leNat b) 32 = b := by rw [← hlen]; exact toBytesLE_leNat b
  have hdm := Nat.div_add_mod (leNat b) (2 ^ 255)
  obtain ⟨n1, n2, -, -⟩ := C13_rejects_negative_zero_encodings
  rcases hy with hy | hy
  · have : leNat b = 1 + 2 ^ 255 := by omega
    rw [← hb, this]; exact n1
  · have hp : Ed.p = 2 ^ 255 - 19 := rfl
    have : leNat b = Ed.p - 1 + 2 ^ 255 := by rw [hp] at hy ⊢; omega
    rw [← hb, this]; exact n2
example : ∃ b : Bytes, b.length = 32 ∧ leNat b / 2 ^ 255 = 1 ∧ leNat b % 2 ^ 255 = 1 :=
  ⟨toBytesLE (1 + 2 ^ 255) 32, by decide +kernel⟩

/-- the hypothesis `hx0` of `C13_rejects_negative_zero` holds for the y fields 1 and p − 1: on the curve, y² = 1 forces
x = 0 (`x²·(1 + d) = 0` and `1 + d ≠ 0` in the field GF(p); uses primality of p) -/
theorem C13_only_x_zero_at_y_pm_one (y : Nat) (hy : y = 1 ∨ y = Ed.p - 1) (x : Nat) (hx : x < Ed.p)
    (hc : (y * y) % Ed.p = (1 + x * x + Ed.d * (x * x) * (y * y)) % Ed.p) : x = 0 := by
  have hyy : ((y : ℕ) : F) * (y : F) = 1 := by
    rcases hy with rfl | rfl
    · simp
    · have : (((Ed.p - 1 : ℕ)) : F) = -1 := by
        rw [Nat.cast_sub (Nat.le_of_lt p_gt_one), cast_p]; simp
      rw [this]; ring
  have h := (cast_eq_iff _ _).mpr hc
  push_cast at h
  have hd1 : ((1 : F) + (Ed.d : F)) ≠ 0 := by
    have hne : ((1 + Ed.d : ℕ) : F) ≠ ((0 : ℕ) : F) := by
      rw [Ne, cast_eq_iff]; decide
    simpa using hne
  have hxx : ((x : F) * (x : F)) * (1 + (Ed.d : F)) = 0 := by
    rw [mul_assoc (Ed.d : F), hyy] at h
    linear_combination (-1 : F) * h
  have hx0 : (x : F) = 0 := by
    rcases mul_eq_zero.mp hxx with h1 | h1
    · rcases mul_eq_zero.mp h1 with h2 | h2 <;> exact h2
    · exact absurd h1 hd1
  exact cast_eq_zero_lt x hx hx0

/-- `C13_rejects_negative_zero` instantiated (its hypothesis discharged by `C13_only_x_zero_at_y_pm_one`): an independent,
non-computational proof that both negative-zero encodings are refused -/
theorem C13_rejects_negative_zero_instantiated (b : Bytes) (hs : leNat b / 2 ^ 255 = 1)
    (hy : leNat b % 2 ^ 255 = 1 ∨ leNat b % 2 ^ 255 = Ed.p - 1) : publicAccept b = false :=
  C13_rejects_negative_zero b hs fun x hx hc => by
    rw [C13_only_x_zero_at_y_pm_one _ hy x hx hc]

/-! ### converses at the other entry points: what comes out of the text / consensus parsers is an accepted key -/
theorem C13_from_str_sound (s : List Char) (k : Bytes) :
    (publicFromStr s = some k → hexDecode s = some k ∧ publicAccept k = true) ∧
    (secretFromStr s = some k → hexDecode s = some k ∧ secretAccept k = true) := by
  constructor
  · intro h
    unfold publicFromStr at h
    cases hd : hexDecode s with
    | none => simp [hd] at h
    | some b =>
      simp only [hd] at h
      unfold publicFromSlice at h
      by_cases ha : publicAccept b = true
      · rw [if_pos ha] at h
        have : b = k := by simpa using h
        subst this; exact ⟨rfl, ha⟩
      · rw [if_neg ha] at h; exact absurd h (by simp)
  · intro h
    unfold secretFromStr at h
    cases hd : hexDecode s with
    | none => simp [hd] at h
    | some b =>
      simp only [hd] at h
      unfold secretFromSlice at h
      by_cases ha : secretAccept b = true
      · rw [if_pos ha] at h
        have : b = k := by simpa using h
        subst this; exact ⟨rfl, ha⟩
      · rw [if_neg ha] at h; exact absurd h (by simp)

/-- only exactly 64 hexadecimal digits are accepted by the text parsers (`hexVal c` is defined exactly for the ASCII digits
and the letters a–f, A–F: `C13_hex_digits`) -/
theorem C13_from_str_only_64_hex_digits (s : List Char) (k : Bytes)
    (h : publicFromStr s = some k ∨ secretFromStr s = some k) :
    s.length = 64 ∧ (∀ c ∈ s, (hexVal c).isSome = true) ∧ k.length = 32 := by
  have key : hexDecode s = some k ∧ k.length = 32 := by
    rcases h with h | h
    · obtain ⟨h1, h2⟩ := (C13_from_str_sound s k).1 h
      exact ⟨h1, ((C13_public_iff k).mp h2).1⟩
    · obtain ⟨h1, h2⟩ := (C13_from_str_sound s k).2 h
      exact ⟨h1, ((C13_secret_iff k).mp h2).1⟩
  obtain ⟨h1, h2⟩ := Monero.Edw.hexDecode_spec s k key.1
  exact ⟨by rw [h1, key.2], h2, key.2⟩
/-- the characters with a hex value are exactly the ASCII digits and the letters a–f, A–F (by code point) -/
theorem C13_hex_digits (c : Char) : (hexVal c).isSome = true ↔
    (48 ≤ c.toNat ∧ c.toNat ≤ 57) ∨ (97 ≤ c.toNat ∧ c.toNat ≤ 102) ∨ (65 ≤ c.toNat ∧ c.toNat ≤ 70) := by
  have e : ∀ a b : Char, a ≤ b ↔ a.toNat ≤ b.toNat := fun a b => by
    rw [Char.le_def, UInt32.le_iff_toNat_le]; rfl
  unfold hexVal
  simp only [e]
  have h0 : ('0' : Char).toNat = 48 := rfl
  have h9 : ('9' : Char).toNat = 57 := rfl
  have ha : ('a' : Char).toNat = 97 := rfl
  have hf : ('f' : Char).toNat = 102 := rfl
  have hA : ('A' : Char).toNat = 65 := rfl
  have hF : ('F' : Char).toNat = 70 := rfl
  rw [h0, h9, ha, hf, hA, hF]
  split
  · simp; omega
  · split
    · simp; omega
    · split
      · simp; omega
      · simp; omega
example : publicFromStr (keyToString (toBytesLE 1 32)) = some (toBytesLE 1 32) := by decide +kernel

/-- `Display` is lowercase hexadecimal, two digits per byte, high nibble first — stated against the digit string, not against
the model's own `hexDigit` -/
theorem C13_display_is_lowercase_hex (k : Bytes) :
    keyToString k = k.flatMap (fun b => ["0123456789abcdef".toList.getD (b.toNat / 16) '?',
                                          "0123456789abcdef".toList.getD (b.toNat % 16) '?']) := by
  have hd : ∀ n, n < 16 → hexDigit n = "0123456789abcdef".toList.getD n '?' := by decide
  unfold keyToString
  induction k with
  | nil => rfl
  | cons b t ih =>
    have h1 : b.toNat / 16 < 16 := by have := b.toNat_lt; omega
    have h2 : b.toNat % 16 < 16 := Nat.mod_lt _ (by norm_num)
    rw [hexEncode, ih, List.flatMap_cons, hd _ h1, hd _ h2]
    rfl
example : keyToString [0x0a, 0xff, 0x10] = "0aff10".toList := by decide

/-- the consensus decoders consume exactly the 32 key bytes, return them unchanged, leave the rest, and only return accepted keys -/
theorem C13_consensus_decode_sound (inp k rest : Bytes) :
    (publicConsensusDecode inp = some (k, rest) → inp = consensusEncode k ++ rest ∧ k.length = 32 ∧ publicAccept k = true) ∧
    (secretConsensusDecode inp = some (k, rest) → inp = consensusEncode k ++ rest ∧ k.length = 32 ∧ secretAccept k = true) := by
  have key : ∀ accept : Bytes → Bool, consensusDecodeWith accept inp = some (k, rest) →
      inp = consensusEncode k ++ rest ∧ k.length = 32 ∧ accept k = true := by
    intro accept h
    unfold consensusDecodeWith takeN at h
    by_cases hl : inp.length < 32
    · rw [if_pos hl] at h; exact absurd h (by simp)
    · rw [if_neg hl] at h
      simp only [] at h
      by_cases ha : accept (inp.take 32) = true
      · rw [if_pos ha] at h
        simp only [Option.some.injEq, Prod.mk.injEq] at h
        obtain ⟨h1, h2⟩ := h
        subst h1; subst h2
        refine ⟨(List.take_append_drop 32 inp).symm, ?_, ha⟩
        rw [List.length_take]; omega
      · rw [if_neg ha] at h; exact absurd h (by simp)
  exact ⟨key publicAccept, key secretAccept⟩
example : publicConsensusDecode (toBytesLE Ed.Gy 32 ++ [7]) = some (toBytesLE Ed.Gy 32, [7]) := by decide +kernel

/-! ### key arithmetic is the group law

The spec side of the arithmetic operations (`c13_pub_of`, `c13_add`, `c13_sub`, `c13_smul`: what dalek's results are compared
with on every run) is the executable reference `Ref/Ed25519.lean`. These theorems say what that reference computes: the
operations of the abelian group of points of the twisted Edwards curve (`Proofs/EdwardsGroup.lean`), through the encoding
that `PublicKey::from_slice` accepts. -/
section GroupLaw
open Monero.Edw
/-- the group in which every statement below is made is pinned, coordinate by coordinate: `EdPoint` is exactly the set of
pairs (x, y) over GF(2^255 − 19) with −x² + y² = 1 + d·x²·y² (d the literal of `Ref/Ed25519.lean`, pinned by
`C13_d_is_ed25519`), two points are equal iff their coordinates are; `+` is the Edwards addition law (its denominators never
vanish: the law is complete), `0` is (0, 1), `−(x, y)` is (−x, y), `P − Q` is `P + (−Q)`, `n • P` is repeated addition; and
these operations satisfy the axioms of an abelian group. (The former statement `Nonempty (AddCommGroup EdPoint)` did not
mention the law and was true of any non-empty type.) -/
theorem C13_curve_points_form_a_group :
    (dF = ((Ed.d : ℕ) : F)) ∧
    (∀ P : EdPoint, -P.x ^ 2 + P.y ^ 2 = 1 + dF * P.x ^ 2 * P.y ^ 2) ∧
    (∀ x y : F, -x ^ 2 + y ^ 2 = 1 + dF * x ^ 2 * y ^ 2 → ∃ P : EdPoint, P.x = x ∧ P.y = y) ∧
    (∀ P Q : EdPoint, P.x = Q.x → P.y = Q.y → P = Q) ∧
    (∀ P Q : EdPoint,
      1 + dF * P.x * Q.x * P.y * Q.y ≠ 0 ∧ 1 - dF * P.x * Q.x * P.y * Q.y ≠ 0 ∧
      (P + Q).x = (P.x * Q.y + P.y * Q.x) / (1 + dF * P.x * Q.x * P.y * Q.y) ∧
      (P + Q).y = (P.y * Q.y + P.x * Q.x) / (1 - dF * P.x * Q.x * P.y * Q.y)) ∧
    ((0 : EdPoint).x = 0 ∧ (0 : EdPoint).y = 1) ∧
    (∀ P : EdPoint, (-P).x = -P.x ∧ (-P).y = P.y) ∧
    (∀ P Q : EdPoint, P - Q = P + -Q) ∧
    (∀ (n : ℕ) (P : EdPoint), 0 • P = 0 ∧ (n + 1) • P = n • P + P) ∧
    (∀ P Q R : EdPoint, P + Q + R = P + (Q + R)) ∧ (∀ P Q : EdPoint, P + Q = Q + P) ∧
    (∀ P : EdPoint, P + 0 = P) ∧ (∀ P : EdPoint, -P + P = 0) := by
  refine ⟨rfl, fun P => P.on, fun x y h => ⟨⟨x, y, h⟩, rfl, rfl⟩, fun P Q h1 h2 => Point.ext h1 h2, ?_, ⟨rfl, rfl⟩,
    fun P => ⟨rfl, rfl⟩, fun P Q => sub_eq_add_neg P Q, fun n P => ⟨zero_nsmul P, succ_nsmul P n⟩,
    add_assoc, add_comm, add_zero, neg_add_cancel⟩
  intro P Q
  obtain ⟨h1, h2⟩ := complete_dF (P.x, P.y) (Q.x, Q.y) P.on Q.on
  exact ⟨h1, h2, Point.add_x P Q, Point.add_y P Q⟩
/-- addition, subtraction, scalar multiplication (k < 2^260), the base point, encoding and strict decoding of the executable
reference (`Drv.refOps` = `Ref/Ed25519.lean`, extended coordinates) are those of that group (`edOps` = the operations pinned by
`C13_curve_points_form_a_group`): `toPoint (add a b) = toPoint a + toPoint b`, `toPoint (smul k a) = k • toPoint a`, … -/
theorem C13_group_law : RefinesEd Drv.refOps := refOps_refines_edOps
/-- the operations of `edOps` are the group's own -/
theorem C13_edOps_are_the_group_operations (A B : EdPoint) (k : ℕ) :
    edOps.add A B = A + B ∧ edOps.sub A B = A - B ∧ edOps.smul k A = k • A := ⟨rfl, rfl, rfl⟩
/-- the base point has order exactly `l` (hence `C13_pub_of_injective`) -/
theorem C13_base_point_order : addOrderOf edOps.base = Ed.l := addOrderOf_base
/-- accepted key bytes and curve points correspond one to one: the encoding is injective, strict decoding inverts it, whatever
decodes is the encoding of what it decodes to, and the accepted byte strings are exactly the encodings (= exactly the strings
that decode) -/
theorem C13_encoding_bijective :
    Function.Injective edOps.enc ∧ (∀ A : EdPoint, edOps.dec (edOps.enc A) = some A) ∧
    (∀ (b : Bytes) (A : EdPoint), edOps.dec b = some A → edOps.enc A = b) ∧
    (∀ b : Bytes, publicAccept b = true ↔ ∃ A : EdPoint, edOps.enc A = b) ∧
    (∀ b : Bytes, publicAccept b = true ↔ (edOps.dec b).isSome = true) := by
  refine ⟨edOps_lawful.enc_inj, edOps_lawful.dec_enc, fun b A h => (enc_of_dec b A h).2, fun b => ⟨fun h => ?_, ?_⟩,
    fun b => ⟨fun h => ?_, fun h => ?_⟩⟩
  · obtain ⟨A, -, hA⟩ := dec_of_accept b h; exact ⟨A, hA⟩
  · rintro ⟨A, rfl⟩; exact publicAccept_enc A
  · obtain ⟨A, hA, -⟩ := dec_of_accept b h; rw [hA]; rfl
  · obtain ⟨A, hA⟩ := Option.isSome_iff_exists.mp h; exact (enc_of_dec b A hA).1
/-- what `edOps.dec b = some A` means arithmetically (RFC 8032 §5.1.3): 32 bytes, the y coordinate is the low 255 bits of the
little-endian value (which are therefore below p), the parity of the x coordinate is bit 255. With the curve equation
(`C13_curve_points_form_a_group`) this determines `A`; it is what links the `_bytes` theorems below to arithmetic. -/
theorem C13_dec_spec (b : Bytes) (A : EdPoint) (h : edOps.dec b = some A) :
    b.length = 32 ∧ A.y.val = leNat b % 2 ^ 255 ∧ A.x.val % 2 = leNat b / 2 ^ 255 := dec_spec b A h
/-- the neutral element is the key `01 00 … 00` -/
theorem C13_identity_encoding : edOps.enc 0 = toBytesLE 1 32 ∧ edOps.dec (toBytesLE 1 32) = some 0 := by
  refine ⟨enc_zero, ?_⟩
  rw [← enc_zero]; exact edOps_lawful.dec_enc 0

/-! ### the identities of the property, in the group (scalars are arbitrary integers; the library reduces them modulo `l`) -/
/-- `pub(a + b) = pub(a) + pub(b)` where the scalar sum is reduced modulo `l` (uses `l • G = 0`) -/
theorem C13_pub_add (a b : ℕ) : ((a + b) % Ed.l) • edOps.base = a • edOps.base + b • edOps.base := by
  have h := edOps_lawful.smul_mod_base (a + b)
  rw [edOps_l] at h
  rw [h, add_smul]
/-- `a·(b·G) = (a·b mod l)·G` -/
theorem C13_smul_smul (a b : ℕ) : a • (b • edOps.base) = ((a * b) % Ed.l) • edOps.base := by
  have h := edOps_lawful.smul_mod_base (a * b)
  rw [edOps_l] at h
  rw [h, mul_smul]
/-- reduced scalars give equal public keys only when equal (the base point has order exactly `l`) -/
theorem C13_pub_injective (a b : ℕ) (ha : a < Ed.l) (hb : b < Ed.l) (h : a • edOps.base = b • edOps.base) : a = b := by
  have hm : a ≡ b [MOD addOrderOf edOps.base] := nsmul_eq_nsmul_iff_modEq.mp h
  rw [addOrderOf_base] at hm
  exact Nat.ModEq.eq_of_lt_of_lt hm ha hb

/-! ### the operator model of key.rs (`Model/KeyOps.lean`), byte level: decode ∘ group operation ∘ encode, closure, no panic -/
/-- `a + b` on accepted keys: both operands decode (strictly) to curve points `A`, `B` (`C13_dec_spec` says which); the
operator (permissive `point()`, dalek's Niels-form addition `dalekAdd`, recompression) does not panic and returns the encoding of
`A + B`, which is an accepted key -/
theorem C13_add_bytes (a b : Bytes) (ha : publicAccept a = true) (hb : publicAccept b = true) :
    ∃ A B : EdPoint, edOps.dec a = some A ∧ edOps.dec b = some B ∧
      keyAdd a b = some (edOps.enc (A + B)) ∧ publicAccept (edOps.enc (A + B)) = true := by
  obtain ⟨A, hA, eA⟩ := dec_of_accept a ha
  obtain ⟨B, hB, eB⟩ := dec_of_accept b hb
  refine ⟨A, B, hA, hB, ?_, publicAccept_enc _⟩
  have := keyAdd_enc A B
  rwa [eA, eB] at this
theorem C13_sub_bytes (a b : Bytes) (ha : publicAccept a = true) (hb : publicAccept b = true) :
    ∃ A B : EdPoint, edOps.dec a = some A ∧ edOps.dec b = some B ∧
      keySub a b = some (edOps.enc (A - B)) ∧ publicAccept (edOps.enc (A - B)) = true := by
  obtain ⟨A, hA, eA⟩ := dec_of_accept a ha
  obtain ⟨B, hB, eB⟩ := dec_of_accept b hb
  refine ⟨A, B, hA, hB, ?_, publicAccept_enc _⟩
  have := keySub_enc A B
  rwa [eA, eB] at this
/-- `s * P` (all three operator forms) on an accepted secret key `s` and an accepted public key -/
theorem C13_smul_bytes (s k : Bytes) (hs : secretAccept s = true) (hk : publicAccept k = true) :
    ∃ A : EdPoint, edOps.dec k = some A ∧
      keySmul s k = some (edOps.enc (Ed.leNat s • A)) ∧ publicAccept (edOps.enc (Ed.leNat s • A)) = true := by
  obtain ⟨A, hA, eA⟩ := dec_of_accept k hk
  refine ⟨A, hA, ?_, publicAccept_enc _⟩
  have := keySmul_enc s (secret_lt_260 s hs) A
  rwa [eA] at this
/-- `PublicKey::from_private_key` on an accepted secret key: the encoding of `int(s)·G`, an accepted key -/
theorem C13_pub_of_bytes (s : Bytes) (hs : secretAccept s = true) :
    keyPubOf s = edOps.enc (Ed.leNat s • edOps.base) ∧ publicAccept (keyPubOf s) = true := by
  have h := keyPubOf_eq s (secret_lt_260 s hs)
  exact ⟨h, by rw [h]; exact publicAccept_enc _⟩
/-- `from_private_key` is injective on accepted secret keys -/
theorem C13_pub_of_injective (a b : Bytes) (ha : secretAccept a = true) (hb : secretAccept b = true)
    (h : keyPubOf a = keyPubOf b) : a = b := by
  rw [keyPubOf_eq a (secret_lt_260 a ha), keyPubOf_eq b (secret_lt_260 b hb)] at h
  obtain ⟨la, va⟩ := (secretAccept_iff a).mp ha
  obtain ⟨lb, vb⟩ := (secretAccept_iff b).mp hb
  have hv := C13_pub_injective _ _ va vb (edOps_lawful.enc_inj h)
  have ea := toBytesLE_leNat a
  have eb := toBytesLE_leNat b
  rw [la] at ea; rw [lb] at eb
  rw [← ea, ← eb, hv]
/-- the scalar operators on ACCEPTED secret keys (`sk + sk`, `sk * sk`, `sk * u8` with `n < 256`): the model transcribes
dalek's `Scalar52::add` (limb sum, then one borrow-and-add-back subtraction of `l`) and `Scalar52::mul` (two Montgomery
reductions with `R = 2^260`) on the integer value of the limbs (Model/KeyOps `sc52Add`, `sc52Mul`); on reduced operands they
are addition / multiplication modulo `l`, and the result is an accepted secret key. The acceptance hypotheses are needed:
`sc52Add` performs a single subtraction (Proofs/KeyOps: `sc52Add (2l) (2l) ≠ (4l) % l`); there is no `PrivateKey` value with
other bytes unless it was built without `from_slice`. -/
theorem C13_scalar_ops (a b : Bytes) (n : ℕ) (ha : secretAccept a = true) (hb : secretAccept b = true) (hn : n < 256) :
    (secretAccept (scalarAdd a b) = true ∧ Ed.leNat (scalarAdd a b) = (Ed.leNat a + Ed.leNat b) % Ed.l) ∧
    (secretAccept (scalarMul a b) = true ∧ Ed.leNat (scalarMul a b) = (Ed.leNat a * Ed.leNat b) % Ed.l) ∧
    (secretAccept (scalarMulU8 a n) = true ∧ Ed.leNat (scalarMulU8 a n) = (Ed.leNat a * n) % Ed.l) := by
  have va := ((secretAccept_iff a).mp ha).2
  have vb := ((secretAccept_iff b).mp hb).2
  have vn : n < Ed.l := Nat.lt_trans hn (by decide)
  unfold scalarAdd scalarMul scalarMulU8
  rw [sc52Add_eq _ _ va vb, sc52Mul_eq _ _ va vb, sc52Mul_eq _ _ va vn]
  exact ⟨secretAccept_toBytesLE _ (Nat.mod_lt _ Monero.Keys.l_pos), secretAccept_toBytesLE _ (Nat.mod_lt _ Monero.Keys.l_pos),
    secretAccept_toBytesLE _ (Nat.mod_lt _ Monero.Keys.l_pos)⟩
/-- the harness operations (`from_slice` of each operand, then the operator) never reach the `expect` of `point()` -/
theorem C13_operators_no_panic (a b s : Bytes) :
    opAdd a b ≠ some none ∧ opSub a b ≠ some none ∧ opSmul s a ≠ some none := by
  refine ⟨?_, ?_, ?_⟩
  · unfold opAdd publicFromSlice
    by_cases ha : publicAccept a = true
    · by_cases hb : publicAccept b = true
      · obtain ⟨A, B, -, -, h, -⟩ := C13_add_bytes a b ha hb
        simp [ha, hb, h]
      · simp [ha, hb]
    · simp [ha]
  · unfold opSub publicFromSlice
    by_cases ha : publicAccept a = true
    · by_cases hb : publicAccept b = true
      · obtain ⟨A, B, -, -, h, -⟩ := C13_sub_bytes a b ha hb
        simp [ha, hb, h]
      · simp [ha, hb]
    · simp [ha]
  · unfold opSmul publicFromSlice secretFromSlice
    by_cases hs : secretAccept s = true
    · by_cases ha : publicAccept a = true
      · obtain ⟨A, -, h, -⟩ := C13_smul_bytes s a hs ha
        simp [hs, ha, h]
      · simp [hs, ha]
    · simp [hs]

/-! ### the identities of the property on the operator model, byte level -/
/-- `pub(a) + pub(b) = pub(a + b)` -/
theorem C13_pub_add_bytes (a b : Bytes) (ha : secretAccept a = true) (hb : secretAccept b = true) :
    keyAdd (keyPubOf a) (keyPubOf b) = some (keyPubOf (scalarAdd a b)) := by
  obtain ⟨⟨hs, hv⟩, -, -⟩ := C13_scalar_ops a b 0 ha hb (by norm_num)
  rw [keyPubOf_eq a (secret_lt_260 a ha), keyPubOf_eq b (secret_lt_260 b hb), keyPubOf_eq _ (secret_lt_260 _ hs), hv,
    keyAdd_enc, C13_pub_add]
/-- `a * (b * G) = (a·b) * G` -/
theorem C13_smul_pub_bytes (a b : Bytes) (ha : secretAccept a = true) (hb : secretAccept b = true) :
    keySmul a (keyPubOf b) = some (keyPubOf (scalarMul a b)) := by
  obtain ⟨-, ⟨hs, hv⟩, -⟩ := C13_scalar_ops a b 0 ha hb (by norm_num)
  rw [keyPubOf_eq b (secret_lt_260 b hb), keyPubOf_eq _ (secret_lt_260 _ hs), hv,
    keySmul_enc a (secret_lt_260 a ha), C13_smul_smul]
/-- `(P + Q) − Q = P` -/
theorem C13_add_sub_bytes (p q : Bytes) (hp : publicAccept p = true) (hq : publicAccept q = true) :
    ∃ r, keyAdd p q = some r ∧ keySub r q = some p := by
  obtain ⟨A, -, eA⟩ := dec_of_accept p hp
  obtain ⟨B, -, eB⟩ := dec_of_accept q hq
  refine ⟨edOps.enc (A + B), ?_, ?_⟩
  · have := keyAdd_enc A B; rwa [eA, eB] at this
  · have := keySub_enc (A + B) B
    rwa [add_sub_cancel_right, eA, eB] at this
/-- `P − P = 0`, `P + 0 = P`, `0 + P = P`, `P − 0 = P` on the operator model, `0` being the key `01 00 … 00`
(`C13_identity_encoding`) — for every accepted key, torsion included -/
theorem C13_add_sub (p : Bytes) (hp : publicAccept p = true) :
    keySub p p = some (toBytesLE 1 32) ∧ keyAdd p (toBytesLE 1 32) = some p ∧
    keyAdd (toBytesLE 1 32) p = some p ∧ keySub p (toBytesLE 1 32) = some p := by
  obtain ⟨A, -, eA⟩ := dec_of_accept p hp
  have h1 := keySub_enc A A
  have h2 := keyAdd_enc A 0
  have h3 := keyAdd_enc 0 A
  have h4 := keySub_enc A 0
  rw [sub_self, enc_zero, eA] at h1
  rw [add_zero, enc_zero, eA] at h2
  rw [zero_add, enc_zero, eA] at h3
  rw [sub_zero, enc_zero, eA] at h4
  exact ⟨h1, h2, h3, h4⟩
/-- `a·(P + Q) = a·P + a·Q` on the operator model: none of the five operator applications panics and the two sides are the
same key -/
theorem C13_smul_distrib (s p q : Bytes) (hs : secretAccept s = true) (hp : publicAccept p = true)
    (hq : publicAccept q = true) :
    ∃ r u v w, keyAdd p q = some r ∧ keySmul s p = some u ∧ keySmul s q = some v ∧
      keySmul s r = some w ∧ keyAdd u v = some w := by
  obtain ⟨A, -, eA⟩ := dec_of_accept p hp
  obtain ⟨B, -, eB⟩ := dec_of_accept q hq
  have hs' := secret_lt_260 s hs
  refine ⟨edOps.enc (A + B), edOps.enc (Ed.leNat s • A), edOps.enc (Ed.leNat s • B), edOps.enc (Ed.leNat s • (A + B)),
    ?_, ?_, ?_, keySmul_enc s hs' _, ?_⟩
  · have := keyAdd_enc A B; rwa [eA, eB] at this
  · have := keySmul_enc s hs' A; rwa [eA] at this
  · have := keySmul_enc s hs' B; rwa [eB] at this
  · rw [keyAdd_enc, smul_add]
/-- the hypotheses are satisfiable: accepted secret keys (5, l − 1), accepted public keys (the base point, the identity, a
point of order 4) -/
example : secretAccept (toBytesLE 5 32) = true ∧ secretAccept (toBytesLE (Ed.l - 1) 32) = true := by decide +kernel
set_option maxRecDepth 100000 in
example : publicAccept (toBytesLE Ed.Gy 32) = true ∧ publicAccept (toBytesLE 1 32) = true ∧
    publicAccept (List.replicate 32 0) = true := by decide +kernel
end GroupLaw
end C13
