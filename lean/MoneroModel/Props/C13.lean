import MoneroModel.Model.Keys
import MoneroModel.Proofs.KeysBasic
import MoneroModel.Proofs.KeysSound
import MoneroModel.Proofs.KeysComplete
import MoneroModel.Proofs.KeysRef
import MoneroModel.Proofs.EdwardsLawful
/-! C13 — "Keys are accepted exactly when canonical, and key arithmetic is the group law".
Proved here, about the model `Monero.Keys` (which mirrors `PrivateKey::from_slice` / `PublicKey::from_slice` including dalek's
permissive `decompress` followed by the recompress-and-compare of key.rs): the acceptance conditions and the byte / text /
consensus round trips. The "is the group law" half of the property: the operators delegate to curve25519-dalek (a dependency), whose results are
compared on every run with `Ref.Ed25519` (Drv/C13 + harness/src/c13.rs); that this reference IS the group law of the curve
is proved (section GroupLaw at the end: `C13_group_law`, from Proofs/EdwardsGroup, EdwardsRef, EdwardsLawful). -/
namespace C13
open Monero hiding leNat toBytesLE
open Monero.Keys Ed

/-- a secret key is accepted exactly when it is 32 bytes whose little-endian value is below the group order -/
theorem C13_secret_iff (b : Bytes) : secretAccept b = true ↔ b.length = 32 ∧ leNat b < Ed.l := secretAccept_iff b

/-- an accepted public key is 32 bytes; its y (low 255 bits) is canonical (`y < p`); and there is an `x < p` with
`y² ≡ 1 + x² + d·x²·y² (mod p)` — i.e. `−x² + y² = 1 + d·x²·y²`, the point is on the curve — whose parity is the encoded sign
bit; in particular the encoding is not a "negative zero" (x = 0 with the sign bit set). No primality assumption. -/
theorem C13_public_sound (b : Bytes) (h : publicAccept b = true) :
    b.length = 32 ∧ leNat b % 2 ^ 255 < Ed.p ∧
    ∃ x, x < Ed.p ∧
      ((leNat b % 2 ^ 255) * (leNat b % 2 ^ 255)) % Ed.p
        = (1 + x * x + Ed.d * (x * x) * ((leNat b % 2 ^ 255) * (leNat b % 2 ^ 255))) % Ed.p ∧
      x % 2 = leNat b / 2 ^ 255 ∧ ¬ (x = 0 ∧ leNat b / 2 ^ 255 = 1) := publicAccept_sound b h

/-- (⇐) every canonical encoding of a curve point is accepted: 32 bytes, y < p, some x < p with (x, y) on the curve and the
sign bit equal to the parity of x (which excludes negative zero). Uses primality of p (Pratt certificate, `Proofs/Primes.lean`),
Fermat's little theorem, the p ≡ 5 (mod 8) square-root argument and the non-residuosity of d (`Proofs/KeysComplete.lean`). -/
theorem C13_public_complete (b : Bytes) (hlen : b.length = 32) (x : Nat) (hx : x < Ed.p)
    (hy : leNat b % 2 ^ 255 < Ed.p)
    (hcurve : ((leNat b % 2 ^ 255) * (leNat b % 2 ^ 255)) % Ed.p
        = (1 + x * x + Ed.d * (x * x) * ((leNat b % 2 ^ 255) * (leNat b % 2 ^ 255))) % Ed.p)
    (hpar : x % 2 = leNat b / 2 ^ 255) : publicAccept b = true :=
  publicAccept_complete b hlen x hx hy hcurve hpar

/-- acceptance of a public key, both directions: exactly the canonical encodings of curve points -/
theorem C13_public_iff (b : Bytes) : publicAccept b = true ↔
    b.length = 32 ∧ leNat b % 2 ^ 255 < Ed.p ∧
    ∃ x, x < Ed.p ∧
      ((leNat b % 2 ^ 255) * (leNat b % 2 ^ 255)) % Ed.p
        = (1 + x * x + Ed.d * (x * x) * ((leNat b % 2 ^ 255) * (leNat b % 2 ^ 255))) % Ed.p ∧
      x % 2 = leNat b / 2 ^ 255 := by
  constructor
  · intro h
    obtain ⟨h1, h2, x, h3, h4, h5, _⟩ := publicAccept_sound b h
    exact ⟨h1, h2, x, h3, h4, h5⟩
  · rintro ⟨h1, h2, x, h3, h4, h5⟩
    exact publicAccept_complete b h1 x h3 h2 h4 h5

/-- the library model (permissive dalek decompression + recompress-and-compare) accepts exactly the byte strings that the
independent RFC 8032 reference decoder `Ed.decodePt` (strict: rejects y ≥ p, non-residues, x = 0 with sign) accepts —
for every byte string of every length. This is the spec side of the `c13_pk` operation, here as a theorem. -/
theorem C13_public_eq_reference (b : Bytes) : publicAccept b = (Ed.decodePt b).isSome := publicAccept_eq_ref b

/-- every encoding whose y field lies in [p, 2^255) is rejected (either sign bit) -/
theorem C13_rejects_noncanonical_y (b : Bytes) (hy : Ed.p ≤ leNat b % 2 ^ 255) : publicAccept b = false := by
  cases h : publicAccept b with
  | false => rfl
  | true => exact absurd (publicAccept_sound b h).2.1 (Nat.not_lt.mpr hy)

/-- the 38 such encodings, explicitly: y = p + i for i < 19, sign bit s -/
theorem C13_rejects_noncanonical_y_enumerated (i s : Nat) (hi : i < 19) (hs : s < 2) :
    publicAccept (toBytesLE (Ed.p + i + s * 2 ^ 255) 32) = false := by
  apply C13_rejects_noncanonical_y
  have hp : Ed.p = 2 ^ 255 - 19 := rfl
  have hlt : Ed.p + i + s * 2 ^ 255 < 256 ^ 32 := by
    rw [hp, show (256 : Nat) ^ 32 = 2 ^ 256 by norm_num]; omega
  rw [leNat_toBytesLE 32 _ hlt, hp]
  omega

/-- negative zero, general form: whenever the sign bit is set, the x witnessed by acceptance is odd, hence non-zero;
an encoding whose only possible x is 0 can therefore not be accepted with the sign bit set -/
theorem C13_rejects_negative_zero (b : Bytes) (hs : leNat b / 2 ^ 255 = 1)
    (hx0 : ∀ x, x < Ed.p →
      ((leNat b % 2 ^ 255) * (leNat b % 2 ^ 255)) % Ed.p
        = (1 + x * x + Ed.d * (x * x) * ((leNat b % 2 ^ 255) * (leNat b % 2 ^ 255))) % Ed.p → x % 2 = 0) :
    publicAccept b = false := by
  cases h : publicAccept b with
  | false => rfl
  | true =>
    obtain ⟨_, _, x, hx, hc, hpar, _⟩ := publicAccept_sound b h
    have := hx0 x hx hc
    omega

set_option maxRecDepth 100000 in
/-- the two negative-zero encodings (x = 0: y = 1 and y = p − 1, sign bit set) are rejected, while the same encodings with
the sign bit clear (the identity and the point of order two) are accepted — by evaluation of the model in the kernel -/
theorem C13_rejects_negative_zero_encodings :
    publicAccept (toBytesLE (1 + 2 ^ 255) 32) = false ∧ publicAccept (toBytesLE (Ed.p - 1 + 2 ^ 255) 32) = false ∧
    publicAccept (toBytesLE 1 32) = true ∧ publicAccept (toBytesLE (Ed.p - 1) 32) = true := by decide +kernel

/-- accepted keys give back the same bytes: binary (`to_bytes`), recompression of the decoded point, text form
(`to_string` then `from_str`), consensus form (`consensus_encode` then `consensus_decode`, any suffix left untouched) -/
theorem C13_bytes_roundtrip (b k : Bytes) :
    (publicFromSlice b = some k →
      keyToBytes k = b ∧ (∃ P, decompressDalek (leNat b) = some P ∧ encodePt P = b) ∧
      publicFromStr (keyToString k) = some k ∧
      ∀ rest, publicConsensusDecode (consensusEncode k ++ rest) = some (k, rest)) ∧
    (secretFromSlice b = some k →
      keyToBytes k = b ∧ toBytesLE (leNat b % Ed.l) 32 = b ∧
      secretFromStr (keyToString k) = some k ∧
      ∀ rest, secretConsensusDecode (consensusEncode k ++ rest) = some (k, rest)) := by
  constructor
  · intro h
    unfold publicFromSlice at h
    by_cases ha : publicAccept b = true
    · rw [if_pos ha] at h
      have hk : b = k := by simpa using h
      subst hk
      obtain ⟨hlen, P, hd, he⟩ := (publicAccept_iff b).mp ha
      refine ⟨rfl, ⟨P, hd, he⟩, ?_, fun rest => consensusDecode_encode _ _ _ hlen ha⟩
      unfold publicFromStr keyToString publicFromSlice
      rw [hexDecode_hexEncode]; simp [ha]
    · rw [if_neg ha] at h; simp at h
  · intro h
    unfold secretFromSlice at h
    by_cases ha : secretAccept b = true
    · rw [if_pos ha] at h
      have hk : b = k := by simpa using h
      subst hk
      obtain ⟨hlen, hlt⟩ := (secretAccept_iff b).mp ha
      refine ⟨rfl, ?_, ?_, fun rest => consensusDecode_encode _ _ _ hlen ha⟩
      · rw [Nat.mod_eq_of_lt hlt, ← hlen]; exact toBytesLE_leNat b
      · unfold secretFromStr keyToString secretFromSlice
        rw [hexDecode_hexEncode]; simp [ha]
    · rw [if_neg ha] at h; simp at h

/-- the hypotheses are satisfiable: the base point encoding and a mid-range scalar are accepted, l itself is not -/
example : secretAccept (toBytesLE (Ed.l - 1) 32) = true ∧ secretAccept (toBytesLE Ed.l 32) = false := by decide +kernel
set_option maxRecDepth 100000 in
example : publicAccept (toBytesLE Ed.Gy 32) = true := by decide +kernel


/-! ### key arithmetic is the group law

The spec side of the arithmetic operations (`c13_pub_of`, `c13_add`, `c13_sub`, `c13_smul`: what dalek's results are compared
with on every run) is the executable reference `Ref/Ed25519.lean`. These theorems say what that reference computes: the
operations of the abelian group of points of the twisted Edwards curve (`Proofs/EdwardsGroup.lean`), through the encoding
that `PublicKey::from_slice` accepts. -/
section GroupLaw
open Monero.Edw
/-- the points of −x² + y² = 1 + d·x²·y² over GF(2^255 − 19) form an abelian group under the complete addition law -/
theorem C13_curve_points_form_a_group : Nonempty (AddCommGroup EdPoint) := ⟨inferInstance⟩
/-- addition, subtraction, scalar multiplication (k < 2^260), the base point, encoding and strict decoding of the reference
instance are those of that group: `toPoint (add a b) = toPoint a + toPoint b`, `toPoint (smul k a) = k • toPoint a`, … -/
theorem C13_group_law : RefinesEd Drv.refOps := refOps_refines_edOps
/-- the base point has order exactly `l` (so `PublicKey::from_private_key` is injective on reduced scalars) -/
theorem C13_base_point_order : addOrderOf edOps.base = Ed.l := addOrderOf_base
/-- the encoding is injective on points and strict decoding inverts it: accepted key bytes and curve points correspond one to one -/
theorem C13_encoding_bijective : Function.Injective edOps.enc ∧ ∀ A : EdPoint, edOps.dec (edOps.enc A) = some A :=
  ⟨edOps_lawful.enc_inj, edOps_lawful.dec_enc⟩
end GroupLaw
end C13
