import MoneroModel.Proofs.Group
import MoneroModel.Proofs.GroupInstance
import MoneroModel.Model.SubAddr
import MoneroModel.Proofs.Address
import MoneroModel.Proofs.Base58Imp
import MoneroModel.Proofs.EdwardsLawful
import MoneroModel.Proofs.SubAddrDistinct
import MoneroModel.Proofs.GroupRefine
/-! C11 — "Subaddress keys follow Monero's derivation on both the secret and public side".
About the model of src/cryptonote/subaddress.rs (`Monero.subScalar`, `subSpendPub`, `subPublicKeys`, `subSpendSec`,
`subViewSec` in Model/Crypto.lean; `getSubaddress` in Model/SubAddr.lean) and the by-the-book definitions in
`Spec.Sender`. For every additive commutative group and every lawful `ops` (Proofs/Group.lean).
Wallet: view secret `v`, spend secret `s`, spend public key `S` (`= s•G` where stated). -/
namespace C11
open Monero
variable {P : Type} [AddCommGroup P] {ops : CryptoOps P}

/-- the hypotheses are satisfiable -/
example : Lawful zmodOps ∧ ∃ (s : ℕ) (S : ZMod zN), S = s • zmodOps.base := ⟨zmodOps_lawful, 5, _, rfl⟩

/-- for every index other than (0,0) all four derivations are Monero's:
`S' = S + m•G`, `V' = v•S'`, `s' = (s + m) mod l`, `v' = (v·s') mod l` with `m = Hs("SubAddr\0" ‖ v ‖ i_le32 ‖ j_le32)` -/
theorem C11_keys_are_monero (L : Lawful ops) (v s : ℕ) (S : P) (i j : ℕ) (hij : ¬ (i = 0 ∧ j = 0)) :
    subSpendPub ops v S i j = S + Spec.Sender.subScalar (specPrims ops) v i j • ops.base ∧
    subPublicKeys ops v S i j
      = (v • (S + Spec.Sender.subScalar (specPrims ops) v i j • ops.base),
         S + Spec.Sender.subScalar (specPrims ops) v i j • ops.base) ∧
    subSpendSec ops v s i j = (s + Spec.Sender.subScalar (specPrims ops) v i j) % ops.l ∧
    subViewSec ops v s i j = (v * ((s + Spec.Sender.subScalar (specPrims ops) v i j) % ops.l)) % ops.l := by
  have hz : idxZero i j = false := by
    cases h : idxZero i j
    · rfl
    · exact absurd ((Lawful.idxZero_iff i j).1 h) hij
  have h1 : subSpendPub ops v S i j = S + Spec.Sender.subScalar (specPrims ops) v i j • ops.base := by
    rw [Lawful.subSpendPub_eq_spec]; unfold Spec.Sender.destAt; rw [if_neg hij]; exact L.spec_subSpend_val v S i j
  have h3 : subSpendSec ops v s i j = (s + Spec.Sender.subScalar (specPrims ops) v i j) % ops.l := by
    unfold subSpendSec; rw [hz, subScalar_eq]; rfl
  refine ⟨h1, ?_, h3, ?_⟩
  · rw [Lawful.subPublicKeys_eq_spec]; unfold Spec.Sender.destAt; rw [if_neg hij]
    show (Spec.Sender.subView (specPrims ops) v S i j, Spec.Sender.subSpend (specPrims ops) v S i j) = _
    rw [L.spec_subView_val, L.spec_subSpend_val]
  · unfold subViewSec; rw [hz, h3]; rfl

omit [AddCommGroup P] in
/-- the model's keys are those of the specification's address at index (i,j), for every index -/
theorem C11_keys_are_spec (v s : ℕ) (S : P) (i j : ℕ) :
    subPublicKeys ops v S i j
      = ((Spec.Sender.destAt (specPrims ops) v S i j).view, (Spec.Sender.destAt (specPrims ops) v S i j).spend) ∧
    subSpendPub ops v S i j = (Spec.Sender.destAt (specPrims ops) v S i j).spend ∧
    (¬ (i = 0 ∧ j = 0) → subSpendSec ops v s i j = Spec.Sender.subSpendSec (specPrims ops) v s i j ∧
                         subViewSec ops v s i j = Spec.Sender.subViewSec (specPrims ops) v s i j) := by
  refine ⟨Lawful.subPublicKeys_eq_spec v S i j, Lawful.subSpendPub_eq_spec v S i j, fun hij => ?_⟩
  have hz : idxZero i j = false := by
    cases h : idxZero i j
    · rfl
    · exact absurd ((Lawful.idxZero_iff i j).1 h) hij
  have h3 : subSpendSec ops v s i j = Spec.Sender.subSpendSec (specPrims ops) v s i j := by
    unfold subSpendSec Spec.Sender.subSpendSec; rw [hz, subScalar_eq]; rfl
  exact ⟨h3, by unfold subViewSec Spec.Sender.subViewSec; rw [hz, h3]; rfl⟩

/-- the secret-side derivation yields exactly the secret keys of the public-side keys: when `S = s•G`,
`S' = s'•G`, `V' = v'•G` (every index, (0,0) included), and `get_public_keys` returns `get_spend_public_key` as spend key -/
theorem C11_public_secret_agree (L : Lawful ops) (v s : ℕ) (S : P) (hS : S = s • ops.base) (i j : ℕ) :
    subSpendPub ops v S i j = subSpendSec ops v s i j • ops.base ∧
    (subPublicKeys ops v S i j).1 = subViewSec ops v s i j • ops.base ∧
    (subPublicKeys ops v S i j).2 = subSpendPub ops v S i j := by
  refine ⟨(L.subSpendSec_pub v s S hS i j).symm, (L.subViewSec_pub v s S hS i j).symm, ?_⟩
  rw [Lawful.subPublicKeys_eq_spec, Lawful.subSpendPub_eq_spec]

/-- index (0,0) yields the wallet's primary keys unchanged: (V, S) = (v•G, S) and (v, s) -/
theorem C11_zero_index (L : Lawful ops) (v s : ℕ) (S : P) :
    subPublicKeys ops v S 0 0 = (v • ops.base, S) ∧ subSpendPub ops v S 0 0 = S ∧
    subSpendSec ops v s 0 0 = s ∧ subViewSec ops v s 0 0 = v := by
  refine ⟨?_, rfl, rfl, rfl⟩
  show (pubOf ops v, S) = _; rw [L.pubOf_eq]

/-- an index with exactly one zero component is NOT treated as the primary address: (0,j) and (i,0) with the other
component non-zero take the derivation branch (`Index::is_zero` is false) and give Monero's subaddress keys -/
theorem C11_single_zero_component_is_not_zero (L : Lawful ops) (v s : ℕ) (S : P) (k : ℕ) (hk : k ≠ 0) :
    idxZero 0 k = false ∧ idxZero k 0 = false ∧
    subSpendPub ops v S 0 k = S + Spec.Sender.subScalar (specPrims ops) v 0 k • ops.base ∧
    subSpendPub ops v S k 0 = S + Spec.Sender.subScalar (specPrims ops) v k 0 • ops.base ∧
    subSpendSec ops v s 0 k = (s + Spec.Sender.subScalar (specPrims ops) v 0 k) % ops.l ∧
    subSpendSec ops v s k 0 = (s + Spec.Sender.subScalar (specPrims ops) v k 0) % ops.l ∧
    (subPublicKeys ops v S 0 k).1 = v • subSpendPub ops v S 0 k ∧
    (subPublicKeys ops v S k 0).1 = v • subSpendPub ops v S k 0 := by
  have h0k : ¬ ((0 : ℕ) = 0 ∧ k = 0) := fun h => hk h.2
  have hk0 : ¬ (k = 0 ∧ (0 : ℕ) = 0) := fun h => hk h.1
  have a := C11_keys_are_monero L v s S 0 k h0k
  have b := C11_keys_are_monero L v s S k 0 hk0
  refine ⟨?_, ?_, a.1, b.1, a.2.2.1, b.2.2.1, ?_, ?_⟩
  · cases h : idxZero 0 k
    · rfl
    · exact absurd ((Lawful.idxZero_iff 0 k).1 h) h0k
  · cases h : idxZero k 0
    · rfl
    · exact absurd ((Lawful.idxZero_iff k 0).1 h) hk0
  · rw [a.2.1, a.1]
  · rw [b.2.1, b.1]

omit [AddCommGroup P] in
/-- the hashed message is `"SubAddr\0" ‖ v (32 bytes LE) ‖ i (4 bytes LE) ‖ j (4 bytes LE)` — 48 bytes — and for 32-bit
indices it determines the index (and `u32` little-endian encoding is injective). Conjunct 1 only NAMES the argument of the hash in the
model (`subPreimage` is that argument copied out, `rfl`); the content is conjunct 2 (these are the specification's bytes), 3 (the salt
literal) and the injectivity. Remark: the statement holds for every natural `v` because `toBytesLE v 32` truncates; nothing is claimed
about injectivity in `v`, and in Rust `v < l` (`PrivateKey::from_slice` = `from_canonical_bytes`; the driver enforces it). -/
theorem C11_preimage (v i j : ℕ) :
    subScalar ops v i j = hsOf ops (subPreimage v i j) ∧
    subPreimage v i j = Spec.Sender.subAddrSalt ++ Spec.Sender.scalar32 v ++ Spec.Sender.u32le i ++ Spec.Sender.u32le j ∧
    Spec.Sender.subAddrSalt = [83, 117, 98, 65, 100, 100, 114, 0] ∧
    (subPreimage v i j).length = 48 ∧
    (∀ a b, a < 2 ^ 32 → b < 2 ^ 32 → le32 a = le32 b → a = b) ∧
    (∀ i' j', i < 2 ^ 32 → j < 2 ^ 32 → i' < 2 ^ 32 → j' < 2 ^ 32 →
        subPreimage v i j = subPreimage v i' j' → i = i' ∧ j = j') := by
  refine ⟨rfl, ?_, by decide, ?_, fun a b ha hb h => le32_injective ha hb h,
    fun i' j' hi hj hi' hj' h => subPreimage_injective hi hj hi' hj' h⟩
  · unfold subPreimage; rw [subaddrSalt_eq, scalarBytes_eq, le32_eq, le32_eq]
  · unfold subPreimage
    simp only [List.length_append, le32_length, scalarBytes_length]; rfl

/-- PARTIAL: "distinct indices yield distinct keys" cannot be proved outright — `S + m•G = S + m'•G` whenever the
two subaddress scalars coincide, and nothing about Keccak excludes that. What IS proved: for two distinct non-zero
32-bit indices the hashed messages differ (C11_preimage), and the spend keys (hence their 32-byte encodings, hence the
addresses) differ UNDER EXACTLY THESE ASSUMPTIONS: (1) `Hs` does not collide on the two messages
(`hsOf ops (subPreimage v i j) ≠ hsOf ops (subPreimage v i' j')`), (2) the base point has order exactly `l`
(`∀ k < l, k•G = 0 → k = 0`; `Lawful` only gives `l•G = 0`). Against the primary key `S` (index (0,0)) the assumption is
`Hs(message) ≠ 0`. -/
theorem C11_distinct_keys_partial (L : Lawful ops) (v : ℕ) (S : P) (i j i' j' : ℕ)
    (hij : ¬ (i = 0 ∧ j = 0)) (hij' : ¬ (i' = 0 ∧ j' = 0))
    (hord : ∀ k, k < ops.l → k • ops.base = 0 → k = 0)
    (hcoll : hsOf ops (subPreimage v i j) ≠ hsOf ops (subPreimage v i' j')) :
    subSpendPub ops v S i j ≠ subSpendPub ops v S i' j' ∧
    ops.enc (subSpendPub ops v S i j) ≠ ops.enc (subSpendPub ops v S i' j') ∧
    (hsOf ops (subPreimage v i j) ≠ 0 → subSpendPub ops v S i j ≠ subSpendPub ops v S 0 0) := by
  have key : ∀ m m' : ℕ, m < ops.l → m' < ops.l → m ≤ m' → S + m • ops.base = S + m' • ops.base → m = m' := by
    intro m m' _ hm' hle h
    have h1 := add_left_cancel h
    obtain ⟨d, rfl⟩ := Nat.exists_eq_add_of_le hle
    rw [add_smul] at h1
    have h2 : d • ops.base = 0 := by
      have : m • ops.base + 0 = m • ops.base + d • ops.base := by rw [add_zero]; exact h1
      exact (add_left_cancel this).symm
    have := hord d (by omega) h2
    omega
  have hm := hsOf_lt ops L.l_pos (subPreimage v i j)
  have hm' := hsOf_lt ops L.l_pos (subPreimage v i' j')
  have e1 := (C11_keys_are_monero L v 0 S i j hij).1
  have e2 := (C11_keys_are_monero L v 0 S i' j' hij').1
  rw [← subScalar_eq, subScalar_preimage] at e1 e2
  have hne : subSpendPub ops v S i j ≠ subSpendPub ops v S i' j' := by
    rw [e1, e2]
    intro h
    rcases Nat.le_total (hsOf ops (subPreimage v i j)) (hsOf ops (subPreimage v i' j')) with hle | hle
    · exact hcoll (key _ _ hm hm' hle h)
    · exact hcoll (key _ _ hm' hm hle h.symm).symm
  refine ⟨hne, fun h => hne (L.enc_inj h), fun h0 h => ?_⟩
  rw [e1] at h
  have : subSpendPub ops v S 0 0 = S + 0 • ops.base := by rw [zero_smul, add_zero]; rfl
  rw [this] at h
  exact h0 (key 0 _ L.l_pos hm (Nat.zero_le _) h.symm).symm

/-- `get_subaddress`: a SubAddress-typed address, on the requested network (Mainnet when `None`), carrying the encodings
of `get_public_keys`' spend and view keys; for an index other than (0,0) these are `S'` and `V' = v•S'`. Its text is the
by-the-book address text (C12 layout: tag ‖ spend ‖ view ‖ checksum, Monero base58) of that tuple, for every checksum
function `H`.
OBSERVATION (deviation from Monero's wallet, not from the letter of C11): the statement holds for EVERY index, (0,0)
included — `get_subaddress` never tests the index, so at (0,0) it returns a SubAddress-TYPED address (text starting with
'8' on mainnet) carrying the PRIMARY keys (v•G, S) (see C11_zero_index). Monero's wallet prints the Standard-typed primary
address there (`get_account_address_as_str(.., subaddress = !index.is_zero(), ..)`); a sender honouring the '8'-text would
publish R = r•S, for which the wallet's derivation 8•(v•R) differs from the sender's 8•(r•V) unless s = 1. -/
theorem C11_address (L : Lawful ops) (H : Bytes → Bytes) (v : ℕ) (S : P) (i j : ℕ) (network : Option Net) :
    (getSubaddress ops v S i j network).kind = Kind.SubAddress ∧
    (getSubaddress ops v S i j network).net = network.getD Net.Mainnet ∧
    (getSubaddress ops v S i j none).net = Net.Mainnet ∧
    (∀ n, (getSubaddress ops v S i j (some n)).net = n) ∧
    (getSubaddress ops v S i j network).pid = [] ∧
    (getSubaddress ops v S i j network).spend = ops.enc (subSpendPub ops v S i j) ∧
    (getSubaddress ops v S i j network).view = ops.enc (subPublicKeys ops v S i j).1 ∧
    (¬ (i = 0 ∧ j = 0) →
      (getSubaddress ops v S i j network).spend
          = ops.enc (S + Spec.Sender.subScalar (specPrims ops) v i j • ops.base) ∧
      (getSubaddress ops v S i j network).view
          = ops.enc (v • (S + Spec.Sender.subScalar (specPrims ops) v i j • ops.base))) ∧
    Address.toStr H (getSubaddress ops v S i j network)
      = some (Spec.Address.text H (network.getD Net.Mainnet) Kind.SubAddress
                (ops.enc (subSpendPub ops v S i j)) (ops.enc (subPublicKeys ops v S i j).1) []) := by
  have hsp : (subPublicKeys ops v S i j).2 = subSpendPub ops v S i j := by
    rw [Lawful.subPublicKeys_eq_spec, Lawful.subSpendPub_eq_spec]
  have hspend : (getSubaddress ops v S i j network).spend = ops.enc (subSpendPub ops v S i j) := by
    rw [← hsp]; rfl
  refine ⟨rfl, rfl, rfl, fun _ => rfl, rfl, hspend, rfl, fun hij => ?_, ?_⟩
  · have h := C11_keys_are_monero L v 0 S i j hij
    constructor
    · rw [hspend, h.1]
    · show ops.enc (subPublicKeys ops v S i j).1 = _; rw [h.2.1]
  · rw [Address.toStr, B58.encode_eq, Address.asBytes_eq_blob H _ (fun _ => rfl), hspend]; rfl

/-! ### canonical secret keys, `get_secret_keys`, `get_secret_scalar` -/

/-- sanity lemma: the derived secret keys are REDUCED scalars (valid `PrivateKey`s), and so is the subaddress scalar `m` itself
(`get_secret_scalar`). This is a property of how the model is written (every path ends in `% l`, as dalek's `Scalar` arithmetic
does), NOT the evidence for clause (c) "exactly the secret keys" — that is `C11_public_secret_agree` together with
`C11_secret_keys_unique` below. -/
theorem C11_secret_reduced (L : Lawful ops) (v s : ℕ) (i j : ℕ) (hij : ¬ (i = 0 ∧ j = 0)) :
    subScalar ops v i j < ops.l ∧ subSpendSec ops v s i j < ops.l ∧ subViewSec ops v s i j < ops.l := by
  have h := C11_keys_are_monero L v s (0 : P) i j hij
  refine ⟨Nat.mod_lt _ L.l_pos, ?_, ?_⟩
  · rw [h.2.2.1]; exact Nat.mod_lt _ L.l_pos
  · rw [h.2.2.2]; exact Nat.mod_lt _ L.l_pos

/-- hypotheses of `C11_secret_keys_unique` are satisfiable on Ed25519 (`C11_secret_keys_unique_ed25519` discharges `hord`) -/
example : (5 : ℕ) < Ed.l ∧ (7 : ℕ) < Ed.l := by decide

/-- clause (c), "EXACTLY the secret keys": when the base point has order exactly `l`, the derived spend / view secrets are the
UNIQUE reduced scalars whose multiple of `G` is the derived public spend / view key (`s < l`, `v < l` are needed only at index (0,0),
where the functions return their arguments unchanged) -/
theorem C11_secret_keys_unique (L : Lawful ops) (hord : ∀ k, k < ops.l → k • ops.base = 0 → k = 0) (v s : ℕ) (S : P)
    (hS : S = s • ops.base) (hs : s < ops.l) (hv : v < ops.l) (i j : ℕ) :
    (∀ k, k < ops.l → k • ops.base = subSpendPub ops v S i j → k = subSpendSec ops v s i j) ∧
    (∀ k, k < ops.l → k • ops.base = (subPublicKeys ops v S i j).1 → k = subViewSec ops v s i j) := by
  have hsl : subSpendSec ops v s i j < ops.l := by
    unfold subSpendSec; split
    · exact hs
    · exact Nat.mod_lt _ L.l_pos
  have hvl : subViewSec ops v s i j < ops.l := by
    unfold subViewSec; split
    · exact hv
    · exact Nat.mod_lt _ L.l_pos
  constructor
  · intro k hk h
    rw [← L.subSpendSec_pub v s S hS i j, smul_base_eq_iff L hord, Nat.mod_eq_of_lt hk, Nat.mod_eq_of_lt hsl] at h
    exact h
  · intro k hk h
    rw [← L.subViewSec_pub v s S hS i j, smul_base_eq_iff L hord, Nat.mod_eq_of_lt hk, Nat.mod_eq_of_lt hvl] at h
    exact h

/-- `get_secret_keys` is the pair of secret keys of `get_public_keys`' pair (view, spend), in the same order (conjuncts 2-3:
`C11_public_secret_agree` read through the pair). Conjunct 1 is the model's DEFINITION of `subSecretKeys` restated (`rfl`); that the
Rust function returns its two fields in this order is evidence of the differential op `c11_sub_keys` only, not of this theorem. -/
theorem C11_secret_keys_pair (L : Lawful ops) (v s : ℕ) (S : P) (hS : S = s • ops.base) (i j : ℕ) :
    subSecretKeys ops v s i j = (subViewSec ops v s i j, subSpendSec ops v s i j) ∧
    (subSecretKeys ops v s i j).1 • ops.base = (subPublicKeys ops v S i j).1 ∧
    (subSecretKeys ops v s i j).2 • ops.base = (subPublicKeys ops v S i j).2 := by
  have h := C11_public_secret_agree L v s S hS i j
  exact ⟨rfl, h.2.1.symm, by rw [h.2.2, h.1]; rfl⟩

/-! ### distinct indices -/

/-- hypotheses of `C11_distinct_keys_or_collision` about the indices are satisfiable (those about `ops` hold for Ed25519:
`C11_distinct_keys_or_collision_ed25519`) -/
example : (1 : ℕ) < 2 ^ 32 ∧ ((0 : ℕ), (1 : ℕ)) ≠ (1, 0) ∧ ¬ ((0 : ℕ) = 0 ∧ (1 : ℕ) = 0) := by decide

/-- **clause (e) for two indices OTHER THAN (0,0)** (for (0,0) against a subaddress see `C11_primary_vs_subaddress` and
`C11_primary_vs_subaddress_view` — there the dichotomy is a different one). The hash assumption appears as the LEFT DISJUNCT
(logically this is `C11_distinct_keys_partial`'s `hcoll` moved into the conclusion; what is new: the two preimages are proved
distinct, so the left disjunct is a genuine collision, and more is concluded). For two DISTINCT 32-bit indices other than (0,0),
the two hashed 48-byte messages are distinct, and EITHER `Hs` collides on them (an explicit collision of Keccak-mod-l on two distinct
48-byte strings) OR: the public spend keys, their 32-byte encodings, the secret SPEND keys and the address texts (every checksum
function, every network) are distinct, and — when the view secret is not 0 mod l — so are the public view keys and the secret VIEW
keys. Needs: the base point has order exactly `l`, `l` prime, keys encode to 32 bytes. -/
theorem C11_distinct_keys_or_collision (L : Lawful ops) (hord : ∀ k, k < ops.l → k • ops.base = 0 → k = 0)
    (hp : Nat.Prime ops.l) (hlen : ∀ A : P, (ops.enc A).length = 32) (H : Bytes → Bytes) (v s : ℕ) (S : P)
    (i j i' j' : ℕ) (hi : i < 2 ^ 32) (hj : j < 2 ^ 32) (hi' : i' < 2 ^ 32) (hj' : j' < 2 ^ 32)
    (hne : (i, j) ≠ (i', j')) (hij : ¬ (i = 0 ∧ j = 0)) (hij' : ¬ (i' = 0 ∧ j' = 0)) (network : Option Net) :
    subPreimage v i j ≠ subPreimage v i' j' ∧ (subPreimage v i j).length = 48 ∧ (subPreimage v i' j').length = 48 ∧
    (hsOf ops (subPreimage v i j) = hsOf ops (subPreimage v i' j') ∨
      (subSpendPub ops v S i j ≠ subSpendPub ops v S i' j' ∧
       ops.enc (subSpendPub ops v S i j) ≠ ops.enc (subSpendPub ops v S i' j') ∧
       subSpendSec ops v s i j ≠ subSpendSec ops v s i' j' ∧
       Address.toStr H (getSubaddress ops v S i j network) ≠ Address.toStr H (getSubaddress ops v S i' j' network) ∧
       (v % ops.l ≠ 0 → (subPublicKeys ops v S i j).1 ≠ (subPublicKeys ops v S i' j').1) ∧
       (v % ops.l ≠ 0 → subViewSec ops v s i j ≠ subViewSec ops v s i' j'))) := by
  have hpre : subPreimage v i j ≠ subPreimage v i' j' := fun h =>
    hne (by have := subPreimage_injective hi hj hi' hj' h; rw [this.1, this.2])
  refine ⟨hpre, (C11_preimage (ops := ops) v i j).2.2.2.1, (C11_preimage (ops := ops) v i' j').2.2.2.1, ?_⟩
  by_cases hc : hsOf ops (subPreimage v i j) = hsOf ops (subPreimage v i' j')
  · exact Or.inl hc
  right
  have hm := hsOf_lt ops L.l_pos (subPreimage v i j)
  have hm' := hsOf_lt ops L.l_pos (subPreimage v i' j')
  have e : ∀ T : P, subSpendPub ops v T i j = T + hsOf ops (subPreimage v i j) • ops.base ∧
      subSpendPub ops v T i' j' = T + hsOf ops (subPreimage v i' j') • ops.base := by
    intro T
    have e1 := (C11_keys_are_monero L v 0 T i j hij).1
    have e2 := (C11_keys_are_monero L v 0 T i' j' hij').1
    rw [← subScalar_eq, subScalar_preimage] at e1 e2
    exact ⟨e1, e2⟩
  have hpub : ∀ T : P, subSpendPub ops v T i j ≠ subSpendPub ops v T i' j' := by
    intro T h
    rw [(e T).1, (e T).2] at h
    exact hc (add_smul_base_inj hord T _ _ hm hm' h)
  have hview : ∀ T : P, v % ops.l ≠ 0 → (subPublicKeys ops v T i j).1 ≠ (subPublicKeys ops v T i' j').1 := by
    intro T hv h
    have v1 := (C11_keys_are_monero L v 0 T i j hij).2.1
    have v2 := (C11_keys_are_monero L v 0 T i' j' hij').2.1
    rw [v1, v2, ← subScalar_eq, ← subScalar_eq, subScalar_preimage, subScalar_preimage] at h
    exact hc (smul_add_smul_base_inj L hord hp v hv T _ _ hm hm' h)
  refine ⟨hpub S, fun h => hpub S (L.enc_inj h), ?_, ?_, hview S, ?_⟩
  · intro h
    apply hpub (s • ops.base)
    rw [← L.subSpendSec_pub v s _ rfl i j, ← L.subSpendSec_pub v s _ rfl i' j', h]
  · intro h
    rw [(C11_address L H v S i j network).2.2.2.2.2.2.2.2, (C11_address L H v S i' j' network).2.2.2.2.2.2.2.2] at h
    exact hpub S (L.enc_inj (text_spend_inj H _ _ _ _ _ _ _ _ (by rw [hlen, hlen]) (Option.some.inj h)))
  · intro hv h
    apply hview (s • ops.base) hv
    rw [← L.subViewSec_pub v s _ rfl i j, ← L.subViewSec_pub v s _ rfl i' j', h]

/-- remark to clause (e): the public VIEW keys of a wallet whose view secret is 0 mod l all collide (they are the identity)
— why the view-key conjunct above carries `v % l ≠ 0` -/
theorem C11_view_keys_collide_when_view_zero (L : Lawful ops) (v s : ℕ) (S : P) (hS : S = s • ops.base)
    (hv : v % ops.l = 0) (i j : ℕ) (hij : ¬ (i = 0 ∧ j = 0)) : (subPublicKeys ops v S i j).1 = 0 := by
  rw [(C11_public_secret_agree L v s S hS i j).2.1, (C11_keys_are_monero L v s S i j hij).2.2.2, Nat.mul_mod, hv,
    Nat.zero_mul, Nat.zero_mod, zero_smul]

/-! ### the primary address (0,0) against a subaddress

`C11_distinct_keys_or_collision` needs BOTH indices ≠ (0,0). Against (0,0) the facts are different: the SPEND keys coincide exactly
when the subaddress scalar `m = Hs(message)` is 0 (a preimage of 0 — not a collision between two messages), and the VIEW keys
`V = v•G`, `V' = v•(s+m)•G` coincide exactly when `v·(s+m) ≡ v (mod l)`, i.e. (l prime, v ≢ 0) when `s + m ≡ 1 (mod l)` — a relation
between the wallet's spend secret and one hash value, no hash collision at all. -/

/-- index hypothesis of the two theorems below is satisfiable; those about `ops` hold for Ed25519 (`…_ed25519`) -/
example : ¬ ((0 : ℕ) = 0 ∧ (1 : ℕ) = 0) := by decide

/-- **(0,0) against (i,j) ≠ (0,0), spend side and text.** The public spend key of the subaddress equals the primary spend key
EXACTLY WHEN the subaddress scalar `m = Hs("SubAddr\0" ‖ v ‖ i ‖ j)` is 0; and if it is not, the spend keys, their encodings, the
secret spend keys AS SCALARS (residues mod `l`) and the texts of `get_subaddress` at (i,j) and at (0,0) (every checksum function,
every network) all differ. The primary side is written with the functions at index (0,0) (`subSpendPub … 0 0` is `S`, `subSpendSec … 0 0`
is `s`: `C11_zero_index`). The secret at (0,0) is returned unreduced by the model while the one at (i,j) is `< l`, so a comparison of the
two NATURALS would hold for the wrong reason when `s ≥ l`; the conjunct therefore compares with `s % l` (Rust's `PrivateKey` only has
`s < l`, where `% l` is the identity). Needs the base point of order exactly `l` and 32-byte encodings. -/
theorem C11_primary_vs_subaddress (L : Lawful ops) (hord : ∀ k, k < ops.l → k • ops.base = 0 → k = 0)
    (hlen : ∀ A : P, (ops.enc A).length = 32) (H : Bytes → Bytes) (v s : ℕ) (S : P) (i j : ℕ) (hij : ¬ (i = 0 ∧ j = 0))
    (network : Option Net) :
    (subSpendPub ops v S i j = subSpendPub ops v S 0 0 ↔ hsOf ops (subPreimage v i j) = 0) ∧
    (hsOf ops (subPreimage v i j) = 0 ∨
      (subSpendPub ops v S i j ≠ subSpendPub ops v S 0 0 ∧
       ops.enc (subSpendPub ops v S i j) ≠ ops.enc (subSpendPub ops v S 0 0) ∧
       subSpendSec ops v s i j ≠ subSpendSec ops v s 0 0 % ops.l ∧
       Address.toStr H (getSubaddress ops v S i j network) ≠ Address.toStr H (getSubaddress ops v S 0 0 network))) := by
  have hm := hsOf_lt ops L.l_pos (subPreimage v i j)
  have e : ∀ T : P, subSpendPub ops v T i j = T + hsOf ops (subPreimage v i j) • ops.base := by
    intro T
    have e1 := (C11_keys_are_monero L v 0 T i j hij).1
    rw [← subScalar_eq, subScalar_preimage] at e1
    exact e1
  have hiff : ∀ T : P, subSpendPub ops v T i j = T ↔ hsOf ops (subPreimage v i j) = 0 := by
    intro T
    rw [e T]
    constructor
    · intro h
      have h' : T + hsOf ops (subPreimage v i j) • ops.base = T + 0 • ops.base := by rw [zero_smul, add_zero]; exact h
      exact add_smul_base_inj hord T _ 0 hm L.l_pos h'
    · intro h; rw [h, zero_smul, add_zero]
  have h00 : subSpendPub ops v S 0 0 = S := rfl
  rw [h00]
  refine ⟨hiff S, ?_⟩
  by_cases hc : hsOf ops (subPreimage v i j) = 0
  · exact Or.inl hc
  right
  have hpub : ∀ T : P, subSpendPub ops v T i j ≠ T := fun T h => hc ((hiff T).1 h)
  refine ⟨hpub S, fun h => hpub S (L.enc_inj h), ?_, ?_⟩
  · intro h
    apply hpub (s • ops.base)
    rw [← L.subSpendSec_pub v s _ rfl i j, h]
    exact L.smul_mod_base s
  · intro h
    rw [(C11_address L H v S i j network).2.2.2.2.2.2.2.2, (C11_address L H v S 0 0 network).2.2.2.2.2.2.2.2] at h
    exact hpub S (L.enc_inj (text_spend_inj H _ _ _ _ _ _ _ _ (by rw [hlen, hlen]) (Option.some.inj h)))

/-- the congruence of `C11_primary_vs_subaddress_view` is satisfiable for EVERY value `m` of the hash: `s = (l + 1 − m) mod l` -/
example (l m : ℕ) (hm : m < l) : ((l + 1 - m) % l + m) % l = 1 % l := by
  rw [Nat.mod_add_mod, Nat.sub_add_cancel (by omega), Nat.add_mod_left]

/-- **(0,0) against (i,j) ≠ (0,0), view side — the true dichotomy.** For a wallet with `S = s•G` and `m` the subaddress scalar:
the public VIEW key of the subaddress equals the primary view key `v•G` EXACTLY WHEN `v·(s+m) ≡ v (mod l)`; for prime `l` and
`v ≢ 0` that is EXACTLY WHEN `s + m ≡ 1 (mod l)`. This is not a hash collision: for every value of `m` there is a spend secret `s`
with coinciding view keys (example above). For `v < l` the secret view keys coincide exactly when the public ones do. -/
theorem C11_primary_vs_subaddress_view (L : Lawful ops) (hord : ∀ k, k < ops.l → k • ops.base = 0 → k = 0)
    (v s : ℕ) (S : P) (hS : S = s • ops.base) (i j : ℕ) (hij : ¬ (i = 0 ∧ j = 0)) :
    ((subPublicKeys ops v S i j).1 = (subPublicKeys ops v S 0 0).1
        ↔ (v * (s + hsOf ops (subPreimage v i j))) % ops.l = v % ops.l) ∧
    (Nat.Prime ops.l → v % ops.l ≠ 0 →
      ((subPublicKeys ops v S i j).1 = (subPublicKeys ops v S 0 0).1
        ↔ (s + hsOf ops (subPreimage v i j)) % ops.l = 1 % ops.l)) ∧
    (v < ops.l →
      (subViewSec ops v s i j = subViewSec ops v s 0 0
        ↔ (subPublicKeys ops v S i j).1 = (subPublicKeys ops v S 0 0).1)) := by
  have hvs : subViewSec ops v s i j = (v * ((s + hsOf ops (subPreimage v i j)) % ops.l)) % ops.l := by
    have h := (C11_keys_are_monero L v s S i j hij).2.2.2
    rw [← subScalar_eq, subScalar_preimage] at h
    exact h
  have h0 : subViewSec ops v s 0 0 = v := rfl
  have h1 : (subPublicKeys ops v S i j).1 = (subPublicKeys ops v S 0 0).1
      ↔ (v * (s + hsOf ops (subPreimage v i j))) % ops.l = v % ops.l := by
    rw [← L.subViewSec_pub v s S hS i j, ← L.subViewSec_pub v s S hS 0 0, smul_base_eq_iff L hord, hvs, h0, Nat.mod_mod,
      Nat.mul_mod_mod]
  refine ⟨h1, fun hp hv => ?_, fun hvl => ?_⟩
  · rw [h1]; exact mul_mod_eq_self_iff hp v _ hv
  · rw [← L.subViewSec_pub v s S hS i j, ← L.subViewSec_pub v s S hS 0 0, smul_base_eq_iff L hord, h0,
      Nat.mod_eq_of_lt hvl, hvs, Nat.mod_mod]

/-! ### Ed25519 itself: `Lawful` is a theorem, not an assumption

`Proofs/EdwardsGroup.lean` proves that the affine twisted Edwards curve −x² + y² = 1 + d·x²·y² over GF(2^255 − 19) with the
complete addition law is an abelian group (d is a non-square, −1 a square; associativity by explicit polynomial
certificates); `Proofs/EdwardsRef*.lean` that the executable reference arithmetic `Ref/Ed25519.lean` (extended coordinates,
double-and-add, RFC 8032 compression) computes in that group; `Proofs/EdwardsLawful.lean` that the resulting primitives
record `edOps` (points = curve points, `l·G = 0`, injective encoding accepted by `dec`) is `Lawful`, and that the instance
the compiled driver runs (`Drv.refOps`) refines it operation by operation. The theorems below are the theorems of this
file with that instance plugged in: no hypothesis about the group is left. (That curve25519-dalek computes the same
functions as `Ref/Ed25519.lean` remains a differential tie — dalek is a dependency.) -/
section Ed25519
open Monero.Edw

theorem C11_ed25519_lawful : Lawful edOps ∧ RefinesEd Drv.refOps := ⟨edOps_lawful, refOps_refines_edOps⟩
theorem C11_keys_are_monero_ed25519 : type_of% (@C11_keys_are_monero EdPoint _ edOps edOps_lawful) := C11_keys_are_monero edOps_lawful
theorem C11_public_secret_agree_ed25519 : type_of% (@C11_public_secret_agree EdPoint _ edOps edOps_lawful) :=
  C11_public_secret_agree edOps_lawful
theorem C11_zero_index_ed25519 : type_of% (@C11_zero_index EdPoint _ edOps edOps_lawful) := C11_zero_index edOps_lawful
theorem C11_address_ed25519 : type_of% (@C11_address EdPoint _ edOps edOps_lawful) := C11_address edOps_lawful
theorem C11_secret_reduced_ed25519 : type_of% (@C11_secret_reduced EdPoint _ edOps edOps_lawful) :=
  C11_secret_reduced edOps_lawful
theorem C11_secret_keys_pair_ed25519 : type_of% (@C11_secret_keys_pair EdPoint _ edOps edOps_lawful) :=
  C11_secret_keys_pair edOps_lawful
theorem C11_single_zero_component_is_not_zero_ed25519 :
    type_of% (@C11_single_zero_component_is_not_zero EdPoint _ edOps edOps_lawful) :=
  C11_single_zero_component_is_not_zero edOps_lawful

/-- **clause (e) on Ed25519**: the three hypotheses about the group are theorems there (the base point has order exactly the
prime `l`: `addOrderOf_base`, `Primes.prime_l`; encodings are 32 bytes). What remains is the disjunction itself: distinct
keys, secrets and address texts — or an explicit collision of `Hs` on two distinct 48-byte messages. -/
theorem C11_distinct_keys_or_collision_ed25519 (H : Bytes → Bytes) (v s : ℕ) (S : EdPoint)
    (i j i' j' : ℕ) (hi : i < 2 ^ 32) (hj : j < 2 ^ 32) (hi' : i' < 2 ^ 32) (hj' : j' < 2 ^ 32)
    (hne : (i, j) ≠ (i', j')) (hij : ¬ (i = 0 ∧ j = 0)) (hij' : ¬ (i' = 0 ∧ j' = 0)) (network : Option Net) :
    subPreimage v i j ≠ subPreimage v i' j' ∧ (subPreimage v i j).length = 48 ∧ (subPreimage v i' j').length = 48 ∧
    (hsOf edOps (subPreimage v i j) = hsOf edOps (subPreimage v i' j') ∨
      (subSpendPub edOps v S i j ≠ subSpendPub edOps v S i' j' ∧
       edOps.enc (subSpendPub edOps v S i j) ≠ edOps.enc (subSpendPub edOps v S i' j') ∧
       subSpendSec edOps v s i j ≠ subSpendSec edOps v s i' j' ∧
       Address.toStr H (getSubaddress edOps v S i j network) ≠ Address.toStr H (getSubaddress edOps v S i' j' network) ∧
       (v % edOps.l ≠ 0 → (subPublicKeys edOps v S i j).1 ≠ (subPublicKeys edOps v S i' j').1) ∧
       (v % edOps.l ≠ 0 → subViewSec edOps v s i j ≠ subViewSec edOps v s i' j'))) :=
  C11_distinct_keys_or_collision edOps_lawful edOps_hord edOps_prime edOps_len H v s S i j i' j' hi hj hi' hj' hne hij hij' network

/-- (0,0) against a subaddress on Ed25519: no hypothesis about the group is left -/
theorem C11_primary_vs_subaddress_ed25519 :
    type_of% (@C11_primary_vs_subaddress EdPoint _ edOps edOps_lawful edOps_hord edOps_len) :=
  C11_primary_vs_subaddress edOps_lawful edOps_hord edOps_len
theorem C11_primary_vs_subaddress_view_ed25519 :
    type_of% (@C11_primary_vs_subaddress_view EdPoint _ edOps edOps_lawful edOps_hord) :=
  C11_primary_vs_subaddress_view edOps_lawful edOps_hord
/-- … and there `l` is prime, so the second conjunct applies to every wallet with `v ≢ 0` -/
theorem C11_l_prime_ed25519 : Nat.Prime edOps.l := edOps_prime
theorem C11_secret_keys_unique_ed25519 : type_of% (@C11_secret_keys_unique EdPoint _ edOps edOps_lawful edOps_hord) :=
  C11_secret_keys_unique edOps_lawful edOps_hord
theorem C11_view_keys_collide_when_view_zero_ed25519 :
    type_of% (@C11_view_keys_collide_when_view_zero EdPoint _ edOps edOps_lawful) :=
  C11_view_keys_collide_when_view_zero edOps_lawful

/-- **the driver's keys are the theorems' keys**: on a valid representative `S` of a spend key, the executable instance
`Drv.refOps` computes what the lawful instance `edOps` computes — for everything the `c11_*` arms print on the model side:
the subaddress scalar (`c11_scalar`), the secret keys (`c11_sub_sec`, `c11_sub_keys`), the encoding of the public spend key, and, for
a view secret below 2^260 (every 32-byte scalar; the driver admits only `v < l`), the encodings of BOTH keys of `get_public_keys`
(`c11_sub_pub` — the view key is `v•S'`, hence the bound) and the whole address record of `get_subaddress`, hence its text
(`c11_sub_addr`) -/
theorem C11_driver_refines (v s : ℕ) (S : Ed.Pt) (hS : Valid S) (i j : ℕ) :
    subScalar Drv.refOps v i j = subScalar edOps v i j ∧
    subSpendSec Drv.refOps v s i j = subSpendSec edOps v s i j ∧
    subViewSec Drv.refOps v s i j = subViewSec edOps v s i j ∧
    subSecretKeys Drv.refOps v s i j = subSecretKeys edOps v s i j ∧
    Drv.refOps.enc (subSpendPub Drv.refOps v S i j) = edOps.enc (subSpendPub edOps v (toPoint S hS) i j) ∧
    (v < 2 ^ 260 →
      Drv.refOps.enc (subPublicKeys Drv.refOps v S i j).1 = edOps.enc (subPublicKeys edOps v (toPoint S hS) i j).1 ∧
      Drv.refOps.enc (subPublicKeys Drv.refOps v S i j).2 = edOps.enc (subPublicKeys edOps v (toPoint S hS) i j).2 ∧
      ∀ (network : Option Net) (H : Bytes → Bytes),
        getSubaddress Drv.refOps v S i j network = getSubaddress edOps v (toPoint S hS) i j network ∧
        Address.toStr H (getSubaddress Drv.refOps v S i j network)
          = Address.toStr H (getSubaddress edOps v (toPoint S hS) i j network)) := by
  have h2 := refines_subSpendSec refOps_refines_edOps v s i j
  have h3 := refines_subViewSec refOps_refines_edOps v s i j
  refine ⟨refines_subScalar refOps_refines_edOps v i j, h2, h3, ?_, ?_, fun hv => ?_⟩
  · unfold subSecretKeys; rw [h2, h3]
  · obtain ⟨h, e⟩ := refines_subSpendPub refOps_refines_edOps v S hS i j
    rw [refOps_refines_edOps.enc _ h, e]
  · obtain ⟨e1, e2⟩ := refines_enc_subPublicKeys refOps_refines_edOps v hv S hS i j
    refine ⟨e1, e2, fun network H => ?_⟩
    have e := refines_getSubaddress refOps_refines_edOps v hv S hS i j network
    exact ⟨e, by rw [e]⟩

/-- the bound of `C11_driver_refines` holds for every scalar the driver admits (`scalarOf`: below `l`) -/
example : Ed.l < 2 ^ 260 := l_lt_260
end Ed25519
end C11
