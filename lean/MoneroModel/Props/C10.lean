import MoneroModel.Proofs.Group
import MoneroModel.Proofs.GroupInstance
import MoneroModel.Proofs.EdwardsLawful
import MoneroModel.Proofs.EdwardsTorsion8
import MoneroModel.Proofs.GroupRefine
import MoneroModel.Proofs.GroupRefineScan
import MoneroModel.Proofs.EdwardsPermissive
import MoneroModel.Drv.C10
/-! C10 — "Key derivation is Monero's cofactor-cleared Diffie-Hellman for every curve point".
About the model `Monero.derive` / `Monero.oneTimeKey` (Model/Crypto.lean: `KeyGenerator::{from_key, from_random, one_time_key,
get_rvn_scalar}` at HEAD of /repo, i.e. after the fix commit) and the by-the-book sender `Spec.Sender`. Every theorem holds
for every additive commutative group `P` and every `ops` whose primitives are that group's operations (`Lawful ops`,
Proofs/Group.lean) — points are arbitrary group elements, so "every point B" includes points with a small-order component.
That dalek's arithmetic is such a group is conformance (C13 / the differential run of this property), not a theorem. -/
namespace C10
open Monero
variable {P : Type} [AddCommGroup P] {ops : CryptoOps P}

/-- the hypotheses are satisfiable: Z/(8l) with base point 8 is lawful. CAUTION: in this toy instance `keccak = fun _ => []`, so every
hash-dependent quantity is degenerate there (`hsOf = 0`, `oneTimeKey D S n = S`, `viewTagOf = 0`); it witnesses the GROUP hypotheses
and carries the counterexample `C10_scalar8_counterexample`, nothing more. The witness with the real Keccak-256 and the real curve
(points outside the `l`-torsion included) is the next example; the `_ed25519` theorems below are the theorems of this file on it. -/
example : Lawful zmodOps := zmodOps_lawful
/-- … and Ed25519 itself with Keccak-256 is lawful (Proofs/EdwardsLawful.lean) -/
example : Lawful Monero.Edw.edOps := Monero.Edw.edOps_lawful

/-- the derivation computed from a scalar `a` and ANY point `B` is `8•(a•B)`, and it is the specification's
`generate_key_derivation` (scalar multiple, then three doublings) -/
theorem C10_derivation (L : Lawful ops) (a : ℕ) (B : P) :
    derive ops a B = 8 • (a • B) ∧ derive ops a B = Spec.Sender.derivation (specPrims ops) a B :=
  ⟨L.derive_eq a B, L.derive_eq_spec a B⟩

/-- a small-order component of the point has no influence: for `B = B' + T` with `8•T = 0`,
`derive a B = derive a B' = (8a)•B'` -/
theorem C10_derivation_torsion (L : Lawful ops) (a : ℕ) (B' T : P) (hT : 8 • T = 0) :
    derive ops a (B' + T) = derive ops a B' ∧ derive ops a (B' + T) = (8 * a) • B' := by
  have h : derive ops a (B' + T) = derive ops a B' := by
    rw [L.derive_eq, L.derive_eq, smul_add, smul_add, smul_comm 8 a T, hT, smul_zero, add_zero]
  exact ⟨h, by rw [h, L.derive_eq, mul_smul]⟩

/-- sender and receiver derive the same point: `derive r (v•G) = derive v (r•G)`; and for any point `B` in place of `G`
(subaddress destinations use `B = S'`) -/
theorem C10_sender_receiver (L : Lawful ops) (r v : ℕ) :
    derive ops r (ops.smul v ops.base) = derive ops v (ops.smul r ops.base) ∧
    ∀ B : P, derive ops r (ops.smul v B) = derive ops v (ops.smul r B) := by
  have h : ∀ B : P, derive ops r (ops.smul v B) = derive ops v (ops.smul r B) := by
    intro B; rw [L.derive_eq, L.derive_eq, L.smul_eq, L.smul_eq, smul_comm r v]
  exact ⟨h _, h⟩

/-- the model's sender side (`KeyGenerator::from_random(V, S, r).one_time_key(n)`) is the specification's output key -/
theorem C10_sender_is_spec (L : Lawful ops) (r n : ℕ) (d : Spec.Sender.Dest P) :
    oneTimeKey ops (derive ops r d.view) d.spend n = Spec.Sender.sendKey (specPrims ops) r d n := by
  unfold Spec.Sender.sendKey; rw [oneTimeKey_eq_spec, L.derive_eq_spec]

/-- the key the by-the-book sender writes at position `n` for a destination `d` of the wallet with view secret `v`
(`d.view = v•G` for a primary address, `d.view = v•d.spend` for a subaddress; transaction key `R = r•G` resp. `r•d.spend`)
is the key the receiver computes from `(v, R)`: `oneTimeKey (derive v R) d.spend n` — so `KeyGenerator::check` accepts it -/
theorem C10_onetime_recognised (L : Lawful ops) (v r n : ℕ) (d : Spec.Sender.Dest P)
    (hview : d.view = v • (if d.isSub then d.spend else ops.base)) :
    Spec.Sender.sendKey (specPrims ops) r d n
      = oneTimeKey ops (derive ops v (Spec.Sender.txKey (specPrims ops) r d)) d.spend n := by
  rw [← C10_sender_is_spec L, L.derive_txKey v r d hview]

/-- primary address (V = v•G, S), transaction key R = r•G -/
theorem C10_onetime_recognised_primary (L : Lawful ops) (v r n : ℕ) (S : P) :
    Spec.Sender.sendKey (specPrims ops) r (Spec.Sender.primaryDest (specPrims ops) v S) n
      = oneTimeKey ops (derive ops v (ops.smul r ops.base)) S n :=
  C10_onetime_recognised L v r n (Spec.Sender.primaryDest (specPrims ops) v S) (L.smul_eq v ops.base)

/-- subaddress (V' = v•S', S'), transaction key R = r•S'. (Stated for every `(i, j)`; at `(0, 0)` `Spec.Sender.subDest` is the pair
`(v•(S + m•G), S + m•G)`, which is NOT an address of the wallet — monero-rs and Monero return the primary keys there, see
`Spec.Sender.destAt` / C11_zero_index — so that instance is true and irrelevant.) -/
theorem C10_onetime_recognised_subaddress (L : Lawful ops) (v r n i j : ℕ) (S : P) :
    Spec.Sender.sendKey (specPrims ops) r (Spec.Sender.subDest (specPrims ops) v S i j) n
      = oneTimeKey ops (derive ops v (ops.smul r (Spec.Sender.subSpend (specPrims ops) v S i j)))
          (Spec.Sender.subSpend (specPrims ops) v S i j) n :=
  C10_onetime_recognised L v r n (Spec.Sender.subDest (specPrims ops) v S i j) (L.spec_subView_val v S i j)

/-- the view tag the sender writes is the one the receiver computes -/
theorem C10_view_tag_recognised (L : Lawful ops) (v r n : ℕ) (d : Spec.Sender.Dest P)
    (hview : d.view = v • (if d.isSub then d.spend else ops.base)) :
    Spec.Sender.sendTag (specPrims ops) r d n
      = viewTagOf ops (derive ops v (Spec.Sender.txKey (specPrims ops) r d)) n := by
  unfold Spec.Sender.sendTag
  rw [viewTagOf_eq, L.derive_txKey v r d hview, L.derive_eq_spec]

/-- the formula of the pinned tree, `(8·a mod l)•B`, agrees with `8•(a•B)` on every point killed by `l`
(the prime-order subgroup — every honest key) -/
theorem C10_scalar8_agrees_on_torsion_free (L : Lawful ops) (a : ℕ) (B : P) (hB : ops.l • B = 0) :
    ((8 * a) % ops.l) • B = 8 • (a • B) ∧ derivePinned ops a B = derive ops a B := by
  have h : ((8 * a) % ops.l) • B = 8 • (a • B) := by rw [smul_mod_of_torsion ops.l B hB, mul_smul]
  exact ⟨h, by rw [L.derive_eq, ← h]; exact L.smul_eq _ B⟩

/-- … and differs from it off that subgroup: in the lawful group Z/(8l) (l the Ed25519 order), for the point `B = l` of
order exactly 8 and the reduced scalar `a = l − 1`, `(8a mod l)•B ≠ 8•(a•B)`. This is the defect of the pinned tree that
the fix commit repaired (DESIGN.md §7.1); `derive` is the repaired function. -/
theorem C10_scalar8_counterexample :
    Lawful zmodOps ∧ ∃ (B : ZMod zN) (a : ℕ), a < zmodOps.l ∧ 8 • B = 0 ∧ 4 • B ≠ 0 ∧
      derivePinned zmodOps a B ≠ derive zmodOps a B := by
  refine ⟨zmodOps_lawful, ((Ed.l : ℕ) : ZMod zN), Ed.l - 1, ?_, zmod_torsion_point.1, zmod_torsion_point.2, ?_⟩
  · show Ed.l - 1 < Ed.l; unfold Ed.l; omega
  · rw [zmodOps_lawful.derive_eq]; exact zmod_counter

/-! ### the two constructors on the stored bytes; `KeyGenerator::check`

`deriveSender` / `deriveReceiver` (Model/Crypto.lean; what the driver evaluates for `c10_derive_sender` / `c10_derive`) are
DEFINITIONAL COPIES of `derive` — `rfl`: `Monero.deriveSender_eq_derive`, Proofs/Group.lean — because the two Rust bodies (`from_random`, line 84;
`from_key`, line 92) are the same expression up to the names of the arguments. No Lean statement can therefore relate "the two
functions" in a way that `C10_sender_receiver` does not; that `from_random` and `from_key` as COMPILED agree with the model is
evidence of the differential run only (the harness calls each of them). What the point-level definitions hide, and what is proved
here, is the panic site: both `Mul` steps go through `PublicKey::point()` (decompress + `expect`) on stored bytes
(`deriveSenderBytes` / `deriveReceiverBytes`, `mulKeyBytes`; the decoder of `point()` — dalek's permissive `decompress`, which accepts
MORE than `PublicKey::from_slice` — is their parameter `decP`, and the driver evaluates `deriveReceiverBytes` for `c10_derive_raw`
against `from_key` on a `PublicKey` built through its public field: `C10_driver_refines_raw`). `keyGenCheck` is the model of `KeyGenerator::check` (byte equality of
the compressed keys). -/

/-- **no panic, and the value, from the stored bytes**. `decP` is the decoder of `PublicKey::point()` — dalek's PERMISSIVE
`decompress`, NOT `from_slice` — about which only `hdec` is assumed: it accepts at least what the strict decoder accepts
(`decPermissive_of_strict` on Ed25519; the `example` below shows the strict decoder itself is such a `decP`, so the hypothesis is
satisfiable in every lawful instance). (1, 2) on the encoding of EVERY point (with or without a small-order component) neither
`point()` call inside `from_random` / `from_key` hits its `expect` — the intermediate `PublicKey` is the compression of a point — and
`rv` is the encoding of `8•(scalar•point)`; (3) the same on ANY stored bytes that `point()` decompresses, canonical or not (a
`PublicKey` built through its public field), with `B` the point they decompress to; (4) on bytes that `point()` does NOT decompress
both constructors panic — this mirrors the real `expect`. (3) + (4) cover every 32-byte value of the field. (That the byte-level
constructors store the encoding of what the point-level models compute is the glue lemma `Lawful.deriveBytes_enc_eq_point`,
`C10_derivation` under `some ∘ enc`; not repeated here.) -/
theorem C10_constructors (L : Lawful ops) (decP : Bytes → Option P) (hdec : ∀ b X, ops.dec b = some X → decP b = some X)
    (r v : ℕ) (V R : P) :
    deriveSenderBytes ops decP r (ops.enc V) = some (ops.enc (8 • (r • V))) ∧
    deriveReceiverBytes ops decP v (ops.enc R) = some (ops.enc (8 • (v • R))) ∧
    (∀ b B, decP b = some B → deriveSenderBytes ops decP r b = some (ops.enc (8 • (r • B))) ∧
                              deriveReceiverBytes ops decP v b = some (ops.enc (8 • (v • B)))) ∧
    (∀ b, decP b = none → deriveSenderBytes ops decP r b = none ∧ deriveReceiverBytes ops decP v b = none) := by
  refine ⟨L.deriveSenderBytes_enc decP hdec r V, L.deriveReceiverBytes_enc decP hdec v R, fun b B hb => ?_, fun b hb => ?_⟩
  · exact ⟨L.deriveSenderBytes_of_dec decP hdec r b B hb, L.deriveReceiverBytes_of_dec decP hdec v b B hb⟩
  · unfold deriveSenderBytes deriveReceiverBytes mulKeyBytes; rw [hb]; exact ⟨rfl, rfl⟩

/-- `hdec` is satisfiable in every instance (the strict decoder extends itself); the Ed25519 instance uses the genuinely larger
permissive decoder (`C10_constructors_ed25519`, `C10_constructors_noncanonical_ed25519`) -/
example : ∀ b X, ops.dec b = some X → ops.dec b = some X := fun _ _ h => h

/-- clause (d) on the stored bytes (corollary of `C10_sender_receiver` and `C10_constructors`): what `from_random(V = v•G, ·, r)`
stores as `rv` is byte for byte what `from_key((v, ·), R = r•G)` stores, and neither panics; likewise over any base point `B`
(subaddresses: `B = S'`) -/
theorem C10_sender_receiver_bytes (L : Lawful ops) (decP : Bytes → Option P) (hdec : ∀ b X, ops.dec b = some X → decP b = some X)
    (r v : ℕ) (B : P) :
    deriveSenderBytes ops decP r (ops.enc (v • B)) = deriveReceiverBytes ops decP v (ops.enc (r • B)) ∧
    (deriveSenderBytes ops decP r (ops.enc (v • B))).isSome = true := by
  rw [L.deriveSenderBytes_enc decP hdec, L.deriveReceiverBytes_enc decP hdec, smul_comm r v]
  exact ⟨rfl, rfl⟩

/-- `KeyGenerator::check(index, key)` is true for exactly one key: the generator's own `one_time_key(index)`. (This only restates
the injectivity of the encoding — `keyGenCheck` IS the byte comparison `enc key == enc (one_time_key ..)`; nothing about the
derivation is used. The statement with content is `C10_check_accepts_sender_key`.) -/
theorem C10_check_iff (L : Lawful ops) (D S : P) (n : ℕ) (key : P) :
    keyGenCheck ops D S n key = true ↔ key = oneTimeKey ops D S n := by
  unfold keyGenCheck
  rw [beq_iff_eq]
  exact ⟨fun h => L.enc_inj h, fun h => by rw [h]⟩

/-- clause (e) with the check itself: the receiver's generator `from_key((v, d.spend), R)`, `R` the transaction key the
by-the-book sender publishes, ACCEPTS (`check` = true) the key that sender wrote at position `n` — and nothing else -/
theorem C10_check_accepts_sender_key (L : Lawful ops) (v r n : ℕ) (d : Spec.Sender.Dest P)
    (hview : d.view = v • (if d.isSub then d.spend else ops.base)) :
    keyGenCheck ops (deriveReceiver ops v (Spec.Sender.txKey (specPrims ops) r d)) d.spend n
        (Spec.Sender.sendKey (specPrims ops) r d n) = true ∧
    keyGenCheck ops (deriveReceiver ops v (Spec.Sender.txKey (specPrims ops) r d)) d.spend n
        (oneTimeKey ops (deriveSender ops r d.view) d.spend n) = true ∧
    ∀ key : P, keyGenCheck ops (deriveReceiver ops v (Spec.Sender.txKey (specPrims ops) r d)) d.spend n key = true →
      key = Spec.Sender.sendKey (specPrims ops) r d n := by
  have h := C10_onetime_recognised L v r n d hview
  refine ⟨(C10_check_iff L _ _ _ _).2 h, ?_, fun key hk => ?_⟩
  · exact (C10_check_iff L _ _ _ _).2 ((C10_sender_is_spec L r n d).trans h)
  · rw [h]; exact (C10_check_iff L _ _ _ _).1 hk

/-- `check` on a key moved by ANY non-zero point (e.g. a small-order point) is false. (A generic fact about an equality test in a
group — `x + T = x → T = 0` — recorded because the differential families "key + small-order point" rely on it; it says nothing
specific about torsion or about the derivation.) -/
theorem C10_check_rejects_shifted (L : Lawful ops) (D S T : P) (n : ℕ) (hT : T ≠ 0) :
    keyGenCheck ops D S n (oneTimeKey ops D S n + T) = false := by
  cases h : keyGenCheck ops D S n (oneTimeKey ops D S n + T) with
  | false => rfl
  | true =>
    have := (C10_check_iff L _ _ _ _).1 h
    exact absurd (add_eq_left.mp this) hT

/-! ### Ed25519 itself: `Lawful` is a theorem, not an assumption

`Proofs/EdwardsGroup.lean` proves that the affine twisted Edwards curve −x² + y² = 1 + d·x²·y² over GF(2^255 − 19) with the
complete addition law is an abelian group (d is a non-square, −1 a square; associativity by explicit polynomial
certificates); `Proofs/EdwardsRef*.lean` that the executable reference arithmetic `Ref/Ed25519.lean` (extended coordinates,
double-and-add, RFC 8032 compression) computes in that group; `Proofs/EdwardsLawful.lean` that the resulting primitives
record `edOps` (points = curve points, `l·G = 0`, injective encoding accepted by `dec`) is `Lawful`, and that the instance
the compiled driver runs (`Drv.refOps`) refines it operation by operation. The theorems below are the theorems of this
file with that instance plugged in: no hypothesis about the group is left. (That curve25519-dalek computes the same
functions as `Ref/Ed25519.lean` remains a differential tie — dalek is a dependency.) -/
section Ed25519
open Monero.Edw

/-- the primitives of Ed25519 are lawful, and the executable reference instance refines them -/
theorem C10_ed25519_lawful : Lawful edOps ∧ RefinesEd Drv.refOps := ⟨edOps_lawful, refOps_refines_edOps⟩
/-- `C10_derivation` for Ed25519: for every scalar and EVERY curve point (the group contains the 8-torsion:
`Monero.Edw.T4_order`), the derivation is 8·(a·B) -/
theorem C10_derivation_ed25519 (a : ℕ) (B : EdPoint) :
    derive edOps a B = 8 • (a • B) ∧ derive edOps a B = Spec.Sender.derivation (specPrims edOps) a B :=
  C10_derivation edOps_lawful a B
/-- LIMIT of this statement: it is about points GIVEN in the form `B' + T` with `8•T = 0`. That EVERY curve point has such a
decomposition with `l•B' = 0` (equivalently `(8·l)•B = 0` for all `B`, i.e. the group has order `8·l`) is NOT proved in this
development (no point count), so neither "`derive a B` lies in the prime-order subgroup for every accepted key" nor "the second
equality applies to every accepted key" is established here. The unconditional clause is `C10_derivation_ed25519`:
`derive a B = 8•(a•B)` for EVERY curve point. -/
theorem C10_derivation_torsion_ed25519 (a : ℕ) (B' T : EdPoint) (hT : 8 • T = 0) :
    derive edOps a (B' + T) = derive edOps a B' ∧ derive edOps a (B' + T) = (8 * a) • B' :=
  C10_derivation_torsion edOps_lawful a B' T hT
theorem C10_sender_receiver_ed25519 (r v : ℕ) :
    derive edOps r (edOps.smul v edOps.base) = derive edOps v (edOps.smul r edOps.base) ∧
    ∀ B : EdPoint, derive edOps r (edOps.smul v B) = derive edOps v (edOps.smul r B) :=
  C10_sender_receiver edOps_lawful r v
theorem C10_onetime_recognised_ed25519 : type_of% (@C10_onetime_recognised EdPoint _ edOps edOps_lawful) :=
  C10_onetime_recognised edOps_lawful
theorem C10_view_tag_recognised_ed25519 : type_of% (@C10_view_tag_recognised EdPoint _ edOps edOps_lawful) :=
  C10_view_tag_recognised edOps_lawful
/-- non-vacuity: the instance has points outside the prime-order subgroup -/
example : 4 • T4 = 0 ∧ 2 • T4 ≠ 0 ∧ Ed.l • T4 ≠ 0 := ⟨T4_order.1, T4_order.2, T4_not_l_torsion⟩

theorem C10_sender_is_spec_ed25519 : type_of% (@C10_sender_is_spec EdPoint _ edOps edOps_lawful) :=
  C10_sender_is_spec edOps_lawful
theorem C10_onetime_recognised_primary_ed25519 : type_of% (@C10_onetime_recognised_primary EdPoint _ edOps edOps_lawful) :=
  C10_onetime_recognised_primary edOps_lawful
theorem C10_onetime_recognised_subaddress_ed25519 :
    type_of% (@C10_onetime_recognised_subaddress EdPoint _ edOps edOps_lawful) :=
  C10_onetime_recognised_subaddress edOps_lawful
theorem C10_scalar8_agrees_on_torsion_free_ed25519 :
    type_of% (@C10_scalar8_agrees_on_torsion_free EdPoint _ edOps edOps_lawful) :=
  C10_scalar8_agrees_on_torsion_free edOps_lawful
/-- on Ed25519 the decoder of `point()` is `decPermissive` (dalek's `decompress` into the group, Proofs/EdwardsPermissive.lean); the
hypothesis `hdec` is the theorem `decPermissive_of_strict` -/
theorem C10_constructors_ed25519 :
    type_of% (@C10_constructors EdPoint _ edOps edOps_lawful decPermissive decPermissive_of_strict) :=
  C10_constructors edOps_lawful decPermissive decPermissive_of_strict
theorem C10_sender_receiver_bytes_ed25519 :
    type_of% (@C10_sender_receiver_bytes EdPoint _ edOps edOps_lawful decPermissive decPermissive_of_strict) :=
  C10_sender_receiver_bytes edOps_lawful decPermissive decPermissive_of_strict
theorem C10_check_iff_ed25519 : type_of% (@C10_check_iff EdPoint _ edOps edOps_lawful) := C10_check_iff edOps_lawful
theorem C10_check_accepts_sender_key_ed25519 : type_of% (@C10_check_accepts_sender_key EdPoint _ edOps edOps_lawful) :=
  C10_check_accepts_sender_key edOps_lawful
theorem C10_check_rejects_shifted_ed25519 : type_of% (@C10_check_rejects_shifted EdPoint _ edOps edOps_lawful) :=
  C10_check_rejects_shifted edOps_lawful

/-- **the counterexample on Ed25519 itself** (clause f; `C10_scalar8_counterexample` shows it in the toy group Z/(8l) only):
`T8`, the curve point with the encoding of dalek's `EIGHT_TORSION[1]`, is an ACCEPTED public key
(`PublicKey::from_slice` returns it), has order exactly 8, and for the reduced scalar `a = l − 1` the formula of the pinned
tree `(8·a mod l)•T8` (= 5•T8 ≠ 0) differs from Monero's `8•(a•T8)` (= 0) -/
theorem C10_scalar8_counterexample_ed25519 :
    edOps.dec t8bytes = some T8 ∧ Keys.publicAccept t8bytes = true ∧ 8 • T8 = 0 ∧ 4 • T8 ≠ 0 ∧ Ed.l - 1 < edOps.l ∧
    derive edOps (Ed.l - 1) T8 = 0 ∧ derivePinned edOps (Ed.l - 1) T8 ≠ derive edOps (Ed.l - 1) T8 := by
  have hd : derive edOps (Ed.l - 1) T8 = 0 := by
    rw [edOps_lawful.derive_eq, smul_comm, T8_order.1, smul_zero]
  refine ⟨edOps_dec_t8, (publicAccept_iff_dec t8bytes).2 ⟨T8, edOps_dec_t8⟩, T8_order.1, T8_order.2,
    by rw [edOps_l]; decide, hd, ?_⟩
  rw [hd]
  have hk : (8 * (Ed.l - 1)) % edOps.l = Ed.l - 8 := by rw [edOps_l]; decide
  show edOps.smul ((8 * (Ed.l - 1)) % edOps.l) T8 ≠ 0
  rw [hk, edOps_smul]
  exact T8_odd_smul_ne_zero _ (by decide)

/-- the same with the point of order 4 whose encoding is 32 zero bytes -/
theorem C10_scalar8_counterexample_ed25519_order4 :
    edOps.dec (List.replicate 32 0) = some T4 ∧
    derivePinned edOps (Ed.l - 1) T4 ≠ derive edOps (Ed.l - 1) T4 := by
  refine ⟨edOps_dec_zeros, ?_⟩
  have hd : derive edOps (Ed.l - 1) T4 = 0 := by
    rw [edOps_lawful.derive_eq, smul_comm, show (8 : ℕ) = 2 * 4 from rfl, mul_smul, T4_order.1, smul_zero, smul_zero]
  rw [hd]
  have hk : (8 * (Ed.l - 1)) % edOps.l = 4 * ((Ed.l - 8) / 4) + 1 := by rw [edOps_l]; decide
  show edOps.smul ((8 * (Ed.l - 1)) % edOps.l) T4 ≠ 0
  rw [hk, edOps_smul, add_smul, mul_smul, smul_comm, T4_order.1, smul_zero, zero_add, one_smul]
  intro h
  exact T4_order.2 (by rw [h, smul_zero])

/-- eight small-order points are there: the multiples `k•T8`, `k < 8`, are pairwise distinct and killed by 8 — so
"`B = B' + T`" in `C10_derivation_torsion_ed25519` is instantiated by each of them. (That these eight are ALL the points killed by 8
needs the order of the group, which is not proved here; the statement shows eight distinct ones, not that there are no others.) -/
theorem C10_eight_torsion_points_ed25519 :
    (∀ k : ℕ, 8 • (k • T8) = 0) ∧ (∀ i j : ℕ, i < 8 → j < 8 → i • T8 = j • T8 → i = j) ∧
    ∀ (a k : ℕ) (B' : EdPoint), derive edOps a (B' + k • T8) = derive edOps a B' := by
  refine ⟨fun k => by rw [smul_comm, T8_order.1, smul_zero], fun i j hi hj h => ?_, fun a k B' => ?_⟩
  · have := (nsmul_injOn_Iio_addOrderOf (x := T8))
    rw [addOrderOf_T8] at this
    exact this (Set.mem_Iio.2 hi) (Set.mem_Iio.2 hj) h
  · exact (C10_derivation_torsion edOps_lawful a B' (k • T8) (by rw [smul_comm, T8_order.1, smul_zero])).1

/-- **no subgroup check** (mechanism anchor key.rs:287-305): EVERY curve point — with or without a small-order component —
has an encoding that `PublicKey::from_slice` accepts (the model of the library's acceptance test, Model/Keys.lean, proved equal
to the strict reference decoder under C13) -/
theorem C10_no_subgroup_check (B : EdPoint) : Keys.publicAccept (edOps.enc B) = true :=
  (publicAccept_iff_dec _).2 ⟨B, edOps_lawful.dec_enc B⟩

/-- **clause (a) from the bytes**: for every 32-byte string `b` that `PublicKey::from_slice` accepts (canonically encoded
point, no subgroup condition) there is the curve point `B` it encodes, and the derivation from `(a, B)` is `8•(a•B)`;
the byte-level constructors (both `point()` calls explicit) do not panic on `b` and store the encoding of that point;
moreover the executable instance that the differential run evaluates (`Drv.refOps`) decodes `b` to a representative of `B` and,
for every 32-byte scalar `a`, prints exactly the encoding of that group element -/
theorem C10_derivation_bytes (a : ℕ) (b : Bytes) (h : Keys.publicAccept b = true) :
    ∃ B : EdPoint, edOps.dec b = some B ∧ edOps.enc B = b ∧
      deriveReceiver edOps a B = 8 • (a • B) ∧ deriveSender edOps a B = 8 • (a • B) ∧
      deriveReceiverBytes edOps decPermissive a b = some (edOps.enc (8 • (a • B))) ∧
      deriveSenderBytes edOps decPermissive a b = some (edOps.enc (8 • (a • B))) ∧
      ∃ Braw : Ed.Pt, Drv.refOps.dec b = some Braw ∧
        (a < 2 ^ 260 → Drv.refOps.enc (deriveReceiver Drv.refOps a Braw) = edOps.enc (8 • (a • B)) ∧
                       Drv.refOps.enc (deriveSender Drv.refOps a Braw) = edOps.enc (8 • (a • B))) := by
  obtain ⟨Braw, hv, h1, h2, h3⟩ := accepted_key b h
  refine ⟨toPoint Braw hv, h2, h3, edOps_lawful.derive_eq a _, edOps_lawful.derive_eq a _, ?_, ?_, Braw, h1, fun ha => ?_⟩
  · conv_lhs => rw [← h3]
    exact edOps_lawful.deriveReceiverBytes_enc decPermissive decPermissive_of_strict a _
  · conv_lhs => rw [← h3]
    exact edOps_lawful.deriveSenderBytes_enc decPermissive decPermissive_of_strict a _
  have := refines_enc_derive refOps_refines_edOps a ha Braw hv
  rw [edOps_lawful.derive_eq] at this
  exact ⟨this, this⟩

/-- the hypothesis of `C10_derivation_bytes` holds also for a key with a small-order component -/
example : Keys.publicAccept t8bytes = true := C10_scalar8_counterexample_ed25519.2.1

/-- **the driver's results are the theorems' objects**: on valid representatives and scalars below 2^260 (every 32-byte scalar), what
`Drv.refOps` prints for `c10_derive*` / `c10_onetime` / `c10_onetime_recv` is the encoding of `derive edOps …` resp.
`oneTimeKey edOps (derive edOps a B) S n`; the scalar it prints for `c10_rvn` is `rvnScalar edOps (derive edOps a B) n`; and the
boolean it prints for `c10_check` is `keyGenCheck edOps` on the represented points -/
theorem C10_driver_refines (a : ℕ) (ha : a < 2 ^ 260) (B S K : Ed.Pt) (hB : Valid B) (hS : Valid S) (hK : Valid K) (n : ℕ) :
    Drv.refOps.enc (derive Drv.refOps a B) = edOps.enc (derive edOps a (toPoint B hB)) ∧
    Drv.refOps.enc (oneTimeKey Drv.refOps (derive Drv.refOps a B) S n)
      = edOps.enc (oneTimeKey edOps (derive edOps a (toPoint B hB)) (toPoint S hS) n) ∧
    rvnScalar Drv.refOps (derive Drv.refOps a B) n = rvnScalar edOps (derive edOps a (toPoint B hB)) n ∧
    keyGenCheck Drv.refOps (derive Drv.refOps a B) S n K
      = keyGenCheck edOps (derive edOps a (toPoint B hB)) (toPoint S hS) n (toPoint K hK) := by
  obtain ⟨hD, eD⟩ := refines_derive refOps_refines_edOps a ha B hB
  refine ⟨refines_enc_derive refOps_refines_edOps a ha B hB,
    refines_enc_oneTimeKey_derive refOps_refines_edOps a ha B S hB hS n, ?_, ?_⟩
  · rw [refines_rvnScalar refOps_refines_edOps _ hD, eD]
  · rw [refines_keyGenCheck refOps_refines_edOps _ S K hD hS hK n, eD]
/-- hypotheses of `C10_driver_refines(_subcheck)` are satisfiable: the base point is a valid representative, every reduced scalar is
below 2^260 -/
example : Valid Ed.G ∧ Ed.l < 2 ^ 260 := ⟨G_valid, l_lt_260⟩

/-- … and `SubKeyChecker::new(..).check(n, key, R)` (`c10_subcheck`: model side only, used by the C09–C11 families): the index the
driver prints is the index `Checker.check` returns on the lawful instance -/
theorem C10_driver_refines_subcheck (v : ℕ) (hv : v < 2 ^ 260) (S K R : Ed.Pt) (hS : Valid S) (hK : Valid K) (hR : Valid R)
    (a b c d n : ℕ) :
    (Scan.Checker.new Drv.refOps v S a b c d).check Drv.refOps n K R
      = (Scan.Checker.new edOps v (toPoint S hS) a b c d).check edOps n (toPoint K hK) (toPoint R hR) :=
  refines_checkerCheck refOps_refines_edOps v hv S hS a b c d n K R hK hR

/-- `0100…0080`: y = 1 with the sign bit set ("−0"), the stored bytes the harness sends through `c10_derive_raw` -/
def negZeroBytes : Bytes := 1 :: List.replicate 30 0 ++ [0x80]

set_option maxRecDepth 100000 in
/-- **the decoder parameter matters** (why `mulKeyBytes` takes `decP` and not `ops.dec`): `0100…0080` is NOT an accepted key
(`PublicKey::from_slice` refuses it, the strict decoder answers `none`), but `PublicKey::point()` — dalek's permissive `decompress` —
returns the identity on it; so on a `PublicKey` holding these bytes (public field) both constructors run through WITHOUT panic and
store the encoding of the identity, for every scalar. (A model that decoded with `ops.dec` answered "panic" here.) -/
theorem C10_constructors_noncanonical_ed25519 (a : ℕ) :
    Keys.publicAccept negZeroBytes = false ∧ edOps.dec negZeroBytes = none ∧ decPermissive negZeroBytes = some 0 ∧
    deriveReceiverBytes edOps decPermissive a negZeroBytes = some (edOps.enc 0) ∧
    deriveSenderBytes edOps decPermissive a negZeroBytes = some (edOps.enc 0) := by
  have hacc : Keys.publicAccept negZeroBytes = false := by decide +kernel
  have hstrict : edOps.dec negZeroBytes = none := by
    cases h : edOps.dec negZeroBytes with
    | none => rfl
    | some B => rw [(publicAccept_iff_dec _).2 ⟨B, h⟩] at hacc; cases hacc
  have hraw : Keys.decompressDalek (Ed.leNat negZeroBytes) = some Ed.zero := by decide +kernel
  have hperm : decPermissive negZeroBytes = some 0 := by
    unfold decPermissive
    rw [if_pos (by decide), Option.pmap_some' hraw, toPoint_zero]
  refine ⟨hacc, hstrict, hperm, ?_, ?_⟩
  · rw [edOps_lawful.deriveReceiverBytes_of_dec decPermissive decPermissive_of_strict a _ 0 hperm, smul_zero, smul_zero]
  · rw [edOps_lawful.deriveSenderBytes_of_dec decPermissive decPermissive_of_strict a _ 0 hperm, smul_zero, smul_zero]

/-- **`c10_derive_raw`: the driver's result is the theorems' object.** For every stored byte string `b` and every scalar below 2^260
(every 32-byte scalar) what the compiled driver evaluates — `deriveReceiverBytes Drv.refOps Drv.C10.decPerm a b`, printed as hex or
`PANIC` — is `deriveReceiverBytes edOps decPermissive a b` (same for the sender form, which no operation prints); hence, by
`C10_constructors_ed25519`, it prints the encoding of `8•(a•B)` exactly when `point()` decompresses `b` to `B` and `PANIC` exactly
when it does not. -/
theorem C10_driver_refines_raw (a : ℕ) (ha : a < 2 ^ 260) (b : Bytes) :
    deriveReceiverBytes Drv.refOps Drv.C10.decPerm a b = deriveReceiverBytes edOps decPermissive a b ∧
    deriveSenderBytes Drv.refOps Drv.C10.decPerm a b = deriveSenderBytes edOps decPermissive a b ∧
    (∀ B, decPermissive b = some B → deriveReceiverBytes Drv.refOps Drv.C10.decPerm a b = some (edOps.enc (8 • (a • B)))) ∧
    (decPermissive b = none → deriveReceiverBytes Drv.refOps Drv.C10.decPerm a b = none) := by
  have hd : ∀ w, (∀ Q, Drv.C10.decPerm w = some Q → ∃ h : Valid Q, decPermissive w = some (toPoint Q h)) ∧
      (Drv.C10.decPerm w = none → decPermissive w = none) := fun w => decP_refines w
  obtain ⟨h1, h2⟩ := refines_deriveBytes refOps_refines_edOps hd a ha b
  refine ⟨h1, h2, fun B hB => ?_, fun hn => ?_⟩
  · rw [h1]; exact edOps_lawful.deriveReceiverBytes_of_dec decPermissive decPermissive_of_strict a b B hB
  · rw [h1]; exact ((C10_constructors_ed25519 a a 0 0).2.2.2 b hn).2
end Ed25519
end C10
