import MoneroModel.Proofs.Group
import MoneroModel.Proofs.GroupInstance
import MoneroModel.Proofs.EdwardsLawful
/-! C10 — "Key derivation is Monero's cofactor-cleared Diffie-Hellman for every curve point".
About the model `Monero.derive` / `Monero.oneTimeKey` (Model/Crypto.lean: `KeyGenerator::{from_key, from_random, one_time_key,
get_rvn_scalar}` at HEAD of /repo, i.e. after the fix commit) and the by-the-book sender `Spec.Sender`. Every theorem holds
for every additive commutative group `P` and every `ops` whose primitives are that group's operations (`Lawful ops`,
Proofs/Group.lean) — points are arbitrary group elements, so "every point B" includes points with a small-order component.
That dalek's arithmetic is such a group is conformance (C13 / the differential run of this property), not a theorem. -/
namespace C10
open Monero
variable {P : Type} [AddCommGroup P] {ops : CryptoOps P}

/-- the hypotheses are satisfiable: Z/(8l) with base point 8 is lawful -/
example : Lawful zmodOps := zmodOps_lawful

/-- the derivation computed from a scalar `a` and ANY point `B` is `8•(a•B)`, and it is the specification's
`generate_key_derivation` (scalar multiple, then three doublings) -/
theorem C10_derivation (L : Lawful ops) (a : ℕ) (B : P) :
    derive ops a B = 8 • (a • B) ∧ derive ops a B = Spec.Sender.derivation (specPrims ops) a B :=
  ⟨L.derive_eq a B, L.derive_eq_spec a B⟩

/-- a small-order component of the point has no influence: for `B = B' + T` with `8•T = 0`,
`derive a B = derive a B' = (8a)•B'` -/
theorem C10_derivation_torsion (L : Lawful ops) (a : ℕ) (B' T : P) (hT : 8 • T = 0) :
    derive ops a (B' + T) = derive ops a B' ∧ derive ops a (B' + T) = (8 * a) • B' := by
  have h : derive ops a (B' + T) = derive ops a B' := by
    rw [L.derive_eq, L.derive_eq, smul_add, smul_add, smul_comm 8 a T, hT, smul_zero, add_zero]
  exact ⟨h, by rw [h, L.derive_eq, mul_smul]⟩

/-- sender and receiver derive the same point: `derive r (v•G) = derive v (r•G)`; and for any point `B` in place of `G`
(subaddress destinations use `B = S'`) -/
theorem C10_sender_receiver (L : Lawful ops) (r v : ℕ) :
    derive ops r (ops.smul v ops.base) = derive ops v (ops.smul r ops.base) ∧
    ∀ B : P, derive ops r (ops.smul v B) = derive ops v (ops.smul r B) := by
  have h : ∀ B : P, derive ops r (ops.smul v B) = derive ops v (ops.smul r B) := by
    intro B; rw [L.derive_eq, L.derive_eq, L.smul_eq, L.smul_eq, smul_comm r v]
  exact ⟨h _, h⟩

/-- the model's sender side (`KeyGenerator::from_random(V, S, r).one_time_key(n)`) is the specification's output key -/
theorem C10_sender_is_spec (L : Lawful ops) (r n : ℕ) (d : Spec.Sender.Dest P) :
    oneTimeKey ops (derive ops r d.view) d.spend n = Spec.Sender.sendKey (specPrims ops) r d n := by
  unfold Spec.Sender.sendKey; rw [oneTimeKey_eq_spec, L.derive_eq_spec]

/-- the key the by-the-book sender writes at position `n` for a destination `d` of the wallet with view secret `v`
(`d.view = v•G` for a primary address, `d.view = v•d.spend` for a subaddress; transaction key `R = r•G` resp. `r•d.spend`)
is the key the receiver computes from `(v, R)`: `oneTimeKey (derive v R) d.spend n` — so `KeyGenerator::check` accepts it -/
theorem C10_onetime_recognised (L : Lawful ops) (v r n : ℕ) (d : Spec.Sender.Dest P)
    (hview : d.view = v • (if d.isSub then d.spend else ops.base)) :
    Spec.Sender.sendKey (specPrims ops) r d n
      = oneTimeKey ops (derive ops v (Spec.Sender.txKey (specPrims ops) r d)) d.spend n := by
  rw [← C10_sender_is_spec L, L.derive_txKey v r d hview]

/-- primary address (V = v•G, S), transaction key R = r•G -/
theorem C10_onetime_recognised_primary (L : Lawful ops) (v r n : ℕ) (S : P) :
    Spec.Sender.sendKey (specPrims ops) r (Spec.Sender.primaryDest (specPrims ops) v S) n
      = oneTimeKey ops (derive ops v (ops.smul r ops.base)) S n :=
  C10_onetime_recognised L v r n (Spec.Sender.primaryDest (specPrims ops) v S) (L.smul_eq v ops.base)

/-- subaddress (V' = v•S', S'), transaction key R = r•S' -/
theorem C10_onetime_recognised_subaddress (L : Lawful ops) (v r n i j : ℕ) (S : P) :
    Spec.Sender.sendKey (specPrims ops) r (Spec.Sender.subDest (specPrims ops) v S i j) n
      = oneTimeKey ops (derive ops v (ops.smul r (Spec.Sender.subSpend (specPrims ops) v S i j)))
          (Spec.Sender.subSpend (specPrims ops) v S i j) n :=
  C10_onetime_recognised L v r n (Spec.Sender.subDest (specPrims ops) v S i j) (L.spec_subView_val v S i j)

/-- the view tag the sender writes is the one the receiver computes -/
theorem C10_view_tag_recognised (L : Lawful ops) (v r n : ℕ) (d : Spec.Sender.Dest P)
    (hview : d.view = v • (if d.isSub then d.spend else ops.base)) :
    Spec.Sender.sendTag (specPrims ops) r d n
      = viewTagOf ops (derive ops v (Spec.Sender.txKey (specPrims ops) r d)) n := by
  unfold Spec.Sender.sendTag
  rw [viewTagOf_eq, L.derive_txKey v r d hview, L.derive_eq_spec]

/-- the formula of the pinned tree, `(8·a mod l)•B`, agrees with `8•(a•B)` on every point killed by `l`
(the prime-order subgroup — every honest key) -/
theorem C10_scalar8_agrees_on_torsion_free (L : Lawful ops) (a : ℕ) (B : P) (hB : ops.l • B = 0) :
    ((8 * a) % ops.l) • B = 8 • (a • B) ∧ derivePinned ops a B = derive ops a B := by
  have h : ((8 * a) % ops.l) • B = 8 • (a • B) := by rw [smul_mod_of_torsion ops.l B hB, mul_smul]
  exact ⟨h, by rw [L.derive_eq, ← h]; exact L.smul_eq _ B⟩

/-- … and differs from it off that subgroup: in the lawful group Z/(8l) (l the Ed25519 order), for the point `B = l` of
order exactly 8 and the reduced scalar `a = l − 1`, `(8a mod l)•B ≠ 8•(a•B)`. This is the defect of the pinned tree that
the fix commit repaired (DESIGN.md §7.1); `derive` is the repaired function. -/
theorem C10_scalar8_counterexample :
    Lawful zmodOps ∧ ∃ (B : ZMod zN) (a : ℕ), a < zmodOps.l ∧ 8 • B = 0 ∧ 4 • B ≠ 0 ∧
      derivePinned zmodOps a B ≠ derive zmodOps a B := by
  refine ⟨zmodOps_lawful, ((Ed.l : ℕ) : ZMod zN), Ed.l - 1, ?_, zmod_torsion_point.1, zmod_torsion_point.2, ?_⟩
  · show Ed.l - 1 < Ed.l; unfold Ed.l; omega
  · rw [zmodOps_lawful.derive_eq]; exact zmod_counter

/-! ### Ed25519 itself: `Lawful` is a theorem, not an assumption

`Proofs/EdwardsGroup.lean` proves that the affine twisted Edwards curve −x² + y² = 1 + d·x²·y² over GF(2^255 − 19) with the
complete addition law is an abelian group (d is a non-square, −1 a square; associativity by explicit polynomial
certificates); `Proofs/EdwardsRef*.lean` that the executable reference arithmetic `Ref/Ed25519.lean` (extended coordinates,
double-and-add, RFC 8032 compression) computes in that group; `Proofs/EdwardsLawful.lean` that the resulting primitives
record `edOps` (points = curve points, `l·G = 0`, injective encoding accepted by `dec`) is `Lawful`, and that the instance
the compiled driver runs (`Drv.refOps`) refines it operation by operation. The theorems below are the theorems of this
file with that instance plugged in: no hypothesis about the group is left. (That curve25519-dalek computes the same
functions as `Ref/Ed25519.lean` remains a differential tie — dalek is a dependency.) -/
section Ed25519
open Monero.Edw

/-- the primitives of Ed25519 are lawful, and the executable reference instance refines them -/
theorem C10_ed25519_lawful : Lawful edOps ∧ RefinesEd Drv.refOps := ⟨edOps_lawful, refOps_refines_edOps⟩
/-- `C10_derivation` for Ed25519: for every scalar and EVERY curve point (the group contains the 8-torsion:
`Monero.Edw.T4_order`), the derivation is 8·(a·B) -/
theorem C10_derivation_ed25519 (a : ℕ) (B : EdPoint) :
    derive edOps a B = 8 • (a • B) ∧ derive edOps a B = Spec.Sender.derivation (specPrims edOps) a B :=
  C10_derivation edOps_lawful a B
theorem C10_derivation_torsion_ed25519 (a : ℕ) (B' T : EdPoint) (hT : 8 • T = 0) :
    derive edOps a (B' + T) = derive edOps a B' ∧ derive edOps a (B' + T) = (8 * a) • B' :=
  C10_derivation_torsion edOps_lawful a B' T hT
theorem C10_sender_receiver_ed25519 (r v : ℕ) :
    derive edOps r (edOps.smul v edOps.base) = derive edOps v (edOps.smul r edOps.base) ∧
    ∀ B : EdPoint, derive edOps r (edOps.smul v B) = derive edOps v (edOps.smul r B) :=
  C10_sender_receiver edOps_lawful r v
theorem C10_onetime_recognised_ed25519 : type_of% (@C10_onetime_recognised EdPoint _ edOps edOps_lawful) :=
  C10_onetime_recognised edOps_lawful
theorem C10_view_tag_recognised_ed25519 : type_of% (@C10_view_tag_recognised EdPoint _ edOps edOps_lawful) :=
  C10_view_tag_recognised edOps_lawful
/-- non-vacuity: the instance has points outside the prime-order subgroup -/
example : 4 • T4 = 0 ∧ 2 • T4 ≠ 0 ∧ Ed.l • T4 ≠ 0 := ⟨T4_order.1, T4_order.2, T4_not_l_torsion⟩
end Ed25519
end C10
