import MoneroModel.Proofs.AmountText9
open Monero Monero.AmtText
/-! # C15 — amount text parsing and formatting are exact decimal conversions

Model: `MoneroModel/Model/AmountText.lean` (src/util/amount.rs as it is, on UTF-8 bytes, with the three denomination tables
looked up in the GENERATED `Gen.precision` / `Gen.denomDisplay` / `Gen.denomFromStr`).
Specification: `MoneroModel/Spec/Decimal.lean` (grammar `-? D* (. D*)?`, value as the exact rational `N / 10^f`, independent
of the model and of /repo; its own table `Spec.Decimal.decimals`).

Every theorem is stated for all `d : Denom`; the link to the source is `C15_precision_table`, which is decided against the
generated table, so changing a precision entry in amount.rs re-instantiates or breaks everything below.
Reading decisions (DESIGN §8): `"."` and `"-."` are literals denoting 0; the unsigned type refuses every string starting
with `-` (also `-0`); more than `decimals` fraction digits are refused even when they are zeros (property text:
"written with at most the denomination's number of decimals"). -/
namespace C15
open Spec.Decimal (specParse specFormat decimals natOfDigits natDigits splitSign maxAmount)

/-- the generated `Denomination::precision` table is the specification's number of decimals, negated; in particular the
`precision_diff < 0` branch of the parser and the `Ordering::Greater` branch of the formatter are dead -/
theorem C15_precision_table (d : Denom) : precisionOf d = -((decimals d : Nat) : Int) := precisionOf_eq d

/-- **parse = spec.** For every byte string, denomination and both amount types, `from_str_in` returns `Ok r` exactly when
the specification assigns the piconero amount `r` -/
theorem C15_parse_iff (signed : Bool) (d : Denom) (s : Bytes) (r : Int) :
    fromStrIn signed s d = .ok r ↔ specParse signed (decimals d) s = some r :=
  fromStrIn_iff signed s d (decimals d) (precisionOf_eq d) r

/-- the same as an equation between total functions (an error of any kind ↔ `none`) -/
theorem C15_parse_eq (signed : Bool) (d : Denom) (s : Bytes) :
    (fromStrIn signed s d).toOption = specParse signed (decimals d) s := by
  cases h : fromStrIn signed s d with
  | ok r => simp only [Except.toOption]; exact ((C15_parse_iff signed d s r).mp h).symm
  | error e =>
    simp only [Except.toOption]
    cases h2 : specParse signed (decimals d) s with
    | none => rfl
    | some r => rw [(C15_parse_iff signed d s r).mpr h2] at h; cases h

/-- what the specification says, spelled out: at most 50 bytes; optional `-`; non-empty body `ip` or `ip . fp` of ASCII digits;
`|fp| ≤ decimals`; magnitude `N(ip fp) · 10^(decimals − |fp|) ≤ 2^63 − 1`; result = ± magnitude, `-` only for the signed type -/
theorem C15_spec_meaning (signed : Bool) (md : Nat) (s : Bytes) (r : Int) :
    specParse signed md s = some r ↔
      s.length ≤ 50 ∧ (splitSign s).2 ≠ [] ∧ ∃ ip fp, Lit (splitSign s).2 ip fp ∧ fp.length ≤ md ∧
        natOfDigits (ip ++ fp) * 10 ^ (md - fp.length) ≤ maxAmount ∧
        (((splitSign s).1 = false ∧ r = ((natOfDigits (ip ++ fp) * 10 ^ (md - fp.length) : Nat) : Int)) ∨
         ((splitSign s).1 = true ∧ signed = true ∧ r = -((natOfDigits (ip ++ fp) * 10 ^ (md - fp.length) : Nat) : Int))) :=
  specParse_some_iff signed md s r

/-- **exactness.** An accepted string denotes the rational `± N / 10^f` (`N` the integer written by all its digits, `f` the
number of fraction digits) and the result `r` satisfies `|r| · 10^f = N · 10^decimals`, i.e. `|r| = |value| · 10^decimals`
exactly — never rounded, truncated or mis-scaled — and the SIGN of `r` is the sign written: a negative result needs a leading `-`,
and a leading `-` never gives a positive result (`"-5"` is not read as `+5`; `"-0"` gives `0`) -/
theorem C15_parse_exact (signed : Bool) (d : Denom) (s : Bytes) (r : Int) (h : fromStrIn signed s d = .ok r) :
    ∃ ip fp, Lit (splitSign s).2 ip fp ∧ fp.length ≤ decimals d ∧
      r.natAbs * 10 ^ fp.length = natOfDigits (ip ++ fp) * 10 ^ decimals d ∧
      (r < 0 → (splitSign s).1 = true) ∧ ((splitSign s).1 = true → r ≤ 0) := by
  obtain ⟨_, _, ip, fp, hl, hf, _, h4⟩ := (specParse_some_iff _ _ _ _).mp ((C15_parse_iff signed d s r).mp h)
  refine ⟨ip, fp, hl, hf, ?_, ?_, ?_⟩
  · have hr : r.natAbs = natOfDigits (ip ++ fp) * 10 ^ (decimals d - fp.length) := by
      rcases h4 with ⟨_, h5⟩ | ⟨_, _, h5⟩
      · rw [h5, Int.natAbs_natCast]
      · rw [h5, Int.natAbs_neg, Int.natAbs_natCast]
    rw [hr, Nat.mul_assoc, ← Nat.pow_add, Nat.sub_add_cancel hf]
  · intro hneg
    rcases h4 with ⟨_, h5⟩ | ⟨h5, _, _⟩
    · omega
    · exact h5
  · intro hs
    rcases h4 with ⟨h5, _⟩ | ⟨_, _, h5⟩
    · rw [hs] at h5; cases h5
    · omega

/-- the same as one equation: the result is the written sign times its magnitude -/
theorem C15_parse_sign (signed : Bool) (d : Denom) (s : Bytes) (r : Int) (h : fromStrIn signed s d = .ok r) :
    r = (if (splitSign s).1 then -1 else 1) * (r.natAbs : Int) := by
  obtain ⟨_, _, _, _, _, h1, h2⟩ := C15_parse_exact signed d s r h
  cases hs : (splitSign s).1 with
  | true => have := h2 hs; simp only [if_true]; omega
  | false =>
    have : ¬ r < 0 := fun hn => by rw [h1 hn] at hs; cases hs
    simp only [Bool.false_eq_true, if_false]; omega

/-- `Amount::from_str_in` never returns more than `2^63 − 1` (nor anything negative) -/
theorem C15_unsigned_cap (d : Denom) (s : Bytes) (r : Int) (h : fromStrIn false s d = .ok r) :
    0 ≤ r ∧ r ≤ 2 ^ 63 - 1 := by
  obtain ⟨_, _, ip, fp, _, _, h3, h4⟩ := (specParse_some_iff _ _ _ _).mp ((C15_parse_iff false d s r).mp h)
  have : maxAmount = 2 ^ 63 - 1 := rfl
  rcases h4 with ⟨_, h5⟩ | ⟨_, h5, _⟩
  · omega
  · cases h5

/-- `SignedAmount::from_str_in` never returns a magnitude above `2^63 − 1` (so never `i64::MIN`) -/
theorem C15_signed_cap (d : Denom) (s : Bytes) (r : Int) (h : fromStrIn true s d = .ok r) :
    -(2 ^ 63 - 1) ≤ r ∧ r ≤ 2 ^ 63 - 1 := by
  obtain ⟨_, _, ip, fp, _, _, h3, h4⟩ := (specParse_some_iff _ _ _ _).mp ((C15_parse_iff true d s r).mp h)
  have : maxAmount = 2 ^ 63 - 1 := rfl
  rcases h4 with ⟨_, h5⟩ | ⟨_, _, h5⟩ <;> omega

/-- **no intermediate wrap.** Whenever the checked operations of the digit loop have all succeeded on a prefix `pre` of the
body, the accumulator is exactly the number written by the digits of `pre` (and fits u64); it never decreases on the
way to the end of the string -/
theorem C15_never_wraps (pre post : Bytes) (md : Nat) :
    (∀ v dc, parseLoop pre 0 none md = .ok (v, dc) → v = natOfDigits (pre.filter isDigit) ∧ v < 2 ^ 64) ∧
    (∀ v' dc', parseLoop (pre ++ post) 0 none md = .ok (v', dc') →
      ∃ v dc, parseLoop pre 0 none md = .ok (v, dc) ∧ v ≤ v') := by
  constructor
  · intro v dc h
    have := parseLoop_value pre md v dc h
    have hu : U64MAX = 2 ^ 64 - 1 := rfl
    exact ⟨this.1, by omega⟩
  · intro v' dc' h
    rw [parseLoop_append] at h
    cases hp : parseLoop pre 0 none md with
    | error e => rw [hp] at h; cases h
    | ok r =>
      obtain ⟨v, dc⟩ := r
      rw [hp] at h
      exact ⟨v, dc, rfl, parseLoop_mono post v dc md v' dc' h⟩

/-- **an overflow in the loops happens only for out-of-range values.** On a well-formed literal (≤ 50 bytes, body of the
grammar, at most `decimals` fraction digits) `parse_signed_to_piconero` fails iff the exact scaled value exceeds `2^64 − 1` -/
theorem C15_overflow_iff (d : Denom) (s ip fp : Bytes) (hlen : s.length ≤ 50) (hne : (splitSign s).2 ≠ [])
    (hl : Lit (splitSign s).2 ip fp) (hf : fp.length ≤ decimals d) :
    (∃ e, parseSignedToPiconero s d = .error e) ↔
      natOfDigits (ip ++ fp) * 10 ^ (decimals d - fp.length) > 2 ^ 64 - 1 := by
  have hu : U64MAX = 2 ^ 64 - 1 := rfl
  constructor
  · rintro ⟨e, he⟩
    by_cases hq : natOfDigits (ip ++ fp) * 10 ^ (decimals d - fp.length) ≤ U64MAX
    · have := (parseSigned_ok_iff s d (decimals d) (precisionOf_eq d) (splitSign s).1 _).mpr
        ⟨hlen, hne, rfl, ip, fp, hl, hf, rfl, hq⟩
      rw [this] at he; cases he
    · omega
  · intro hq
    rcases except_ok_or_error (parseSignedToPiconero s d) with ⟨⟨neg, q⟩, h⟩ | h
    · obtain ⟨_, _, _, ip', fp', hl', _, h5, h6⟩ := (parseSigned_ok_iff s d (decimals d) (precisionOf_eq d) neg q).mp h
      obtain ⟨rfl, rfl⟩ := Lit_unique hl hl'
      omega
    · exact h

/-- **formatting is the exact expansion.** `to_string_in` of an `Amount` (any u64) / `SignedAmount` (any i64, incl. `i64::MIN`;
the statement is for EVERY integer `a` — non-negative for the unsigned type — a superset of what the two types can hold; outside
u64 / i64 the model function `toStringIn` describes nothing in the Rust and the statement is merely also true there)
is the specified string: sign, canonical integer part `|a| div 10^decimals` (non-empty), and iff `decimals > 0` a point and
exactly `decimals` digits; all digits together write `|a|`, so the string denotes `a / 10^decimals` exactly -/
theorem C15_fmt_exact (signed : Bool) (d : Denom) (a : Int) (hu : signed = false → 0 ≤ a) :
    toStringIn signed a d = specFormat (decimals d) a ∧
    ∃ ip fp, toStringIn signed a d = (if a < 0 then [0x2d] else []) ++ ip ++ (if decimals d = 0 then [] else 0x2e :: fp) ∧
      AllDigits ip ∧ ip ≠ [] ∧ AllDigits fp ∧ fp.length = decimals d ∧ natOfDigits (ip ++ fp) = a.natAbs ∧
      ip = natDigits (a.natAbs / 10 ^ decimals d) := by
  have he : toStringIn signed a d = specFormat (decimals d) a := by
    unfold toStringIn
    cases signed with
    | true => simp only [if_true]; exact signedToStringIn_eq a d _ (precisionOf_eq d)
    | false =>
      simp only [Bool.false_eq_true, if_false]
      have h0 := hu rfl
      have : ((a.toNat : Nat) : Int) = a := Int.toNat_of_nonneg h0
      rw [amountToStringIn_eq a.toNat d _ (precisionOf_eq d), this]
  refine ⟨he, ?_⟩
  rw [he]
  exact specFormat_shape (decimals d) a

/-- **round trip.** Parsing a formatted amount of magnitude at most `2^63 − 1` returns it (unsigned: `0 ≤ a`) -/
theorem C15_parse_fmt (signed : Bool) (d : Denom) (a : Int) (hu : signed = false → 0 ≤ a) (hmag : a.natAbs ≤ 2 ^ 63 - 1) :
    fromStrIn signed (toStringIn signed a d) d = .ok a := by
  rw [(C15_fmt_exact signed d a hu).1, C15_parse_iff]
  apply specParse_specFormat signed (decimals d) a hmag
  · intro hneg
    cases signed with
    | true => rfl
    | false => have := hu rfl; omega
  · have := decimals_le d
    exact specFormat_length _ _ (by omega) (by omega)

/-- **round trip with the denomination suffix** through `from_str_with_denomination` (= `FromStr`), the suffix written by the
generated `Display` table and read by the generated `FromStr` table -/
theorem C15_parse_fmt_suffix (signed : Bool) (d : Denom) (a : Int) (hu : signed = false → 0 ≤ a) (hmag : a.natAbs ≤ 2 ^ 63 - 1) :
    fromStrWithDenomination signed (toStringWithDenomination signed a d) = .ok a := by
  unfold fromStrWithDenomination toStringWithDenomination
  have hns : NoSpace (toStringIn signed a d) := by
    rw [(C15_fmt_exact signed d a hu).1]; exact NoSpace_specFormat _ _
  have h1 : toStringIn signed a d ++ [0x20] ++ displayOf d = toStringIn signed a d ++ 0x20 :: displayOf d := by simp
  rw [h1, splitSpace_append _ _ hns]
  simp only
  rw [(display_roundtrip d).2]
  simp only
  rw [(display_roundtrip d).1]
  exact C15_parse_fmt signed d a hu hmag

/-- **denomination names.** The generated `Display` table writes the specification's names (`xmr`, `millinero`, …, as UTF-8);
each is read back as its denomination; and the generated `FromStr` table accepts exactly the specification's spellings
(`xmr XMR monero`, `millinero mXMR`, `micronero µXMR mcXMR`, `nanonero nXMR`, `piconero pXMR`), each for its denomination -/
theorem C15_denomination_names :
    (∀ d, displayOf d = Spec.Decimal.utf8 (Spec.Decimal.name d)) ∧
    (∀ d, denomFromStr (displayOf d) = .ok d) ∧
    (∀ (b : Bytes) (d : Denom), denomFromStr b = .ok d ↔ Spec.Decimal.denomOfName b = some d) := by
  exact ⟨fun d => by cases d <;> decide, fun d => (display_roundtrip d).1, denomFromStr_iff⟩

/-- **suffix form = spec, for every string.** `from_str_with_denomination` (= `FromStr` of both amount types) accepts exactly
`<literal> <spelling>` — exactly two pieces separated by one space — and returns what the specification assigns to the
literal in that denomination -/
theorem C15_parse_denom_iff (signed : Bool) (s : Bytes) (r : Int) :
    fromStrWithDenomination signed s = .ok r ↔ Spec.Decimal.specParseWithDenomination signed s = some r :=
  fromStrWithDenomination_iff signed s r

/-- formatting with the suffix is the specified string -/
theorem C15_fmt_suffix_exact (signed : Bool) (d : Denom) (a : Int) (hu : signed = false → 0 ≤ a) :
    toStringWithDenomination signed a d = Spec.Decimal.specFormatWithDenomination d a := by
  unfold toStringWithDenomination Spec.Decimal.specFormatWithDenomination
  rw [(C15_fmt_exact signed d a hu).1, C15_denomination_names.1 d]

/-! ## Added: the complement of the round trip, injectivity of the formatter, `Display`, totality of the generated tables -/

/-- the suffix form of a formatted amount is parsed by parsing its value part in the denomination that was written -/
theorem C15_suffix_reduces (signed : Bool) (d : Denom) (a : Int) (hu : signed = false → 0 ≤ a) :
    fromStrWithDenomination signed (toStringWithDenomination signed a d) = fromStrIn signed (toStringIn signed a d) d := by
  unfold fromStrWithDenomination toStringWithDenomination
  have hns : NoSpace (toStringIn signed a d) := by
    rw [(C15_fmt_exact signed d a hu).1]; exact NoSpace_specFormat _ _
  have h1 : toStringIn signed a d ++ [0x20] ++ displayOf d = toStringIn signed a d ++ 0x20 :: displayOf d := by simp
  rw [h1, splitSpace_append _ _ hns]
  simp only
  rw [(display_roundtrip d).2]
  simp only
  rw [(display_roundtrip d).1]

/-- **round trip, both directions, every magnitude.** Parsing a formatted amount (any integer of magnitude `< 2^64`, non-negative for
the unsigned type: every u64 and every i64, and for `signed = true` also the integers `2^63 … 2^64−1` and `−(2^64−1) … −2^63−1` that
`SignedAmount` cannot hold — a superset of the types) returns a value iff
the amount has magnitude at most `2^63 − 1`, and then it returns exactly that amount — never another value -/
theorem C15_parse_fmt_iff (signed : Bool) (d : Denom) (a : Int) (hu : signed = false → 0 ≤ a) (hr : a.natAbs < 2 ^ 64) (r : Int) :
    (fromStrIn signed (toStringIn signed a d) d = .ok r ↔ (r = a ∧ a.natAbs ≤ 2 ^ 63 - 1)) ∧
    (fromStrWithDenomination signed (toStringWithDenomination signed a d) = .ok r ↔ (r = a ∧ a.natAbs ≤ 2 ^ 63 - 1)) := by
  have h1 : fromStrIn signed (toStringIn signed a d) d = .ok r ↔ (r = a ∧ a.natAbs ≤ 2 ^ 63 - 1) := by
    rw [(C15_fmt_exact signed d a hu).1, C15_parse_iff, specParse_specFormat_iff]
    have hm : maxAmount = 2 ^ 63 - 1 := rfl
    have hlen : (specFormat (decimals d) a).length ≤ 50 := by
      have := decimals_le d
      exact specFormat_length _ _ (by omega) (by omega)
    have hsg : a < 0 → signed = true := by
      intro hneg
      cases signed with
      | true => rfl
      | false => have := hu rfl; omega
    rw [hm]
    exact ⟨fun h => ⟨h.1, h.2.1⟩, fun h => ⟨h.1, h.2, hsg, hlen⟩⟩
  exact ⟨h1, by rw [C15_suffix_reduces signed d a hu]; exact h1⟩

/-- **complement of the round trip.** A formatted amount of magnitude above `2^63 − 1` (an `Amount` above `i64::MAX`, or
`SignedAmount::min_value()`) is refused by both parsers — it is not read back as some other value -/
theorem C15_parse_fmt_out_of_range (signed : Bool) (d : Denom) (a : Int) (hu : signed = false → 0 ≤ a) (hr : a.natAbs < 2 ^ 64)
    (h : a.natAbs > 2 ^ 63 - 1) :
    (∃ e, fromStrIn signed (toStringIn signed a d) d = .error e) ∧
    (∃ e, fromStrWithDenomination signed (toStringWithDenomination signed a d) = .error e) := by
  constructor
  · rcases except_ok_or_error (fromStrIn signed (toStringIn signed a d) d) with ⟨r, hr'⟩ | he
    · have := ((C15_parse_fmt_iff signed d a hu hr r).1.mp hr').2; omega
    · exact he
  · rcases except_ok_or_error (fromStrWithDenomination signed (toStringWithDenomination signed a d)) with ⟨r, hr'⟩ | he
    · have := ((C15_parse_fmt_iff signed d a hu hr r).2.mp hr').2; omega
    · exact he

/-- **the formatter is injective** (per denomination; any two integers, non-negative for the unsigned type — a superset of the
amounts of the type): distinct amounts never share a text -/
theorem C15_fmt_injective (signed : Bool) (d : Denom) (a b : Int) (ha : signed = false → 0 ≤ a) (hb : signed = false → 0 ≤ b)
    (h : toStringIn signed a d = toStringIn signed b d) : a = b := by
  rw [(C15_fmt_exact signed d a ha).1, (C15_fmt_exact signed d b hb).1] at h
  exact specFormat_injective _ a b h

/-- **`Display`**, as modelled: `AmtText.display signed a` is by definition `toStringWithDenomination signed a .Monero`, so this is
`C15_fmt_suffix_exact` / `C15_parse_fmt_suffix` at `d = .Monero` — a corollary, NOT an independent result. That the two `Display` impls
(amount.rs 414-419, 729-734) hard-wire `Denomination::Monero` and consult no formatter flag is read off the source by inspection
(the translator only REPORTS whether the two bodies still have that token shape: `Gen.extracted_shape_{Amount,SignedAmount}_Display_fmt`);
the tie to the code is the harness: `c15_display` (`format!("{}")`) and `c15_display_flags` (precision, width, alignment, fill, `+`, `#`
flags must print the same text as plain `{}`), both compared with this model and with the independent specification -/
theorem C15_display_roundtrip (signed : Bool) (a : Int) (hu : signed = false → 0 ≤ a) :
    display signed a = Spec.Decimal.specFormatWithDenomination .Monero a ∧
    (a.natAbs ≤ 2 ^ 63 - 1 → fromStrWithDenomination signed (display signed a) = .ok a) :=
  ⟨C15_fmt_suffix_exact signed .Monero a hu, fun hmag => C15_parse_fmt_suffix signed .Monero a hu hmag⟩

/-- the generated precision and `Display` tables have exactly one row per denomination, in declaration order (so the
`getD` defaults of `precisionOf` / `displayOf` are never used: no row can be missing for the wrong reason) -/
theorem C15_tables_total :
    Gen.precision.map (·.1) = Denom.all ∧ Gen.denomDisplay.map (·.1) = Denom.all ∧
    (∀ d, ∃ p, Gen.precision.lookup d = some p) ∧ (∀ d, ∃ n, Gen.denomDisplay.lookup d = some n ∧ n ≠ []) := by
  refine ⟨by decide, by decide, ?_, ?_⟩
  · intro d; cases d <;> exact ⟨_, rfl⟩
  · intro d; cases d <;> exact ⟨_, rfl, by decide⟩

/-- **the parser's length cap and arithmetic sites in `Gen`.** `Gen.amtMaxLen` is OBSERVED on every run (the longest accepted
all-zero literal, cross-checked with the literal of `s.len() > N` in the source), so the hand-copied `50` of the model and of the
specification is tied to the current code by this theorem. The three arithmetic sites are read syntactically: when
`parse_signed_to_piconero` contains exactly three calls of std integer methods of the kinds mul, add, mul in this order (`Gen.extracted_amtParseSites`
shows what was found), `Gen.amtParseMul/Add/RescaleMul` ARE those methods and a `wrapping_*` / `saturating_*` site refutes this
theorem; when the function is written differently (`10 * value`, `overflowing_mul`, a helper, another order, …) the translator falls
back to the REVIEWED rows `checked_mul, checked_add, checked_mul` with an EXTRACT-NOTE, this theorem holds trivially, and the tie of
the arithmetic to the code is the differential run (families `magnitude`, `prefix`, `wrapsmall`, `wrapfrac` of harness/src/c15.rs).
Nothing is stated about the shapes of the two `from_str_in` bodies: `Gen.shape_*` is the reviewed `true` on every tree (see the header
of Props/C18.lean); what the translator read is reported in `Gen.extracted_shape_{Amount,SignedAmount}_from_str_in` -/
theorem C15_parser_constants :
    Gen.amtMaxLen = 50 ∧ Gen.amtMaxLen = Spec.Decimal.maxLen ∧
    Gen.amtParseMul = some .checked_mul ∧ Gen.amtParseAdd = some .checked_add ∧ Gen.amtRescaleMul = some .checked_mul := by decide

/-- **the std methods of the three sites compute the model's overflow tests.** Evaluating the methods `Gen` names at the
three arithmetic sites (on u64, `Model/StdInt`) gives exactly the comparisons `10·v > 2^64−1`, `10·v + d > 2^64−1` — for every
accumulator value of the type and every digit. With a `wrapping_*` / `saturating_*` method at a site this statement is false (e.g.
`v = 2^63`, where `wrapping_mul` returns `2^64·5 mod 2^64 = 0`). `C15_loop_uses_gen_steps` / `C15_rescale_uses_gen_step` below
connect the two step functions to `parseLoop` / `rescale`, which the parse theorems are about -/
theorem C15_checked_steps (v dgt : Nat) (hv : v ≤ U64MAX) (hd : dgt ≤ 9) :
    genDigitStep v dgt = (if 10 * v > U64MAX then none else if 10 * v + dgt > U64MAX then none else some ((10 * v + dgt : Nat) : Int)) ∧
    genRescaleStep v = (if 10 * v > U64MAX then none else some ((10 * v : Nat) : Int)) := by
  have hu : U64MAX = 2 ^ 64 - 1 := rfl
  have hfit : ∀ x : Int, TyU64.fits x ↔ (0 ≤ x ∧ x ≤ 2 ^ 64 - 1) := by intro x; unfold IntTy.fits TyU64; simp
  constructor
  · simp only [genDigitStep, Gen.amtParseMul, Gen.amtParseAdd, StdOp.eval, IntTy.chk]
    by_cases h1 : 10 * v > U64MAX
    · have : ¬ TyU64.fits (10 * (v : Int)) := by rw [hfit]; omega
      rw [if_neg this, if_pos h1]; rfl
    · have : TyU64.fits (10 * (v : Int)) := by rw [hfit]; omega
      rw [if_pos this, if_neg h1]
      simp only [Option.bind_some]
      by_cases h2 : 10 * v + dgt > U64MAX
      · have : ¬ TyU64.fits (10 * (v : Int) + (dgt : Int)) := by rw [hfit]; omega
        rw [if_neg this, if_pos h2]
      · have : TyU64.fits (10 * (v : Int) + (dgt : Int)) := by rw [hfit]; omega
        rw [if_pos this, if_neg h2]
        congr 1
  · simp only [genRescaleStep, Gen.amtRescaleMul, StdOp.eval, IntTy.chk]
    by_cases h1 : 10 * v > U64MAX
    · have : ¬ TyU64.fits (10 * (v : Int)) := by rw [hfit]; omega
      rw [if_neg this, if_pos h1]
    · have : TyU64.fits (10 * (v : Int)) := by rw [hfit]; omega
      rw [if_pos this, if_neg h1]
      congr 1

/-- **`parseLoop` IS the generated digit step.** One iteration of the model's digit loop on a digit `c` is: evaluate the std methods
named at the first two sites (`genDigitStep`), `TooBig` when they refuse, otherwise continue with their result and the decimal
counter — so the loop the parse theorems are about uses the regenerated methods, not a re-typed copy of them -/
theorem C15_loop_uses_gen_steps (c : UInt8) (cs : Bytes) (v : Nat) (d : Option Nat) (md : Nat) (hc : isDigit c = true) (hv : v ≤ U64MAX) :
    parseLoop (c :: cs) v d md =
      match genDigitStep v (c.toNat - 0x30) with
      | none => .error .tooBig
      | some x =>
        match d with
        | none => parseLoop cs x.toNat none md
        | some k => if k < md then parseLoop cs x.toNat (some (k + 1)) md else .error .tooPrecise := by
  have hd : c.toNat - 0x30 ≤ 9 := by
    simp only [isDigit, Bool.and_eq_true, decide_eq_true_eq] at hc; omega
  rw [(C15_checked_steps v (c.toNat - 0x30) hv hd).1]
  cases d with
  | none =>
    simp only [parseLoop, hc, if_true]
    by_cases h1 : 10 * v > U64MAX
    · rw [if_pos h1, if_pos h1]
    · rw [if_neg h1, if_neg h1]
      by_cases h2 : 10 * v + (c.toNat - 0x30) > U64MAX
      · rw [if_pos h2, if_pos h2]
      · rw [if_neg h2, if_neg h2]
        simp only [Int.toNat_natCast]
  | some k =>
    simp only [parseLoop, hc, if_true]
    by_cases h1 : 10 * v > U64MAX
    · rw [if_pos h1, if_pos h1]
    · rw [if_neg h1, if_neg h1]
      by_cases h2 : 10 * v + (c.toNat - 0x30) > U64MAX
      · rw [if_pos h2, if_pos h2]
      · rw [if_neg h2, if_neg h2]
        simp only [Int.toNat_natCast]

/-- **`rescale` IS the generated rescale step**: one iteration evaluates the std method named at the third site -/
theorem C15_rescale_uses_gen_step (n v : Nat) (hv : v ≤ U64MAX) :
    rescale (n + 1) v = match genRescaleStep v with | none => .error .tooBig | some x => rescale n x.toNat := by
  rw [(C15_checked_steps v 0 hv (by omega)).2]
  have hl : rescale (n + 1) v = if 10 * v > U64MAX then .error .tooBig else rescale n (10 * v) := by simp only [rescale]
  rw [hl]
  by_cases h1 : 10 * v > U64MAX
  · rw [if_pos h1, if_pos h1]
  · rw [if_neg h1, if_neg h1]
    simp only [Int.toNat_natCast]

/-- the formulation does exclude a wrapping site: with `wrapping_mul` the digit step at `v = 2^63` would return a value
(test of the statement, not a theorem about /repo) -/
example : (StdOp.wrapping_mul.eval TyU64 10 (2 ^ 63)) = some 0 ∧ (StdOp.checked_mul.eval TyU64 10 (2 ^ 63)) = none := by decide

/-! The hypotheses are satisfiable / the statements are not vacuous. -/
example : fromStrIn false [0x31, 0x2e, 0x35] .Monero = .ok 1500000000000 := (C15_parse_iff _ _ _ _).mpr (by decide)
example : fromStrIn true [0x2d, 0x2e] .Monero = .ok 0 := (C15_parse_iff _ _ _ _).mpr (by decide)
example : fromStrIn false [0x2d, 0x30] .Monero ≠ .ok 0 := fun h => absurd ((C15_parse_iff _ _ _ _).mp h) (by decide)
example : toStringIn true (-(2 ^ 63)) .Monero = "-9223372.036854775808".toList.map (fun c => UInt8.ofNat c.toNat) := by
  rw [(C15_fmt_exact true .Monero _ (by intro h; cases h)).1]; decide
example : ∃ a : Int, a.natAbs ≤ 2 ^ 63 - 1 ∧ a < 0 := ⟨-1, by decide, by decide⟩
example : ∃ a : Int, a.natAbs < 2 ^ 64 ∧ a.natAbs > 2 ^ 63 - 1 ∧ 0 ≤ a := ⟨2 ^ 63, by decide, by decide, by decide⟩
example : ∃ a : Int, a.natAbs < 2 ^ 64 ∧ a.natAbs > 2 ^ 63 - 1 ∧ a < 0 := ⟨-(2 ^ 63), by decide, by decide, by decide⟩
/- the out-of-range hypotheses are satisfiable INSIDE the two types: an `Amount` above `i64::MAX` (unsigned) and `i64::MIN` (signed) -/
example : ∃ a : Int, (false = false → 0 ≤ a) ∧ a.natAbs < 2 ^ 64 ∧ a.natAbs > 2 ^ 63 - 1 ∧ TyU64.fits a := ⟨2 ^ 64 - 1, by decide, by decide, by decide, by decide⟩
example : ∃ a : Int, a.natAbs < 2 ^ 64 ∧ a.natAbs > 2 ^ 63 - 1 ∧ TyI64.fits a := ⟨-(2 ^ 63), by decide, by decide, by decide⟩
/- `C15_parse_exact`: both sign clauses are met non-trivially (a `-` literal with a negative result; `-0` with result 0) -/
example : fromStrIn true [0x2d, 0x35] .Piconero = .ok (-5) := (C15_parse_iff _ _ _ _).mpr (by decide)
example : fromStrIn true [0x2d, 0x30] .Piconero = .ok 0 := (C15_parse_iff _ _ _ _).mpr (by decide)
example : isDigit 0x37 = true ∧ (0 : Nat) ≤ U64MAX := by decide

end C15
