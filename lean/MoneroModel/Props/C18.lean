import MoneroModel.Model.AmountArith
import MoneroModel.Drv.C18
open Monero
/-! # C18 — amount arithmetic is exact or refuses; it never wraps

Statements are over mathematical integers; operands range over the whole of u64 / i64 (`TyU64.fits`, `TyI64.fits`; the two
ranges are pinned to their literals by `C18_ranges_are_u64_i64`).
What is regenerated from src/util/amount.rs on every run is the DELEGATION structure of the five checked methods, the five operators
and the five assigning operators of each type (30 `Gen.u_*` / `Gen.s_*` rows): binding `checked_add` to `wrapping_add`, or `+` to
`checked_sub`, changes a row and makes the theorems fail. A body the translator does not recognise (e.g. a plain `self.0 + rhs.0`,
for which `StdOp` has no constructor) falls back to the REVIEWED row with an EXTRACT-NOTE; for such a body the theorems speak about
the reviewed structure and the tie to the code is the differential grid alone.
The remaining bodies — `to_signed`, `to_unsigned`, `positive_sub`, `checked_abs`, `abs`, `signum` (and `as_pico`, `from_pico`,
`is_negative`, `max_value`, which they go through) — are HAND models: the theorems about them (`C18_to_signed`, …, `C18_signum`) are
facts about the Lean definitions of `Model/AmountArith.lean`, tied to the Rust by the harness grid only. The translator reports
whether each of these bodies still has the token shape quoted beside its model (`Gen.extracted_shape_*`, listed in the evidence);
no theorem depends on that report: the second pass of the translator replaces a differing `Gen.shape_*` by the reviewed `true`
(a restructured body is not a changed behaviour), so a statement `Gen.shape_* = true` can never fail and none is made here. -/
namespace C18

/-- the exact result of an arithmetic operation on integers (truncating division, as for machine integers) -/
def exact : Arith → Int → Int → Int
  | .add, a, b => a + b | .sub, a, b => a - b | .mul, a, b => a * b
  | .div, a, b => Int.tdiv a b | .rem, a, b => Int.tmod a b
def needsDivisor : Arith → Bool | .div => true | .rem => true | _ => false

theorem u64_tdiv_fits (a b : Int) (ha : TyU64.fits a) (hb : TyU64.fits b) : TyU64.fits (Int.tdiv a b) := by
  unfold IntTy.fits TyU64 at *
  simp only at *
  obtain ⟨ha0, ha1⟩ := ha
  obtain ⟨hb0, _⟩ := hb
  rw [Int.tdiv_eq_ediv_of_nonneg ha0]
  refine ⟨Int.ediv_nonneg ha0 hb0, ?_⟩
  exact Int.le_trans (Int.ediv_le_self b ha0) ha1

theorem u64_tmod_fits (a b : Int) (ha : TyU64.fits a) (hb : TyU64.fits b) (hb0 : b ≠ 0) : TyU64.fits (Int.tmod a b) := by
  unfold IntTy.fits TyU64 at *
  simp only at *
  obtain ⟨ha0, ha1⟩ := ha
  obtain ⟨hb00, hb1⟩ := hb
  rw [Int.tmod_eq_emod_of_nonneg ha0]
  have hbpos : 0 < b := by omega
  refine ⟨Int.emod_nonneg a hb0, ?_⟩
  have := Int.emod_lt_of_pos a hbpos
  omega

theorem i64_tmod_fits (a b : Int) (hb : TyI64.fits b) (hb0 : b ≠ 0) : TyI64.fits (Int.tmod a b) := by
  have h := Int.natAbs_tmod a b
  have h2 : a.natAbs % b.natAbs < b.natAbs := Nat.mod_lt _ (by omega)
  unfold IntTy.fits TyI64 at *
  simp only at *
  omega

theorem i64_tdiv_fits (a b : Int) (ha : TyI64.fits a) (hb0 : b ≠ 0) (hne : ¬ (a = TyI64.lo ∧ b = -1)) :
    TyI64.fits (Int.tdiv a b) := by
  unfold IntTy.fits TyI64 at *
  simp only at *
  by_cases hb1 : b = 1
  · subst hb1; simpa using ha
  · by_cases hbm : b = -1
    · subst hbm
      have : a.tdiv (-1) = -a := by rw [Int.tdiv_neg, Int.tdiv_one]
      rw [this]; omega
    · have h2 : (a.tdiv b).natAbs = a.natAbs / b.natAbs := Int.natAbs_tdiv a b
      have h3 : a.natAbs / b.natAbs ≤ a.natAbs / 2 := Nat.div_le_div_left (by omega) (by decide)
      omega

/-- unsigned: every checked operation returns the exact result iff it is representable and the divisor is non-zero,
and nothing otherwise -/
theorem C18_checked_unsigned_iff (op : Arith) (a b : Int) (ha : TyU64.fits a) (hb : TyU64.fits b) (r : Int) :
    amtChecked false op a b = some (some r) ↔
      (r = exact op a b ∧ TyU64.fits r ∧ (needsDivisor op = true → b ≠ 0)) := by
  cases op <;> simp only [amtChecked, genChecked, tyOf, Gen.u_checked_add, Gen.u_checked_sub, Gen.u_checked_mul,
    Gen.u_checked_div, Gen.u_checked_rem, Option.map_some, StdOp.eval, IntTy.chk, exact, needsDivisor, Bool.false_eq_true,
    if_false, Option.some.injEq]
  · constructor
    · intro h; split at h <;> simp at h; subst h; simp_all
    · rintro ⟨rfl, h, _⟩; simp [h]
  · constructor
    · intro h; split at h <;> simp at h; subst h; simp_all
    · rintro ⟨rfl, h, _⟩; simp [h]
  · constructor
    · intro h; split at h <;> simp at h; subst h; simp_all
    · rintro ⟨rfl, h, _⟩; simp [h]
  · by_cases h0 : b = 0
    · simp [h0]
    · have := u64_tdiv_fits a b ha hb
      simp only [h0, if_false, this, if_true, Option.some.injEq]
      constructor
      · intro h; subst h; simp_all
      · rintro ⟨rfl, _, _⟩; rfl
  · by_cases h0 : b = 0
    · simp [h0]
    · have := u64_tdiv_fits a b ha hb
      have hm := u64_tmod_fits a b ha hb h0
      simp only [h0, if_false, this, if_true, Option.some.injEq]
      constructor
      · intro h; subst h; simp_all
      · rintro ⟨rfl, _, _⟩; rfl

theorem C18_checked_unsigned_total (op : Arith) (a b : Int) : ∃ r, amtChecked false op a b = some r := by
  cases op <;> simp [amtChecked, genChecked, Gen.u_checked_add, Gen.u_checked_sub, Gen.u_checked_mul, Gen.u_checked_div, Gen.u_checked_rem]

/-- signed: same statement for add, sub, mul, div; for rem at every operand pair except (MIN, −1) -/
theorem C18_checked_signed_iff (op : Arith) (a b : Int) (ha : TyI64.fits a) (hb : TyI64.fits b) (r : Int)
    (hx : ¬ (op = .rem ∧ a = TyI64.lo ∧ b = -1)) :
    amtChecked true op a b = some (some r) ↔
      (r = exact op a b ∧ TyI64.fits r ∧ (needsDivisor op = true → b ≠ 0)) := by
  cases op <;> simp only [amtChecked, genChecked, tyOf, Gen.s_checked_add, Gen.s_checked_sub, Gen.s_checked_mul,
    Gen.s_checked_div, Gen.s_checked_rem, Option.map_some, StdOp.eval, IntTy.chk, exact, needsDivisor, if_true,
    Bool.false_eq_true, Option.some.injEq]
  · constructor
    · intro h; split at h <;> simp at h; subst h; simp_all
    · rintro ⟨rfl, h, _⟩; simp [h]
  · constructor
    · intro h; split at h <;> simp at h; subst h; simp_all
    · rintro ⟨rfl, h, _⟩; simp [h]
  · constructor
    · intro h; split at h <;> simp at h; subst h; simp_all
    · rintro ⟨rfl, h, _⟩; simp [h]
  · by_cases h0 : b = 0
    · simp [h0]
    · simp only [h0, if_false]
      constructor
      · intro h; split at h <;> simp at h; subst h; simp_all
      · rintro ⟨rfl, h, _⟩; simp [h]
  · by_cases h0 : b = 0
    · simp [h0]
    · simp only [h0, if_false]
      have hq : TyI64.fits (Int.tdiv a b) := i64_tdiv_fits a b ha h0 (fun h => hx ⟨rfl, h⟩)
      have hm := i64_tmod_fits a b hb h0
      simp only [hq, if_true, Option.some.injEq]
      constructor
      · intro h; subst h; simp_all
      · rintro ⟨rfl, _, _⟩; rfl

/-- the one operand pair where signed remainder is *not* "exact iff representable": the exact remainder 0 is
representable and the divisor is non-zero, yet `checked_rem` (inherited from `i64::checked_rem`) returns nothing.
Recorded as a known finding (DESIGN.md §7 item 5). -/
theorem C18_rem_min_neg1 :
    amtChecked true .rem TyI64.lo (-1) = some none ∧ exact .rem TyI64.lo (-1) = 0 ∧ TyI64.fits 0 := by decide

/-- the operator forms panic exactly when the checked forms return nothing, and otherwise return the same value -/
theorem C18_operator_panics_iff (signed : Bool) (op : Arith) (a b : Int) :
    (amtOperator signed op a b = some .panic ↔ amtChecked signed op a b = some none) ∧
    (∀ r, amtOperator signed op a b = some (.val r) ↔ amtChecked signed op a b = some (some r)) := by
  cases signed <;> cases op <;>
    simp only [amtOperator, genOperator, Gen.u_op_add, Gen.u_op_sub, Gen.u_op_mul, Gen.u_op_div, Gen.u_op_rem,
      Gen.s_op_add, Gen.s_op_sub, Gen.s_op_mul, Gen.s_op_div, Gen.s_op_rem, if_true, Bool.false_eq_true, if_false] <;>
    (constructor
     · cases h : amtChecked _ _ a b with
       | none => simp
       | some r => cases r <;> simp
     · intro r
       cases h : amtChecked _ _ a b with
       | none => simp
       | some r' => cases r' <;> simp)

/-- the assigning variants agree with the operator forms -/
theorem C18_assign_agrees (signed : Bool) (op : Arith) (a b : Int) :
    amtAssign signed op a b = amtOperator signed op a b := by
  cases signed <;> cases op <;> rfl

/-- unsigned → signed conversion is exact or an error: ok iff `a ≤ 2^63 − 1` -/
theorem C18_to_signed (a : Int) (r : Int) : toSigned a = some r ↔ (a ≤ 2^63 - 1 ∧ r = a) := by
  unfold toSigned TyI64; simp only
  constructor
  · intro h; split at h <;> simp at h; omega
  · rintro ⟨h, rfl⟩; simp; omega

/-- signed → unsigned conversion: ok iff `a ≥ 0` -/
theorem C18_to_unsigned (a : Int) (r : Int) : toUnsigned a = some r ↔ (0 ≤ a ∧ r = a) := by
  unfold toUnsigned
  constructor
  · intro h; split at h <;> simp at h; omega
  · rintro ⟨h, rfl⟩; simp; omega

/-- non-negative subtraction: `a − b` iff `0 ≤ b ≤ a` (which implies `0 ≤ a`), nothing otherwise -/
theorem C18_positive_sub (a b : Int) (ha : TyI64.fits a) (hb : TyI64.fits b) (r : Int) :
    positiveSub a b = some (some r) ↔ (0 ≤ b ∧ b ≤ a ∧ r = a - b) := by
  unfold positiveSub
  by_cases hc : a < 0 ∨ b < 0 ∨ b > a
  · simp only [hc, if_true]; constructor
    · intro h; simp at h
    · rintro ⟨h1, h2, _⟩; omega
  · simp only [hc, if_false]
    rw [C18_checked_signed_iff .sub a b ha hb r (by simp)]
    simp only [exact, needsDivisor]
    unfold IntTy.fits TyI64 at *
    simp only at *
    constructor
    · rintro ⟨rfl, _, _⟩; omega
    · rintro ⟨h1, h2, rfl⟩; refine ⟨rfl, by omega, by simp⟩

theorem C18_positive_sub_total (a b : Int) : ∃ r, positiveSub a b = some r := by
  unfold positiveSub; split
  · exact ⟨none, rfl⟩
  · simp [amtChecked, genChecked, Gen.s_checked_sub]

/-! ## Added: totality for the signed type, closed forms, operators stated directly against `exact`, and a
characterisation of `exact .div` / `exact .rem` that does not mention `Int.tdiv` / `Int.tmod` -/

/-- signed: every checked operation is modelled and either returns a value or refuses (the "nothing otherwise" half:
together with `C18_checked_signed_iff`, whenever no `r` satisfies the right-hand side the result is `some none`, i.e. `None`) -/
theorem C18_checked_signed_total (op : Arith) (a b : Int) : ∃ r, amtChecked true op a b = some r := by
  cases op <;> simp [amtChecked, genChecked, Gen.s_checked_add, Gen.s_checked_sub, Gen.s_checked_mul, Gen.s_checked_div, Gen.s_checked_rem]

/-- the excluded operand pair of the signed remainder (the recorded known finding) -/
def remMinNeg1 (signed : Bool) (op : Arith) (a b : Int) : Prop := signed = true ∧ op = .rem ∧ a = TyI64.lo ∧ b = -1

/-- **closed form of the checked operations, both types**: the exact result when it is representable and the divisor is
non-zero, `None` otherwise — as one equation (at every operand pair except signed `MIN % -1`) -/
theorem C18_checked_eq (signed : Bool) (op : Arith) (a b : Int) (ha : (tyOf signed).fits a) (hb : (tyOf signed).fits b)
    (hx : ¬ remMinNeg1 signed op a b) :
    amtChecked signed op a b =
      some (if (tyOf signed).fits (exact op a b) ∧ (needsDivisor op = true → b ≠ 0) then some (exact op a b) else none) := by
  cases signed with
  | false =>
    simp only [tyOf, Bool.false_eq_true, if_false] at ha hb ⊢
    obtain ⟨r', hr'⟩ := C18_checked_unsigned_total op a b
    rw [hr']
    cases r' with
    | none =>
      by_cases hc : TyU64.fits (exact op a b) ∧ (needsDivisor op = true → b ≠ 0)
      · have := (C18_checked_unsigned_iff op a b ha hb (exact op a b)).2 ⟨rfl, hc.1, hc.2⟩
        rw [hr'] at this; cases this
      · rw [if_neg hc]
    | some r =>
      obtain ⟨h1, h2, h3⟩ := (C18_checked_unsigned_iff op a b ha hb r).1 hr'
      subst h1
      rw [if_pos ⟨h2, h3⟩]
  | true =>
    simp only [tyOf, if_true] at ha hb ⊢
    have hx' : ¬ (op = .rem ∧ a = TyI64.lo ∧ b = -1) := fun h => hx ⟨rfl, h⟩
    obtain ⟨r', hr'⟩ := C18_checked_signed_total op a b
    rw [hr']
    cases r' with
    | none =>
      by_cases hc : TyI64.fits (exact op a b) ∧ (needsDivisor op = true → b ≠ 0)
      · have := (C18_checked_signed_iff op a b ha hb (exact op a b) hx').2 ⟨rfl, hc.1, hc.2⟩
        rw [hr'] at this; cases this
      · rw [if_neg hc]
    | some r =>
      obtain ⟨h1, h2, h3⟩ := (C18_checked_signed_iff op a b ha hb r hx').1 hr'
      subst h1
      rw [if_pos ⟨h2, h3⟩]

/-- a checked operation refuses exactly when the exact result is not representable or the divisor is zero -/
theorem C18_checked_none_iff (signed : Bool) (op : Arith) (a b : Int) (ha : (tyOf signed).fits a) (hb : (tyOf signed).fits b)
    (hx : ¬ remMinNeg1 signed op a b) :
    amtChecked signed op a b = some none ↔ ¬ ((tyOf signed).fits (exact op a b) ∧ (needsDivisor op = true → b ≠ 0)) := by
  rw [C18_checked_eq signed op a b ha hb hx]
  by_cases hc : (tyOf signed).fits (exact op a b) ∧ (needsDivisor op = true → b ≠ 0)
  · rw [if_pos hc]; exact ⟨fun h => (by cases h), fun h => absurd hc h⟩
  · rw [if_neg hc]; exact ⟨fun _ => hc, fun _ => rfl⟩

/-- the operator and assigning forms are modelled for every operator of both types (no `unmodelled` row in `Gen`) -/
theorem C18_operator_total (signed : Bool) (op : Arith) (a b : Int) :
    (∃ r, amtOperator signed op a b = some r) ∧ (∃ r, amtAssign signed op a b = some r) := by
  have h : ∃ r, amtOperator signed op a b = some r := by
    cases signed <;> cases op <;>
      simp [amtOperator, genOperator, amtChecked, genChecked, Gen.u_op_add, Gen.u_op_sub, Gen.u_op_mul, Gen.u_op_div, Gen.u_op_rem,
        Gen.s_op_add, Gen.s_op_sub, Gen.s_op_mul, Gen.s_op_div, Gen.s_op_rem, Gen.u_checked_add, Gen.u_checked_sub, Gen.u_checked_mul,
        Gen.u_checked_div, Gen.u_checked_rem, Gen.s_checked_add, Gen.s_checked_sub, Gen.s_checked_mul, Gen.s_checked_div, Gen.s_checked_rem]
  exact ⟨h, by rw [C18_assign_agrees]; exact h⟩

/-- each operator `expect`s the checked method of the SAME operation (the content of the ten generated `*_op_*` rows) -/
theorem C18_operator_uses_own_checked (signed : Bool) (op : Arith) : genOperator signed op = some op ∧ genAssign signed op = some op := by
  cases signed <;> cases op <;> exact ⟨rfl, rfl⟩

/-- **operators, stated directly against the exact integer result**: `a <op> b` evaluates to the exact result when it is
representable and the divisor is non-zero and panics otherwise (at every operand pair except signed `MIN % -1`) -/
theorem C18_operator_exact (signed : Bool) (op : Arith) (a b : Int) (ha : (tyOf signed).fits a) (hb : (tyOf signed).fits b)
    (hx : ¬ remMinNeg1 signed op a b) :
    amtOperator signed op a b =
      some (if (tyOf signed).fits (exact op a b) ∧ (needsDivisor op = true → b ≠ 0) then .val (exact op a b) else .panic) := by
  have h : amtOperator signed op a b = (amtChecked signed op a b).map fun r => match r with | some v => .val v | none => .panic := by
    simp only [amtOperator, (C18_operator_uses_own_checked signed op).1]; rfl
  rw [h, C18_checked_eq signed op a b ha hb hx]
  by_cases hc : (tyOf signed).fits (exact op a b) ∧ (needsDivisor op = true → b ≠ 0)
  · rw [if_pos hc, if_pos hc]; rfl
  · rw [if_neg hc, if_neg hc]; rfl

/-- the same for the assigning forms `a <op>= b` -/
theorem C18_assign_exact (signed : Bool) (op : Arith) (a b : Int) (ha : (tyOf signed).fits a) (hb : (tyOf signed).fits b)
    (hx : ¬ remMinNeg1 signed op a b) :
    amtAssign signed op a b =
      some (if (tyOf signed).fits (exact op a b) ∧ (needsDivisor op = true → b ≠ 0) then .val (exact op a b) else .panic) := by
  rw [C18_assign_agrees]; exact C18_operator_exact signed op a b ha hb hx

/-- **never wraps**: whatever a checked / operator / assigning form returns lies in the type's range and IS the exact
integer result — there is no operand pair (the excluded one included) on which a value other than the exact one comes back -/
theorem C18_never_wraps (signed : Bool) (op : Arith) (a b : Int) (ha : (tyOf signed).fits a) (hb : (tyOf signed).fits b) (r : Int) :
    (amtChecked signed op a b = some (some r) → r = exact op a b ∧ (tyOf signed).fits r) ∧
    (amtOperator signed op a b = some (.val r) → r = exact op a b ∧ (tyOf signed).fits r) ∧
    (amtAssign signed op a b = some (.val r) → r = exact op a b ∧ (tyOf signed).fits r) := by
  have hc : amtChecked signed op a b = some (some r) → r = exact op a b ∧ (tyOf signed).fits r := by
    intro h
    by_cases hx : remMinNeg1 signed op a b
    · obtain ⟨rfl, rfl, rfl, rfl⟩ := hx
      rw [C18_rem_min_neg1.1] at h; cases h
    · rw [C18_checked_eq signed op a b ha hb hx] at h
      by_cases hcnd : (tyOf signed).fits (exact op a b) ∧ (needsDivisor op = true → b ≠ 0)
      · rw [if_pos hcnd] at h; cases h; exact ⟨rfl, hcnd.1⟩
      · rw [if_neg hcnd] at h; cases h
  have ho : amtOperator signed op a b = some (.val r) → r = exact op a b ∧ (tyOf signed).fits r :=
    fun h => hc (((C18_operator_panics_iff signed op a b).2 r).1 h)
  exact ⟨hc, ho, fun h => ho (by rw [← C18_assign_agrees]; exact h)⟩

/-- **what `exact .div` / `exact .rem` are**, without reference to `Int.tdiv` / `Int.tmod` (which the model of
`checked_div` / `checked_rem`, the oracle and `exact` would otherwise share as an unexamined convention): for a non-zero
divisor, quotient and remainder satisfy `a = q·b + r`, `|r| < |b|`, and `r` has the sign of the dividend (rounding
toward zero — the semantics of Rust's `/` and `%` on integers) -/
theorem C18_exact_div_rem (a b : Int) (hb : b ≠ 0) :
    a = exact .div a b * b + exact .rem a b ∧ (exact .rem a b).natAbs < b.natAbs ∧
    (0 ≤ a → 0 ≤ exact .rem a b) ∧ (a ≤ 0 → exact .rem a b ≤ 0) := by
  simp only [exact]
  refine ⟨?_, ?_, ?_, ?_⟩
  · have := Int.mul_tdiv_add_tmod a b
    rw [Int.mul_comm] at this; exact this.symm
  · rw [Int.natAbs_tmod]; exact Nat.mod_lt _ (by omega)
  · intro h; exact Int.tmod_nonneg b h
  · intro h
    have h1 : 0 ≤ (-a).tmod b := Int.tmod_nonneg b (by omega)
    rw [Int.neg_tmod] at h1; omega

/-- … and these four conditions determine quotient and remainder uniquely, so the previous theorem is a definition of
truncating division, not merely a consequence of it -/
theorem C18_exact_div_rem_unique (a b q r : Int) (hb : b ≠ 0) (h1 : a = q * b + r) (h2 : r.natAbs < b.natAbs)
    (h3 : 0 ≤ a → 0 ≤ r) (h4 : a ≤ 0 → r ≤ 0) : q = exact .div a b ∧ r = exact .rem a b := by
  obtain ⟨e1, e2, e3, e4⟩ := C18_exact_div_rem a b hb
  generalize exact .div a b = q' at *
  generalize exact .rem a b = r' at *
  -- (q - q') * b = r' - r with |r' - r| < |b| (same sign) forces q = q'
  have hd : (q - q') * b = r' - r := by
    have : q * b + r = q' * b + r' := by rw [← h1, ← e1]
    rw [Int.sub_mul]; omega
  have hlt : (r' - r).natAbs < b.natAbs := by
    rcases Int.le_total 0 a with ha | ha
    · have := h3 ha; have := e3 ha; omega
    · have := h4 ha; have := e4 ha; omega
  have hq : q - q' = 0 := by
    apply Classical.byContradiction; intro hne
    have h5 : ((q - q') * b).natAbs = (q - q').natAbs * b.natAbs := Int.natAbs_mul _ _
    rw [hd] at h5
    have h6 : 1 ≤ (q - q').natAbs := by omega
    have h7 : b.natAbs ≤ (q - q').natAbs * b.natAbs := Nat.le_mul_of_pos_left _ h6
    omega
  have hq' : q = q' := by omega
  subst hq'
  refine ⟨rfl, ?_⟩
  have : (q - q) * b = 0 := by simp
  omega

theorem i64_natAbs_fits (a : Int) (ha : TyI64.fits a) : TyI64.fits (a.natAbs : Int) ↔ a ≠ TyI64.lo := by
  unfold IntTy.fits TyI64 at *; simp only at *; omega

/-- `checked_abs` is exact or refuses: `|a|` iff it is representable, i.e. at every i64 except `MIN`, where it is `None` -/
theorem C18_checked_abs (a : Int) (ha : TyI64.fits a) (r : Int) :
    (checkedAbs a = some r ↔ (r = (a.natAbs : Int) ∧ TyI64.fits (a.natAbs : Int))) ∧ (checkedAbs a = none ↔ a = TyI64.lo) := by
  have hf := i64_natAbs_fits a ha
  simp only [checkedAbs, IntTy.chk]
  by_cases h : TyI64.fits (a.natAbs : Int)
  · rw [if_pos h]
    refine ⟨⟨fun e => ⟨(Option.some.inj e).symm, h⟩, fun e => (by rw [e.1])⟩, ⟨fun e => (by cases e), fun e => absurd e (hf.1 h)⟩⟩
  · rw [if_neg h]
    refine ⟨⟨fun e => (by cases e), fun e => absurd e.2 h⟩, ⟨fun _ => ?_, fun _ => rfl⟩⟩
    apply Classical.byContradiction; intro hne; exact h (hf.2 hne)

/-- **`abs` in a build WITH overflow checks** (the harness profile; Cargo's `dev` / `test` profiles): `|a|`, and at `MIN` — only
there — the compiler-inserted overflow check panics (`attempt to negate with overflow`; observed by the harness op `amt_abs`, which
prints that panic differently from a panic of the library). `abs` is a plain `i64::abs`, not `expect` on `checked_abs`. -/
theorem C18_abs_checked_profile (a : Int) (ha : TyI64.fits a) :
    (absPlain true a = .overflowPanic ↔ a = TyI64.lo) ∧ (a ≠ TyI64.lo → absPlain true a = .val (a.natAbs : Int)) := by
  have hf := i64_natAbs_fits a ha
  unfold absPlain
  by_cases h : TyI64.fits (a.natAbs : Int)
  · rw [if_pos h]
    exact ⟨⟨fun e => (by cases e), fun e => absurd e (hf.1 h)⟩, fun _ => rfl⟩
  · rw [if_neg h]
    rw [if_pos rfl]
    refine ⟨⟨fun _ => ?_, fun _ => rfl⟩, fun hne => absurd (hf.2 hne) h⟩
    apply Classical.byContradiction; intro hne; exact h (hf.2 hne)

/-- **`abs` in a build WITHOUT overflow checks** (Cargo's default `release` profile): `|a|` everywhere except at `MIN`, where it
RETURNS `MIN` — a wrapped, negative value. This is the one function of the impl that can wrap; `abs` is not among the operations of
the property statement, so the title "never wraps" is a statement about the listed operations (`C18_never_wraps`) and does NOT extend
to `abs`. Recorded as an observation (DESIGN 14.10), not as a finding. The model `absPlain false` is validated against std's
`i64::wrapping_abs` (= `abs` without overflow checks, per std's documentation of `abs`) by the harness op `amt_abs_nochk`; no build
of the library without overflow checks is observed by the harness. -/
theorem C18_abs_unchecked_profile (a : Int) (ha : TyI64.fits a) :
    absPlain false a = .val (if a = TyI64.lo then TyI64.lo else (a.natAbs : Int)) ∧
    (absPlain false TyI64.lo = .val TyI64.lo ∧ TyI64.lo < 0) := by
  have hf := i64_natAbs_fits a ha
  refine ⟨?_, by decide, by decide⟩
  unfold absPlain
  by_cases h : TyI64.fits (a.natAbs : Int)
  · rw [if_pos h, if_neg (hf.1 h)]
  · have hlo : a = TyI64.lo := by apply Classical.byContradiction; intro hne; exact h (hf.2 hne)
    subst hlo; decide

/-- `abs` and `checked_abs` side by side: wherever `checked_abs` returns a value, `abs` returns the same value in every profile;
where it returns `None` (exactly at `MIN`, `C18_checked_abs`) `abs` panics with overflow checks and returns its argument without -/
theorem C18_abs_vs_checked_abs (a : Int) (ha : TyI64.fits a) :
    (∀ r, checkedAbs a = some r → ∀ p, absPlain p a = .val r) ∧
    (checkedAbs a = none → absPlain true a = .overflowPanic ∧ absPlain false a = .val a) := by
  constructor
  · intro r hr p
    simp only [checkedAbs, IntTy.chk] at hr
    by_cases h : TyI64.fits (a.natAbs : Int)
    · rw [if_pos h] at hr; cases hr; simp only [absPlain, if_pos h]
    · rw [if_neg h] at hr; cases hr
  · intro hn
    have hlo := ((C18_checked_abs a ha 0).2).1 hn
    subst hlo; decide

/-- `signum` is the sign of the integer -/
theorem C18_signum (a : Int) : signum a = Int.sign a := by
  unfold signum
  rcases Int.lt_trichotomy a 0 with h | h | h
  · rw [if_neg (by omega), if_pos h, Int.sign_eq_neg_one_of_neg h]
  · subst h; rfl
  · rw [if_pos h, Int.sign_eq_one_of_pos h]

/-- **the driver's spec column is the `exact` of these theorems.** `Drv.specArith` (Drv/C18.lean, written separately for the compiled
driver) equals "`exact op a b` iff representable and the divisor is non-zero" — so "the grid agrees with the spec" and "the theorems
are about the spec" refer to one object -/
theorem C18_spec_column_is_exact (signed : Bool) (op : Arith) (a b : Int) :
    Drv.specArith signed op a b =
      if (tyOf signed).fits (exact op a b) ∧ (needsDivisor op = true → b ≠ 0) then some (exact op a b) else none := by
  have ht : (if signed = true then TyI64 else TyU64) = tyOf signed := rfl
  cases op <;> simp only [Drv.specArith, ht, exact, needsDivisor, IntTy.chk, Bool.false_eq_true, false_imp_iff, and_true, forall_const]
  · by_cases h0 : b = 0
    · simp [h0]
    · simp [h0]
  · by_cases h0 : b = 0
    · simp [h0]
    · simp [h0]

/-- the two ranges every statement above is relative to are those of `u64` and `i64`, as literals (a wrong bound in `Model/StdInt.lean`
would otherwise keep every theorem true and model = spec) -/
theorem C18_ranges_are_u64_i64 :
    TyU64.lo = 0 ∧ TyU64.hi = 18446744073709551615 ∧ TyI64.lo = -9223372036854775808 ∧ TyI64.hi = 9223372036854775807 := by decide

example : ¬ remMinNeg1 false .rem 5 3 := by simp [remMinNeg1]
example : amtOperator true .mul (2^62) 2 = some .panic := by decide
example : amtOperator false .sub 3 5 = some .panic := by decide
example : amtAssign true .div (-7) 2 = some (.val (-3)) := by decide

/- a swapped std method is representable and refutes the statement (test of the formulation, not a theorem about /repo) -/
example : ¬ (∀ a b r, TyU64.fits a → TyU64.fits b →
    (StdOp.wrapping_add.eval TyU64 a b = some r ↔ r = a + b ∧ TyU64.fits r)) := by
  intro h
  have := (h (2^64 - 1) 1 0 (by decide) (by decide)).1 (by decide)
  exact absurd this.1 (by decide)
example : amtChecked false .add (2^64 - 1) 1 = some none := by decide
example : amtChecked true .div (-(2^63)) (-1) = some none := by decide
example : absPlain true (-(2^63)) = .overflowPanic ∧ absPlain false (-(2^63)) = .val (-(2^63)) ∧ absPlain false (-5) = .val 5 := by decide
example : Drv.specArith true .rem (-7) 2 = some (-1) ∧ Drv.specArith false .sub 3 5 = none := by decide
end C18
