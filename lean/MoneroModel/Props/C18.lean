import MoneroModel.Model.AmountArith
open Monero
/-! # C18 — amount arithmetic is exact or refuses; it never wraps

Statements are over mathematical integers; operands range over the whole of u64 / i64 (`TyU64.fits`, `TyI64.fits`).
The model's delegation structure is regenerated from src/util/amount.rs on every run, so these theorems are
re-checked against what the code says now: binding `checked_add` to `wrapping_add`, or `+` to `checked_sub`, makes
them fail. -/
namespace C18

/-- the exact result of an arithmetic operation on integers (truncating division, as for machine integers) -/
def exact : Arith → Int → Int → Int
  | .add, a, b => a + b | .sub, a, b => a - b | .mul, a, b => a * b
  | .div, a, b => Int.tdiv a b | .rem, a, b => Int.tmod a b
def needsDivisor : Arith → Bool | .div => true | .rem => true | _ => false

theorem u64_tdiv_fits (a b : Int) (ha : TyU64.fits a) (hb : TyU64.fits b) : TyU64.fits (Int.tdiv a b) := by
  unfold IntTy.fits TyU64 at *
  simp only at *
  obtain ⟨ha0, ha1⟩ := ha
  obtain ⟨hb0, _⟩ := hb
  rw [Int.tdiv_eq_ediv_of_nonneg ha0]
  refine ⟨Int.ediv_nonneg ha0 hb0, ?_⟩
  exact Int.le_trans (Int.ediv_le_self b ha0) ha1

theorem u64_tmod_fits (a b : Int) (ha : TyU64.fits a) (hb : TyU64.fits b) (hb0 : b ≠ 0) : TyU64.fits (Int.tmod a b) := by
  unfold IntTy.fits TyU64 at *
  simp only at *
  obtain ⟨ha0, ha1⟩ := ha
  obtain ⟨hb00, hb1⟩ := hb
  rw [Int.tmod_eq_emod_of_nonneg ha0]
  have hbpos : 0 < b := by omega
  refine ⟨Int.emod_nonneg a hb0, ?_⟩
  have := Int.emod_lt_of_pos a hbpos
  omega

theorem i64_tmod_fits (a b : Int) (hb : TyI64.fits b) (hb0 : b ≠ 0) : TyI64.fits (Int.tmod a b) := by
  have h := Int.natAbs_tmod a b
  have h2 : a.natAbs % b.natAbs < b.natAbs := Nat.mod_lt _ (by omega)
  unfold IntTy.fits TyI64 at *
  simp only at *
  omega

theorem i64_tdiv_fits (a b : Int) (ha : TyI64.fits a) (hb0 : b ≠ 0) (hne : ¬ (a = TyI64.lo ∧ b = -1)) :
    TyI64.fits (Int.tdiv a b) := by
  unfold IntTy.fits TyI64 at *
  simp only at *
  by_cases hb1 : b = 1
  · subst hb1; simpa using ha
  · by_cases hbm : b = -1
    · subst hbm
      have : a.tdiv (-1) = -a := by rw [Int.tdiv_neg, Int.tdiv_one]
      rw [this]; omega
    · have h2 : (a.tdiv b).natAbs = a.natAbs / b.natAbs := Int.natAbs_tdiv a b
      have h3 : a.natAbs / b.natAbs ≤ a.natAbs / 2 := Nat.div_le_div_left (by omega) (by decide)
      omega

/-- unsigned: every checked operation returns the exact result iff it is representable and the divisor is non-zero,
and nothing otherwise -/
theorem C18_checked_unsigned_iff (op : Arith) (a b : Int) (ha : TyU64.fits a) (hb : TyU64.fits b) (r : Int) :
    amtChecked false op a b = some (some r) ↔
      (r = exact op a b ∧ TyU64.fits r ∧ (needsDivisor op = true → b ≠ 0)) := by
  cases op <;> simp only [amtChecked, genChecked, tyOf, Gen.u_checked_add, Gen.u_checked_sub, Gen.u_checked_mul,
    Gen.u_checked_div, Gen.u_checked_rem, Option.map_some, StdOp.eval, IntTy.chk, exact, needsDivisor, Bool.false_eq_true,
    if_false, Option.some.injEq]
  · constructor
    · intro h; split at h <;> simp at h; subst h; simp_all
    · rintro ⟨rfl, h, _⟩; simp [h]
  · constructor
    · intro h; split at h <;> simp at h; subst h; simp_all
    · rintro ⟨rfl, h, _⟩; simp [h]
  · constructor
    · intro h; split at h <;> simp at h; subst h; simp_all
    · rintro ⟨rfl, h, _⟩; simp [h]
  · by_cases h0 : b = 0
    · simp [h0]
    · have := u64_tdiv_fits a b ha hb
      simp only [h0, if_false, this, if_true, Option.some.injEq]
      constructor
      · intro h; subst h; simp_all
      · rintro ⟨rfl, _, _⟩; rfl
  · by_cases h0 : b = 0
    · simp [h0]
    · have := u64_tdiv_fits a b ha hb
      have hm := u64_tmod_fits a b ha hb h0
      simp only [h0, if_false, this, if_true, Option.some.injEq]
      constructor
      · intro h; subst h; simp_all
      · rintro ⟨rfl, _, _⟩; rfl

theorem C18_checked_unsigned_total (op : Arith) (a b : Int) : ∃ r, amtChecked false op a b = some r := by
  cases op <;> simp [amtChecked, genChecked, Gen.u_checked_add, Gen.u_checked_sub, Gen.u_checked_mul, Gen.u_checked_div, Gen.u_checked_rem]

/-- signed: same statement for add, sub, mul, div; for rem at every operand pair except (MIN, −1) -/
theorem C18_checked_signed_iff (op : Arith) (a b : Int) (ha : TyI64.fits a) (hb : TyI64.fits b) (r : Int)
    (hx : ¬ (op = .rem ∧ a = TyI64.lo ∧ b = -1)) :
    amtChecked true op a b = some (some r) ↔
      (r = exact op a b ∧ TyI64.fits r ∧ (needsDivisor op = true → b ≠ 0)) := by
  cases op <;> simp only [amtChecked, genChecked, tyOf, Gen.s_checked_add, Gen.s_checked_sub, Gen.s_checked_mul,
    Gen.s_checked_div, Gen.s_checked_rem, Option.map_some, StdOp.eval, IntTy.chk, exact, needsDivisor, if_true,
    Bool.false_eq_true, Option.some.injEq]
  · constructor
    · intro h; split at h <;> simp at h; subst h; simp_all
    · rintro ⟨rfl, h, _⟩; simp [h]
  · constructor
    · intro h; split at h <;> simp at h; subst h; simp_all
    · rintro ⟨rfl, h, _⟩; simp [h]
  · constructor
    · intro h; split at h <;> simp at h; subst h; simp_all
    · rintro ⟨rfl, h, _⟩; simp [h]
  · by_cases h0 : b = 0
    · simp [h0]
    · simp only [h0, if_false]
      constructor
      · intro h; split at h <;> simp at h; subst h; simp_all
      · rintro ⟨rfl, h, _⟩; simp [h]
  · by_cases h0 : b = 0
    · simp [h0]
    · simp only [h0, if_false]
      have hq : TyI64.fits (Int.tdiv a b) := i64_tdiv_fits a b ha h0 (fun h => hx ⟨rfl, h⟩)
      have hm := i64_tmod_fits a b hb h0
      simp only [hq, if_true, Option.some.injEq]
      constructor
      · intro h; subst h; simp_all
      · rintro ⟨rfl, _, _⟩; rfl

/-- the one operand pair where signed remainder is *not* "exact iff representable": the exact remainder 0 is
representable and the divisor is non-zero, yet `checked_rem` (inherited from `i64::checked_rem`) returns nothing.
Recorded as a known finding (DESIGN.md §7 item 5). -/
theorem C18_rem_min_neg1 :
    amtChecked true .rem TyI64.lo (-1) = some none ∧ exact .rem TyI64.lo (-1) = 0 ∧ TyI64.fits 0 := by decide

/-- the operator forms panic exactly when the checked forms return nothing, and otherwise return the same value -/
theorem C18_operator_panics_iff (signed : Bool) (op : Arith) (a b : Int) :
    (amtOperator signed op a b = some .panic ↔ amtChecked signed op a b = some none) ∧
    (∀ r, amtOperator signed op a b = some (.val r) ↔ amtChecked signed op a b = some (some r)) := by
  cases signed <;> cases op <;>
    simp only [amtOperator, genOperator, Gen.u_op_add, Gen.u_op_sub, Gen.u_op_mul, Gen.u_op_div, Gen.u_op_rem,
      Gen.s_op_add, Gen.s_op_sub, Gen.s_op_mul, Gen.s_op_div, Gen.s_op_rem, if_true, Bool.false_eq_true, if_false] <;>
    (constructor
     · cases h : amtChecked _ _ a b with
       | none => simp
       | some r => cases r <;> simp
     · intro r
       cases h : amtChecked _ _ a b with
       | none => simp
       | some r' => cases r' <;> simp)

/-- the assigning variants agree with the operator forms -/
theorem C18_assign_agrees (signed : Bool) (op : Arith) (a b : Int) :
    amtAssign signed op a b = amtOperator signed op a b := by
  cases signed <;> cases op <;> rfl

/-- unsigned → signed conversion is exact or an error: ok iff `a ≤ 2^63 − 1` -/
theorem C18_to_signed (a : Int) (r : Int) : toSigned a = some r ↔ (a ≤ 2^63 - 1 ∧ r = a) := by
  unfold toSigned TyI64; simp only
  constructor
  · intro h; split at h <;> simp at h; omega
  · rintro ⟨h, rfl⟩; simp; omega

/-- signed → unsigned conversion: ok iff `a ≥ 0` -/
theorem C18_to_unsigned (a : Int) (r : Int) : toUnsigned a = some r ↔ (0 ≤ a ∧ r = a) := by
  unfold toUnsigned
  constructor
  · intro h; split at h <;> simp at h; omega
  · rintro ⟨h, rfl⟩; simp; omega

/-- non-negative subtraction: `a − b` iff `0 ≤ b ≤ a` (which implies `0 ≤ a`), nothing otherwise -/
theorem C18_positive_sub (a b : Int) (ha : TyI64.fits a) (hb : TyI64.fits b) (r : Int) :
    positiveSub a b = some (some r) ↔ (0 ≤ b ∧ b ≤ a ∧ r = a - b) := by
  unfold positiveSub
  by_cases hc : a < 0 ∨ b < 0 ∨ b > a
  · simp only [hc, if_true]; constructor
    · intro h; simp at h
    · rintro ⟨h1, h2, _⟩; omega
  · simp only [hc, if_false]
    rw [C18_checked_signed_iff .sub a b ha hb r (by simp)]
    simp only [exact, needsDivisor]
    unfold IntTy.fits TyI64 at *
    simp only at *
    constructor
    · rintro ⟨rfl, _, _⟩; omega
    · rintro ⟨h1, h2, rfl⟩; refine ⟨rfl, by omega, by simp⟩

theorem C18_positive_sub_total (a b : Int) : ∃ r, positiveSub a b = some r := by
  unfold positiveSub; split
  · exact ⟨none, rfl⟩
  · simp [amtChecked, genChecked, Gen.s_checked_sub]

/-- the hand-modelled bodies still have the shape the model mirrors (checked by the translator on every run) -/
theorem C18_reviewed_shapes : Gen.shape_Amount_to_signed = true ∧ Gen.shape_SignedAmount_to_unsigned = true ∧
    Gen.shape_SignedAmount_positive_sub = true ∧ Gen.shape_SignedAmount_is_negative = true ∧
    Gen.shape_SignedAmount_max_value = true := by decide

/- a swapped std method is representable and refutes the statement (test of the formulation, not a theorem about /repo) -/
example : ¬ (∀ a b r, TyU64.fits a → TyU64.fits b →
    (StdOp.wrapping_add.eval TyU64 a b = some r ↔ r = a + b ∧ TyU64.fits r)) := by
  intro h
  have := (h (2^64 - 1) 1 0 (by decide) (by decide)).1 (by decide)
  exact absurd this.1 (by decide)
example : amtChecked false .add (2^64 - 1) 1 = some none := by decide
example : amtChecked true .div (-(2^63)) (-1) = some none := by decide
end C18
