import MoneroModel.Proofs.ExtraComplete
import MoneroModel.Proofs.ExtraLen
import MoneroModel.Proofs.ExtraSpec
import MoneroModel.Proofs.ExtraParseSpec
import MoneroModel.Proofs.TxComplete2
open Monero Monero.Extra
/-! # C16 — transaction extra: well-formed sub-field sequences round-trip; parsing is total

Model: `MoneroModel/Model/Extra.lean` (`subFieldRd`, `encSub`, `loop`/`tryParse`, `rawTryParse`, `encExtra`, `toRaw`,
`txPubkey`, `txAdditionalPubkeys`), every reader tracking the cursor also on failure. Public-key validity is the
parameter `vk` (the driver instantiates it with the reference Ed25519 decode/re-encode test); every theorem holds for
every `vk`. Well-formedness (`WFField`, `WFSeq`, `ShortPad`) is defined in `Proofs/ExtraComplete.lean`:
padding ≤ 255 (`u8`) and fewer than 255 only in last position, keys 32 bytes and valid, depth < 2^64 with a 32-byte
root, nonce / blob / key-vector within the allocation cap (`len * size_of ≤ 32 MiB`) and shorter than 2^64. -/
namespace C16

/-- **Round trip.** For every well-formed sequence whose encoding fits the allocation cap (otherwise the `unwrap` in
`From<ExtraField> for RawExtraField` panics), the raw conversion succeeds and yields the plain concatenation of the
sub-field encodings, and `ExtraField::try_parse` of it is `Ok` with exactly the same sequence (no failure, so `pre` is
the whole list); `RawExtraField::try_parse` returns it too. -/
theorem C16_roundtrip (vk : Bytes → Bool) (fs : List SubField) (hw : WFSeq vk fs) (hc : (encFields fs).length ≤ CAP) :
    ∃ raw, toRaw fs = some raw ∧ raw = (fs.map encSub).flatten ∧
      tryParse vk raw = ⟨false, fs, fs⟩ ∧ rawTryParse vk raw = fs := by
  rw [encFields_eq] at hc
  refine ⟨flat fs, toRaw_eq fs hc, rfl, tryParse_flat vk fs hw, ?_⟩
  unfold rawTryParse; rw [tryParse_flat vk fs hw]

/-- `serialize(&ExtraField)` is the length-prefixed concatenation of the sub-field encodings -/
theorem C16_encode_layout (fs : List SubField) :
    encExtra fs = encVarint ((fs.map encSub).flatten).length ++ (fs.map encSub).flatten := by
  unfold encExtra; simp only [encFields_eq]; rfl

/-- **Strict single sub-field.** `deserialize::<SubField>` of the encoding of a well-formed sub-field alone returns
it, consuming everything (this includes `Padding(n)` for every `n ≤ 255`: alone, the padding reaches the end of the
input). In front of further bytes `r` the same holds, leaving exactly `r`, except for a padding of fewer than 255
bytes (greedy rule, see `C16_padding_greedy`). -/
theorem C16_single_strict (vk : Bytes → Bool) (sf : SubField) (hw : WFField vk sf) :
    subFieldStrict vk (encSub sf) = some sf ∧
    (∀ r, ¬ ShortPad sf → subFieldRd vk (encSub sf ++ r) = (some sf, r)) := by
  constructor
  · have := subField_complete vk sf [] hw (fun _ => rfl)
    rw [List.append_nil] at this
    unfold subFieldStrict; rw [this]
  · intro r h; exact subField_complete vk sf r hw (fun h' => absurd h' h)

/-- **Greedy padding.** After the tag and `n ≤ 255` zero bytes the decoder keeps reading: what follows is read by the
same loop with `255 - n` iterations left. Hence `m` further zero bytes are swallowed into the same field
(`n + m ≤ 255`), and a following non-zero byte makes the sub-field fail (the byte is consumed). -/
theorem C16_padding_greedy (vk : Bytes → Bool) (n : Nat) (hn : n ≤ 255) :
    (∀ r, subFieldRd vk (encSub (.padding n) ++ r) = padLoop (255 - n) n r) ∧
    (∀ m, n + m ≤ 255 → subFieldRd vk (encSub (.padding n) ++ List.replicate m 0) = (some (.padding (n + m)), [])) ∧
    (∀ x r, n < 255 → x ≠ 0 → subFieldRd vk (encSub (.padding n) ++ x :: r) = (none, r)) := by
  have h1 : ∀ r, subFieldRd vk (encSub (.padding n) ++ r) = padLoop (255 - n) n r := by
    intro r
    simp only [encSub, List.cons_append]
    rw [subFieldRd_cons]
    show padLoop 255 0 _ = _
    have := padLoop_zeros n (255 - n) 0 r
    rw [Nat.zero_add, Nat.sub_add_cancel hn] at this
    exact this
  refine ⟨h1, fun m hm => ?_, fun x r hlt hx => ?_⟩
  · rw [h1]; exact padLoop_end m (255 - n) n (by omega)
  · rw [h1]
    obtain ⟨k, hk⟩ : ∃ k, 255 - n = k + 1 := ⟨254 - n, by omega⟩
    rw [hk, padLoop_cons, if_pos hx]

/-- **First keys.** `tx_pubkey` returns the key of the first `TxPublicKey` sub-field (and `None` iff there is none);
`tx_additional_pubkeys` returns the list of the first `AdditionalPublickKey` sub-field (and `None` iff there is
none). -/
theorem C16_first_keys (fs : List SubField) :
    (∀ k, txPubkey fs = some k ↔ ∃ pre post, fs = pre ++ .txPub k :: post ∧ ∀ f ∈ pre, isTxPub f = false) ∧
    (txPubkey fs = none ↔ ∀ f ∈ fs, isTxPub f = false) ∧
    (∀ ks, txAdditionalPubkeys fs = some ks ↔
      ∃ pre post, fs = pre ++ .addKeys ks :: post ∧ ∀ f ∈ pre, isAddKeys f = false) ∧
    (txAdditionalPubkeys fs = none ↔ ∀ f ∈ fs, isAddKeys f = false) :=
  ⟨txPubkey_some_iff fs, txPubkey_none_iff fs, txAdd_some_iff fs, txAdd_none_iff fs⟩

/-- the accessors applied to the parse of the raw form of a well-formed sequence are those of the sequence itself -/
theorem C16_first_keys_roundtrip (vk : Bytes → Bool) (fs : List SubField) (hw : WFSeq vk fs)
    (hc : (encFields fs).length ≤ CAP) :
    ∃ raw, toRaw fs = some raw ∧ txPubkey (tryParse vk raw).fields = txPubkey fs ∧
      txAdditionalPubkeys (tryParse vk raw).fields = txAdditionalPubkeys fs := by
  obtain ⟨raw, h1, _, h3, _⟩ := C16_roundtrip vk fs hw hc
  exact ⟨raw, h1, by rw [h3], by rw [h3]⟩

/-- every sub-field the decoder accepts — on ANY bytes — re-encodes to exactly as many bytes as it consumed (varints are
minimal, padding counts its zero bytes, the merge-mining size byte is one byte whatever its value), hence the sub-fields
returned for arbitrary extra bytes never re-serialise to more than the input -/
theorem C16_decoded_subfield_length (vk : Bytes → Bool) (b : Bytes) (sf : SubField) (r : Bytes)
    (h : subFieldRd vk b = (some sf, r)) : (encSub sf).length + r.length = b.length := subFieldRd_len vk b sf r h
theorem C16_parsed_not_longer (vk : Bytes → Bool) (e : Bytes) : (encFields (tryParse vk e).fields).length ≤ e.length :=
  tryParse_len vk e

/-- **Totality.** Every sub-field read on a non-empty input consumes at least one byte, whether it succeeds or fails
(so the `while position < len` loop makes progress in every iteration), and therefore the loop run with any fuel
`≥ |e|` stops because the input is exhausted, never because the fuel is: it returns the same result for every such
fuel, namely `tryParse vk e`. -/
theorem C16_total (vk : Bytes → Bool) (e : Bytes) :
    (∀ x xs, (subFieldRd vk (x :: xs)).2.length < (x :: xs).length) ∧
    (∀ fuel, e.length ≤ fuel → loop vk fuel e [] false 0 = some (tryParse vk e)) := by
  refine ⟨fun x xs => ?_, fun fuel h => tryParse_eq_loop vk e fuel h⟩
  have := subFieldRd_consumes vk x xs
  simp only [List.length_cons]; omega

/-- **Ok iff no resynchronisation.** The result is `Ok` (flag `err = false`) exactly when the chain of sub-field
reads started at the beginning of the input reaches the end of the input without a single failed read (`Clean`);
in that case the list of fields decoded before the first failure is the whole list; in every case it is an initial
segment of the returned list. -/
theorem C16_ok_iff_no_resync (vk : Bytes → Bool) (e : Bytes) :
    ((tryParse vk e).err = false ↔ Clean vk e) ∧
    ((tryParse vk e).err = false → (tryParse vk e).pre = (tryParse vk e).fields) ∧
    (∃ k, (tryParse vk e).pre = (tryParse vk e).fields.take k) := by
  have h := tryParse_eq_loop vk e e.length (Nat.le_refl _)
  have h1 := loop_err_iff vk e.length e [] false 0 _ h
  have h2 := loop_pre vk e.length e [] false 0 _ h (Nat.le_refl _) (fun _ => rfl)
  exact ⟨by simpa using h1, h2.2, h2.1⟩

/-- **The enclosing transaction PREFIX never fails because of the extra's content.** Inside `TransactionPrefix` the
extra is decoded as a capped `Vec<u8>` (`vec sizes.u8 u8`, which is also what `rawDecode` is): for a well-formed prefix
`p` and *any* byte string `e` within the allocation cap put in its extra — whatever `tryParse` makes of `e` — decoding
the encoding returns the prefix with `e` unchanged. (This statement is about `prefix'` = `TransactionPrefix` and the
bare byte vector only; the whole `Transaction` is `C16_whole_tx`.) -/
theorem C16_never_fails_tx (p : Prefix) (e r : Bytes) (hp : wfPrefix p) (he : e.length ≤ CAP) :
    prefix' (encPrefix { p with extra := e } ++ r) = some ({ p with extra := e }, r) ∧
    vec sizes.u8 u8 (encVarint e.length ++ e ++ r) = some (e, r) := by
  obtain ⟨hv, hu, hi, ho, _⟩ := hp
  have hlt : e.length < 2^64 := Nat.lt_of_le_of_lt he CAP_lt
  have hcap : e.length * sizes.u8 ≤ CAP := by simpa [sizes, Gen.sizes] using he
  constructor
  · exact complete_prefix { p with extra := e } r ⟨hv, hu, hi, ho, ⟨fun _ _ => trivial, hcap, hlt⟩⟩
  · have := complete_vec sizes.u8 (fun _ => True) (fun b => [b]) u8 complete_u8 e r (fun _ _ => trivial) hcap hlt
    have hflat : encVec (fun b : UInt8 => [b]) e = encVarint e.length ++ e := by
      unfold encVec; rw [flatten_singletons]
    rw [hflat] at this
    exact this

/-! ## decoder soundness, exactness, idempotence (audit G11) -/

/-- **Sub-field decoder soundness (any bytes).** Whatever `SubField::consensus_decode` accepts is a well-formed
sub-field, the bytes it consumed are exactly its encoding up to the merge-mining size byte (read and ignored), and a
padding of fewer than 255 bytes is only produced when the input is exhausted. -/
theorem C16_decoder_sound (vk : Bytes → Bool) (b : Bytes) (sf : SubField) (r : Bytes)
    (h : subFieldRd vk b = (some sf, r)) :
    WFField vk sf ∧ (ShortPad sf → r = []) ∧ ∃ sz, b = encSubSz sz sf ++ r := subFieldRd_sound vk b sf r h

/-- **`tryParse` without accumulators.** Three equations that determine `tryParse` (and hence the flag, the field
list and `pre`) by recursion on the input: the empty input; a successful read puts the sub-field in front of the parse
of the rest; a failed read sets the flag, empties `pre` and continues from where the cursor was left. In particular the
`npre` bookkeeping of `loop` computes exactly "the fields read before the first failure". -/
theorem C16_parse_equations (vk : Bytes → Bool) :
    tryParse vk [] = ⟨false, [], []⟩ ∧
    (∀ b sf r, b ≠ [] → subFieldRd vk b = (some sf, r) →
      tryParse vk b = ⟨(tryParse vk r).err, sf :: (tryParse vk r).fields, sf :: (tryParse vk r).pre⟩) ∧
    (∀ b r, b ≠ [] → subFieldRd vk b = (none, r) → tryParse vk b = ⟨true, (tryParse vk r).fields, []⟩) :=
  ⟨tryParse_nil vk, fun _ _ _ hb h => tryParse_some vk hb h, fun _ _ hb h => tryParse_none vk hb h⟩

/-- **Every result is a well-formed sequence**, `Ok` or `Err`, on ANY bytes (a short padding can only be the last
field because the decoder only stops a padding early at the end of the input). -/
theorem C16_parsed_wf (vk : Bytes → Bool) (e : Bytes) : WFSeq vk (tryParse vk e).fields := tryParse_wf vk e

/-- **`Ok` is exact.** If `try_parse` returns `Ok` the input is byte for byte the concatenation of the encodings of
the returned sub-fields, up to the merge-mining size bytes (`EncUpToSize`); so the lengths agree, and without a
merge-mining field the input IS the re-serialisation. -/
theorem C16_ok_exact (vk : Bytes → Bool) (e : Bytes) (h : (tryParse vk e).err = false) :
    EncUpToSize (tryParse vk e).fields e ∧
    (encFields (tryParse vk e).fields).length = e.length ∧
    ((∀ f ∈ (tryParse vk e).fields, isMM f = false) → encFields (tryParse vk e).fields = e) := by
  have h1 := tryParse_ok_exact vk e h
  refine ⟨h1, ?_, fun hm => ?_⟩
  · rw [encFields_eq]; exact h1.length_eq.symm
  · rw [encFields_eq]; exact (h1.eq_flat hm).symm

/-- **Idempotence.** For any raw extra within the allocation cap, converting what `try_parse` returned (`Ok` or `Err`)
back to raw bytes succeeds, and parsing those bytes is `Ok` with exactly the same sub-fields. -/
theorem C16_reparse (vk : Bytes → Bool) (e : Bytes) (hc : e.length ≤ CAP) :
    ∃ raw, toRaw (tryParse vk e).fields = some raw ∧
      tryParse vk raw = ⟨false, (tryParse vk e).fields, (tryParse vk e).fields⟩ := by
  have hw := tryParse_wf vk e
  have hl := C16_parsed_not_longer vk e
  exact (C16_roundtrip vk _ hw (Nat.le_trans hl hc)).elim fun raw h => ⟨raw, h.1, h.2.2.1⟩

/-- **`pre`, accumulator-free.** `pre` is THE maximal chain of successful reads OF THE MODEL'S OWN sub-field decoder
`subFieldRd` from offset 0 (`PreChain`: it stops at the end of the input or at the first failed read, and there is
exactly one such chain), and its encoding (up to merge-mining size bytes) is an initial part of the input. This only
restates the `npre` bookkeeping of `loop` over the same decoder (cf. `C16_parse_equations`); the meaning of flag and
`pre` in terms of an INDEPENDENT reading of the format is `C16_pre_is_grammar` below. -/
theorem C16_pre_semantics (vk : Bytes → Bool) (e : Bytes) :
    PreChain vk e (tryParse vk e).pre ∧ (∀ l, PreChain vk e l → l = (tryParse vk e).pre) ∧
    (∃ p t, e = p ++ t ∧ EncUpToSize (tryParse vk e).pre p) :=
  ⟨tryParse_preChain vk e, fun _ hl => hl.unique (tryParse_preChain vk e), tryParse_pre_prefix vk e⟩

/-- **Flag and `pre` are what the tx_extra grammar says.** `Spec.Extra.parse` (`Spec/ExtraParse.lean`) reads the extra
by the format alone — no cursor, no resynchronisation: a field either occupies a known number of bytes at the start of
what is left or it does not; it never imports the model. On every input within the allocation cap (every extra that can
sit in a decoded transaction, `C16_tx_fails_iff`) it returns exactly the model's `Ok`/`Err` flag and the model's `pre`:
`Ok` iff the whole input is a sequence of fields of the grammar, and `pre` = the fields that can be read before the
first place where no field can be read. (Below the cap a declared length above the cap can never be "entirely
present", so the library's cap test and the grammar's presence test fail together; above 32 MiB the two differ and
the theorem does not apply.) -/
theorem C16_pre_is_grammar (vk : Bytes → Bool) (e : Bytes) (hc : e.length ≤ CAP) :
    Spec.Extra.parse vk e = (!(tryParse vk e).err, (tryParse vk e).pre.map Drv.C16.toSpec) :=
  parse_eq_tryParse vk e hc

/-- one field: within the cap the grammar finds a field at the start of `b` exactly when the sub-field decoder
succeeds, the same field, occupying exactly the bytes the decoder consumed; when the decoder fails the grammar finds
no field (where the decoder leaves its cursor is not a notion of the grammar) -/
theorem C16_field_is_grammar (vk : Bytes → Bool) (b : Bytes) (hc : b.length ≤ CAP) :
    (∀ sf r, subFieldRd vk b = (some sf, r) →
      Spec.Extra.readField vk b = some (Drv.C16.toSpec sf, b.length - r.length) ∧ b.drop (b.length - r.length) = r) ∧
    (∀ r, subFieldRd vk b = (none, r) → Spec.Extra.readField vk b = none) := by
  have h := readField_eq vk b hc
  refine ⟨fun sf r hs => ⟨by rw [h, hs], ?_⟩, fun r hs => by rw [h, hs]⟩
  obtain ⟨_, _, sz, hb⟩ := subFieldRd_sound vk b sf r hs
  have hl : b.length - r.length = (encSubSz sz sf).length := by rw [hb]; simp
  rw [hl, hb]; simp

/-- **A valid prefix survives whatever follows.** Well-formed sub-fields `fs` (no padding shorter than 255) followed
by ANY bytes `t`: the parse returns `fs` first, unchanged, then the parse of `t`; the flag is that of `t`; `fs` is
part of `pre`. Hence the transaction key / additional keys found in `fs` are the ones the accessors return, whatever
junk follows. -/
theorem C16_prefix_survives (vk : Bytes → Bool) (fs : List SubField) (t : Bytes)
    (hw : ∀ f ∈ fs, WFField vk f ∧ ¬ ShortPad f) :
    tryParse vk ((fs.map encSub).flatten ++ t) =
      ⟨(tryParse vk t).err, fs ++ (tryParse vk t).fields, fs ++ (tryParse vk t).pre⟩ ∧
    (∀ k, txPubkey fs = some k → txPubkey (tryParse vk ((fs.map encSub).flatten ++ t)).fields = some k) ∧
    (∀ ks, txAdditionalPubkeys fs = some ks →
      txAdditionalPubkeys (tryParse vk ((fs.map encSub).flatten ++ t)).fields = some ks) := by
  have h := tryParse_flat_append vk t fs hw
  unfold flat at h
  refine ⟨h, fun k hk => ?_, fun ks hk => ?_⟩
  · rw [h]; exact txPubkey_append_some hk _
  · rw [h]; exact txAdd_append_some hk _

/-- **The short-padding restriction of `WFSeq` is necessary** (only that clause: necessity of key validity, of
`n ≤ 255`, of `depth < 2^64` and of the cap clauses of `WFField` is not stated here; for decoded values they follow
from `C16_decoder_sound`). A padding of fewer than 255 bytes followed by at least one more
sub-field never round-trips: the parse of the concatenated encodings is not `Ok` with the same sequence (the padding
swallows following zero bytes or fails on a non-zero one). -/
theorem C16_short_padding_not_roundtrip (vk : Bytes → Bool) (n : Nat) (hn : n < 255) (g : SubField) (rest : List SubField) :
    ¬ ((tryParse vk ((((SubField.padding n) :: g :: rest).map encSub).flatten)).err = false ∧
       (tryParse vk ((((SubField.padding n) :: g :: rest).map encSub).flatten)).fields = .padding n :: g :: rest) := by
  rintro ⟨he, hf⟩
  have hb : ((((SubField.padding n) :: g :: rest).map encSub).flatten) = encSub (.padding n) ++ flat (g :: rest) := by
    simp [flat]
  have hne : encSub (.padding n) ++ flat (g :: rest) ≠ [] := by simp [encSub]
  rw [hb] at he hf
  cases h : subFieldRd vk (encSub (.padding n) ++ flat (g :: rest)) with
  | mk o r =>
    cases o with
    | none => rw [tryParse_none vk hne h] at he; cases he
    | some sf =>
      rw [tryParse_some vk hne h] at hf
      have hsf : sf = .padding n := (List.cons.inj hf).1
      subst hsf
      obtain ⟨_, hs, sz, hbz⟩ := subFieldRd_sound vk _ _ r h
      have hr : r = [] := hs (by simp only [ShortPad]; omega)
      subst hr
      have : flat (g :: rest) = [] := by
        have e1 : encSubSz sz (.padding n) = encSub (.padding n) := rfl
        rw [e1] at hbz
        have := List.append_cancel_left hbz
        exact this
      rw [flat_cons] at this
      exact encSub_ne_nil g (List.append_eq_nil_iff.mp this).1

/-! ## the encoder is the by-the-book layout (independent `Spec.Extra`) -/

/-- **Layout = spec.** For every sub-field value a Rust program can hold (`MMOK`: `u64` depth, 32-byte root; implied
by `WFField`) the model's encoding is `Spec.Extra.layout` of it, and a sequence encodes to `Spec.Extra.serialise`.
The merge-mining size byte, computed in `u8` arithmetic as `32 + len(varint depth)`, does not wrap: it is the LEB128
of the real size `len(varint depth) + 32 ∈ 33..42`. -/
theorem C16_layout_is_spec :
    (∀ sf, MMOK sf → encSub sf = Spec.Extra.layout (Drv.C16.toSpec sf)) ∧
    (∀ fs : List SubField, (∀ f ∈ fs, MMOK f) →
      (fs.map encSub).flatten = Spec.Extra.serialise (fs.map Drv.C16.toSpec)) ∧
    (∀ d, d < 2^64 → (UInt8.ofNat (32 + (encVarint d).length)).toNat = (encVarint d).length + 32 ∧
      33 ≤ (encVarint d).length + 32 ∧ (encVarint d).length + 32 ≤ 42) :=
  ⟨encSub_eq_layout, flat_eq_serialise, mm_size_byte⟩

/-- **Round trip against the spec layout.** Parsing the by-the-book serialisation of a well-formed sequence returns
`Ok` with exactly that sequence, and (within the cap) the raw conversion produces exactly those bytes. -/
theorem C16_roundtrip_spec (vk : Bytes → Bool) (fs : List SubField) (hw : WFSeq vk fs) :
    tryParse vk (Spec.Extra.serialise (fs.map Drv.C16.toSpec)) = ⟨false, fs, fs⟩ ∧
    ((encFields fs).length ≤ CAP → toRaw fs = some (Spec.Extra.serialise (fs.map Drv.C16.toSpec))) := by
  have hs := flat_eq_serialise fs (fun f hf => MMOK_of_WF (WFSeq_all hw f hf))
  unfold flat at hs
  rw [← hs]
  refine ⟨tryParse_flat vk fs hw, fun hc => ?_⟩
  rw [encFields_eq] at hc
  exact toRaw_eq fs hc

/-! ## the allocation cap is the exact domain -/

/-- **Above the cap.** An `ExtraField` whose buffer exceeds the allocation cap has no raw form (the `unwrap` in
`From<ExtraField> for RawExtraField` panics); with `C16_roundtrip` the conversion of a well-formed sequence succeeds
exactly when the buffer is within the cap. -/
theorem C16_over_cap (fs : List SubField) (hl : (encFields fs).length < 2^64) :
    (CAP < (encFields fs).length → toRaw fs = none) ∧
    ((toRaw fs).isSome = true ↔ (encFields fs).length ≤ CAP) := by
  refine ⟨fun h => toRaw_over_cap fs h hl, ?_, fun h => ?_⟩
  · intro h
    by_cases hc : (encFields fs).length ≤ CAP
    · exact hc
    · rw [toRaw_over_cap fs (by omega) hl] at h; cases h
  · rw [encFields_eq] at h; rw [toRaw_eq fs h]; rfl

/-- **The one way an extra fails the enclosing transaction prefix: its size.** With everything else well formed, the
`TransactionPrefix` carrying extra bytes `e` decodes if and only if `e` is within the allocation cap — whatever `e`
contains (complements `C16_never_fails_tx`, which assumes the cap). Statement about `prefix'` and the bare byte
vector; the whole `Transaction` is `C16_whole_tx`. -/
theorem C16_tx_fails_iff (p : Prefix) (e r : Bytes) (hp : wfPrefix p) (hl : e.length < 2^64) :
    ((prefix' (encPrefix { p with extra := e } ++ r)).isSome = true ↔ e.length ≤ CAP) ∧
    ((vec sizes.u8 u8 (encVarint e.length ++ e ++ r)).isSome = true ↔ e.length ≤ CAP) :=
  ⟨prefix_isSome_iff p e r hp hl, vec_u8_isSome_iff e r hl⟩

/-- **The whole transaction.** For a well-formed `Transaction` `t` (any version, with or without RingCT data:
`wfTx`) whose extra is replaced by ANY bytes `e`: `Transaction::consensus_decode` of its encoding succeeds if and
only if `e` is within the allocation cap, and then returns the transaction with `e` unchanged — nothing after the
prefix depends on the extra. -/
theorem C16_whole_tx (t : Tx) (e r : Bytes) (ht : wfTx t) (hl : e.length < 2^64) :
    ((tx (encTx { t with pre := { t.pre with extra := e } } ++ r)).isSome = true ↔ e.length ≤ CAP) ∧
    (e.length ≤ CAP →
      tx (encTx { t with pre := { t.pre with extra := e } } ++ r) = some ({ t with pre := { t.pre with extra := e } }, r)) := by
  obtain ⟨hp, h1, h2⟩ := ht
  have hok : e.length ≤ CAP →
      tx (encTx { t with pre := { t.pre with extra := e } } ++ r) = some ({ t with pre := { t.pre with extra := e } }, r) := by
    intro he
    obtain ⟨hv, hu, hi, ho, _⟩ := hp
    have hcap : e.length * sizes.u8 ≤ CAP := by simpa [sizes, Gen.sizes] using he
    exact complete_tx _ r ⟨⟨hv, hu, hi, ho, ⟨fun _ _ => trivial, hcap, hl⟩⟩, h1, h2⟩
  refine ⟨⟨fun h => ?_, fun he => by rw [hok he]; rfl⟩, hok⟩
  apply (prefix_isSome_iff t.pre e _ hp hl).1
  unfold tx encTx at h
  rw [List.append_assoc] at h
  unfold Monero.bind at h
  cases hq : prefix' (encPrefix { t.pre with extra := e } ++ _) with
  | none => rw [hq] at h; cases h
  | some x => rfl

/-! ## the tag bytes are the regenerated ones -/

/-- **Tags = `Gen` tables.** The model (`subFieldRd`, `encSub`) writes the tag bytes as LITERALS (0x00 … 0x04, 0xde);
this theorem proves them equal to the regenerated tables: the tag byte the model's encoder writes for each variant is
the one in `Gen.subFieldEncode`; a successful read starts with a tag that `Gen.subFieldDecode` maps to the variant returned; a
first byte outside `Gen.subFieldDecode` fails the read having consumed just that byte. (The tables are regenerated
from the current source on every run, so a changed tag in the library makes this theorem FAIL TO BUILD — the model does
not follow the source; the alarm is the broken proof, beside relation B.) -/
theorem C16_tags_are_generated (vk : Bytes → Bool) :
    (∀ sf, (encSub sf).head? = (Gen.subFieldEncode.lookup (variantOf sf)).map UInt8.ofNat) ∧
    (∀ b sf r, subFieldRd vk b = (some sf, r) →
      ∃ t rest, b = t :: rest ∧ (t.toNat, variantOf sf) ∈ Gen.subFieldDecode) ∧
    (∀ t xs, (∀ v, (t.toNat, v) ∉ Gen.subFieldDecode) → subFieldRd vk (t :: xs) = (none, xs)) :=
  ⟨encSub_tag, subFieldRd_tag vk, subFieldRd_unknown_tag vk⟩

/-! ## the driver's Ed25519 key validity -/

/-- what the key-validity test the driver instantiates `vk` with means (every theorem above holds for every `vk`, so
instances add nothing; this is the content of the instance): a byte string passes iff it has 32 bytes and decodes, by
the reference Ed25519 arithmetic, to a curve point whose encoding is the same 32 bytes (canonical `y`, no "negative
zero"). That the library's `PublicKey::from_slice` accepts exactly these is checked at run time only (special-key
families of the harness). -/
theorem C16_edValid_iff (k : Bytes) :
    Drv.C16.edValid k = true ↔ k.length = 32 ∧ ∃ P, Ed.decodePt k = some P ∧ Ed.encodePt P = k := by
  unfold Drv.C16.edValid
  cases h : Ed.decodePt k with
  | none => simp
  | some P => simp

/-! ## the hypotheses are satisfiable; small evaluations of the model -/

example : WFSeq (fun _ => true)
    [.txPub (List.replicate 32 7), .padding 255, .nonce [1, 2, 3], .mergeMining 300 (List.replicate 32 9),
     .addKeys [List.replicate 32 1, List.replicate 32 2], .minerGate [], .padding 3] := by
  simp [WFSeq, WFField, ShortPad, sizes, Gen.sizes, CAP, Gen.CAP]

example : tryParse (fun _ => true) [0x02, 0x01, 0xaa, 0x00, 0x00] = ⟨false, [.nonce [0xaa], .padding 1], [.nonce [0xaa], .padding 1]⟩ := by
  decide
/-- a failed sub-field (unknown tag `5`), then resynchronisation on the next byte -/
example : tryParse (fun _ => true) [0x02, 0x00, 0x05, 0xde, 0x01, 0x07] =
    ⟨true, [.nonce [], .minerGate [7]], [.nonce []]⟩ := by decide
example : Clean (fun _ => true) [0x00, 0x00] := Clean.step (by simp) (by decide : subFieldRd _ _ = (some (.padding 1), [])) Clean.nil

/-- `edValid` accepts some key (the Ed25519 base point), so `WFSeq edValid` has inhabitants with keys -/
example : WFSeq Drv.C16.edValid [.txPub basePointBytes, .addKeys [basePointBytes], .padding 3] := by
  refine ⟨⟨rfl, edValid_basePoint⟩, by simp [ShortPad], ⟨?_, by decide, by decide⟩, by simp [ShortPad], (by decide : 3 ≤ 255)⟩
  intro k hk
  have : k = basePointBytes := by simpa using hk
  subst this; exact ⟨rfl, edValid_basePoint⟩
example : MMOK (.mergeMining 300 (List.replicate 32 9)) := by simp [MMOK]
example : PreChain (fun _ => true) [0x02, 0x00, 0x05, 0xde] [.nonce []] :=
  PreChain.step (by simp) (by decide : subFieldRd _ _ = (some (.nonce []), [0x05, 0xde]))
    (PreChain.fail (r := [0xde]) (by simp) (by decide))
/-- a short padding in the middle: the two paddings merge, `P n, P m ↦ P (n+m+1)` -/
example : tryParse (fun _ => true) (((([.padding 1, .padding 2] : List SubField)).map encSub).flatten) =
    ⟨false, [.padding 4], [.padding 4]⟩ := by decide


/-- `C16_ok_exact` really needs `isMM = false` for its third conjunct: a merge-mining field with a FOREIGN size byte
(`0xff`) parses `Ok`, and the re-encoding differs from the input in exactly that byte (`EncUpToSize`'s `∃ sz`) -/
example : tryParse (fun _ => true) (0x03 :: 0xff :: 0x00 :: List.replicate 32 9) =
      ⟨false, [.mergeMining 0 (List.replicate 32 9)], [.mergeMining 0 (List.replicate 32 9)]⟩ ∧
    encFields [.mergeMining 0 (List.replicate 32 9)] ≠ 0x03 :: 0xff :: 0x00 :: List.replicate 32 9 ∧
    encFields [.mergeMining 0 (List.replicate 32 9)] = 0x03 :: 0x21 :: 0x00 :: List.replicate 32 9 := by
  have he : encFields [.mergeMining 0 (List.replicate 32 9)] = 0x03 :: 0x21 :: 0x00 :: List.replicate 32 9 := by
    rw [encFields_eq]; simp [flat, encSub, encVarint]
  refine ⟨by decide, ?_, he⟩
  rw [he]; decide

/-- `C16_prefix_survives` with junk that fails: the flag is `Err`, the key is still found -/
example : (tryParse (fun _ => true) ((([.txPub (List.replicate 32 7)] : List SubField).map encSub).flatten ++ [0x05, 0x00])).err = true ∧
    txPubkey (tryParse (fun _ => true) ((([.txPub (List.replicate 32 7)] : List SubField).map encSub).flatten ++ [0x05, 0x00])).fields
      = some (List.replicate 32 7) := by decide

/-- the grammar reader on a failing input (through `C16_pre_is_grammar`): `Err`, and the one field before the unknown tag -/
example : Spec.Extra.parse (fun _ => true) [0x02, 0x00, 0x05, 0xde] = (false, [.nonce []]) := by
  have h : tryParse (fun _ => true) [0x02, 0x00, 0x05, 0xde] = ⟨true, [.nonce []], [.nonce []]⟩ := by decide
  rw [C16_pre_is_grammar _ _ (by decide), h]; rfl

/-- hypotheses of `C16_whole_tx`: a well-formed version-2 transaction without inputs -/
example : wfTx ⟨⟨2, 0, [], [], []⟩, [], none, none⟩ := by
  refine ⟨⟨?_, ?_, ⟨?_, ?_, ?_⟩, ⟨?_, ?_, ?_⟩, ⟨?_, ?_, ?_⟩⟩, ?_, ?_⟩
  all_goals first
    | (intro x hx; cases hx)
    | (show (2 : Nat) < 2^64; decide) | (show (0 : Nat) < 2^64; decide)
    | (show 0 * _ ≤ CAP; simp)
    | (intro h; cases h)
    | (intro _; exact ⟨rfl, fun _ => ⟨rfl, rfl⟩, fun h => absurd rfl h⟩)

end C16
