import MoneroModel.Proofs.ExtraComplete
import MoneroModel.Proofs.ExtraLen
open Monero Monero.Extra
/-! # C16 — transaction extra: well-formed sub-field sequences round-trip; parsing is total

Model: `MoneroModel/Model/Extra.lean` (`subFieldRd`, `encSub`, `loop`/`tryParse`, `rawTryParse`, `encExtra`, `toRaw`,
`txPubkey`, `txAdditionalPubkeys`), every reader tracking the cursor also on failure. Public-key validity is the
parameter `vk` (the driver instantiates it with the reference Ed25519 decode/re-encode test); every theorem holds for
every `vk`. Well-formedness (`WFField`, `WFSeq`, `ShortPad`) is defined in `Proofs/ExtraComplete.lean`:
padding ≤ 255 (`u8`) and fewer than 255 only in last position, keys 32 bytes and valid, depth < 2^64 with a 32-byte
root, nonce / blob / key-vector within the allocation cap (`len * size_of ≤ 32 MiB`) and shorter than 2^64. -/
namespace C16

/-- **Round trip.** For every well-formed sequence whose encoding fits the allocation cap (otherwise the `unwrap` in
`From<ExtraField> for RawExtraField` panics), the raw conversion succeeds and yields the plain concatenation of the
sub-field encodings, and `ExtraField::try_parse` of it is `Ok` with exactly the same sequence (no failure, so `pre` is
the whole list); `RawExtraField::try_parse` returns it too. -/
theorem C16_roundtrip (vk : Bytes → Bool) (fs : List SubField) (hw : WFSeq vk fs) (hc : (encFields fs).length ≤ CAP) :
    ∃ raw, toRaw fs = some raw ∧ raw = (fs.map encSub).flatten ∧
      tryParse vk raw = ⟨false, fs, fs⟩ ∧ rawTryParse vk raw = fs := by
  rw [encFields_eq] at hc
  refine ⟨flat fs, toRaw_eq fs hc, rfl, tryParse_flat vk fs hw, ?_⟩
  unfold rawTryParse; rw [tryParse_flat vk fs hw]

/-- `serialize(&ExtraField)` is the length-prefixed concatenation of the sub-field encodings -/
theorem C16_encode_layout (fs : List SubField) :
    encExtra fs = encVarint ((fs.map encSub).flatten).length ++ (fs.map encSub).flatten := by
  unfold encExtra; simp only [encFields_eq]; rfl

/-- **Strict single sub-field.** `deserialize::<SubField>` of the encoding of a well-formed sub-field alone returns
it, consuming everything (this includes `Padding(n)` for every `n ≤ 255`: alone, the padding reaches the end of the
input). In front of further bytes `r` the same holds, leaving exactly `r`, except for a padding of fewer than 255
bytes (greedy rule, see `C16_padding_greedy`). -/
theorem C16_single_strict (vk : Bytes → Bool) (sf : SubField) (hw : WFField vk sf) :
    subFieldStrict vk (encSub sf) = some sf ∧
    (∀ r, ¬ ShortPad sf → subFieldRd vk (encSub sf ++ r) = (some sf, r)) := by
  constructor
  · have := subField_complete vk sf [] hw (fun _ => rfl)
    rw [List.append_nil] at this
    unfold subFieldStrict; rw [this]
  · intro r h; exact subField_complete vk sf r hw (fun h' => absurd h' h)

/-- **Greedy padding.** After the tag and `n ≤ 255` zero bytes the decoder keeps reading: what follows is read by the
same loop with `255 - n` iterations left. Hence `m` further zero bytes are swallowed into the same field
(`n + m ≤ 255`), and a following non-zero byte makes the sub-field fail (the byte is consumed). -/
theorem C16_padding_greedy (vk : Bytes → Bool) (n : Nat) (hn : n ≤ 255) :
    (∀ r, subFieldRd vk (encSub (.padding n) ++ r) = padLoop (255 - n) n r) ∧
    (∀ m, n + m ≤ 255 → subFieldRd vk (encSub (.padding n) ++ List.replicate m 0) = (some (.padding (n + m)), [])) ∧
    (∀ x r, n < 255 → x ≠ 0 → subFieldRd vk (encSub (.padding n) ++ x :: r) = (none, r)) := by
  have h1 : ∀ r, subFieldRd vk (encSub (.padding n) ++ r) = padLoop (255 - n) n r := by
    intro r
    simp only [encSub, List.cons_append]
    rw [subFieldRd_cons]
    show padLoop 255 0 _ = _
    have := padLoop_zeros n (255 - n) 0 r
    rw [Nat.zero_add, Nat.sub_add_cancel hn] at this
    exact this
  refine ⟨h1, fun m hm => ?_, fun x r hlt hx => ?_⟩
  · rw [h1]; exact padLoop_end m (255 - n) n (by omega)
  · rw [h1]
    obtain ⟨k, hk⟩ : ∃ k, 255 - n = k + 1 := ⟨254 - n, by omega⟩
    rw [hk, padLoop_cons, if_pos hx]

/-- **First keys.** `tx_pubkey` returns the key of the first `TxPublicKey` sub-field (and `None` iff there is none);
`tx_additional_pubkeys` returns the list of the first `AdditionalPublickKey` sub-field (and `None` iff there is
none). -/
theorem C16_first_keys (fs : List SubField) :
    (∀ k, txPubkey fs = some k ↔ ∃ pre post, fs = pre ++ .txPub k :: post ∧ ∀ f ∈ pre, isTxPub f = false) ∧
    (txPubkey fs = none ↔ ∀ f ∈ fs, isTxPub f = false) ∧
    (∀ ks, txAdditionalPubkeys fs = some ks ↔
      ∃ pre post, fs = pre ++ .addKeys ks :: post ∧ ∀ f ∈ pre, isAddKeys f = false) ∧
    (txAdditionalPubkeys fs = none ↔ ∀ f ∈ fs, isAddKeys f = false) :=
  ⟨txPubkey_some_iff fs, txPubkey_none_iff fs, txAdd_some_iff fs, txAdd_none_iff fs⟩

/-- the accessors applied to the parse of the raw form of a well-formed sequence are those of the sequence itself -/
theorem C16_first_keys_roundtrip (vk : Bytes → Bool) (fs : List SubField) (hw : WFSeq vk fs)
    (hc : (encFields fs).length ≤ CAP) :
    ∃ raw, toRaw fs = some raw ∧ txPubkey (tryParse vk raw).fields = txPubkey fs ∧
      txAdditionalPubkeys (tryParse vk raw).fields = txAdditionalPubkeys fs := by
  obtain ⟨raw, h1, _, h3, _⟩ := C16_roundtrip vk fs hw hc
  exact ⟨raw, h1, by rw [h3], by rw [h3]⟩

/-- every sub-field the decoder accepts — on ANY bytes — re-encodes to exactly as many bytes as it consumed (varints are
minimal, padding counts its zero bytes, the merge-mining size byte is one byte whatever its value), hence the sub-fields
returned for arbitrary extra bytes never re-serialise to more than the input -/
theorem C16_decoded_subfield_length (vk : Bytes → Bool) (b : Bytes) (sf : SubField) (r : Bytes)
    (h : subFieldRd vk b = (some sf, r)) : (encSub sf).length + r.length = b.length := subFieldRd_len vk b sf r h
theorem C16_parsed_not_longer (vk : Bytes → Bool) (e : Bytes) : (encFields (tryParse vk e).fields).length ≤ e.length :=
  tryParse_len vk e

/-- **Totality.** Every sub-field read on a non-empty input consumes at least one byte, whether it succeeds or fails
(so the `while position < len` loop makes progress in every iteration), and therefore the loop run with any fuel
`≥ |e|` stops because the input is exhausted, never because the fuel is: it returns the same result for every such
fuel, namely `tryParse vk e`. -/
theorem C16_total (vk : Bytes → Bool) (e : Bytes) :
    (∀ x xs, (subFieldRd vk (x :: xs)).2.length < (x :: xs).length) ∧
    (∀ fuel, e.length ≤ fuel → loop vk fuel e [] false 0 = some (tryParse vk e)) := by
  refine ⟨fun x xs => ?_, fun fuel h => tryParse_eq_loop vk e fuel h⟩
  have := subFieldRd_consumes vk x xs
  simp only [List.length_cons]; omega

/-- **Ok iff no resynchronisation.** The result is `Ok` (flag `err = false`) exactly when the chain of sub-field
reads started at the beginning of the input reaches the end of the input without a single failed read (`Clean`);
in that case the list of fields decoded before the first failure is the whole list; in every case it is an initial
segment of the returned list. -/
theorem C16_ok_iff_no_resync (vk : Bytes → Bool) (e : Bytes) :
    ((tryParse vk e).err = false ↔ Clean vk e) ∧
    ((tryParse vk e).err = false → (tryParse vk e).pre = (tryParse vk e).fields) ∧
    (∃ k, (tryParse vk e).pre = (tryParse vk e).fields.take k) := by
  have h := tryParse_eq_loop vk e e.length (Nat.le_refl _)
  have h1 := loop_err_iff vk e.length e [] false 0 _ h
  have h2 := loop_pre vk e.length e [] false 0 _ h (Nat.le_refl _) (fun _ => rfl)
  exact ⟨by simpa using h1, h2.2, h2.1⟩

/-- **The enclosing transaction never fails because of the extra.** Inside `TransactionPrefix` the extra is decoded
as a capped `Vec<u8>` (`vec sizes.u8 u8`, which is also what `rawDecode` is): for a well-formed prefix `p` and *any*
byte string `e` within the allocation cap put in its extra — whatever `tryParse` makes of `e` — decoding the encoding
returns the prefix with `e` unchanged. -/
theorem C16_never_fails_tx (p : Prefix) (e r : Bytes) (hp : wfPrefix p) (he : e.length ≤ CAP) :
    prefix' (encPrefix { p with extra := e } ++ r) = some ({ p with extra := e }, r) ∧
    vec sizes.u8 u8 (encVarint e.length ++ e ++ r) = some (e, r) := by
  obtain ⟨hv, hu, hi, ho, _⟩ := hp
  have hlt : e.length < 2^64 := Nat.lt_of_le_of_lt he CAP_lt
  have hcap : e.length * sizes.u8 ≤ CAP := by simpa [sizes, Gen.sizes] using he
  constructor
  · exact complete_prefix { p with extra := e } r ⟨hv, hu, hi, ho, ⟨fun _ _ => trivial, hcap, hlt⟩⟩
  · have := complete_vec sizes.u8 (fun _ => True) (fun b => [b]) u8 complete_u8 e r (fun _ _ => trivial) hcap hlt
    have hflat : encVec (fun b : UInt8 => [b]) e = encVarint e.length ++ e := by
      unfold encVec; rw [flatten_singletons]
    rw [hflat] at this
    exact this

/-! ## the hypotheses are satisfiable; small evaluations of the model -/

example : WFSeq (fun _ => true)
    [.txPub (List.replicate 32 7), .padding 255, .nonce [1, 2, 3], .mergeMining 300 (List.replicate 32 9),
     .addKeys [List.replicate 32 1, List.replicate 32 2], .minerGate [], .padding 3] := by
  simp [WFSeq, WFField, ShortPad, sizes, Gen.sizes, CAP, Gen.CAP]

example : tryParse (fun _ => true) [0x02, 0x01, 0xaa, 0x00, 0x00] = ⟨false, [.nonce [0xaa], .padding 1], [.nonce [0xaa], .padding 1]⟩ := by
  decide
/-- a failed sub-field (unknown tag `5`), then resynchronisation on the next byte -/
example : tryParse (fun _ => true) [0x02, 0x00, 0x05, 0xde, 0x01, 0x07] =
    ⟨true, [.nonce [], .minerGate [7]], [.nonce []]⟩ := by decide
example : Clean (fun _ => true) [0x00, 0x00] := Clean.step (by simp) (by decide : subFieldRd _ _ = (some (.padding 1), [])) Clean.nil

end C16
