import MoneroModel.Model.TxHash
import MoneroModel.Proofs.TxSound4
import MoneroModel.Proofs.WireSkip
import MoneroModel.Props.C03
open Monero
/-! # C05 — transaction identifier and prefix hash follow the Monero definition

For a parsed transaction `tx b = some (t, r)` (strict: `r = []`) the identifier computed from the parsed value is the Monero
formula over byte ranges of `b` itself. The theorems of the first part use `pOf t` / `qOf t`, the lengths of the MODEL's
re-encoding of the parsed prefix and RingCT base (functions of the parsed value). That these are the boundaries of the FORMAT is a
separate statement, `C05_bounds_are_skipper`: for every accepted byte string — every version, every remainder — the by-the-book
skipper `Spec.txBounds` (Spec/TxSkip.lean: walks the raw bytes by tags and counts, builds no value, knows nothing of the model)
succeeds and returns exactly `pOf t`, `qOf t`, the Null flag and (version 1 / no inputs / Null) the end of the transaction.
`C05_id_skipper` combines both: identifier and prefix hash as the Monero formula over ranges of `b` found by the skipper alone.
For descriptions (versions 1 and 2) `C05_id_spec_bytes` additionally equates them with `|specPrefix d|`, `|specBase r|` of Spec/Wire.
`H` is an arbitrary function (Keccak-256 in the code; C17). -/
namespace C05

/-- boundaries of a parsed transaction as lengths of the model's re-encoding of the parsed VALUE: end of prefix, end of RingCT base.
(Equal to the by-the-book skipper's `p`, `q` on the received bytes: `C05_bounds_are_skipper`.) -/
def pOf (t : Tx) : Nat := (encPrefix t.pre).length
def qOf (t : Tx) : Nat := pOf t + (match t.base with | some b => (encBase b).length | none => 0)

theorem parsed_split (b : Bytes) (t : Tx) (h : tx b = some (t, [])) :
    b = encPrefix t.pre ++ (b.drop (pOf t)) ∧ b.take (pOf t) = encPrefix t.pre := by
  have := sound_tx b t [] h
  simp only [List.append_nil] at this
  subst this
  unfold pOf encTx
  simp

/-- the prefix hash is Keccak of the first `p` bytes received -/
theorem C05_prefix_hash (H : Bytes → Bytes) (b : Bytes) (t : Tx) (h : tx b = some (t, [])) :
    prefixHash H t.pre = H (b.take (pOf t)) := by
  rw [(parsed_split b t h).2]; rfl

/-- version 1: the identifier is Keccak of the whole serialisation received -/
theorem C05_id_v1 (H : Bytes → Bytes) (b : Bytes) (t : Tx) (h : tx b = some (t, [])) (hv : t.pre.version = 1) :
    txHash H t = H b := by
  have := sound_tx b t [] h
  simp only [List.append_nil] at this
  simp [txHash, hv, this]

/-- what the decoder guarantees about a parsed non-v1 transaction with at least one input: the RingCT base is
present, and the prunable part is present exactly when the type is not Null (so the hard-coded "empty" constant of
`Transaction::hash` is unreachable for parsed transactions) -/
theorem parsed_shape (b : Bytes) (t : Tx) (r : Bytes) (h : tx b = some (t, r)) (hv : t.pre.version ≠ 1) (hi : t.pre.ins ≠ []) :
    ∃ bs, t.base = some bs ∧ (bs.ty = 0 → t.prun = none) ∧ (bs.ty ≠ 0 → ∃ p, t.prun = some p) := by
  unfold tx at h
  obtain ⟨p, r1, h1, h2⟩ := bind_some h
  have cp := sound_prefix _ _ _ h1
  simp only at h2
  split at h2
  · rename_i hv1
    obtain ⟨s, r2, _, h4⟩ := bind_some h2
    obtain ⟨rfl, _⟩ := pure_some h4
    exact absurd hv1 hv
  · split at h2
    · rename_i hz
      obtain ⟨rfl, _⟩ := pure_some h2
      simp at hz; exact absurd hz hi
    · obtain ⟨bs, r2, h3, h4⟩ := bind_some h2
      split at h4
      · rename_i hty
        have fin : ∀ m pr r3, prunable bs.ty p.ins.length p.outs.length m r2 = some (pr, r3) →
            pure' (⟨p, [], some bs, pr⟩ : Tx) r3 = some (t, r) →
            ∃ bs', t.base = some bs' ∧ (bs'.ty = 0 → t.prun = none) ∧ (bs'.ty ≠ 0 → ∃ q, t.prun = some q) := by
          intro m pr r3 hp hq
          obtain ⟨rfl, _⟩ := pure_some hq
          rcases sound_prunable _ _ _ _ _ _ _ hp with ⟨h0, _, _⟩ | ⟨_, q, rfl, _⟩
          · exact absurd h0 hty
          · exact ⟨bs, rfl, fun h0 => absurd h0 hty, fun _ => ⟨q, rfl⟩⟩
        cases hh : p.ins.head? with
        | none =>
          simp only [hh] at h4
          obtain ⟨pr, r3, h5, h6⟩ := bind_some h4
          exact fin _ _ _ h5 h6
        | some i0 =>
          cases i0 with
          | gen g =>
            simp only [hh] at h4
            obtain ⟨pr, r3, h5, h6⟩ := bind_some h4
            exact fin _ _ _ h5 h6
          | toKey a o k =>
            simp only [hh] at h4
            split at h4
            · exact (fail_some h4).elim
            · obtain ⟨pr, r3, h5, h6⟩ := bind_some h4
              exact fin _ _ _ h5 h6
      · rename_i hty
        obtain ⟨rfl, _⟩ := pure_some h4
        exact ⟨bs, rfl, fun _ => rfl, fun h0 => absurd (by simpa using hty) h0⟩

/-- RingCT transactions (EVERY version ≠ 1, at least one input, any of the seven types):
id = H( H(b[0..p]) ‖ H(b[p..q]) ‖ (type = Null ? 0^32 : H(b[q..])) ), with `p = pOf t`, `q = qOf t`
(the skipper's boundaries: `C05_bounds_are_skipper`) -/
theorem C05_id_rct (H : Bytes → Bytes) (b : Bytes) (t : Tx) (h : tx b = some (t, [])) (hv : t.pre.version ≠ 1)
    (hi : t.pre.ins ≠ []) :
    ∃ bs, t.base = some bs ∧
      txHash H t = H (H (b.take (pOf t)) ++ H ((b.drop (pOf t)).take (qOf t - pOf t)) ++
                      (if bs.ty = 0 then zeroHash else H (b.drop (qOf t)))) := by
  obtain ⟨bs, hb, hz, hnz⟩ := parsed_shape b t [] h hv hi
  refine ⟨bs, hb, ?_⟩
  have hs := sound_tx b t [] h
  simp only [List.append_nil] at hs
  have hq : qOf t - pOf t = (encBase bs).length := by simp [qOf, hb]
  by_cases hty : bs.ty = 0
  · have hp := hz hty
    have hb' : b = encPrefix t.pre ++ encBase bs := by
      rw [hs]; simp [encTx, hv, hb, hp]
    rw [hq]
    simp only [txHash, hv, if_false, hb, hty, if_true, prefixHash, pOf]
    congr 1
    rw [hb']
    simp
  · obtain ⟨p, hp⟩ := hnz hty
    have hb' : b = encPrefix t.pre ++ (encBase bs ++ encPrunable p bs.ty) := by
      rw [hs]; simp [encTx, hv, hb, hp]
    have hq2 : qOf t = (encPrefix t.pre).length + (encBase bs).length := by simp [qOf, pOf, hb]
    rw [hq, hq2]
    simp only [txHash, hv, if_false, hb, hty, hp, prefixHash, pOf]
    congr 1
    rw [hb']
    have hd : List.drop ((encPrefix t.pre).length + (encBase bs).length) (encPrefix t.pre) = [] :=
      List.drop_eq_nil_of_le (by omega)
    simp [List.drop_append, hd]

/-- the identifier depends on nothing but the CONSUMED bytes: two accepted byte strings whose consumed parts are equal (whatever
follows them, whatever else differs) yield the same parsed value, hence the same identifier and prefix hash. (Not the determinism of
a Lean function: `b` and `b'` differ; the content is that the decoder's result is determined by — and only by — the bytes it
consumed, from `tx_consumed_prefix`, `decoded_wf_tx` and `complete_tx`.) -/
theorem C05_function_of_consumed (H : Bytes → Bytes) (b b' : Bytes) (t t' : Tx) (r r' : Bytes)
    (h : tx b = some (t, r)) (h' : tx b' = some (t', r'))
    (he : b.take (b.length - r.length) = b'.take (b'.length - r'.length)) :
    t = t' ∧ txHash H t = txHash H t' ∧ prefixHash H t.pre = prefixHash H t'.pre := by
  have e1 := tx_consumed_prefix b t r h
  have e2 := tx_consumed_prefix b' t' r' h'
  have ee : encTx t = encTx t' := by rw [e1, e2, he]
  have c1 := complete_tx t [] (decoded_wf_tx b t r h)
  have c2 := complete_tx t' [] (decoded_wf_tx b' t' r' h')
  rw [ee, c2] at c1
  have : t' = t := by simpa using c1
  subst this
  exact ⟨rfl, rfl, rfl⟩

/- non-vacuity: two different byte strings (different remainders) with the same consumed part -/
example : ∃ t, tx [2, 0, 1, 0xff, 5, 0, 0, 0, 7] = some (t, [7]) ∧ tx [2, 0, 1, 0xff, 5, 0, 0, 0, 9, 9] = some (t, [9, 9]) :=
  ⟨⟨⟨2, 0, [.gen 5], [], []⟩, [], some ⟨0, 0, [], [], []⟩, none⟩, by rfl, by rfl⟩

/-- the excluded point (recorded in DESIGN.md §8): a non-v1 transaction without inputs carries no RingCT data, and the
library's identifier is `H(H(prefix))` -/
theorem C05_no_inputs (H : Bytes → Bytes) (t : Tx) (hv : t.pre.version ≠ 1) (hb : t.base = none) :
    txHash H t = H (H (encPrefix t.pre)) := by
  simp [txHash, hv, hb, prefixHash]

example : ∃ t, tx [2, 0, 1, 0xff, 5, 0, 0, 0] = some (t, []) ∧ t.pre.version ≠ 1 ∧ t.pre.ins ≠ [] := by
  refine ⟨⟨⟨2, 0, [.gen 5], [], []⟩, [], some ⟨0, 0, [], [], []⟩, none⟩, by rfl, by decide, by simp⟩

/-! ## The decoder's output shape, with the type byte (clause "type is Null" read off the received bytes) -/

/-- `parsed_shape` plus the range of the type: the RingCT type of a parsed transaction is one of the seven (≤ 6), so that
`UInt8.ofNat bs.ty` determines it -/
theorem parsed_shape_ty (b : Bytes) (t : Tx) (r : Bytes) (h : tx b = some (t, r)) (hv : t.pre.version ≠ 1) (hi : t.pre.ins ≠ []) :
    ∃ bs, t.base = some bs ∧ bs.ty ≤ 6 := by
  unfold tx at h
  obtain ⟨p, r1, h1, h2⟩ := bind_some h
  simp only at h2
  split at h2
  · rename_i hv1
    obtain ⟨s, r2, _, h4⟩ := bind_some h2
    obtain ⟨rfl, _⟩ := pure_some h4
    exact absurd hv1 hv
  · split at h2
    · rename_i hz
      obtain ⟨rfl, _⟩ := pure_some h2
      simp at hz; exact absurd hz hi
    · obtain ⟨bs, r2, h3, h4⟩ := bind_some h2
      have hty6 := (sound_base _ _ _ _ _ h3).2
      split at h4
      · have fin : ∀ m pr r3, prunable bs.ty p.ins.length p.outs.length m r2 = some (pr, r3) →
            pure' (⟨p, [], some bs, pr⟩ : Tx) r3 = some (t, r) → ∃ bs', t.base = some bs' ∧ bs'.ty ≤ 6 := by
          intro m pr r3 _ hq
          obtain ⟨rfl, _⟩ := pure_some hq
          exact ⟨bs, rfl, hty6⟩
        cases hh : p.ins.head? with
        | none =>
          simp only [hh] at h4
          obtain ⟨pr, r3, h5, h6⟩ := bind_some h4
          exact fin _ _ _ h5 h6
        | some i0 =>
          cases i0 with
          | gen g =>
            simp only [hh] at h4
            obtain ⟨pr, r3, h5, h6⟩ := bind_some h4
            exact fin _ _ _ h5 h6
          | toKey a o k =>
            simp only [hh] at h4
            split at h4
            · exact (fail_some h4).elim
            · obtain ⟨pr, r3, h5, h6⟩ := bind_some h4
              exact fin _ _ _ h5 h6
      · obtain ⟨rfl, _⟩ := pure_some h4
        exact ⟨bs, rfl, hty6⟩

theorem ofNat_ty_zero (n : Nat) (h : n ≤ 6) : UInt8.ofNat n = 0 ↔ n = 0 := by
  have h' : n < 7 := by omega
  revert h'; revert n; decide

theorem encBase_head (bs : Base) : encBase bs = UInt8.ofNat bs.ty :: (encBase bs).tail := by
  simp [encBase]

/-! ## Embedded (non-strict) parses: `tx b = some (t, r)` with a remainder `r` — the situation of the miner transaction
inside a block (`Block::id` / `tx_root` hash exactly such a parse). `b' = b.take (|b| − |r|)` is the consumed part. -/

/-- the prefix hash of an embedded parse is `H` of the first `p` bytes received, and `p` lies inside the consumed part -/
theorem C05_prefix_hash_embedded (H : Bytes → Bytes) (b : Bytes) (t : Tx) (r : Bytes) (h : tx b = some (t, r)) :
    prefixHash H t.pre = H (b.take (pOf t)) ∧ pOf t ≤ b.length - r.length := by
  have hs := sound_tx b t r h
  subst hs
  constructor
  · unfold pOf prefixHash encTx
    simp
  · unfold pOf encTx
    simp only [List.length_append]; omega

/-- version 1, embedded parse: the identifier is `H` of exactly the consumed bytes -/
theorem C05_id_v1_embedded (H : Bytes → Bytes) (b : Bytes) (t : Tx) (r : Bytes) (h : tx b = some (t, r)) (hv : t.pre.version = 1) :
    b = b.take (b.length - r.length) ++ r ∧ txHash H t = H (b.take (b.length - r.length)) := by
  have hc := tx_consumed_prefix b t r h
  have hs := sound_tx b t r h
  rw [← hc]
  exact ⟨hs, by simp [txHash, hv]⟩

/-- RingCT transactions, embedded parse, with the Null test tied to the received byte: with `b'` the consumed part,
`p < q ≤ |b'|`, the byte at position `p` is the RingCT type (one of 0..6), and
id = H( H(b'[0..p]) ‖ H(b'[p..q]) ‖ (b'[p] = 0 ? 0^32 : H(b'[q..])) ) -/
theorem C05_id_rct_embedded (H : Bytes → Bytes) (b : Bytes) (t : Tx) (r : Bytes) (h : tx b = some (t, r))
    (hv : t.pre.version ≠ 1) (hi : t.pre.ins ≠ []) :
    ∃ bs, t.base = some bs ∧ bs.ty ≤ 6 ∧
      b = b.take (b.length - r.length) ++ r ∧ pOf t < qOf t ∧ qOf t ≤ b.length - r.length ∧
      b[pOf t]? = some (UInt8.ofNat bs.ty) ∧
      txHash H t = H (H ((b.take (b.length - r.length)).take (pOf t)) ++
                      H (((b.take (b.length - r.length)).drop (pOf t)).take (qOf t - pOf t)) ++
                      (if b[pOf t]? = some 0 then zeroHash else H ((b.take (b.length - r.length)).drop (qOf t)))) := by
  obtain ⟨bs, hb, hz, hnz⟩ := parsed_shape b t r h hv hi
  obtain ⟨bs', hb2, hty6⟩ := parsed_shape_ty b t r h hv hi
  rw [hb] at hb2; cases hb2
  refine ⟨bs, hb, hty6, ?_⟩
  have hc := tx_consumed_prefix b t r h
  have hs := sound_tx b t r h
  rw [← hc]
  have hq : qOf t - pOf t = (encBase bs).length := by simp [qOf, hb]
  have hq2 : qOf t = (encPrefix t.pre).length + (encBase bs).length := by simp [qOf, pOf, hb]
  have hlen : 1 ≤ (encBase bs).length := by rw [encBase_head]; simp
  have hbyte : ∀ (x : Bytes), (encPrefix t.pre ++ (encBase bs ++ x))[pOf t]? = some (UInt8.ofNat bs.ty) := by
    intro x
    unfold pOf
    rw [List.getElem?_append_right (Nat.le_refl _), Nat.sub_self, encBase_head]
    rfl
  by_cases hty : bs.ty = 0
  · have hp := hz hty
    have he : encTx t = encPrefix t.pre ++ encBase bs := by simp [encTx, hv, hb, hp]
    have hbb : b[pOf t]? = some (UInt8.ofNat bs.ty) := by
      rw [hs, he]; have := hbyte r; simpa [List.append_assoc] using this
    refine ⟨hs, by omega, ?_, hbb, ?_⟩
    · have : (encTx t).length = qOf t := by rw [he, hq2]; simp
      have hl : b.length = (encTx t).length + r.length := by rw [hs]; simp
      omega
    · have h0 : b[(encPrefix t.pre).length]? = some 0 := by have := hbb; rw [hty] at this; exact this
      rw [hq]
      simp only [txHash, hv, if_false, hb, hty, if_true, prefixHash, pOf, h0]
      congr 1
      rw [he]
      simp
  · obtain ⟨p, hp⟩ := hnz hty
    have he : encTx t = encPrefix t.pre ++ (encBase bs ++ encPrunable p bs.ty) := by simp [encTx, hv, hb, hp]
    have hbb : b[pOf t]? = some (UInt8.ofNat bs.ty) := by
      rw [hs, he]; have := hbyte (encPrunable p bs.ty ++ r); simpa [List.append_assoc] using this
    refine ⟨hs, by omega, ?_, hbb, ?_⟩
    · have : qOf t ≤ (encTx t).length := by rw [he, hq2]; simp only [List.length_append]; omega
      have hl : b.length = (encTx t).length + r.length := by rw [hs]; simp
      omega
    · have h0 : ¬ b[(encPrefix t.pre).length]? = some 0 := by
        show ¬ b[pOf t]? = some 0
        rw [hbb]; intro hc0
        exact hty ((ofNat_ty_zero bs.ty hty6).1 (Option.some.inj hc0))
      rw [hq, hq2]
      simp only [txHash, hv, if_false, hb, hty, hp, prefixHash, pOf, h0]
      congr 1
      rw [he]
      have hd : List.drop ((encPrefix t.pre).length + (encBase bs).length) (encPrefix t.pre) = [] :=
        List.drop_eq_nil_of_le (by omega)
      simp [List.drop_append, hd]

/-- the strict case in the same form: the Null test of `C05_id_rct` is a test of the received byte `b[p]`
(clause "all-zero hash when the type is Null", with the type read from the bytes) -/
theorem C05_id_rct_bytes (H : Bytes → Bytes) (b : Bytes) (t : Tx) (h : tx b = some (t, [])) (hv : t.pre.version ≠ 1)
    (hi : t.pre.ins ≠ []) :
    pOf t < qOf t ∧ qOf t ≤ b.length ∧
    txHash H t = H (H (b.take (pOf t)) ++ H ((b.drop (pOf t)).take (qOf t - pOf t)) ++
                    (if b[pOf t]? = some 0 then zeroHash else H (b.drop (qOf t)))) := by
  obtain ⟨bs, _, _, _, hpq, hql, _, hid⟩ := C05_id_rct_embedded H b t [] h hv hi
  simp only [List.length_nil, Nat.sub_zero, List.take_length] at hql hid
  exact ⟨hpq, hql, hid⟩

/-! ## The excluded point, tied to parsing -/

/-- a strictly parsed non-v1 transaction WITHOUT inputs carries no RingCT data at all (the decoder stops after the prefix:
`b` is exactly the prefix) and the library's identifier is `H(H(b))` — where the Monero formula would give
`H(H(prefix) ‖ H(base) ‖ …)` for the (non-existent) base; recorded as the excluded point in DESIGN.md §8 -/
theorem C05_no_inputs_parsed (H : Bytes → Bytes) (b : Bytes) (t : Tx) (h : tx b = some (t, [])) (hv : t.pre.version ≠ 1)
    (hi : t.pre.ins = []) :
    t.base = none ∧ t.prun = none ∧ b = encPrefix t.pre ∧ txHash H t = H (H b) := by
  have hs := sound_tx b t [] h
  simp only [List.append_nil] at hs
  have hb : t.base = none ∧ t.prun = none := by
    unfold tx at h
    obtain ⟨p, r1, h1, h2⟩ := bind_some h
    simp only at h2
    split at h2
    · rename_i hv1
      obtain ⟨s, r2, _, h4⟩ := bind_some h2
      obtain ⟨rfl, _⟩ := pure_some h4
      exact absurd hv1 hv
    · split at h2
      · obtain ⟨rfl, _⟩ := pure_some h2
        exact ⟨rfl, rfl⟩
      · rename_i hz
        obtain ⟨bs, r2, h3, h4⟩ := bind_some h2
        have hp : t.pre = p := by
          split at h4
          · cases hh : p.ins.head? with
            | none =>
              simp only [hh] at h4
              obtain ⟨pr, r3, _, h6⟩ := bind_some h4
              obtain ⟨rfl, _⟩ := pure_some h6; rfl
            | some i0 =>
              cases i0 with
              | gen g =>
                simp only [hh] at h4
                obtain ⟨pr, r3, _, h6⟩ := bind_some h4
                obtain ⟨rfl, _⟩ := pure_some h6; rfl
              | toKey a o k =>
                simp only [hh] at h4
                split at h4
                · exact (fail_some h4).elim
                · obtain ⟨pr, r3, _, h6⟩ := bind_some h4
                  obtain ⟨rfl, _⟩ := pure_some h6; rfl
          · obtain ⟨rfl, _⟩ := pure_some h4; rfl
        rw [hp] at hi
        simp [hi] at hz
  have he : b = encPrefix t.pre := by rw [hs]; simp [encTx, hv, hb.1]
  refine ⟨hb.1, hb.2, he, ?_⟩
  rw [C05_no_inputs H t hv hb.1, ← he]

/-- the format is prefix-free, so an identifier is defined by a WHOLE blob only: if `b ++ s` parses strictly for some non-empty `s`, then
`b` itself (the blob cut short) does not — no transaction, hence no identifier, is defined by a truncated serialisation
(harness family `id.cut-short`) -/
theorem C05_no_id_for_proper_prefix (b s : Bytes) (t : Tx) (h : tx (b ++ s) = some (t, [])) (hs : s ≠ []) :
    ∀ t', tx b ≠ some (t', []) := by
  intro t' h'
  have e := sound_tx b t' [] h'
  simp only [List.append_nil] at e
  have c := complete_tx t' s (decoded_wf_tx b t' [] h')
  rw [← e, h] at c
  have hc : t = t' ∧ [] = s := by simpa using c
  exact hs hc.2.symm

/- non-vacuity: the Null coinbase transaction is `[2, 0, 1, 0xff, 5, 0, 0] ++ [0]` -/
example : ∃ t, tx ([2, 0, 1, 0xff, 5, 0, 0] ++ [0]) = some (t, []) :=
  ⟨⟨⟨2, 0, [.gen 5], [], []⟩, [], some ⟨0, 0, [], [], []⟩, none⟩, by rfl⟩

/-! ## The boundaries are the format's: the by-the-book skipper (Spec/TxSkip.lean), every version, every remainder -/

/-- for EVERY accepted byte string (`tx b = some (t, r)`: any version — 0, 1, 2, 3, …, 2^64−1 —, any remainder `r`) the by-the-book
skipper `Spec.txBounds`, which walks the raw bytes by the tags and counts of `transaction_prefix` / `rctSigBase` and knows nothing of
the model, succeeds, and what it returns is what the theorems above call `pOf t`, `qOf t`: the version, the input and output counts, the
end `p` of the prefix; there is RingCT data exactly when the version is not 1 and there is an input, and then `q` is the end of the
base and the Null flag is the test `b[p] = 0`; where the skipper reports an end of the whole transaction (version 1: `p + 64·ring
members`; no inputs: `p`; Null: `q`) it is the number of bytes the decoder consumed, and it reports one exactly in those cases -/
theorem C05_bounds_are_skipper (b : Bytes) (t : Tx) (r : Bytes) (h : tx b = some (t, r)) :
    ∃ bd, Spec.txBounds b = some bd ∧ bd.version = t.pre.version ∧ bd.inputs = t.pre.ins.length ∧
      bd.outputs = t.pre.outs.length ∧ bd.p = pOf t ∧
      (bd.hasRct = true ↔ t.pre.version ≠ 1 ∧ t.pre.ins ≠ []) ∧
      (bd.hasRct = true → bd.q = qOf t ∧ (bd.isNull = true ↔ b[pOf t]? = some 0)) ∧
      (∀ e, bd.end? = some e → e = b.length - r.length) ∧
      (bd.end? = none ↔ bd.hasRct = true ∧ bd.isNull = false) := by
  obtain ⟨bd, h1, h2, h3, h4, h5, h6, h7, h8, h9⟩ := WireSkip.txBounds_of_tx b t r h
  refine ⟨bd, h1, h2, h3, h4, h5, h6, ?_, h8, h9⟩
  intro hr
  obtain ⟨bs, hb, hq, hn⟩ := h7 hr
  obtain ⟨hv, hi⟩ := h6.1 hr
  obtain ⟨bs', hb', hty6, _, _, _, hbyte, _⟩ := C05_id_rct_embedded id b t r h hv hi
  rw [hb] at hb'; cases hb'
  refine ⟨by simp [qOf, pOf, hb, hq], ?_⟩
  rw [hn, hbyte]
  constructor
  · intro h0; rw [h0]; rfl
  · intro h0; exact (ofNat_ty_zero bs.ty hty6).1 (Option.some.inj h0)

/-- `TransactionPrefix::hash` of a prefix parsed ON ITS OWN (strictly): the hash of exactly the received bytes, which the by-the-book
prefix walker consumes entirely (harness op `c05_prefixhash`) -/
theorem C05_prefix_hash_standalone (H : Bytes → Bytes) (b : Bytes) (p : Prefix) (h : prefix' b = some (p, [])) :
    prefixHash H p = H b ∧ ∃ pe, Spec.skipPrefix b = some pe ∧ pe.rest = [] ∧ pe.version = p.version ∧
      pe.inputs = p.ins.length ∧ pe.outputs = p.outs.length := by
  have e := sound_prefix b p [] h
  simp only [List.append_nil] at e
  exact ⟨by rw [e]; rfl, _, WireSkip.skipPrefix_of_prefix h, rfl, rfl, rfl, rfl⟩

example : ∃ p, prefix' [2, 0, 1, 0xff, 5, 0, 0] = some (p, []) ∧ p.ins.length = 1 :=
  ⟨⟨2, 0, [.gen 5], [], []⟩, by rfl, rfl⟩

/-- THE PROPERTY over the received bytes and the skipper alone (no `pOf`, `qOf`, no re-encoding): whenever the decoder accepts `b`
(leaving `r`; strict parsing is `r = []`), with `bd` the skipper's answer on `b` and `b'` the consumed part,
* prefix hash = H(b[0..p]);
* version 1: the skipper reports the end `e` of the transaction and id = H(b[0..e]);
* RingCT data present (version ≠ 1, an input): `p < q ≤ |b'|` and id = H( H(b[0..p]) ‖ H(b[p..q]) ‖ (Null ? 0^32 : H(b'[q..])) );
* the excluded point (version ≠ 1, no input: no RingCT type exists, DESIGN.md §8): the library's id is H(H(b[0..p])). -/
theorem C05_id_skipper (H : Bytes → Bytes) (b : Bytes) (t : Tx) (r : Bytes) (h : tx b = some (t, r)) :
    ∃ bd, Spec.txBounds b = some bd ∧
      prefixHash H t.pre = H (b.take bd.p) ∧
      (bd.version = 1 → ∃ e, bd.end? = some e ∧ txHash H t = H (b.take e)) ∧
      (bd.hasRct = true → bd.p < bd.q ∧ bd.q ≤ b.length - r.length ∧
        txHash H t = H (H (b.take bd.p) ++ H ((b.drop bd.p).take (bd.q - bd.p)) ++
          (if bd.isNull = true then zeroHash else H ((b.take (b.length - r.length)).drop bd.q)))) ∧
      (bd.version ≠ 1 → bd.hasRct = false → txHash H t = H (H (b.take bd.p))) := by
  obtain ⟨bd, h1, hv, _, _, hp, hrct, hq, hend, hnone⟩ := C05_bounds_are_skipper b t r h
  have hph := C05_prefix_hash_embedded H b t r h
  refine ⟨bd, h1, by rw [hp]; exact hph.1, ?_, ?_, ?_⟩
  · intro hv1
    rw [hv] at hv1
    have hnr : ¬ bd.hasRct = true := fun hh => (hrct.1 hh).1 hv1
    cases he : bd.end? with
    | none => exact absurd (hnone.1 he).1 hnr
    | some e =>
      refine ⟨e, rfl, ?_⟩
      rw [hend e he]
      exact (C05_id_v1_embedded H b t r h hv1).2
  · intro hh
    obtain ⟨hv1, hi⟩ := hrct.1 hh
    obtain ⟨hqq, hnull⟩ := hq hh
    obtain ⟨bs, _, _, _, hpq, hql, _, hid⟩ := C05_id_rct_embedded H b t r h hv1 hi
    rw [hp, hqq]
    refine ⟨hpq, hql, ?_⟩
    rw [hid]
    have hpl : pOf t ≤ b.length - r.length := by omega
    have e1 : (b.take (b.length - r.length)).take (pOf t) = b.take (pOf t) := by
      rw [List.take_take, Nat.min_eq_left hpl]
    have e2 : ((b.take (b.length - r.length)).drop (pOf t)).take (qOf t - pOf t) = (b.drop (pOf t)).take (qOf t - pOf t) := by
      rw [List.drop_take, List.take_take, Nat.min_eq_left (by omega)]
    rw [e1, e2]
    by_cases hz : b[pOf t]? = some 0
    · simp [hz, hnull.2 hz]
    · have : ¬ bd.isNull = true := fun hh2 => hz (hnull.1 hh2)
      simp [hz, this]
  · intro hv1 hnr
    rw [hv] at hv1
    have hi : t.pre.ins = [] := by
      apply Classical.byContradiction
      intro hne
      have := hrct.2 ⟨hv1, hne⟩
      rw [hnr] at this; exact absurd this (by decide)
    have hb : t.base = none := ((decoded_wf_tx b t r h).2.2 hv1).2.1 hi |>.1
    rw [C05_no_inputs H t hv1 hb, hp, ← hph.1]; rfl

/-- strict parsing, same statement: the third hash is over `b[q..]` and the version-1 identifier is `H b` -/
theorem C05_id_skipper_strict (H : Bytes → Bytes) (b : Bytes) (t : Tx) (h : tx b = some (t, [])) :
    ∃ bd, Spec.txBounds b = some bd ∧
      prefixHash H t.pre = H (b.take bd.p) ∧
      (bd.version = 1 → txHash H t = H b) ∧
      (bd.hasRct = true → bd.p < bd.q ∧ bd.q ≤ b.length ∧
        txHash H t = H (H (b.take bd.p) ++ H ((b.drop bd.p).take (bd.q - bd.p)) ++
          (if bd.isNull = true then zeroHash else H (b.drop bd.q)))) := by
  obtain ⟨bd, h1, h2, h3, h4, _⟩ := C05_id_skipper H b t [] h
  refine ⟨bd, h1, h2, ?_, ?_⟩
  · intro hv
    obtain ⟨bd', h1', hv', _⟩ := C05_bounds_are_skipper b t [] h
    rw [h1] at h1'; cases h1'
    exact C05_id_v1 H b t h (by rw [← hv']; exact hv)
  · intro hh
    have := h4 hh
    simpa using this

/- non-vacuity of the skipper theorems: (1) a VERSION-1 transaction with one key input of ring size 1 (hence one 64-byte signature)
followed by a remainder byte — the skipper reports the end of the transaction, one byte before the end of the input; (2) a
VERSION-3 Null coinbase followed by two bytes — the skipper finds RingCT data; (3) the Clsag description at the end of the file -/
example : ∃ t bd e, tx ([1, 0, 1, 2, 0, 1, 7] ++ List.replicate 32 9 ++ [0, 0] ++ List.replicate 64 5 ++ [0xaa]) = some (t, [0xaa]) ∧
    t.pre.version = 1 ∧ t.sigs = [[List.replicate 64 5]] ∧
    Spec.txBounds ([1, 0, 1, 2, 0, 1, 7] ++ List.replicate 32 9 ++ [0, 0] ++ List.replicate 64 5 ++ [0xaa]) = some bd ∧
    bd.version = 1 ∧ bd.inputs = 1 ∧ bd.hasRct = false ∧ bd.end? = some e ∧ e = 105 := by
  have ht : tx ([1, 0, 1, 2, 0, 1, 7] ++ List.replicate 32 9 ++ [0, 0] ++ List.replicate 64 5 ++ [0xaa]) =
      some (⟨⟨1, 0, [.toKey 0 [7] (List.replicate 32 9)], [], []⟩, [[List.replicate 64 5]], none, none⟩, [0xaa]) := by rfl
  obtain ⟨bd, h1, hv, hi, _, _, hrct, _, hend, hnone⟩ := C05_bounds_are_skipper _ _ _ ht
  have hnr : bd.hasRct = false := by
    cases hh : bd.hasRct with
    | false => rfl
    | true => exact absurd rfl (hrct.1 hh).1
  cases he : bd.end? with
  | none => have := (hnone.1 he).1; rw [hnr] at this; exact absurd this (by decide)
  | some e => exact ⟨_, bd, e, ht, rfl, rfl, h1, hv, hi, hnr, he, by rw [hend e he]; simp⟩
example : ∃ t bd, tx [3, 0, 1, 0xff, 5, 0, 0, 0, 7, 7] = some (t, [7, 7]) ∧ t.pre.version = 3 ∧
    Spec.txBounds [3, 0, 1, 0xff, 5, 0, 0, 0, 7, 7] = some bd ∧ bd.version = 3 ∧ bd.hasRct = true := by
  have ht : tx [3, 0, 1, 0xff, 5, 0, 0, 0, 7, 7] = some (⟨⟨3, 0, [.gen 5], [], []⟩, [], some ⟨0, 0, [], [], []⟩, none⟩, [7, 7]) := by rfl
  obtain ⟨bd, h1, hv, _, _, _, hrct, _⟩ := C05_bounds_are_skipper _ _ _ ht
  exact ⟨_, bd, ht, rfl, h1, hv, hrct.2 ⟨by decide, by simp⟩⟩

/-! ## Against the independent by-the-book specification (Spec/Wire.lean: `specTxId`, `specPrefixHash`)

`Spec.specTxId` is written over DESCRIPTIONS with the boundaries of the format itself (`specPrefix`, `specBase`, `specPrunable` are
three separately written concatenations); it mentions neither the model nor its encoder. For the bytes of a description these
theorems give `p`, `q` a second, independent reading: `|specPrefix d|` and `|specPrefix d| + |specBase r|`. A description has no
version field (`TxD.version ∈ {1, 2}`), so this tie covers versions 1 and 2 only; `Transaction::hash` takes the RingCT branch for
EVERY version ≠ 1, and for those (and for arbitrary parsable bytes) the tie to the format is `C05_bounds_are_skipper` / `C05_id_skipper`. -/

/-- the model of `Transaction::hash` / `TransactionPrefix::hash` applied to the value a description denotes gives the by-the-book
identifier and prefix hash — for EVERY description with RingCT data or version 1 (no well-shapedness needed); BulletproofPlus below
128 proofs (beyond that the library's prunable bytes are not Monero's: known finding of C03, which also moves the identifier).
(Descriptions denote versions 1 and 2 only; other versions: `C05_id_rct` + `C05_bounds_are_skipper`.) -/
theorem C05_id_eq_spec (H : Bytes → Bytes) (d : Spec.TxD) (hb : C03.BppSmall d) (hne : d.body ≠ .v2 none) :
    some (txHash H (build d)) = Spec.specTxId H d ∧ prefixHash H (build d).pre = Spec.specPrefixHash H d := by
  have hpre : prefixHash H (build d).pre = Spec.specPrefixHash H d := by
    unfold prefixHash Spec.specPrefixHash; rw [C03.C03_prefix_eq_spec]
  refine ⟨?_, hpre⟩
  have henc := C03.C03_enc_eq_spec d hb
  have hpe := C03.C03_prefix_eq_spec d
  obtain ⟨unlock, ins, outs, extra, body⟩ := d
  cases body with
  | v1 sigs =>
    simp only [Spec.specTxId]
    have hv : (build ⟨unlock, ins, outs, extra, .v1 sigs⟩).pre.version = 1 := rfl
    simp only [txHash, hv, if_true, henc]
  | v2 r =>
    cases r with
    | none => exact absurd rfl hne
    | some r =>
      have hv : ¬ (build ⟨unlock, ins, outs, extra, .v2 (some r)⟩).pre.version = 1 := by
        show ¬ (2 : Nat) = 1; decide
      have hbase : (build ⟨unlock, ins, outs, extra, .v2 (some r)⟩).base = some (buildBase r) := rfl
      have hprun : (build ⟨unlock, ins, outs, extra, .v2 (some r)⟩).prun = buildPrunable r := rfl
      simp only [Spec.specTxId, txHash, hv, if_false, hbase, hprun, prefixHash, hpe, encBase_spec]
      have hbpp : ∀ fee e o bpps cls po, r = .bpplus fee e o bpps cls po → bpps.length < 128 :=
        fun fee e o bpps cls po hr => hb fee e o bpps cls po (by rw [hr])
      cases r with
      | null => simp [buildBase, zeroHash, Spec.zeros32]
      | full fee ecdh outPk rs mg =>
        have := encPrunable_spec (.full fee ecdh outPk rs mg) _ rfl hbpp
        simp only [buildBase] at this; simp [buildBase, buildPrunable, this]
      | simple fee po ecdh outPk rs mgs =>
        have := encPrunable_spec (.simple fee po ecdh outPk rs mgs) _ rfl hbpp
        simp only [buildBase] at this; simp [buildBase, buildPrunable, this]
      | bulletproof fee ecdh outPk bps mgs po =>
        have := encPrunable_spec (.bulletproof fee ecdh outPk bps mgs po) _ rfl hbpp
        simp only [buildBase] at this; simp [buildBase, buildPrunable, this]
      | bulletproof2 fee ecdh outPk bps mgs po =>
        have := encPrunable_spec (.bulletproof2 fee ecdh outPk bps mgs po) _ rfl hbpp
        simp only [buildBase] at this; simp [buildBase, buildPrunable, this]
      | clsag fee ecdh outPk bps cls po =>
        have := encPrunable_spec (.clsag fee ecdh outPk bps cls po) _ rfl hbpp
        simp only [buildBase] at this; simp [buildBase, buildPrunable, this]
      | bpplus fee ecdh outPk bpps cls po =>
        have := encPrunable_spec (.bpplus fee ecdh outPk bpps cls po) _ rfl hbpp
        simp only [buildBase] at this; simp [buildBase, buildPrunable, this]

/-- length of the RingCT base of a description (0 when there is none): the distance `q − p` of the format -/
def baseLenD (d : Spec.TxD) : Nat := match d.body with | .v2 (some r) => (Spec.specBase r).length | _ => 0

/-- byte-level form: the by-the-book bytes of a well-shaped description (within the decoder's caps) parse strictly, the parsed
value's identifier and prefix hash are the by-the-book ones, and on these bytes the boundaries used by `C05_prefix_hash` / `C05_id_rct`
are those of Spec/Wire: `p = |specPrefix d|`, `q = p + |specBase r|` (versions 1 and 2, well-shaped, < 128 BP+ proofs; for arbitrary
accepted bytes of any version: `C05_bounds_are_skipper`) -/
theorem C05_id_spec_bytes (H : Bytes → Bytes) (d : Spec.TxD) (hb : C03.BppSmall d) (h : Spec.WFTxD d) (hc : CapD d)
    (hne : d.body ≠ .v2 none) :
    ∃ t, tx (Spec.specTx d) = some (t, []) ∧ some (txHash H t) = Spec.specTxId H d ∧
      prefixHash H t.pre = Spec.specPrefixHash H d ∧
      pOf t = (Spec.specPrefix d).length ∧ qOf t = (Spec.specPrefix d).length + baseLenD d := by
  have hd := C03.C03_dec_spec_desc d hb h hc []
  rw [List.append_nil] at hd
  obtain ⟨h1, h2⟩ := C05_id_eq_spec H d hb hne
  refine ⟨build d, hd, h1, h2, ?_, ?_⟩
  · unfold pOf; rw [C03.C03_prefix_eq_spec]
  · unfold qOf pOf baseLenD; rw [C03.C03_prefix_eq_spec]
    obtain ⟨unlock, ins, outs, extra, body⟩ := d
    cases body with
    | v1 s => rfl
    | v2 r => cases r with
      | none => rfl
      | some r => simp only [build]; rw [encBase_spec]

/- non-vacuity: hypotheses of `C05_id_rct` / `C05_id_rct_embedded` / `C05_id_spec_bytes` are satisfiable with a NON-Null type
(the Clsag description of Props/C03.lean: one key input of ring size 2, one tagged output, one Bulletproof) -/
example : ∃ (d : Spec.TxD) (t : Tx), Spec.WFTxD d ∧ CapD d ∧ C03.BppSmall d ∧ d.body ≠ .v2 none ∧
    tx (Spec.specTx d) = some (t, []) ∧ t.pre.version ≠ 1 ∧ t.pre.ins ≠ [] ∧ ∃ bs, t.base = some bs ∧ bs.ty = 5 := by
  let k : Spec.B := List.replicate 32 7
  let bp : Spec.BpD := ⟨k, k, k, k, k, k, [k, k], [k, k], k, k, k⟩
  let d : Spec.TxD := ⟨0, [.key 0 [5, 1] k], [⟨0, k, some 9⟩], [1, 2, 3],
    .v2 (some (.clsag 1000 [List.replicate 8 0] [k] [bp] [⟨[k, k], k, k⟩] [k]))⟩
  have hk : Spec.is32 k := rfl
  have hw : Spec.WFTxD d := by
    simp [Spec.WFTxD, d, bp, Spec.WFIn, Spec.WFOut, Spec.WFBody, Spec.WFRct, Spec.WFBp, Spec.WFClsag, Spec.WFEcdh8,
      Spec.all32, Spec.u64, Spec.ringSize, hk]
  have hc : CapD d := by
    simp [CapD, CapBody, CapRct, CapBp, CapIn, capN, d, bp, CAP, Gen.CAP, sizes, Gen.sizes]
  have hb : C03.BppSmall d := by
    intro fee e o bpps cls po h; simp [d] at h
  have hd := C03.C03_dec_spec_desc d hb hw hc []
  rw [List.append_nil] at hd
  exact ⟨d, build d, hw, hc, hb, by simp [d], hd, by decide, by simp [build, buildPrefix, d], ⟨_, rfl, rfl⟩⟩

/- non-vacuity of `C05_no_inputs_parsed`: `02 00 00 00 00` parses strictly to a version-2 transaction without inputs -/
example : ∃ t, tx [2, 0, 0, 0, 0] = some (t, []) ∧ t.pre.version ≠ 1 ∧ t.pre.ins = [] := by
  refine ⟨⟨⟨2, 0, [], [], []⟩, [], none, none⟩, by rfl, by decide, rfl⟩

/- non-vacuity of `C05_id_v1` / `C05_id_v1_embedded`: a version-1 transaction without inputs, strict and with a remainder (a version-1
transaction WITH a key input, its signature row and a remainder is the first example after `C05_id_skipper_strict`) -/
example : ∃ t, tx [1, 0, 0, 0, 0] = some (t, []) ∧ t.pre.version = 1 :=
  ⟨⟨⟨1, 0, [], [], []⟩, [], none, none⟩, by rfl, rfl⟩
example : ∃ t, tx [1, 0, 0, 0, 0, 9] = some (t, [9]) ∧ t.pre.version = 1 :=
  ⟨⟨⟨1, 0, [], [], []⟩, [], none, none⟩, by rfl, rfl⟩

/- non-vacuity of `C05_id_rct_embedded` with a NON-Null type and a remainder: the Clsag description above followed by `[7, 7]` -/
example : ∃ (b : Bytes) (t : Tx), tx (b ++ [7, 7]) = some (t, [7, 7]) ∧ t.pre.version ≠ 1 ∧ t.pre.ins ≠ [] ∧
    ∃ bs, t.base = some bs ∧ bs.ty = 5 := by
  let k : Spec.B := List.replicate 32 7
  let bp : Spec.BpD := ⟨k, k, k, k, k, k, [k, k], [k, k], k, k, k⟩
  let d : Spec.TxD := ⟨0, [.key 0 [5, 1] k], [⟨0, k, some 9⟩], [1, 2, 3],
    .v2 (some (.clsag 1000 [List.replicate 8 0] [k] [bp] [⟨[k, k], k, k⟩] [k]))⟩
  have hk : Spec.is32 k := rfl
  have hw : Spec.WFTxD d := by
    simp [Spec.WFTxD, d, bp, Spec.WFIn, Spec.WFOut, Spec.WFBody, Spec.WFRct, Spec.WFBp, Spec.WFClsag, Spec.WFEcdh8,
      Spec.all32, Spec.u64, Spec.ringSize, hk]
  have hc : CapD d := by
    simp [CapD, CapBody, CapRct, CapBp, CapIn, capN, d, bp, CAP, Gen.CAP, sizes, Gen.sizes]
  have hb : C03.BppSmall d := by
    intro fee e o bpps cls po h; simp [d] at h
  exact ⟨Spec.specTx d, build d, C03.C03_dec_spec_desc d hb hw hc [7, 7], by decide, by simp [build, buildPrefix, d], ⟨_, rfl, rfl⟩⟩

/- non-vacuity of the embedded theorems: the Null coinbase transaction followed by two more bytes -/
example : ∃ t, tx [2, 0, 1, 0xff, 5, 0, 0, 0, 7, 7] = some (t, [7, 7]) ∧ t.pre.version ≠ 1 ∧ t.pre.ins ≠ [] := by
  refine ⟨⟨⟨2, 0, [.gen 5], [], []⟩, [], some ⟨0, 0, [], [], []⟩, none⟩, by rfl, by decide, by simp⟩
end C05
