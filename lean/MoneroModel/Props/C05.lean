import MoneroModel.Model.TxHash
import MoneroModel.Proofs.TxSound4
import MoneroModel.Props.C03
open Monero
/-! # C05 — transaction identifier and prefix hash follow the Monero definition

For a strictly parsed transaction `tx b = some (t, [])` the identifier computed from the parsed value is the Monero
formula over byte ranges of `b` itself, with `p = |prefix|` and `q = p + |RingCT base|` the format's boundaries.
`H` is an arbitrary function (Keccak-256 in the code; C17). -/
namespace C05

/-- boundaries of a parsed transaction: end of prefix, end of RingCT base -/
def pOf (t : Tx) : Nat := (encPrefix t.pre).length
def qOf (t : Tx) : Nat := pOf t + (match t.base with | some b => (encBase b).length | none => 0)

theorem parsed_split (b : Bytes) (t : Tx) (h : tx b = some (t, [])) :
    b = encPrefix t.pre ++ (b.drop (pOf t)) ∧ b.take (pOf t) = encPrefix t.pre := by
  have := sound_tx b t [] h
  simp only [List.append_nil] at this
  subst this
  unfold pOf encTx
  simp

/-- the prefix hash is Keccak of the first `p` bytes received -/
theorem C05_prefix_hash (H : Bytes → Bytes) (b : Bytes) (t : Tx) (h : tx b = some (t, [])) :
    prefixHash H t.pre = H (b.take (pOf t)) := by
  rw [(parsed_split b t h).2]; rfl

/-- version 1: the identifier is Keccak of the whole serialisation received -/
theorem C05_id_v1 (H : Bytes → Bytes) (b : Bytes) (t : Tx) (h : tx b = some (t, [])) (hv : t.pre.version = 1) :
    txHash H t = H b := by
  have := sound_tx b t [] h
  simp only [List.append_nil] at this
  simp [txHash, hv, this]

/-- what the decoder guarantees about a parsed non-v1 transaction with at least one input: the RingCT base is
present, and the prunable part is present exactly when the type is not Null (so the hard-coded "empty" constant of
`Transaction::hash` is unreachable for parsed transactions) -/
theorem parsed_shape (b : Bytes) (t : Tx) (r : Bytes) (h : tx b = some (t, r)) (hv : t.pre.version ≠ 1) (hi : t.pre.ins ≠ []) :
    ∃ bs, t.base = some bs ∧ (bs.ty = 0 → t.prun = none) ∧ (bs.ty ≠ 0 → ∃ p, t.prun = some p) := by
  unfold tx at h
  obtain ⟨p, r1, h1, h2⟩ := bind_some h
  have cp := sound_prefix _ _ _ h1
  simp only at h2
  split at h2
  · rename_i hv1
    obtain ⟨s, r2, _, h4⟩ := bind_some h2
    obtain ⟨rfl, _⟩ := pure_some h4
    exact absurd hv1 hv
  · split at h2
    · rename_i hz
      obtain ⟨rfl, _⟩ := pure_some h2
      simp at hz; exact absurd hz hi
    · obtain ⟨bs, r2, h3, h4⟩ := bind_some h2
      split at h4
      · rename_i hty
        have fin : ∀ m pr r3, prunable bs.ty p.ins.length p.outs.length m r2 = some (pr, r3) →
            pure' (⟨p, [], some bs, pr⟩ : Tx) r3 = some (t, r) →
            ∃ bs', t.base = some bs' ∧ (bs'.ty = 0 → t.prun = none) ∧ (bs'.ty ≠ 0 → ∃ q, t.prun = some q) := by
          intro m pr r3 hp hq
          obtain ⟨rfl, _⟩ := pure_some hq
          rcases sound_prunable _ _ _ _ _ _ _ hp with ⟨h0, _, _⟩ | ⟨_, q, rfl, _⟩
          · exact absurd h0 hty
          · exact ⟨bs, rfl, fun h0 => absurd h0 hty, fun _ => ⟨q, rfl⟩⟩
        cases hh : p.ins.head? with
        | none =>
          simp only [hh] at h4
          obtain ⟨pr, r3, h5, h6⟩ := bind_some h4
          exact fin _ _ _ h5 h6
        | some i0 =>
          cases i0 with
          | gen g =>
            simp only [hh] at h4
            obtain ⟨pr, r3, h5, h6⟩ := bind_some h4
            exact fin _ _ _ h5 h6
          | toKey a o k =>
            simp only [hh] at h4
            split at h4
            · exact (fail_some h4).elim
            · obtain ⟨pr, r3, h5, h6⟩ := bind_some h4
              exact fin _ _ _ h5 h6
      · rename_i hty
        obtain ⟨rfl, _⟩ := pure_some h4
        exact ⟨bs, rfl, fun _ => rfl, fun h0 => absurd (by simpa using hty) h0⟩

/-- RingCT transactions (version ≠ 1, at least one input, any of the seven types):
id = H( H(b[0..p]) ‖ H(b[p..q]) ‖ (type = Null ? 0^32 : H(b[q..])) ) -/
theorem C05_id_rct (H : Bytes → Bytes) (b : Bytes) (t : Tx) (h : tx b = some (t, [])) (hv : t.pre.version ≠ 1)
    (hi : t.pre.ins ≠ []) :
    ∃ bs, t.base = some bs ∧
      txHash H t = H (H (b.take (pOf t)) ++ H ((b.drop (pOf t)).take (qOf t - pOf t)) ++
                      (if bs.ty = 0 then zeroHash else H (b.drop (qOf t)))) := by
  obtain ⟨bs, hb, hz, hnz⟩ := parsed_shape b t [] h hv hi
  refine ⟨bs, hb, ?_⟩
  have hs := sound_tx b t [] h
  simp only [List.append_nil] at hs
  have hq : qOf t - pOf t = (encBase bs).length := by simp [qOf, hb]
  by_cases hty : bs.ty = 0
  · have hp := hz hty
    have hb' : b = encPrefix t.pre ++ encBase bs := by
      rw [hs]; simp [encTx, hv, hb, hp]
    rw [hq]
    simp only [txHash, hv, if_false, hb, hty, if_true, prefixHash, pOf]
    congr 1
    rw [hb']
    simp
  · obtain ⟨p, hp⟩ := hnz hty
    have hb' : b = encPrefix t.pre ++ (encBase bs ++ encPrunable p bs.ty) := by
      rw [hs]; simp [encTx, hv, hb, hp]
    have hq2 : qOf t = (encPrefix t.pre).length + (encBase bs).length := by simp [qOf, pOf, hb]
    rw [hq, hq2]
    simp only [txHash, hv, if_false, hb, hty, hp, prefixHash, pOf]
    congr 1
    rw [hb']
    have hd : List.drop ((encPrefix t.pre).length + (encBase bs).length) (encPrefix t.pre) = [] :=
      List.drop_eq_nil_of_le (by omega)
    simp [List.drop_append, hd]

/-- the identifier is a function of the received bytes alone: two strict parses of the same bytes cannot give
different identifiers, and equal identifiers' preimages are determined by `b` -/
theorem C05_function_of_bytes (H : Bytes → Bytes) (b : Bytes) (t t' : Tx) (h : tx b = some (t, [])) (h' : tx b = some (t', [])) :
    txHash H t = txHash H t' := by
  rw [h] at h'; cases h'; rfl

/-- the excluded point (recorded in DESIGN.md §8): a non-v1 transaction without inputs carries no RingCT data, and the
library's identifier is `H(H(prefix))` -/
theorem C05_no_inputs (H : Bytes → Bytes) (t : Tx) (hv : t.pre.version ≠ 1) (hb : t.base = none) :
    txHash H t = H (H (encPrefix t.pre)) := by
  simp [txHash, hv, hb, prefixHash]

example : ∃ t, tx [2, 0, 1, 0xff, 5, 0, 0, 0] = some (t, []) ∧ t.pre.version ≠ 1 ∧ t.pre.ins ≠ [] := by
  refine ⟨⟨⟨2, 0, [.gen 5], [], []⟩, [], some ⟨0, 0, [], [], []⟩, none⟩, by rfl, by decide, by simp⟩

/-! ## The decoder's output shape, with the type byte (clause "type is Null" read off the received bytes) -/

/-- `parsed_shape` plus the range of the type: the RingCT type of a parsed transaction is one of the seven (≤ 6), so that
`UInt8.ofNat bs.ty` determines it -/
theorem parsed_shape_ty (b : Bytes) (t : Tx) (r : Bytes) (h : tx b = some (t, r)) (hv : t.pre.version ≠ 1) (hi : t.pre.ins ≠ []) :
    ∃ bs, t.base = some bs ∧ bs.ty ≤ 6 := by
  unfold tx at h
  obtain ⟨p, r1, h1, h2⟩ := bind_some h
  simp only at h2
  split at h2
  · rename_i hv1
    obtain ⟨s, r2, _, h4⟩ := bind_some h2
    obtain ⟨rfl, _⟩ := pure_some h4
    exact absurd hv1 hv
  · split at h2
    · rename_i hz
      obtain ⟨rfl, _⟩ := pure_some h2
      simp at hz; exact absurd hz hi
    · obtain ⟨bs, r2, h3, h4⟩ := bind_some h2
      have hty6 := (sound_base _ _ _ _ _ h3).2
      split at h4
      · have fin : ∀ m pr r3, prunable bs.ty p.ins.length p.outs.length m r2 = some (pr, r3) →
            pure' (⟨p, [], some bs, pr⟩ : Tx) r3 = some (t, r) → ∃ bs', t.base = some bs' ∧ bs'.ty ≤ 6 := by
          intro m pr r3 _ hq
          obtain ⟨rfl, _⟩ := pure_some hq
          exact ⟨bs, rfl, hty6⟩
        cases hh : p.ins.head? with
        | none =>
          simp only [hh] at h4
          obtain ⟨pr, r3, h5, h6⟩ := bind_some h4
          exact fin _ _ _ h5 h6
        | some i0 =>
          cases i0 with
          | gen g =>
            simp only [hh] at h4
            obtain ⟨pr, r3, h5, h6⟩ := bind_some h4
            exact fin _ _ _ h5 h6
          | toKey a o k =>
            simp only [hh] at h4
            split at h4
            · exact (fail_some h4).elim
            · obtain ⟨pr, r3, h5, h6⟩ := bind_some h4
              exact fin _ _ _ h5 h6
      · obtain ⟨rfl, _⟩ := pure_some h4
        exact ⟨bs, rfl, hty6⟩

theorem ofNat_ty_zero (n : Nat) (h : n ≤ 6) : UInt8.ofNat n = 0 ↔ n = 0 := by
  have h' : n < 7 := by omega
  revert h'; revert n; decide

theorem encBase_ne_nil (bs : Base) : encBase bs = UInt8.ofNat bs.ty :: (encBase bs).tail := by
  simp [encBase]

/-! ## Embedded (non-strict) parses: `tx b = some (t, r)` with a remainder `r` — the situation of the miner transaction
inside a block (`Block::id` / `tx_root` hash exactly such a parse). `b' = b.take (|b| − |r|)` is the consumed part. -/

/-- the prefix hash of an embedded parse is `H` of the first `p` bytes received, and `p` lies inside the consumed part -/
theorem C05_prefix_hash_embedded (H : Bytes → Bytes) (b : Bytes) (t : Tx) (r : Bytes) (h : tx b = some (t, r)) :
    prefixHash H t.pre = H (b.take (pOf t)) ∧ pOf t ≤ b.length - r.length := by
  have hs := sound_tx b t r h
  subst hs
  constructor
  · unfold pOf prefixHash encTx
    simp
  · unfold pOf encTx
    simp only [List.length_append]; omega

/-- version 1, embedded parse: the identifier is `H` of exactly the consumed bytes -/
theorem C05_id_v1_embedded (H : Bytes → Bytes) (b : Bytes) (t : Tx) (r : Bytes) (h : tx b = some (t, r)) (hv : t.pre.version = 1) :
    b = b.take (b.length - r.length) ++ r ∧ txHash H t = H (b.take (b.length - r.length)) := by
  have hc := tx_consumed_prefix b t r h
  have hs := sound_tx b t r h
  rw [← hc]
  exact ⟨hs, by simp [txHash, hv]⟩

/-- RingCT transactions, embedded parse, with the Null test tied to the received byte: with `b'` the consumed part,
`p < q ≤ |b'|`, the byte at position `p` is the RingCT type (one of 0..6), and
id = H( H(b'[0..p]) ‖ H(b'[p..q]) ‖ (b'[p] = 0 ? 0^32 : H(b'[q..])) ) -/
theorem C05_id_rct_embedded (H : Bytes → Bytes) (b : Bytes) (t : Tx) (r : Bytes) (h : tx b = some (t, r))
    (hv : t.pre.version ≠ 1) (hi : t.pre.ins ≠ []) :
    ∃ bs, t.base = some bs ∧ bs.ty ≤ 6 ∧
      b = b.take (b.length - r.length) ++ r ∧ pOf t < qOf t ∧ qOf t ≤ b.length - r.length ∧
      b[pOf t]? = some (UInt8.ofNat bs.ty) ∧
      txHash H t = H (H ((b.take (b.length - r.length)).take (pOf t)) ++
                      H (((b.take (b.length - r.length)).drop (pOf t)).take (qOf t - pOf t)) ++
                      (if b[pOf t]? = some 0 then zeroHash else H ((b.take (b.length - r.length)).drop (qOf t)))) := by
  obtain ⟨bs, hb, hz, hnz⟩ := parsed_shape b t r h hv hi
  obtain ⟨bs', hb2, hty6⟩ := parsed_shape_ty b t r h hv hi
  rw [hb] at hb2; cases hb2
  refine ⟨bs, hb, hty6, ?_⟩
  have hc := tx_consumed_prefix b t r h
  have hs := sound_tx b t r h
  rw [← hc]
  have hq : qOf t - pOf t = (encBase bs).length := by simp [qOf, hb]
  have hq2 : qOf t = (encPrefix t.pre).length + (encBase bs).length := by simp [qOf, pOf, hb]
  have hlen : 1 ≤ (encBase bs).length := by rw [encBase_ne_nil]; simp
  have hbyte : ∀ (x : Bytes), (encPrefix t.pre ++ (encBase bs ++ x))[pOf t]? = some (UInt8.ofNat bs.ty) := by
    intro x
    unfold pOf
    rw [List.getElem?_append_right (Nat.le_refl _), Nat.sub_self, encBase_ne_nil]
    rfl
  by_cases hty : bs.ty = 0
  · have hp := hz hty
    have he : encTx t = encPrefix t.pre ++ encBase bs := by simp [encTx, hv, hb, hp]
    have hbb : b[pOf t]? = some (UInt8.ofNat bs.ty) := by
      rw [hs, he]; have := hbyte r; simpa [List.append_assoc] using this
    refine ⟨hs, by omega, ?_, hbb, ?_⟩
    · have : (encTx t).length = qOf t := by rw [he, hq2]; simp
      have hl : b.length = (encTx t).length + r.length := by rw [hs]; simp
      omega
    · have h0 : b[(encPrefix t.pre).length]? = some 0 := by have := hbb; rw [hty] at this; exact this
      rw [hq]
      simp only [txHash, hv, if_false, hb, hty, if_true, prefixHash, pOf, h0]
      congr 1
      rw [he]
      simp
  · obtain ⟨p, hp⟩ := hnz hty
    have he : encTx t = encPrefix t.pre ++ (encBase bs ++ encPrunable p bs.ty) := by simp [encTx, hv, hb, hp]
    have hbb : b[pOf t]? = some (UInt8.ofNat bs.ty) := by
      rw [hs, he]; have := hbyte (encPrunable p bs.ty ++ r); simpa [List.append_assoc] using this
    refine ⟨hs, by omega, ?_, hbb, ?_⟩
    · have : qOf t ≤ (encTx t).length := by rw [he, hq2]; simp only [List.length_append]; omega
      have hl : b.length = (encTx t).length + r.length := by rw [hs]; simp
      omega
    · have h0 : ¬ b[(encPrefix t.pre).length]? = some 0 := by
        show ¬ b[pOf t]? = some 0
        rw [hbb]; intro hc0
        exact hty ((ofNat_ty_zero bs.ty hty6).1 (Option.some.inj hc0))
      rw [hq, hq2]
      simp only [txHash, hv, if_false, hb, hty, hp, prefixHash, pOf, h0]
      congr 1
      rw [he]
      have hd : List.drop ((encPrefix t.pre).length + (encBase bs).length) (encPrefix t.pre) = [] :=
        List.drop_eq_nil_of_le (by omega)
      simp [List.drop_append, hd]

/-- the strict case in the same form: the Null test of `C05_id_rct` is a test of the received byte `b[p]`
(clause "all-zero hash when the type is Null", with the type read from the bytes) -/
theorem C05_id_rct_bytes (H : Bytes → Bytes) (b : Bytes) (t : Tx) (h : tx b = some (t, [])) (hv : t.pre.version ≠ 1)
    (hi : t.pre.ins ≠ []) :
    pOf t < qOf t ∧ qOf t ≤ b.length ∧
    txHash H t = H (H (b.take (pOf t)) ++ H ((b.drop (pOf t)).take (qOf t - pOf t)) ++
                    (if b[pOf t]? = some 0 then zeroHash else H (b.drop (qOf t)))) := by
  obtain ⟨bs, _, _, _, hpq, hql, _, hid⟩ := C05_id_rct_embedded H b t [] h hv hi
  simp only [List.length_nil, Nat.sub_zero, List.take_length] at hql hid
  exact ⟨hpq, hql, hid⟩

/-! ## The excluded point, tied to parsing -/

/-- a strictly parsed non-v1 transaction WITHOUT inputs carries no RingCT data at all (the decoder stops after the prefix:
`b` is exactly the prefix) and the library's identifier is `H(H(b))` — where the Monero formula would give
`H(H(prefix) ‖ H(base) ‖ …)` for the (non-existent) base; recorded as the excluded point in DESIGN.md §8 -/
theorem C05_no_inputs_parsed (H : Bytes → Bytes) (b : Bytes) (t : Tx) (h : tx b = some (t, [])) (hv : t.pre.version ≠ 1)
    (hi : t.pre.ins = []) :
    t.base = none ∧ t.prun = none ∧ b = encPrefix t.pre ∧ txHash H t = H (H b) := by
  have hs := sound_tx b t [] h
  simp only [List.append_nil] at hs
  have hb : t.base = none ∧ t.prun = none := by
    unfold tx at h
    obtain ⟨p, r1, h1, h2⟩ := bind_some h
    simp only at h2
    split at h2
    · rename_i hv1
      obtain ⟨s, r2, _, h4⟩ := bind_some h2
      obtain ⟨rfl, _⟩ := pure_some h4
      exact absurd hv1 hv
    · split at h2
      · obtain ⟨rfl, _⟩ := pure_some h2
        exact ⟨rfl, rfl⟩
      · rename_i hz
        obtain ⟨bs, r2, h3, h4⟩ := bind_some h2
        have hp : t.pre = p := by
          split at h4
          · cases hh : p.ins.head? with
            | none =>
              simp only [hh] at h4
              obtain ⟨pr, r3, _, h6⟩ := bind_some h4
              obtain ⟨rfl, _⟩ := pure_some h6; rfl
            | some i0 =>
              cases i0 with
              | gen g =>
                simp only [hh] at h4
                obtain ⟨pr, r3, _, h6⟩ := bind_some h4
                obtain ⟨rfl, _⟩ := pure_some h6; rfl
              | toKey a o k =>
                simp only [hh] at h4
                split at h4
                · exact (fail_some h4).elim
                · obtain ⟨pr, r3, _, h6⟩ := bind_some h4
                  obtain ⟨rfl, _⟩ := pure_some h6; rfl
          · obtain ⟨rfl, _⟩ := pure_some h4; rfl
        rw [hp] at hi
        simp [hi] at hz
  have he : b = encPrefix t.pre := by rw [hs]; simp [encTx, hv, hb.1]
  refine ⟨hb.1, hb.2, he, ?_⟩
  rw [C05_no_inputs H t hv hb.1, ← he]

/-! ## Against the independent by-the-book specification (Spec/Wire.lean: `specTxId`, `specPrefixHash`)

`Spec.specTxId` is written over DESCRIPTIONS with the boundaries of the format itself (`specPrefix`, `specBase`, `specPrunable` are
three separately written concatenations); it mentions neither the model nor its encoder. These theorems make `p`, `q` "known from the
format": they are `|specPrefix d|` and `|specPrefix d| + |specBase r|`. -/

/-- the model of `Transaction::hash` / `TransactionPrefix::hash` applied to the value a description denotes gives the by-the-book
identifier and prefix hash — for EVERY description with RingCT data or version 1 (no well-shapedness needed); BulletproofPlus below
128 proofs (beyond that the library's prunable bytes are not Monero's: known finding of C03, which also moves the identifier) -/
theorem C05_id_eq_spec (H : Bytes → Bytes) (d : Spec.TxD) (hb : C03.BppSmall d) (hne : d.body ≠ .v2 none) :
    some (txHash H (build d)) = Spec.specTxId H d ∧ prefixHash H (build d).pre = Spec.specPrefixHash H d := by
  have hpre : prefixHash H (build d).pre = Spec.specPrefixHash H d := by
    unfold prefixHash Spec.specPrefixHash; rw [C03.C03_prefix_eq_spec]
  refine ⟨?_, hpre⟩
  have henc := C03.C03_enc_eq_spec d hb
  have hpe := C03.C03_prefix_eq_spec d
  obtain ⟨unlock, ins, outs, extra, body⟩ := d
  cases body with
  | v1 sigs =>
    simp only [Spec.specTxId]
    have hv : (build ⟨unlock, ins, outs, extra, .v1 sigs⟩).pre.version = 1 := rfl
    simp only [txHash, hv, if_true, henc]
  | v2 r =>
    cases r with
    | none => exact absurd rfl hne
    | some r =>
      have hv : ¬ (build ⟨unlock, ins, outs, extra, .v2 (some r)⟩).pre.version = 1 := by
        show ¬ (2 : Nat) = 1; decide
      have hbase : (build ⟨unlock, ins, outs, extra, .v2 (some r)⟩).base = some (buildBase r) := rfl
      have hprun : (build ⟨unlock, ins, outs, extra, .v2 (some r)⟩).prun = buildPrunable r := rfl
      simp only [Spec.specTxId, txHash, hv, if_false, hbase, hprun, prefixHash, hpe, encBase_spec]
      have hbpp : ∀ fee e o bpps cls po, r = .bpplus fee e o bpps cls po → bpps.length < 128 :=
        fun fee e o bpps cls po hr => hb fee e o bpps cls po (by rw [hr])
      cases r with
      | null => simp [buildBase, zeroHash, Spec.zeros32]
      | full fee ecdh outPk rs mg =>
        have := encPrunable_spec (.full fee ecdh outPk rs mg) _ rfl hbpp
        simp only [buildBase] at this; simp [buildBase, buildPrunable, this]
      | simple fee po ecdh outPk rs mgs =>
        have := encPrunable_spec (.simple fee po ecdh outPk rs mgs) _ rfl hbpp
        simp only [buildBase] at this; simp [buildBase, buildPrunable, this]
      | bulletproof fee ecdh outPk bps mgs po =>
        have := encPrunable_spec (.bulletproof fee ecdh outPk bps mgs po) _ rfl hbpp
        simp only [buildBase] at this; simp [buildBase, buildPrunable, this]
      | bulletproof2 fee ecdh outPk bps mgs po =>
        have := encPrunable_spec (.bulletproof2 fee ecdh outPk bps mgs po) _ rfl hbpp
        simp only [buildBase] at this; simp [buildBase, buildPrunable, this]
      | clsag fee ecdh outPk bps cls po =>
        have := encPrunable_spec (.clsag fee ecdh outPk bps cls po) _ rfl hbpp
        simp only [buildBase] at this; simp [buildBase, buildPrunable, this]
      | bpplus fee ecdh outPk bpps cls po =>
        have := encPrunable_spec (.bpplus fee ecdh outPk bpps cls po) _ rfl hbpp
        simp only [buildBase] at this; simp [buildBase, buildPrunable, this]

/-- length of the RingCT base of a description (0 when there is none): the distance `q − p` of the format -/
def baseLenD (d : Spec.TxD) : Nat := match d.body with | .v2 (some r) => (Spec.specBase r).length | _ => 0

/-- byte-level form: the by-the-book bytes of a well-shaped description (within the decoder's caps) parse strictly, the parsed
value's identifier and prefix hash are the by-the-book ones, and the boundaries used by `C05_prefix_hash` / `C05_id_rct` are the
format's: `p = |specPrefix d|`, `q = p + |specBase r|` -/
theorem C05_id_spec_bytes (H : Bytes → Bytes) (d : Spec.TxD) (hb : C03.BppSmall d) (h : Spec.WFTxD d) (hc : CapD d)
    (hne : d.body ≠ .v2 none) :
    ∃ t, tx (Spec.specTx d) = some (t, []) ∧ some (txHash H t) = Spec.specTxId H d ∧
      prefixHash H t.pre = Spec.specPrefixHash H d ∧
      pOf t = (Spec.specPrefix d).length ∧ qOf t = (Spec.specPrefix d).length + baseLenD d := by
  have hd := C03.C03_dec_spec_desc d hb h hc []
  rw [List.append_nil] at hd
  obtain ⟨h1, h2⟩ := C05_id_eq_spec H d hb hne
  refine ⟨build d, hd, h1, h2, ?_, ?_⟩
  · unfold pOf; rw [C03.C03_prefix_eq_spec]
  · unfold qOf pOf baseLenD; rw [C03.C03_prefix_eq_spec]
    obtain ⟨unlock, ins, outs, extra, body⟩ := d
    cases body with
    | v1 s => rfl
    | v2 r => cases r with
      | none => rfl
      | some r => simp only [build]; rw [encBase_spec]

/- non-vacuity: hypotheses of `C05_id_rct` / `C05_id_rct_embedded` / `C05_id_spec_bytes` are satisfiable with a NON-Null type
(the Clsag description of Props/C03.lean: one key input of ring size 2, one tagged output, one Bulletproof) -/
example : ∃ (d : Spec.TxD) (t : Tx), Spec.WFTxD d ∧ CapD d ∧ C03.BppSmall d ∧ d.body ≠ .v2 none ∧
    tx (Spec.specTx d) = some (t, []) ∧ t.pre.version ≠ 1 ∧ t.pre.ins ≠ [] ∧ ∃ bs, t.base = some bs ∧ bs.ty = 5 := by
  let k : Spec.B := List.replicate 32 7
  let bp : Spec.BpD := ⟨k, k, k, k, k, k, [k, k], [k, k], k, k, k⟩
  let d : Spec.TxD := ⟨0, [.key 0 [5, 1] k], [⟨0, k, some 9⟩], [1, 2, 3],
    .v2 (some (.clsag 1000 [List.replicate 8 0] [k] [bp] [⟨[k, k], k, k⟩] [k]))⟩
  have hk : Spec.is32 k := rfl
  have hw : Spec.WFTxD d := by
    simp [Spec.WFTxD, d, bp, Spec.WFIn, Spec.WFOut, Spec.WFBody, Spec.WFRct, Spec.WFBp, Spec.WFClsag, Spec.WFEcdh8,
      Spec.all32, Spec.u64, Spec.ringSize, hk]
  have hc : CapD d := by
    simp [CapD, CapBody, CapRct, CapBp, CapIn, capN, d, bp, CAP, Gen.CAP, sizes, Gen.sizes]
  have hb : C03.BppSmall d := by
    intro fee e o bpps cls po h; simp [d] at h
  have hd := C03.C03_dec_spec_desc d hb hw hc []
  rw [List.append_nil] at hd
  exact ⟨d, build d, hw, hc, hb, by simp [d], hd, by decide, by simp [build, buildPrefix, d], ⟨_, rfl, rfl⟩⟩

/- non-vacuity of `C05_no_inputs_parsed`: `02 00 00 00 00` parses strictly to a version-2 transaction without inputs -/
example : ∃ t, tx [2, 0, 0, 0, 0] = some (t, []) ∧ t.pre.version ≠ 1 ∧ t.pre.ins = [] := by
  refine ⟨⟨⟨2, 0, [], [], []⟩, [], none, none⟩, by rfl, by decide, rfl⟩

/- non-vacuity of the embedded theorems: the Null coinbase transaction followed by two more bytes -/
example : ∃ t, tx [2, 0, 1, 0xff, 5, 0, 0, 0, 7, 7] = some (t, [7, 7]) ∧ t.pre.version ≠ 1 ∧ t.pre.ins ≠ [] := by
  refine ⟨⟨⟨2, 0, [.gen 5], [], []⟩, [], some ⟨0, 0, [], [], []⟩, none⟩, by rfl, by decide, by simp⟩
end C05
