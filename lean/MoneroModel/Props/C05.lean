import MoneroModel.Model.TxHash
import MoneroModel.Proofs.TxSound4
open Monero
/-! # C05 — transaction identifier and prefix hash follow the Monero definition

For a strictly parsed transaction `tx b = some (t, [])` the identifier computed from the parsed value is the Monero
formula over byte ranges of `b` itself, with `p = |prefix|` and `q = p + |RingCT base|` the format's boundaries.
`H` is an arbitrary function (Keccak-256 in the code; C17). -/
namespace C05

/-- boundaries of a parsed transaction: end of prefix, end of RingCT base -/
def pOf (t : Tx) : Nat := (encPrefix t.pre).length
def qOf (t : Tx) : Nat := pOf t + (match t.base with | some b => (encBase b).length | none => 0)

theorem parsed_split (b : Bytes) (t : Tx) (h : tx b = some (t, [])) :
    b = encPrefix t.pre ++ (b.drop (pOf t)) ∧ b.take (pOf t) = encPrefix t.pre := by
  have := sound_tx b t [] h
  simp only [List.append_nil] at this
  subst this
  unfold pOf encTx
  simp

/-- the prefix hash is Keccak of the first `p` bytes received -/
theorem C05_prefix_hash (H : Bytes → Bytes) (b : Bytes) (t : Tx) (h : tx b = some (t, [])) :
    prefixHash H t.pre = H (b.take (pOf t)) := by
  rw [(parsed_split b t h).2]; rfl

/-- version 1: the identifier is Keccak of the whole serialisation received -/
theorem C05_id_v1 (H : Bytes → Bytes) (b : Bytes) (t : Tx) (h : tx b = some (t, [])) (hv : t.pre.version = 1) :
    txHash H t = H b := by
  have := sound_tx b t [] h
  simp only [List.append_nil] at this
  simp [txHash, hv, this]

/-- what the decoder guarantees about a parsed non-v1 transaction with at least one input: the RingCT base is
present, and the prunable part is present exactly when the type is not Null (so the hard-coded "empty" constant of
`Transaction::hash` is unreachable for parsed transactions) -/
theorem parsed_shape (b : Bytes) (t : Tx) (r : Bytes) (h : tx b = some (t, r)) (hv : t.pre.version ≠ 1) (hi : t.pre.ins ≠ []) :
    ∃ bs, t.base = some bs ∧ (bs.ty = 0 → t.prun = none) ∧ (bs.ty ≠ 0 → ∃ p, t.prun = some p) := by
  unfold tx at h
  obtain ⟨p, r1, h1, h2⟩ := bind_some h
  have cp := sound_prefix _ _ _ h1
  simp only at h2
  split at h2
  · rename_i hv1
    obtain ⟨s, r2, _, h4⟩ := bind_some h2
    obtain ⟨rfl, _⟩ := pure_some h4
    exact absurd hv1 hv
  · split at h2
    · rename_i hz
      obtain ⟨rfl, _⟩ := pure_some h2
      simp at hz; exact absurd hz hi
    · obtain ⟨bs, r2, h3, h4⟩ := bind_some h2
      split at h4
      · rename_i hty
        have fin : ∀ m pr r3, prunable bs.ty p.ins.length p.outs.length m r2 = some (pr, r3) →
            pure' (⟨p, [], some bs, pr⟩ : Tx) r3 = some (t, r) →
            ∃ bs', t.base = some bs' ∧ (bs'.ty = 0 → t.prun = none) ∧ (bs'.ty ≠ 0 → ∃ q, t.prun = some q) := by
          intro m pr r3 hp hq
          obtain ⟨rfl, _⟩ := pure_some hq
          rcases sound_prunable _ _ _ _ _ _ _ hp with ⟨h0, _, _⟩ | ⟨_, q, rfl, _⟩
          · exact absurd h0 hty
          · exact ⟨bs, rfl, fun h0 => absurd h0 hty, fun _ => ⟨q, rfl⟩⟩
        cases hh : p.ins.head? with
        | none =>
          simp only [hh] at h4
          obtain ⟨pr, r3, h5, h6⟩ := bind_some h4
          exact fin _ _ _ h5 h6
        | some i0 =>
          cases i0 with
          | gen g =>
            simp only [hh] at h4
            obtain ⟨pr, r3, h5, h6⟩ := bind_some h4
            exact fin _ _ _ h5 h6
          | toKey a o k =>
            simp only [hh] at h4
            split at h4
            · exact (fail_some h4).elim
            · obtain ⟨pr, r3, h5, h6⟩ := bind_some h4
              exact fin _ _ _ h5 h6
      · rename_i hty
        obtain ⟨rfl, _⟩ := pure_some h4
        exact ⟨bs, rfl, fun _ => rfl, fun h0 => absurd (by simpa using hty) h0⟩

/-- RingCT transactions (version ≠ 1, at least one input, any of the seven types):
id = H( H(b[0..p]) ‖ H(b[p..q]) ‖ (type = Null ? 0^32 : H(b[q..])) ) -/
theorem C05_id_rct (H : Bytes → Bytes) (b : Bytes) (t : Tx) (h : tx b = some (t, [])) (hv : t.pre.version ≠ 1)
    (hi : t.pre.ins ≠ []) :
    ∃ bs, t.base = some bs ∧
      txHash H t = H (H (b.take (pOf t)) ++ H ((b.drop (pOf t)).take (qOf t - pOf t)) ++
                      (if bs.ty = 0 then zeroHash else H (b.drop (qOf t)))) := by
  obtain ⟨bs, hb, hz, hnz⟩ := parsed_shape b t [] h hv hi
  refine ⟨bs, hb, ?_⟩
  have hs := sound_tx b t [] h
  simp only [List.append_nil] at hs
  have hq : qOf t - pOf t = (encBase bs).length := by simp [qOf, hb]
  by_cases hty : bs.ty = 0
  · have hp := hz hty
    have hb' : b = encPrefix t.pre ++ encBase bs := by
      rw [hs]; simp [encTx, hv, hb, hp]
    rw [hq]
    simp only [txHash, hv, if_false, hb, hty, if_true, prefixHash, pOf]
    congr 1
    rw [hb']
    simp
  · obtain ⟨p, hp⟩ := hnz hty
    have hb' : b = encPrefix t.pre ++ (encBase bs ++ encPrunable p bs.ty) := by
      rw [hs]; simp [encTx, hv, hb, hp]
    have hq2 : qOf t = (encPrefix t.pre).length + (encBase bs).length := by simp [qOf, pOf, hb]
    rw [hq, hq2]
    simp only [txHash, hv, if_false, hb, hty, hp, prefixHash, pOf]
    congr 1
    rw [hb']
    have hd : List.drop ((encPrefix t.pre).length + (encBase bs).length) (encPrefix t.pre) = [] :=
      List.drop_eq_nil_of_le (by omega)
    simp [List.drop_append, hd]

/-- the identifier is a function of the received bytes alone: two strict parses of the same bytes cannot give
different identifiers, and equal identifiers' preimages are determined by `b` -/
theorem C05_function_of_bytes (H : Bytes → Bytes) (b : Bytes) (t t' : Tx) (h : tx b = some (t, [])) (h' : tx b = some (t', [])) :
    txHash H t = txHash H t' := by
  rw [h] at h'; cases h'; rfl

/-- the excluded point (recorded in DESIGN.md §8): a non-v1 transaction without inputs carries no RingCT data, and the
library's identifier is `H(H(prefix))` -/
theorem C05_no_inputs (H : Bytes → Bytes) (t : Tx) (hv : t.pre.version ≠ 1) (hb : t.base = none) :
    txHash H t = H (H (encPrefix t.pre)) := by
  simp [txHash, hv, hb, prefixHash]

example : ∃ t, tx [2, 0, 1, 0xff, 5, 0, 0, 0] = some (t, []) ∧ t.pre.version ≠ 1 ∧ t.pre.ins ≠ [] := by
  refine ⟨⟨⟨2, 0, [.gen 5], [], []⟩, [], some ⟨0, 0, [], [], []⟩, none⟩, by rfl, by decide, by simp⟩
end C05
