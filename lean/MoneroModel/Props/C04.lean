import MoneroModel.Proofs.LedgerInst
import MoneroModel.Proofs.LedgerTx
import MoneroModel.Proofs.BlockSound
import MoneroModel.Props.C06
import MoneroModel.Props.C16
import MoneroModel.Props.C14
import MoneroModel.Proofs.PanicsProofs
import MoneroModel.Proofs.ExtraLen
import MoneroModel.Proofs.PanicsTx
import MoneroModel.Proofs.PanicsFmt
open Monero Ledger
/-! # C04 — no input can panic, hang or exhaust memory (PARTIAL: see below)

What is proved here is about the *model*: (1) decoders return vectors within the allocation cap, so the tree-hash
precondition holds for every parsed block and its Merkle root computation cannot hit an assert; (2) the loops that are
not bounded by a count terminate (VarInt consumes at most 10 bytes; the extra-field loop is C16_total); (3) the
allocation ledger: decoders annotated with the heap they allocate (`with_capacity` after the cap check, push-grown vectors,
the uncapped scratch vector of the VarInt decoder, earlier values alive while later ones are read) stay within
`A + B·(bytes looked at)`, the bound being closed under sequencing, repetition and capped vectors, and instantiated on the
whole transaction / block decoder with decoders proved to compute the same values as the model decoders.
(4) the data-dependent panic sites of the address byte parser, the amount text parser, the padding loop, the VarInt
accumulation and the ring-size computation are made EXPLICIT (Model/Panics.lean: every slice, index, `str` slice and
machine-integer `+`/`-` returns `panic site` when its precondition fails) and proved unreachable for every input, the
panic-explicit functions being proved equal to the total models that the correspondence check ties to the code.
What a theorem about the model cannot exhibit — panics inside dependencies, stack exhaustion, allocator / OS behaviour,
real time — is observed by the isolated runs of the harness (child process, catch_unwind, time limit, counting allocator). -/
namespace C04

/-- every capped vector decoder returns exactly the declared number of elements, and that number respects the cap -/
theorem C04_vec_cap {α} (sz : Nat) (d : Dec α) (n : Nat) (b : Bytes) (xs : List α) (r : Bytes)
    (h : sizedVec sz d n b = some (xs, r)) : xs.length = n ∧ n * sz ≤ CAP := by
  refine ⟨sizedVec_length sz d n b xs r h, ?_⟩
  unfold sizedVec at h
  split at h
  · exact (fail_some h).elim
  · omega

theorem vec_cap {α} (sz : Nat) (d : Dec α) (b : Bytes) (xs : List α) (r : Bytes)
    (h : vec sz d b = some (xs, r)) : xs.length * sz ≤ CAP := by
  unfold vec at h
  obtain ⟨n, r1, _, h2⟩ := bind_some h
  obtain ⟨hl, hc⟩ := C04_vec_cap sz d n r1 xs r h2
  rw [hl]; exact hc

/-- a parsed block lists at most CAP/32 = 2^20 hashes, far below the 2^28 limit asserted by `tree_hash_cnt` -/
theorem C04_treehash_pre (b : Bytes) (blk : Block) (r : Bytes) (h : block b = some (blk, r)) :
    blk.hashes.length + 1 ≤ 2^28 := by
  unfold block at h
  obtain ⟨hd, r1, _, h⟩ := bind_some h
  obtain ⟨t, r2, _, h⟩ := bind_some h
  obtain ⟨hs, r3, h3, h⟩ := bind_some h
  obtain ⟨rfl, rfl⟩ := pure_some h
  have := vec_cap sizes.key key r2 hs r3 h3
  -- robust to changes of the cap and of the layout: only `1 ≤ size_of::<Hash>()` and `CAP < 2^28` are used
  have hk : 1 ≤ sizes.key := by decide
  have hc : CAP + 1 ≤ 2^28 := by decide
  have : hs.length ≤ hs.length * sizes.key := Nat.le_mul_of_pos_right _ hk
  show hs.length + 1 ≤ 2^28
  omega

/-- hence the Merkle root / block id of every parsed block is computed without hitting an assert or a bad index
(`none` = panic in the model of `tree_hash`) -/
theorem C04_parsed_block_root_no_panic (H : Bytes → Bytes) (b : Bytes) (blk : Block) (r : Bytes)
    (h : block b = some (blk, r)) (minerHash : Bytes) :
    TreeHash.treeHash H minerHash blk.hashes = some (Spec.TreeHash.treeSpec H (minerHash :: blk.hashes)) :=
  C06.C06_tree_eq_spec H minerHash blk.hashes (C04_treehash_pre b blk r h)

/-- a VarInt that DECODES consumed between 1 and 10 bytes (on a failing input the group loop of the Rust reads on until a byte
without continuation bit or the end of the input: bounded by the input, not by 10) -/
theorem C04_varint_bounded (b : Bytes) (n : Nat) (r : Bytes) (h : varint b = some (n, r)) :
    1 ≤ b.length - r.length ∧ b.length - r.length ≤ 10 := by
  have hs := sound_varint b n r h
  have hlt := varint_lt b n r h
  have hb := (C14.C14_len n)
  rw [encVarintImp_eq] at hb
  simp only at hb
  obtain ⟨h1, _, _, h4⟩ := hb
  have := h4 hlt
  rw [hs]
  simp; omega

/-- the extra-field loop terminates on every input (every iteration consumes at least one byte) -/
theorem C04_extra_total (vk : Bytes → Bool) (e : Bytes) (fuel : Nat) (hf : e.length ≤ fuel) :
    Extra.loop vk fuel e [] false 0 = some (Extra.tryParse vk e) :=
  (C16.C16_total vk e).2 fuel hf

/-! ## Allocation ledger (Model/Ledger.lean)

WHAT THE LEDGER COUNTS. The instrumented decoders charge: every `Vec::with_capacity(n)` reservation (after its cap check), every
push-grown vector (`GROW = 4` times the element size per element), and — since the review — the scratch vector
`res: Vec<u8>` of `VarInt::consensus_decode`, the one allocation of the decoders that NO cap protects (it grows with the
input: `max 8 (4·k)` bytes while `k` groups are held, on the successful and on every failing path; nothing afterwards).
WHAT IT OMITS: the input buffer, the reader, error values, the stack, allocator bookkeeping / fragmentation, and whatever the
public operations on a parsed value allocate — those are observed by the isolated runs only. `live = 0` after a failure is the
drop semantics ASSUMED in the combinators (`rbind`, `rvecN`, `rcharge`, `ralloc`, `rvarint` all return `⟨none, p, 0⟩`), i.e.
"an `Err` return drops every local": an assumption of the ledger about Rust, not a fact derived about the decoder.
The driver prints the ledger's peak (`c04_ledger`), and the harness holds the measured peak heap of the real parse to it. -/

/-- allocation ledger, closure: sequencing keeps the bound; a capped pre-allocating vector adds one CAP to the constant
and `size_of::<T>()` to the slope -/
theorem C04_alloc_bind {α β} {A B : Nat} {d : RDec α} {f : α → RDec β}
    (hd : Bounded A B d) (hf : ∀ x, Bounded A B (f x)) : Bounded A B (rbind d f) := bounded_bind hd hf
theorem C04_alloc_vec {α} {A B sz : Nat} {d : RDec α} (hd : Bounded A B d)
    (hmin : ∀ b x r, (d b).val = some (x, r) → r.length + 1 ≤ b.length) (n : Nat) :
    Bounded (A + CAP) (B + sz) (rvecN CAP sz d n) := bounded_vecN (w := 1) hd (Nat.le_refl 1) hmin n

/-- the VarInt decoder alone: the instrumented decoder computes the model's value, its scratch vector never exceeds 8 bytes per
byte it has looked at (consumed on success; possibly the WHOLE input on failure), and nothing is kept when it returns -/
theorem C04_alloc_bound_varint (b : Bytes) :
    (rvarint b).val = varint b ∧ (rvarint b).peak ≤ 8 * b.length ∧ (rvarint b).live = 0 := by
  refine ⟨rfl, ?_, rfl⟩
  have hp := bounded_rvarint.peak b
  have hu : used b (rvarint b) ≤ b.length := by unfold used; split <;> omega
  have := Nat.mul_le_mul_left VSLOPE hu
  have hv : VSLOPE = 8 := rfl
  rw [hv] at this hp
  omega

/-- the charge is not vacuous: on `0xff^n` — a VarInt that never ends — the transaction and the block decoder fail, and the
ledger reports the scratch vector that the Rust holds at that moment, `max 8 (4·n)` bytes for `n ≥ 1` (before the review
the ledger said 0 here) -/
theorem C04_alloc_ledger_counts_varint_scratch (n : Nat) (hn : 1 ≤ n) :
    (rtx (List.replicate n 0xff)).val = none ∧ (rtx (List.replicate n 0xff)).peak = max 8 (4 * n) ∧
    (rblock (List.replicate n 0xff)).val = none ∧ (rblock (List.replicate n 0xff)).peak = max 8 (4 * n) := by
  have h := ledger_ff n
  have e : scratchU8 n = max 8 (4 * n) := by unfold scratchU8 GROW; rw [if_neg (by omega)]
  rw [e] at h; exact h
example : (1 : Nat) ≤ 1048576 := by decide

/-- allocation ledger, instance: decoding the inputs vector of a transaction (`Vec<TxIn>`, each key input holding a
`Vec<VarInt>`) — the instrumented decoder computes exactly the model's result, and at every moment of the decode the
heap the ledger counts is at most `2·CAP + (8 + size_of VarInt + size_of TxIn)·(bytes looked at)`, whether it succeeds or
fails (8: the VarInt scratch vector) -/
theorem C04_alloc_bound_inputs (b : Bytes) :
    (rvecTxIn b).val = vec sizes.txin txin b ∧
    (rvecTxIn b).peak ≤ 2 * CAP + (8 + sizes.varint + sizes.txin) * b.length := by
  refine ⟨rvecTxIn_val b, ?_⟩
  have hp := bounded_rvecTxIn.peak b
  have hu : used b (rvecTxIn b) ≤ b.length := by
    unfold used; split <;> omega
  have := Nat.mul_le_mul_left (VSLOPE + sizes.varint + sizes.txin) hu
  have hv : VSLOPE = 8 := rfl
  rw [hv] at this hp
  omega

/-- allocation ledger for the WHOLE transaction decoder (prefix, v1 signature rows, RingCT base, all prunable layouts): the
instrumented decoder `rtx` — `with_capacity` reservations charged after their cap check, push-grown vectors (ecdh info, CLSAGs,
MLSAGs, signature rows) charged with growth factor 4, the scratch vector of every VarInt charged while that VarInt is decoded,
earlier fields alive while later ones are read — computes exactly the model's result, and at every moment of the decode the heap
the ledger counts is at most `2·CAP + 96·|b|`, on success and on failure -/
theorem C04_alloc_bound_tx (b : Bytes) :
    (rtx b).val = tx b ∧ (rtx b).peak ≤ 2 * CAP + 96 * b.length := alloc_bound_tx b
/-- … and for blocks (header, miner transaction, hash list) -/
theorem C04_alloc_bound_block (b : Bytes) :
    (rblock b).val = block b ∧ (rblock b).peak ≤ 2 * CAP + 96 * b.length := alloc_bound_block b
/-- … and for the stand-alone transaction prefix (`deserialize::<TransactionPrefix>`): the instrumented decoder computes the
model's result and stays within `2·CAP + 48·|b|`. (Third conjunct: the ledger keeps nothing after a failure — this is the drop
semantics assumed in the combinators, read back; see the section header.) -/
theorem C04_alloc_bound_prefix (b : Bytes) :
    (rprefix b).val = prefix' b ∧ (rprefix b).peak ≤ 2 * CAP + 48 * b.length ∧ ((rprefix b).val = none → (rprefix b).live = 0) := by
  refine ⟨rprefix_val b, ?_, bounded_rprefix.live_fail b⟩
  have hp := bounded_rprefix.peak b
  have hu : used b (rprefix b) ≤ b.length := by unfold used; split <;> omega
  have := Nat.mul_le_mul_left Bprefix hu
  have hv : Bprefix = 48 := rfl
  rw [hv] at this hp
  omega
/-- after a failed parse of a transaction or block the ledger holds nothing: by the drop semantics ASSUMED in the combinators
(every combinator returns `live = 0` with `none`), not by an argument about the decoder -/
theorem C04_alloc_released (b : Bytes) :
    ((rtx b).val = none → (rtx b).live = 0) ∧ ((rblock b).val = none → (rblock b).live = 0) :=
  ⟨alloc_released_tx b, alloc_released_block b⟩

/-- the same for the inputs vector (assumed drop semantics, read back) -/
theorem C04_alloc_released_on_error (b : Bytes) (h : (rvecTxIn b).val = none) : (rvecTxIn b).live = 0 :=
  bounded_rvecTxIn.live_fail b h
example : (rvecTxIn []).val = none := by decide

/-- `From<ExtraField> for RawExtraField` is `deserialize(&serialize(&extra)).unwrap()`; in the model `toRaw fs = none` is
that `unwrap` panicking (the re-serialisation exceeds the allocation cap of the `Vec<u8>` decoder). For an `ExtraField`
obtained by PARSING a raw extra that respected the cap — whatever the bytes, whether or not parsing reported success — the
re-serialisation is never longer than the input (every decoded sub-field re-encodes to exactly the bytes it consumed:
`subFieldRd_len`), so the conversion back to raw bytes cannot panic. -/
theorem C04_raw_from_parsed_extra_no_panic (vk : Bytes → Bool) (e : Bytes) (hc : e.length ≤ CAP) :
    (Extra.encFields (Extra.tryParse vk e).fields).length ≤ e.length ∧
    Extra.toRaw (Extra.tryParse vk e).fields = some (Extra.encFields (Extra.tryParse vk e).fields) :=
  ⟨Extra.tryParse_len vk e, Extra.toRaw_parsed vk e hc⟩

/-! ## Explicit panic sites (Model/Panics.lean) are unreachable -/
open Monero.Panics in
/-- `Address::from_bytes` / `AddressType::from_slice`: none of the ten index and slice expressions — `bytes[0]` and
`&bytes[65..73]` in `AddressType::from_slice`; `bytes[0]`, `&bytes[1..33]`, `&bytes[33..65]`, `&bytes[0..65]`, `&bytes[65..69]`,
`&bytes[0..73]`, `&bytes[73..77]`, `&verify_checksum[0..4]` in `Address::from_bytes` (the source writes `&bytes[65..73]` three times,
once per network arm: twelve textual occurrences) — can be out of bounds, and the length
assertion of `PaymentId::from_slice` on the payment-id slice holds, for any blob, hash function with at least 4 output bytes and key
predicate; the bounds of the payment-id slice come from the table regenerated from the source. The panic-explicit parser
returns exactly what the C12 model returns. -/
theorem C04_no_panic_address (H : Bytes → Bytes) (vk : Bytes → Bool) (hH : ∀ x, 4 ≤ (H x).length) (bytes : Bytes) :
    (fromBytesP H vk bytes).isPanic = false ∧ (fromBytesP H vk bytes).toOption = Address.fromBytes H vk bytes := by
  refine ⟨fromBytesP_no_panic H vk hH bytes, ?_⟩
  rw [fromBytesP_eq H vk hH]; cases Address.fromBytes H vk bytes <;> rfl
open Monero.Panics in
theorem C04_no_panic_address_type (net : Net) (bytes : Bytes) :
    (addrTypeOfP net bytes).isPanic = false ∧ (addrTypeOfP net bytes).toOption = addrTypeOf net bytes := by
  refine ⟨addrTypeOfP_no_panic net bytes, ?_⟩
  rw [addrTypeOfP_eq]; cases addrTypeOf net bytes <;> rfl

open Monero.Panics in
/-- `parse_signed_to_piconero` on any `&str` (any byte string that is a sequence of UTF-8 characters): `&s[1..]` and
`&s[0..s.len() - last_n]` are in range and on character boundaries, `s.len() - last_n` does not underflow, and the `i32`
/ `u8` arithmetic (`-precision`, `c as u8 - b'0'`, `d + 1`, `max_decimals - decimals`) stays in range; the result is the
C15 model's. -/
theorem C04_no_panic_amount_parser (s : Bytes) (d : Denom) (hu : Utf8 s) :
    (parseSignedToPiconeroP s d).isPanic = false ∧
    (parseSignedToPiconeroP s d).toOption = Out.ofExcept (AmtText.parseSignedToPiconero s d) := by
  refine ⟨parseSignedToPiconeroP_no_panic s d hu, ?_⟩
  rw [parseSignedToPiconeroP_eq s d hu]; cases AmtText.parseSignedToPiconero s d <;> rfl

open Monero.Panics in
/-- the `u8` counter `i += 1` of the padding loop never overflows (at most 255 iterations from 0), and the loop computes
what the C16 model computes -/
theorem C04_no_panic_padding (b : Bytes) :
    padLoopP 255 0 b = liftRd (Extra.padLoop 255 0 b) ∧ ∀ o r, padLoopP 255 0 b = (some o, r) → o.isPanic = false :=
  ⟨padLoopP_eq 255 0 b (by omega), padLoopP_no_panic b⟩

open Monero.Panics in
/-- `VarInt::consensus_decode`: its one panic site, `res.split_last().unwrap()`, always finds a group on every input on which
the group loop ends; and the value is the C14 model's — which includes that the shift `int << 7` (a WRAPPING shift in the
panic-explicit model: a constant shift never panics, it silently drops bits) loses no set bit. The second fact is a statement
about the value, not about a panic site. -/
theorem C04_no_panic_varint (b : Bytes) (gs : List Nat) (r : Bytes) (h : collect b [] = some (gs, r)) :
    (accumP gs.reverse 0).isPanic = false ∧ (accumP gs.reverse 0).toOption = accum gs.reverse 0 := by
  rw [varint_accum_no_panic b gs r h]; cases accum gs.reverse 0 <;> exact ⟨rfl, rfl⟩
example : collect [0x81, 0x01] [] = some ([1, 1], []) := by decide
example : (Panics.accumP [] 0).isPanic = true := by decide

open Monero.Panics in
/-- `&prefix.inputs[0]` in `Transaction::consensus_decode`. The index expression ALONE (`mixinAtP`: the `match &prefix.inputs[0]
{ … }` without what precedes it in the source) panics exactly on the empty input list — the site CAN fire; under the guard the
source puts around it (`if inputs > 0 { … } else { 0 }`) it cannot, and the guarded expression computes the ring size with
`checked_sub` (zero ring members is an error, not an underflow). `txP` (see `C04_no_panic_tx`) uses exactly this guarded form. -/
theorem C04_no_panic_ring_size (ins : List TxIn) :
    ((mixinAtP ins).isPanic = true ↔ ins = []) ∧
    (if ins.length > 0 then mixinAtP ins else .ok 0).isPanic = false ∧
    (if ins.length > 0 then mixinAtP ins else .ok 0) = (match ins.head? with
      | some (.toKey _ o _) => if o.length = 0 then .err else .ok (o.length - 1)
      | _ => .ok 0) := by
  refine ⟨mixinAtP_panic_iff ins, ?_, ?_⟩
  · rw [mixin_guarded]; exact mixinP_no_panic ins
  · rw [mixin_guarded]; exact mixinP_eq ins


/-! ## the MLSAG column count (`inputs.saturating_add(1)`, formerly `1 + inputs`) and `&prefix.inputs[0]` inside the transaction
decoder; the public decoders with `usize` parameters -/
open Monero.Panics in
/-- `Transaction::consensus_decode`, whole: the panic-explicit decoder `txP` — control flow of the Rust function written
out (early return on `inputs == 0`, `if inputs > 0` around `&prefix.inputs[0]`, `checked_sub(1)`), calling the
panic-explicit `RctSigPrunable` decoder in which the column count is computed with the operator read from the source
(`saturating_add` on the present tree) — reaches no panic site on any
byte string, and returns exactly what the model `tx` (the one the correspondence run ties to the code) returns
(`inputs` is the length of a vector that passed the allocation cap: `inputs · size_of::<TxIn>() ≤ CAP`, constants from the
regenerated tables). -/
theorem C04_no_panic_tx (b : Bytes) : (txP b).isPanic = false ∧ (txP b).toOption = tx b := by
  rw [txP_eq]; exact ⟨ofOption_isPanic _, ofOption_toOption _⟩

open Monero.Panics in
/-- the PUBLIC function `RctSigPrunable::consensus_decode(r, rct_type, inputs, outputs, mixin)` called directly: for every
reader content, type, output count, ring size and EVERY value of `inputs` (every `usize` and beyond), no panic site is reachable
and the result is the model's. The MLSAG column count of the panic-explicit decoder is computed with the operator the
translator READS FROM THE SOURCE (`Gen.mgColsOp` / `Gen.mgColsPlain`, regenerated on every run): the proof goes through
`mgCols_src` (the source says `saturating_add`), so a source that goes back to `1 + inputs` — or to a wrapping sum — makes this
theorem (and `C04_no_panic_tx`) fail to check; `C04_prunable_needs_saturating_add` shows what the other operators do.
(Before the fix commit "fix: RctSigPrunable::consensus_decode computes the MLSAG column count with saturating_add" the column
count was `1 + inputs`, which overflowed for `rct_type = Full`, `inputs = usize::MAX` — found by stating this theorem, and the
real library panicked at that point, `c04_dec prunable 1 18446744073709551615 0 0 -`: "attempt to add with overflow".) -/
theorem C04_no_panic_prunable (ty inputs outputs mixin : Nat) (b : Bytes) :
    (prunableP ty inputs outputs mixin b).isPanic = false ∧
    (prunableP ty inputs outputs mixin b).toOption = prunable ty inputs outputs mixin b := by
  rw [prunableP_eq]; exact ⟨ofOption_isPanic _, ofOption_toOption _⟩

open Monero.Panics in
/-- at the point that used to overflow (`Full`, `inputs = usize::MAX`, no outputs, empty reader) the decoder now refuses:
the saturated column count exceeds the allocation cap -/
theorem C04_prunable_at_usize_max :
    (prunableP 1 (2 ^ 64 - 1) 0 0 []).isPanic = false ∧ (prunableP 1 (2 ^ 64 - 1) 0 0 []).toOption = none := prunableP_at_max

open Monero.Panics in
/-- the panic site is real and it is the source's operator that closes it: the same decoder with the bare `1 + inputs`
(`plain = true`) panics at `Full`, `inputs = usize::MAX`; with `wrapping_add` it does not panic but reads ZERO columns there and
accepts 32 bytes that the model (mathematical count `2^64`, beyond the cap) refuses -/
theorem C04_prunable_needs_saturating_add :
    (prunablePW true none 1 (2 ^ 64 - 1) 0 0 []).isPanic = true ∧
    ((prunablePW false (some .wrapping_add) 1 (2 ^ 64 - 1) 0 0 (List.replicate 32 0)).toOption.isSome = true ∧
     (prunable 1 (2 ^ 64 - 1) 0 0 (List.replicate 32 0)).isSome = false) :=
  ⟨prunablePW_plain_panics, prunablePW_wrapping_differs⟩

/-- the raw extra of every PARSED transaction respects the cap of the byte-vector decoder, so
`RawExtraField::from(tx.prefix.extra.try_parse())` — `deserialize(&serialize(..)).unwrap()` — cannot panic, whatever
the extra bytes are and whether or not parsing them reported an error (instance of
`C04_raw_from_parsed_extra_no_panic` without a free hypothesis) -/
theorem C04_raw_from_parsed_tx_extra_no_panic (vk : Bytes → Bool) (b : Bytes) (t : Tx) (r : Bytes) (h : tx b = some (t, r)) :
    Extra.toRaw (Extra.tryParse vk t.pre.extra).fields = some (Extra.encFields (Extra.tryParse vk t.pre.extra).fields) := by
  have hc : t.pre.extra.length ≤ CAP := by
    unfold tx at h
    obtain ⟨p, r0, hp, h⟩ := bind_some h
    have hpe : t.pre = p := by
      simp only [] at h
      split at h
      · obtain ⟨s, r1, _, h⟩ := bind_some h
        obtain ⟨rfl, _⟩ := pure_some h; rfl
      · split at h
        · obtain ⟨rfl, _⟩ := pure_some h; rfl
        · obtain ⟨bs, r1, _, h⟩ := bind_some h
          split at h
          · cases hh : p.ins.head? with
            | none =>
              rw [hh] at h
              obtain ⟨pr, r2, _, h⟩ := bind_some h
              obtain ⟨rfl, _⟩ := pure_some h; rfl
            | some i0 =>
              rw [hh] at h
              cases i0 with
              | gen g =>
                obtain ⟨pr, r2, _, h⟩ := bind_some h
                obtain ⟨rfl, _⟩ := pure_some h; rfl
              | toKey a o k =>
                simp only [] at h
                split at h
                · exact (fail_some h).elim
                · obtain ⟨pr, r2, _, h⟩ := bind_some h
                  obtain ⟨rfl, _⟩ := pure_some h; rfl
          · obtain ⟨rfl, _⟩ := pure_some h; rfl
    rw [hpe]
    unfold prefix' at hp
    obtain ⟨v, r1, _, hp⟩ := bind_some hp
    obtain ⟨u, r2, _, hp⟩ := bind_some hp
    obtain ⟨i, r3, _, hp⟩ := bind_some hp
    obtain ⟨o, r4, _, hp⟩ := bind_some hp
    obtain ⟨e, r5, he, hp⟩ := bind_some hp
    obtain ⟨rfl, rfl⟩ := pure_some hp
    have := vec_cap sizes.u8 u8 r4 e r5 he
    have h1 : sizes.u8 = 1 := by decide
    rw [h1] at this
    show e.length ≤ CAP
    omega
  exact (C04_raw_from_parsed_extra_no_panic vk t.pre.extra hc).2


/-! ## formatting and signed parsing of amounts -/
open Monero.Panics in
/-- `fmt_piconero_in` (behind `Amount::to_string_in`, `Display`, `to_string_with_denomination`, and the signed forms): for
every value (every `u64` and beyond), sign and denomination of the REGENERATED precision table, `real.len() - nb_decimals`
does not underflow and the three `str` slices of the zero-padded numeral are in range and on character boundaries (the
numeral is ASCII); the text is the C15 model's -/
theorem C04_no_panic_fmt_piconero (p : Nat) (neg : Bool) (d : Denom) :
    (fmtPiconeroInP p neg d).isPanic = false ∧ (fmtPiconeroInP p neg d).toOption = some (AmtText.fmtPiconeroIn p neg d) := by
  rw [fmtPiconeroInP_eq]; exact ⟨rfl, rfl⟩
open Monero.Panics in
/-- `SignedAmount::fmt_value_in`: for every integer — in particular `i64::MIN`, where `checked_abs` is `None` —
`u64::MAX - (x as u64)` does not underflow and `… + 1` does not overflow a `u64` -/
theorem C04_no_panic_signed_to_string (a : Int) (d : Denom) :
    (signedToStringInP a d).isPanic = false ∧ (signedToStringInP a d).toOption = some (AmtText.signedToStringIn a d) := by
  rw [signedToStringInP_eq]; exact ⟨rfl, rfl⟩
open Monero.Panics in
/-- `SignedAmount::from_str_in` on any `&str`: beyond the sites of the parser (`C04_no_panic_amount_parser`) the `i64` negation
`-(piconero as i64)` cannot overflow. The operand of the negation is modelled as what the Rust evaluates — the WRAPPED cast
`castI64 piconero`, which is `i64::MIN` for `piconero = 2^63` — and the site is unreachable only because of the preceding test
`piconero > i64::MAX` (`negI64_cast_guarded` uses exactly that hypothesis; `C04_signed_from_str_needs_guard` shows the site
firing when the test is absent). The result is the C15 model's. -/
theorem C04_no_panic_signed_from_str (s : Bytes) (d : Denom) (hu : Utf8 s) :
    (signedFromStrInP s d).isPanic = false ∧
    (signedFromStrInP s d).toOption = Out.ofExcept (AmtText.signedFromStrIn s d) := by
  rw [signedFromStrInP_eq s d hu]; cases AmtText.signedFromStrIn s d <;> exact ⟨rfl, rfl⟩

/-- the text "-9223372036854775808" (piconero), i.e. `piconero = 2^63`, negative -/
def minusTwoPow63 : Bytes :=
  [0x2d, 0x39, 0x32, 0x32, 0x33, 0x33, 0x37, 0x32, 0x30, 0x33, 0x36, 0x38, 0x35, 0x34, 0x37, 0x37, 0x35, 0x38, 0x30, 0x38]
open Monero.Panics in
/-- the range test is NEEDED: the same function without it (`signedFromStrInG false`) panics at the negation on the `&str`
"-9223372036854775808" in piconero (`-(2^63 as i64)` = `-(i64::MIN)`), where the real function answers `Err(TooBig)` -/
theorem C04_signed_from_str_needs_guard :
    (signedFromStrInG false minusTwoPow63 .Piconero).isPanic = true ∧
    (signedFromStrInG true minusTwoPow63 .Piconero).isPanic = false ∧
    (signedFromStrInG true minusTwoPow63 .Piconero).toOption = none := by decide
/- non-vacuity: the two new kinds of site can fire (negating the wrapped cast of `2^63`, which is `i64::MIN`; slicing a `str`
inside a two-byte character); the cast wraps -/
example : (Panics.negI64 "x" (Panics.castI64 (2 ^ 63))).isPanic = true := by decide
example : Panics.castI64 (2 ^ 63) = -(2 : Int) ^ 63 ∧ Panics.castI64 (2 ^ 64 - 1) = -1 ∧ Panics.castI64 (2 ^ 63 - 1) = 2 ^ 63 - 1 := by decide
example : (Panics.negI64 "x" (-(2 : Int) ^ 63)).isPanic = true := by decide
example : (Panics.strSlice "x" [0xc2, 0xb5] 0 1).isPanic = true := by decide

/- non-vacuity: the panic-explicit vocabulary CAN panic (an unguarded slice does), the hash hypothesis is satisfiable,
and "-1.5" is a `&str` in the sense of `Utf8` -/
example : (Panics.slice "unguarded" [1, 2] 0 3).isPanic = true := by decide
example : ∀ x : Bytes, 4 ≤ ((fun _ => List.replicate 32 (0 : UInt8)) x).length := by intro _; simp
example : Panics.Utf8 [0x2d, 0x31, 0x2e, 0x35] :=
  .ascii _ _ (by decide) (.ascii _ _ (by decide) (.ascii _ _ (by decide) (.ascii _ _ (by decide) .nil)))

/- non-vacuity: the cap check really fires in the model (a declared length beyond the cap is refused before any element) -/
example (r : Bytes) : sizedVec sizes.key key (CAP + 1) r = none := by
  unfold sizedVec
  have : (CAP + 1) * sizes.key > CAP := by
    have hk : 1 ≤ sizes.key := by decide
    have := Nat.le_mul_of_pos_right (CAP + 1) hk
    omega
  simp [this, fail]
end C04
