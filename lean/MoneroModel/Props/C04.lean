import MoneroModel.Proofs.LedgerInst
import MoneroModel.Proofs.LedgerTx
import MoneroModel.Proofs.BlockSound
import MoneroModel.Props.C06
import MoneroModel.Props.C16
import MoneroModel.Props.C14
import MoneroModel.Proofs.PanicsProofs
import MoneroModel.Proofs.ExtraLen
import MoneroModel.Proofs.PanicsTx
import MoneroModel.Proofs.PanicsFmt
open Monero Ledger
/-! # C04 — no input can panic, hang or exhaust memory (PARTIAL: see below)

What is proved here is about the *model*: (1) decoders return vectors within the allocation cap, so the tree-hash
precondition holds for every parsed block and its Merkle root computation cannot hit an assert; (2) the loops that are
not bounded by a count terminate (VarInt consumes at most 10 bytes; the extra-field loop is C16_total); (3) the
allocation ledger: decoders annotated with the heap they allocate (`with_capacity` after the cap check, earlier values
alive while later ones are read) stay within `A + B·(bytes looked at)`, the bound being closed under sequencing,
repetition and capped vectors, and instantiated on the worst nesting of the transaction decoder (`Vec<TxIn>` containing
`Vec<VarInt>`) with decoders proved to compute the same values as the model decoders.
(4) the data-dependent panic sites of the address byte parser, the amount text parser, the padding loop, the VarInt
accumulation and the ring-size computation are made EXPLICIT (Model/Panics.lean: every slice, index, `str` slice and
machine-integer `+`/`-` returns `panic site` when its precondition fails) and proved unreachable for every input, the
panic-explicit functions being proved equal to the total models that the correspondence check ties to the code.
What a theorem about the model cannot exhibit — panics inside dependencies, stack exhaustion, allocator / OS behaviour,
real time — is observed by the isolated runs of the harness (child process, catch_unwind, time limit, counting allocator). -/
namespace C04

/-- every capped vector decoder returns exactly the declared number of elements, and that number respects the cap -/
theorem C04_vec_cap {α} (sz : Nat) (d : Dec α) (n : Nat) (b : Bytes) (xs : List α) (r : Bytes)
    (h : sizedVec sz d n b = some (xs, r)) : xs.length = n ∧ n * sz ≤ CAP := by
  refine ⟨sizedVec_length sz d n b xs r h, ?_⟩
  unfold sizedVec at h
  split at h
  · exact (fail_some h).elim
  · omega

theorem vec_cap {α} (sz : Nat) (d : Dec α) (b : Bytes) (xs : List α) (r : Bytes)
    (h : vec sz d b = some (xs, r)) : xs.length * sz ≤ CAP := by
  unfold vec at h
  obtain ⟨n, r1, _, h2⟩ := bind_some h
  obtain ⟨hl, hc⟩ := C04_vec_cap sz d n r1 xs r h2
  rw [hl]; exact hc

/-- a parsed block lists at most CAP/32 = 2^20 hashes, far below the 2^28 limit asserted by `tree_hash_cnt` -/
theorem C04_treehash_pre (b : Bytes) (blk : Block) (r : Bytes) (h : block b = some (blk, r)) :
    blk.hashes.length + 1 ≤ 2^28 := by
  unfold block at h
  obtain ⟨hd, r1, _, h⟩ := bind_some h
  obtain ⟨t, r2, _, h⟩ := bind_some h
  obtain ⟨hs, r3, h3, h⟩ := bind_some h
  obtain ⟨rfl, rfl⟩ := pure_some h
  have := vec_cap sizes.key key r2 hs r3 h3
  -- robust to changes of the cap and of the layout: only `1 ≤ size_of::<Hash>()` and `CAP < 2^28` are used
  have hk : 1 ≤ sizes.key := by decide
  have hc : CAP + 1 ≤ 2^28 := by decide
  have : hs.length ≤ hs.length * sizes.key := Nat.le_mul_of_pos_right _ hk
  show hs.length + 1 ≤ 2^28
  omega

/-- hence the Merkle root / block id of every parsed block is computed without hitting an assert or a bad index
(`none` = panic in the model of `tree_hash`) -/
theorem C04_parsed_block_root_no_panic (H : Bytes → Bytes) (b : Bytes) (blk : Block) (r : Bytes)
    (h : block b = some (blk, r)) (minerHash : Bytes) :
    TreeHash.treeHash H minerHash blk.hashes = some (Spec.TreeHash.treeSpec H (minerHash :: blk.hashes)) :=
  C06.C06_tree_eq_spec H minerHash blk.hashes (C04_treehash_pre b blk r h)

/-- a VarInt that DECODES consumed between 1 and 10 bytes (on a failing input the group loop of the Rust reads on until a byte
without continuation bit or the end of the input: bounded by the input, not by 10) -/
theorem C04_varint_bounded (b : Bytes) (n : Nat) (r : Bytes) (h : varint b = some (n, r)) :
    1 ≤ b.length - r.length ∧ b.length - r.length ≤ 10 := by
  have hs := sound_varint b n r h
  have hlt := varint_lt b n r h
  have hb := (C14.C14_len n)
  rw [encVarintImp_eq] at hb
  simp only at hb
  obtain ⟨h1, _, _, h4⟩ := hb
  have := h4 hlt
  rw [hs]
  simp; omega

/-- the extra-field loop terminates on every input (every iteration consumes at least one byte) -/
theorem C04_extra_total (vk : Bytes → Bool) (e : Bytes) (fuel : Nat) (hf : e.length ≤ fuel) :
    Extra.loop vk fuel e [] false 0 = some (Extra.tryParse vk e) :=
  (C16.C16_total vk e).2 fuel hf

/-- allocation ledger, closure: sequencing keeps the bound; a capped pre-allocating vector adds one CAP to the constant
and `size_of::<T>()` to the slope -/
theorem C04_alloc_bind {α β} {A B : Nat} {d : RDec α} {f : α → RDec β}
    (hd : Bounded A B d) (hf : ∀ x, Bounded A B (f x)) : Bounded A B (rbind d f) := bounded_bind hd hf
theorem C04_alloc_vec {α} {A B sz : Nat} {d : RDec α} (hd : Bounded A B d)
    (hmin : ∀ b x r, (d b).val = some (x, r) → r.length + 1 ≤ b.length) (n : Nat) :
    Bounded (A + CAP) (B + sz) (rvecN CAP sz d n) := bounded_vecN (w := 1) hd (Nat.le_refl 1) hmin n

/-- allocation ledger, instance: decoding the inputs vector of a transaction (`Vec<TxIn>`, each key input holding a
`Vec<VarInt>`) — the instrumented decoder computes exactly the model's result, and at every moment of the decode the
outstanding heap is at most `2·CAP + (size_of VarInt + size_of TxIn)·(bytes looked at)`, whether it succeeds or fails -/
theorem C04_alloc_bound_inputs (b : Bytes) :
    (rvecTxIn b).val = vec sizes.txin txin b ∧
    (rvecTxIn b).peak ≤ 2 * CAP + (sizes.varint + sizes.txin) * b.length := by
  refine ⟨rvecTxIn_val b, ?_⟩
  have hp := bounded_rvecTxIn.peak b
  have hu : used b (rvecTxIn b) ≤ b.length := by
    unfold used; split <;> omega
  have := Nat.mul_le_mul_left (sizes.varint + sizes.txin) hu
  omega

/-- allocation ledger for the WHOLE transaction decoder (prefix, v1 signature rows, RingCT base, all prunable layouts): the
instrumented decoder `rtx` — `with_capacity` reservations charged after their cap check, push-grown vectors (ecdh info, CLSAGs,
MLSAGs, signature rows) charged with growth factor 4, earlier fields alive while later ones are read — computes exactly the
model's result, and at every moment of the decode the outstanding heap is at most `2·CAP + 88·|b|`, on success and on failure -/
theorem C04_alloc_bound_tx (b : Bytes) :
    (rtx b).val = tx b ∧ (rtx b).peak ≤ 2 * CAP + Btx * b.length := alloc_bound_tx b
/-- … and for blocks (header, miner transaction, hash list) -/
theorem C04_alloc_bound_block (b : Bytes) :
    (rblock b).val = block b ∧ (rblock b).peak ≤ 2 * CAP + Bblock * b.length := alloc_bound_block b
/-- … and for the stand-alone transaction prefix (`deserialize::<TransactionPrefix>`): the instrumented decoder computes the
model's result, stays within `2·CAP + 40·|b|`, and keeps nothing after a failure -/
theorem C04_alloc_bound_prefix (b : Bytes) :
    (rprefix b).val = prefix' b ∧ (rprefix b).peak ≤ 2 * CAP + 40 * b.length ∧ ((rprefix b).val = none → (rprefix b).live = 0) := by
  refine ⟨rprefix_val b, ?_, bounded_rprefix.live_fail b⟩
  have hp := bounded_rprefix.peak b
  have hu : used b (rprefix b) ≤ b.length := by unfold used; split <;> omega
  have := Nat.mul_le_mul_left 40 hu
  omega
/-- after a failed parse of a transaction or block nothing stays allocated -/
theorem C04_alloc_released (b : Bytes) :
    ((rtx b).val = none → (rtx b).live = 0) ∧ ((rblock b).val = none → (rblock b).live = 0) :=
  ⟨alloc_released_tx b, alloc_released_block b⟩

/-- nothing stays allocated after a failed decode -/
theorem C04_alloc_released_on_error (b : Bytes) (h : (rvecTxIn b).val = none) : (rvecTxIn b).live = 0 :=
  bounded_rvecTxIn.live_fail b h

/-- `From<ExtraField> for RawExtraField` is `deserialize(&serialize(&extra)).unwrap()`; in the model `toRaw fs = none` is
that `unwrap` panicking (the re-serialisation exceeds the allocation cap of the `Vec<u8>` decoder). For an `ExtraField`
obtained by PARSING a raw extra that respected the cap — whatever the bytes, whether or not parsing reported success — the
re-serialisation is never longer than the input (every decoded sub-field re-encodes to exactly the bytes it consumed:
`subFieldRd_len`), so the conversion back to raw bytes cannot panic. -/
theorem C04_raw_from_parsed_extra_no_panic (vk : Bytes → Bool) (e : Bytes) (hc : e.length ≤ CAP) :
    (Extra.encFields (Extra.tryParse vk e).fields).length ≤ e.length ∧
    Extra.toRaw (Extra.tryParse vk e).fields = some (Extra.encFields (Extra.tryParse vk e).fields) :=
  ⟨Extra.tryParse_len vk e, Extra.toRaw_parsed vk e hc⟩

/-! ## Explicit panic sites (Model/Panics.lean) are unreachable -/
open Monero.Panics in
/-- `Address::from_bytes` / `AddressType::from_slice`: none of the eleven index and slice expressions (`bytes[0]`,
`&bytes[1..33]`, `&bytes[33..65]`, `&bytes[65..73]`, `&bytes[0..65]`, `&bytes[65..69]`, `&bytes[0..73]`, `&bytes[73..77]`,
`&verify_checksum[0..4]`) can be out of bounds, for any blob, hash function with at least 4 output bytes and key
predicate; the bounds of the payment-id slice come from the table regenerated from the source. The panic-explicit parser
returns exactly what the C12 model returns. -/
theorem C04_no_panic_address (H : Bytes → Bytes) (vk : Bytes → Bool) (hH : ∀ x, 4 ≤ (H x).length) (bytes : Bytes) :
    (fromBytesP H vk bytes).isPanic = false ∧ (fromBytesP H vk bytes).toOption = Address.fromBytes H vk bytes := by
  refine ⟨fromBytesP_no_panic H vk hH bytes, ?_⟩
  rw [fromBytesP_eq H vk hH]; cases Address.fromBytes H vk bytes <;> rfl
open Monero.Panics in
theorem C04_no_panic_address_type (net : Net) (bytes : Bytes) :
    (addrTypeOfP net bytes).isPanic = false ∧ (addrTypeOfP net bytes).toOption = addrTypeOf net bytes := by
  refine ⟨addrTypeOfP_no_panic net bytes, ?_⟩
  rw [addrTypeOfP_eq]; cases addrTypeOf net bytes <;> rfl

open Monero.Panics in
/-- `parse_signed_to_piconero` on any `&str` (any byte string that is a sequence of UTF-8 characters): `&s[1..]` and
`&s[0..s.len() - last_n]` are in range and on character boundaries, `s.len() - last_n` does not underflow, and the `i32`
/ `u8` arithmetic (`-precision`, `c as u8 - b'0'`, `d + 1`, `max_decimals - decimals`) stays in range; the result is the
C15 model's. -/
theorem C04_no_panic_amount_parser (s : Bytes) (d : Denom) (hu : Utf8 s) :
    (parseSignedToPiconeroP s d).isPanic = false ∧
    (parseSignedToPiconeroP s d).toOption = Out.ofExcept (AmtText.parseSignedToPiconero s d) := by
  refine ⟨parseSignedToPiconeroP_no_panic s d hu, ?_⟩
  rw [parseSignedToPiconeroP_eq s d hu]; cases AmtText.parseSignedToPiconero s d <;> rfl

open Monero.Panics in
/-- the `u8` counter `i += 1` of the padding loop never overflows (at most 255 iterations from 0), and the loop computes
what the C16 model computes -/
theorem C04_no_panic_padding (b : Bytes) :
    padLoopP 255 0 b = liftRd (Extra.padLoop 255 0 b) ∧ ∀ o r, padLoopP 255 0 b = (some o, r) → o.isPanic = false :=
  ⟨padLoopP_eq 255 0 b (by omega), padLoopP_no_panic b⟩

open Monero.Panics in
/-- `VarInt::consensus_decode`: `res.split_last().unwrap()` finds a group and `int << 7` never shifts a set bit out,
on every input on which the group loop ends; the value is the C14 model's -/
theorem C04_no_panic_varint (b : Bytes) (gs : List Nat) (r : Bytes) (h : collect b [] = some (gs, r)) :
    (accumP gs.reverse 0).isPanic = false ∧ (accumP gs.reverse 0).toOption = accum gs.reverse 0 := by
  rw [varint_accum_no_panic b gs r h]; cases accum gs.reverse 0 <;> exact ⟨rfl, rfl⟩

open Monero.Panics in
/-- `&prefix.inputs[0]` in `Transaction::consensus_decode` is only evaluated on a non-empty input list, and the ring
size `len - 1` is taken with `checked_sub` (zero ring members is an error, not an underflow) -/
theorem C04_no_panic_ring_size (ins : List TxIn) :
    (mixinP ins).isPanic = false ∧
    mixinP ins = (match ins.head? with
      | some (.toKey _ o _) => if o.length = 0 then .err else .ok (o.length - 1)
      | _ => .ok 0) := ⟨mixinP_no_panic ins, mixinP_eq ins⟩


/-! ## `1 + inputs` and `&prefix.inputs[0]` inside the transaction decoder; the public decoders with `usize` parameters -/
open Monero.Panics in
/-- `Transaction::consensus_decode`, whole: the panic-explicit decoder `txP` — control flow of the Rust function written
out (early return on `inputs == 0`, `if inputs > 0` around `&prefix.inputs[0]`, `checked_sub(1)`), calling the
panic-explicit `RctSigPrunable` decoder in which the column count is the `usize` saturating sum — reaches no panic site on any
byte string, and returns exactly what the model `tx` (the one the correspondence run ties to the code) returns
(`inputs` is the length of a vector that passed the allocation cap: `inputs · size_of::<TxIn>() ≤ CAP`, constants from the
regenerated tables). -/
theorem C04_no_panic_tx (b : Bytes) : (txP b).isPanic = false ∧ (txP b).toOption = tx b := by
  rw [txP_eq]; exact ⟨ofOption_isPanic _, ofOption_toOption _⟩

open Monero.Panics in
/-- the PUBLIC function `RctSigPrunable::consensus_decode(r, rct_type, inputs, outputs, mixin)` called directly: for every
reader content, type, output count, ring size and EVERY `usize` value of `inputs`, no panic site is reachable and the result
is the model's. (Before the fix commit "fix: RctSigPrunable::consensus_decode computes the MLSAG column count with
saturating_add" the column count was `1 + inputs`, which overflowed for `rct_type = Full`, `inputs = usize::MAX` — found by
stating this theorem: the proof needed the hypothesis `1 + inputs < 2^64`, and the real library panicked at the excluded
point, `c04_dec prunable 1 18446744073709551615 0 0 -`: "attempt to add with overflow", ringct.rs:774.) -/
theorem C04_no_panic_prunable (ty inputs outputs mixin : Nat) (b : Bytes) (h : inputs < 2 ^ 64) :
    (prunableP ty inputs outputs mixin b).isPanic = false ∧
    (prunableP ty inputs outputs mixin b).toOption = prunable ty inputs outputs mixin b := by
  rw [prunableP_eq _ _ _ _ _ h]; exact ⟨ofOption_isPanic _, ofOption_toOption _⟩
example : 16 < 2 ^ 64 := by decide

open Monero.Panics in
/-- at the point that used to overflow (`Full`, `inputs = usize::MAX`, no outputs, empty reader) the decoder now refuses:
the saturated column count exceeds the allocation cap -/
theorem C04_prunable_at_usize_max :
    (prunableP 1 (2 ^ 64 - 1) 0 0 []).isPanic = false ∧ (prunableP 1 (2 ^ 64 - 1) 0 0 []).toOption = none := prunableP_at_max

/-- the raw extra of every PARSED transaction respects the cap of the byte-vector decoder, so
`RawExtraField::from(tx.prefix.extra.try_parse())` — `deserialize(&serialize(..)).unwrap()` — cannot panic, whatever
the extra bytes are and whether or not parsing them reported an error (instance of
`C04_raw_from_parsed_extra_no_panic` without a free hypothesis) -/
theorem C04_raw_from_parsed_tx_extra_no_panic (vk : Bytes → Bool) (b : Bytes) (t : Tx) (r : Bytes) (h : tx b = some (t, r)) :
    Extra.toRaw (Extra.tryParse vk t.pre.extra).fields = some (Extra.encFields (Extra.tryParse vk t.pre.extra).fields) := by
  have hc : t.pre.extra.length ≤ CAP := by
    unfold tx at h
    obtain ⟨p, r0, hp, h⟩ := bind_some h
    have hpe : t.pre = p := by
      simp only [] at h
      split at h
      · obtain ⟨s, r1, _, h⟩ := bind_some h
        obtain ⟨rfl, _⟩ := pure_some h; rfl
      · split at h
        · obtain ⟨rfl, _⟩ := pure_some h; rfl
        · obtain ⟨bs, r1, _, h⟩ := bind_some h
          split at h
          · cases hh : p.ins.head? with
            | none =>
              rw [hh] at h
              obtain ⟨pr, r2, _, h⟩ := bind_some h
              obtain ⟨rfl, _⟩ := pure_some h; rfl
            | some i0 =>
              rw [hh] at h
              cases i0 with
              | gen g =>
                obtain ⟨pr, r2, _, h⟩ := bind_some h
                obtain ⟨rfl, _⟩ := pure_some h; rfl
              | toKey a o k =>
                simp only [] at h
                split at h
                · exact (fail_some h).elim
                · obtain ⟨pr, r2, _, h⟩ := bind_some h
                  obtain ⟨rfl, _⟩ := pure_some h; rfl
          · obtain ⟨rfl, _⟩ := pure_some h; rfl
    rw [hpe]
    unfold prefix' at hp
    obtain ⟨v, r1, _, hp⟩ := bind_some hp
    obtain ⟨u, r2, _, hp⟩ := bind_some hp
    obtain ⟨i, r3, _, hp⟩ := bind_some hp
    obtain ⟨o, r4, _, hp⟩ := bind_some hp
    obtain ⟨e, r5, he, hp⟩ := bind_some hp
    obtain ⟨rfl, rfl⟩ := pure_some hp
    have := vec_cap sizes.u8 u8 r4 e r5 he
    have h1 : sizes.u8 = 1 := by decide
    rw [h1] at this
    show e.length ≤ CAP
    omega
  exact (C04_raw_from_parsed_extra_no_panic vk t.pre.extra hc).2


/-! ## formatting and signed parsing of amounts -/
open Monero.Panics in
/-- `fmt_piconero_in` (behind `Amount::to_string_in`, `Display`, `to_string_with_denomination`, and the signed forms): for
every value (every `u64` and beyond), sign and denomination of the REGENERATED precision table, `real.len() - nb_decimals`
does not underflow and the three `str` slices of the zero-padded numeral are in range and on character boundaries (the
numeral is ASCII); the text is the C15 model's -/
theorem C04_no_panic_fmt_piconero (p : Nat) (neg : Bool) (d : Denom) :
    (fmtPiconeroInP p neg d).isPanic = false ∧ (fmtPiconeroInP p neg d).toOption = some (AmtText.fmtPiconeroIn p neg d) := by
  rw [fmtPiconeroInP_eq]; exact ⟨rfl, rfl⟩
open Monero.Panics in
/-- `SignedAmount::fmt_value_in`: for every integer — in particular `i64::MIN`, where `checked_abs` is `None` —
`u64::MAX - (x as u64)` does not underflow and `… + 1` does not overflow a `u64` -/
theorem C04_no_panic_signed_to_string (a : Int) (d : Denom) :
    (signedToStringInP a d).isPanic = false ∧ (signedToStringInP a d).toOption = some (AmtText.signedToStringIn a d) := by
  rw [signedToStringInP_eq]; exact ⟨rfl, rfl⟩
open Monero.Panics in
/-- `SignedAmount::from_str_in` on any `&str`: beyond the sites of the parser (`C04_no_panic_amount_parser`) the `i64` negation
`-(piconero as i64)` cannot overflow (its operand is a non-negative value that passed the `> i64::MAX` test) -/
theorem C04_no_panic_signed_from_str (s : Bytes) (d : Denom) (hu : Utf8 s) :
    (signedFromStrInP s d).isPanic = false ∧
    (signedFromStrInP s d).toOption = Out.ofExcept (AmtText.signedFromStrIn s d) := by
  rw [signedFromStrInP_eq s d hu]; cases AmtText.signedFromStrIn s d <;> exact ⟨rfl, rfl⟩
/- non-vacuity: the two new kinds of site can fire (negating `i64::MIN`; slicing a `str` inside a two-byte character) -/
example : (Panics.negI64 "x" (-(2 : Int) ^ 63)).isPanic = true := by decide
example : (Panics.strSlice "x" [0xc2, 0xb5] 0 1).isPanic = true := by decide

/- non-vacuity: the panic-explicit vocabulary CAN panic (an unguarded slice does), the hash hypothesis is satisfiable,
and "-1.5" is a `&str` in the sense of `Utf8` -/
example : (Panics.slice "unguarded" [1, 2] 0 3).isPanic = true := by decide
example : ∀ x : Bytes, 4 ≤ ((fun _ => List.replicate 32 (0 : UInt8)) x).length := by intro _; simp
example : Panics.Utf8 [0x2d, 0x31, 0x2e, 0x35] :=
  .ascii _ _ (by decide) (.ascii _ _ (by decide) (.ascii _ _ (by decide) (.ascii _ _ (by decide) .nil)))

/- non-vacuity: the cap check really fires in the model (a declared length beyond the cap is refused before any element) -/
example (r : Bytes) : sizedVec sizes.key key (CAP + 1) r = none := by
  unfold sizedVec
  have : (CAP + 1) * sizes.key > CAP := by
    have hk : 1 ≤ sizes.key := by decide
    have := Nat.le_mul_of_pos_right (CAP + 1) hk
    omega
  simp [this, fail]
end C04
