import MoneroModel.Model.Tags
import MoneroModel.Spec.Tags
open Monero
/-! # C20 — the network / address-type tag table is Monero's and is a bijection

The model is *entirely generated*: `Monero.asU8`, `fromU8`, `addrTypeOf` are lookups in `Gen.asU8`, `Gen.fromU8`,
`Gen.addrType`, which the translator rewrites from src/network.rs and src/util/address.rs on every run. The finite
facts are decided by kernel evaluation over the *whole* domain (3×3 pairs, all 256 byte values) and lifted to arbitrary
blobs by ordinary lemmas. -/
namespace C20

/-- forward table = Monero's -/
theorem C20_table (n : Net) (k : Kind) : asU8 n k = some (Spec.tag n k) := by
  cases n <;> cases k <;> decide

/-- nine distinct bytes -/
theorem C20_injective (n n' : Net) (k k' : Kind) (h : Spec.tag n k = Spec.tag n' k') : n = n' ∧ k = k' := by
  cases n <;> cases k <;> cases n' <;> cases k' <;> first | exact ⟨rfl, rfl⟩ | (exact absurd h (by decide))

/-- a tag byte maps back to the network it came from -/
theorem C20_network_inverse (n : Net) (k : Kind) : fromU8 (Spec.tag n k) = some n := by
  cases n <;> cases k <;> decide

private theorem fromU8_table : ∀ b ∈ List.range 256, fromU8 b = (Spec.untag b).map (·.1) := by decide +kernel
private theorem arm_table : ∀ n ∈ Net.all, ∀ b ∈ List.range 256,
    addrArm n b = match Spec.untag b with
      | some (n', k) => if n' = n then some (k, if k = .Integrated then (73, 65, 73) else (0, 0, 0)) else none
      | none => none := by decide +kernel

/-- every byte value: the network lookup accepts exactly the nine tags -/
theorem C20_network_of_byte (b : UInt8) : fromU8 b.toNat = (Spec.untag b.toNat).map (·.1) :=
  fromU8_table b.toNat (List.mem_range.2 b.toNat_lt)

/-- bytes outside the table are rejected by the network lookup and, under every network, by the address-type lookup -/
theorem C20_reject_others (b : UInt8) (h : ∀ n k, Spec.tag n k ≠ b.toNat) (rest : Bytes) :
    fromU8 b.toNat = none ∧ ∀ net, addrTypeOf net (b :: rest) = none := by
  have hu : Spec.untag b.toNat = none := by
    unfold Spec.untag
    rw [List.find?_eq_none]
    intro p _
    simpa using h p.1 p.2
  refine ⟨by rw [C20_network_of_byte, hu]; rfl, fun net => ?_⟩
  have := arm_table net (Net.mem_all net) b.toNat (List.mem_range.2 b.toNat_lt)
  rw [hu] at this
  simp [addrTypeOf, this]

private theorem untag_tag (n : Net) (k : Kind) : Spec.untag (Spec.tag n k) = some (n, k) := by
  cases n <;> cases k <;> decide

/-- address-type lookup on an arbitrary blob: it depends only on the first byte, the length and bytes 65..73.
A blob starting with `tag net k` has type `k`; integrated needs at least 73 bytes and carries bytes 65..73 as payment
id; the empty blob is an error. -/
theorem C20_type_lookup (net : Net) (k : Kind) (b : UInt8) (rest : Bytes) (hb : b.toNat = Spec.tag net k) :
    addrTypeOf net (b :: rest) =
      if k = .Integrated then
        (if (b :: rest).length < 73 then none else some (k, ((b :: rest).drop 65).take 8))
      else some (k, []) := by
  have := arm_table net (Net.mem_all net) b.toNat (List.mem_range.2 b.toNat_lt)
  rw [hb, untag_tag] at this
  simp only [if_true] at this
  simp only [addrTypeOf, hb, this]
  cases k <;> simp

theorem C20_type_lookup_empty (net : Net) : addrTypeOf net [] = none := rfl

/-- a tag of one network is rejected under another -/
theorem C20_cross_network (n n' : Net) (k : Kind) (hne : n ≠ n') (b : UInt8) (rest : Bytes)
    (hb : b.toNat = Spec.tag n k) : addrTypeOf n' (b :: rest) = none := by
  have := arm_table n' (Net.mem_all n') b.toNat (List.mem_range.2 b.toNat_lt)
  rw [hb, untag_tag] at this
  simp only [hne, if_false] at this
  simp [addrTypeOf, hb, this]

/-- the generated table really rejects the empty blob before indexing (otherwise `bytes[0]` would panic) -/
theorem C20_empty_guard : Gen.addrTypeEmptyIsError = true := by decide

example : addrTypeOf .Mainnet (19 :: List.replicate 76 7) = some (.Integrated, List.replicate 8 7) := by decide
end C20
