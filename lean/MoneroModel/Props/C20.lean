import MoneroModel.Model.Tags
import MoneroModel.Spec.Tags
open Monero
/-! # C20 — the network / address-type tag table is Monero's and is a bijection

The model is *entirely generated*: `Monero.asU8`, `fromU8`, `addrTypeOf` are lookups in `Gen.asU8`, `Gen.fromU8`,
`Gen.addrType` (+ the flag `Gen.addrTypeEmptyIsError`). Since the translator's second reading (harness/src/observe.rs) these are
the tables OBSERVED by evaluating the compiled functions of the current source exhaustively on their finite domains — the 9 pairs
(and 6 payment ids), all 256 byte values, `from_slice` on every first byte × every length 1..=160 × 5 content patterns, and on the
empty blob; the syntactic reading of the `match` arms is only compared with them. Trusted: the table SHAPE observe.rs imposes on
`from_slice` (row selected by byte 0 alone, one length threshold, one contiguous payment-id range). The finite facts are decided
by kernel evaluation over the *whole* domain (3×3 pairs, all 256 byte values) and lifted to arbitrary blobs by ordinary lemmas;
the ∀-blob statements are therefore statements about the model — for the Rust code, independence of content and of lengths beyond
160 is what the differential run samples (lengths up to 1000), not what is proved. -/
namespace C20

/-- forward table = Monero's -/
theorem C20_table (n : Net) (k : Kind) : asU8 n k = some (Spec.tag n k) := by
  cases n <;> cases k <;> decide

/-- nine distinct bytes -/
theorem C20_injective (n n' : Net) (k k' : Kind) (h : Spec.tag n k = Spec.tag n' k') : n = n' ∧ k = k' := by
  cases n <;> cases k <;> cases n' <;> cases k' <;> first | exact ⟨rfl, rfl⟩ | (exact absurd h (by decide))

/-- a tag byte maps back to the network it came from -/
theorem C20_network_inverse (n : Net) (k : Kind) : fromU8 (Spec.tag n k) = some n := by
  cases n <;> cases k <;> decide

private theorem fromU8_table : ∀ b ∈ List.range 256, fromU8 b = (Spec.untag b).map (·.1) := by decide +kernel
private theorem arm_table : ∀ n ∈ Net.all, ∀ b ∈ List.range 256,
    addrArm n b = match Spec.untag b with
      | some (n', k) => if n' = n then some (k, if k = .Integrated then (73, 65, 73) else (0, 0, 0)) else none
      | none => none := by decide +kernel

/-- every byte value: the network lookup accepts exactly the nine tags -/
theorem C20_network_of_byte (b : UInt8) : fromU8 b.toNat = (Spec.untag b.toNat).map (·.1) :=
  fromU8_table b.toNat (List.mem_range.2 b.toNat_lt)

/-- bytes outside the table are rejected by the network lookup and, under every network, by the address-type lookup -/
theorem C20_reject_others (b : UInt8) (h : ∀ n k, Spec.tag n k ≠ b.toNat) (rest : Bytes) :
    fromU8 b.toNat = none ∧ ∀ net, addrTypeOf net (b :: rest) = none := by
  have hu : Spec.untag b.toNat = none := by
    unfold Spec.untag
    rw [List.find?_eq_none]
    intro p _
    simpa using h p.1 p.2
  refine ⟨by rw [C20_network_of_byte, hu]; rfl, fun net => ?_⟩
  have := arm_table net (Net.mem_all net) b.toNat (List.mem_range.2 b.toNat_lt)
  rw [hu] at this
  simp [addrTypeOf, this]

private theorem untag_tag (n : Net) (k : Kind) : Spec.untag (Spec.tag n k) = some (n, k) := by
  cases n <;> cases k <;> decide

/-- address-type lookup on an arbitrary blob: it depends only on the first byte, the length and bytes 65..73.
A blob starting with `tag net k` has type `k`; integrated needs at least 73 bytes and carries bytes 65..73 as payment
id; the empty blob is an error. -/
theorem C20_type_lookup (net : Net) (k : Kind) (b : UInt8) (rest : Bytes) (hb : b.toNat = Spec.tag net k) :
    addrTypeOf net (b :: rest) =
      if k = .Integrated then
        (if (b :: rest).length < 73 then none else some (k, ((b :: rest).drop 65).take 8))
      else some (k, []) := by
  have := arm_table net (Net.mem_all net) b.toNat (List.mem_range.2 b.toNat_lt)
  rw [hb, untag_tag] at this
  simp only [if_true] at this
  simp only [addrTypeOf, hb, this]
  cases k <;> simp

/-- the empty blob is rejected — through the observed flag (`addrTypeOf` consults `Gen.addrTypeEmptyIsError`) -/
theorem C20_type_lookup_empty (net : Net) : addrTypeOf net [] = none := by
  have h : Gen.addrTypeEmptyIsError = true := by decide
  simp [addrTypeOf, h]

/-- a tag of one network is rejected under another -/
theorem C20_cross_network (n n' : Net) (k : Kind) (hne : n ≠ n') (b : UInt8) (rest : Bytes)
    (hb : b.toNat = Spec.tag n k) : addrTypeOf n' (b :: rest) = none := by
  have := arm_table n' (Net.mem_all n') b.toNat (List.mem_range.2 b.toNat_lt)
  rw [hb, untag_tag] at this
  simp only [hne, if_false] at this
  simp [addrTypeOf, hb, this]

/-- the flag observed on the compiled code: `from_slice(&[], n)` returned `Err` — no panic at `bytes[0]` — under all three networks -/
theorem C20_empty_guard : Gen.addrTypeEmptyIsError = true := by decide

/-! ## added after the audit: the three generated tables tied to each other and to one total by-the-book function -/

/-- ONE total characterisation of the address-type lookup: on EVERY blob (any length, any content, the empty one
included) and under every network the model of `AddressType::from_slice` is the by-the-book function `Spec.addrType`
(Spec/Tags.lean) — the function relation C executes for the `addrtype` operation. -/
theorem C20_type_total (net : Net) (bytes : Bytes) : addrTypeOf net bytes = Spec.addrType net bytes := by
  cases bytes with
  | nil => rw [C20_type_lookup_empty]; rfl
  | cons b rest =>
    have := arm_table net (Net.mem_all net) b.toNat (List.mem_range.2 b.toNat_lt)
    simp only [addrTypeOf, Spec.addrType, this]
    cases hu : Spec.untag b.toNat with
    | none => rfl
    | some nk =>
      obtain ⟨n', k⟩ := nk
      by_cases hn : n' = net
      · subst hn; cases k <;> simp
      · simp [hn]

/-- the forward table names nine distinct bytes (stated on the generated `asU8`, not on the reference table) -/
theorem C20_asU8_injective (n n' : Net) (k k' : Kind) (t : Nat) (h : asU8 n k = some t) (h' : asU8 n' k' = some t) :
    n = n' ∧ k = k' := by
  rw [C20_table] at h h'
  exact C20_injective n n' k k' ((Option.some.inj h).trans (Option.some.inj h').symm)

/-- the forward table is total, its value is the book's tag and fits a byte: in `Address::as_bytes` (Model/Address.lean)
`(asU8 n k).getD 0` never takes its default and `UInt8.ofNat` does not wrap (restated from `C20_asU8_lt`) -/
theorem C20_asU8_some_lt (n : Net) (k : Kind) : asU8 n k = some (Spec.tag n k) ∧ Spec.tag n k < 256 :=
  ⟨C20_table n k, by cases n <;> cases k <;> decide⟩
theorem C20_asU8_isSome (n : Net) (k : Kind) : (asU8 n k).isSome := by rw [(C20_asU8_some_lt n k).1]; rfl

/-- byte → pair → byte: whatever the address-type lookup accepts under `net`, its first byte is a byte the network
lookup maps to `net` AND the byte the forward table gives for `(net, k)`; the payment id has 8 bytes exactly for
integrated addresses (the slice `65..73` is never cut short by `take`) and none otherwise -/
theorem C20_decode_encode (net : Net) (k : Kind) (p : Bytes) (b : UInt8) (rest : Bytes)
    (h : addrTypeOf net (b :: rest) = some (k, p)) :
    fromU8 b.toNat = some net ∧ asU8 net k = some b.toNat ∧ p.length = (if k = .Integrated then 8 else 0) ∧
      p = if k = .Integrated then ((b :: rest).drop 65).take 8 else [] := by
  rw [C20_type_total] at h
  simp only [Spec.addrType] at h
  cases hu : Spec.untag b.toNat with
  | none => simp [hu] at h
  | some nk =>
    obtain ⟨n', k'⟩ := nk
    simp only [hu] at h
    by_cases hn : n' = net
    · subst hn
      have ht : Spec.tag n' k' = b.toNat := by
        revert hu; unfold Spec.untag; intro hu
        have := List.find?_some hu; simpa using this
      simp only [ne_eq, not_true_eq_false, if_false] at h
      by_cases hk : k' = .Integrated
      · subst hk
        simp only [if_true] at h
        by_cases hl : (b :: rest).length < 73
        · rw [if_pos hl] at h; exact absurd h (by simp)
        · rw [if_neg hl] at h
          simp only [Option.some.injEq, Prod.mk.injEq] at h
          obtain ⟨rfl, rfl⟩ := h
          refine ⟨by rw [C20_network_of_byte, hu]; rfl, by rw [C20_table, ht], ?_, by simp⟩
          simp only [if_true, List.length_take, List.length_drop]
          simp only [List.length_cons] at hl ⊢; omega
      · simp only [hk, if_false, Option.some.injEq, Prod.mk.injEq] at h
        obtain ⟨rfl, rfl⟩ := h
        exact ⟨by rw [C20_network_of_byte, hu]; rfl, by rw [C20_table, ht], by simp [hk], by simp [hk]⟩
    · simp [hn] at h

/-- pair → byte → pair, on the generated tables directly: the byte `as_u8` gives for `(n, k)` is mapped back to `n` by
`from_u8` and to `k` (under `n`) by `from_slice`, whatever follows it (integrated: at least 72 more bytes); the payment id
recovered is bytes 65..73 of the blob for an integrated address and nothing otherwise -/
theorem C20_encode_decode (n : Net) (k : Kind) (b : UInt8) (rest : Bytes) (h : asU8 n k = some b.toNat)
    (hl : k = .Integrated → 72 ≤ rest.length) :
    fromU8 b.toNat = some n ∧
      addrTypeOf n (b :: rest) = some (k, if k = .Integrated then ((b :: rest).drop 65).take 8 else []) := by
  rw [C20_table] at h
  have hb : b.toNat = Spec.tag n k := (Option.some.inj h).symm
  refine ⟨by rw [hb]; exact C20_network_inverse n k, ?_⟩
  rw [C20_type_lookup n k b rest hb]
  by_cases hk : k = .Integrated
  · have := hl hk
    simp only [hk, if_true, List.length_cons]
    rw [if_neg (by omega)]
  · simp only [hk, if_false]

/-- the whole round trip for an integrated address, payment id included: tag ‖ 64 bytes ‖ pid ‖ anything -/
theorem C20_encode_decode_integrated (n : Net) (b : UInt8) (keys pid tail : Bytes) (h : asU8 n .Integrated = some b.toNat)
    (hk : keys.length = 64) (hp : pid.length = 8) :
    addrTypeOf n (b :: (keys ++ pid ++ tail)) = some (.Integrated, pid) := by
  have := (C20_encode_decode n .Integrated b (keys ++ pid ++ tail) h (fun _ => by simp [hk, hp]; omega)).2
  rw [this]
  simp only [if_true]
  have e : (b :: (keys ++ pid ++ tail)).drop 65 = pid ++ tail := by
    rw [show (65 : Nat) = 64 + 1 from rfl, List.drop_succ_cons, List.append_assoc, List.drop_left' hk]
  rw [e, List.take_left' hp]

/-- the network lookup accepts a byte for `n` exactly when the forward table produces that byte for `n` and some type:
the two tables regenerated from src/network.rs agree with each other (no reference table involved in the statement) -/
theorem C20_tables_agree (b : UInt8) (n : Net) : fromU8 b.toNat = some n ↔ ∃ k, asU8 n k = some b.toNat := by
  constructor
  · intro h
    rw [C20_network_of_byte] at h
    cases hu : Spec.untag b.toNat with
    | none => simp [hu] at h
    | some nk =>
      obtain ⟨n', k⟩ := nk
      simp only [hu, Option.map_some, Option.some.injEq] at h
      subst h
      refine ⟨k, ?_⟩
      have := List.find?_some hu
      rw [C20_table]; simpa using this
  · rintro ⟨k, h⟩
    rw [C20_table] at h
    rw [← Option.some.inj h]; exact C20_network_inverse n k

/-- format check of the generated `from_slice` table: in every row the payment-id range `lo..hi` lies inside the minimum
length the row demands (`lo ≤ hi ≤ minLen`), has 8 bytes in the integrated rows and is empty in the others. (By itself this
says little about the Rust: observe.rs writes `(lo, lo+8)` / `(0, 0)` by construction and fails the extraction if a payment id
is not a slice inside the first accepted length. Its use is `C20_slice_exact` below.) -/
theorem C20_rows_wf : ∀ e ∈ Gen.addrType,
    e.2.2.2.2.1 ≤ e.2.2.2.2.2 ∧ e.2.2.2.2.2 ≤ e.2.2.2.1 ∧
      e.2.2.2.2.2 - e.2.2.2.2.1 = (if e.2.2.1 = .Integrated then 8 else 0) := by decide

private theorem arm_mem (net : Net) (b : Nat) (r : Kind × Nat × Nat × Nat) (h : addrArm net b = some r) :
    (net, b, r) ∈ Gen.addrType := by
  unfold addrArm at h
  cases hf : Gen.addrType.find? (fun e => e.1 = net ∧ e.2.1 = b) with
  | none => rw [hf] at h; exact absurd h (by simp)
  | some e =>
    rw [hf] at h
    have hm := List.mem_of_find?_eq_some hf
    have hp := List.find?_some hf
    obtain ⟨e1, e2, e3⟩ := e
    simp only [decide_eq_true_eq] at hp
    obtain ⟨rfl, rfl⟩ := hp
    simp only [Option.map_some, Option.some.injEq] at h
    subst h
    exact hm

/-- what the row format buys, for ANY table row the lookup may hit: once the length test of the row passed, the slice
`drop lo |>.take (hi - lo)` of `addrTypeOf` is exactly `hi - lo` bytes long — `take` is not cut short by the end of the blob
and the truncated subtraction hides no `lo > hi` — and it has 8 bytes exactly for an integrated row -/
theorem C20_slice_exact (net : Net) (b : UInt8) (rest : Bytes) (k : Kind) (minLen lo hi : Nat)
    (harm : addrArm net b.toNat = some (k, minLen, lo, hi)) (hl : minLen ≤ (b :: rest).length) :
    addrTypeOf net (b :: rest) = some (k, ((b :: rest).drop lo).take (hi - lo)) ∧
      (((b :: rest).drop lo).take (hi - lo)).length = hi - lo ∧ lo ≤ hi ∧
      hi - lo = (if k = .Integrated then 8 else 0) := by
  have hw := C20_rows_wf _ (arm_mem net b.toNat _ harm)
  simp only at hw
  obtain ⟨h1, h2, h3⟩ := hw
  refine ⟨?_, ?_, h1, h3⟩
  · simp only [addrTypeOf, harm]
    rw [if_neg (by omega)]
  · rw [List.length_take, List.length_drop]; omega

/-- the empty blob, read together with the observation: `addrTypeOf` returns what the observed flag dictates; the flag says
"`from_slice(&[], n)` was `Err` under every network, and did not panic" (observe.rs evaluates the call under `catch_unwind`;
it is the observed behaviour, not a reading of an `is_empty()` test in the source); hence the model rejects the empty blob,
and so does the by-the-book function -/
theorem C20_type_lookup_empty_guarded (net : Net) :
    addrTypeOf net [] = (if Gen.addrTypeEmptyIsError then none else some (.Standard, [])) ∧
    Gen.addrTypeEmptyIsError = true ∧ addrTypeOf net [] = none ∧ Spec.addrType net [] = none :=
  ⟨rfl, C20_empty_guard, C20_type_lookup_empty net, rfl⟩

/-! ## added after the second batch of seeded changes: first bytes with the high bit set, long blobs, table edges -/

/-- every tag is below 64 -/
theorem C20_tag_lt_64 (n : Net) (k : Kind) : Spec.tag n k < 64 := by cases n <;> cases k <;> decide

/-- a first byte with the high bit set (in particular `0x80 ||| tag`, the first byte of a two-byte varint spelling of a tag) is
rejected by the network lookup and, under every network and WHATEVER follows (`0x00` included), by the address-type lookup: the
tag is one byte, not a varint -/
theorem C20_reject_high_bit (b : UInt8) (hb : 128 ≤ b.toNat) (rest : Bytes) :
    fromU8 b.toNat = none ∧ ∀ net, addrTypeOf net (b :: rest) = none :=
  C20_reject_others b (fun n k h => by have := C20_tag_lt_64 n k; omega) rest

/-- the six non-integrated tags accept a blob of ANY length ≥ 1 (73 bytes and more included), with no payment id -/
theorem C20_nonintegrated_any_length (net : Net) (k : Kind) (hk : k ≠ .Integrated) (b : UInt8) (rest : Bytes)
    (hb : b.toNat = Spec.tag net k) : addrTypeOf net (b :: rest) = some (k, []) := by
  rw [C20_type_lookup net k b rest hb, if_neg hk]

/-- the edges of the accepted range of the network lookup: the smallest tag 18 and the largest tag 63 are accepted, their outer
neighbours 17 and 64 (and 0, 255) are not; and the three tags at the upper end of each network's run -/
theorem C20_network_edges :
    fromU8 17 = none ∧ fromU8 18 = some .Mainnet ∧ fromU8 63 = some .Testnet ∧ fromU8 64 = none ∧
    fromU8 0 = none ∧ fromU8 255 = none ∧ fromU8 42 = some .Mainnet ∧ fromU8 36 = some .Stagenet ∧
    fromU8 62 = none ∧ fromU8 43 = none ∧ fromU8 37 = none := by decide

/-- the network lookup accepts exactly nine byte values -/
theorem C20_network_accepts_nine : ((List.range 256).filter fun b => (fromU8 b).isSome).length = 9 := by decide +kernel

example : (200 : UInt8).toNat ≥ 128 := by decide
example : addrTypeOf .Mainnet ((0x92 : UInt8) :: 0 :: List.replicate 67 0) = none := (C20_reject_high_bit _ (by decide) _).2 _
example : addrTypeOf .Mainnet (18 :: List.replicate 76 7) = some (.Standard, []) := by decide
example : addrArm .Testnet (54 : UInt8).toNat = some (.Integrated, 73, 65, 73) := by decide
example : asU8 .Testnet .SubAddress = some (63 : UInt8).toNat := by decide
example : addrTypeOf .Stagenet (25 :: List.replicate 72 0) = some (.Integrated, List.replicate 8 0) := by decide

example : addrTypeOf .Mainnet (19 :: List.replicate 76 7) = some (.Integrated, List.replicate 8 7) := by decide
end C20
