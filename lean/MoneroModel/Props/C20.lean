import MoneroModel.Model.Tags
import MoneroModel.Spec.Tags
open Monero
/-! # C20 — the network / address-type tag table is Monero's and is a bijection

The model is *entirely generated*: `Monero.asU8`, `fromU8`, `addrTypeOf` are lookups in `Gen.asU8`, `Gen.fromU8`,
`Gen.addrType`, which the translator rewrites from src/network.rs and src/util/address.rs on every run. The finite
facts are decided by kernel evaluation over the *whole* domain (3×3 pairs, all 256 byte values) and lifted to arbitrary
blobs by ordinary lemmas. -/
namespace C20

/-- forward table = Monero's -/
theorem C20_table (n : Net) (k : Kind) : asU8 n k = some (Spec.tag n k) := by
  cases n <;> cases k <;> decide

/-- nine distinct bytes -/
theorem C20_injective (n n' : Net) (k k' : Kind) (h : Spec.tag n k = Spec.tag n' k') : n = n' ∧ k = k' := by
  cases n <;> cases k <;> cases n' <;> cases k' <;> first | exact ⟨rfl, rfl⟩ | (exact absurd h (by decide))

/-- a tag byte maps back to the network it came from -/
theorem C20_network_inverse (n : Net) (k : Kind) : fromU8 (Spec.tag n k) = some n := by
  cases n <;> cases k <;> decide

private theorem fromU8_table : ∀ b ∈ List.range 256, fromU8 b = (Spec.untag b).map (·.1) := by decide +kernel
private theorem arm_table : ∀ n ∈ Net.all, ∀ b ∈ List.range 256,
    addrArm n b = match Spec.untag b with
      | some (n', k) => if n' = n then some (k, if k = .Integrated then (73, 65, 73) else (0, 0, 0)) else none
      | none => none := by decide +kernel

/-- every byte value: the network lookup accepts exactly the nine tags -/
theorem C20_network_of_byte (b : UInt8) : fromU8 b.toNat = (Spec.untag b.toNat).map (·.1) :=
  fromU8_table b.toNat (List.mem_range.2 b.toNat_lt)

/-- bytes outside the table are rejected by the network lookup and, under every network, by the address-type lookup -/
theorem C20_reject_others (b : UInt8) (h : ∀ n k, Spec.tag n k ≠ b.toNat) (rest : Bytes) :
    fromU8 b.toNat = none ∧ ∀ net, addrTypeOf net (b :: rest) = none := by
  have hu : Spec.untag b.toNat = none := by
    unfold Spec.untag
    rw [List.find?_eq_none]
    intro p _
    simpa using h p.1 p.2
  refine ⟨by rw [C20_network_of_byte, hu]; rfl, fun net => ?_⟩
  have := arm_table net (Net.mem_all net) b.toNat (List.mem_range.2 b.toNat_lt)
  rw [hu] at this
  simp [addrTypeOf, this]

private theorem untag_tag (n : Net) (k : Kind) : Spec.untag (Spec.tag n k) = some (n, k) := by
  cases n <;> cases k <;> decide

/-- address-type lookup on an arbitrary blob: it depends only on the first byte, the length and bytes 65..73.
A blob starting with `tag net k` has type `k`; integrated needs at least 73 bytes and carries bytes 65..73 as payment
id; the empty blob is an error. -/
theorem C20_type_lookup (net : Net) (k : Kind) (b : UInt8) (rest : Bytes) (hb : b.toNat = Spec.tag net k) :
    addrTypeOf net (b :: rest) =
      if k = .Integrated then
        (if (b :: rest).length < 73 then none else some (k, ((b :: rest).drop 65).take 8))
      else some (k, []) := by
  have := arm_table net (Net.mem_all net) b.toNat (List.mem_range.2 b.toNat_lt)
  rw [hb, untag_tag] at this
  simp only [if_true] at this
  simp only [addrTypeOf, hb, this]
  cases k <;> simp

theorem C20_type_lookup_empty (net : Net) : addrTypeOf net [] = none := rfl

/-- a tag of one network is rejected under another -/
theorem C20_cross_network (n n' : Net) (k : Kind) (hne : n ≠ n') (b : UInt8) (rest : Bytes)
    (hb : b.toNat = Spec.tag n k) : addrTypeOf n' (b :: rest) = none := by
  have := arm_table n' (Net.mem_all n') b.toNat (List.mem_range.2 b.toNat_lt)
  rw [hb, untag_tag] at this
  simp only [hne, if_false] at this
  simp [addrTypeOf, hb, this]

/-- the generated table really rejects the empty blob before indexing (otherwise `bytes[0]` would panic) -/
theorem C20_empty_guard : Gen.addrTypeEmptyIsError = true := by decide

/-! ## added after the audit: the three generated tables tied to each other and to one total by-the-book function -/

/-- ONE total characterisation of the address-type lookup: on EVERY blob (any length, any content, the empty one
included) and under every network the model of `AddressType::from_slice` is the by-the-book function `Spec.addrType`
(Spec/Tags.lean) — the function relation C executes for the `addrtype` operation. -/
theorem C20_type_total (net : Net) (bytes : Bytes) : addrTypeOf net bytes = Spec.addrType net bytes := by
  cases bytes with
  | nil => rfl
  | cons b rest =>
    have := arm_table net (Net.mem_all net) b.toNat (List.mem_range.2 b.toNat_lt)
    simp only [addrTypeOf, Spec.addrType, this]
    cases hu : Spec.untag b.toNat with
    | none => rfl
    | some nk =>
      obtain ⟨n', k⟩ := nk
      by_cases hn : n' = net
      · subst hn; cases k <;> simp
      · simp [hn]

/-- the forward table names nine distinct bytes (stated on the generated `asU8`, not on the reference table) and every
one of them fits a byte: `UInt8.ofNat` in `Address::as_bytes` does not wrap and `getD 0` never takes its default -/
theorem C20_asU8_injective (n n' : Net) (k k' : Kind) (t : Nat) (h : asU8 n k = some t) (h' : asU8 n' k' = some t) :
    n = n' ∧ k = k' := by
  rw [C20_table] at h h'
  exact C20_injective n n' k k' ((Option.some.inj h).trans (Option.some.inj h').symm)

theorem C20_asU8_lt (n : Net) (k : Kind) :
    ∃ t, asU8 n k = some t ∧ t < 256 ∧ (UInt8.ofNat t).toNat = t ∧ (asU8 n k).getD 0 = t := by
  refine ⟨Spec.tag n k, C20_table n k, ?_, ?_, by rw [C20_table]; rfl⟩ <;> cases n <;> cases k <;> decide

/-- byte → pair → byte: whatever the address-type lookup accepts under `net`, its first byte is a byte the network
lookup maps to `net` AND the byte the forward table gives for `(net, k)`; the payment id has 8 bytes exactly for
integrated addresses (the slice `65..73` is never cut short by `take`) and none otherwise -/
theorem C20_decode_encode (net : Net) (k : Kind) (p : Bytes) (b : UInt8) (rest : Bytes)
    (h : addrTypeOf net (b :: rest) = some (k, p)) :
    fromU8 b.toNat = some net ∧ asU8 net k = some b.toNat ∧ p.length = (if k = .Integrated then 8 else 0) ∧
      p = if k = .Integrated then ((b :: rest).drop 65).take 8 else [] := by
  rw [C20_type_total] at h
  simp only [Spec.addrType] at h
  cases hu : Spec.untag b.toNat with
  | none => simp [hu] at h
  | some nk =>
    obtain ⟨n', k'⟩ := nk
    simp only [hu] at h
    by_cases hn : n' = net
    · subst hn
      have ht : Spec.tag n' k' = b.toNat := by
        revert hu; unfold Spec.untag; intro hu
        have := List.find?_some hu; simpa using this
      simp only [ne_eq, not_true_eq_false, if_false] at h
      by_cases hk : k' = .Integrated
      · subst hk
        simp only [if_true] at h
        by_cases hl : (b :: rest).length < 73
        · rw [if_pos hl] at h; exact absurd h (by simp)
        · rw [if_neg hl] at h
          simp only [Option.some.injEq, Prod.mk.injEq] at h
          obtain ⟨rfl, rfl⟩ := h
          refine ⟨by rw [C20_network_of_byte, hu]; rfl, by rw [C20_table, ht], ?_, by simp⟩
          simp only [if_true, List.length_take, List.length_drop]
          simp only [List.length_cons] at hl ⊢; omega
      · simp only [hk, if_false, Option.some.injEq, Prod.mk.injEq] at h
        obtain ⟨rfl, rfl⟩ := h
        exact ⟨by rw [C20_network_of_byte, hu]; rfl, by rw [C20_table, ht], by simp [hk], by simp [hk]⟩
    · simp [hn] at h

/-- pair → byte → pair, on the generated tables directly: the byte `as_u8` gives for `(n, k)` is mapped back to `n` by
`from_u8` and to `k` (under `n`) by `from_slice`, whatever follows it (integrated: at least 72 more bytes) -/
theorem C20_encode_decode (n : Net) (k : Kind) (b : UInt8) (rest : Bytes) (h : asU8 n k = some b.toNat)
    (hl : k = .Integrated → 72 ≤ rest.length) :
    fromU8 b.toNat = some n ∧ ∃ p, addrTypeOf n (b :: rest) = some (k, p) := by
  rw [C20_table] at h
  have hb : b.toNat = Spec.tag n k := (Option.some.inj h).symm
  refine ⟨by rw [hb]; exact C20_network_inverse n k, ?_⟩
  rw [C20_type_lookup n k b rest hb]
  by_cases hk : k = .Integrated
  · have := hl hk
    simp only [hk, if_true, List.length_cons]
    rw [if_neg (by omega)]; exact ⟨_, rfl⟩
  · simp only [hk, if_false]; exact ⟨_, rfl⟩

/-- the network lookup accepts a byte for `n` exactly when the forward table produces that byte for `n` and some type:
the two tables regenerated from src/network.rs agree with each other (no reference table involved in the statement) -/
theorem C20_tables_agree (b : UInt8) (n : Net) : fromU8 b.toNat = some n ↔ ∃ k, asU8 n k = some b.toNat := by
  constructor
  · intro h
    rw [C20_network_of_byte] at h
    cases hu : Spec.untag b.toNat with
    | none => simp [hu] at h
    | some nk =>
      obtain ⟨n', k⟩ := nk
      simp only [hu, Option.map_some, Option.some.injEq] at h
      subst h
      refine ⟨k, ?_⟩
      have := List.find?_some hu
      rw [C20_table]; simpa using this
  · rintro ⟨k, h⟩
    rw [C20_table] at h
    rw [← Option.some.inj h]; exact C20_network_inverse n k

/-- every row of the regenerated `from_slice` table is well formed: the payment-id range `lo..hi` lies inside the
minimum length the row demands (`lo ≤ hi ≤ minLen`, so `bytes[lo..hi]` cannot be out of range once the length test
passed and `drop`/`take`/truncated subtraction in `addrTypeOf` hide nothing), it has 8 bytes exactly in the integrated
rows and is empty in the others -/
theorem C20_rows_wf : ∀ e ∈ Gen.addrType,
    e.2.2.2.2.1 ≤ e.2.2.2.2.2 ∧ e.2.2.2.2.2 ≤ e.2.2.2.1 ∧
      e.2.2.2.2.2 - e.2.2.2.2.1 = (if e.2.2.1 = .Integrated then 8 else 0) := by decide

/-- the empty blob, read together with the source: the regenerated flag says the code tests `is_empty()` before it
indexes `bytes[0]` (so there is no panic), and the model and the by-the-book function both reject it under every network -/
theorem C20_type_lookup_empty_guarded (net : Net) :
    Gen.addrTypeEmptyIsError = true ∧ addrTypeOf net [] = none ∧ Spec.addrType net [] = none := ⟨by decide, rfl, rfl⟩

example : asU8 .Testnet .SubAddress = some (63 : UInt8).toNat := by decide
example : addrTypeOf .Stagenet (25 :: List.replicate 72 0) = some (.Integrated, List.replicate 8 0) := by decide

example : addrTypeOf .Mainnet (19 :: List.replicate 76 7) = some (.Integrated, List.replicate 8 7) := by decide
end C20
