import MoneroModel.Proofs.Address
import MoneroModel.Proofs.AddressForms
import MoneroModel.Proofs.AddressSpec
import MoneroModel.Proofs.AddressFormsSpec
import MoneroModel.Proofs.AddressKAT
import MoneroModel.Proofs.AddressKAT2
import MoneroModel.Proofs.Base58Bij
import MoneroModel.Proofs.Base58Imp
import MoneroModel.Proofs.Base58Reject
import MoneroModel.Ref.Keccak
import MoneroModel.Model.Keys
import MoneroModel.Proofs.KeysSound
import MoneroModel.Proofs.KeysRef
open Monero Monero.Address
/-! # C12 — the address text form round-trips, is Monero's, and is the only accepted spelling

Objects. `Monero.Address.{fromBytes, asBytes, toStr, fromStr, asHex, fromHex, consensusDecode, consensusEncode}`
(Model/Address.lean) mirror src/util/address.rs as it is now (exact blob length 69 / 77); `Monero.B58` mirrors the
`base58-monero` crate; `Base58` (Ref/Base58.lean) and `Spec.Address.{blob, text, parse, parseText}` (Spec/Address.lean)
are the by-the-book reference (cryptonote `tools::base58`, cryptonote_basic_impl.cpp). `Spec.Address.{hexOf, parseHex,
parseConsensus}` are NOT from Monero, which has no hex or consensus form of an address: they are an independent
restatement, written in this project, of the library's documented hex / consensus form.
The tag tables are the generated ones of C20. Every theorem holds for EVERY checksum function `H` and EVERY key
acceptance test `vk`; where a length is needed the hypothesis is `hH : ∀ x, 4 ≤ (H x).length` (true of Keccak-256, see the
`example` at the end). `WF vk a` describes the addresses the public constructors can build: two accepted 32-byte keys and
an 8-byte payment id exactly for integrated addresses.

Scope notes. (1) `Address` has public fields and `PublicKey` a public `point`, so a Rust caller can assemble an `Address`
whose key bytes are not an accepted key; `as_bytes` / `to_string` succeed on it and `from_str (to_string a)` fails. Such
values are outside `WF` and outside the property ("valid public keys"). (2) Error kinds are not modelled: every `Err(_)`
is `none`. (3) `&str` input is modelled by its UTF-8 bytes; bytes ≥ 0x80 are not in the base58 / hex alphabets, so every
text with a non-ASCII byte is rejected by the model for that reason — this is theorem `C12_rejects_non_ascii` (`FromStr`,
`base58::decode` and `hex::FromHex`) — while the executor of the harness answers `err` for byte strings that are not
UTF-8 without calling the library (they cannot be passed as `&str`). (4) The general theorems are stated for
abstract `H`, `vk`; the `*_ed25519` theorems instantiate them with Keccak-256 and the model of `PublicKey::from_slice`,
which is what the driver executes on the model side (the spec side runs the RFC 8032 reference decoder). -/
namespace C12
variable (H : Bytes → Bytes) (vk : Bytes → Bool)

/-! ## blob -/

/-- `as_bytes` = tag ‖ spend ‖ view ‖ [payment id] ‖ H(all before)[0..4]; for a well-formed address this is the reference
blob, 69 bytes long, 77 for integrated addresses. -/
theorem C12_layout (a : Address) :
    asBytes H a =
      (UInt8.ofNat (Spec.tag a.net a.kind) :: (a.spend ++ (a.view ++ (if a.kind = .Integrated then a.pid else [])))) ++
        (H (UInt8.ofNat (Spec.tag a.net a.kind) :: (a.spend ++ (a.view ++ (if a.kind = .Integrated then a.pid else []))))).take 4
    ∧ (WF vk a → (∀ x, 4 ≤ (H x).length) →
        asBytes H a = Spec.Address.blob H a.net a.kind a.spend a.view a.pid ∧
        (asBytes H a).length = if a.kind = .Integrated then 77 else 69) := by
  refine ⟨asBytes_eq H a, fun hw hH => ?_⟩
  obtain ⟨hs, hv, _, _, hp⟩ := hw
  have hpid : a.kind ≠ .Integrated → a.pid = [] := fun hk => by simpa [hk] using hp
  rw [asBytes_eq_blob H a hpid]
  exact ⟨rfl, blob_length H a.net a.kind a.spend a.view a.pid hs hv hp hH⟩

/-- `from_bytes (as_bytes a) = a` for every well-formed address -/
theorem C12_bytes_roundtrip (a : Address) (hw : WF vk a) (hH : ∀ x, 4 ≤ (H x).length) :
    fromBytes H vk (asBytes H a) = some a := by
  obtain ⟨hs, hv, hvs, hvv, hp⟩ := hw
  have hpid : a.kind ≠ .Integrated → a.pid = [] := fun hk => by simpa [hk] using hp
  rw [asBytes_eq_blob H a hpid]
  exact fromBytes_blob H vk a.net a.kind a.spend a.view a.pid hs hv hvs hvv hp hH

/-- EVERY blob: `from_bytes b = Ok a` implies `as_bytes a = b` — only the canonical blob of an address is accepted -/
theorem C12_bytes_canonical (b : Bytes) (a : Address) (h : fromBytes H vk b = some a) : asBytes H a = b :=
  fromBytes_canonical H vk b a h

/-- what is returned is well-formed -/
theorem C12_bytes_wf (b : Bytes) (a : Address) (h : fromBytes H vk b = some a) : WF vk a := by
  obtain ⟨b0, rest, rfl, hn, hk, hs, hv, hvs, hvv, hl, _⟩ := fromBytes_some H vk _ a h
  obtain ⟨_, _, hp⟩ := tag_of_lookup b0 rest a.net a.kind a.pid hn hk
  have h65 : 65 ≤ bodyLen a.kind := by unfold bodyLen; split <;> omega
  simp only [List.length_cons] at hl
  refine ⟨by rw [hs]; simp; omega, by rw [hv]; simp; omega, hvs, hvv, ?_⟩
  by_cases hki : a.kind = .Integrated
  · simp only [hki, if_true] at hp ⊢
    rw [hp]; simp [bodyLen, hki] at hl ⊢; omega
  · simpa [hki] using hp

/-- acceptance, exactly: the accepted blobs are the serialisations of the well-formed addresses -/
theorem C12_bytes_iff (b : Bytes) (a : Address) (hH : ∀ x, 4 ≤ (H x).length) :
    fromBytes H vk b = some a ↔ WF vk a ∧ asBytes H a = b :=
  ⟨fun h => ⟨C12_bytes_wf H vk b a h, C12_bytes_canonical H vk b a h⟩,
   fun ⟨hw, he⟩ => he ▸ C12_bytes_roundtrip H vk a hw hH⟩

/-- the model of `from_bytes` IS the by-the-book parser `Spec.Address.parse` (hand-written tag table, exact layout,
both keys valid, checksum): same acceptance set, same result, on every blob -/
theorem C12_parse_is_monero (b : Bytes) (hH : ∀ x, 4 ≤ (H x).length) :
    fromBytes H vk b = (Spec.Address.parse H vk b).map fun (n, k, s, v, p) => (⟨n, k, p, s, v⟩ : Address) := by
  cases hf : fromBytes H vk b with
  | some a =>
    have hw := C12_bytes_wf H vk b a hf
    have hb := C12_bytes_canonical H vk b a hf
    have hpid : a.kind ≠ .Integrated → a.pid = [] := fun hk => by simpa [hk] using hw.2.2.2.2
    rw [asBytes_eq_blob H a hpid] at hb
    rw [← hb, spec_parse_blob H vk a.net a.kind a.spend a.view a.pid hw hH]
    rfl
  | none =>
    cases hp : Spec.Address.parse H vk b with
    | none => rfl
    | some r =>
      obtain ⟨n, k, s, v, p⟩ := r
      obtain ⟨hw, hb⟩ := spec_parse_some H vk b n k s v p hp
      obtain ⟨hs, hv, hvs, hvv, hpp⟩ := hw
      rw [← hb, fromBytes_blob H vk n k s v p hs hv hvs hvv hpp hH] at hf
      exact absurd hf (by simp)

/-! ## Monero base58 -/

/-- the model of the `base58-monero` crate computes the reference functions: encoding never fails -/
theorem C12_b58_model_eq_ref (b : Bytes) (s : List UInt8) :
    B58.encode b = some (Base58.encode b) ∧ B58.decode s = Base58.decode s :=
  ⟨B58.encode_eq b, B58.decode_eq s.length s rfl⟩

/-- decode ∘ encode = id on ALL byte strings (crate model and reference) -/
theorem C12_b58_dec_enc (b : Bytes) :
    (∃ s, B58.encode b = some s ∧ B58.decode s = some b) ∧ Base58.decode (Base58.encode b) = some b := by
  have h := Base58.decode_encode b.length b rfl
  exact ⟨⟨Base58.encode b, B58.encode_eq b, by rw [B58.decode_eq _ _ rfl]; exact h⟩, h⟩

/-- `decode s = Ok b` implies `encode b = s`: only the canonical text of a byte string is accepted (no alternative
block lengths, no leading-`1` padding, no overflowing blocks, no foreign characters) -/
theorem C12_b58_enc_dec (s : List UInt8) (b : Bytes) :
    (B58.decode s = some b → B58.encode b = some s) ∧ (Base58.decode s = some b → Base58.encode b = s) := by
  refine ⟨fun h => ?_, Base58.encode_of_decode s.length s b rfl⟩
  rw [B58.decode_eq _ _ rfl] at h
  rw [B58.encode_eq, Base58.encode_of_decode s.length s b rfl h]

/-- length of the text: 11 characters per 8 bytes and the tail table 0,2,3,5,6,7,9,10,11 — 95 and 106 for addresses -/
theorem C12_b58_length (b : Bytes) :
    (Base58.encode b).length = 11 * (b.length / 8) + Base58.encSize (b.length % 8) :=
  Base58.encode_length b.length b rfl

/-- per block, for the CRATE's `decode_block` (`B58.decodeBlock`, Model/Address.lean): a text block is accepted with
result `(d, k)` iff its length is the table entry of `k` bytes, all its characters are in the alphabet (`ds` are their
digits) and its value is below 256^k; then `d` is the `[u8; 8]` big-endian form of that value, and the slice
`d[8 - k..]` which `decode` keeps is the `k` big-endian bytes of the value -/
theorem C12_b58_block (cs : List UInt8) (d : Bytes) (k : Nat) :
    B58.decodeBlock cs = some (d, k) ↔
      ∃ ds, Base58.decSize cs.length = some k ∧ Base58.digitsOf cs = some ds ∧ Base58.ofDigits 58 ds < 256 ^ k ∧
        d = B58.beBytes 8 (Base58.ofDigits 58 ds) ∧
        d.drop (8 - k) = (Base58.toDigits 256 k (Base58.ofDigits 58 ds)).map UInt8.ofNat := by
  rw [B58.decodeBlock_some_iff]
  constructor
  · rintro ⟨ds, hk, hd, hlt, rfl⟩
    refine ⟨ds, hk, hd, hlt, rfl, ?_⟩
    rw [B58.beBytes_drop _ _ (Base58.decSize_some _ _ hk).1, B58.beBytes_eq]
  · rintro ⟨ds, hk, hd, hlt, he, _⟩
    exact ⟨ds, hk, hd, hlt, he⟩

/-- per block, refusal by the crate's `decode_block`, exactly: the length is not a table entry, or some character is
outside the alphabet, or the value does not fit into the `k` bytes of the block (overflow) -/
theorem C12_b58_block_refused (cs : List UInt8) :
    B58.decodeBlock cs = none ↔
      Base58.decSize cs.length = none ∨ (∃ c, c ∈ cs ∧ c ∉ Base58.alphabet) ∨
      ∃ k ds, Base58.decSize cs.length = some k ∧ Base58.digitsOf cs = some ds ∧ 256 ^ k ≤ Base58.ofDigits 58 ds :=
  B58.decodeBlock_none_iff cs

/-- a block that `decode_block` refuses, sitting at a block boundary — a full 11-character block anywhere in the text,
or the last block (at most 11 characters, nothing after it) — makes `base58::decode` refuse the whole text. (A refused
block is never empty: the empty block is accepted.) -/
theorem C12_b58_bad_block (pre blk rest : List UInt8) (hp : pre.length % 11 = 0)
    (hb : blk.length = 11 ∨ (blk.length ≤ 11 ∧ rest = [])) (hbad : B58.decodeBlock blk = none) :
    B58.decode (pre ++ blk ++ rest) = none := by
  rw [List.append_assoc]
  exact B58.decode_append_none (pre.length / 11) pre _ (by omega) (B58.decode_head_none blk rest hb hbad)

/-- overflow, per block: all characters in the alphabet, legal length for `k` bytes, value ≥ 256^k — refused by the
crate's `decode_block`. This covers the short tail blocks (k < 8, bound `1 << 8k`) as well as the full block (bound 2^64) -/
theorem C12_b58_block_overflow (cs : List UInt8) (ds : List Nat) (k : Nat) (hk : Base58.decSize cs.length = some k)
    (hd : Base58.digitsOf cs = some ds) (hov : 256 ^ k ≤ Base58.ofDigits 58 ds) : B58.decodeBlock cs = none :=
  (C12_b58_block_refused cs).2 (Or.inr (Or.inr ⟨k, ds, hk, hd, hov⟩))

/-- an overflowing block is rejected at EVERY block position, including the short tail block: `blk` (alphabet
characters, legal length for `k` bytes, value ≥ 256^k) after any number of whole blocks `pre`, followed by anything if it
is a full block, or by nothing — the text is refused by the crate model, by the reference decoder, and by `FromStr` for
every checksum function and key test -/
theorem C12_b58_overflow (pre blk rest : List UInt8) (ds : List Nat) (k : Nat) (hp : pre.length % 11 = 0)
    (hb : blk.length = 11 ∨ rest = []) (hk : Base58.decSize blk.length = some k)
    (hd : Base58.digitsOf blk = some ds) (hov : 256 ^ k ≤ Base58.ofDigits 58 ds) :
    B58.decode (pre ++ blk ++ rest) = none ∧ Base58.decode (pre ++ blk ++ rest) = none ∧
    fromStr H vk (pre ++ blk ++ rest) = none := by
  have h : B58.decode (pre ++ blk ++ rest) = none :=
    C12_b58_bad_block pre blk rest hp (hb.imp id fun e => ⟨B58.decSize_le _ _ hk, e⟩)
      (C12_b58_block_overflow blk ds k hk hd hov)
  refine ⟨h, ?_, by rw [fromStr, h]⟩
  rw [← B58.decode_eq _ _ rfl]; exact h

/-- closed instances, by evaluation of the crate model: the all-`z` full block (58^11 − 1 ≥ 2^64), the all-`z`
7-character tail block (5 bytes: 58^7 − 1 ≥ 2^40), the 7-character spelling `VtB5VXd` of exactly 2^40 — all refused —
and `VtB5VXc` (2^40 − 1), the largest accepted 7-character block -/
theorem C12_b58_overflow_examples :
    B58.decodeBlock (List.replicate 11 122) = none ∧ B58.decodeBlock (List.replicate 7 122) = none ∧
    B58.decodeBlock [86, 116, 66, 53, 86, 88, 100] = none ∧
    B58.decodeBlock [86, 116, 66, 53, 86, 88, 99] = some ([0, 0, 0, 255, 255, 255, 255, 255], 5) := by decide

/-- an address-length text (95 = 8·11 + 7 or 106 = 9·11 + 7 characters) whose 7-character tail is `zzzzzzz` is refused
by `base58::decode` and by `FromStr`, whatever the checksum function and the key test -/
theorem C12_b58_overflow_tail (pre : List UInt8) (hp : pre.length = 88 ∨ pre.length = 99) :
    B58.decode (pre ++ List.replicate 7 122) = none ∧ fromStr H vk (pre ++ List.replicate 7 122) = none := by
  have h := C12_b58_overflow H vk pre (List.replicate 7 122) [] (List.replicate 7 57) 5 (by omega) (Or.inr rfl)
    (by decide) (by decide) (by decide)
  rw [List.append_nil] at h
  exact ⟨h.1, h.2.2⟩

/-- two different texts never decode to the same bytes (in particular a value has one spelling per block: no
non-canonical spelling of a tail block is accepted) -/
theorem C12_b58_decode_injective (s s' : List UInt8) (b : Bytes) (h : B58.decode s = some b)
    (h' : B58.decode s' = some b) : s = s' :=
  Option.some.inj (((C12_b58_enc_dec s b).1 h).symm.trans ((C12_b58_enc_dec s' b).1 h'))

-- the hypotheses are satisfiable, and the theorems bite
example : B58.decodeBlock [49, 50] = some ([0, 0, 0, 0, 0, 0, 0, 1], 1) := by decide
example : ∃ ds, Base58.decSize [49, 50].length = some 1 ∧ Base58.digitsOf [49, 50] = some ds ∧
    Base58.ofDigits 58 ds < 256 ^ 1 := ⟨[0, 1], by decide, by decide, by decide⟩
/-- a refused full block in the middle (after one whole block, before a 2-character tail) -/
example : B58.decode (List.replicate 11 49 ++ List.replicate 11 122 ++ [49, 49]) = none :=
  C12_b58_bad_block _ _ _ (by decide) (Or.inl (by decide)) C12_b58_overflow_examples.1
/-- a refused tail block of an illegal length (4 characters) at the end -/
example : B58.decode (List.replicate 11 49 ++ [49, 49, 49, 49] ++ []) = none :=
  C12_b58_bad_block _ _ _ (by decide) (Or.inr ⟨by decide, rfl⟩) (by decide)
example : B58.decodeBlock (List.replicate 7 122) = none :=
  C12_b58_block_overflow _ (List.replicate 7 57) 5 (by decide) (by decide) (by decide)
example : B58.decode (List.replicate 88 49 ++ [86, 116, 66, 53, 86, 88, 100] ++ []) = none :=
  (C12_b58_overflow (fun _ => []) (fun _ => true) _ _ _ [28, 51, 10, 4, 28, 30, 36] 5 (by decide) (Or.inr rfl)
    (by decide) (by decide) (by decide)).1
example : (List.replicate 88 (49 : UInt8)).length = 88 ∨ (List.replicate 88 (49 : UInt8)).length = 99 := Or.inl (by decide)
example : B58.decode (Base58.encode [0x12, 0x34]) = some [0x12, 0x34] := by
  rw [(C12_b58_model_eq_ref [] _).2]; exact (C12_b58_dec_enc _).2

/-! ## text -/

/-- `Display` never fails and produces the reference text of the reference blob -/
theorem C12_str_is_monero (a : Address) (hw : WF vk a) :
    toStr H a = some (Spec.Address.text H a.net a.kind a.spend a.view a.pid) := by
  obtain ⟨_, _, _, _, hp⟩ := hw
  have hpid : a.kind ≠ .Integrated → a.pid = [] := fun hk => by simpa [hk] using hp
  rw [toStr, B58.encode_eq, asBytes_eq_blob H a hpid]; rfl

/-- `from_str (to_string a) = a` -/
theorem C12_str_roundtrip (a : Address) (hw : WF vk a) (hH : ∀ x, 4 ≤ (H x).length) :
    ∃ s, toStr H a = some s ∧ fromStr H vk s = some a := by
  refine ⟨Base58.encode (asBytes H a), B58.encode_eq _, ?_⟩
  rw [fromStr, B58.decode_eq _ _ rfl, Base58.decode_encode _ _ rfl]
  exact C12_bytes_roundtrip H vk a hw hH

/-- EVERY string: `from_str s = Ok a` implies `to_string a = s` — the only accepted spelling of an address is its
canonical text -/
theorem C12_str_canonical (s : List UInt8) (a : Address) (h : fromStr H vk s = some a) : toStr H a = some s := by
  unfold fromStr at h
  cases hd : B58.decode s with
  | none => simp [hd] at h
  | some b =>
    simp only [hd] at h
    rw [toStr, C12_bytes_canonical H vk b a h]
    exact (C12_b58_enc_dec s b).1 hd

/-- the model of `FromStr` IS the by-the-book text parser (reference base58, then the by-the-book blob parser) -/
theorem C12_parse_text_is_monero (s : List UInt8) (hH : ∀ x, 4 ≤ (H x).length) :
    fromStr H vk s = (Spec.Address.parseText H vk s).map fun (n, k, sp, v, p) => (⟨n, k, p, sp, v⟩ : Address) := by
  unfold fromStr Spec.Address.parseText
  rw [B58.decode_eq _ _ rfl]
  cases Base58.decode s with
  | none => rfl
  | some b => exact C12_parse_is_monero H vk b hH

/-! ## consensus and hex forms -/

/-- `consensus_decode (consensus_encode a ‖ rest) = (a, rest)` -/
theorem C12_consensus_roundtrip (a : Address) (rest : Bytes) (hw : WF vk a) (hH : ∀ x, 4 ≤ (H x).length) :
    consensusDecode H vk (consensusEncode H a ++ rest) = some (a, rest) :=
  consensus_roundtrip H vk a rest hw hH

/-- an accepted consensus encoding is the canonical one followed by the unread rest -/
theorem C12_consensus_canonical (b rest : Bytes) (a : Address) (h : consensusDecode H vk b = some (a, rest)) :
    b = consensusEncode H a ++ rest :=
  consensus_canonical H vk b rest a h

/-- `from_hex (as_hex a) = a`, with or without the `0x` prefix (the hex form is deliberately case- and
prefix-insensitive, so no canonicity is claimed for it) -/
theorem C12_hex_roundtrip (a : Address) (hw : WF vk a) (hH : ∀ x, 4 ≤ (H x).length) :
    fromHex H vk (asHex H a) = some a ∧ fromHex H vk (48 :: 120 :: asHex H a) = some a := by
  have hrt := C12_bytes_roundtrip H vk a hw hH
  constructor
  · rw [fromHex, asHex, stripPrefix0x_encode, HexM.decode_encode]; exact hrt
  · rw [fromHex, stripPrefix0x_prefixed, asHex, HexM.decode_encode]; exact hrt

/-- whatever hex spelling is accepted, the bytes it denotes are the canonical blob -/
theorem C12_hex_blob_canonical (s : List UInt8) (a : Address) (h : fromHex H vk s = some a) :
    HexM.decode (stripPrefix0x s) = some (asBytes H a) := by
  unfold fromHex at h
  cases hd : HexM.decode (stripPrefix0x s) with
  | none => simp [hd] at h
  | some b => simp only [hd] at h; rw [C12_bytes_canonical H vk b a h]

/-! ## hex and consensus forms = an independent restatement of the library's documented forms (G07)

`Spec.Address.{hexOf, parseHex, parseConsensus}` are an independent restatement, written in this project, of the library's
documented hex / consensus form (optional `0x`, either case / one length byte < 128 then the blob) — Monero itself has no
hex or consensus form of an address; only the blob parser underneath (`Spec.Address.parse`) follows
cryptonote_basic_impl.cpp. The theorems of this section are equalities of two independently written functions. -/

/-- `as_hex` is `Spec.Address.hexOf` of the by-the-book blob, where `hexOf` (lowercase hexadecimal, two characters per
byte) is an independent restatement, written in this project, of the library's documented hex form (optional `0x`,
either case) — Monero itself has no hex or consensus form of an address; only the blob underneath
(`Spec.Address.blob`, parsed by `Spec.Address.parse`) follows cryptonote_basic_impl.cpp. Its length is 2·69 = 138
characters, 2·77 = 154 for integrated addresses, for every checksum function with at least four bytes of output -/
theorem C12_hex_is_spec (a : Address) (hw : WF vk a) :
    asHex H a = Spec.Address.hexOf (Spec.Address.blob H a.net a.kind a.spend a.view a.pid) ∧
    ((∀ x, 4 ≤ (H x).length) → (asHex H a).length = if a.kind = .Integrated then 154 else 138) := by
  have hpid : a.kind ≠ .Integrated → a.pid = [] := fun hk => by simpa [hk] using hw.2.2.2.2
  refine ⟨by rw [asHex, HexM.encode_eq_hexOf, asBytes_eq_blob H a hpid], fun hH => ?_⟩
  rw [asHex, HexM.encode_length, ((C12_layout H vk a).2 hw hH).2]
  split <;> rfl

/-- `consensus_encode` is one length byte (69 or 77) followed by the by-the-book blob. "One length byte < 128, then the
blob" is an independent restatement, written in this project, of the library's documented consensus form — Monero itself
has no hex or consensus form of an address; only the blob (`Spec.Address.blob`) follows cryptonote_basic_impl.cpp -/
theorem C12_consensus_is_spec (a : Address) (hw : WF vk a) (hH : ∀ x, 4 ≤ (H x).length) :
    consensusEncode H a =
      UInt8.ofNat (if a.kind = .Integrated then 77 else 69) :: Spec.Address.blob H a.net a.kind a.spend a.view a.pid :=
  consensusEncode_eq_spec H vk a hw hH

/-- the model of `hex::FromHex for Address` equals, on EVERY input, `Spec.Address.parseHex`: an independent restatement,
written in this project, of the library's documented hex form (optional `0x`, an even number of digits of either case,
then the blob) — Monero itself has no hex or consensus form of an address; only the blob parser underneath
(`Spec.Address.parse`) follows cryptonote_basic_impl.cpp. An equality of two independently written functions -/
theorem C12_parse_hex_is_monero (s : List UInt8) (hH : ∀ x, 4 ≤ (H x).length) :
    fromHex H vk s = (Spec.Address.parseHex H vk s).map fun (n, k, sp, v, p) => (⟨n, k, p, sp, v⟩ : Address) := by
  rw [fromHex, HexM.decode_eq_unhexDigits, parseHex_eq]
  cases Spec.Address.unhexDigits (stripPrefix0x s) with
  | none => rfl
  | some b => exact C12_parse_is_monero H vk b hH

/-- the model of `Decodable for Address` equals, on EVERY input, `Spec.Address.parseConsensus`: an independent
restatement, written in this project, of the library's documented consensus form (one length byte < 128, then that many
bytes, the blob) — Monero itself has no hex or consensus form of an address; only the blob parser underneath
(`Spec.Address.parse`) follows cryptonote_basic_impl.cpp. Same acceptance set, same address, same number of bytes
consumed -/
theorem C12_parse_consensus_is_monero (b : Bytes) (hH : ∀ x, 4 ≤ (H x).length) :
    consensusDecode H vk b = (Spec.Address.parseConsensus H vk b).map
      fun ((n, k, sp, v, p), used) => ((⟨n, k, p, sp, v⟩ : Address), b.drop used) :=
  consensusDecode_eq_spec H vk b hH
-- end G07 forms block

/-! ## rejections (corollaries) -/

/-- a first byte that is not one of Monero's nine tags -/
theorem C12_rejects_unknown_tag (b0 : UInt8) (rest : Bytes) (h : ∀ n k, Spec.tag n k ≠ b0.toNat) :
    fromBytes H vk (b0 :: rest) = none := by
  cases hf : fromBytes H vk (b0 :: rest) with
  | none => rfl
  | some a =>
    obtain ⟨b0', rest', he, hn, _⟩ := fromBytes_some H vk _ a hf
    obtain ⟨rfl, rfl⟩ := List.cons.inj he
    rw [(C20.C20_reject_others b0 h rest).1] at hn
    exact absurd hn (by simp)

/-- a blob of one of the two legal lengths whose last four bytes are not the first four of the hash of the rest. (The
other lengths are refused by the length test, `C12_length_of_accepted`; there the slices below are not what the
library hashes, so the theorem is stated for 69 / 77 only, where it is about the checksum.) -/
theorem C12_rejects_checksum (b : Bytes) (hl : b.length = 69 ∨ b.length = 77)
    (h : (H (b.take (b.length - 4))).take 4 ≠ b.drop (b.length - 4)) :
    fromBytes H vk b = none := by
  cases hf : fromBytes H vk b with
  | none => rfl
  | some a =>
    obtain ⟨b0, rest, _, _, _, _, _, _, _, hl', hc⟩ := fromBytes_some H vk _ a hf
    have e : b.length - 4 = bodyLen a.kind := by rcases hl with hl | hl <;> omega
    rw [e, hc] at h
    exact absurd (List.take_of_length_le (by rw [List.length_drop]; omega)) h

/-- the hypotheses of `C12_rejects_checksum` are jointly satisfiable by a full-length blob: 65 zero bytes, then a
"checksum" 1,2,3,4 that is not the (constant) hash -/
example : fromBytes (fun _ => [0, 0, 0, 0]) vk (List.replicate 65 0 ++ [1, 2, 3, 4]) = none :=
  C12_rejects_checksum _ vk _ (Or.inl (by decide)) (by decide)

/-- one of the two keys is not accepted by `PublicKey::from_slice` -/
theorem C12_rejects_invalid_key (b : Bytes) (h : vk ((b.drop 1).take 32) = false ∨ vk ((b.drop 33).take 32) = false) :
    fromBytes H vk b = none := by
  cases hf : fromBytes H vk b with
  | none => rfl
  | some a =>
    obtain ⟨b0, rest, _, _, _, hs, hv, hvs, hvv, _⟩ := fromBytes_some H vk _ a hf
    rw [hs] at hvs; rw [hv] at hvv
    rcases h with h | h
    · rw [h] at hvs; exact absurd hvs (by simp)
    · rw [h] at hvv; exact absurd hvv (by simp)

/-- the length is dictated by the tag: 77 for the three integrated tags, 69 for the six others -/
theorem C12_length_of_accepted (b : Bytes) (a : Address) (h : fromBytes H vk b = some a) :
    ∃ b0 rest, b = b0 :: rest ∧ Spec.untag b0.toNat = some (a.net, a.kind) ∧
      b.length = if a.kind = .Integrated then 77 else 69 := by
  obtain ⟨b0, rest, rfl, hn, hk, _, _, _, _, hl, _⟩ := fromBytes_some H vk _ a h
  obtain ⟨_, hu, _⟩ := tag_of_lookup b0 rest a.net a.kind a.pid hn hk
  refine ⟨b0, rest, rfl, hu, ?_⟩
  rw [hl]; unfold bodyLen; split <;> rfl

/-- short input -/
theorem C12_rejects_short (b : Bytes) (h : b.length < 69) : fromBytes H vk b = none := by
  cases hf : fromBytes H vk b with
  | none => rfl
  | some a =>
    obtain ⟨_, _, _, _, hl⟩ := C12_length_of_accepted H vk b a hf
    split at hl <;> omega

/-- trailing data: no proper extension of an accepted blob is accepted -/
theorem C12_rejects_trailing (b ext : Bytes) (a : Address) (h : fromBytes H vk b = some a) (hne : ext ≠ []) :
    fromBytes H vk (b ++ ext) = none := by
  cases hf : fromBytes H vk (b ++ ext) with
  | none => rfl
  | some a' =>
    obtain ⟨b0, rest, rfl, hu, hl⟩ := C12_length_of_accepted H vk b a h
    obtain ⟨b0', rest', he, hu', hl'⟩ := C12_length_of_accepted H vk _ a' hf
    rw [List.cons_append] at he
    obtain ⟨rfl, _⟩ := List.cons.inj he
    rw [hu] at hu'
    obtain ⟨_, hk⟩ := Prod.mk.inj (Option.some.inj hu')
    rw [← hk, List.length_append, hl] at hl'
    have : ext.length = 0 := by omega
    exact absurd (List.eq_nil_of_length_eq_zero this) hne

/-- a text with a character outside the 58-character alphabet, ANYWHERE in it (any block, any position), is refused by
the crate's `base58::decode`, hence by `FromStr` — whatever its length, its other characters, `H` and `vk` -/
theorem C12_rejects_foreign_char (s : List UInt8) (h : ∃ c, c ∈ s ∧ c ∉ Base58.alphabet) :
    B58.decode s = none ∧ fromStr H vk s = none := by
  have hd := B58.decode_foreign s.length s rfl h
  exact ⟨hd, by rw [fromStr, hd]⟩

/-- scope note (3): a text that contains a byte ≥ 0x80 (every non-ASCII `&str` does: all bytes of a multi-byte UTF-8
sequence are ≥ 0x80) is refused by `FromStr`, by `base58::decode` and by `hex::FromHex`: such a byte is neither in the
base58 alphabet nor a hexadecimal digit, and `strip_prefix("0x")` removes only the two ASCII characters `0`, `x` -/
theorem C12_rejects_non_ascii (s : List UInt8) (h : ∃ c ∈ s, 128 ≤ c.toNat) :
    fromStr H vk s = none ∧ B58.decode s = none ∧ fromHex H vk s = none := by
  obtain ⟨c, hc, h128⟩ := h
  have hf := C12_rejects_foreign_char H vk s
    ⟨c, hc, fun hm => absurd (Base58.alphabet_ascii c hm) (Nat.not_lt.2 h128)⟩
  refine ⟨hf.2, hf.1, ?_⟩
  rw [fromHex, HexM.decode_none_of_bad_char _ ⟨c, mem_stripPrefix0x s c hc h128, HexM.val_none_of_ge c h128⟩]

/-- the hypotheses are satisfiable: an address-length text with an `l` (not in the alphabet) in its fifth block; `é` in
UTF-8; a hex text with prefix `0x` and a non-ASCII byte -/
example : ∃ c, c ∈ List.replicate 50 (49 : UInt8) ++ 108 :: List.replicate 44 49 ∧ c ∉ Base58.alphabet :=
  ⟨108, by decide, by decide⟩
example : fromStr H vk (List.replicate 50 49 ++ 108 :: List.replicate 44 49) = none :=
  (C12_rejects_foreign_char H vk _ ⟨108, by decide, by decide⟩).2
example : ∃ c ∈ ([0xC3, 0xA9] : List UInt8), 128 ≤ c.toNat := ⟨0xC3, by decide, by decide⟩
example : fromHex H vk [48, 120, 49, 50, 0xC3, 0xA9] = none :=
  (C12_rejects_non_ascii H vk _ ⟨0xC3, by decide, by decide⟩).2.2

/-- unknown tags, wrong checksums, invalid keys, short input, trailing data and texts with a character outside the
base58 alphabet are all rejected -/
theorem C12_rejects :
    (∀ (b0 : UInt8) (rest : Bytes), (∀ n k, Spec.tag n k ≠ b0.toNat) → fromBytes H vk (b0 :: rest) = none) ∧
    (∀ b : Bytes, b.length = 69 ∨ b.length = 77 → (H (b.take (b.length - 4))).take 4 ≠ b.drop (b.length - 4) →
      fromBytes H vk b = none) ∧
    (∀ b : Bytes, vk ((b.drop 1).take 32) = false ∨ vk ((b.drop 33).take 32) = false → fromBytes H vk b = none) ∧
    (∀ b : Bytes, b.length < 69 → fromBytes H vk b = none) ∧
    (∀ (b ext : Bytes) (a : Address), fromBytes H vk b = some a → ext ≠ [] → fromBytes H vk (b ++ ext) = none) ∧
    (∀ (s : List UInt8), (∃ c, c ∈ s ∧ c ∉ Base58.alphabet) → fromStr H vk s = none) :=
  ⟨C12_rejects_unknown_tag H vk, C12_rejects_checksum H vk, C12_rejects_invalid_key H vk, C12_rejects_short H vk,
   C12_rejects_trailing H vk, fun s h => (C12_rejects_foreign_char H vk s h).2⟩

/-! ## instantiation: Keccak-256 checksum, Ed25519 key acceptance as the library computes it (G07) -/

/-- Keccak-256 digests are 32 bytes long, so the length hypothesis `hH` of the theorems above holds for it -/
private theorem keccak_len (x : Bytes) : 4 ≤ (Keccak.keccak256 x).length := by simp [Keccak.keccak256]

/-- the reference key test "RFC 8032 decoding succeeds" is, as a function, the library's key test -/
private theorem refKey_eq : (fun k : Bytes => (Ed.decodePt k).isSome) = Keys.publicAccept :=
  funext fun k => (Keys.publicAccept_eq_ref k).symm

/-- text length: 95 characters, 106 for integrated addresses (11 per 8 bytes: 69 = 8·8+5 ↦ 88+7, 77 = 9·8+5 ↦ 99+7) —
for every checksum function with at least four bytes of output and every key test -/
theorem C12_text_length (a : Address) (hw : WF vk a) (hH : ∀ x, 4 ≤ (H x).length) :
    ∃ s, toStr H a = some s ∧ s.length = if a.kind = .Integrated then 106 else 95 := by
  refine ⟨Base58.encode (asBytes H a), B58.encode_eq _, ?_⟩
  rw [C12_b58_length, ((C12_layout H vk a).2 hw hH).2]
  split <;> rfl

/-- `from_bytes` with the real hash and the real key test (dalek decompress, recompress, compare) IS the by-the-book
parser whose key test is "RFC 8032 decoding succeeds" — the two DIFFERENT predicates the driver runs on the model side
and on the spec side -/
theorem C12_parse_is_monero_ed25519 (b : Bytes) :
    fromBytes Keccak.keccak256 Keys.publicAccept b =
      (Spec.Address.parse Keccak.keccak256 (fun k => (Ed.decodePt k).isSome) b).map
        fun (n, k, s, v, p) => (⟨n, k, p, s, v⟩ : Address) := by
  rw [refKey_eq]; exact C12_parse_is_monero _ _ b keccak_len

/-- the same for `FromStr` -/
theorem C12_parse_text_is_monero_ed25519 (s : List UInt8) :
    fromStr Keccak.keccak256 Keys.publicAccept s =
      (Spec.Address.parseText Keccak.keccak256 (fun k => (Ed.decodePt k).isSome) s).map
        fun (n, k, sp, v, p) => (⟨n, k, p, sp, v⟩ : Address) := by
  rw [refKey_eq]; exact C12_parse_text_is_monero _ _ s keccak_len

/-- the same for `hex::FromHex` (`Spec.Address.parseHex` is an independent restatement, written in this project, of the
library's documented hex form — optional `0x`, either case — not a Monero format; only `Spec.Address.parse` underneath
follows cryptonote_basic_impl.cpp) -/
theorem C12_parse_hex_is_monero_ed25519 (s : List UInt8) :
    fromHex Keccak.keccak256 Keys.publicAccept s =
      (Spec.Address.parseHex Keccak.keccak256 (fun k => (Ed.decodePt k).isSome) s).map
        fun (n, k, sp, v, p) => (⟨n, k, p, sp, v⟩ : Address) := by
  rw [refKey_eq]; exact C12_parse_hex_is_monero _ _ s keccak_len

/-- the same for `Decodable` (`Spec.Address.parseConsensus` is an independent restatement, written in this project, of
the library's documented consensus form — one length byte < 128 then the blob — not a Monero format; only
`Spec.Address.parse` underneath follows cryptonote_basic_impl.cpp) -/
theorem C12_parse_consensus_is_monero_ed25519 (b : Bytes) :
    consensusDecode Keccak.keccak256 Keys.publicAccept b =
      (Spec.Address.parseConsensus Keccak.keccak256 (fun k => (Ed.decodePt k).isSome) b).map
        fun ((n, k, sp, v, p), used) => ((⟨n, k, p, sp, v⟩ : Address), b.drop used) := by
  rw [refKey_eq]; exact C12_parse_consensus_is_monero _ _ b keccak_len

/-- every encoding whose y field lies in [p, 2^255) is rejected by the library's key test, either sign bit
(as `C13_rejects_noncanonical_y`, from `publicAccept_sound`) -/
private theorem publicAccept_noncanonical_y (k : Bytes) (hy : Ed.p ≤ Ed.leNat k % 2 ^ 255) :
    Keys.publicAccept k = false := by
  cases h : Keys.publicAccept k with
  | false => rfl
  | true => exact absurd (Keys.publicAccept_sound k h).2.1 (Nat.not_lt.mpr hy)

set_option maxRecDepth 100000 in
/-- the two negative-zero encodings are rejected and the identity encoding is accepted, by evaluation of the model in
the kernel (as `C13_rejects_negative_zero_encodings`) -/
private theorem publicAccept_eval :
    Keys.publicAccept (Ed.toBytesLE (1 + 2 ^ 255) 32) = false ∧
    Keys.publicAccept (Ed.toBytesLE (Ed.p - 1 + 2 ^ 255) 32) = false ∧
    Keys.publicAccept (Ed.toBytesLE 1 32) = true := by decide +kernel

/-- "invalid or non-canonical keys rejected", stated on the real key test: a blob whose spend-key field (bytes 1..33) or
view-key field (bytes 33..65) has its y coordinate ≥ p (either sign bit) is rejected, whatever its tag, length and
checksum. For blobs shorter than 65 bytes the key slices are short and the conclusion already follows from the length
test (`C12_rejects_short`); the theorem bites on full-length blobs, see the 69-byte examples below -/
theorem C12_rejects_noncanonical_key_ed25519 (b : Bytes)
    (h : Ed.p ≤ Ed.leNat ((b.drop 1).take 32) % 2 ^ 255 ∨ Ed.p ≤ Ed.leNat ((b.drop 33).take 32) % 2 ^ 255) :
    fromBytes Keccak.keccak256 Keys.publicAccept b = none :=
  C12_rejects_invalid_key _ _ b (h.imp (publicAccept_noncanonical_y _) (publicAccept_noncanonical_y _))

/-- the hypothesis is satisfiable by a 32-byte key field: y = p, the smallest of the 19 non-canonical values in
[p, 2^255) -/
example : Ed.p ≤ Ed.leNat (Ed.toBytesLE Ed.p 32) % 2 ^ 255 := by decide +kernel
/-- … and by FULL-LENGTH blobs: mainnet standard tag 18, a key field with y = p, zeros elsewhere (69 bytes). The
rejection is obtained from the theorem, not by evaluating Keccak or the key test. -/
example : (18 :: (Ed.toBytesLE Ed.p 32 ++ List.replicate 36 0) : Bytes).length = 69 := by decide +kernel
example : fromBytes Keccak.keccak256 Keys.publicAccept (18 :: (Ed.toBytesLE Ed.p 32 ++ List.replicate 36 0)) = none :=
  C12_rejects_noncanonical_key_ed25519 _ (Or.inl (by decide +kernel))
example : (18 :: (Ed.toBytesLE 1 32 ++ (Ed.toBytesLE (Ed.p + 2 ^ 255) 32 ++ List.replicate 4 0)) : Bytes).length = 69 := by
  decide +kernel
example : fromBytes Keccak.keccak256 Keys.publicAccept
    (18 :: (Ed.toBytesLE 1 32 ++ (Ed.toBytesLE (Ed.p + 2 ^ 255) 32 ++ List.replicate 4 0))) = none :=
  C12_rejects_noncanonical_key_ed25519 _ (Or.inr (by decide +kernel))

/-- … a key field that is not the encoding of a curve point at all (RFC 8032 decoding fails: wrong length because the
blob is short, y ≥ p, x² has no root, or x = 0 with the sign bit). For blobs shorter than 65 bytes the key slices are
short (`decodePt` fails by length) and the conclusion already follows from the length test (`C12_rejects_short`); the
content is in the full-length case -/
theorem C12_rejects_undecodable_key_ed25519 (b : Bytes)
    (h : Ed.decodePt ((b.drop 1).take 32) = none ∨ Ed.decodePt ((b.drop 33).take 32) = none) :
    fromBytes Keccak.keccak256 Keys.publicAccept b = none :=
  C12_rejects_invalid_key _ _ b
    (h.imp (fun h => by rw [Keys.publicAccept_eq_ref, h]; rfl) (fun h => by rw [Keys.publicAccept_eq_ref, h]; rfl))

/-- the two negative-zero encodings (x = 0 with the sign bit set: y = 1 and y = p − 1) in either key field. (For blobs
shorter than 65 bytes the key slices are short — the hypothesis `h` can then hold only for the spend field of a blob of
at least 33 bytes — and the conclusion already follows from the length test, `C12_rejects_short`.) -/
theorem C12_rejects_negative_zero_key_ed25519 (b : Bytes) (k : Bytes)
    (hk : k = Ed.toBytesLE (1 + 2 ^ 255) 32 ∨ k = Ed.toBytesLE (Ed.p - 1 + 2 ^ 255) 32)
    (h : (b.drop 1).take 32 = k ∨ (b.drop 33).take 32 = k) :
    fromBytes Keccak.keccak256 Keys.publicAccept b = none := by
  have hk' : Keys.publicAccept k = false := by
    rcases hk with rfl | rfl
    · exact publicAccept_eval.1
    · exact publicAccept_eval.2.1
  exact C12_rejects_invalid_key _ _ b (h.imp (fun e => by rw [e]; exact hk') (fun e => by rw [e]; exact hk'))

/-- accepted ⇒ both key fields are canonical encodings of curve points, the blob is the canonical one of the address
returned, length 69/77, and the last four bytes are the first four of Keccak-256 of the rest -/
theorem C12_accepted_ed25519 (b : Bytes) (a : Address)
    (h : fromBytes Keccak.keccak256 Keys.publicAccept b = some a) :
    (Ed.decodePt a.spend).isSome ∧ (Ed.decodePt a.view).isSome ∧ asBytes Keccak.keccak256 a = b ∧
    b.length = (if a.kind = .Integrated then 77 else 69) ∧
    b.drop (b.length - 4) = (Keccak.keccak256 (b.take (b.length - 4))).take 4 := by
  obtain ⟨_, _, hvs, hvv, _⟩ := C12_bytes_wf _ _ b a h
  obtain ⟨_, _, _, _, hl⟩ := C12_length_of_accepted _ _ b a h
  refine ⟨by rw [← Keys.publicAccept_eq_ref]; exact hvs, by rw [← Keys.publicAccept_eq_ref]; exact hvv,
    C12_bytes_canonical _ _ b a h, hl, ?_⟩
  apply Classical.byContradiction
  intro hne
  have hl' : b.length = 69 ∨ b.length = 77 := by rw [hl]; split <;> simp
  have := C12_rejects_checksum Keccak.keccak256 Keys.publicAccept b hl' (fun e => hne e.symm)
  rw [this] at h
  exact absurd h (by simp)

/-- round trips of every form with the real hash and key test -/
theorem C12_roundtrips_ed25519 (a : Address) (hw : WF Keys.publicAccept a) :
    fromBytes Keccak.keccak256 Keys.publicAccept (asBytes Keccak.keccak256 a) = some a ∧
    (∃ s, toStr Keccak.keccak256 a = some s ∧ s.length = (if a.kind = .Integrated then 106 else 95) ∧
      fromStr Keccak.keccak256 Keys.publicAccept s = some a) ∧
    fromHex Keccak.keccak256 Keys.publicAccept (asHex Keccak.keccak256 a) = some a ∧
    ∀ rest, consensusDecode Keccak.keccak256 Keys.publicAccept (consensusEncode Keccak.keccak256 a ++ rest)
      = some (a, rest) := by
  refine ⟨C12_bytes_roundtrip _ _ a hw keccak_len, ?_, (C12_hex_roundtrip _ _ a hw keccak_len).1,
    fun rest => C12_consensus_roundtrip _ _ a rest hw keccak_len⟩
  obtain ⟨s, hs, hl⟩ := C12_text_length Keccak.keccak256 Keys.publicAccept a hw keccak_len
  obtain ⟨s', hs', hf⟩ := C12_str_roundtrip Keccak.keccak256 Keys.publicAccept a hw keccak_len
  rw [hs] at hs'
  obtain rfl := Option.some.inj hs'
  exact ⟨s, hs, hl, hf⟩

/-- `WF Keys.publicAccept` is satisfiable: the identity encoding (y = 1, x = 0, sign bit clear) is an accepted key -/
example : WF Keys.publicAccept ⟨.Mainnet, .Standard, [], Ed.toBytesLE 1 32, Ed.toBytesLE 1 32⟩ :=
  ⟨by simp [Ed.toBytesLE], by simp [Ed.toBytesLE], publicAccept_eval.2.2, publicAccept_eval.2.2, by simp⟩
-- end G07 instantiation block

/-! ## known answers: two address strings that exist outside this project (G07) -/

private theorem known_answer (a : Address) (blob : Bytes) (txt : List UInt8)
    (hb : Spec.Address.blob Keccak.keccak256 a.net a.kind a.spend a.view a.pid = blob) (ht : Base58.encode blob = txt)
    (hw : WF Keys.publicAccept a) :
    Spec.Address.text Keccak.keccak256 a.net a.kind a.spend a.view a.pid = txt ∧
    toStr Keccak.keccak256 a = some txt ∧ fromStr Keccak.keccak256 Keys.publicAccept txt = some a := by
  have h1 : Spec.Address.text Keccak.keccak256 a.net a.kind a.spend a.view a.pid = txt := by
    rw [Spec.Address.text, hb, ht]
  have h2 : toStr Keccak.keccak256 a = some txt := by rw [C12_str_is_monero _ _ a hw, h1]
  obtain ⟨s, hs, hf⟩ := C12_str_roundtrip Keccak.keccak256 Keys.publicAccept a hw keccak_len
  rw [h2] at hs
  obtain rfl := Option.some.inj hs
  exact ⟨h1, h2, hf⟩

/-- Known answer, integrated address: the vector of the library's own test-suite (keys and payment id given there as
bytes, Proofs/AddressKAT.lean). The by-the-book text (hand tag table, reference Keccak-256, reference base58) IS the
wallet's string, the model of `Display` produces it, and the model of `FromStr` (with the model of
`PublicKey::from_slice`) reads it back. One Keccak evaluation in the kernel; nothing here depends on `Ref/Base58` and the
crate model having been written by the same hand — the string comes from outside. -/
theorem C12_known_answer_integrated :
    Spec.Address.text Keccak.keccak256 .Mainnet .Integrated AddressKAT.integratedAddr.spend AddressKAT.integratedAddr.view
        AddressKAT.integratedAddr.pid
      = AddressKAT.str "4Byr22j9M2878Mtyb3fEPcBNwBZf5EXqn1Yi6VzR46618SFBrYysab2Cs1474CVDbsh94AJq7vuV3Z2DRq4zLcY3LHzo1Nbv3d8J6VhvCV" ∧
    toStr Keccak.keccak256 AddressKAT.integratedAddr
      = some (AddressKAT.str "4Byr22j9M2878Mtyb3fEPcBNwBZf5EXqn1Yi6VzR46618SFBrYysab2Cs1474CVDbsh94AJq7vuV3Z2DRq4zLcY3LHzo1Nbv3d8J6VhvCV") ∧
    fromStr Keccak.keccak256 Keys.publicAccept
        (AddressKAT.str "4Byr22j9M2878Mtyb3fEPcBNwBZf5EXqn1Yi6VzR46618SFBrYysab2Cs1474CVDbsh94AJq7vuV3Z2DRq4zLcY3LHzo1Nbv3d8J6VhvCV")
      = some AddressKAT.integratedAddr :=
  known_answer _ _ _ AddressKAT.integrated_blob AddressKAT.integrated_b58 AddressKAT.integrated_wf

/-- Known answer, standard address: the Monero project's donation address (its public view key is `v·G` for the
published secret view key; the harness checks that with dalek). -/
theorem C12_known_answer_donation :
    Spec.Address.text Keccak.keccak256 .Mainnet .Standard AddressKAT.donationAddr.spend AddressKAT.donationAddr.view []
      = AddressKAT.str "44AFFq5kSiGBoZ4NMDwYtN18obc8AemS33DBLWs3H7otXft3XjrpDtQGv7SqSsaBYBb98uNbr2VBBEt7f2wfn3RVGQBEP3A" ∧
    toStr Keccak.keccak256 AddressKAT.donationAddr
      = some (AddressKAT.str "44AFFq5kSiGBoZ4NMDwYtN18obc8AemS33DBLWs3H7otXft3XjrpDtQGv7SqSsaBYBb98uNbr2VBBEt7f2wfn3RVGQBEP3A") ∧
    fromStr Keccak.keccak256 Keys.publicAccept
        (AddressKAT.str "44AFFq5kSiGBoZ4NMDwYtN18obc8AemS33DBLWs3H7otXft3XjrpDtQGv7SqSsaBYBb98uNbr2VBBEt7f2wfn3RVGQBEP3A")
      = some AddressKAT.donationAddr :=
  known_answer _ _ _ AddressKAT.donation_blob AddressKAT.donation_b58 AddressKAT.donation_wf
/-- Known answer, sub-address: the sub-address vector of the library's own test-suite (tag 42; Proofs/AddressKAT2.lean). -/
theorem C12_known_answer_subaddress :
    Spec.Address.text Keccak.keccak256 .Mainnet .SubAddress AddressKAT.subAddr.spend AddressKAT.subAddr.view []
      = AddressKAT.str "8AW7SotwFrqfAKnibspuuhfowW4g3asvpQvdrTmPcpNr2GmXPtBBSxUPZQATAt8Vw2hiX9GDyxB4tMNgHjwt8qYsCeFDVvn" ∧
    toStr Keccak.keccak256 AddressKAT.subAddr
      = some (AddressKAT.str "8AW7SotwFrqfAKnibspuuhfowW4g3asvpQvdrTmPcpNr2GmXPtBBSxUPZQATAt8Vw2hiX9GDyxB4tMNgHjwt8qYsCeFDVvn") ∧
    fromStr Keccak.keccak256 Keys.publicAccept
        (AddressKAT.str "8AW7SotwFrqfAKnibspuuhfowW4g3asvpQvdrTmPcpNr2GmXPtBBSxUPZQATAt8Vw2hiX9GDyxB4tMNgHjwt8qYsCeFDVvn")
      = some AddressKAT.subAddr :=
  known_answer _ _ _ AddressKAT.sub_blob AddressKAT.sub_b58 AddressKAT.sub_wf
-- end G07 known-answer block

/-! ## the hypotheses are satisfiable -/
example : ∀ x, 4 ≤ (Keccak.keccak256 x).length := fun x => by simp [Keccak.keccak256]
example : WF (fun _ => true) ⟨.Mainnet, .Integrated, List.replicate 8 7, List.replicate 32 1, List.replicate 32 2⟩ := by
  simp [WF]
example : WF (fun _ => true) ⟨.Stagenet, .SubAddress, [], List.replicate 32 1, List.replicate 32 2⟩ := by simp [WF]
example : Base58.decode (Base58.encode [0x12, 0x34]) = some [0x12, 0x34] := (C12_b58_dec_enc _).2
end C12
