import MoneroModel.Proofs.TxComplete2
import MoneroModel.Proofs.LenProofs
import MoneroModel.Proofs.TxSound1
open Monero
/-! # C02 — well-formed values survive serialise-then-parse; length accounting is exact

`Complete wf enc dec := ∀ x r, wf x → dec (enc x ++ r) = some (x, r)`: parsing an encoding followed by anything returns
the value and leaves exactly the rest, i.e. consumes exactly the bytes produced. The well-formedness predicates
(`wfTx`, `wfBlock`, … in Proofs/TxComplete*.lean; DESIGN.md Appendix B) are explicit: implicit-length vectors have the
lengths the counts / RingCT type imply, every varint-encoded number is a u64, keys are 32 bytes, explicit-length
vectors respect the allocation cap `Gen.CAP` that the decoder enforces (C04 requires that cap), the `u32` Bulletproof
count is < 2^32 and the one-byte BulletproofPlus count is < 256 (see the known finding in DESIGN.md §7 item 4). -/
namespace C02

theorem C02_complete_varint : Complete U64 encVarint varint := complete_varint'
theorem C02_complete_vec {α} (sz : Nat) (wf : α → Prop) (e : α → Bytes) (d : Dec α) (h : Complete wf e d) :
    Complete (VecOK sz wf) (encVec e) (vec sz d) := fun xs r hw => complete_vec sz wf e d h xs r hw.1 hw.2.1 hw.2.2
theorem C02_complete_txin : Complete wfTxIn encTxIn txin := complete_txin
theorem C02_complete_target : Complete wfTarget encTarget target := complete_target
theorem C02_complete_txout : Complete wfTxOut encTxOut txout := complete_txout
theorem C02_complete_prefix : Complete wfPrefix encPrefix prefix' := complete_prefix
theorem C02_complete_ecdh (ty : Nat) : Complete (wfEcdh ty) encEcdh (ecdh ty) := complete_ecdh ty
theorem C02_complete_rct_base (i o : Nat) : Complete (wfBase i o) encBase (base i o) := complete_base i o
theorem C02_complete_bulletproof : Complete wfBP encBP bp := complete_bp
theorem C02_complete_bulletproofplus : Complete wfBPP encBPP bpp := complete_bpp
theorem C02_complete_clsag (m : Nat) : Complete (wfClsag m) encClsag (clsagDec m) := complete_clsag m
theorem C02_complete_mgsig (cols m : Nat) : Complete (wfMG cols m) encMG (mgDec cols m) := complete_mg cols m
theorem C02_complete_rct_prunable (ty i o m : Nat) (hty : ty ≠ 0) (p : Prunable) (r : Bytes)
    (h : wfPrunable ty i o m p) : prunable ty i o m (encPrunable p ty ++ r) = some (some p, r) :=
  complete_prunable ty i o m hty p r h
theorem C02_complete_transaction : Complete wfTx encTx tx := complete_tx
theorem C02_complete_header : Complete wfHeader encHeader header := complete_header
theorem C02_complete_block : Complete wfBlock encBlock block := complete_block

/-- reported length = bytes written, for every value (no well-formedness needed) -/
theorem C02_len_varint (n : Nat) : lenVarint n = (encVarintImp n).1.length := by
  rw [lenVarint_eq, encVarintImp_eq]
theorem C02_len_txin (x : TxIn) : lenTxIn x = (encTxIn x).length := lenTxIn_eq x
theorem C02_len_txout (x : TxOut) : lenTxOut x = (encTxOut x).length := lenTxOut_eq x
theorem C02_len_prefix (p : Prefix) : lenPrefix p = (encPrefix p).length := lenPrefix_eq p
theorem C02_len_rct_base (b : Base) : lenBase b = (encBase b).length := lenBase_eq b
theorem C02_len_rct_prunable (p : Prunable) (ty : Nat) : lenPrunable p ty = (encPrunable p ty).length := lenPrunable_eq p ty
theorem C02_len_transaction (t : Tx) : lenTx t = (encTx t).length := lenTx_eq t
theorem C02_len_header (h : Header) : lenHeader h = (encHeader h).length := lenHeader_eq h
theorem C02_len_block (b : Block) : lenBlock b = (encBlock b).length := lenBlock_eq b

/-- strings: length-prefixed UTF-8 bytes; round trip on valid UTF-8 within the cap, reported length = bytes written -/
theorem C02_complete_string (valid : Bytes → Bool) :
    Complete (fun s => valid s = true ∧ s.length * sizes.u8 ≤ CAP ∧ s.length < 2^64) encString (stringDec valid) := by
  intro s r ⟨hv, hc, hl⟩
  unfold stringDec encString
  have e : encVarint s.length ++ s ++ r = encVec (fun b => [b]) s ++ r := by
    simp [encVec, flatten_singletons']
  rw [e, bind_eq (complete_vec sizes.u8 (fun _ => True) (fun b => [b]) u8 complete_u8 s r (fun _ _ => trivial) hc hl)]
  simp [hv, pure']
theorem C02_len_string (s : Bytes) : lenString s = (encString s).length := by
  simp [lenString, encString, lenVarint_eq]

/-- strict parsing (`deserialize`) of an encoding followed by any non-empty `t` fails -/
theorem C02_strict {α} (wf : α → Prop) (enc : α → Bytes) (dec : Dec α) (hc : Complete wf enc dec)
    (x : α) (hx : wf x) (t : Bytes) (ht : t ≠ []) : strict dec (enc x ++ t) = none := by
  unfold strict; rw [hc x t hx]
  cases t with
  | nil => exact absurd rfl ht
  | cons a t => rfl

/-- and succeeds on the encoding itself -/
theorem C02_strict_roundtrip {α} (wf : α → Prop) (enc : α → Bytes) (dec : Dec α) (hc : Complete wf enc dec)
    (x : α) (hx : wf x) : strict dec (enc x) = some x := by
  have := hc x [] hx; simp at this
  unfold strict; rw [this]

/-- `deserialize` succeeds iff `deserialize_partial` consumed everything -/
theorem C02_strict_iff_partial {α} (dec : Dec α) (b : Bytes) (x : α) :
    strict dec b = some x ↔ dec b = some (x, []) := by
  unfold strict
  constructor
  · intro h; split at h <;> simp at h
    rename_i y hd; subst h; exact hd
  · intro h; rw [h]

/-- partial parsing reports exactly the number of bytes the encoder produced -/
theorem C02_partial_count {α} (wf : α → Prop) (enc : α → Bytes) (dec : Dec α) (hc : Complete wf enc dec)
    (x : α) (hx : wf x) (r : Bytes) :
    ∃ rest, dec (enc x ++ r) = some (x, rest) ∧ (enc x ++ r).length - rest.length = (enc x).length := by
  refine ⟨r, hc x r hx, by simp⟩

/-- concrete instance for transactions, in the words of the property -/
theorem C02_transaction_roundtrip (t : Tx) (h : wfTx t) (r : Bytes) :
    tx (encTx t ++ r) = some (t, r) ∧ lenTx t = (encTx t).length ∧ (r ≠ [] → strict tx (encTx t ++ r) = none) :=
  ⟨complete_tx t r h, lenTx_eq t, fun hr => C02_strict wfTx encTx tx complete_tx t h r hr⟩

/- non-vacuity: a concrete coinbase-style v2 transaction is well-formed (so the hypotheses are satisfiable) -/
example : wfTx ⟨⟨2, 0, [.gen 5], [], []⟩, [], some ⟨0, 0, [], [], []⟩, none⟩ := by
  have u (n : Nat) (h : n < 2^64) : U64 n := h
  refine ⟨⟨u 2 (by decide), u 0 (by decide), ⟨?_, by decide, by decide⟩, ⟨by simp, by decide, by decide⟩, ⟨by simp, by decide, by decide⟩⟩, by simp, ?_⟩
  · intro x hx; simp at hx; subst hx; exact u 5 (by decide)
  · intro _; refine ⟨rfl, by simp, fun _ => ⟨_, rfl, ⟨by decide, fun _ => ⟨rfl, rfl, rfl, rfl⟩, fun h => absurd rfl h⟩, fun _ => rfl, fun h => absurd rfl h⟩⟩
end C02
