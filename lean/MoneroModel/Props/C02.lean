import MoneroModel.Proofs.TxComplete2
import MoneroModel.Proofs.LenProofs
import MoneroModel.Proofs.TxSound1
import MoneroModel.Proofs.TxDecodedWF
open Monero
/-! # C02 — well-formed values survive serialise-then-parse; length accounting is exact

`Complete wf enc dec := ∀ x r, wf x → dec (enc x ++ r) = some (x, r)`: parsing an encoding followed by anything returns
the value and leaves exactly the rest, i.e. consumes exactly the bytes produced. The well-formedness predicates
(`wfTx`, `wfBlock`, … in Proofs/TxComplete*.lean; DESIGN.md Appendix B) are explicit: implicit-length vectors have the
lengths the counts / RingCT type imply, every varint-encoded number is a u64, keys are 32 bytes, explicit-length
vectors respect the allocation cap `Gen.CAP` that the decoder enforces (C04 requires that cap), the `u32` Bulletproof
count is < 2^32 and the one-byte BulletproofPlus count is < 256 (see the known finding in DESIGN.md §7 item 4).

Extra sub-fields (the "component records" of transaction.rs:872-919) are C16's subject: `C16_single_strict` gives their round
trip, with ONE exception that this file does not repeat — a `Padding(n < 255)` sub-field followed by further bytes is not
prefix-free by design (`¬ ShortPad` there). `C02_decoded_wf_*` below show that the `wf*` predicates are not over-restrictive. -/
namespace C02

theorem C02_complete_varint : Complete U64 encVarint varint := complete_varint'
theorem C02_complete_vec {α} (sz : Nat) (wf : α → Prop) (e : α → Bytes) (d : Dec α) (h : Complete wf e d) :
    Complete (VecOK sz wf) (encVec e) (vec sz d) := fun xs r hw => complete_vec sz wf e d h xs r hw.1 hw.2.1 hw.2.2
theorem C02_complete_txin : Complete wfTxIn encTxIn txin := complete_txin
theorem C02_complete_target : Complete wfTarget encTarget target := complete_target
theorem C02_complete_txout : Complete wfTxOut encTxOut txout := complete_txout
theorem C02_complete_prefix : Complete wfPrefix encPrefix prefix' := complete_prefix
theorem C02_complete_ecdh (ty : Nat) : Complete (wfEcdh ty) encEcdh (ecdh ty) := complete_ecdh ty
theorem C02_complete_rct_base (i o : Nat) : Complete (wfBase i o) encBase (base i o) := complete_base i o
theorem C02_complete_bulletproof : Complete wfBP encBP bp := complete_bp
theorem C02_complete_bulletproofplus : Complete wfBPP encBPP bpp := complete_bpp
theorem C02_complete_clsag (m : Nat) : Complete (wfClsag m) encClsag (clsagDec m) := complete_clsag m
theorem C02_complete_mgsig (cols m : Nat) : Complete (wfMG cols m) encMG (mgDec cols m) := complete_mg cols m
theorem C02_complete_rct_prunable (ty i o m : Nat) (hty : ty ≠ 0) (p : Prunable) (r : Bytes)
    (h : wfPrunable ty i o m p) : prunable ty i o m (encPrunable p ty ++ r) = some (some p, r) :=
  complete_prunable ty i o m hty p r h
theorem C02_complete_transaction : Complete wfTx encTx tx := complete_tx
theorem C02_complete_header : Complete wfHeader encHeader header := complete_header
theorem C02_complete_block : Complete wfBlock encBlock block := complete_block

/-- reported length = bytes written, for every value (no well-formedness needed) -/
theorem C02_len_varint (n : Nat) : lenVarint n = (encVarintImp n).1.length := by
  rw [lenVarint_eq, encVarintImp_eq]
theorem C02_len_txin (x : TxIn) : lenTxIn x = (encTxIn x).length := lenTxIn_eq x
theorem C02_len_txout (x : TxOut) : lenTxOut x = (encTxOut x).length := lenTxOut_eq x
theorem C02_len_prefix (p : Prefix) : lenPrefix p = (encPrefix p).length := lenPrefix_eq p
theorem C02_len_rct_base (b : Base) : lenBase b = (encBase b).length := lenBase_eq b
theorem C02_len_rct_prunable (p : Prunable) (ty : Nat) : lenPrunable p ty = (encPrunable p ty).length := lenPrunable_eq p ty
theorem C02_len_transaction (t : Tx) : lenTx t = (encTx t).length := lenTx_eq t
theorem C02_len_header (h : Header) : lenHeader h = (encHeader h).length := lenHeader_eq h
theorem C02_len_block (b : Block) : lenBlock b = (encBlock b).length := lenBlock_eq b

/-- strings: length-prefixed UTF-8 bytes; round trip on valid UTF-8 within the cap, reported length = bytes written -/
theorem C02_complete_string (valid : Bytes → Bool) :
    Complete (fun s => valid s = true ∧ s.length * sizes.u8 ≤ CAP ∧ s.length < 2^64) encString (stringDec valid) := by
  intro s r ⟨hv, hc, hl⟩
  unfold stringDec encString
  have e : encVarint s.length ++ s ++ r = encVec (fun b => [b]) s ++ r := by
    simp [encVec, flatten_singletons']
  rw [e, bind_eq (complete_vec sizes.u8 (fun _ => True) (fun b => [b]) u8 complete_u8 s r (fun _ _ => trivial) hc hl)]
  simp [hv, pure']
theorem C02_len_string (s : Bytes) : lenString s = (encString s).length := by
  simp [lenString, encString, lenVarint_eq]

/-- strict parsing (`deserialize`) of an encoding followed by any non-empty `t` fails -/
theorem C02_strict {α} (wf : α → Prop) (enc : α → Bytes) (dec : Dec α) (hc : Complete wf enc dec)
    (x : α) (hx : wf x) (t : Bytes) (ht : t ≠ []) : strict dec (enc x ++ t) = none := by
  unfold strict; rw [hc x t hx]
  cases t with
  | nil => exact absurd rfl ht
  | cons a t => rfl

/-- and succeeds on the encoding itself -/
theorem C02_strict_roundtrip {α} (wf : α → Prop) (enc : α → Bytes) (dec : Dec α) (hc : Complete wf enc dec)
    (x : α) (hx : wf x) : strict dec (enc x) = some x := by
  have := hc x [] hx; simp at this
  unfold strict; rw [this]

/-- `deserialize` succeeds iff `deserialize_partial` consumed everything -/
theorem C02_strict_iff_partial {α} (dec : Dec α) (b : Bytes) (x : α) :
    strict dec b = some x ↔ dec b = some (x, []) := by
  unfold strict
  constructor
  · intro h; split at h <;> simp at h
    rename_i y hd; subst h; exact hd
  · intro h; rw [h]

/-- partial parsing reports exactly the number of bytes the encoder produced -/
theorem C02_partial_count {α} (wf : α → Prop) (enc : α → Bytes) (dec : Dec α) (hc : Complete wf enc dec)
    (x : α) (hx : wf x) (r : Bytes) :
    ∃ rest, dec (enc x ++ r) = some (x, rest) ∧ (enc x ++ r).length - rest.length = (enc x).length := by
  refine ⟨r, hc x r hx, by simp⟩

/-- concrete instance for transactions, in the words of the property -/
theorem C02_transaction_roundtrip (t : Tx) (h : wfTx t) (r : Bytes) :
    tx (encTx t ++ r) = some (t, r) ∧ lenTx t = (encTx t).length ∧ (r ≠ [] → strict tx (encTx t ++ r) = none) :=
  ⟨complete_tx t r h, lenTx_eq t, fun hr => C02_strict wfTx encTx tx complete_tx t h r hr⟩

/-! ## Added after the audit -/

/-- **The well-formedness hypotheses are the weakest possible**: everything the decoder accepts is well-formed. With
`C02_complete_transaction` (well-formed ⇒ round trip) and C01 soundness this gives `wfTx t ↔ t is the strict parse of some byte
string ↔ t survives serialise-then-parse`; an over-restrictive `wfTx` (a silently narrowed C02) would make this theorem false. -/
theorem C02_decoded_wf_transaction (b : Bytes) (t : Tx) (r : Bytes) (h : tx b = some (t, r)) : wfTx t := decoded_wf_tx b t r h
theorem C02_decoded_wf_block (b : Bytes) (x : Block) (r : Bytes) (h : block b = some (x, r)) : wfBlock x := decoded_wf_block b x r h
theorem C02_wf_iff_roundtrip_transaction (t : Tx) : wfTx t ↔ strict tx (encTx t) = some t := wfTx_iff_parsed_enc t
theorem C02_wf_iff_roundtrip_block (x : Block) : wfBlock x ↔ strict block (encBlock x) = some x := wfBlock_iff_parsed_enc x
theorem C02_wf_iff_parsed_transaction (t : Tx) : wfTx t ↔ ∃ b, strict tx b = some t := wfTx_iff_parsed t
theorem C02_wf_iff_parsed_block (x : Block) : wfBlock x ↔ ∃ b, strict block b = some x := wfBlock_iff_parsed x
/-- the same for the component records -/
theorem C02_decoded_wf_prefix (b : Bytes) (x : Prefix) (r : Bytes) (h : prefix' b = some (x, r)) : wfPrefix x := decoded_wf_prefix b x r h
theorem C02_decoded_wf_rct_base (i o : Nat) (b : Bytes) (x : Base) (r : Bytes) (h : base i o b = some (x, r)) : wfBase i o x :=
  decoded_wf_base i o b x r h
theorem C02_decoded_wf_rct_prunable (ty i o m : Nat) (b : Bytes) (x : Option Prunable) (r : Bytes)
    (h : prunable ty i o m b = some (x, r)) : (ty = 0 ∧ x = none) ∨ (ty ≠ 0 ∧ ∃ p, x = some p ∧ wfPrunable ty i o m p) :=
  decoded_wf_prunable ty i o m b x r h
theorem C02_decoded_wf_header (b : Bytes) (x : Header) (r : Bytes) (h : header b = some (x, r)) : wfHeader x := decoded_wf_header b x r h

/-- primitives: fixed-width little-endian unsigned integers (`u8 … u64`: k = 1, 2, 4, 8) -/
theorem C02_complete_uint (k : Nat) : Complete (fun n => n < 256 ^ k) (encUintLE k) (uintLE k) := by
  intro n r hn
  unfold uintLE encUintLE
  rw [bind_eq (takeN_app _ r k (leBytes_length _ k))]
  simp only [pure']
  rw [foldr_leBytes n k hn]
example : (300 : Nat) < 256 ^ 2 := by decide
/-- reported length of a fixed-width integer (`Ok(size_of::<$ty>())`) = bytes written -/
theorem C02_len_uint (k n : Nat) : (encUintLE k n).length = k := leBytes_length n k
/-- signed fixed-width integers (`i8 … i64`): every value of the type's range round-trips -/
theorem C02_complete_int (k : Nat) (hk : 0 < k) :
    Complete (fun v : Int => -((256 ^ k / 2 : Nat) : Int) ≤ v ∧ v < ((256 ^ k / 2 : Nat) : Int)) (encIntLE k) (intLE k) := by
  intro v r ⟨hlo, hhi⟩
  have heven : 256 ^ k = 2 * (256 ^ k / 2) := by
    obtain ⟨j, rfl⟩ : ∃ j, k = j + 1 := ⟨k - 1, by omega⟩
    rw [Nat.pow_succ]; omega
  have hpos : (0 : Int) < ((256 ^ k : Nat) : Int) := by exact_mod_cast Nat.pow_pos (by decide : 0 < 256)
  have hmod_nonneg := Int.emod_nonneg v (Int.ne_of_gt hpos)
  have hmod_lt := Int.emod_lt_of_pos v hpos
  have hn : (v % ((256 ^ k : Nat) : Int)).toNat < 256 ^ k := by omega
  have hu := C02_complete_uint k _ r hn
  unfold intLE encIntLE
  unfold encUintLE at hu
  rw [bind_eq hu]
  simp only [pure']
  congr 2
  by_cases hv : 0 ≤ v
  · have e : v % ((256 ^ k : Nat) : Int) = v := Int.emod_eq_of_lt hv (by omega)
    rw [e]
    have : v.toNat < 256 ^ k / 2 := by omega
    simp only [this, if_true]; omega
  · have e : v % ((256 ^ k : Nat) : Int) = v + ((256 ^ k : Nat) : Int) := by
      rw [← Int.add_emod_right]; exact Int.emod_eq_of_lt (by omega) (by omega)
    rw [e]
    have : ¬ (v + ((256 ^ k : Nat) : Int)).toNat < 256 ^ k / 2 := by omega
    simp only [this, if_false]; omega
example : -(((256 ^ 1 / 2 : Nat)) : Int) ≤ (-128 : Int) ∧ (-128 : Int) < ((256 ^ 1 / 2 : Nat) : Int) := by decide
/-- fixed byte records (`Key`, `Hash`, `KeyImage`, `CtKey`: 32; `Hash8`: 8; `Signature`: 64; `Key64`: 2048; `RangeSig`: 6176;
`MultisigKlrki`: 128) -/
theorem C02_complete_bytes (k : Nat) : Complete (fun x : Bytes => x.length = k) id (takeN k) := complete_takeN k
/-- `bool`: both values round-trip (the decoder is lenient — any non-zero byte is `true` — which concerns C01, not C02) -/
theorem C02_complete_bool : Complete (fun _ => True) encBool boolDec := by
  intro v r _; cases v <;> rfl
/-- `RctType` as a stand-alone codec: the seven types round-trip -/
theorem C02_complete_rcttype : Complete (fun ty => ty ≤ 6) encRctType rctType := by
  intro ty r h
  have : ∀ n, n ≤ 6 → ∀ r, rctType (encRctType n ++ r) = some (n, r) := by
    intro n hn r
    have h7 : n = 0 ∨ n = 1 ∨ n = 2 ∨ n = 3 ∨ n = 4 ∨ n = 5 ∨ n = 6 := by omega
    rcases h7 with rfl | rfl | rfl | rfl | rfl | rfl | rfl <;> rfl
  exact this ty h r
/-- unprefixed sized vectors (`consensus_decode_sized_vec` / `encode_sized_vec`), exported from Proofs/TxComplete -/
theorem C02_complete_sized_vec {α} (sz : Nat) (wf : α → Prop) (e : α → Bytes) (d : Dec α) (h : Complete wf e d)
    (xs : List α) (r : Bytes) (hw : ∀ x ∈ xs, wf x) (hc : xs.length * sz ≤ CAP) :
    sizedVec sz d xs.length (encSized e xs ++ r) = some (xs, r) := complete_sized sz wf e d h xs r hw hc

/-- concrete instances of the strict / partial clauses (the generic hypothesis `hc` is discharged) -/
theorem C02_strict_block (x : Block) (hx : wfBlock x) (t : Bytes) (ht : t ≠ []) : strict block (encBlock x ++ t) = none :=
  C02_strict wfBlock encBlock block complete_block x hx t ht
theorem C02_strict_prefix (x : Prefix) (hx : wfPrefix x) (t : Bytes) (ht : t ≠ []) : strict prefix' (encPrefix x ++ t) = none :=
  C02_strict wfPrefix encPrefix prefix' complete_prefix x hx t ht
theorem C02_strict_header (x : Header) (hx : wfHeader x) (t : Bytes) (ht : t ≠ []) : strict header (encHeader x ++ t) = none :=
  C02_strict wfHeader encHeader header complete_header x hx t ht
theorem C02_block_roundtrip (x : Block) (h : wfBlock x) (r : Bytes) :
    block (encBlock x ++ r) = some (x, r) ∧ lenBlock x = (encBlock x).length ∧ (r ≠ [] → strict block (encBlock x ++ r) = none) :=
  ⟨complete_block x r h, lenBlock_eq x, fun hr => C02_strict_block x h r hr⟩

/-- sample encodings: one key input (ring of one), no outputs, empty extra; then the body of each kind -/
def sampleBytes (version : Nat) (body : Bytes) : Bytes :=
  [UInt8.ofNat version, 0, 1, 2, 0, 1, 1] ++ List.replicate 32 0 ++ [0, 0] ++ body
def samples : List (Nat × Option Nat × Bytes) := [
  (1, none, sampleBytes 1 (List.replicate 64 0)),                                   -- version 1: one signature
  (2, some 1, sampleBytes 2 ([1, 0] ++ List.replicate 96 0)),                       -- Full: one MLSAG (1 row × 2 keys, cc)
  (2, some 2, sampleBytes 2 ([2, 0] ++ List.replicate 32 0 ++ List.replicate 96 0)),   -- Simple: pseudo out in the base, one MLSAG
  (2, some 3, sampleBytes 2 ([3, 0] ++ [0, 0, 0, 0] ++ List.replicate 96 0 ++ List.replicate 32 0)),  -- Bulletproof: u32 count
  (2, some 4, sampleBytes 2 ([4, 0] ++ [0] ++ List.replicate 96 0 ++ List.replicate 32 0)),           -- Bulletproof2: varint count
  (2, some 5, sampleBytes 2 ([5, 0] ++ [0] ++ List.replicate 96 0 ++ List.replicate 32 0)),           -- Clsag
  (2, some 6, sampleBytes 2 ([6, 0] ++ [0] ++ List.replicate 96 0 ++ List.replicate 32 0)),           -- BulletproofPlus: u8 count
  (0, some 0, sampleBytes 0 [0]), (3, some 0, sampleBytes 3 [0])]                                    -- Null under versions 0 and 3
/-- **non-vacuity of `wfTx` on every dispatch path**: version 1 and each RingCT type 1..6 (and versions 0, 3) have a well-formed
transaction with a key input — the hypotheses of `C02_complete_transaction` are satisfiable on all of them -/
theorem C02_wf_inhabited : ∀ s ∈ samples, ∃ t, wfTx t ∧ t.pre.version = s.1 ∧ t.base.map (·.ty) = s.2.1 ∧ t.pre.ins ≠ [] ∧
    strict tx s.2.2 = some t := by
  have key : ∀ s ∈ samples, (strict tx s.2.2).map (fun t => (t.pre.version, t.base.map (·.ty), t.pre.ins.length)) = some (s.1, s.2.1, 1) := by
    decide +kernel
  intro s hs
  have h := key s hs
  cases ht : strict tx s.2.2 with
  | none => rw [ht] at h; simp at h
  | some t =>
    rw [ht] at h
    simp only [Option.map_some, Option.some.injEq, Prod.mk.injEq] at h
    obtain ⟨h1, h2, h3⟩ := h
    exact ⟨t, (wfTx_iff_parsed t).2 ⟨_, ht⟩, h1, h2, by intro hn; rw [hn] at h3; simp at h3, rfl⟩

/- non-vacuity: a concrete coinbase-style v2 transaction is well-formed (so the hypotheses are satisfiable) -/
example : wfTx ⟨⟨2, 0, [.gen 5], [], []⟩, [], some ⟨0, 0, [], [], []⟩, none⟩ := by
  have u (n : Nat) (h : n < 2^64) : U64 n := h
  refine ⟨⟨u 2 (by decide), u 0 (by decide), ⟨?_, by decide, by decide⟩, ⟨by simp, by decide, by decide⟩, ⟨by simp, by decide, by decide⟩⟩, by simp, ?_⟩
  · intro x hx; simp at hx; subst hx; exact u 5 (by decide)
  · intro _; refine ⟨rfl, by simp, fun _ => ⟨_, rfl, ⟨by decide, fun _ => ⟨rfl, rfl, rfl, rfl⟩, fun h => absurd rfl h⟩, fun _ => rfl, fun h => absurd rfl h⟩⟩
end C02
