import MoneroModel.Proofs.TxComplete2
import MoneroModel.Proofs.LenProofs
import MoneroModel.Proofs.TxSound1
import MoneroModel.Proofs.TxDecodedWF
import MoneroModel.Proofs.FixedComplete
open Monero
/-! # C02 — well-formed values survive serialise-then-parse; length accounting is exact

`Complete wf enc dec := ∀ x r, wf x → dec (enc x ++ r) = some (x, r)`: parsing an encoding followed by anything returns
the value and leaves exactly the rest, i.e. consumes exactly the bytes produced. The well-formedness predicates
(`wfTx`, `wfBlock`, … in Proofs/TxComplete*.lean; DESIGN.md Appendix B) are explicit: implicit-length vectors have the
lengths the counts / RingCT type imply, every varint-encoded number is a u64, keys are 32 bytes, explicit-length
vectors respect the allocation cap `Gen.CAP` that the decoder enforces (C04 requires that cap), the `u32` Bulletproof
count is < 2^32 and the one-byte BulletproofPlus count is < 256 (see the known finding in DESIGN.md §7 item 4).

Extra sub-fields (the "component records" of transaction.rs:872-919): their round trip is C16's subject (`C16_single_strict`),
with ONE exception that this file does not repeat — a `Padding(n < 255)` sub-field followed by further bytes is not
prefix-free by design (`¬ ShortPad` there). What this file proves about them is the length clause only: `C02_len_subfield`
(the `usize` each arm of `SubField::consensus_encode` returns = bytes written).

What is and is not shown here:
* `C02_decoded_wf_*`: every value the model decoder returns satisfies the `wf*` predicate, i.e. the hypotheses of the
  completeness theorems exclude no value that can round-trip. They DO exclude real `Transaction` values that cannot (see the
  list at `C02_decoded_wf_transaction`).
* `C02_complete_bytes` treats `Key`, `Hash`, `Signature`, `Key64`, `RangeSig`, … as opaque k-byte strings (the model identifies
  those values with their encoding); the field / element structure is in `C02_complete_key64 / _signature / _rangesig`
  (Proofs/FixedComplete) and C01's `C01_*_fieldwise`; the real `impl_array!` loops are exercised by the harness family `primitives`.
* `C02_len_*`: a separately written model of the returned `usize` (Model/Len.lean) equals the number of bytes of the separately
  written encoder. For fixed-width integers the returned value is the constant `size_of::<$ty>()` = `lenUint k`.
* Satisfiability of the hypotheses: `C02_wf_inhabited` (nine minimal samples), `C02_wf_inhabited_full` (eleven samples with
  outputs, range proofs, rings of 2, a coinbase-first RingCT transaction, a v2 transaction without inputs), `C02_wfBlock_inhabited`. -/
namespace C02

theorem C02_complete_varint : Complete U64 encVarint varint := complete_varint'
theorem C02_complete_vec {α} (sz : Nat) (wf : α → Prop) (e : α → Bytes) (d : Dec α) (h : Complete wf e d) :
    Complete (VecOK sz wf) (encVec e) (vec sz d) := fun xs r hw => complete_vec sz wf e d h xs r hw.1 hw.2.1 hw.2.2
theorem C02_complete_txin : Complete wfTxIn encTxIn txin := complete_txin
theorem C02_complete_target : Complete wfTarget encTarget target := complete_target
theorem C02_complete_txout : Complete wfTxOut encTxOut txout := complete_txout
theorem C02_complete_prefix : Complete wfPrefix encPrefix prefix' := complete_prefix
theorem C02_complete_ecdh (ty : Nat) : Complete (wfEcdh ty) encEcdh (ecdh ty) := complete_ecdh ty
theorem C02_complete_rct_base (i o : Nat) : Complete (wfBase i o) encBase (base i o) := complete_base i o
theorem C02_complete_bulletproof : Complete wfBP encBP bp := complete_bp
theorem C02_complete_bulletproofplus : Complete wfBPP encBPP bpp := complete_bpp
theorem C02_complete_clsag (m : Nat) : Complete (wfClsag m) encClsag (clsagDec m) := complete_clsag m
theorem C02_complete_mgsig (cols m : Nat) : Complete (wfMG cols m) encMG (mgDec cols m) := complete_mg cols m
theorem C02_complete_rct_prunable (ty i o m : Nat) (hty : ty ≠ 0) (p : Prunable) (r : Bytes)
    (h : wfPrunable ty i o m p) : prunable ty i o m (encPrunable p ty ++ r) = some (some p, r) :=
  complete_prunable ty i o m hty p r h
theorem C02_complete_transaction : Complete wfTx encTx tx := complete_tx
theorem C02_complete_header : Complete wfHeader encHeader header := complete_header
theorem C02_complete_block : Complete wfBlock encBlock block := complete_block

/-- reported length = bytes written, for every value (no well-formedness needed) -/
theorem C02_len_varint (n : Nat) : lenVarint n = (encVarintImp n).1.length := by
  rw [lenVarint_eq, encVarintImp_eq]
theorem C02_len_txin (x : TxIn) : lenTxIn x = (encTxIn x).length := lenTxIn_eq x
theorem C02_len_txout (x : TxOut) : lenTxOut x = (encTxOut x).length := lenTxOut_eq x
theorem C02_len_prefix (p : Prefix) : lenPrefix p = (encPrefix p).length := lenPrefix_eq p
theorem C02_len_rct_base (b : Base) : lenBase b = (encBase b).length := lenBase_eq b
theorem C02_len_rct_prunable (p : Prunable) (ty : Nat) : lenPrunable p ty = (encPrunable p ty).length := lenPrunable_eq p ty
theorem C02_len_transaction (t : Tx) : lenTx t = (encTx t).length := lenTx_eq t
theorem C02_len_header (h : Header) : lenHeader h = (encHeader h).length := lenHeader_eq h
theorem C02_len_block (b : Block) : lenBlock b = (encBlock b).length := lenBlock_eq b
/-- `[T]::consensus_encode` (varint of the count, then `len += c.consensus_encode(w)?` over the elements): exact as soon as the
element's reported length is -/
theorem C02_len_vec {α} (l : α → Nat) (e : α → Bytes) (h : ∀ x, l x = (e x).length) (xs : List α) :
    lenVec l xs = (encVec e xs).length := lenVec_eq l e h xs
example : ∀ x : Nat, lenVarint x = (encVarint x).length := lenVarint_eq
/-- `encode_sized_vec!` (no count) -/
theorem C02_len_sized_vec {α} (l : α → Nat) (e : α → Bytes) (h : ∀ x, l x = (e x).length) (xs : List α) :
    lenSized l xs = (encSized e xs).length := lenSized_eq l e h xs
theorem C02_len_target (x : Target) : lenTarget x = (encTarget x).length := lenTarget_eq x
theorem C02_len_ecdh (x : Ecdh) : lenEcdh x = (encEcdh x).length := lenEcdh_eq x
theorem C02_len_bulletproof (x : BP) : lenBP x = (encBP x).length := lenBP_eq x
theorem C02_len_bulletproofplus (x : BPP) : lenBPP x = (encBPP x).length := lenBPP_eq x
theorem C02_len_clsag (x : Clsag) : lenClsag x = (encClsag x).length := lenClsag_eq x
theorem C02_len_mgsig (x : MG) : lenMG x = (encMG x).length := lenMG_eq x
/-- extra sub-fields: the `usize` returned by each arm of `SubField::consensus_encode` (transaction.rs:872-919; `lenSub` in
Model/Len.lean mirrors the `len += …` of every arm) = the number of bytes that arm writes (`encSub`, Model/Extra.lean). For every
value, well-formed or not. A wrong returned length in one arm (e.g. `MysteriousMinerGate`) is a change of `lenSub`, not of `encSub`. -/
theorem C02_len_subfield (sf : Extra.SubField) : Extra.lenSub sf = (Extra.encSub sf).length := lenSub_eq sf

/-- strings: length-prefixed UTF-8 bytes; round trip on valid UTF-8 within the cap, reported length = bytes written -/
theorem C02_complete_string (valid : Bytes → Bool) :
    Complete (fun s => valid s = true ∧ s.length * sizes.u8 ≤ CAP ∧ s.length < 2^64) encString (stringDec valid) := by
  intro s r ⟨hv, hc, hl⟩
  unfold stringDec encString
  have e : encVarint s.length ++ s ++ r = encVec (fun b => [b]) s ++ r := by
    simp [encVec, flatten_singletons']
  rw [e, bind_eq (complete_vec sizes.u8 (fun _ => True) (fun b => [b]) u8 complete_u8 s r (fun _ _ => trivial) hc hl)]
  simp [hv, pure']
theorem C02_len_string (s : Bytes) : lenString s = (encString s).length := by
  simp [lenString, encString, lenVarint_eq]

/-- strict parsing (`deserialize`) of an encoding followed by any non-empty `t` fails -/
theorem C02_strict {α} (wf : α → Prop) (enc : α → Bytes) (dec : Dec α) (hc : Complete wf enc dec)
    (x : α) (hx : wf x) (t : Bytes) (ht : t ≠ []) : strict dec (enc x ++ t) = none := by
  unfold strict; rw [hc x t hx]
  cases t with
  | nil => exact absurd rfl ht
  | cons a t => rfl

/-- and succeeds on the encoding itself -/
theorem C02_strict_roundtrip {α} (wf : α → Prop) (enc : α → Bytes) (dec : Dec α) (hc : Complete wf enc dec)
    (x : α) (hx : wf x) : strict dec (enc x) = some x := by
  have := hc x [] hx; simp at this
  unfold strict; rw [this]

/-- `deserialize` succeeds iff `deserialize_partial` consumed everything -/
theorem C02_strict_iff_partial {α} (dec : Dec α) (b : Bytes) (x : α) :
    strict dec b = some x ↔ dec b = some (x, []) := by
  unfold strict
  constructor
  · intro h; split at h <;> simp at h
    rename_i y hd; subst h; exact hd
  · intro h; rw [h]

/-- partial parsing reports exactly the number of bytes the encoder produced -/
theorem C02_partial_count {α} (wf : α → Prop) (enc : α → Bytes) (dec : Dec α) (hc : Complete wf enc dec)
    (x : α) (hx : wf x) (r : Bytes) :
    ∃ rest, dec (enc x ++ r) = some (x, rest) ∧ (enc x ++ r).length - rest.length = (enc x).length := by
  refine ⟨r, hc x r hx, by simp⟩

/-- concrete instance for transactions, in the words of the property -/
theorem C02_transaction_roundtrip (t : Tx) (h : wfTx t) (r : Bytes) :
    tx (encTx t ++ r) = some (t, r) ∧ lenTx t = (encTx t).length ∧ (r ≠ [] → strict tx (encTx t ++ r) = none) :=
  ⟨complete_tx t r h, lenTx_eq t, fun hr => C02_strict wfTx encTx tx complete_tx t h r hr⟩

/-! ## Added after the audit -/

/-- **The well-formedness hypotheses exclude no value that can round-trip**: everything the decoder accepts is well-formed. With
`C02_complete_transaction` (well-formed ⇒ round trip) and C01 soundness this gives `wfTx t ↔ t is the strict parse of some byte
string ↔ t survives serialise-then-parse`; an over-restrictive `wfTx` (a silently narrowed C02) would make this theorem false.
Real `Transaction` values that `wfTx` DOES exclude — none of them can be parsed back: more than 255 BulletproofPlus proofs
(the count is one byte: DESIGN.md §7 item 4) or ≥ 2^32 Bulletproofs under type 3; vectors above the allocation cap; version 1
with RingCT data (`rct_signatures.sig = Some`), or version ≠ 1 with per-input signatures; version ≠ 1 without inputs but with
a RingCT base; an empty first ring with RingCT type ≠ 0; vectors whose length differs from the count implied by the prefix. -/
theorem C02_decoded_wf_transaction (b : Bytes) (t : Tx) (r : Bytes) (h : tx b = some (t, r)) : wfTx t := decoded_wf_tx b t r h
theorem C02_decoded_wf_block (b : Bytes) (x : Block) (r : Bytes) (h : block b = some (x, r)) : wfBlock x := decoded_wf_block b x r h
/-- `wfTx t ↔` the strict parse of `t`'s own encoding is `t`. (Uniqueness of that preimage is the next theorem, not this one.) -/
theorem C02_wf_iff_roundtrip_transaction (t : Tx) : wfTx t ↔ strict tx (encTx t) = some t := wfTx_iff_parsed_enc t
theorem C02_wf_iff_roundtrip_block (x : Block) : wfBlock x ↔ strict block (encBlock x) = some x := wfBlock_iff_parsed_enc x
/-- the encoding is the ONLY byte string that parses strictly to the value (from C01 soundness) -/
theorem C02_roundtrip_preimage_unique (t : Tx) (b : Bytes) (h : strict tx b = some t) : b = encTx t := strict_preimage_unique_tx t b h
theorem C02_roundtrip_preimage_unique_block (x : Block) (b : Bytes) (h : strict block b = some x) : b = encBlock x :=
  strict_preimage_unique_block x b h
/- hypothesis satisfiable: a strict parse that succeeds (blocks: `C02_wfBlock_inhabited`) -/
example : (strict tx [2, 0, 1, 0xff, 5, 0, 0, 0]).isSome = true := by decide +kernel
theorem C02_wf_iff_parsed_transaction (t : Tx) : wfTx t ↔ ∃ b, strict tx b = some t := wfTx_iff_parsed t
theorem C02_wf_iff_parsed_block (x : Block) : wfBlock x ↔ ∃ b, strict block b = some x := wfBlock_iff_parsed x
/-- the same for every component record that has a `C02_complete_*` theorem -/
theorem C02_decoded_wf_prefix (b : Bytes) (x : Prefix) (r : Bytes) (h : prefix' b = some (x, r)) : wfPrefix x := decoded_wf_prefix b x r h
theorem C02_decoded_wf_rct_base (i o : Nat) (b : Bytes) (x : Base) (r : Bytes) (h : base i o b = some (x, r)) : wfBase i o x :=
  decoded_wf_base i o b x r h
theorem C02_decoded_wf_rct_prunable (ty i o m : Nat) (b : Bytes) (x : Option Prunable) (r : Bytes)
    (h : prunable ty i o m b = some (x, r)) : (ty = 0 ∧ x = none) ∨ (ty ≠ 0 ∧ ∃ p, x = some p ∧ wfPrunable ty i o m p) :=
  decoded_wf_prunable ty i o m b x r h
theorem C02_decoded_wf_header (b : Bytes) (x : Header) (r : Bytes) (h : header b = some (x, r)) : wfHeader x := decoded_wf_header b x r h
theorem C02_decoded_wf_txin (b : Bytes) (x : TxIn) (r : Bytes) (h : txin b = some (x, r)) : wfTxIn x := decoded_wf_txin b x r h
theorem C02_decoded_wf_target (b : Bytes) (x : Target) (r : Bytes) (h : target b = some (x, r)) : wfTarget x := decoded_wf_target b x r h
theorem C02_decoded_wf_txout (b : Bytes) (x : TxOut) (r : Bytes) (h : txout b = some (x, r)) : wfTxOut x := decoded_wf_txout b x r h
theorem C02_decoded_wf_ecdh (ty : Nat) (b : Bytes) (x : Ecdh) (r : Bytes) (h : ecdh ty b = some (x, r)) : wfEcdh ty x :=
  decoded_wf_ecdh ty b x r h
theorem C02_decoded_wf_bulletproof (b : Bytes) (x : BP) (r : Bytes) (h : bp b = some (x, r)) : wfBP x := decoded_wf_bp b x r h
theorem C02_decoded_wf_bulletproofplus (b : Bytes) (x : BPP) (r : Bytes) (h : bpp b = some (x, r)) : wfBPP x := decoded_wf_bpp b x r h
theorem C02_decoded_wf_clsag (m : Nat) (b : Bytes) (x : Clsag) (r : Bytes) (h : clsagDec m b = some (x, r)) : wfClsag m x :=
  decoded_wf_clsag m b x r h
theorem C02_decoded_wf_mgsig (cols m : Nat) (b : Bytes) (x : MG) (r : Bytes) (h : mgDec cols m b = some (x, r)) : wfMG cols m x :=
  decoded_wf_mg cols m b x r h
/- hypotheses satisfiable: each component decoder accepts something (`accepts_of_isSome`: a successful strict parse is a
`d b = some (x, [])`) -/
example : ∃ x, txin [0xff, 5] = some (x, []) := accepts_of_isSome (by decide +kernel)
example : ∃ x, txin ([2, 0, 2, 1, 1] ++ List.replicate 32 0) = some (x, []) := accepts_of_isSome (by decide +kernel)
example : ∃ x, target ([3] ++ List.replicate 32 0 ++ [9]) = some (x, []) := accepts_of_isSome (by decide +kernel)
example : ∃ x, txout ([7, 3] ++ List.replicate 32 0 ++ [9]) = some (x, []) := accepts_of_isSome (by decide +kernel)
example : ∃ x, ecdh 5 (List.replicate 8 1) = some (x, []) := accepts_of_isSome (by decide +kernel)
example : ∃ x, ecdh 2 (List.replicate 64 1) = some (x, []) := accepts_of_isSome (by decide +kernel)
example : ∃ x, bp (List.replicate 192 0 ++ [1] ++ List.replicate 32 0 ++ [0] ++ List.replicate 96 0) = some (x, []) :=
  accepts_of_isSome (by decide +kernel)
example : ∃ x, bpp (List.replicate 192 0 ++ [0] ++ [1] ++ List.replicate 32 0) = some (x, []) := accepts_of_isSome (by decide +kernel)
example : ∃ x, clsagDec 1 (List.replicate 128 0) = some (x, []) := accepts_of_isSome (by decide +kernel)
example : ∃ x, mgDec 2 1 (List.replicate 160 0) = some (x, []) := accepts_of_isSome (by decide +kernel)
example : ∃ x, header ([16, 16, 0] ++ List.replicate 32 0 ++ [1, 0, 0, 0]) = some (x, []) := accepts_of_isSome (by decide +kernel)

/-- primitives: fixed-width little-endian unsigned integers (`u8 … u64`: k = 1, 2, 4, 8) -/
theorem C02_complete_uint (k : Nat) : Complete (fun n => n < 256 ^ k) (encUintLE k) (uintLE k) := by
  intro n r hn
  unfold uintLE encUintLE
  rw [bind_eq (takeN_app _ r k (leBytes_length _ k))]
  simp only [pure']
  rw [foldr_leBytes n k hn]
example : (300 : Nat) < 256 ^ 2 := by decide
/-- reported length of a fixed-width integer — `lenUint k` (Model/Len.lean) mirrors `Ok(mem::size_of::<$ty>())` of
`impl_int_encodable!`, a constant of the type — = number of bytes the encoder writes, for every value -/
theorem C02_len_uint (k n : Nat) : lenUint k = (encUintLE k n).length := lenUint_eq k n
theorem C02_len_int (k : Nat) (v : Int) : lenUint k = (encIntLE k v).length := lenInt_eq k v
/-- `bool`: `Ok(1)`; `RctType`: what the one `u8` reports -/
theorem C02_len_bool (v : Bool) : lenBool v = (encBool v).length := lenBool_eq v
theorem C02_len_rcttype (ty : Nat) : lenRctType ty = (encRctType ty).length := lenRctType_eq ty
/-- signed fixed-width integers (`i8 … i64`): every value of the type's range round-trips -/
theorem C02_complete_int (k : Nat) (hk : 0 < k) :
    Complete (fun v : Int => -((256 ^ k / 2 : Nat) : Int) ≤ v ∧ v < ((256 ^ k / 2 : Nat) : Int)) (encIntLE k) (intLE k) := by
  intro v r ⟨hlo, hhi⟩
  have heven : 256 ^ k = 2 * (256 ^ k / 2) := by
    obtain ⟨j, rfl⟩ : ∃ j, k = j + 1 := ⟨k - 1, by omega⟩
    rw [Nat.pow_succ]; omega
  have hpos : (0 : Int) < ((256 ^ k : Nat) : Int) := by exact_mod_cast Nat.pow_pos (by decide : 0 < 256)
  have hmod_nonneg := Int.emod_nonneg v (Int.ne_of_gt hpos)
  have hmod_lt := Int.emod_lt_of_pos v hpos
  have hn : (v % ((256 ^ k : Nat) : Int)).toNat < 256 ^ k := by omega
  have hu := C02_complete_uint k _ r hn
  unfold intLE encIntLE
  unfold encUintLE at hu
  rw [bind_eq hu]
  simp only [pure']
  congr 2
  by_cases hv : 0 ≤ v
  · have e : v % ((256 ^ k : Nat) : Int) = v := Int.emod_eq_of_lt hv (by omega)
    rw [e]
    have : v.toNat < 256 ^ k / 2 := by omega
    simp only [this, if_true]; omega
  · have e : v % ((256 ^ k : Nat) : Int) = v + ((256 ^ k : Nat) : Int) := by
      rw [← Int.add_emod_right]; exact Int.emod_eq_of_lt (by omega) (by omega)
    rw [e]
    have : ¬ (v + ((256 ^ k : Nat) : Int)).toNat < 256 ^ k / 2 := by omega
    simp only [this, if_false]; omega
example : -(((256 ^ 1 / 2 : Nat)) : Int) ≤ (-128 : Int) ∧ (-128 : Int) < ((256 ^ 1 / 2 : Nat) : Int) := by decide
/-- OPAQUE fixed-size byte strings: a k-byte string followed by anything is read back by a k-byte read. The model of the
transaction codec represents `Key`, `Hash`, `KeyImage`, `CtKey` (32), `Hash8` (8), `Signature` (64), `Key64` (2048), `RangeSig`
(6176), `MultisigKlrki` (128) by their wire bytes, i.e. it identifies the value with its encoding, so for them this statement
is true by modelling: it says nothing about the field order of `RangeSig { asig { s0, s1, ee }, Ci }`, `Signature { c, r }`,
`Klrki { K, L, R, ki }` nor about the element loop of `impl_array!` (encode.rs:421-450). That structure is the subject of the
three theorems below and of C01's `C01_fixed_elementwise` / `C01_signature_fieldwise` / `C01_rangesig_fieldwise`
(Proofs/FixedRecords.lean: the structured reader consumes the same bytes as the flat one); the real element loops are run against
the model by the harness family `primitives`. -/
theorem C02_complete_bytes (k : Nat) : Complete (fun x : Bytes => x.length = k) id (takeN k) := complete_takeN k
example : ([1, 2, 3] : Bytes).length = 3 := rfl
/-- structured fixed records (Proofs/FixedComplete.lean): `Key64` as a loop of 64 key reads, `Signature { c, r }` as two keys,
`RangeSig { asig: BoroSig { s0, s1, ee }, Ci }` field by field (64 + 64 + 1 + 64 keys, 6176 bytes) round-trip -/
theorem C02_complete_key64 : Complete wfKey64 (encSized id) key64S := complete_key64S
theorem C02_complete_signature : Complete wfSignatureS encSignatureS signatureS := complete_signatureS
theorem C02_complete_rangesig : Complete wfRangeSigS encRangeSigS rangeSigS := complete_rangeSigS
theorem C02_rangesig_length (x : (List Bytes × List Bytes × Bytes) × List Bytes) (h : wfRangeSigS x) :
    (encRangeSigS x).length = 6176 := length_encRangeSigS x h
example : wfRangeSigS ((List.replicate 64 (List.replicate 32 1), List.replicate 64 (List.replicate 32 2), List.replicate 32 3),
    List.replicate 64 (List.replicate 32 4)) := by
  refine ⟨⟨⟨by simp, ?_⟩, ⟨by simp, ?_⟩, by simp [Key32]⟩, ⟨by simp, ?_⟩⟩ <;>
    (intro k hk; rw [List.eq_of_mem_replicate hk]; simp [Key32])
/-- `bool`: both values round-trip (the decoder is lenient — any non-zero byte is `true` — which concerns C01, not C02) -/
theorem C02_complete_bool : Complete (fun _ => True) encBool boolDec := by
  intro v r _; cases v <;> rfl
/-- `RctType` as a stand-alone codec: the seven types round-trip -/
theorem C02_complete_rcttype : Complete (fun ty => ty ≤ 6) encRctType rctType := by
  intro ty r h
  have : ∀ n, n ≤ 6 → ∀ r, rctType (encRctType n ++ r) = some (n, r) := by
    intro n hn r
    have h7 : n = 0 ∨ n = 1 ∨ n = 2 ∨ n = 3 ∨ n = 4 ∨ n = 5 ∨ n = 6 := by omega
    rcases h7 with rfl | rfl | rfl | rfl | rfl | rfl | rfl <;> rfl
  exact this ty h r
/-- unprefixed sized vectors (`consensus_decode_sized_vec` / `encode_sized_vec`), exported from Proofs/TxComplete -/
theorem C02_complete_sized_vec {α} (sz : Nat) (wf : α → Prop) (e : α → Bytes) (d : Dec α) (h : Complete wf e d)
    (xs : List α) (r : Bytes) (hw : ∀ x ∈ xs, wf x) (hc : xs.length * sz ≤ CAP) :
    sizedVec sz d xs.length (encSized e xs ++ r) = some (xs, r) := complete_sized sz wf e d h xs r hw hc

/-- concrete instances of the strict / partial clauses (the generic hypothesis `hc` is discharged) -/
theorem C02_strict_block (x : Block) (hx : wfBlock x) (t : Bytes) (ht : t ≠ []) : strict block (encBlock x ++ t) = none :=
  C02_strict wfBlock encBlock block complete_block x hx t ht
theorem C02_strict_prefix (x : Prefix) (hx : wfPrefix x) (t : Bytes) (ht : t ≠ []) : strict prefix' (encPrefix x ++ t) = none :=
  C02_strict wfPrefix encPrefix prefix' complete_prefix x hx t ht
theorem C02_strict_header (x : Header) (hx : wfHeader x) (t : Bytes) (ht : t ≠ []) : strict header (encHeader x ++ t) = none :=
  C02_strict wfHeader encHeader header complete_header x hx t ht
theorem C02_block_roundtrip (x : Block) (h : wfBlock x) (r : Bytes) :
    block (encBlock x ++ r) = some (x, r) ∧ lenBlock x = (encBlock x).length ∧ (r ≠ [] → strict block (encBlock x ++ r) = none) :=
  ⟨complete_block x r h, lenBlock_eq x, fun hr => C02_strict_block x h r hr⟩

/-- MINIMAL sample encodings: one key input (ring of one), NO outputs, empty extra; then the body of each kind with ZERO range
proofs. (Richer samples: `samplesFull` below.) -/
def sampleBytes (version : Nat) (body : Bytes) : Bytes :=
  [UInt8.ofNat version, 0, 1, 2, 0, 1, 1] ++ List.replicate 32 0 ++ [0, 0] ++ body
def samples : List (Nat × Option Nat × Bytes) := [
  (1, none, sampleBytes 1 (List.replicate 64 0)),                                   -- version 1: one signature
  (2, some 1, sampleBytes 2 ([1, 0] ++ List.replicate 96 0)),                       -- Full: one MLSAG (1 row × 2 keys, cc)
  (2, some 2, sampleBytes 2 ([2, 0] ++ List.replicate 32 0 ++ List.replicate 96 0)),   -- Simple: pseudo out in the base, one MLSAG
  (2, some 3, sampleBytes 2 ([3, 0] ++ [0, 0, 0, 0] ++ List.replicate 96 0 ++ List.replicate 32 0)),  -- Bulletproof: u32 count
  (2, some 4, sampleBytes 2 ([4, 0] ++ [0] ++ List.replicate 96 0 ++ List.replicate 32 0)),           -- Bulletproof2: varint count
  (2, some 5, sampleBytes 2 ([5, 0] ++ [0] ++ List.replicate 96 0 ++ List.replicate 32 0)),           -- Clsag
  (2, some 6, sampleBytes 2 ([6, 0] ++ [0] ++ List.replicate 96 0 ++ List.replicate 32 0)),           -- BulletproofPlus: u8 count
  (0, some 0, sampleBytes 0 [0]), (3, some 0, sampleBytes 3 [0])]                                    -- Null under versions 0 and 3
/-- `wfTx` is inhabited for every (version class, RingCT type) pair: version 1, each RingCT type 1..6 under version 2, type 0 under
versions 0 and 3 — by a MINIMAL transaction (one key input with a ring of one, no output, no range proof, empty extra). In these
nine witnesses the clauses of `wfTx` that quantify over outputs, ecdh entries, range proofs hold over EMPTY lists; they are
exercised by `C02_wf_inhabited_full`, not here. -/
theorem C02_wf_inhabited : ∀ s ∈ samples, ∃ t, wfTx t ∧ t.pre.version = s.1 ∧ t.base.map (·.ty) = s.2.1 ∧ t.pre.ins ≠ [] ∧
    strict tx s.2.2 = some t := by
  have key : ∀ s ∈ samples, (strict tx s.2.2).map (fun t => (t.pre.version, t.base.map (·.ty), t.pre.ins.length)) = some (s.1, s.2.1, 1) := by
    decide +kernel
  intro s hs
  have h := key s hs
  cases ht : strict tx s.2.2 with
  | none => rw [ht] at h; simp at h
  | some t =>
    rw [ht] at h
    simp only [Option.map_some, Option.some.injEq, Prod.mk.injEq] at h
    obtain ⟨h1, h2, h3⟩ := h
    exact ⟨t, (wfTx_iff_parsed t).2 ⟨_, ht⟩, h1, h2, by intro hn; rw [hn] at h3; simp at h3, rfl⟩

/-! ### Full samples: outputs, range proofs, rings of two, coinbase first, no inputs -/

/-- n zero bytes -/
def z (n : Nat) : Bytes := List.replicate n 0
/-- a key input: tag 2, amount 0, `ring` key offsets (each 1), a zero key image -/
def keyIn (ring : Nat) : Bytes := [2, 0, UInt8.ofNat ring] ++ List.replicate ring 1 ++ z 32
/-- a coinbase input: tag 0xff, height 5 -/
def genIn : Bytes := [0xff, 5]
/-- outputs of amount 0: a plain key (tag 2); a tagged key (tag 3) with view tag 7 -/
def outK : Bytes := [0, 2] ++ z 32
def outT : Bytes := [0, 3] ++ z 32 ++ [7]
/-- prefix: version, unlock time 0, the inputs, the outputs, the extra bytes (all counts < 128: one-byte varints) -/
def pre (version : Nat) (ins outs : List Bytes) (extra : Bytes) : Bytes :=
  [UInt8.ofNat version, 0, UInt8.ofNat ins.length] ++ ins.flatten ++ [UInt8.ofNat outs.length] ++ outs.flatten ++
  [UInt8.ofNat extra.length] ++ extra
/-- one Bulletproof (6 keys, L with one key, R with one key, 3 keys); one BulletproofPlus (6 keys, L and R with one key each) -/
def bpBytes : Bytes := z 192 ++ [1] ++ z 32 ++ [1] ++ z 32 ++ z 96
def bppBytes : Bytes := z 192 ++ [1] ++ z 32 ++ [1] ++ z 32

/-- what is recorded about a parsed sample: the sizes of every part. `ring` = ring size of the first input (`none`: coinbase or
no input); `sigsV1` = signatures per input (version 1); `mgs` = per MLSAG (rows, columns of each row); `clsags` = rows per CLSAG;
`bpLR` = (|L|, |R|) of every Bulletproof / BulletproofPlus. Absent parts count as 0 / []. -/
structure Shape where
  (version : Nat) (ty : Option Nat := none) (ins outs : Nat) (tagged : Nat := 0) (ring : Option Nat := none) (extra : Nat := 0)
  (sigsV1 : List Nat := []) (basePseudo ecdhStd ecdhBp outPk rangeSigs bps bpps : Nat := 0) (bpLR : List (Nat × Nat) := [])
  (mgs : List (Nat × List Nat) := []) (clsags : List Nat := []) (pseudo : Nat := 0)
  deriving DecidableEq

def shapeOf (t : Tx) : Shape where
  version := t.pre.version
  ty := t.base.map (·.ty)
  ins := t.pre.ins.length
  outs := t.pre.outs.length
  tagged := (t.pre.outs.filter fun o => match o.target with | .tagged _ _ => true | _ => false).length
  ring := match t.pre.ins.head? with | some (.toKey _ o _) => some o.length | _ => none
  extra := t.pre.extra.length
  sigsV1 := t.sigs.map (·.length)
  basePseudo := (t.base.map (·.pseudo.length)).getD 0
  ecdhStd := (t.base.map fun b => (b.ecdh.filter fun e => match e with | .std _ _ => true | _ => false).length).getD 0
  ecdhBp := (t.base.map fun b => (b.ecdh.filter fun e => match e with | .bp _ => true | _ => false).length).getD 0
  outPk := (t.base.map (·.outPk.length)).getD 0
  rangeSigs := (t.prun.map (·.rangeSigs.length)).getD 0
  bps := (t.prun.map (·.bps.length)).getD 0
  bpps := (t.prun.map (·.bpps.length)).getD 0
  bpLR := (t.prun.map fun p => p.bps.map (fun x => (x.L.length, x.R.length)) ++ p.bpps.map (fun x => (x.L.length, x.R.length))).getD []
  mgs := (t.prun.map fun p => p.mgs.map fun m => (m.ss.length, m.ss.map (·.length))).getD []
  clsags := (t.prun.map fun p => p.clsags.map (·.s.length)).getD []
  pseudo := (t.prun.map (·.pseudo.length)).getD 0

/-- eleven encodings with the shape each must parse to -/
def samplesFull : List (Bytes × Shape) := [
  -- version 1: inputs with rings of 2 and 1 (2 + 1 signatures of 64 bytes), a plain and a tagged output, 3 extra bytes
  (pre 1 [keyIn 2, keyIn 1] [outK, outT] [1, 2, 3] ++ z (64 * 3),
   { version := 1, ins := 2, outs := 2, tagged := 1, ring := some 2, extra := 3, sigsV1 := [2, 1] }),
  -- Full (1): ring of 2 (mixin 1); std ecdh (64 bytes), outPk; one 6176-byte range sig; one MLSAG of 2 rows × (1 + inputs) columns
  (pre 2 [keyIn 2] [outK] [] ++ [1, 0] ++ z 64 ++ z 32 ++ z 6176 ++ z (2 * 64 + 32),
   { version := 2, ty := some 1, ins := 1, outs := 1, ring := some 2, ecdhStd := 1, outPk := 1, rangeSigs := 1, mgs := [(2, [2, 2])] }),
  -- Simple (2): two inputs (2 pseudo outs in the base), a tagged output; one range sig; one MLSAG per input, 1 row × 2 columns
  (pre 2 [keyIn 1, keyIn 1] [outT] [] ++ [2, 0] ++ z 64 ++ z 64 ++ z 32 ++ z 6176 ++ z 96 ++ z 96,
   { version := 2, ty := some 2, ins := 2, outs := 1, tagged := 1, ring := some 1, basePseudo := 2, ecdhStd := 1, outPk := 1,
     rangeSigs := 1, mgs := [(1, [2]), (1, [2])] }),
  -- Bulletproof (3): ring of 2; u32 count [1,0,0,0] and one Bulletproof; MLSAG 2 rows × 2 columns; one pseudo out
  (pre 2 [keyIn 2] [outK] [] ++ [3, 0] ++ z 64 ++ z 32 ++ [1, 0, 0, 0] ++ bpBytes ++ z (2 * 64 + 32) ++ z 32,
   { version := 2, ty := some 3, ins := 1, outs := 1, ring := some 2, ecdhStd := 1, outPk := 1, bps := 1, bpLR := [(1, 1)],
     mgs := [(2, [2, 2])], pseudo := 1 }),
  -- Bulletproof2 (4), ordinary: ring of 1; 8-byte ecdh; varint count 1
  (pre 2 [keyIn 1] [outK] [] ++ [4, 0] ++ z 8 ++ z 32 ++ [1] ++ bpBytes ++ z 96 ++ z 32,
   { version := 2, ty := some 4, ins := 1, outs := 1, ring := some 1, ecdhBp := 1, outPk := 1, bps := 1, bpLR := [(1, 1)],
     mgs := [(1, [2])], pseudo := 1 }),
  -- Bulletproof2 (4) with a COINBASE input FIRST and a key input (ring of 3) second: the prunable part is read with mixin 0
  -- (1 row per MLSAG); two outputs (one tagged), varint count 2 and two Bulletproofs, one extra byte
  (pre 2 [genIn, keyIn 3] [outK, outT] [9] ++ [4, 0] ++ z 16 ++ z 64 ++ [2] ++ bpBytes ++ bpBytes ++ z 96 ++ z 96 ++ z 64,
   { version := 2, ty := some 4, ins := 2, outs := 2, tagged := 1, ring := none, extra := 1, ecdhBp := 2, outPk := 2, bps := 2,
     bpLR := [(1, 1), (1, 1)], mgs := [(1, [2]), (1, [2])], pseudo := 2 }),
  -- Clsag (5): ring of 2: one CLSAG with 2 rows
  (pre 2 [keyIn 2] [outK] [] ++ [5, 0] ++ z 8 ++ z 32 ++ [1] ++ bpBytes ++ z (2 * 32 + 64) ++ z 32,
   { version := 2, ty := some 5, ins := 1, outs := 1, ring := some 2, ecdhBp := 1, outPk := 1, bps := 1, bpLR := [(1, 1)],
     clsags := [2], pseudo := 1 }),
  -- BulletproofPlus (6): two inputs with rings of 2, a tagged output; u8 count 1 and one BulletproofPlus; two CLSAGs of 2 rows
  (pre 2 [keyIn 2, keyIn 2] [outT] [] ++ [6, 0] ++ z 8 ++ z 32 ++ [1] ++ bppBytes ++ z 128 ++ z 128 ++ z 64,
   { version := 2, ty := some 6, ins := 2, outs := 1, tagged := 1, ring := some 2, ecdhBp := 1, outPk := 1, bpps := 1,
     bpLR := [(1, 1)], clsags := [2, 2], pseudo := 2 }),
  -- version 2 WITHOUT inputs (one output): nothing follows the prefix, no RingCT base
  (pre 2 [] [outK] [], { version := 2, ins := 0, outs := 1 }),
  -- Null (0) under version 3 with a coinbase input and an output; under version 0 with a key input (ring of 2) and an output
  (pre 3 [genIn] [outK] [] ++ [0], { version := 3, ty := some 0, ins := 1, outs := 1 }),
  (pre 0 [keyIn 2] [outT] [] ++ [0], { version := 0, ty := some 0, ins := 1, outs := 1, tagged := 1, ring := some 2 })]

/-- **the hypotheses of `C02_complete_transaction` are satisfiable by transactions with content**: each of the eleven encodings of
`samplesFull` parses strictly to a well-formed transaction of the recorded shape. Witnessed: version 1 with two inputs (rings of 2
and 1); every RingCT type 1..6 with at least one output, one ecdh entry of the variant the type requires, one outPk and one range
proof of the type's kind (range sig / Bulletproof with the u32 count / with the varint count / BulletproofPlus with the u8 count),
L and R non-empty; rings of 2 (mixin 1: MLSAG and CLSAG with 2 rows) for types 1, 3, 5, 6; two inputs for types 2, 4, 6; tagged-key
outputs; non-empty extra; type 4 with a coinbase input first (prunable part read with mixin 0); version 2 without inputs; type 0
under versions 0 and 3. NOT witnessed: counts needing a multi-byte varint, amounts / fees ≠ 0, anything near the cap. -/
theorem C02_wf_inhabited_full : ∀ s ∈ samplesFull, ∃ t, wfTx t ∧ strict tx s.1 = some t ∧ shapeOf t = s.2 := by
  have key : ∀ s ∈ samplesFull, (strict tx s.1).map shapeOf = some s.2 := by decide +kernel
  intro s hs
  have h := key s hs
  cases ht : strict tx s.1 with
  | none => rw [ht] at h; simp at h
  | some t =>
    rw [ht] at h
    simp only [Option.map_some, Option.some.injEq] at h
    exact ⟨t, (wfTx_iff_parsed t).2 ⟨_, ht⟩, rfl, h⟩

/-- the same in plain terms, for each RingCT type 1..6: a well-formed transaction of that type whose outputs, ecdh entries, outPk,
range proofs and ring signatures are all NON-EMPTY lists (so none of the `∀ x ∈ …` clauses of `wfTx` is vacuous for it) -/
theorem C02_wf_inhabited_rct (ty : Nat) (h1 : 1 ≤ ty) (h6 : ty ≤ 6) : ∃ t b p, wfTx t ∧ t.base = some b ∧ b.ty = ty ∧ t.prun = some p ∧
    t.pre.ins ≠ [] ∧ t.pre.outs ≠ [] ∧ b.ecdh ≠ [] ∧ b.outPk ≠ [] ∧ (p.rangeSigs ≠ [] ∨ p.bps ≠ [] ∨ p.bpps ≠ []) ∧
    (p.mgs ≠ [] ∨ p.clsags ≠ []) := by
  have key : ∀ ty, 1 ≤ ty → ty ≤ 6 → ∃ s ∈ samplesFull, s.2.ty = some ty ∧ s.2.ins ≠ 0 ∧ s.2.outs ≠ 0 ∧ s.2.ecdhStd + s.2.ecdhBp ≠ 0 ∧
      s.2.outPk ≠ 0 ∧ s.2.rangeSigs + s.2.bps + s.2.bpps ≠ 0 ∧ s.2.mgs.length + s.2.clsags.length ≠ 0 := by
    intro ty h1 h6
    have h : ty = 1 ∨ ty = 2 ∨ ty = 3 ∨ ty = 4 ∨ ty = 5 ∨ ty = 6 := by omega
    rcases h with rfl | rfl | rfl | rfl | rfl | rfl
    · exact ⟨samplesFull[1], by decide +kernel, by decide +kernel⟩
    · exact ⟨samplesFull[2], by decide +kernel, by decide +kernel⟩
    · exact ⟨samplesFull[3], by decide +kernel, by decide +kernel⟩
    · exact ⟨samplesFull[5], by decide +kernel, by decide +kernel⟩
    · exact ⟨samplesFull[6], by decide +kernel, by decide +kernel⟩
    · exact ⟨samplesFull[7], by decide +kernel, by decide +kernel⟩
  obtain ⟨s, hs, e1, e2, e3, e4, e5, e6, e7⟩ := key ty h1 h6
  obtain ⟨t, hw, _, hsh⟩ := C02_wf_inhabited_full s hs
  rw [← hsh] at e1 e2 e3 e4 e5 e6 e7
  simp only [shapeOf] at e1 e2 e3 e4 e5 e6 e7
  cases hb : t.base with
  | none => rw [hb] at e1; simp at e1
  | some b =>
    cases hp : t.prun with
    | none => rw [hp] at e6; simp at e6
    | some p =>
      rw [hb] at e1 e4 e5; rw [hp] at e6 e7
      simp only [Option.map_some, Option.some.injEq, Option.getD_some] at e1 e4 e5 e6 e7
      refine ⟨t, b, p, hw, hb, e1, hp, ?_, ?_, ?_, ?_, ?_, ?_⟩
      · intro hn; rw [hn] at e2; exact e2 rfl
      · intro hn; rw [hn] at e3; exact e3 rfl
      · intro hn; rw [hn] at e4; exact e4 rfl
      · intro hn; rw [hn] at e5; exact e5 rfl
      · by_cases hr : p.rangeSigs = []
        · by_cases hbp : p.bps = []
          · refine Or.inr (Or.inr ?_); intro hn; rw [hr, hbp, hn] at e6; exact e6 rfl
          · exact Or.inr (Or.inl hbp)
        · exact Or.inl hr
      · by_cases hm : p.mgs = []
        · refine Or.inr ?_; intro hn; rw [hm, hn] at e7; exact e7 rfl
        · exact Or.inl hm

/-- a block: header (major 16, minor 16, timestamp 0, zero prev id, nonce 1), a version 2 miner transaction with a coinbase input,
one output, two extra bytes and RingCT type 0, and ONE transaction hash -/
def sampleBlock : Bytes := [16, 16, 0] ++ z 32 ++ [1, 0, 0, 0] ++ (pre 2 [genIn] [outK] [1, 2] ++ [0]) ++ [1] ++ z 32
/-- **`wfBlock` / `wfHeader` are inhabited**: `sampleBlock` parses strictly to a well-formed block with a miner transaction and one
transaction hash: the hypotheses of `C02_complete_block`, `C02_strict_block`, `C02_block_roundtrip`, `C02_strict_header`,
`C02_decoded_wf_block` are satisfiable -/
theorem C02_wfBlock_inhabited : ∃ x, wfBlock x ∧ wfHeader x.hdr ∧ strict block sampleBlock = some x ∧
    x.hdr.major = 16 ∧ x.hdr.nonce = 1 ∧ x.hashes.length = 1 ∧ x.miner.pre.ins.length = 1 ∧ x.miner.pre.outs.length = 1 := by
  have key : (strict block sampleBlock).map (fun x => (x.hdr.major, x.hdr.nonce, x.hashes.length, x.miner.pre.ins.length,
      x.miner.pre.outs.length)) = some (16, 1, 1, 1, 1) := by decide +kernel
  cases hx : strict block sampleBlock with
  | none => rw [hx] at key; simp at key
  | some x =>
    rw [hx] at key
    simp only [Option.map_some, Option.some.injEq, Prod.mk.injEq] at key
    obtain ⟨k1, k2, k3, k4, k5⟩ := key
    have hw : wfBlock x := (wfBlock_iff_parsed x).2 ⟨_, hx⟩
    exact ⟨x, hw, hw.1, rfl, k1, k2, k3, k4, k5⟩

/- non-vacuity by hand (no parsing): a concrete coinbase-style v2 transaction is well-formed -/
example : wfTx ⟨⟨2, 0, [.gen 5], [], []⟩, [], some ⟨0, 0, [], [], []⟩, none⟩ := by
  have u (n : Nat) (h : n < 2^64) : U64 n := h
  refine ⟨⟨u 2 (by decide), u 0 (by decide), ⟨?_, by decide, by decide⟩, ⟨by simp, by decide, by decide⟩, ⟨by simp, by decide, by decide⟩⟩, by simp, ?_⟩
  · intro x hx; simp at hx; subst hx; exact u 5 (by decide)
  · intro _; refine ⟨rfl, by simp, fun _ => ⟨_, rfl, ⟨by decide, fun _ => ⟨rfl, rfl, rfl, rfl⟩, fun h => absurd rfl h⟩, fun _ => rfl, fun h => absurd rfl h⟩⟩
end C02
