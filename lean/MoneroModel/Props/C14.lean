import MoneroModel.Proofs.VarIntImp
import MoneroModel.Proofs.VarIntSpec
import MoneroModel.Proofs.VarIntErr
open Monero
/-! # C14 — VarInt is a bijection between u64 and minimal little-endian base-128 strings

Model: `Monero.varint` (decoder, encode.rs:352-384: collect groups with the zero-byte rule, reverse, accumulate with
the `leading_zeros() >= 7` guard) and `Monero.encVarintImp` (encoder as written, encode.rs:319-349).
Spec: `Spec.leb128`. Every theorem quantifies over all naturals / all byte strings. -/
namespace C14

/-- the encoder as written is LEB128, and the length it reports is the number of bytes written -/
theorem C14_enc_eq_leb128 (n : Nat) :
    (encVarintImp n).1 = Spec.leb128 n ∧ (encVarintImp n).2 = (Spec.leb128 n).length := by
  rw [encVarintImp_eq, encVarint_eq_leb128]; exact ⟨rfl, rfl⟩

/-- decode ∘ encode = id on all of u64, with any continuation of the input left untouched -/
theorem C14_dec_enc (n : Nat) (hn : n < 2^64) (r : Bytes) : varint ((encVarintImp n).1 ++ r) = some (n, r) := by
  rw [encVarintImp_eq]; exact complete_varint n hn r

/-- the decoder accepts exactly the encoder's outputs: `decode b = Ok(n, rest)` iff `n` is a u64 and `b` starts with
`encode n` (so the consumed prefix is `encode n`, and no other spelling of `n` is accepted) -/
theorem C14_dec_iff (b : Bytes) (n : Nat) (r : Bytes) :
    varint b = some (n, r) ↔ n < 2^64 ∧ b = Spec.leb128 n ++ r := by
  constructor
  · intro h; exact ⟨varint_lt b n r h, by rw [← encVarint_eq_leb128]; exact sound_varint b n r h⟩
  · rintro ⟨hn, rfl⟩; rw [← encVarint_eq_leb128]; exact complete_varint n hn r

theorem leb128_ne_nil (n : Nat) : Spec.leb128 n ≠ [] := by
  rw [Spec.leb128]; by_cases h : n < 128 <;> simp [h]

theorem leb128_bounds : ∀ n, 1 ≤ (Spec.leb128 n).length ∧ n < 128 ^ (Spec.leb128 n).length ∧
    (1 < (Spec.leb128 n).length → 128 ^ ((Spec.leb128 n).length - 1) ≤ n) := by
  intro n
  induction n using Nat.strongRecOn with
  | _ n ih =>
    rw [Spec.leb128]
    by_cases hlt : n < 128
    · simp [hlt]
    · obtain ⟨h1, h2, h3⟩ := ih (n / 128) (by omega)
      simp only [hlt, dif_neg, not_false_eq_true, List.length_cons, Nat.add_sub_cancel]
      refine ⟨by omega, ?_, fun _ => ?_⟩
      · rw [Nat.pow_succ]; omega
      · by_cases hk : 1 < (Spec.leb128 (n / 128)).length
        · have := h3 hk
          have e : (Spec.leb128 (n / 128)).length = ((Spec.leb128 (n / 128)).length - 1) + 1 := by omega
          rw [e, Nat.pow_succ]; omega
        · have e : (Spec.leb128 (n / 128)).length = 1 := by omega
          rw [e]; simp; omega

/-- length: at least one byte; `k` bytes exactly when `128^(k-1) ≤ n < 128^k` (i.e. `max 1 ⌈bits/7⌉`); never more
than 10 for a u64 -/
theorem C14_len (n : Nat) :
    1 ≤ (encVarintImp n).2 ∧ n < 128 ^ (encVarintImp n).2 ∧
    (1 < (encVarintImp n).2 → 128 ^ ((encVarintImp n).2 - 1) ≤ n) ∧ (n < 2^64 → (encVarintImp n).2 ≤ 10) := by
  rw [(C14_enc_eq_leb128 n).2]
  obtain ⟨h1, h2, h3⟩ := leb128_bounds n
  refine ⟨h1, h2, h3, fun hn => ?_⟩
  by_cases hk : (Spec.leb128 n).length ≤ 10
  · exact hk
  · exfalso
    have h4 := h3 (by omega)
    have : 128 ^ 10 ≤ 128 ^ ((Spec.leb128 n).length - 1) := Nat.pow_le_pow_right (by decide) (by omega)
    have e : (128:Nat) ^ 10 = 2^70 := by decide
    omega

/-- values of 2^64 or more are never returned -/
theorem C14_rejects_overflow (b : Bytes) (n : Nat) (r : Bytes) (h : varint b = some (n, r)) : n < 2^64 :=
  varint_lt b n r h

/-- whatever is ACCEPTED, the consumed prefix is the canonical string of the returned value (a statement about accepted
inputs: it has an acceptance hypothesis and no `= none`; it excludes a second accepted spelling of `n` only through
`C14_injective`. The direct rejection statements — a superfluous zero group, the padded spellings, values `≥ 2^64`,
strings without terminator — are `C14_rejects_zero_group`, `C14_rejects_padded`, `C14_rejects_ge_2_64`,
`C14_rejects_unterminated` below). Formerly named `C14_rejects_nonminimal`. -/
theorem C14_consumed_is_canonical (b : Bytes) (n : Nat) (r : Bytes) (h : varint b = some (n, r)) :
    b.take (b.length - r.length) = Spec.leb128 n := by
  obtain ⟨_, rfl⟩ := (C14_dec_iff b n r).1 h
  simp

/-- a proper prefix of an encoding (a truncated string) is rejected -/
theorem C14_rejects_truncated (n : Nat) (k : Nat) (hk : k < (Spec.leb128 n).length) :
    varint ((Spec.leb128 n).take k) = none := by
  cases h : varint ((Spec.leb128 n).take k) with
  | none => rfl
  | some p =>
    obtain ⟨m, r⟩ := p
    exfalso
    obtain ⟨_, hb⟩ := (C14_dec_iff _ m r).1 h
    -- `leb128 m` is a prefix of a proper prefix of `leb128 n`; both are prefix-free codes
    have key : ∀ (n m : Nat) (k : Nat) (r : Bytes), k < (Spec.leb128 n).length →
        (Spec.leb128 n).take k = Spec.leb128 m ++ r → False := by
      intro n
      induction n using Nat.strongRecOn with
      | _ n ih =>
        intro m k r hk he
        rw [Spec.leb128] at hk he
        by_cases hlt : n < 128
        · simp [hlt] at hk he; subst hk
          simp at he; exact leb128_ne_nil m he.1
        · simp only [hlt, dif_neg, not_false_eq_true, List.length_cons] at hk he
          cases k with
          | zero => simp at he; exact leb128_ne_nil m he.1
          | succ k =>
            rw [List.take_succ_cons] at he
            by_cases h2 : m < 128
            · have em : Spec.leb128 m = [UInt8.ofNat m] := by rw [Spec.leb128]; simp [h2]
              rw [em] at he
              simp only [List.singleton_append, List.cons.injEq] at he
              have := congrArg UInt8.toNat he.1
              simp [UInt8.toNat_ofNat'] at this; omega
            · have em : Spec.leb128 m = UInt8.ofNat (128 + m % 128) :: Spec.leb128 (m / 128) := by
                rw [Spec.leb128]; simp [h2]
              rw [em] at he
              simp only [List.cons_append, List.cons.injEq] at he
              exact ih (n / 128) (by omega) (m / 128) k r (by omega) he.2
    exact key n m k r hk hb

/-- no over-read, extensional form, ACCEPTED inputs only: the result is a function of the consumed prefix alone (replace
what follows it by any `t`: same value, rest `t`). In a model `Bytes → Option (Nat × Bytes)` the rest is a suffix by
construction, so this is a corollary of `C14_dec_iff` and says nothing about failing inputs; for failures (how far
the reader got, and that the failure does not depend on the bytes after that position) see `C14_no_overread_err`
and `C14_varintE_cases`; the reader position of the real decoder is observed by the harness (`varint_decx`). -/
theorem C14_no_overread (b : Bytes) (n : Nat) (r : Bytes) (h : varint b = some (n, r)) (t : Bytes) :
    varint (b.take (b.length - r.length) ++ t) = some (n, t) := by
  obtain ⟨hn, rfl⟩ := (C14_dec_iff b n r).1 h
  simp only [List.length_append, Nat.add_sub_cancel, List.take_left']
  exact (C14_dec_iff _ n t).2 ⟨hn, rfl⟩

/-- uniqueness: two accepted strings with the same value have the same consumed prefix -/
theorem C14_injective (b b' : Bytes) (n : Nat) (r r' : Bytes)
    (h : varint b = some (n, r)) (h' : varint b' = some (n, r')) :
    b.take (b.length - r.length) = b'.take (b'.length - r'.length) := by
  rw [C14_consumed_is_canonical b n r h, C14_consumed_is_canonical b' n r' h']

/-- soundness direction only of the executable reference acceptance test used by the oracle: what it accepts, the
model accepts with the same value and consumed count (a test that accepts nothing would satisfy this statement; both
directions: `C14_spec_accept_iff`, rejection: `C14_spec_accept_none`) -/
theorem C14_spec_accept_sound (b : Bytes) (n k : Nat) (h : Spec.leb128Accept b = some (n, k)) :
    varint b = some (n, b.drop k) := by
  unfold Spec.leb128Accept at h
  split at h
  · simp at h
  · rename_i gs k' _
    simp only [] at h
    split at h
    · rename_i hc
      simp at h; obtain ⟨rfl, rfl⟩ := h
      apply (C14_dec_iff _ _ _).2
      refine ⟨hc.1, ?_⟩
      rw [hc.2]; simp
    · simp at h

/-! ## Audit round: the spec tied to an independent valuation, the oracle verified in both directions, direct rejection
theorems. (The former `C14_rejects_nonminimal` is now `C14_consumed_is_canonical` above — it speaks about accepted
strings; the direct rejection of a superfluous zero group is `C14_rejects_zero_group`.) -/

/-- clause (a/b), value: `leb128 n` read as base-128 groups (low 7 bits of each byte, least significant first, up to
the first byte without continuation bit — `Spec.readGroups`, which never looks at `leb128`) has value `n`
(`Spec.valOf = Σ gᵢ·128ⁱ`), and the reading ends exactly at its last byte, whatever follows -/
theorem C14_leb128_value (n : Nat) (r : List UInt8) : ∃ gs,
    Spec.readGroups (Spec.leb128 n ++ r) = some (gs, (Spec.leb128 n).length) ∧ Spec.valOf gs = n :=
  VarIntSpec.readGroups_leb128 r n

/-- clause (b), unique shortest: ANY terminated base-128 string with continuation bits whose groups have value `n`
uses at least as many bytes as `leb128 n`, and one that uses exactly as many IS `leb128 n` -/
theorem C14_shortest (b : List UInt8) (gs : List Nat) (k n : Nat)
    (h : Spec.readGroups b = some (gs, k)) (hv : Spec.valOf gs = n) :
    (Spec.leb128 n).length ≤ k ∧ ((Spec.leb128 n).length = k → b.take k = Spec.leb128 n) :=
  VarIntSpec.shortest b gs k n h hv

/-- so the encoder as written emits the unique shortest base-128 spelling of `n` -/
theorem C14_enc_shortest (n : Nat) (b : List UInt8) (gs : List Nat) (k : Nat)
    (h : Spec.readGroups b = some (gs, k)) (hv : Spec.valOf gs = n) :
    (encVarintImp n).2 ≤ k ∧ ((encVarintImp n).2 = k → b.take k = (encVarintImp n).1) := by
  rw [(C14_enc_eq_leb128 n).1, (C14_enc_eq_leb128 n).2]; exact C14_shortest b gs k n h hv

/-- `leb128` is injective, indeed a prefix code, on all naturals -/
theorem C14_leb128_injective (n m : Nat) (r r' : List UInt8) (h : Spec.leb128 n ++ r = Spec.leb128 m ++ r') :
    n = m ∧ r = r' := by
  have e := VarIntSpec.leb128_prefix_free n m r r' h
  subst e; exact ⟨rfl, List.append_cancel_left h⟩

/-- clause (c), closed form: the length oracle `Spec.leb128Len n = ⌊log2 n / 7⌋ + 1` (1 for 0) printed by the driver
is the length of `leb128 n`, hence the length the encoder reports -/
theorem C14_leb128Len (n : Nat) :
    (Spec.leb128 n).length = Spec.leb128Len n ∧ (encVarintImp n).2 = Spec.leb128Len n := by
  have h := VarIntSpec.leb128_length n (leb128_bounds n)
  exact ⟨h, by rw [(C14_enc_eq_leb128 n).2, h]⟩

/-- the oracle is exact in both directions: the executable reference acceptance test returns `(n, k)` iff the decoder
model accepts with value `n` having consumed `k` bytes -/
theorem C14_spec_accept_iff (b : Bytes) (n k : Nat) :
    Spec.leb128Accept b = some (n, k) ↔ ∃ r, varint b = some (n, r) ∧ k = b.length - r.length := by
  constructor
  · intro h
    refine ⟨b.drop k, C14_spec_accept_sound b n k h, ?_⟩
    have hk : k ≤ b.length := by
      unfold Spec.leb128Accept at h
      cases hr : Spec.readGroups b with
      | none => simp [hr] at h
      | some p =>
        obtain ⟨gs, k'⟩ := p
        simp only [hr] at h
        split at h
        · simp at h; obtain ⟨_, rfl⟩ := h
          exact (VarIntSpec.readGroups_pos b gs k' hr).2
        · simp at h
    simp; omega
  · rintro ⟨r, h, rfl⟩
    obtain ⟨hn, rfl⟩ := (C14_dec_iff b n r).1 h
    obtain ⟨gs, h1, h2⟩ := C14_leb128_value n r
    unfold Spec.leb128Accept
    simp [h1, h2, hn]

/-- in particular the oracle rejects exactly what the model rejects -/
theorem C14_spec_accept_none (b : Bytes) : Spec.leb128Accept b = none ↔ varint b = none := by
  constructor
  · intro h
    cases hv : varint b with
    | none => rfl
    | some p =>
      obtain ⟨n, r⟩ := p
      have := (C14_spec_accept_iff b n (b.length - r.length)).2 ⟨r, hv, rfl⟩
      rw [h] at this; simp at this
  · intro h
    cases hs : Spec.leb128Accept b with
    | none => rfl
    | some p =>
      obtain ⟨n, k⟩ := p
      obtain ⟨r, hv, _⟩ := (C14_spec_accept_iff b n k).1 hs
      rw [h] at hv; simp at hv

/-- clause (f), direct: a zero byte after one or more continuation bytes (a superfluous most-significant zero group)
is rejected, whatever the continuation bytes are and whatever follows -/
theorem C14_rejects_zero_group (p r : Bytes) (hp : p ≠ []) (hc : ∀ x ∈ p, 128 ≤ x.toNat) :
    varint (p ++ 0 :: r) = none := by
  unfold varint
  rw [VarIntSpec.collect_cont _ p [] hc]
  simp [collect, hp]

/-- the non-minimal spellings of clause (f) literally: the canonical string of `n` with a continuation bit put on
its last byte, then `j` groups `0x80`, then the zero terminator -/
theorem C14_rejects_padded (n j : Nat) (r : Bytes) :
    varint ((Spec.leb128 n).map (fun x => x ||| 128) ++ List.replicate j 128 ++ 0 :: r) = none := by
  apply C14_rejects_zero_group
  · have := leb128_ne_nil n
    cases h : Spec.leb128 n with
    | nil => exact absurd h this
    | cons a t => simp
  · intro x hx
    simp only [List.mem_append, List.mem_map, List.mem_replicate] at hx
    rcases hx with ⟨y, _, rfl⟩ | ⟨_, rfl⟩
    · have : (y ||| 128).toNat = y.toNat ||| 128 := by simp
      rw [this]; exact Nat.right_le_or
    · decide

/-- clause (h), direct: a string with no terminator (every byte has the continuation bit; includes the empty
string) is rejected -/
theorem C14_rejects_unterminated (b : Bytes) (hc : ∀ x ∈ b, 128 ≤ x.toNat) : varint b = none := by
  have := VarIntSpec.collect_cont [] b [] hc
  unfold varint
  rw [List.append_nil] at this
  rw [this]; simp [collect]

/-- clause (g), direct: the canonical string of any value of `2^64` or more is rejected, whatever follows -/
theorem C14_rejects_ge_2_64 (n : Nat) (r : Bytes) (hn : 2^64 ≤ n) : varint (Spec.leb128 n ++ r) = none := by
  cases h : varint (Spec.leb128 n ++ r) with
  | none => rfl
  | some p =>
    obtain ⟨m, r'⟩ := p
    obtain ⟨hm, hb⟩ := (C14_dec_iff _ m r').1 h
    have := (C14_leb128_injective n m r r' hb).1
    omega

/-- the empty group list is never handed to the accumulation (`res.split_last().unwrap()` cannot fail): `collect`
returns at least one group -/
theorem C14_collect_nonempty (b : Bytes) (gs : List Nat) (r : Bytes) (h : collect b [] = some (gs, r)) : gs ≠ [] := by
  obtain ⟨new, hgs, hne, _⟩ := collect_spec b [] gs r h
  simp at hgs; subst hgs; exact hne

/-! ## What the decoder reports when it fails (`Monero.varintE`: failure kind and reader position) -/

/-- the model with failure detail is the model of all theorems above once the detail is forgotten -/
theorem C14_varintE_refines (b : Bytes) : (varintE b).toOption = varint b := VarIntErr.varintE_toOption b

/-- complete description of the decoder on EVERY byte string (rejected ones included — clause "reads no byte beyond
the terminator" for failures): one of the following four holds (this statement is the plain disjunction; the four are
mutually exclusive because each fixes `varintE b` to a different constructor / kind — `C14_varintE_exclusive`, and the
three `C14_err_*_iff` below characterise each failure kind exactly)
* `b = leb128 n ++ r`, `n < 2^64`: accepted with value `n`, rest `r`;
* `b = leb128 n ++ r`, `n ≥ 2^64`: overflow, reported after reading exactly `leb128 n` (never a byte of `r`);
* `b = p ++ 0 :: r`, `p` non-empty continuation bytes: zero-rule failure after reading exactly `p` and the zero byte;
* `b` consists of continuation bytes only (possibly empty): end-of-input failure, everything read. -/
theorem C14_varintE_cases (b : Bytes) :
    (∃ n r, n < 2^64 ∧ b = Spec.leb128 n ++ r ∧ varintE b = .ok (n, r)) ∨
    (∃ n r, 2^64 ≤ n ∧ b = Spec.leb128 n ++ r ∧ varintE b = .error (.overflow, (Spec.leb128 n).length)) ∨
    (∃ p r, p ≠ [] ∧ (∀ x ∈ p, 128 ≤ x.toNat) ∧ b = p ++ 0 :: r ∧ varintE b = .error (.zero, p.length + 1)) ∨
    ((∀ x ∈ b, 128 ≤ x.toNat) ∧ varintE b = .error (.eof, b.length)) := by
  rcases VarIntErr.forms b with ⟨n, r, rfl⟩ | ⟨p, r, hp, hc, rfl⟩ | hc
  · by_cases hn : n < 2^64
    · exact Or.inl ⟨n, r, hn, rfl, VarIntErr.varintE_ok n r hn⟩
    · exact Or.inr (Or.inl ⟨n, r, by omega, rfl, VarIntErr.varintE_overflow n r (by omega)⟩)
  · exact Or.inr (Or.inr (Or.inl ⟨p, r, hp, hc, rfl, VarIntErr.varintE_zero p r hp hc⟩))
  · exact Or.inr (Or.inr (Or.inr ⟨hc, VarIntErr.varintE_eof b hc⟩))

/-- end-of-input is reported exactly for strings without terminator, with everything consumed -/
theorem C14_err_eof_iff (b : Bytes) (k : Nat) :
    varintE b = .error (.eof, k) ↔ (∀ x ∈ b, 128 ≤ x.toNat) ∧ k = b.length := by
  constructor
  · intro h
    rcases C14_varintE_cases b with ⟨_, _, _, _, e⟩ | ⟨_, _, _, _, e⟩ | ⟨_, _, _, _, _, e⟩ | ⟨hc, e⟩ <;>
      rw [e] at h <;> simp at h
    exact ⟨hc, h.symm⟩
  · rintro ⟨hc, rfl⟩; exact VarIntErr.varintE_eof b hc

/-- the zero rule fires exactly on one or more continuation bytes followed by a zero byte, right after that byte -/
theorem C14_err_zero_iff (b : Bytes) (k : Nat) :
    varintE b = .error (.zero, k) ↔
      ∃ p r, p ≠ [] ∧ (∀ x ∈ p, 128 ≤ x.toNat) ∧ b = p ++ 0 :: r ∧ k = p.length + 1 := by
  constructor
  · intro h
    rcases C14_varintE_cases b with ⟨_, _, _, _, e⟩ | ⟨_, _, _, _, e⟩ | ⟨p, r, hp, hc, hb, e⟩ | ⟨_, e⟩ <;>
      rw [e] at h <;> simp at h
    exact ⟨p, r, hp, hc, hb, h.symm⟩
  · rintro ⟨p, r, hp, hc, rfl, rfl⟩; exact VarIntErr.varintE_zero p r hp hc

/-- overflow is reported exactly on the canonical strings of the values `≥ 2^64`, after reading that string and
nothing else -/
theorem C14_err_overflow_iff (b : Bytes) (k : Nat) :
    varintE b = .error (.overflow, k) ↔
      ∃ n r, 2^64 ≤ n ∧ b = Spec.leb128 n ++ r ∧ k = (Spec.leb128 n).length := by
  constructor
  · intro h
    rcases C14_varintE_cases b with ⟨_, _, _, _, e⟩ | ⟨n, r, hn, hb, e⟩ | ⟨_, _, _, _, _, e⟩ | ⟨_, e⟩ <;>
      rw [e] at h <;> simp at h
    exact ⟨n, r, hn, hb, h.symm⟩
  · rintro ⟨n, r, hn, rfl, rfl⟩; exact VarIntErr.varintE_overflow n r hn

/-- the four shapes of `C14_varintE_cases` exclude one another as properties of the byte string alone (no mention of
the decoder in the statement): a string that starts with a canonical string `leb128 n` neither starts with continuation
bytes followed by a zero byte nor consists of continuation bytes only, the last two exclude each other, and
`n < 2^64` / `2^64 ≤ n` are decided by the string because `leb128` is a prefix code. Hence "exactly one". -/
theorem C14_varintE_exclusive (b : Bytes) :
    (∀ n r p r', b = Spec.leb128 n ++ r → p ≠ [] → (∀ x ∈ p, 128 ≤ x.toNat) → b ≠ p ++ 0 :: r') ∧
    (∀ n r, b = Spec.leb128 n ++ r → ¬ ∀ x ∈ b, 128 ≤ x.toNat) ∧
    (∀ p r', b = p ++ 0 :: r' → ¬ ∀ x ∈ b, 128 ≤ x.toNat) ∧
    (∀ n r m r', b = Spec.leb128 n ++ r → b = Spec.leb128 m ++ r' → n = m ∧ r = r') := by
  refine ⟨?_, ?_, ?_, ?_⟩
  · rintro n r p r' rfl hp hc he
    have hz := VarIntErr.varintE_zero p r' hp hc
    rw [← he] at hz
    by_cases hn : n < 2^64
    · rw [VarIntErr.varintE_ok n r hn] at hz; simp at hz
    · rw [VarIntErr.varintE_overflow n r (by omega)] at hz; simp at hz
  · rintro n r rfl hc
    have hz := VarIntErr.varintE_eof _ hc
    by_cases hn : n < 2^64
    · rw [VarIntErr.varintE_ok n r hn] at hz; simp at hz
    · rw [VarIntErr.varintE_overflow n r (by omega)] at hz; simp at hz
  · rintro p r' rfl hc
    have := hc 0 (by simp)
    simp at this
  · rintro n r m r' rfl he
    exact C14_leb128_injective n m r r' he

/-- no over-read, FAILING inputs: a failure reported at reader position `k` has read at most the input (`k ≤ |b|`,
and an end-of-input failure has read exactly all of it), and a zero-rule or overflow failure is a function of the
`k` bytes read alone — replace everything after them by any `t`: same kind, same position. (The accepted case is
`C14_no_overread`.) -/
theorem C14_no_overread_err (b : Bytes) (e : VErr) (k : Nat) (h : varintE b = .error (e, k)) :
    k ≤ b.length ∧ (e = .eof → k = b.length) ∧
    (e ≠ .eof → ∀ t : Bytes, varintE (b.take k ++ t) = .error (e, k)) := by
  cases e with
  | eof =>
    obtain ⟨_, rfl⟩ := (C14_err_eof_iff b k).1 h
    exact ⟨Nat.le_refl _, fun _ => rfl, fun hne => absurd rfl hne⟩
  | zero =>
    obtain ⟨p, r, hp, hc, rfl, rfl⟩ := (C14_err_zero_iff b k).1 h
    refine ⟨by simp, fun he => (by cases he), fun _ t => ?_⟩
    have e1 : (p ++ 0 :: r).take (p.length + 1) = p ++ [0] := by
      have e2 : p ++ 0 :: r = (p ++ [0]) ++ r := by simp
      rw [e2]; exact List.take_left' (by simp)
    rw [e1, List.append_assoc]
    exact VarIntErr.varintE_zero p t hp hc
  | overflow =>
    obtain ⟨n, r, hn, rfl, rfl⟩ := (C14_err_overflow_iff b k).1 h
    refine ⟨by simp, fun he => (by cases he), fun _ t => ?_⟩
    rw [List.take_left']
    · exact VarIntErr.varintE_overflow n t hn
    · rfl

/-- the reference classification printed by the driver as the oracle of `varint_decx` (truncated / non-minimal / too
big / ok, with the number of bytes needed) agrees with the model on every input -/
theorem C14_classify_eq (b : Bytes) : VarIntErr.verdictOf b = Spec.classify b := by
  unfold VarIntErr.verdictOf
  rcases C14_varintE_cases b with ⟨n, r, hn, rfl, e⟩ | ⟨n, r, hn, rfl, e⟩ | ⟨p, r, hp, hc, rfl, e⟩ | ⟨hc, e⟩
  · rw [e, VarIntErr.classify_leb128]; simp [hn]
  · rw [e, VarIntErr.classify_leb128]
    have : ¬ n < 2^64 := by omega
    simp [this]
  · rw [e, VarIntErr.classify_zero p r hp hc]
  · rw [e, VarIntErr.classify_cont b hc]

/-- `deserialize::<VarInt>` (whole buffer): accepts exactly the canonical strings of the u64 values, nothing after -/
theorem C14_exact_iff (b : Bytes) (n : Nat) : varintExact b = some n ↔ n < 2^64 ∧ b = Spec.leb128 n := by
  unfold varintExact
  constructor
  · intro h
    split at h
    · rename_i m hv
      simp at h; subst h
      have := (C14_dec_iff b m []).1 hv
      simpa using this
    · simp at h
  · rintro ⟨hn, rfl⟩
    have := (C14_dec_iff (Spec.leb128 n) n []).2 ⟨hn, by simp⟩
    rw [this]

/-- and its oracle `Spec.acceptExact` is the same function -/
theorem C14_acceptExact_eq (b : Bytes) : Spec.acceptExact b = varintExact b := by
  have hcl := C14_classify_eq b
  unfold Spec.acceptExact
  rw [← hcl]
  unfold VarIntErr.verdictOf
  rcases C14_varintE_cases b with ⟨n, r, hn, rfl, e⟩ | ⟨n, r, hn, hb, e⟩ | ⟨p, r, hp, hc, hb, e⟩ | ⟨hc, e⟩
  · rw [e]
    have hv := (C14_dec_iff (Spec.leb128 n ++ r) n r).2 ⟨hn, rfl⟩
    unfold varintExact
    rw [hv]
    cases r with
    | nil => simp
    | cons a t => simp
  all_goals
    rw [e]
    have hv : varint b = none := by rw [← C14_varintE_refines, e]; rfl
    unfold varintExact
    rw [hv]

/- Non-vacuity: concrete values meet the hypotheses (these are tests, not the theorems). -/
example : varint [0xac, 0x02, 0x77] = some (300, [0x77]) := by decide
example : varint [0x98, 0x00] = none := by decide
example : (encVarintImp 300).1 = [0xac, 0x02] := by
  rw [encVarintImp_eq, encVarint, encVarint]; decide

/- hypotheses of the audit-round theorems are satisfiable; the 10-byte boundary -/
example : Spec.readGroups [0xac, 0x02, 0x77] = some ([44, 2], 2) ∧ Spec.valOf [44, 2] = 300 := by decide
example : Spec.readGroups [0xac, 0x82, 0x00] = some ([44, 2, 0], 3) ∧ Spec.valOf [44, 2, 0] = 300 := by decide
example : ([0x80, 0xff] : Bytes) ≠ [] ∧ ∀ x ∈ ([0x80, 0xff] : Bytes), 128 ≤ x.toNat := by decide
example : varint (List.replicate 9 0xff ++ [0x01]) = some (2^64 - 1, []) := by decide
example : varint (List.replicate 9 0xff ++ [0x02]) = none := by decide
example : varint (List.replicate 9 0x80 ++ [0x02]) = none := by decide
example : varint (List.replicate 9 0x80 ++ [0x01]) = some (2^63, []) := by decide
example : varint (List.replicate 10 0x80 ++ [0x01]) = none := by decide
example : varint (List.replicate 9 0x80 ++ [0x04]) = none := by decide
example : Spec.leb128Accept [0xac, 0x02, 0x77] = some (300, 2) := by
  rw [Spec.leb128Accept]; simp [Spec.readGroups, Spec.valOf, Spec.leb128]

example : varintE [0x80, 0x80] = .error (.eof, 2) := by rfl
example : varintE [0x81, 0x00, 0x55] = .error (.zero, 2) := by rfl
example : varintE (List.replicate 9 0xff ++ [0x02, 0x55]) = .error (.overflow, 10) := by rfl
example : varintE [0xac, 0x02, 0x77] = .ok (300, [0x77]) := by rfl
example : varintExact [0xac, 0x02] = some 300 ∧ varintExact [0xac, 0x02, 0x77] = none := by decide
/- hypotheses of `C14_no_overread_err` / `C14_varintE_exclusive` are met: a zero-rule failure two bytes in, an overflow
failure ten bytes in (both followed by bytes that are never read), a string of two of the shapes' building blocks -/
example : varintE [0x81, 0x00, 0x55, 0x66] = .error (.zero, 2) ∧ ([0x81, 0x00, 0x55, 0x66] : Bytes).take 2 = [0x81, 0x00] := by
  constructor <;> rfl
example : varintE (List.replicate 9 0x80 ++ [0x02, 0x55]) = .error (.overflow, 10) := by rfl
example : ([0xac, 0x02, 0x77] : Bytes) = Spec.leb128 300 ++ [0x77] := by
  rw [Spec.leb128, Spec.leb128]; decide

end C14
