import MoneroModel.Proofs.VarIntImp
open Monero
/-! # C14 — VarInt is a bijection between u64 and minimal little-endian base-128 strings

Model: `Monero.varint` (decoder, encode.rs:352-384: collect groups with the zero-byte rule, reverse, accumulate with
the `leading_zeros() >= 7` guard) and `Monero.encVarintImp` (encoder as written, encode.rs:319-349).
Spec: `Spec.leb128`. Every theorem quantifies over all naturals / all byte strings. -/
namespace C14

/-- the encoder as written is LEB128, and the length it reports is the number of bytes written -/
theorem C14_enc_eq_leb128 (n : Nat) :
    (encVarintImp n).1 = Spec.leb128 n ∧ (encVarintImp n).2 = (Spec.leb128 n).length := by
  rw [encVarintImp_eq, encVarint_eq_leb128]; exact ⟨rfl, rfl⟩

/-- decode ∘ encode = id on all of u64, with any continuation of the input left untouched -/
theorem C14_dec_enc (n : Nat) (hn : n < 2^64) (r : Bytes) : varint ((encVarintImp n).1 ++ r) = some (n, r) := by
  rw [encVarintImp_eq]; exact complete_varint n hn r

/-- the decoder accepts exactly the encoder's outputs: `decode b = Ok(n, rest)` iff `n` is a u64 and `b` starts with
`encode n` (so the consumed prefix is `encode n`, and no other spelling of `n` is accepted) -/
theorem C14_dec_iff (b : Bytes) (n : Nat) (r : Bytes) :
    varint b = some (n, r) ↔ n < 2^64 ∧ b = Spec.leb128 n ++ r := by
  constructor
  · intro h; exact ⟨varint_lt b n r h, by rw [← encVarint_eq_leb128]; exact sound_varint b n r h⟩
  · rintro ⟨hn, rfl⟩; rw [← encVarint_eq_leb128]; exact complete_varint n hn r

theorem leb128_ne_nil (n : Nat) : Spec.leb128 n ≠ [] := by
  rw [Spec.leb128]; by_cases h : n < 128 <;> simp [h]

theorem leb128_bounds : ∀ n, 1 ≤ (Spec.leb128 n).length ∧ n < 128 ^ (Spec.leb128 n).length ∧
    (1 < (Spec.leb128 n).length → 128 ^ ((Spec.leb128 n).length - 1) ≤ n) := by
  intro n
  induction n using Nat.strongRecOn with
  | _ n ih =>
    rw [Spec.leb128]
    by_cases hlt : n < 128
    · simp [hlt]
    · obtain ⟨h1, h2, h3⟩ := ih (n / 128) (by omega)
      simp only [hlt, dif_neg, not_false_eq_true, List.length_cons, Nat.add_sub_cancel]
      refine ⟨by omega, ?_, fun _ => ?_⟩
      · rw [Nat.pow_succ]; omega
      · by_cases hk : 1 < (Spec.leb128 (n / 128)).length
        · have := h3 hk
          have e : (Spec.leb128 (n / 128)).length = ((Spec.leb128 (n / 128)).length - 1) + 1 := by omega
          rw [e, Nat.pow_succ]; omega
        · have e : (Spec.leb128 (n / 128)).length = 1 := by omega
          rw [e]; simp; omega

/-- length: at least one byte; `k` bytes exactly when `128^(k-1) ≤ n < 128^k` (i.e. `max 1 ⌈bits/7⌉`); never more
than 10 for a u64 -/
theorem C14_len (n : Nat) :
    1 ≤ (encVarintImp n).2 ∧ n < 128 ^ (encVarintImp n).2 ∧
    (1 < (encVarintImp n).2 → 128 ^ ((encVarintImp n).2 - 1) ≤ n) ∧ (n < 2^64 → (encVarintImp n).2 ≤ 10) := by
  rw [(C14_enc_eq_leb128 n).2]
  obtain ⟨h1, h2, h3⟩ := leb128_bounds n
  refine ⟨h1, h2, h3, fun hn => ?_⟩
  by_cases hk : (Spec.leb128 n).length ≤ 10
  · exact hk
  · exfalso
    have h4 := h3 (by omega)
    have : 128 ^ 10 ≤ 128 ^ ((Spec.leb128 n).length - 1) := Nat.pow_le_pow_right (by decide) (by omega)
    have e : (128:Nat) ^ 10 = 2^70 := by decide
    omega

/-- values of 2^64 or more are never returned -/
theorem C14_rejects_overflow (b : Bytes) (n : Nat) (r : Bytes) (h : varint b = some (n, r)) : n < 2^64 :=
  varint_lt b n r h

/-- a non-minimal spelling (the canonical string of `n` with its last byte given a continuation bit and one or more
zero groups appended) is rejected -/
theorem C14_rejects_nonminimal (b : Bytes) (n : Nat) (r : Bytes) (h : varint b = some (n, r)) :
    b.take (b.length - r.length) = Spec.leb128 n := by
  obtain ⟨_, rfl⟩ := (C14_dec_iff b n r).1 h
  simp

/-- a proper prefix of an encoding (a truncated string) is rejected -/
theorem C14_rejects_truncated (n : Nat) (k : Nat) (hk : k < (Spec.leb128 n).length) :
    varint ((Spec.leb128 n).take k) = none := by
  cases h : varint ((Spec.leb128 n).take k) with
  | none => rfl
  | some p =>
    obtain ⟨m, r⟩ := p
    exfalso
    obtain ⟨_, hb⟩ := (C14_dec_iff _ m r).1 h
    -- `leb128 m` is a prefix of a proper prefix of `leb128 n`; both are prefix-free codes
    have key : ∀ (n m : Nat) (k : Nat) (r : Bytes), k < (Spec.leb128 n).length →
        (Spec.leb128 n).take k = Spec.leb128 m ++ r → False := by
      intro n
      induction n using Nat.strongRecOn with
      | _ n ih =>
        intro m k r hk he
        rw [Spec.leb128] at hk he
        by_cases hlt : n < 128
        · simp [hlt] at hk he; subst hk
          simp at he; exact leb128_ne_nil m he.1
        · simp only [hlt, dif_neg, not_false_eq_true, List.length_cons] at hk he
          cases k with
          | zero => simp at he; exact leb128_ne_nil m he.1
          | succ k =>
            rw [List.take_succ_cons] at he
            by_cases h2 : m < 128
            · have em : Spec.leb128 m = [UInt8.ofNat m] := by rw [Spec.leb128]; simp [h2]
              rw [em] at he
              simp only [List.singleton_append, List.cons.injEq] at he
              have := congrArg UInt8.toNat he.1
              simp [UInt8.toNat_ofNat'] at this; omega
            · have em : Spec.leb128 m = UInt8.ofNat (128 + m % 128) :: Spec.leb128 (m / 128) := by
                rw [Spec.leb128]; simp [h2]
              rw [em] at he
              simp only [List.cons_append, List.cons.injEq] at he
              exact ih (n / 128) (by omega) (m / 128) k r (by omega) he.2
    exact key n m k r hk hb

/-- the decoder reads no byte beyond the terminating one: the result is a function of the consumed prefix alone -/
theorem C14_no_overread (b : Bytes) (n : Nat) (r : Bytes) (h : varint b = some (n, r)) (t : Bytes) :
    varint (b.take (b.length - r.length) ++ t) = some (n, t) := by
  obtain ⟨hn, rfl⟩ := (C14_dec_iff b n r).1 h
  simp only [List.length_append, Nat.add_sub_cancel, List.take_left']
  exact (C14_dec_iff _ n t).2 ⟨hn, rfl⟩

/-- uniqueness: two accepted strings with the same value have the same consumed prefix -/
theorem C14_injective (b b' : Bytes) (n : Nat) (r r' : Bytes)
    (h : varint b = some (n, r)) (h' : varint b' = some (n, r')) :
    b.take (b.length - r.length) = b'.take (b'.length - r'.length) := by
  rw [C14_rejects_nonminimal b n r h, C14_rejects_nonminimal b' n r' h']

/-- the executable reference acceptance test used by the oracle agrees with the model on every input -/
theorem C14_spec_accept_sound (b : Bytes) (n k : Nat) (h : Spec.leb128Accept b = some (n, k)) :
    varint b = some (n, b.drop k) := by
  unfold Spec.leb128Accept at h
  split at h
  · simp at h
  · rename_i gs k' _
    simp only [] at h
    split at h
    · rename_i hc
      simp at h; obtain ⟨rfl, rfl⟩ := h
      apply (C14_dec_iff _ _ _).2
      refine ⟨hc.1, ?_⟩
      rw [hc.2]; simp
    · simp at h

/- Non-vacuity: concrete values meet the hypotheses (these are tests, not the theorems). -/
example : varint [0xac, 0x02, 0x77] = some (300, [0x77]) := by decide
example : varint [0x98, 0x00] = none := by decide
example : (encVarintImp 300).1 = [0xac, 0x02] := by
  rw [encVarintImp_eq, encVarint, encVarint]; decide

end C14
