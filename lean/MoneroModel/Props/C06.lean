import MoneroModel.Proofs.TreeHash2
import MoneroModel.Proofs.VarIntImp
open Monero Monero.TreeHash
/-! # C06 — block id, proof-of-work blob and Merkle root follow the CryptoNote definition

Model (`MoneroModel/Model/TreeHash.lean`): `treeHashCnt` (the doubling loop of `tree_hash_cnt` on a 64-bit `usize`,
both asserts), `treeHash` (`tree_hash`: a mutable array, the two in-place loops
`hashes[j] = hash_concat(hashes[i], hashes[i+1])`, `assert_eq!(i, count)`, the halving loop, the final combine; every
index access checked, `none` = panic), `txRoot`, `blobOf` / `serializeHashable` (`Block::serialize_header_and_root`),
`blockIdOf` / `blockId` (`Block::id` with the block-202612 substitution).
Spec (`MoneroModel/Spec/TreeHash.lean`): `treeSpec` — the recursive CryptoNote definition (keep `2·cnt − n` leading
leaves, pair the rest, root of the perfect binary tree defined top-down by halves), `powBlob`, `blockIdSpec`.
Every theorem holds for an arbitrary hash function `H` (Keccak-256 in the code). -/
namespace C06

/-- `tree_hash_cnt n` neither asserts nor loops for `3 ≤ n ≤ 2^28`, and returns `2^⌊log₂(n−1)⌋`, which is the largest
power of two strictly less than `n` (it is `< n`, its double is `≥ n`, and every power of two `< n` is at most it) -/
theorem C06_cnt (n : Nat) (h3 : 3 ≤ n) (hmax : n ≤ 2^28) :
    treeHashCnt n = some (2 ^ Spec.TreeHash.levelBelow n) ∧
    2 ^ Spec.TreeHash.levelBelow n < n ∧ n ≤ 2 * 2 ^ Spec.TreeHash.levelBelow n ∧
    ∀ k, 2^k < n → 2^k ≤ 2 ^ Spec.TreeHash.levelBelow n := by
  obtain ⟨m, _, hc, hlo, hhi⟩ := treeHashCnt_spec n h3 hmax
  have hl := levelBelow_eq n m hlo hhi
  rw [hl]
  have hpow : 2^(m+1) = 2 * 2^m := by rw [Nat.pow_succ]; omega
  refine ⟨hc, hlo, by omega, fun k hk => ?_⟩
  have : 2^k < 2^(m+1) := by omega
  have hkm : k < m + 1 := (Nat.pow_lt_pow_iff_right (a := 2) (by decide)).1 this
  exact Nat.pow_le_pow_right (by decide) (by omega)

/-- the two asserts of `tree_hash_cnt` fire exactly outside `3 ≤ n ≤ 2^28` -/
theorem C06_cnt_asserts (n : Nat) : treeHashCnt n = none ↔ n < 3 ∨ 2^28 < n := by
  have e : (2:Nat)^28 = 0x10000000 := by decide
  unfold treeHashCnt
  by_cases h3 : n ≥ 3
  · by_cases hm : n ≤ 0x10000000
    · simp only [h3, hm, not_true_eq_false, if_false]
      constructor
      · intro h; simp at h
      · intro h; omega
    · simp only [h3, hm, not_true_eq_false, not_false_eq_true, if_false, if_true, true_iff]
      omega
  · simp only [h3, not_false_eq_true, if_true, true_iff]
    omega

/-- MAIN THEOREM. For every hash function, root hash and list of extra hashes with at most `2^28` leaves in total,
the imperative `tree_hash` (in-place loops on a mutable array) does not panic and returns the CryptoNote tree hash
of `root :: extra`. Covers the 0- and 1-extra special cases. -/
theorem C06_tree_eq_spec (H : Bytes → Bytes) (root : Bytes) (extra : List Bytes)
    (hmax : extra.length + 1 ≤ 2^28) :
    treeHash H root extra = some (Spec.TreeHash.treeSpec H (root :: extra)) :=
  treeHash_eq_treeSpec H root extra hmax

/-- the special cases spelled out: one leaf is its own root, two leaves give `H(h₀ ‖ h₁)` -/
theorem C06_tree_small (H : Bytes → Bytes) (root e : Bytes) :
    treeHash H root [] = some root ∧ treeHash H root [e] = some (H (root ++ e)) ∧
    Spec.TreeHash.treeSpec H [root] = root ∧ Spec.TreeHash.treeSpec H [root, e] = H (root ++ e) :=
  ⟨rfl, rfl, rfl, rfl⟩

/-- `Block::tx_root` is the CryptoNote tree hash of the miner-transaction hash followed by the listed hashes -/
theorem C06_root (H : Bytes → Bytes) (minerTxHash : Bytes) (txHashes : List Bytes)
    (hmax : txHashes.length + 1 ≤ 2^28) :
    txRoot H minerTxHash txHashes = some (Spec.TreeHash.treeSpec H (minerTxHash :: txHashes)) :=
  treeHash_eq_treeSpec H minerTxHash txHashes hmax

/-- the proof-of-work blob is `header ‖ root ‖ LEB128(n + 1)`, with the root of the previous theorem -/
theorem C06_blob (H : Bytes → Bytes) (hdr minerTxHash : Bytes) (txHashes : List Bytes)
    (hmax : txHashes.length + 1 ≤ 2^28) :
    (∀ root n, blobOf hdr root n = hdr ++ root ++ Spec.leb128 (n + 1)) ∧
    serializeHashable H hdr minerTxHash txHashes =
      some (Spec.TreeHash.powBlob hdr (Spec.TreeHash.treeSpec H (minerTxHash :: txHashes)) txHashes.length) := by
  constructor
  · intro root n; unfold blobOf; rw [encVarint_eq_leb128]
  · unfold serializeHashable
    rw [C06_root H minerTxHash txHashes hmax]
    simp only [blobOf, Spec.TreeHash.powBlob, encVarint_eq_leb128]

/-- the block identifier: `H(LEB128(|blob|) ‖ blob)` with the substitution; with the constants of the code equal to
the two constants of the specification, `Block::id` is the specified identifier of the specified blob -/
theorem C06_id (H : Bytes → Bytes) (correct existing : Bytes) :
    (∀ blob, blockIdOf H correct existing blob =
      if H (Spec.leb128 blob.length ++ blob) = correct then existing else H (Spec.leb128 blob.length ++ blob)) ∧
    (∀ (hdr minerTxHash : Bytes) (txHashes : List Bytes), txHashes.length + 1 ≤ 2^28 →
      blockId H Spec.TreeHash.computedId202612 Spec.TreeHash.historicalId202612 hdr minerTxHash txHashes =
        some (Spec.TreeHash.blockSpec H hdr minerTxHash txHashes).2.2) := by
  constructor
  · intro blob; simp only [blockIdOf, encVarint_eq_leb128]
  · intro hdr minerTxHash txHashes hmax
    unfold blockId
    rw [(C06_blob H hdr minerTxHash txHashes hmax).2]
    simp only [blockIdOf, encVarint_eq_leb128, Spec.TreeHash.blockSpec, Spec.TreeHash.blockIdSpec]

/-- the block-202612 substitution: the result is `existing` when the computed hash equals `correct`, and the
computed hash otherwise; hence `existing` is returned exactly when the computed hash is `correct` (or is `existing`
itself) -/
theorem C06_exception (H : Bytes → Bytes) (correct existing blob : Bytes) :
    let h := H (encVarint blob.length ++ blob)
    (h = correct → blockIdOf H correct existing blob = existing) ∧
    (h ≠ correct → blockIdOf H correct existing blob = h) ∧
    (blockIdOf H correct existing blob = existing ↔ h = correct ∨ h = existing) := by
  intro h
  unfold blockIdOf
  by_cases hc : H (encVarint blob.length ++ blob) = correct
  · simp [h, hc]
  · simp only [h, hc, if_false, false_or, ne_eq, not_false_eq_true, true_implies, false_implies, true_and]

/-- the hypotheses are satisfiable: a hash function, three leaves (inside the range `3 ≤ n ≤ 2^28`) -/
example : ∃ (H : Bytes → Bytes) (root : Bytes) (extra : List Bytes),
    extra.length + 1 ≤ 2^28 ∧ 3 ≤ extra.length + 1 ∧
    treeHash H root extra = some (Spec.TreeHash.treeSpec H (root :: extra)) :=
  ⟨fun b => b.take 1, [1], [[2], [3]], by decide, by decide,
    C06_tree_eq_spec _ _ _ (by decide)⟩

/-- … and on that instance the value is the expected one: keep `h₀`, pair `h₁,h₂`, combine -/
example : Spec.TreeHash.treeSpec (fun b => b.take 1) [[1], [2], [3]] = [1] := by decide

end C06
