import MoneroModel.Proofs.TreeHash2
import MoneroModel.Proofs.TreeHash3
import MoneroModel.Proofs.VarIntImp
import MoneroModel.Model.TxHash
import MoneroModel.Gen.Consts
open Monero Monero.TreeHash
/-! # C06 — block id, proof-of-work blob and Merkle root follow the CryptoNote definition

Model (`MoneroModel/Model/TreeHash.lean`): `treeHashCnt` (the doubling loop of `tree_hash_cnt` on a 64-bit `usize`,
both asserts), `treeHash` (`tree_hash`: a mutable array, the two in-place loops
`hashes[j] = hash_concat(hashes[i], hashes[i+1])`, `assert_eq!(i, count)`, the halving loop, the final combine; every
index access checked, `none` = panic), `txRoot`, `blobOf` / `serializeHeaderAndRoot` (the private `Block::serialize_header_and_root`), `serializeHashable` (the public wrapper),
`blockIdOf` / `blockId` (`Block::id`, which calls the private function, with the block-202612 substitution).
Spec (`MoneroModel/Spec/TreeHash.lean`): `treeSpec` — the recursive CryptoNote definition (keep `2·cnt − n` leading
leaves, pair the rest, root of the perfect binary tree defined top-down by halves), `powBlob`, `blockIdSpec`.
Every theorem holds for an arbitrary hash function `H` (Keccak-256 in the code). -/
namespace C06

/-- `tree_hash_cnt n` neither asserts nor loops for `3 ≤ n ≤ 2^28`, and returns `2^⌊log₂(n−1)⌋`, which is the largest
power of two strictly less than `n` (it is `< n`, its double is `≥ n`, and every power of two `< n` is at most it) -/
theorem C06_cnt (n : Nat) (h3 : 3 ≤ n) (hmax : n ≤ 2^28) :
    treeHashCnt n = some (2 ^ Spec.TreeHash.levelBelow n) ∧
    2 ^ Spec.TreeHash.levelBelow n < n ∧ n ≤ 2 * 2 ^ Spec.TreeHash.levelBelow n ∧
    ∀ k, 2^k < n → 2^k ≤ 2 ^ Spec.TreeHash.levelBelow n := by
  obtain ⟨m, _, hc, hlo, hhi⟩ := treeHashCnt_spec n h3 hmax
  have hl := levelBelow_eq n m hlo hhi
  rw [hl]
  have hpow : 2^(m+1) = 2 * 2^m := by rw [Nat.pow_succ]; omega
  refine ⟨hc, hlo, by omega, fun k hk => ?_⟩
  have : 2^k < 2^(m+1) := by omega
  have hkm : k < m + 1 := (Nat.pow_lt_pow_iff_right (a := 2) (by decide)).1 this
  exact Nat.pow_le_pow_right (by decide) (by omega)

/-- the two asserts of `tree_hash_cnt` fire exactly outside `3 ≤ n ≤ 2^28` -/
theorem C06_cnt_asserts (n : Nat) : treeHashCnt n = none ↔ n < 3 ∨ 2^28 < n := by
  have e : (2:Nat)^28 = 0x10000000 := by decide
  unfold treeHashCnt
  by_cases h3 : n ≥ 3
  · by_cases hm : n ≤ 0x10000000
    · simp only [h3, hm, not_true_eq_false, if_false]
      constructor
      · intro h; simp at h
      · intro h; omega
    · simp only [h3, hm, not_true_eq_false, not_false_eq_true, if_false, if_true, true_iff]
      omega
  · simp only [h3, not_false_eq_true, if_true, true_iff]
    omega

/-- MAIN THEOREM. For every hash function, root hash and list of extra hashes with at most `2^28` leaves in total,
the imperative `tree_hash` (in-place loops on a mutable array) does not panic and returns the CryptoNote tree hash
of `root :: extra`. Covers the 0- and 1-extra special cases. -/
theorem C06_tree_eq_spec (H : Bytes → Bytes) (root : Bytes) (extra : List Bytes)
    (hmax : extra.length + 1 ≤ 2^28) :
    treeHash H root extra = some (Spec.TreeHash.treeSpec H (root :: extra)) :=
  treeHash_eq_treeSpec H root extra hmax

/-- the special cases spelled out: one leaf is its own root, two leaves give `H(h₀ ‖ h₁)` -/
theorem C06_tree_small (H : Bytes → Bytes) (root e : Bytes) :
    treeHash H root [] = some root ∧ treeHash H root [e] = some (H (root ++ e)) ∧
    Spec.TreeHash.treeSpec H [root] = root ∧ Spec.TreeHash.treeSpec H [root, e] = H (root ++ e) :=
  ⟨rfl, rfl, rfl, rfl⟩

/-- `Block::tx_root` is the CryptoNote tree hash of the miner-transaction hash followed by the listed hashes.
NOTE: through `txRoot := treeHash` this is `C06_tree_eq_spec` again (same proof term). That the MINER-TRANSACTION identifier comes
FIRST and the listed hashes follow in their order is the argument order of the model definition `txRoot` (block.rs:103-108,
`tree_hash(miner_tx.hash(), &tx_hashes)`) and the `mid :: blk.hashes` of `C06_every_block` / `C06_parsed_block`; that the CODE passes the
arguments in this order is checked by the harness (families `miner_hash_listed`, swap / reverse neighbours), not by a theorem. The
example after `C06_exception` shows that the order is visible in the value (the tree hash is not symmetric). -/
theorem C06_root (H : Bytes → Bytes) (minerTxHash : Bytes) (txHashes : List Bytes)
    (hmax : txHashes.length + 1 ≤ 2^28) :
    txRoot H minerTxHash txHashes = some (Spec.TreeHash.treeSpec H (minerTxHash :: txHashes)) :=
  treeHash_eq_treeSpec H minerTxHash txHashes hmax

/-- the proof-of-work blob is `header ‖ root ‖ LEB128(n + 1)`, with the root of the previous theorem -/
theorem C06_blob (H : Bytes → Bytes) (hdr minerTxHash : Bytes) (txHashes : List Bytes)
    (hmax : txHashes.length + 1 ≤ 2^28) :
    (∀ root n, blobOf hdr root n = hdr ++ root ++ Spec.leb128 (n + 1)) ∧
    serializeHashable H hdr minerTxHash txHashes =
      some (Spec.TreeHash.powBlob hdr (Spec.TreeHash.treeSpec H (minerTxHash :: txHashes)) txHashes.length) := by
  constructor
  · intro root n; unfold blobOf; rw [encVarint_eq_leb128]
  · unfold serializeHashable serializeHeaderAndRoot
    rw [C06_root H minerTxHash txHashes hmax]
    simp only [blobOf, Spec.TreeHash.powBlob, encVarint_eq_leb128]

/-- the block identifier: `H(LEB128(|blob|) ‖ blob)` with the substitution; with the constants of the code equal to
the two constants of the specification, `Block::id` is the specified identifier of the specified blob -/
theorem C06_id (H : Bytes → Bytes) (correct existing : Bytes) :
    (∀ blob, blockIdOf H correct existing blob =
      if H (Spec.leb128 blob.length ++ blob) = correct then existing else H (Spec.leb128 blob.length ++ blob)) ∧
    (∀ (hdr minerTxHash : Bytes) (txHashes : List Bytes), txHashes.length + 1 ≤ 2^28 →
      blockId H Spec.TreeHash.computedId202612 Spec.TreeHash.historicalId202612 hdr minerTxHash txHashes =
        some (Spec.TreeHash.blockSpec H hdr minerTxHash txHashes).2.2) := by
  constructor
  · intro blob; simp only [blockIdOf, encVarint_eq_leb128]
  · intro hdr minerTxHash txHashes hmax
    have hb := (C06_blob H hdr minerTxHash txHashes hmax).2
    unfold serializeHashable at hb
    unfold blockId
    rw [hb]
    simp only [blockIdOf, encVarint_eq_leb128, Spec.TreeHash.blockSpec, Spec.TreeHash.blockIdSpec]

/-- the block-202612 substitution: the result is `existing` when the computed hash equals `correct`, and the
computed hash otherwise; hence `existing` is returned exactly when the computed hash is `correct` (or is `existing`
itself) -/
theorem C06_exception (H : Bytes → Bytes) (correct existing blob : Bytes) :
    let h := H (encVarint blob.length ++ blob)
    (h = correct → blockIdOf H correct existing blob = existing) ∧
    (h ≠ correct → blockIdOf H correct existing blob = h) ∧
    (blockIdOf H correct existing blob = existing ↔ h = correct ∨ h = existing) := by
  intro h
  unfold blockIdOf
  by_cases hc : H (encVarint blob.length ++ blob) = correct
  · simp [h, hc]
  · simp only [h, hc, if_false, false_or, ne_eq, not_false_eq_true, true_implies, false_implies, true_and]

/- a SHAPE-REVEALING "hash" for the examples (`bracketH`, Proofs/TreeHash3.lean): `P b = 40 :: b ++ [41]` puts its argument in brackets, so the value of a tree hash
under `P` spells out which leaves were kept, which were paired and how the nodes were combined (a constant-like `H` such as
`b.take 1` would give `[1]` for every tree with leftmost leaf `[1]`) -/
local notation "P" => Monero.TreeHash.bracketH

/-- the hypotheses are satisfiable: a hash function, three leaves (inside the range `3 ≤ n ≤ 2^28`) -/
example : ∃ (H : Bytes → Bytes) (root : Bytes) (extra : List Bytes),
    extra.length + 1 ≤ 2^28 ∧ 3 ≤ extra.length + 1 ∧
    treeHash H root extra = some (Spec.TreeHash.treeSpec H (root :: extra)) :=
  ⟨P, [1], [[2], [3]], by decide, by decide, C06_tree_eq_spec _ _ _ (by decide)⟩

/-- … and on that instance the value shows the shape: 3 leaves, `cnt = 2`, keep `h₀`, pair `h₁,h₂`, combine: `(1 (2 3))` -/
example : Spec.TreeHash.treeSpec P [[1], [2], [3]] = [40, 1, 40, 2, 3, 41, 41] ∧
    treeHash P [1] [[2], [3]] = some [40, 1, 40, 2, 3, 41, 41] := by decide

/-- 5 leaves: `m = 2`, `cnt = 4`, `keep = 3`, one pair: `((1 2) (3 (4 5)))`, by the reference definition and by the model of the loops -/
example : Spec.TreeHash.levelBelow 5 = 2 ∧ 2 * 2 ^ 2 - 5 = 3 ∧
    Spec.TreeHash.treeSpec P [[1], [2], [3], [4], [5]] = [40, 40, 1, 2, 41, 40, 3, 40, 4, 5, 41, 41, 41] ∧
    treeHash P [1] [[2], [3], [4], [5]] = some [40, 40, 1, 2, 41, 40, 3, 40, 4, 5, 41, 41, 41] := by decide

/-- 6 and 8 leaves (`keep = 2` and `keep = 0`): `((1 2) ((3 4) (5 6)))` and the perfect tree `(((1 2) (3 4)) ((5 6) (7 8)))` -/
example : treeHash P [1] [[2], [3], [4], [5], [6]] = some [40, 40, 1, 2, 41, 40, 40, 3, 4, 41, 40, 5, 6, 41, 41, 41] ∧
    treeHash P [1] [[2], [3], [4], [5], [6], [7], [8]] =
      some [40, 40, 40, 1, 2, 41, 40, 3, 4, 41, 41, 40, 40, 5, 6, 41, 40, 7, 8, 41, 41, 41] := by decide

/-- the order of the leaves is visible in the value: the miner-transaction identifier first is not the same as last, and
exchanging two listed hashes changes the root -/
example : txRoot P [1] [[2], [3]] ≠ txRoot P [3] [[1], [2]] ∧ txRoot P [1] [[2], [3]] ≠ txRoot P [1] [[3], [2]] ∧
    txRoot P [1] [[2], [3]] ≠ txRoot P [2] [[1], [3]] := by decide

/-- leaves that are all-zero hashes or equal to their neighbours are ordinary leaves: no leaf is dropped or merged
(the value under `P` has all five of them, in place) -/
example : treeHash P [0] [[0], [0], [0], [0]] = some [40, 40, 0, 0, 41, 40, 0, 40, 0, 0, 41, 41, 41] ∧
    treeHash P [1] [[0], [3], [3], [0]] = some [40, 40, 1, 0, 41, 40, 3, 40, 3, 0, 41, 41, 41] := by decide

/-! ## The constants of the current source, tightness of the `2^28` bound, well-formedness of the reference definition,
and the statement for parsed blocks (added after the audit of C06) -/

/-- the two identifiers of block 202612 REGENERATED from the current source of src/blockdata/block.rs
(`CORRECT_BLOCK_ID_202612`, `EXISTING_BLOCK_ID_202612` → `Gen.correctId202612`, `Gen.existingId202612`) are the two
constants of the specification: an edit of either constant in the source makes this theorem fail -/
theorem C06_consts :
    Gen.correctId202612 = Spec.TreeHash.computedId202612 ∧ Gen.existingId202612 = Spec.TreeHash.historicalId202612 := by
  decide

/-- the two constants differ (otherwise the substitution would be invisible), and both are 32 bytes long -/
theorem C06_consts_distinct :
    Gen.correctId202612 ≠ Gen.existingId202612 ∧ Gen.correctId202612.length = 32 ∧ Gen.existingId202612.length = 32 := by
  decide

/-- `Block::id` WITH THE CONSTANTS OF THE CURRENT SOURCE is the specified identifier of the specified blob
(`C06_id` part 2 with the regenerated constants in place of the specification's) -/
theorem C06_id_gen (H : Bytes → Bytes) (hdr minerTxHash : Bytes) (txHashes : List Bytes)
    (hmax : txHashes.length + 1 ≤ 2^28) :
    blockId H Gen.correctId202612 Gen.existingId202612 hdr minerTxHash txHashes =
      some (Spec.TreeHash.blockSpec H hdr minerTxHash txHashes).2.2 := by
  rw [C06_consts.1, C06_consts.2]
  exact (C06_id H Spec.TreeHash.computedId202612 Spec.TreeHash.historicalId202612).2 hdr minerTxHash txHashes hmax

/-- TIGHTNESS of the hypothesis `len + 1 ≤ 2^28` of `C06_tree_eq_spec` / `C06_root` / `C06_blob` / `C06_id`: above it the
second assert of `tree_hash_cnt` fires, i.e. `tree_hash`, `Block::tx_root`, `Block::serialize_hashable` and `Block::id`
PANIC. So the library computes the CryptoNote tree hash exactly for `n ≤ 2^28` leaves and no value at all above
(the property's "every number of transactions" holds up to the code's own sanity limit, and this is the whole story). -/
theorem C06_tree_panics (H : Bytes → Bytes) (root : Bytes) (extra : List Bytes) (h : 2^28 < extra.length + 1) :
    treeHash H root extra = none := by
  match extra, h with
  | [], h => simp at h
  | [_], h => simp at h
  | a :: b :: t, h =>
    have hbranch : treeHash H root (a :: b :: t) = treeHashMany (hashConcat H) root (a :: b :: t) := rfl
    rw [hbranch]
    unfold treeHashMany
    simp only [(C06_cnt_asserts ((a :: b :: t).length + 1)).2 (Or.inr h)]

/-- … hence `tree_hash` returns a value exactly when there are at most `2^28` leaves, and then the CryptoNote tree hash -/
theorem C06_tree_defined_iff (H : Bytes → Bytes) (root : Bytes) (extra : List Bytes) :
    (treeHash H root extra = none ↔ 2^28 < extra.length + 1) ∧
    (∀ v, treeHash H root extra = some v → v = Spec.TreeHash.treeSpec H (root :: extra)) := by
  by_cases hmax : extra.length + 1 ≤ 2^28
  · have e := C06_tree_eq_spec H root extra hmax
    refine ⟨⟨fun hn => ?_, fun hb => by omega⟩, fun v hv => ?_⟩
    · rw [e] at hn; cases hn
    · rw [e] at hv; exact (Option.some.inj hv).symm
  · have e := C06_tree_panics H root extra (by omega)
    refine ⟨⟨fun _ => by omega, fun _ => e⟩, fun v hv => ?_⟩
    rw [e] at hv; cases hv

/-- the same for the three block methods: above `2^28` leaves all of them panic -/
theorem C06_block_panics (H : Bytes → Bytes) (c e hdr minerTxHash : Bytes) (txHashes : List Bytes)
    (h : 2^28 < txHashes.length + 1) :
    txRoot H minerTxHash txHashes = none ∧ serializeHashable H hdr minerTxHash txHashes = none ∧
    blockId H c e hdr minerTxHash txHashes = none := by
  have hr : txRoot H minerTxHash txHashes = none := C06_tree_panics H minerTxHash txHashes h
  have hs : serializeHeaderAndRoot H hdr minerTxHash txHashes = none := by unfold serializeHeaderAndRoot; rw [hr]
  exact ⟨hr, hs, by unfold blockId; rw [hs]⟩

/-- the level used by the reference definition, for EVERY `n ≥ 2` (no upper bound; `C06_cnt` says that the code's
`tree_hash_cnt` returns `2 ^ levelBelow n` on its domain `3 ≤ n ≤ 2^28`): `2 ^ levelBelow n` is the largest power of two
strictly below `n` -/
theorem C06_spec_level (n : Nat) (h : 2 ≤ n) :
    2 ^ Spec.TreeHash.levelBelow n < n ∧ n ≤ 2 * 2 ^ Spec.TreeHash.levelBelow n ∧
    ∀ k, 2^k < n → 2^k ≤ 2 ^ Spec.TreeHash.levelBelow n := by
  obtain ⟨hlo, hhi⟩ := levelBelow_bounds n h
  refine ⟨hlo, hhi, fun k hk => ?_⟩
  have hpow : 2 ^ (Spec.TreeHash.levelBelow n + 1) = 2 * 2 ^ Spec.TreeHash.levelBelow n := by rw [Nat.pow_succ]; omega
  have : 2^k < 2 ^ (Spec.TreeHash.levelBelow n + 1) := by omega
  have hkm : k < Spec.TreeHash.levelBelow n + 1 := (Nat.pow_lt_pow_iff_right (a := 2) (by decide)).1 this
  exact Nat.pow_le_pow_right (by decide) (by omega)

/-- WELL-FORMEDNESS OF THE REFERENCE DEFINITION. `Spec.TreeHash.treeSpec` is written with total list functions
(`2·cnt − n` truncated, `pairUp` dropping an odd last element, `perfect` with `headD []` and `take`/`drop`). For every list of
`n ≥ 3` hashes (NO upper bound) none of these defaults is ever exercised: with `m = levelBelow n`, `cnt = 2^m`,
`keep = 2·cnt − n`: `cnt < n ≤ 2·cnt` (`cnt` IS the largest power of two strictly below `n`), `keep < cnt`, `keep ≤ n`, the
list handed to `pairUp` has the even length `2·(n − cnt)` and yields `n − cnt` nodes, the list handed to `perfect` has exactly
`2^m` nodes, the root of `perfect` over exactly `2^m` nodes does not depend on the default (`perfectD` with any default `d`),
and every hash of the input is used: `keep + 2·(n − cnt) = n`. -/
theorem C06_spec_wf (H : Bytes → Bytes) (hs : List Bytes) (h : 3 ≤ hs.length) :
    let m := Spec.TreeHash.levelBelow hs.length
    let keep := 2 * 2 ^ m - hs.length
    2 ^ m < hs.length ∧ hs.length ≤ 2 * 2 ^ m ∧ keep < 2 ^ m ∧ keep ≤ hs.length ∧
    (hs.drop keep).length = 2 * (hs.length - 2 ^ m) ∧ keep + 2 * (hs.length - 2 ^ m) = hs.length ∧
    (Spec.TreeHash.pairUp H (hs.drop keep)).length = hs.length - 2 ^ m ∧
    (hs.take keep ++ Spec.TreeHash.pairUp H (hs.drop keep)).length = 2 ^ m ∧
    (∀ d, Spec.TreeHash.treeSpec H hs = perfectD H d m (hs.take keep ++ Spec.TreeHash.pairUp H (hs.drop keep))) := by
  have hb := levelBelow_bounds hs.length (by omega)
  obtain ⟨h1, h2, h3, h4, h5, h6⟩ := treeSpec_shape H hs h
  refine ⟨hb.1, h1, h2, h3, h4, ?_, h5, h6, fun d => ?_⟩
  · have := hb.1; omega
  · rw [perfect_default_irrelevant H d _ _ h6, treeSpec_many H hs h]

/-- THE RECURSION OF `perfect` IS WELL-FORMED. Over exactly `2^0` nodes the single node is the root; over exactly `2^(m+1)` nodes
`perfect` IS `H(root of the first 2^m nodes ‖ root of the last 2^m nodes)`, both halves have exactly `2^m` nodes (so the recursion never
meets an empty or a ragged list), and the value does not depend on the default used for the empty list (`perfectD` with any `d`) -/
theorem C06_spec_perfect_wf (H : Bytes → Bytes) :
    (∀ (l : List Bytes), l.length = 2^0 → ∃ x, l = [x] ∧ Spec.TreeHash.perfect H 0 l = x) ∧
    (∀ (m : Nat) (l : List Bytes), l.length = 2^(m+1) →
      Spec.TreeHash.perfect H (m+1) l =
        H (Spec.TreeHash.perfect H m (l.take (2^m)) ++ Spec.TreeHash.perfect H m (l.drop (2^m))) ∧
      (l.take (2^m)).length = 2^m ∧ (l.drop (2^m)).length = 2^m ∧ l.take (2^m) ++ l.drop (2^m) = l ∧
      ∀ d, perfectD H d (m+1) l = Spec.TreeHash.perfect H (m+1) l) := by
  constructor
  · intro l hl
    match l, hl with
    | [a], _ => exact ⟨a, rfl, rfl⟩
  · intro m l hl
    have hpow : 2 ^ (m + 1) = 2 * 2 ^ m := by rw [Nat.pow_succ]; omega
    exact ⟨rfl, by rw [List.length_take, hl, hpow]; omega, by rw [List.length_drop, hl, hpow]; omega,
      List.take_append_drop _ _, fun d => perfect_default_irrelevant H d (m+1) l hl⟩

/-- the serialised header is the by-the-book layout
`varint(major) ‖ varint(minor) ‖ varint(timestamp) ‖ prev_id ‖ nonce (4 bytes, little endian)` of the header's fields.
RANGE: the fields of `Spec.HeaderD` / of the model's `Header` are unbounded `Nat`s and `prevId` is any byte string; a `BlockHeader` of the
code has `major, minor, timestamp < 2^64`, `nonce < 2^32` and a 32-byte `prev_id` (`Spec.WFHeaderD`). The equation also holds outside that
range, where it says nothing about the code (a nonce `≥ 2^32` is reduced mod `2^32` by `encUintLE 4` and by `Spec.u32le` alike, a field
`≥ 2^64` gives a LEB128 longer than 10 bytes on both sides): the range is not part of the claim, only values in range correspond to
header values of the library. The example below evaluates both sides on an in-range header. -/
theorem C06_header_layout (d : Spec.HeaderD) : encHeader (buildHeader d) = Spec.specHeader d :=
  encHeader_eq_specHeader d

/-- in range (`Spec.WFHeaderD`), on concrete values: a two-byte varint field (`300 ↦ ac 02`), nonce `0x04030201 ↦ 01 02 03 04`,
`prev_id` verbatim between them -/
example : Spec.WFHeaderD ⟨300, 1, 0, List.replicate 32 7, 0x04030201⟩ ∧
    encHeader (buildHeader ⟨300, 1, 0, List.replicate 32 7, 0x04030201⟩) =
      [0xac, 0x02, 1, 0] ++ List.replicate 32 7 ++ [1, 2, 3, 4] ∧
    Spec.specHeader ⟨300, 1, 0, List.replicate 32 7, 0x04030201⟩ = [0xac, 0x02, 1, 0] ++ List.replicate 32 7 ++ [1, 2, 3, 4] := by
  refine ⟨?_, by decide +kernel, by decide +kernel⟩
  unfold Spec.WFHeaderD Spec.u64 Spec.is32
  decide

/-- FOR EVERY BLOCK VALUE of the model (`Block`: a header, a miner transaction, a list of listed hashes — every value, parsed or
assembled in memory; the model's fields are unbounded, so the values of the Rust type `Block` are among them), TOTAL in the number of
listed hashes, with the miner-transaction identifier computed by the model of `Transaction::hash` (C05) and the constants of the
current source:
* the serialised header is the by-the-book layout of the header's FIELDS (`prev_id` verbatim, whatever its value),
* `tx_root` is the CryptoNote tree hash of the miner-transaction identifier followed by the listed hashes,
* `serialize_hashable` is `that header ‖ root ‖ LEB128(n + 1)`,
* `id` is `H(LEB128(|blob|) ‖ blob)`, except that the value computed for block 202612 is replaced by the historical one,
all three exactly when `n + 1 ≤ 2^28`; above that all three panic (the second assert of `tree_hash_cnt`). -/
theorem C06_every_block (H : Bytes → Bytes) (blk : Block) :
    let hdr := Spec.specHeader ⟨blk.hdr.major, blk.hdr.minor, blk.hdr.timestamp, blk.hdr.prev, blk.hdr.nonce⟩
    let mid := txHash H blk.miner
    let root := Spec.TreeHash.treeSpec H (mid :: blk.hashes)
    let blob := hdr ++ root ++ Spec.leb128 (blk.hashes.length + 1)
    let hash := H (Spec.leb128 blob.length ++ blob)
    encHeader blk.hdr = hdr ∧
    txRoot H mid blk.hashes = (if blk.hashes.length + 1 ≤ 2^28 then some root else none) ∧
    serializeHashable H (encHeader blk.hdr) mid blk.hashes = (if blk.hashes.length + 1 ≤ 2^28 then some blob else none) ∧
    blockId H Gen.correctId202612 Gen.existingId202612 (encHeader blk.hdr) mid blk.hashes =
      (if blk.hashes.length + 1 ≤ 2^28 then
        some (if hash = Spec.TreeHash.computedId202612 then Spec.TreeHash.historicalId202612 else hash) else none) := by
  intro hdr mid root blob hash
  have he : encHeader blk.hdr = hdr :=
    encHeader_eq_specHeader ⟨blk.hdr.major, blk.hdr.minor, blk.hdr.timestamp, blk.hdr.prev, blk.hdr.nonce⟩
  refine ⟨he, ?_⟩
  rw [he]
  by_cases hmax : blk.hashes.length + 1 ≤ 2^28
  · rw [if_pos hmax, if_pos hmax, if_pos hmax]
    refine ⟨C06_root H mid blk.hashes hmax, ?_, ?_⟩
    · rw [(C06_blob H hdr mid blk.hashes hmax).2]; rfl
    · rw [C06_id_gen H hdr mid blk.hashes hmax]; rfl
  · rw [if_neg hmax, if_neg hmax, if_neg hmax]
    exact C06_block_panics H _ _ hdr mid blk.hashes (by omega)

/-- FOR EVERY PARSED BLOCK (`block` = the model of `Block::consensus_decode`, tied to the code by C01–C03), with NO size hypothesis
(the decoder's allocation cap keeps the number of listed hashes below `2^28`), with the miner-transaction identifier computed by the
model of `Transaction::hash` (C05) and the constants of the current source:
* `tx_root` is the CryptoNote tree hash of the miner-transaction identifier followed by the listed hashes,
* `serialize_hashable` is `serialised header ‖ root ‖ LEB128(n + 1)`,
* `id` is `H(LEB128(|blob|) ‖ blob)` except that the identifier computed for block 202612 is replaced by the historical one
  (equivalently `(Spec.TreeHash.blockSpec H hdr mid blk.hashes).2.2`, the value the driver's spec side prints: `C06_id_gen`),
* none of them panics,
* the serialised header is the by-the-book layout of the parsed header's fields,
* and it is literally the leading bytes of the block.
This quantifies over the OUTPUTS OF THE DECODER only; for an arbitrary in-memory value see `C06_every_block`. -/
theorem C06_parsed_block (H : Bytes → Bytes) (b r : Bytes) (blk : Block) (h : block b = some (blk, r)) :
    let hdr := encHeader blk.hdr
    let mid := txHash H blk.miner
    let root := Spec.TreeHash.treeSpec H (mid :: blk.hashes)
    let blob := hdr ++ root ++ Spec.leb128 (blk.hashes.length + 1)
    let hash := H (Spec.leb128 blob.length ++ blob)
    txRoot H mid blk.hashes = some root ∧
    serializeHashable H hdr mid blk.hashes = some blob ∧
    blockId H Gen.correctId202612 Gen.existingId202612 hdr mid blk.hashes =
      some (if hash = Spec.TreeHash.computedId202612 then Spec.TreeHash.historicalId202612 else hash) ∧
    hdr = Spec.specHeader ⟨blk.hdr.major, blk.hdr.minor, blk.hdr.timestamp, blk.hdr.prev, blk.hdr.nonce⟩ ∧
    (∃ rest, b = hdr ++ rest) := by
  intro hdr mid root blob hash
  have hmax := parsed_block_count b blk r h
  obtain ⟨he, hr, hs, hi⟩ := C06_every_block H blk
  rw [if_pos hmax] at hr hs hi
  rw [← he] at hs hi
  exact ⟨hr, hs, hi, he, parsed_block_header_prefix b blk r h⟩

/-- the same for a block given by a DESCRIPTION of its fields (`Spec.BlockD`: header fields, miner transaction, hashes), so that the
header layout appears in the statement (the blob starts with `Spec.specHeader` of the header's fields). TOTAL: no size hypothesis —
with at most `2^28 − 1` listed hashes the blob and the identifier are the specified ones, above that both methods panic. (The range remark
of `C06_header_layout` applies to `d.hdr`.) -/
theorem C06_described_block (H : Bytes → Bytes) (d : Spec.BlockD) :
    let blk := buildBlock d
    let mid := txHash H blk.miner
    serializeHashable H (encHeader blk.hdr) mid blk.hashes =
      (if d.txHashes.length + 1 ≤ 2^28 then
        some (Spec.specHeader d.hdr ++ Spec.TreeHash.treeSpec H (mid :: d.txHashes) ++ Spec.leb128 (d.txHashes.length + 1))
       else none) ∧
    blockId H Gen.correctId202612 Gen.existingId202612 (encHeader blk.hdr) mid blk.hashes =
      (if d.txHashes.length + 1 ≤ 2^28 then some (Spec.TreeHash.blockSpec H (Spec.specHeader d.hdr) mid d.txHashes).2.2 else none) := by
  intro blk mid
  have e : encHeader blk.hdr = Spec.specHeader d.hdr := encHeader_eq_specHeader d.hdr
  have hh : blk.hashes = d.txHashes := rfl
  rw [e, hh]
  by_cases hmax : d.txHashes.length + 1 ≤ 2^28
  · rw [if_pos hmax, if_pos hmax]
    exact ⟨by rw [(C06_blob H _ mid d.txHashes hmax).2]; rfl, C06_id_gen H _ mid d.txHashes hmax⟩
  · rw [if_neg hmax, if_neg hmax]
    have hp := C06_block_panics H Gen.correctId202612 Gen.existingId202612 (Spec.specHeader d.hdr) mid d.txHashes (by omega)
    exact ⟨hp.2.1, hp.2.2⟩

/-- the hypothesis of `C06_tree_panics` / `C06_block_panics` (= the `else` arm of `C06_every_block` / `C06_described_block`) is
satisfiable (only by huge lists) -/
example : (2:Nat)^28 < (List.replicate (2^28) ([] : Bytes)).length + 1 := by
  rw [List.length_replicate]; omega

/-- the hypothesis of `C06_parsed_block` is satisfiable: a 109-byte block (3 header varints 1/0/0, 32 bytes prev_id 07…07, 4 bytes nonce
0x04030201, a 5-byte version-1 miner transaction without inputs and outputs, count 2, two listed hashes 09…09 and 0a…0a) parses
completely in the model; with the miner transaction that makes THREE leaves, so `tree_hash` takes its general arm (`treeHashMany`) -/
example : ∃ blk, block ([1, 0, 0] ++ List.replicate 32 7 ++ [1, 2, 3, 4] ++ [1, 0, 0, 0, 0] ++ [2] ++ List.replicate 32 9 ++ List.replicate 32 10)
    = some (blk, []) ∧ blk.hashes = [List.replicate 32 9, List.replicate 32 10] ∧ blk.hashes.length = 2 ∧ blk.hdr.nonce = 0x04030201 ∧
    blk.hdr.prev = List.replicate 32 7 := by
  have h : ((block ([1, 0, 0] ++ List.replicate 32 7 ++ [1, 2, 3, 4] ++ [1, 0, 0, 0, 0] ++ [2] ++ List.replicate 32 9 ++ List.replicate 32 10)).map
      (fun p => (p.1.hashes, p.1.hdr.nonce, p.1.hdr.prev, p.2))) =
      some ([List.replicate 32 9, List.replicate 32 10], 0x04030201, List.replicate 32 7, []) := by decide +kernel
  cases hb : block ([1, 0, 0] ++ List.replicate 32 7 ++ [1, 2, 3, 4] ++ [1, 0, 0, 0, 0] ++ [2] ++ List.replicate 32 9 ++ List.replicate 32 10) with
  | none => rw [hb] at h; cases h
  | some p =>
    rw [hb] at h
    simp only [Option.map_some, Option.some.injEq, Prod.mk.injEq] at h
    exact ⟨p.1, by rw [← h.2.2.2], h.1, by rw [h.1]; rfl, h.2.1, h.2.2.1⟩

/-- the length of that literal -/
example : ([1, 0, 0] ++ List.replicate 32 7 ++ [1, 2, 3, 4] ++ [1, 0, 0, 0, 0] ++ [2] ++ List.replicate 32 9 ++ List.replicate 32 10 : Bytes).length
    = 109 := by decide

/-- both arms of `C06_every_block` / `C06_described_block` occur: a description with few hashes (e.g. none) is in the `then` arm … -/
example (d : Spec.BlockD) (h : d.txHashes = []) : d.txHashes.length + 1 ≤ 2^28 := by rw [h]; decide
/-- … and one listing `2^28` hashes is in the `else` arm -/
example (d : Spec.BlockD) (h : d.txHashes = List.replicate (2^28) []) : ¬ d.txHashes.length + 1 ≤ 2^28 := by
  rw [h, List.length_replicate]; omega

/-- `C06_every_block` on a concrete value with the shape-revealing `P`, a header whose `prev_id` is the COMPUTED identifier of block
202612 (no substitution applies to a header field: the blob contains the 32 bytes verbatim at offset 3), one listed hash: the blob is
`header ‖ (mid listed) ‖ 02` -/
example : ∀ (t : Tx),
    serializeHashable P (encHeader ⟨1, 0, 0, Spec.TreeHash.computedId202612, 0x04030201⟩) (txHash P t) [[9]] =
      some ([1, 0, 0] ++ Spec.TreeHash.computedId202612 ++ [1, 2, 3, 4] ++ P (txHash P t ++ [9]) ++ [2]) := by
  intro t
  have h := (C06_every_block P ⟨⟨1, 0, 0, Spec.TreeHash.computedId202612, 0x04030201⟩, t, [[9]]⟩).2.2.1
  have hl : ([[9]] : List Bytes).length + 1 ≤ 2^28 := by decide
  rw [if_pos hl] at h
  have e1 : Spec.specHeader ⟨1, 0, 0, Spec.TreeHash.computedId202612, 0x04030201⟩ =
      [1, 0, 0] ++ Spec.TreeHash.computedId202612 ++ [1, 2, 3, 4] := by decide +kernel
  have e2 : Spec.leb128 2 = [2] := by decide +kernel
  rw [← e1, ← e2]
  exact h

end C06
