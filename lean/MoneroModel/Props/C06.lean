import MoneroModel.Proofs.TreeHash2
import MoneroModel.Proofs.TreeHash3
import MoneroModel.Proofs.VarIntImp
import MoneroModel.Model.TxHash
import MoneroModel.Gen.Consts
open Monero Monero.TreeHash
/-! # C06 — block id, proof-of-work blob and Merkle root follow the CryptoNote definition

Model (`MoneroModel/Model/TreeHash.lean`): `treeHashCnt` (the doubling loop of `tree_hash_cnt` on a 64-bit `usize`,
both asserts), `treeHash` (`tree_hash`: a mutable array, the two in-place loops
`hashes[j] = hash_concat(hashes[i], hashes[i+1])`, `assert_eq!(i, count)`, the halving loop, the final combine; every
index access checked, `none` = panic), `txRoot`, `blobOf` / `serializeHashable` (`Block::serialize_header_and_root`),
`blockIdOf` / `blockId` (`Block::id` with the block-202612 substitution).
Spec (`MoneroModel/Spec/TreeHash.lean`): `treeSpec` — the recursive CryptoNote definition (keep `2·cnt − n` leading
leaves, pair the rest, root of the perfect binary tree defined top-down by halves), `powBlob`, `blockIdSpec`.
Every theorem holds for an arbitrary hash function `H` (Keccak-256 in the code). -/
namespace C06

/-- `tree_hash_cnt n` neither asserts nor loops for `3 ≤ n ≤ 2^28`, and returns `2^⌊log₂(n−1)⌋`, which is the largest
power of two strictly less than `n` (it is `< n`, its double is `≥ n`, and every power of two `< n` is at most it) -/
theorem C06_cnt (n : Nat) (h3 : 3 ≤ n) (hmax : n ≤ 2^28) :
    treeHashCnt n = some (2 ^ Spec.TreeHash.levelBelow n) ∧
    2 ^ Spec.TreeHash.levelBelow n < n ∧ n ≤ 2 * 2 ^ Spec.TreeHash.levelBelow n ∧
    ∀ k, 2^k < n → 2^k ≤ 2 ^ Spec.TreeHash.levelBelow n := by
  obtain ⟨m, _, hc, hlo, hhi⟩ := treeHashCnt_spec n h3 hmax
  have hl := levelBelow_eq n m hlo hhi
  rw [hl]
  have hpow : 2^(m+1) = 2 * 2^m := by rw [Nat.pow_succ]; omega
  refine ⟨hc, hlo, by omega, fun k hk => ?_⟩
  have : 2^k < 2^(m+1) := by omega
  have hkm : k < m + 1 := (Nat.pow_lt_pow_iff_right (a := 2) (by decide)).1 this
  exact Nat.pow_le_pow_right (by decide) (by omega)

/-- the two asserts of `tree_hash_cnt` fire exactly outside `3 ≤ n ≤ 2^28` -/
theorem C06_cnt_asserts (n : Nat) : treeHashCnt n = none ↔ n < 3 ∨ 2^28 < n := by
  have e : (2:Nat)^28 = 0x10000000 := by decide
  unfold treeHashCnt
  by_cases h3 : n ≥ 3
  · by_cases hm : n ≤ 0x10000000
    · simp only [h3, hm, not_true_eq_false, if_false]
      constructor
      · intro h; simp at h
      · intro h; omega
    · simp only [h3, hm, not_true_eq_false, not_false_eq_true, if_false, if_true, true_iff]
      omega
  · simp only [h3, not_false_eq_true, if_true, true_iff]
    omega

/-- MAIN THEOREM. For every hash function, root hash and list of extra hashes with at most `2^28` leaves in total,
the imperative `tree_hash` (in-place loops on a mutable array) does not panic and returns the CryptoNote tree hash
of `root :: extra`. Covers the 0- and 1-extra special cases. -/
theorem C06_tree_eq_spec (H : Bytes → Bytes) (root : Bytes) (extra : List Bytes)
    (hmax : extra.length + 1 ≤ 2^28) :
    treeHash H root extra = some (Spec.TreeHash.treeSpec H (root :: extra)) :=
  treeHash_eq_treeSpec H root extra hmax

/-- the special cases spelled out: one leaf is its own root, two leaves give `H(h₀ ‖ h₁)` -/
theorem C06_tree_small (H : Bytes → Bytes) (root e : Bytes) :
    treeHash H root [] = some root ∧ treeHash H root [e] = some (H (root ++ e)) ∧
    Spec.TreeHash.treeSpec H [root] = root ∧ Spec.TreeHash.treeSpec H [root, e] = H (root ++ e) :=
  ⟨rfl, rfl, rfl, rfl⟩

/-- `Block::tx_root` is the CryptoNote tree hash of the miner-transaction hash followed by the listed hashes -/
theorem C06_root (H : Bytes → Bytes) (minerTxHash : Bytes) (txHashes : List Bytes)
    (hmax : txHashes.length + 1 ≤ 2^28) :
    txRoot H minerTxHash txHashes = some (Spec.TreeHash.treeSpec H (minerTxHash :: txHashes)) :=
  treeHash_eq_treeSpec H minerTxHash txHashes hmax

/-- the proof-of-work blob is `header ‖ root ‖ LEB128(n + 1)`, with the root of the previous theorem -/
theorem C06_blob (H : Bytes → Bytes) (hdr minerTxHash : Bytes) (txHashes : List Bytes)
    (hmax : txHashes.length + 1 ≤ 2^28) :
    (∀ root n, blobOf hdr root n = hdr ++ root ++ Spec.leb128 (n + 1)) ∧
    serializeHashable H hdr minerTxHash txHashes =
      some (Spec.TreeHash.powBlob hdr (Spec.TreeHash.treeSpec H (minerTxHash :: txHashes)) txHashes.length) := by
  constructor
  · intro root n; unfold blobOf; rw [encVarint_eq_leb128]
  · unfold serializeHashable
    rw [C06_root H minerTxHash txHashes hmax]
    simp only [blobOf, Spec.TreeHash.powBlob, encVarint_eq_leb128]

/-- the block identifier: `H(LEB128(|blob|) ‖ blob)` with the substitution; with the constants of the code equal to
the two constants of the specification, `Block::id` is the specified identifier of the specified blob -/
theorem C06_id (H : Bytes → Bytes) (correct existing : Bytes) :
    (∀ blob, blockIdOf H correct existing blob =
      if H (Spec.leb128 blob.length ++ blob) = correct then existing else H (Spec.leb128 blob.length ++ blob)) ∧
    (∀ (hdr minerTxHash : Bytes) (txHashes : List Bytes), txHashes.length + 1 ≤ 2^28 →
      blockId H Spec.TreeHash.computedId202612 Spec.TreeHash.historicalId202612 hdr minerTxHash txHashes =
        some (Spec.TreeHash.blockSpec H hdr minerTxHash txHashes).2.2) := by
  constructor
  · intro blob; simp only [blockIdOf, encVarint_eq_leb128]
  · intro hdr minerTxHash txHashes hmax
    unfold blockId
    rw [(C06_blob H hdr minerTxHash txHashes hmax).2]
    simp only [blockIdOf, encVarint_eq_leb128, Spec.TreeHash.blockSpec, Spec.TreeHash.blockIdSpec]

/-- the block-202612 substitution: the result is `existing` when the computed hash equals `correct`, and the
computed hash otherwise; hence `existing` is returned exactly when the computed hash is `correct` (or is `existing`
itself) -/
theorem C06_exception (H : Bytes → Bytes) (correct existing blob : Bytes) :
    let h := H (encVarint blob.length ++ blob)
    (h = correct → blockIdOf H correct existing blob = existing) ∧
    (h ≠ correct → blockIdOf H correct existing blob = h) ∧
    (blockIdOf H correct existing blob = existing ↔ h = correct ∨ h = existing) := by
  intro h
  unfold blockIdOf
  by_cases hc : H (encVarint blob.length ++ blob) = correct
  · simp [h, hc]
  · simp only [h, hc, if_false, false_or, ne_eq, not_false_eq_true, true_implies, false_implies, true_and]

/-- the hypotheses are satisfiable: a hash function, three leaves (inside the range `3 ≤ n ≤ 2^28`) -/
example : ∃ (H : Bytes → Bytes) (root : Bytes) (extra : List Bytes),
    extra.length + 1 ≤ 2^28 ∧ 3 ≤ extra.length + 1 ∧
    treeHash H root extra = some (Spec.TreeHash.treeSpec H (root :: extra)) :=
  ⟨fun b => b.take 1, [1], [[2], [3]], by decide, by decide,
    C06_tree_eq_spec _ _ _ (by decide)⟩

/-- … and on that instance the value is the expected one: keep `h₀`, pair `h₁,h₂`, combine -/
example : Spec.TreeHash.treeSpec (fun b => b.take 1) [[1], [2], [3]] = [1] := by decide

/-! ## The constants of the current source, tightness of the `2^28` bound, well-formedness of the reference definition,
and the statement for parsed blocks (added after the audit of C06) -/

/-- the two identifiers of block 202612 REGENERATED from the current source of src/blockdata/block.rs
(`CORRECT_BLOCK_ID_202612`, `EXISTING_BLOCK_ID_202612` → `Gen.correctId202612`, `Gen.existingId202612`) are the two
constants of the specification: an edit of either constant in the source makes this theorem fail -/
theorem C06_consts :
    Gen.correctId202612 = Spec.TreeHash.computedId202612 ∧ Gen.existingId202612 = Spec.TreeHash.historicalId202612 := by
  decide

/-- the two constants differ (otherwise the substitution would be invisible), and both are 32 bytes long -/
theorem C06_consts_distinct :
    Gen.correctId202612 ≠ Gen.existingId202612 ∧ Gen.correctId202612.length = 32 ∧ Gen.existingId202612.length = 32 := by
  decide

/-- `Block::id` WITH THE CONSTANTS OF THE CURRENT SOURCE is the specified identifier of the specified blob
(`C06_id` part 2 with the regenerated constants in place of the specification's) -/
theorem C06_id_gen (H : Bytes → Bytes) (hdr minerTxHash : Bytes) (txHashes : List Bytes)
    (hmax : txHashes.length + 1 ≤ 2^28) :
    blockId H Gen.correctId202612 Gen.existingId202612 hdr minerTxHash txHashes =
      some (Spec.TreeHash.blockSpec H hdr minerTxHash txHashes).2.2 := by
  rw [C06_consts.1, C06_consts.2]
  exact (C06_id H Spec.TreeHash.computedId202612 Spec.TreeHash.historicalId202612).2 hdr minerTxHash txHashes hmax

/-- TIGHTNESS of the hypothesis `len + 1 ≤ 2^28` of `C06_tree_eq_spec` / `C06_root` / `C06_blob` / `C06_id`: above it the
second assert of `tree_hash_cnt` fires, i.e. `tree_hash`, `Block::tx_root`, `Block::serialize_hashable` and `Block::id`
PANIC. So the library computes the CryptoNote tree hash exactly for `n ≤ 2^28` leaves and no value at all above
(the property's "every number of transactions" holds up to the code's own sanity limit, and this is the whole story). -/
theorem C06_tree_panics (H : Bytes → Bytes) (root : Bytes) (extra : List Bytes) (h : 2^28 < extra.length + 1) :
    treeHash H root extra = none := by
  match extra, h with
  | [], h => simp at h
  | [_], h => simp at h
  | a :: b :: t, h =>
    have hbranch : treeHash H root (a :: b :: t) = treeHashMany (hashConcat H) root (a :: b :: t) := rfl
    rw [hbranch]
    unfold treeHashMany
    simp only [(C06_cnt_asserts ((a :: b :: t).length + 1)).2 (Or.inr h)]

/-- … hence `tree_hash` returns a value exactly when there are at most `2^28` leaves, and then the CryptoNote tree hash -/
theorem C06_tree_defined_iff (H : Bytes → Bytes) (root : Bytes) (extra : List Bytes) :
    (treeHash H root extra = none ↔ 2^28 < extra.length + 1) ∧
    (∀ v, treeHash H root extra = some v → v = Spec.TreeHash.treeSpec H (root :: extra)) := by
  by_cases hmax : extra.length + 1 ≤ 2^28
  · have e := C06_tree_eq_spec H root extra hmax
    refine ⟨⟨fun hn => ?_, fun hb => by omega⟩, fun v hv => ?_⟩
    · rw [e] at hn; cases hn
    · rw [e] at hv; exact (Option.some.inj hv).symm
  · have e := C06_tree_panics H root extra (by omega)
    refine ⟨⟨fun _ => by omega, fun _ => e⟩, fun v hv => ?_⟩
    rw [e] at hv; cases hv

/-- the same for the three block methods: above `2^28` leaves all of them panic -/
theorem C06_block_panics (H : Bytes → Bytes) (c e hdr minerTxHash : Bytes) (txHashes : List Bytes)
    (h : 2^28 < txHashes.length + 1) :
    txRoot H minerTxHash txHashes = none ∧ serializeHashable H hdr minerTxHash txHashes = none ∧
    blockId H c e hdr minerTxHash txHashes = none := by
  have hr : txRoot H minerTxHash txHashes = none := C06_tree_panics H minerTxHash txHashes h
  have hs : serializeHashable H hdr minerTxHash txHashes = none := by unfold serializeHashable; rw [hr]
  exact ⟨hr, hs, by unfold blockId; rw [hs]⟩

/-- the level used by the reference definition, for EVERY `n ≥ 2` (no upper bound; `C06_cnt` says that the code's
`tree_hash_cnt` returns `2 ^ levelBelow n` on its domain `3 ≤ n ≤ 2^28`): `2 ^ levelBelow n` is the largest power of two
strictly below `n` -/
theorem C06_spec_level (n : Nat) (h : 2 ≤ n) :
    2 ^ Spec.TreeHash.levelBelow n < n ∧ n ≤ 2 * 2 ^ Spec.TreeHash.levelBelow n ∧
    ∀ k, 2^k < n → 2^k ≤ 2 ^ Spec.TreeHash.levelBelow n := by
  obtain ⟨hlo, hhi⟩ := levelBelow_bounds n h
  refine ⟨hlo, hhi, fun k hk => ?_⟩
  have hpow : 2 ^ (Spec.TreeHash.levelBelow n + 1) = 2 * 2 ^ Spec.TreeHash.levelBelow n := by rw [Nat.pow_succ]; omega
  have : 2^k < 2 ^ (Spec.TreeHash.levelBelow n + 1) := by omega
  have hkm : k < Spec.TreeHash.levelBelow n + 1 := (Nat.pow_lt_pow_iff_right (a := 2) (by decide)).1 this
  exact Nat.pow_le_pow_right (by decide) (by omega)

/-- WELL-FORMEDNESS OF THE REFERENCE DEFINITION. `Spec.TreeHash.treeSpec` is written with total list functions
(`2·cnt − n` truncated, `pairUp` dropping an odd last element, `perfect` with `headD []` and `take`/`drop`). For every list of
`n ≥ 3` hashes (NO upper bound) none of these defaults is ever exercised: with `m = levelBelow n`, `cnt = 2^m`,
`keep = 2·cnt − n`: `cnt < n ≤ 2·cnt` (`cnt` IS the largest power of two strictly below `n`), `keep < cnt`, `keep ≤ n`, the
list handed to `pairUp` has the even length `2·(n − cnt)` and yields `n − cnt` nodes, the list handed to `perfect` has exactly
`2^m` nodes, the root of `perfect` over exactly `2^m` nodes does not depend on the default (`perfectD` with any default `d`),
and every hash of the input is used: `keep + 2·(n − cnt) = n`. -/
theorem C06_spec_wf (H : Bytes → Bytes) (hs : List Bytes) (h : 3 ≤ hs.length) :
    let m := Spec.TreeHash.levelBelow hs.length
    let keep := 2 * 2 ^ m - hs.length
    2 ^ m < hs.length ∧ hs.length ≤ 2 * 2 ^ m ∧ keep < 2 ^ m ∧ keep ≤ hs.length ∧
    (hs.drop keep).length = 2 * (hs.length - 2 ^ m) ∧ keep + 2 * (hs.length - 2 ^ m) = hs.length ∧
    (Spec.TreeHash.pairUp H (hs.drop keep)).length = hs.length - 2 ^ m ∧
    (hs.take keep ++ Spec.TreeHash.pairUp H (hs.drop keep)).length = 2 ^ m ∧
    (∀ d, Spec.TreeHash.treeSpec H hs = perfectD H d m (hs.take keep ++ Spec.TreeHash.pairUp H (hs.drop keep))) := by
  have hb := levelBelow_bounds hs.length (by omega)
  obtain ⟨h1, h2, h3, h4, h5, h6⟩ := treeSpec_shape H hs h
  refine ⟨hb.1, h1, h2, h3, h4, ?_, h5, h6, fun d => ?_⟩
  · have := hb.1; omega
  · rw [perfect_default_irrelevant H d _ _ h6, treeSpec_many H hs h]

/-- in `perfect` over exactly `2^(m+1)` nodes both halves have exactly `2^m` nodes, and over `2^0` nodes the single node is the
root: the recursion of the reference definition never meets an empty or a ragged list -/
theorem C06_spec_perfect_wf (H : Bytes → Bytes) :
    (∀ (l : List Bytes), l.length = 2^0 → ∃ x, l = [x] ∧ Spec.TreeHash.perfect H 0 l = x) ∧
    (∀ (m : Nat) (l : List Bytes), l.length = 2^(m+1) →
      (l.take (2^m)).length = 2^m ∧ (l.drop (2^m)).length = 2^m ∧ l.take (2^m) ++ l.drop (2^m) = l) := by
  constructor
  · intro l hl
    match l, hl with
    | [a], _ => exact ⟨a, rfl, rfl⟩
  · intro m l hl
    have hpow : 2 ^ (m + 1) = 2 * 2 ^ m := by rw [Nat.pow_succ]; omega
    exact ⟨by rw [List.length_take, hl, hpow]; omega, by rw [List.length_drop, hl, hpow]; omega, List.take_append_drop _ _⟩

/-- the serialised header is the by-the-book layout
`varint(major) ‖ varint(minor) ‖ varint(timestamp) ‖ prev_id ‖ nonce (4 bytes, little endian)` of the header's fields -/
theorem C06_header_layout (d : Spec.HeaderD) : encHeader (buildHeader d) = Spec.specHeader d :=
  encHeader_eq_specHeader d

/-- FOR EVERY PARSED BLOCK (`block` = the model of `Block::consensus_decode`, tied to the code by C01–C03), with NO
size hypothesis (the decoder's allocation cap keeps the number of listed hashes below `2^28`), with the miner-transaction
identifier computed by the model of `Transaction::hash` (C05) and the constants of the current source:
* `tx_root` is the CryptoNote tree hash of the miner-transaction identifier followed by the listed hashes,
* `serialize_hashable` is `serialised header ‖ root ‖ LEB128(n + 1)`,
* `id` is `H(LEB128(|blob|) ‖ blob)` except that the identifier computed for block 202612 is replaced by the historical one,
* none of them panics,
* and the serialised header is literally the leading bytes of the block. -/
theorem C06_parsed_block (H : Bytes → Bytes) (b r : Bytes) (blk : Block) (h : block b = some (blk, r)) :
    let hdr := encHeader blk.hdr
    let mid := txHash H blk.miner
    let root := Spec.TreeHash.treeSpec H (mid :: blk.hashes)
    let blob := hdr ++ root ++ Spec.leb128 (blk.hashes.length + 1)
    let hash := H (Spec.leb128 blob.length ++ blob)
    txRoot H mid blk.hashes = some root ∧
    serializeHashable H hdr mid blk.hashes = some blob ∧
    blockId H Gen.correctId202612 Gen.existingId202612 hdr mid blk.hashes =
      some (if hash = Spec.TreeHash.computedId202612 then Spec.TreeHash.historicalId202612 else hash) ∧
    blockId H Gen.correctId202612 Gen.existingId202612 hdr mid blk.hashes =
      some (Spec.TreeHash.blockSpec H hdr mid blk.hashes).2.2 ∧
    (∃ rest, b = hdr ++ rest) := by
  intro hdr mid root blob hash
  have hmax := parsed_block_count b blk r h
  have hid := C06_id_gen H hdr mid blk.hashes hmax
  refine ⟨C06_root H mid blk.hashes hmax, ?_, ?_, hid, parsed_block_header_prefix b blk r h⟩
  · rw [(C06_blob H hdr mid blk.hashes hmax).2]; rfl
  · rw [hid]; rfl

/-- the same for a block given by a DESCRIPTION of its fields (`Spec.BlockD`: header fields, miner transaction, hashes), so that
the header layout appears in the statement: the blob starts with `Spec.specHeader` of the header's fields -/
theorem C06_described_block (H : Bytes → Bytes) (d : Spec.BlockD) (hmax : d.txHashes.length + 1 ≤ 2^28) :
    let blk := buildBlock d
    let mid := txHash H blk.miner
    serializeHashable H (encHeader blk.hdr) mid blk.hashes =
      some (Spec.specHeader d.hdr ++ Spec.TreeHash.treeSpec H (mid :: d.txHashes) ++ Spec.leb128 (d.txHashes.length + 1)) ∧
    blockId H Gen.correctId202612 Gen.existingId202612 (encHeader blk.hdr) mid blk.hashes =
      some (Spec.TreeHash.blockSpec H (Spec.specHeader d.hdr) mid d.txHashes).2.2 := by
  intro blk mid
  have e : encHeader blk.hdr = Spec.specHeader d.hdr := encHeader_eq_specHeader d.hdr
  have hh : blk.hashes = d.txHashes := rfl
  rw [e, hh]
  exact ⟨by rw [(C06_blob H _ mid d.txHashes hmax).2]; rfl, C06_id_gen H _ mid d.txHashes hmax⟩

/-- the hypothesis of `C06_tree_panics` / `C06_block_panics` is satisfiable (only by huge lists) -/
example : (2:Nat)^28 < (List.replicate (2^28) ([] : Bytes)).length + 1 := by
  rw [List.length_replicate]; omega

/-- the hypothesis of `C06_parsed_block` is satisfiable: a 110-byte block (header 1/0/0, prev_id 07…07, nonce 0x04030201, a
version-1 miner transaction without inputs and outputs, one listed hash 09…09) parses completely in the model -/
example : ∃ blk, block ([1, 0, 0] ++ List.replicate 32 7 ++ [1, 2, 3, 4] ++ [1, 0, 0, 0, 0] ++ [1] ++ List.replicate 32 9)
    = some (blk, []) ∧ blk.hashes = [List.replicate 32 9] ∧ blk.hdr.nonce = 0x04030201 := by
  have h : ((block ([1, 0, 0] ++ List.replicate 32 7 ++ [1, 2, 3, 4] ++ [1, 0, 0, 0, 0] ++ [1] ++ List.replicate 32 9)).map
      (fun p => (p.1.hashes, p.1.hdr.nonce, p.2))) = some ([List.replicate 32 9], 0x04030201, []) := by decide +kernel
  cases hb : block ([1, 0, 0] ++ List.replicate 32 7 ++ [1, 2, 3, 4] ++ [1, 0, 0, 0, 0] ++ [1] ++ List.replicate 32 9) with
  | none => rw [hb] at h; cases h
  | some p =>
    rw [hb] at h
    simp only [Option.map_some, Option.some.injEq, Prod.mk.injEq] at h
    exact ⟨p.1, by rw [← h.2.2], h.1, h.2.1⟩

/-- the hypothesis of `C06_described_block`: any description with few hashes, e.g. none -/
example (d : Spec.BlockD) (h : d.txHashes = []) : d.txHashes.length + 1 ≤ 2^28 := by rw [h]; decide

/-- the hypothesis of `C06_spec_wf` on a concrete list (5 leaves: `m = 2`, `cnt = 4`, `keep = 3`, one pair) -/
example : Spec.TreeHash.levelBelow 5 = 2 ∧ 2 * 2 ^ 2 - 5 = 3 ∧
    Spec.TreeHash.treeSpec (fun b => b.take 1) [[1], [2], [3], [4], [5]] = [1] := by decide

end C06
