import MoneroModel.Proofs.Group
import MoneroModel.Proofs.GroupInstance
import MoneroModel.Proofs.EdwardsLawful
import MoneroModel.Proofs.ScanRecover
import MoneroModel.Proofs.GroupRefine
/-! C09 — "Recovered one-time secret key matches the output's one-time public key".
About the model `Monero.recoverKey` (Model/Crypto.lean: `KeyRecoverer::{new, recover}` with `get_spend_secret_key`) and
the by-the-book sender `Spec.Sender`. For every additive commutative group and every lawful `ops` (Proofs/Group.lean).
Wallet: view secret `v`, spend secret `s`, spend public key `S = s•G`. -/
namespace C09
open Monero Monero.Scan
variable {P : Type} [AddCommGroup P] {ops : CryptoOps P}

/-- the hypotheses are satisfiable -/
example : Lawful zmodOps ∧ ∃ (s : ℕ) (S : ZMod zN), S = s • zmodOps.base := ⟨zmodOps_lawful, 5, _, rfl⟩

/-- the recovered key is `Hs(enc(8•(v•R)) ‖ varint(n)) + s'  (mod l)` with `s' = s` at index (0,0) and
`s' = s + Hs("SubAddr\0" ‖ v ‖ i ‖ j) (mod l)` otherwise — written with the specification's functions -/
theorem C09_recover_value (L : Lawful ops) (v s : ℕ) (R : P) (n i j : ℕ) :
    recoverKey ops v s R n i j
      = (Spec.Sender.derivationScalar (specPrims ops) (8 • (v • R)) n
          + (if i = 0 ∧ j = 0 then s else Spec.Sender.subSpendSec (specPrims ops) v s i j)) % ops.l := by
  unfold recoverKey subSpendSec
  rw [rvnScalar_eq, L.derive_eq, subScalar_eq]
  by_cases h : i = 0 ∧ j = 0
  · rw [if_pos ((Lawful.idxZero_iff i j).2 h), if_pos h]
  · rw [if_neg (fun h' => h ((Lawful.idxZero_iff i j).1 h')), if_neg h]; rfl

/-- for EVERY transaction key `R` (also one the wallet did not expect): the recovered scalar times G is the candidate
key the scanner compared the output key with — `Hs(8vR ‖ n)•G + S'`, `S'` the public spend key of index (i,j). So for
every output reported as owned at (n, (i,j)) the recovered key opens the output's one-time public key. -/
theorem C09_recover_matches_scan (L : Lawful ops) (v s : ℕ) (S : P) (hS : S = s • ops.base) (R : P) (n i j : ℕ) :
    recoverKey ops v s R n i j • ops.base = oneTimeKey ops (derive ops v R) (subSpendPub ops v S i j) n :=
  L.recoverKey_pub v s S hS R n i j

/-- the recovered scalar times G is the one-time key the by-the-book sender built for the wallet's address at index
(i,j) — primary address (V, S), R = r•G at (0,0); subaddress (V', S'), R = r•S' otherwise — at every position n -/
theorem C09_recover_pub (L : Lawful ops) (v s r : ℕ) (S : P) (hS : S = s • ops.base) (n i j : ℕ) :
    recoverKey ops v s (Spec.Sender.txKey (specPrims ops) r (Spec.Sender.destAt (specPrims ops) v S i j)) n i j
        • ops.base
      = Spec.Sender.sendKey (specPrims ops) r (Spec.Sender.destAt (specPrims ops) v S i j) n := by
  rw [L.recoverKey_pub v s S hS, L.sendKey_recognised v r n _ (L.destAt_view v S i j), Lawful.subSpendPub_eq_spec]

/-- primary address: destination (v•G, S), transaction key r•G, index (0,0) -/
theorem C09_recover_pub_primary (L : Lawful ops) (v s r : ℕ) (S : P) (hS : S = s • ops.base) (n : ℕ) :
    recoverKey ops v s (r • ops.base) n 0 0 • ops.base
      = Spec.Sender.sendKey (specPrims ops) r ⟨v • ops.base, S, false⟩ n := by
  have h := C09_recover_pub L v s r S hS n 0 0
  have hd : Spec.Sender.destAt (specPrims ops) v S 0 0 = ⟨v • ops.base, S, false⟩ := by
    unfold Spec.Sender.destAt Spec.Sender.primaryDest; rw [if_pos ⟨rfl, rfl⟩]
    show (⟨ops.smul v ops.base, S, false⟩ : Spec.Sender.Dest P) = _; rw [L.smul_eq]
  rw [hd, L.spec_txKey_val] at h
  exact h

/-- subaddress (i,j) ≠ (0,0): destination (V' = v•S', S' = S + m•G), transaction key r•S' -/
theorem C09_recover_pub_subaddress (L : Lawful ops) (v s r : ℕ) (S : P) (hS : S = s • ops.base) (n i j : ℕ)
    (hij : ¬ (i = 0 ∧ j = 0)) :
    recoverKey ops v s (r • Spec.Sender.subSpend (specPrims ops) v S i j) n i j • ops.base
      = Spec.Sender.sendKey (specPrims ops) r (Spec.Sender.subDest (specPrims ops) v S i j) n := by
  have h := C09_recover_pub L v s r S hS n i j
  have hd : Spec.Sender.destAt (specPrims ops) v S i j = Spec.Sender.subDest (specPrims ops) v S i j := by
    unfold Spec.Sender.destAt; rw [if_neg hij]
  rw [hd, L.spec_txKey_val] at h
  exact h

/-- the recovered key is a reduced scalar (a valid `PrivateKey`) -/
theorem C09_recover_reduced (L : Lawful ops) (v s : ℕ) (R : P) (n i j : ℕ) : recoverKey ops v s R n i j < ops.l :=
  Nat.mod_lt _ L.l_pos

/-! ### clause (a): every output REPORTED AS OWNED by the scan, through `OwnedTxOut::recover_key`

`Owned.recoverKey` (Model/ScanRecover.lean) is the model of `OwnedTxOut::recover_key`: the reported output's own `tx_pubkey`,
`index` and `sub_index` go into `KeyRecoverer::{new, recover}`. The scan is the model of Model/Scan.lean (C07). -/

/-- the hypotheses of `C09_owned_recover` are satisfiable with a NON-EMPTY result: in the one-element lawful group
(`unitOps`, Proofs/ScanRecover.lean) a one-output transaction is scanned to `Ok` of one owned output -/
example : Lawful unitOps ∧ (PUnit.unit : PUnit) = 5 • unitOps.base ∧
    ∃ ws, checkOutputsPrefix unitOps (fun _ => none) unitPrefix 1 PUnit.unit 0 1 0 1 none = .ok ws ∧ ws.length = 1 :=
  ⟨unitOps_lawful, rfl, unitScan_ok⟩

/-- **Clause (a).** For EVERY output `w` the scan reports as owned by the wallet `(v, S = s•G)` — whatever the transaction,
whichever key matched (main or additional, with or without a torsion component), at every position and subaddress index in
the scanned ranges — `OwnedTxOut::recover_key` returns (no panic of `PublicKey::point()`) a scalar `x` such that
`PublicKey::from_private_key(x)` (`pubOf`) is that output's one-time public key (`TxOutTarget::as_one_time_key`);
`x` is reduced, and it is `recoverKey` applied to the reported output's own key, position and index (so `C09_recover_value`
gives its value). -/
theorem C09_owned_recover (L : Lawful ops) (decP : Bytes → Option P) (p : Prefix) (v s : ℕ) (S : P)
    (hS : S = s • ops.base) (a b c d : ℕ) (base : Option Base) (ws : List Owned)
    (h : checkOutputsPrefix ops decP p v S a b c d base = .ok ws) :
    ∀ w ∈ ws, ∃ x Pi R, Owned.recoverKey ops w v s = some x ∧ asOneTimeKey ops w.out.target = some Pi ∧
      ops.dec w.txKey = some R ∧ x = recoverKey ops v s R w.index w.sub.1 w.sub.2 ∧
      pubOf ops x = Pi ∧ x • ops.base = Pi ∧ x < ops.l := by
  intro w hw
  obtain ⟨_, _, _, hA⟩ := reported_addressed L decP p v S a b c d base ws h w hw
  exact owned_recover_of_addressed L v s S hS w hA

/-- the same for `Transaction::check_outputs` and for `check_outputs_with` a checker built by `SubKeyChecker::new` (on the
prefix and on the transaction): all four entry points run the same pipeline -/
theorem C09_owned_recover_all_apis (L : Lawful ops) (decP : Bytes → Option P) (t : Tx) (v s : ℕ) (S : P)
    (hS : S = s • ops.base) (a b c d : ℕ) (ws : List Owned)
    (h : checkOutputsTx ops decP t v S a b c d = .ok ws ∨
         checkOutputsTxWith ops decP t (Checker.new ops v S a b c d) = .ok ws ∨
         checkOutputsWith ops decP t.pre (Checker.new ops v S a b c d) t.base = .ok ws) :
    ∀ w ∈ ws, ∃ x Pi, Owned.recoverKey ops w v s = some x ∧ asOneTimeKey ops w.out.target = some Pi ∧
      pubOf ops x = Pi ∧ x < ops.l := by
  have h' : checkOutputsPrefix ops decP t.pre v S a b c d t.base = .ok ws := by
    rcases h with h | h | h <;> exact h
  intro w hw
  obtain ⟨x, Pi, _, h1, h2, _, _, h5, _, h7⟩ := C09_owned_recover L decP t.pre v s S hS a b c d t.base ws h' w hw
  exact ⟨x, Pi, h1, h2, h5, h7⟩

omit [AddCommGroup P] in
/-- `KeyRecoverer` is a two-step object (`new` computes `checker.rv` with `KeyGenerator::from_key`, then any number of
`recover` calls read it): each call, and any sequence of calls on ONE object, returns `recoverKey` of its own arguments —
the object has no other state. (`Recoverer`, Model/ScanRecover.lean.) -/
theorem C09_recoverer_object (v s : ℕ) (R : P) :
    (∀ n i j, (Recoverer.new ops v s R).recover ops n i j = recoverKey ops v s R n i j) ∧
    (∀ qs : List (ℕ × ℕ × ℕ), (Recoverer.new ops v s R).recoverAll ops qs
        = qs.map fun q => recoverKey ops v s R q.1 q.2.1 q.2.2) :=
  ⟨fun n i j => recoverer_recover v s R n i j, fun qs => recoverer_recoverAll v s R qs⟩

/-- hypotheses of `C09_recover_value_bounded` are satisfiable -/
example : (3 : ℕ) < 2 ^ 32 ∧ (70000 : ℕ) < 2 ^ 64 ∧ (5 : ℕ) < 2 ^ 256 := by decide

/-- `C09_recover_value` on the REAL domain (`Index { major, minor : u32 }`, position a `u64`, keys 32-byte scalars): there
the totalisations of the model are invisible — the 4-byte / 32-byte little-endian strings and the varint that enter the two
hashes decode back to the very numbers (nothing is truncated), and `Index::is_zero` tests the same numbers that are hashed. -/
theorem C09_recover_value_bounded (L : Lawful ops) (v s : ℕ) (R : P) (n i j : ℕ)
    (hi : i < 2 ^ 32) (hj : j < 2 ^ 32) (hn : n < 2 ^ 64) (hv : v < 2 ^ 256) :
    recoverKey ops v s R n i j
      = (Spec.Sender.derivationScalar (specPrims ops) (8 • (v • R)) n
          + (if i = 0 ∧ j = 0 then s else Spec.Sender.subSpendSec (specPrims ops) v s i j)) % ops.l ∧
    leNat (le32 i) = i ∧ leNat (le32 j) = j ∧ leNat (scalarBytes v) = v ∧
    varint (encVarint n) = some (n, []) ∧
    (idxZero i j = true ↔ le32 i = le32 0 ∧ le32 j = le32 0) := by
  have e4 : (2 : ℕ) ^ 32 = 256 ^ 4 := by decide
  have e32 : (2 : ℕ) ^ 256 = 256 ^ 32 := by decide
  refine ⟨C09_recover_value L v s R n i j, Ed.leNat_toBytesLE 4 i (e4 ▸ hi), Ed.leNat_toBytesLE 4 j (e4 ▸ hj),
    Ed.leNat_toBytesLE 32 v (e32 ▸ hv), ?_, ?_⟩
  · have := complete_varint n hn []; rwa [List.append_nil] at this
  · rw [Lawful.idxZero_iff]
    constructor
    · rintro ⟨rfl, rfl⟩; exact ⟨rfl, rfl⟩
    · rintro ⟨h1, h2⟩
      exact ⟨le32_injective hi (by decide) h1, le32_injective hj (by decide) h2⟩

/-! ### Ed25519 itself: `Lawful` is a theorem, not an assumption

`Proofs/EdwardsGroup.lean` proves that the affine twisted Edwards curve −x² + y² = 1 + d·x²·y² over GF(2^255 − 19) with the
complete addition law is an abelian group (d is a non-square, −1 a square; associativity by explicit polynomial
certificates); `Proofs/EdwardsRef*.lean` that the executable reference arithmetic `Ref/Ed25519.lean` (extended coordinates,
double-and-add, RFC 8032 compression) computes in that group; `Proofs/EdwardsLawful.lean` that the resulting primitives
record `edOps` (points = curve points, `l·G = 0`, injective encoding accepted by `dec`) is `Lawful`, and that the instance
the compiled driver runs (`Drv.refOps`) refines it operation by operation. The theorems below are the theorems of this
file with that instance plugged in: no hypothesis about the group is left. (That curve25519-dalek computes the same
functions as `Ref/Ed25519.lean` remains a differential tie — dalek is a dependency.) -/
section Ed25519
open Monero.Edw

theorem C09_ed25519_lawful : Lawful edOps ∧ RefinesEd Drv.refOps := ⟨edOps_lawful, refOps_refines_edOps⟩
theorem C09_recover_value_ed25519 : type_of% (@C09_recover_value EdPoint _ edOps edOps_lawful) := C09_recover_value edOps_lawful
theorem C09_recover_matches_scan_ed25519 : type_of% (@C09_recover_matches_scan EdPoint _ edOps edOps_lawful) :=
  C09_recover_matches_scan edOps_lawful
theorem C09_recover_pub_ed25519 : type_of% (@C09_recover_pub EdPoint _ edOps edOps_lawful) := C09_recover_pub edOps_lawful
theorem C09_recover_pub_primary_ed25519 : type_of% (@C09_recover_pub_primary EdPoint _ edOps edOps_lawful) :=
  C09_recover_pub_primary edOps_lawful
theorem C09_recover_pub_subaddress_ed25519 : type_of% (@C09_recover_pub_subaddress EdPoint _ edOps edOps_lawful) :=
  C09_recover_pub_subaddress edOps_lawful
theorem C09_recover_reduced_ed25519 : type_of% (@C09_recover_reduced EdPoint _ edOps edOps_lawful) :=
  C09_recover_reduced edOps_lawful
/-- clause (a) on Ed25519: no hypothesis about the group is left -/
theorem C09_owned_recover_ed25519 : type_of% (@C09_owned_recover EdPoint _ edOps edOps_lawful) :=
  C09_owned_recover edOps_lawful
theorem C09_owned_recover_all_apis_ed25519 : type_of% (@C09_owned_recover_all_apis EdPoint _ edOps edOps_lawful) :=
  C09_owned_recover_all_apis edOps_lawful
/-- **the driver's scalars are the theorems' scalars**: on a valid representative `B` of the transaction key and a 32-byte
view secret, the executable instance `Drv.refOps` (model side of `c09_recover`, `c09_recover_seq`, `c09_scan_tx`,
`c09_scenario`) computes the very number `recoverKey edOps …` the `_ed25519` theorems speak about; and the formula inlined in
the scenario driver (`Drv.C07.Scen.showRecover`: `Drv.decodeKey w.txKey`, then `recoverKey` on the owned output's own position
and index) is the model `Owned.recoverKey` of `OwnedTxOut::recover_key` -/
theorem C09_driver_refines (v s : ℕ) (hv : v < 2 ^ 260) (B : Ed.Pt) (hB : Valid B) (n i j : ℕ) (w : Owned) :
    recoverKey Drv.refOps v s B n i j = recoverKey edOps v s (toPoint B hB) n i j ∧
    Owned.recoverKey Drv.refOps w v s
      = (Drv.decodeKey w.txKey).map fun R => recoverKey Drv.refOps v s R w.index w.sub.1 w.sub.2 := by
  refine ⟨refines_recoverKey refOps_refines_edOps v s hv B hB n i j, ?_⟩
  unfold Owned.recoverKey
  rw [refOps_dec]
  cases Drv.decodeKey w.txKey <;> rfl

/-- on Ed25519 every reduced scalar is a 32-byte number: `v < l` suffices for `C09_recover_value_bounded` -/
theorem C09_recover_value_bounded_ed25519 (v s : ℕ) (R : EdPoint) (n i j : ℕ)
    (hi : i < 2 ^ 32) (hj : j < 2 ^ 32) (hn : n < 2 ^ 64) (hv : v < edOps.l) :
    recoverKey edOps v s R n i j
      = (Spec.Sender.derivationScalar (specPrims edOps) (8 • (v • R)) n
          + (if i = 0 ∧ j = 0 then s else Spec.Sender.subSpendSec (specPrims edOps) v s i j)) % edOps.l ∧
    leNat (le32 i) = i ∧ leNat (le32 j) = j ∧ leNat (scalarBytes v) = v ∧
    varint (encVarint n) = some (n, []) ∧
    (idxZero i j = true ↔ le32 i = le32 0 ∧ le32 j = le32 0) :=
  C09_recover_value_bounded edOps_lawful v s R n i j hi hj hn
    (Nat.lt_trans hv (by rw [edOps_l]; decide))
end Ed25519
end C09
