import MoneroModel.Proofs.Group
import MoneroModel.Proofs.GroupInstance
import MoneroModel.Proofs.EdwardsLawful
import MoneroModel.Proofs.ScanRecover
import MoneroModel.Proofs.GroupRefine
import MoneroModel.Proofs.GroupRefineScan
import MoneroModel.Proofs.EdwardsPermissive
import MoneroModel.Proofs.TxDecodedWF
import MoneroModel.Props.C07
import MoneroModel.Drv.C10
/-! C09 — "Recovered one-time secret key matches the output's one-time public key".
About the model `Monero.recoverKey` (Model/Crypto.lean: `KeyRecoverer::{new, recover}` with `get_spend_secret_key`) and
the by-the-book sender `Spec.Sender`. For every additive commutative group and every lawful `ops` (Proofs/Group.lean).
Wallet: view secret `v`, spend secret `s`, spend public key `S = s•G`. -/
namespace C09
open Monero Monero.Scan
variable {P : Type} [AddCommGroup P] {ops : CryptoOps P}

/-- the hypotheses are satisfiable -/
example : Lawful zmodOps ∧ ∃ (s : ℕ) (S : ZMod zN), S = s • zmodOps.base := ⟨zmodOps_lawful, 5, _, rfl⟩

/-- the recovered key is `Hs(enc(8•(v•R)) ‖ varint(n)) + s'  (mod l)` with `s' = s` at index (0,0) and
`s' = s + Hs("SubAddr\0" ‖ v ‖ i ‖ j) (mod l)` otherwise — written with the specification's functions -/
theorem C09_recover_value (L : Lawful ops) (v s : ℕ) (R : P) (n i j : ℕ) :
    recoverKey ops v s R n i j
      = (Spec.Sender.derivationScalar (specPrims ops) (8 • (v • R)) n
          + (if i = 0 ∧ j = 0 then s else Spec.Sender.subSpendSec (specPrims ops) v s i j)) % ops.l := by
  unfold recoverKey subSpendSec
  rw [rvnScalar_eq, L.derive_eq, subScalar_eq]
  by_cases h : i = 0 ∧ j = 0
  · rw [if_pos ((Lawful.idxZero_iff i j).2 h), if_pos h]
  · rw [if_neg (fun h' => h ((Lawful.idxZero_iff i j).1 h')), if_neg h]; rfl

/-- for EVERY transaction key `R` (also one the wallet did not expect): the recovered scalar times G is the candidate
key the scanner compared the output key with — `Hs(8vR ‖ n)•G + S'`, `S'` the public spend key of index (i,j). So for
every output reported as owned at (n, (i,j)) the recovered key opens the output's one-time public key. -/
theorem C09_recover_matches_scan (L : Lawful ops) (v s : ℕ) (S : P) (hS : S = s • ops.base) (R : P) (n i j : ℕ) :
    recoverKey ops v s R n i j • ops.base = oneTimeKey ops (derive ops v R) (subSpendPub ops v S i j) n :=
  L.recoverKey_pub v s S hS R n i j

/-- the recovered scalar times G is the one-time key the by-the-book sender built for the wallet's address at index
(i,j) — primary address (V, S), R = r•G at (0,0); subaddress (V', S'), R = r•S' otherwise — at every position n -/
theorem C09_recover_pub (L : Lawful ops) (v s r : ℕ) (S : P) (hS : S = s • ops.base) (n i j : ℕ) :
    recoverKey ops v s (Spec.Sender.txKey (specPrims ops) r (Spec.Sender.destAt (specPrims ops) v S i j)) n i j
        • ops.base
      = Spec.Sender.sendKey (specPrims ops) r (Spec.Sender.destAt (specPrims ops) v S i j) n := by
  rw [L.recoverKey_pub v s S hS, L.sendKey_recognised v r n _ (L.destAt_view v S i j), Lawful.subSpendPub_eq_spec]

/-- primary address: destination (v•G, S), transaction key r•G, index (0,0) -/
theorem C09_recover_pub_primary (L : Lawful ops) (v s r : ℕ) (S : P) (hS : S = s • ops.base) (n : ℕ) :
    recoverKey ops v s (r • ops.base) n 0 0 • ops.base
      = Spec.Sender.sendKey (specPrims ops) r ⟨v • ops.base, S, false⟩ n := by
  have h := C09_recover_pub L v s r S hS n 0 0
  have hd : Spec.Sender.destAt (specPrims ops) v S 0 0 = ⟨v • ops.base, S, false⟩ := by
    unfold Spec.Sender.destAt Spec.Sender.primaryDest; rw [if_pos ⟨rfl, rfl⟩]
    show (⟨ops.smul v ops.base, S, false⟩ : Spec.Sender.Dest P) = _; rw [L.smul_eq]
  rw [hd, L.spec_txKey_val] at h
  exact h

/-- subaddress (i,j) ≠ (0,0): destination (V' = v•S', S' = S + m•G), transaction key r•S' -/
theorem C09_recover_pub_subaddress (L : Lawful ops) (v s r : ℕ) (S : P) (hS : S = s • ops.base) (n i j : ℕ)
    (hij : ¬ (i = 0 ∧ j = 0)) :
    recoverKey ops v s (r • Spec.Sender.subSpend (specPrims ops) v S i j) n i j • ops.base
      = Spec.Sender.sendKey (specPrims ops) r (Spec.Sender.subDest (specPrims ops) v S i j) n := by
  have h := C09_recover_pub L v s r S hS n i j
  have hd : Spec.Sender.destAt (specPrims ops) v S i j = Spec.Sender.subDest (specPrims ops) v S i j := by
    unfold Spec.Sender.destAt; rw [if_neg hij]
  rw [hd, L.spec_txKey_val] at h
  exact h

/-- the recovered key is a reduced scalar (a valid `PrivateKey`) -/
theorem C09_recover_reduced (L : Lawful ops) (v s : ℕ) (R : P) (n i j : ℕ) : recoverKey ops v s R n i j < ops.l :=
  Nat.mod_lt _ L.l_pos

/-! ### clause (a): every output REPORTED AS OWNED by the scan, through `OwnedTxOut::recover_key`

`Owned.recoverKey` (Model/ScanRecover.lean) is the model of `OwnedTxOut::recover_key`: the reported output's own `tx_pubkey`,
`index` and `sub_index` go into `KeyRecoverer::{new, recover}`. The scan is the model of Model/Scan.lean (C07). -/

/-- the hypotheses of `C09_owned_recover` are satisfiable with a NON-EMPTY result: in the one-element lawful group
(`unitOps`, Proofs/ScanRecover.lean) a one-output transaction is scanned to `Ok` of one owned output. This witness is DEGENERATE
(one point, `keccak = fun _ => []`: every conclusion holds trivially there); that the theorem says something on a real instance is
`C09_sender_tx_recover` below — on every lawful instance, Ed25519 with Keccak-256 included, a sender-built transaction yields a
reported output and the recovered scalar opens the SENDER's key. -/
example : Lawful unitOps ∧ (PUnit.unit : PUnit) = 5 • unitOps.base ∧
    ∃ ws, checkOutputsPrefix unitOps (fun _ => none) unitPrefix 1 PUnit.unit 0 1 0 1 none = .ok ws ∧ ws.length = 1 :=
  ⟨unitOps_lawful, rfl, unitScan_ok⟩

/-- **Clause (a).** For EVERY output `w` the scan reports as owned by the wallet `(v, S = s•G)` — whatever the transaction,
whichever key matched (main or additional, with or without a torsion component), at every position and subaddress index in
the scanned ranges — `OwnedTxOut::recover_key` returns (no panic of `PublicKey::point()`) a scalar `x` such that
`PublicKey::from_private_key(x)` (`pubOf`) is that output's one-time public key (`TxOutTarget::as_one_time_key`);
`x` is reduced, and it is `recoverKey` applied to the reported output's own key, position and index (so `C09_recover_value`
gives its value). -/
theorem C09_owned_recover (L : Lawful ops) (decP : Bytes → Option P) (p : Prefix) (v s : ℕ) (S : P)
    (hS : S = s • ops.base) (a b c d : ℕ) (base : Option Base) (ws : List Owned)
    (h : checkOutputsPrefix ops decP p v S a b c d base = .ok ws) :
    ∀ w ∈ ws, ∃ x Pi R, Owned.recoverKey ops w v s = some x ∧ asOneTimeKey ops w.out.target = some Pi ∧
      ops.dec w.txKey = some R ∧ x = recoverKey ops v s R w.index w.sub.1 w.sub.2 ∧
      pubOf ops x = Pi ∧ x • ops.base = Pi ∧ x < ops.l := by
  intro w hw
  obtain ⟨_, _, _, hA⟩ := reported_addressed L decP p v S a b c d base ws h w hw
  exact owned_recover_of_addressed L v s S hS w hA

/-- DEFINITIONAL COROLLARY of `C09_owned_recover` (no new content): in the MODEL, `Transaction::check_outputs` and
`check_outputs_with` a checker built by `SubKeyChecker::new` for the same `(v, S)` and ranges (on the prefix and on the transaction)
are defined as the same pipeline (Model/Scan.lean, `checkOutputsTx` / `checkOutputsTxWith`), so the three disjuncts are the hypothesis
of `C09_owned_recover` up to unfolding. That the four RUST entry points agree is the business of `C07_apis_agree` and of the harness
(`APIS-DIFFER`), not of this statement; a checker built for another wallet or other ranges is not covered. -/
theorem C09_owned_recover_all_apis (L : Lawful ops) (decP : Bytes → Option P) (t : Tx) (v s : ℕ) (S : P)
    (hS : S = s • ops.base) (a b c d : ℕ) (ws : List Owned)
    (h : checkOutputsTx ops decP t v S a b c d = .ok ws ∨
         checkOutputsTxWith ops decP t (Checker.new ops v S a b c d) = .ok ws ∨
         checkOutputsWith ops decP t.pre (Checker.new ops v S a b c d) t.base = .ok ws) :
    ∀ w ∈ ws, ∃ x Pi, Owned.recoverKey ops w v s = some x ∧ asOneTimeKey ops w.out.target = some Pi ∧
      pubOf ops x = Pi ∧ x < ops.l := by
  have h' : checkOutputsPrefix ops decP t.pre v S a b c d t.base = .ok ws := by
    rcases h with h | h | h <;> exact h
  intro w hw
  obtain ⟨x, Pi, _, h1, h2, _, _, h5, _, h7⟩ := C09_owned_recover L decP t.pre v s S hS a b c d t.base ws h' w hw
  exact ⟨x, Pi, h1, h2, h5, h7⟩

/-! ### `KeyRecoverer` as an object — NOT a theorem

The Rust `KeyRecoverer` is built once (`new` computes `checker.rv`) and then asked any number of times. The model has a record
`Recoverer` for the driver arm `c09_recover_seq`, and `Recoverer.recover = recoverKey` holds by `rfl`
(`Monero.Scan.recoverer_recover`, Proofs/ScanRecover.lean) — because the record was written with exactly the fields (v, s, rv). A pure
Lean record cannot express a memo or a reused scratch buffer inside the Rust object, so NO statement of this file is evidence that
`KeyRecoverer` is stateless; that rests on the differential checks only: `c09_recover_seq` (one object, positions from long varints to
short ones and back, indices alternating, the first query repeated at the end, compared with the per-call formula on dalek) and the
purity re-check of the run. -/

/-! ### clause (a) end to end: the sender's transaction, the scan, the recovery -/

/-- the hypotheses of `C09_sender_tx_recover` are those of `C07_sender_tx_reported` (satisfiability: the `example`s next to it in
Props/C07.lean — the sender's key alone is a well-formed extra; a lawful instance exists) plus `S = s•G`, which every wallet satisfies -/
example (s : ℕ) : ∃ S : Monero.Edw.EdPoint, S = s • Monero.Edw.edOps.base := ⟨_, rfl⟩

/-- **From the sender's bytes to the recovered key.** Hypotheses of `C07_sender_tx_reported` (the sender writes the extra field
`TxPublicKey(K) :: rest`, `K = txKey r dest + T` with `T` any small-order point, for the wallet's address `dest` at an in-range index
`(i, j)`, and the output at position `n` with the by-the-book one-time key, tagged or not) and `S = s•G`: an `Ok` scan reports an output
at position `n`, `OwnedTxOut::recover_key` on it returns a reduced scalar `x`, and `x•G` IS THE KEY THE SENDER BUILT. Non-degenerate on
every lawful instance (`C09_sender_tx_recover_ed25519`: Ed25519, Keccak-256). -/
theorem C09_sender_tx_recover (L : Lawful ops) (decP : Bytes → Option P) (p : Prefix) (v s : ℕ) (S : P) (hS : S = s • ops.base)
    (a b c d : ℕ) (base : Option Base) (ws : List Owned) (h : checkOutputsPrefix ops decP p v S a b c d base = .ok ws)
    (n : ℕ) (hn : n < p.outs.length) (i j r : ℕ) (T : P) (hT : 8 • T = 0) (hr : InRange a b c d (i, j))
    (rest : List Extra.SubField)
    (hw : Extra.WFSeq (validKey ops) (.txPub (ops.enc (Spec.Sender.txKey (specPrims ops) r (Spec.Sender.destAt (specPrims ops) v S i j) + T)) :: rest))
    (hp : p.extra = ((Extra.SubField.txPub (ops.enc (Spec.Sender.txKey (specPrims ops) r (Spec.Sender.destAt (specPrims ops) v S i j) + T)) :: rest).map Extra.encSub).flatten)
    (hout : p.outs[n].target = .key (ops.enc (Spec.Sender.sendKey (specPrims ops) r (Spec.Sender.destAt (specPrims ops) v S i j) n)) ∨
      p.outs[n].target = .tagged (ops.enc (Spec.Sender.sendKey (specPrims ops) r (Spec.Sender.destAt (specPrims ops) v S i j) n))
        (Spec.Sender.sendTag (specPrims ops) r (Spec.Sender.destAt (specPrims ops) v S i j) n)) :
    ∃ w ∈ ws, w.index = n ∧ ∃ x, Owned.recoverKey ops w v s = some x ∧ x < ops.l ∧
      x • ops.base = Spec.Sender.sendKey (specPrims ops) r (Spec.Sender.destAt (specPrims ops) v S i j) n := by
  obtain ⟨w, hw', hidx, _, _, _⟩ :=
    C07.C07_sender_tx_reported L decP p v S a b c d base ws h n hn i j r T hT hr rest hw hp hout
  obtain ⟨x, Pi, _, h1, h2, _, _, _, h6, h7⟩ := C09_owned_recover L decP p v s S hS a b c d base ws h w hw'
  obtain ⟨_, hwo, _, _⟩ := reported_addressed L decP p v S a b c d base ws h w hw'
  refine ⟨w, hw', hidx, x, h1, h7, ?_⟩
  rw [h6]
  have ht : w.out.target = p.outs[n].target := by rw [hwo]; simp only [hidx]
  rw [ht] at h2
  rcases hout with ho | ho <;> rw [ho] at h2 <;> simp only [asOneTimeKey, L.dec_enc] at h2 <;> exact (Option.some.inj h2).symm

/-! ### the hashed byte strings determine their arguments on the real domain -/

/-- hypotheses of `C09_encodings_exact_bounded` are satisfiable -/
example : (3 : ℕ) < 2 ^ 32 ∧ (70000 : ℕ) < 2 ^ 64 ∧ (5 : ℕ) < 2 ^ 256 := by decide

/-- On the REAL domain (`Index { major, minor : u32 }`, position a `u64`, view key a 32-byte scalar) the totalisations of the model are
invisible: the little-endian strings and the varint that enter the two hashes of `recoverKey` decode back to the very numbers, and the
two hashed messages DETERMINE their arguments — `enc D ‖ varint(n)` determines the position, `"SubAddr\0" ‖ v ‖ i ‖ j` determines
`(v, i, j)` — and `Index::is_zero` tests the same numbers that are hashed. (Codec facts; the equation for `recoverKey` itself is
`C09_recover_value`, which needs no bound because model and specification truncate identically. The spend secret `s` enters no byte
string: it is only added.) -/
theorem C09_encodings_exact_bounded (D : P) (v v' n n' i j i' j' : ℕ)
    (hi : i < 2 ^ 32) (hj : j < 2 ^ 32) (hn : n < 2 ^ 64) (hv : v < 2 ^ 256)
    (hi' : i' < 2 ^ 32) (hj' : j' < 2 ^ 32) (hn' : n' < 2 ^ 64) (hv' : v' < 2 ^ 256) :
    leNat (le32 i) = i ∧ leNat (le32 j) = j ∧ leNat (scalarBytes v) = v ∧
    varint (encVarint n) = some (n, []) ∧
    (ops.enc D ++ encVarint n = ops.enc D ++ encVarint n' → n = n') ∧
    (subPreimage v i j = subPreimage v' i' j' → v = v' ∧ i = i' ∧ j = j') ∧
    (idxZero i j = true ↔ le32 i = le32 0 ∧ le32 j = le32 0) := by
  have e4 : (2 : ℕ) ^ 32 = 256 ^ 4 := by decide
  have e32 : (2 : ℕ) ^ 256 = 256 ^ 32 := by decide
  have hvar : ∀ m, m < 2 ^ 64 → varint (encVarint m) = some (m, []) := by
    intro m hm; have := complete_varint m hm []; rwa [List.append_nil] at this
  refine ⟨Ed.leNat_toBytesLE 4 i (e4 ▸ hi), Ed.leNat_toBytesLE 4 j (e4 ▸ hj),
    Ed.leNat_toBytesLE 32 v (e32 ▸ hv), hvar n hn, ?_, ?_, ?_⟩
  · intro h
    have h1 := List.append_cancel_left h
    have h2 := hvar n hn
    rw [h1, hvar n' hn'] at h2
    exact ((Prod.mk.inj (Option.some.inj h2)).1).symm
  · intro h
    unfold subPreimage at h
    rw [List.append_assoc, List.append_assoc, List.append_assoc, List.append_assoc] at h
    have h1 := List.append_cancel_left h
    have h2 := List.append_inj h1 (by rw [scalarBytes_length, scalarBytes_length])
    have h3 := List.append_inj h2.2 (by rw [le32_length, le32_length])
    have hvv : v = v' := by
      have a1 := Ed.leNat_toBytesLE 32 v (e32 ▸ hv)
      have a2 := Ed.leNat_toBytesLE 32 v' (e32 ▸ hv')
      have := h2.1; unfold scalarBytes at this; rw [toBytesLE_eq_Ed, toBytesLE_eq_Ed] at this
      rw [← a1, ← a2, this]
    exact ⟨hvv, le32_injective hi hi' h3.1, le32_injective hj hj' h3.2⟩
  · rw [Lawful.idxZero_iff]
    constructor
    · rintro ⟨rfl, rfl⟩; exact ⟨rfl, rfl⟩
    · rintro ⟨h1, h2⟩
      exact ⟨le32_injective hi (by decide) h1, le32_injective hj (by decide) h2⟩

/-! ### Ed25519 itself: `Lawful` is a theorem, not an assumption

`Proofs/EdwardsGroup.lean` proves that the affine twisted Edwards curve −x² + y² = 1 + d·x²·y² over GF(2^255 − 19) with the
complete addition law is an abelian group (d is a non-square, −1 a square; associativity by explicit polynomial
certificates); `Proofs/EdwardsRef*.lean` that the executable reference arithmetic `Ref/Ed25519.lean` (extended coordinates,
double-and-add, RFC 8032 compression) computes in that group; `Proofs/EdwardsLawful.lean` that the resulting primitives
record `edOps` (points = curve points, `l·G = 0`, injective encoding accepted by `dec`) is `Lawful`, and that the instance
the compiled driver runs (`Drv.refOps`) refines it operation by operation. The theorems below are the theorems of this
file with that instance plugged in: no hypothesis about the group is left. (That curve25519-dalek computes the same
functions as `Ref/Ed25519.lean` remains a differential tie — dalek is a dependency.) -/
section Ed25519
open Monero.Edw

theorem C09_ed25519_lawful : Lawful edOps ∧ RefinesEd Drv.refOps := ⟨edOps_lawful, refOps_refines_edOps⟩
theorem C09_recover_value_ed25519 : type_of% (@C09_recover_value EdPoint _ edOps edOps_lawful) := C09_recover_value edOps_lawful
theorem C09_recover_matches_scan_ed25519 : type_of% (@C09_recover_matches_scan EdPoint _ edOps edOps_lawful) :=
  C09_recover_matches_scan edOps_lawful
theorem C09_recover_pub_ed25519 : type_of% (@C09_recover_pub EdPoint _ edOps edOps_lawful) := C09_recover_pub edOps_lawful
theorem C09_recover_pub_primary_ed25519 : type_of% (@C09_recover_pub_primary EdPoint _ edOps edOps_lawful) :=
  C09_recover_pub_primary edOps_lawful
theorem C09_recover_pub_subaddress_ed25519 : type_of% (@C09_recover_pub_subaddress EdPoint _ edOps edOps_lawful) :=
  C09_recover_pub_subaddress edOps_lawful
theorem C09_recover_reduced_ed25519 : type_of% (@C09_recover_reduced EdPoint _ edOps edOps_lawful) :=
  C09_recover_reduced edOps_lawful
/-- clause (a) on Ed25519: no hypothesis about the group is left -/
theorem C09_owned_recover_ed25519 : type_of% (@C09_owned_recover EdPoint _ edOps edOps_lawful) :=
  C09_owned_recover edOps_lawful
theorem C09_owned_recover_all_apis_ed25519 : type_of% (@C09_owned_recover_all_apis EdPoint _ edOps edOps_lawful) :=
  C09_owned_recover_all_apis edOps_lawful
theorem C09_sender_tx_recover_ed25519 : type_of% (@C09_sender_tx_recover EdPoint _ edOps edOps_lawful) :=
  C09_sender_tx_recover edOps_lawful

/-- the compact-ecdh hypothesis of `C09_driver_refines` is satisfiable: no RingCT data, or 8-byte amounts -/
example : BaseOk none ∧ BaseOk (some ⟨5, 0, [], [.bp (List.replicate 8 0), .std [] []], []⟩) := by
  refine ⟨trivial, fun e he => ?_⟩
  simp only [List.mem_cons, List.not_mem_nil, or_false] at he
  rcases he with rfl | rfl
  · show (List.replicate 8 (0 : UInt8)).length ≤ 8; decide
  · trivial

/-- the remaining hypotheses of `C09_driver_refines` are satisfiable: the base point is a valid representative, every reduced scalar is
below 2^260 -/
example : Valid Ed.G ∧ Ed.l < 2 ^ 260 := ⟨G_valid, l_lt_260⟩

/-- **the driver's scan and the driver's scalars are the theorems' scan and scalars.** For a view secret below 2^260 (every 32-byte
scalar) the executable instance `Drv.refOps` with the executable permissive decoder (`Drv.C07.decP` = `Drv.C10.decPerm`) computes
LITERALLY what the lawful instance `edOps` with `decPermissive` computes — the object of the `_ed25519` theorems:
(1) `recoverKey` on a valid representative of the transaction key (`c09_recover`, `c09_recover_seq`);
(2) `Owned.recoverKey` (the model of `OwnedTxOut::recover_key`) on every record;
(3) the WHOLE scan `checkOutputsPrefix` — which outputs are reported, with which matched key, position and index, and the openings — on
    every prefix, valid spend-key representative, ranges and RingCT base whose compact ecdh amounts have at most 8 bytes (`BaseOk`;
    exactly 8 in every PARSED transaction — proved: `C09_decoded_baseOk`; the scenario builder `Drv.C07.Scen.toModel` writes 8-byte
    amounts too, which is read off its definition, not proved) — the model side of `c09_scenario`;
(4) the same for `checkOutputsTx` with the spend key `s•G` computed by the driver (`c09_scan_tx`), `s` below 2^260; for the
    transactions that arm actually scans (`Monero.tx (Hex.decode h) = some (t, [])`) the side condition `BaseOk` is discharged in
    `C09_driver_refines_decoded`;
(5) the text `c09_scan_tx` prints is the text computed from `Owned.recoverKey edOps`.
So the hypothesis `checkOutputsPrefix edOps … = .ok ws` of `C09_owned_recover_ed25519` is about the very list the driver prints. -/
theorem C09_driver_refines (v s : ℕ) (hv : v < 2 ^ 260) (B : Ed.Pt) (hB : Valid B) (n i j : ℕ) :
    recoverKey Drv.refOps v s B n i j = recoverKey edOps v s (toPoint B hB) n i j ∧
    (∀ w : Owned, Owned.recoverKey Drv.refOps w v s = Owned.recoverKey edOps w v s) ∧
    (∀ (p : Prefix) (S : Ed.Pt) (hS : Valid S) (a b c d : ℕ) (base : Option Base), BaseOk base →
      checkOutputsPrefix Drv.refOps Drv.C07.decP p v S a b c d base
        = checkOutputsPrefix edOps decPermissive p v (toPoint S hS) a b c d base) ∧
    (∀ (t : Tx) (a b c d : ℕ), s < 2 ^ 260 → BaseOk t.base →
      checkOutputsTx Drv.refOps Drv.C10.decPerm t v (Drv.refOps.smul s Drv.refOps.base) a b c d
        = checkOutputsTx edOps decPermissive t v (s • edOps.base) a b c d) ∧
    Drv.C10.showScanRecover v s = Drv.C10.showScanRecoverWith (fun w => Owned.recoverKey edOps w v s) := by
  have R := refOps_refines_edOps
  have hd : DecRefines Drv.C07.decP decPermissive := fun b => decP_refines b
  have hrec : ∀ w : Owned, Owned.recoverKey Drv.refOps w v s = Owned.recoverKey edOps w v s :=
    fun w => refines_ownedRecoverKey R w v s hv
  refine ⟨refines_recoverKey R v s hv B hB n i j, hrec, ?_, ?_, ?_⟩
  · intro p S hS a b c d base hb
    exact refines_checkOutputsPrefix R hd p v hv S hS a b c d base hb
  · intro t a b c d hs hb
    obtain ⟨h1, e1⟩ := refines_pubOf R s hs
    have e2 : pubOf edOps s = s • edOps.base := edOps_lawful.pubOf_eq s
    have hdec : Drv.C10.decPerm = Drv.C07.decP := rfl
    unfold checkOutputsTx
    rw [hdec, ← e2, ← e1]
    exact refines_checkOutputsPrefix R hd t.pre v hv _ h1 a b c d t.base hb
  · unfold Drv.C10.showScanRecover
    simp only [hrec]

/-- in a transaction that came out of the decoder every compact ecdh amount has exactly 8 bytes (`Hash8`; `decoded_wf_tx`), and a
base of type 0 has no ecdh entries: the side condition `BaseOk` of `C09_driver_refines` (3)/(4) is a FACT for parsed transactions -/
theorem C09_decoded_baseOk (bytes rest : Bytes) (t : Tx) (hdec : Monero.tx bytes = some (t, rest)) : BaseOk t.base := by
  obtain ⟨_, h1, h2⟩ := decoded_wf_tx bytes t rest hdec
  cases hb : t.base with
  | none => trivial
  | some bb =>
    have hv : t.pre.version ≠ 1 := by
      intro hv1; have := (h1 hv1).2.1; rw [hb] at this; cases this
    have hin : t.pre.ins ≠ [] := by
      intro hi; have := ((h2 hv).2.1 hi).1; rw [hb] at this; cases this
    obtain ⟨b0, hb0, hwf, _⟩ := (h2 hv).2.2 hin
    rw [hb] at hb0; cases hb0
    intro e he
    by_cases hty : bb.ty = 0
    · have := (hwf.2.1 hty).2.2.1; rw [this] at he; cases he
    · obtain ⟨_, _, _, hall, _⟩ := hwf.2.2 hty
      have hwe := hall e he
      cases e with
      | std _ _ => trivial
      | bp am => exact Nat.le_of_eq hwe.2

/-- `C09_driver_refines` (4) for what the arm `c09_scan_tx` evaluates — a transaction PARSED from wire bytes: no side condition on
the RingCT base is left -/
theorem C09_driver_refines_decoded (v s : ℕ) (hv : v < 2 ^ 260) (hs : s < 2 ^ 260) (bytes rest : Bytes) (t : Tx)
    (hdec : Monero.tx bytes = some (t, rest)) (a b c d : ℕ) :
    checkOutputsTx Drv.refOps Drv.C10.decPerm t v (Drv.refOps.smul s Drv.refOps.base) a b c d
      = checkOutputsTx edOps decPermissive t v (s • edOps.base) a b c d :=
  (C09_driver_refines v s hv Ed.G G_valid 0 0 0).2.2.2.1 t a b c d hs (C09_decoded_baseOk bytes rest t hdec)

/-- the formula inlined in the scenario driver (`Drv.C07.Scen.showRecover`: `Drv.decodeKey w.txKey`, then `recoverKey` on the owned
output's own position and index) is the model `Owned.recoverKey` of `OwnedTxOut::recover_key` on `Drv.refOps` (hence, by
`C09_driver_refines` (2), on `edOps`) -/
theorem C09_scenario_driver_is_model (v s : ℕ) (ws : List Owned) :
    Drv.C07.Scen.showRecover v s (.ok ws)
      = " ".intercalate (s!"ok {ws.length}" :: ws.map fun w =>
          match Owned.recoverKey Drv.refOps w v s with
          | some x => s!"{w.index}:{Drv.C07.hx (scalarBytes x)}"
          | none => s!"{w.index}:bad-key") := by
  unfold Drv.C07.Scen.showRecover
  dsimp only
  congr 3
  funext w
  unfold Owned.recoverKey
  rw [refOps_dec]
  cases Drv.decodeKey w.txKey <;> rfl
end Ed25519
end C09
