import MoneroModel.Proofs.Group
import MoneroModel.Proofs.GroupInstance
import MoneroModel.Proofs.EdwardsLawful
/-! C09 — "Recovered one-time secret key matches the output's one-time public key".
About the model `Monero.recoverKey` (Model/Crypto.lean: `KeyRecoverer::{new, recover}` with `get_spend_secret_key`) and
the by-the-book sender `Spec.Sender`. For every additive commutative group and every lawful `ops` (Proofs/Group.lean).
Wallet: view secret `v`, spend secret `s`, spend public key `S = s•G`. -/
namespace C09
open Monero
variable {P : Type} [AddCommGroup P] {ops : CryptoOps P}

/-- the hypotheses are satisfiable -/
example : Lawful zmodOps ∧ ∃ (s : ℕ) (S : ZMod zN), S = s • zmodOps.base := ⟨zmodOps_lawful, 5, _, rfl⟩

/-- the recovered key is `Hs(enc(8•(v•R)) ‖ varint(n)) + s'  (mod l)` with `s' = s` at index (0,0) and
`s' = s + Hs("SubAddr\0" ‖ v ‖ i ‖ j) (mod l)` otherwise — written with the specification's functions -/
theorem C09_recover_value (L : Lawful ops) (v s : ℕ) (R : P) (n i j : ℕ) :
    recoverKey ops v s R n i j
      = (Spec.Sender.derivationScalar (specPrims ops) (8 • (v • R)) n
          + (if i = 0 ∧ j = 0 then s else Spec.Sender.subSpendSec (specPrims ops) v s i j)) % ops.l := by
  unfold recoverKey subSpendSec
  rw [rvnScalar_eq, L.derive_eq, subScalar_eq]
  by_cases h : i = 0 ∧ j = 0
  · rw [if_pos ((Lawful.idxZero_iff i j).2 h), if_pos h]
  · rw [if_neg (fun h' => h ((Lawful.idxZero_iff i j).1 h')), if_neg h]; rfl

/-- for EVERY transaction key `R` (also one the wallet did not expect): the recovered scalar times G is the candidate
key the scanner compared the output key with — `Hs(8vR ‖ n)•G + S'`, `S'` the public spend key of index (i,j). So for
every output reported as owned at (n, (i,j)) the recovered key opens the output's one-time public key. -/
theorem C09_recover_matches_scan (L : Lawful ops) (v s : ℕ) (S : P) (hS : S = s • ops.base) (R : P) (n i j : ℕ) :
    recoverKey ops v s R n i j • ops.base = oneTimeKey ops (derive ops v R) (subSpendPub ops v S i j) n :=
  L.recoverKey_pub v s S hS R n i j

/-- the recovered scalar times G is the one-time key the by-the-book sender built for the wallet's address at index
(i,j) — primary address (V, S), R = r•G at (0,0); subaddress (V', S'), R = r•S' otherwise — at every position n -/
theorem C09_recover_pub (L : Lawful ops) (v s r : ℕ) (S : P) (hS : S = s • ops.base) (n i j : ℕ) :
    recoverKey ops v s (Spec.Sender.txKey (specPrims ops) r (Spec.Sender.destAt (specPrims ops) v S i j)) n i j
        • ops.base
      = Spec.Sender.sendKey (specPrims ops) r (Spec.Sender.destAt (specPrims ops) v S i j) n := by
  rw [L.recoverKey_pub v s S hS, L.sendKey_recognised v r n _ (L.destAt_view v S i j), Lawful.subSpendPub_eq_spec]

/-- primary address: destination (v•G, S), transaction key r•G, index (0,0) -/
theorem C09_recover_pub_primary (L : Lawful ops) (v s r : ℕ) (S : P) (hS : S = s • ops.base) (n : ℕ) :
    recoverKey ops v s (r • ops.base) n 0 0 • ops.base
      = Spec.Sender.sendKey (specPrims ops) r ⟨v • ops.base, S, false⟩ n := by
  have h := C09_recover_pub L v s r S hS n 0 0
  have hd : Spec.Sender.destAt (specPrims ops) v S 0 0 = ⟨v • ops.base, S, false⟩ := by
    unfold Spec.Sender.destAt Spec.Sender.primaryDest; rw [if_pos ⟨rfl, rfl⟩]
    show (⟨ops.smul v ops.base, S, false⟩ : Spec.Sender.Dest P) = _; rw [L.smul_eq]
  rw [hd, L.spec_txKey_val] at h
  exact h

/-- subaddress (i,j) ≠ (0,0): destination (V' = v•S', S' = S + m•G), transaction key r•S' -/
theorem C09_recover_pub_subaddress (L : Lawful ops) (v s r : ℕ) (S : P) (hS : S = s • ops.base) (n i j : ℕ)
    (hij : ¬ (i = 0 ∧ j = 0)) :
    recoverKey ops v s (r • Spec.Sender.subSpend (specPrims ops) v S i j) n i j • ops.base
      = Spec.Sender.sendKey (specPrims ops) r (Spec.Sender.subDest (specPrims ops) v S i j) n := by
  have h := C09_recover_pub L v s r S hS n i j
  have hd : Spec.Sender.destAt (specPrims ops) v S i j = Spec.Sender.subDest (specPrims ops) v S i j := by
    unfold Spec.Sender.destAt; rw [if_neg hij]
  rw [hd, L.spec_txKey_val] at h
  exact h

/-- the recovered key is a reduced scalar (a valid `PrivateKey`) -/
theorem C09_recover_reduced (L : Lawful ops) (v s : ℕ) (R : P) (n i j : ℕ) : recoverKey ops v s R n i j < ops.l :=
  Nat.mod_lt _ L.l_pos

/-! ### Ed25519 itself: `Lawful` is a theorem, not an assumption

`Proofs/EdwardsGroup.lean` proves that the affine twisted Edwards curve −x² + y² = 1 + d·x²·y² over GF(2^255 − 19) with the
complete addition law is an abelian group (d is a non-square, −1 a square; associativity by explicit polynomial
certificates); `Proofs/EdwardsRef*.lean` that the executable reference arithmetic `Ref/Ed25519.lean` (extended coordinates,
double-and-add, RFC 8032 compression) computes in that group; `Proofs/EdwardsLawful.lean` that the resulting primitives
record `edOps` (points = curve points, `l·G = 0`, injective encoding accepted by `dec`) is `Lawful`, and that the instance
the compiled driver runs (`Drv.refOps`) refines it operation by operation. The theorems below are the theorems of this
file with that instance plugged in: no hypothesis about the group is left. (That curve25519-dalek computes the same
functions as `Ref/Ed25519.lean` remains a differential tie — dalek is a dependency.) -/
section Ed25519
open Monero.Edw

theorem C09_ed25519_lawful : Lawful edOps ∧ RefinesEd Drv.refOps := ⟨edOps_lawful, refOps_refines_edOps⟩
theorem C09_recover_value_ed25519 : type_of% (@C09_recover_value EdPoint _ edOps edOps_lawful) := C09_recover_value edOps_lawful
theorem C09_recover_matches_scan_ed25519 : type_of% (@C09_recover_matches_scan EdPoint _ edOps edOps_lawful) :=
  C09_recover_matches_scan edOps_lawful
theorem C09_recover_pub_ed25519 : type_of% (@C09_recover_pub EdPoint _ edOps edOps_lawful) := C09_recover_pub edOps_lawful
end Ed25519
end C09
