import MoneroModel.Proofs.ScanTop
import MoneroModel.Proofs.ScanMore
import MoneroModel.Proofs.ExtraComplete
import MoneroModel.Proofs.GroupInstance
import MoneroModel.Proofs.EdwardsLawful
import MoneroModel.Proofs.VarIntSpec
import MoneroModel.Proofs.ScanWitness
import MoneroModel.Props.C14
open Monero Monero.Scan Monero.Extra
/-! # C07 — output scanning reports exactly the outputs addressed to the wallet

Model: `MoneroModel/Model/Scan.lean` (`checkOutputsTx` / `checkOutputsPrefix` / `checkOutputsWith`, the iterator pipeline
`go`, `matchOutput`, `checkKey`, `Checker.new` with the `HashMap` as a last-insert-wins association list), over the
primitives record `CryptoOps`. Every theorem holds for every `ops` that is `Lawful` (Proofs/Group.lean: the operations of
an additive commutative group, base point killed by `l`, injective encoding accepted by `dec`) — satisfiable:
`Monero.zmodOps_lawful`. The sender is `Spec/Sender.lean` (by the book), instantiated with the same primitives
(`specPrims ops`).

Vocabulary (Proofs/ScanTable.lean, ScanMatch.lean, ScanTop.lean):
* `mainKey ops p` / `addKeys ops p` — the first `TxPublicKey` / first `AdditionalPublickKey` sub-field of the parsed extra;
* `InRange a b c d idx` — `idx ∈ [a,b) × [c,d)`; `LexLt` — the order in which `SubKeyChecker::new` inserts;
* `Addressed ops v S out i K idx` — the one-time-address relation seen by the receiver, written out in `addressed_iff`;
* `AddressedVia … K` — `Addressed … K idx` for some in-range `idx`.

Index domain. Subaddress indices, range bounds and positions are `Nat` in the model; the Rust types are `u32` (indices, ranges)
and `usize` (positions). The theorems are meant for `b ≤ 2^32 ∧ d ≤ 2^32` (every in-range index is a `u32`): beyond that the
4-byte little-endian index encoding of the model truncates, so two "indices" `i` and `i + 2^32` have the same spend key and the
no-collision hypotheses `hno` / `hinj` below cannot hold. The statements remain true there, but speak about values Rust cannot hold.

Definitional statements (unfoldings of the model, kept as un-prefixed helpers, NOT counted as results): `addressed_iff`,
`apis_agree`, `check_eq`. Their content on the Rust side is the harness (`APIS-DIFFER`, `CHECK-DIFFER`).

What is NOT proved (DESIGN §8): that a key built for another wallet does not satisfy the relation by accident — that is the
discrete-log / hash assumption, sampled by the harness (foreign wallets, wrong position, wrong tag, out-of-range index). -/
namespace C07
variable {P : Type} [AddCommGroup P] {ops : CryptoOps P}

/-- (definitional — the definition of `Addressed` written out) meaning of `Addressed`: the target key of the output is an accepted point `Pi`, the candidate transaction key `K` an
accepted point `R`, the view tag — when the output carries one — equals the first byte of
`Keccak("view_tag" ‖ enc(8·v·R) ‖ varint i)`, and `Pi = Hs(enc(8·v·R) ‖ varint i)·G + S'(idx)` with `S'(0,0) = S`,
`S'(i,j) = S + Hs("SubAddr\0" ‖ v ‖ i ‖ j)·G`. -/
theorem addressed_iff (v : Nat) (S : P) (out : TxOut) (i : Nat) (K : Bytes) (idx : Nat × Nat) :
    Addressed ops v S out i K idx ↔
      ∃ Pi R, (match out.target with | .key k => ops.dec k | .tagged k _ => ops.dec k) = some Pi ∧ ops.dec K = some R ∧
        (match out.target with | .tagged _ tag => tag == viewTagOf ops (derive ops v R) i | .key _ => true) = true ∧
        Pi = hsOf ops (ops.enc (derive ops v R) ++ encVarint i) • ops.base + subSpendPub ops v S idx.1 idx.2 := by
  unfold Addressed asOneTimeKey checkViewTag rvnScalar
  constructor
  · rintro ⟨Pi, R, h1, h2, h3, h4⟩
    refine ⟨Pi, R, ?_, h2, ?_, h4⟩
    · cases ht : out.target <;> simp only [ht] at h1 ⊢ <;> exact h1
    · cases ht : out.target <;> simp only [ht] at h3 ⊢ <;> exact h3
  · rintro ⟨Pi, R, h1, h2, h3, h4⟩
    refine ⟨Pi, R, ?_, h2, ?_, h4⟩
    · cases ht : out.target <;> simp only [ht] at h1 ⊢ <;> exact h1
    · cases ht : out.target <;> simp only [ht] at h3 ⊢ <;> exact h3

/-- **Soundness.** If the scan returns `Ok(ws)` then the transaction has a transaction key `Rm`, the reported outputs are in
output order with each position at most once, and every reported `w = (index, out, sub, txKey, …)` is the output at that
position, its subaddress index lies in the scanned ranges, the matched key is the main key or — only when the main key
addresses no in-range index at that position — the additional key at the same position, the one-time-address relation
holds for exactly the reported `(index, txKey, sub)` (view tag included), and among the in-range indices with the same spend
key the reported one is the last inserted (lexicographically greatest). -/
theorem C07_sound (L : Lawful ops) (decP : Bytes → Option P) (p : Prefix) (v : Nat) (S : P) (a b c d : Nat)
    (base : Option Base) (ws : List Owned) (h : checkOutputsPrefix ops decP p v S a b c d base = .ok ws) :
    ∃ Rm, mainKey ops p = some Rm ∧
      (ws.Pairwise fun x y => x.index < y.index) ∧
      ∀ w ∈ ws, ∃ hi : w.index < p.outs.length, w.out = p.outs[w.index] ∧
        InRange a b c d w.sub ∧
        (w.txKey = Rm ∨ ((addKeys ops p)[w.index]? = some w.txKey ∧ ¬ AddressedVia ops v S a b c d w.out w.index Rm)) ∧
        Addressed ops v S w.out w.index w.txKey w.sub ∧
        (∀ idx', InRange a b c d idx' → subSpendPub ops v S idx'.1 idx'.2 = subSpendPub ops v S w.sub.1 w.sub.2 →
          idx' = w.sub ∨ LexLt idx' w.sub) := by
  obtain ⟨Rm, hRm, hgo⟩ := prefix_ok ops decP p v S a b c d base ws h
  refine ⟨Rm, hRm, go_ok_sorted ops decP _ base Rm p.outs 0 _ ws hgo, ?_⟩
  intro w hw
  obtain ⟨j, hj, hm, hidx, hout, _⟩ := go_ok_sound ops decP _ base Rm p.outs 0 _ ws hgo w hw
  rw [Nat.zero_add] at hm hidx
  obtain ⟨_, hr, hA, hK, hmax⟩ := matchOutput_some L v S a b c d p.outs[j] j Rm _ _ hm
  simp only at hr hA hK hmax
  subst hidx
  refine ⟨hj, hout, hr, ?_, by rw [hout]; exact hA, hmax⟩
  rw [hout]; exact hK

/-- **Completeness.** If the scan returns `Ok(ws)` and for the output at position `i` some in-range index `idx` and a key `K`
— the main key, or the additional key at position `i` when the main key addresses nothing there — satisfy the
one-time-address relation, then position `i` is reported, with exactly that key (hence with the MAIN key whenever the main
key works), with an in-range index whose spend key equals that of `idx`, namely the last inserted such index. -/
theorem C07_complete (L : Lawful ops) (decP : Bytes → Option P) (p : Prefix) (v : Nat) (S : P) (a b c d : Nat)
    (base : Option Base) (ws : List Owned) (h : checkOutputsPrefix ops decP p v S a b c d base = .ok ws)
    (Rm : Bytes) (hRm : mainKey ops p = some Rm) (i : Nat) (hi : i < p.outs.length) (K : Bytes) (idx : Nat × Nat)
    (hr : InRange a b c d idx) (hA : Addressed ops v S p.outs[i] i K idx)
    (hK : K = Rm ∨ ((addKeys ops p)[i]? = some K ∧ ¬ AddressedVia ops v S a b c d p.outs[i] i Rm)) :
    ∃ w ∈ ws, w.index = i ∧ w.out = p.outs[i] ∧ w.txKey = K ∧ InRange a b c d w.sub ∧
      subSpendPub ops v S w.sub.1 w.sub.2 = subSpendPub ops v S idx.1 idx.2 ∧
      (∀ idx', InRange a b c d idx' → subSpendPub ops v S idx'.1 idx'.2 = subSpendPub ops v S w.sub.1 w.sub.2 →
        idx' = w.sub ∨ LexLt idx' w.sub) := by
  obtain ⟨Rm', hRm', hgo⟩ := prefix_ok ops decP p v S a b c d base ws h
  rw [hRm] at hRm'; cases hRm'
  have hmatch : ∃ idx', matchOutput ops (Checker.new ops v S a b c d) p.outs[i] (0 + i) Rm (addKeys ops p)[i]? = some (i, idx', K) ∧
      subSpendPub ops v S idx'.1 idx'.2 = subSpendPub ops v S idx.1 idx.2 := by
    rw [Nat.zero_add]
    rcases hK with rfl | ⟨hadd, hno⟩
    · exact matchOutput_main L v S a b c d _ i K _ idx hr hA
    · rw [hadd]; exact matchOutput_add L v S a b c d _ i Rm K idx hr hA hno
  obtain ⟨idx', hm, hsame⟩ := hmatch
  obtain ⟨w, hw, h1, h2, h3, h4⟩ := go_ok_complete ops decP _ base Rm p.outs 0 _ ws hgo i hi _ hm
  simp only at h2 h3
  rw [Nat.zero_add] at h1 hm
  obtain ⟨_, hr', _, _, hmax⟩ := matchOutput_some L v S a b c d p.outs[i] i Rm _ _ hm
  simp only at hr' hmax
  exact ⟨w, hw, h1, h4, h3, by rw [h2]; exact hr', by rw [h2]; exact hsame, by rw [h2]; exact hmax⟩

/-- **Exactness.** In an `Ok` result, position `i` is reported iff the main key, or the additional key at position `i`,
addresses some in-range index there. (Outputs for another wallet, another position, an out-of-range subaddress or with a
non-matching tag are reported only if they nevertheless satisfy the relation — DESIGN §8.) -/
theorem C07_reported_iff (L : Lawful ops) (decP : Bytes → Option P) (p : Prefix) (v : Nat) (S : P) (a b c d : Nat)
    (base : Option Base) (ws : List Owned) (h : checkOutputsPrefix ops decP p v S a b c d base = .ok ws)
    (Rm : Bytes) (hRm : mainKey ops p = some Rm) (i : Nat) (hi : i < p.outs.length) :
    (∃ w ∈ ws, w.index = i) ↔
      (AddressedVia ops v S a b c d p.outs[i] i Rm ∨
        ∃ K, (addKeys ops p)[i]? = some K ∧ AddressedVia ops v S a b c d p.outs[i] i K) := by
  constructor
  · rintro ⟨w, hw, rfl⟩
    obtain ⟨Rm', hRm', _, hall⟩ := C07_sound L decP p v S a b c d base ws h
    rw [hRm] at hRm'; cases hRm'
    obtain ⟨_, hout, hr, hK, hA, _⟩ := hall w hw
    rw [hout] at hA hK
    rcases hK with e | ⟨e, _⟩
    · left; exact ⟨w.sub, hr, e ▸ hA⟩
    · right; exact ⟨w.txKey, e, w.sub, hr, hA⟩
  · intro hcase
    by_cases hmain : AddressedVia ops v S a b c d p.outs[i] i Rm
    · obtain ⟨idx, hr, hA⟩ := hmain
      obtain ⟨w, hw, h1, _⟩ := C07_complete L decP p v S a b c d base ws h Rm hRm i hi Rm idx hr hA (Or.inl rfl)
      exact ⟨w, hw, h1⟩
    · rcases hcase with h1 | ⟨K, hK, idx, hr, hA⟩
      · exact absurd h1 hmain
      · obtain ⟨w, hw, h1, _⟩ := C07_complete L decP p v S a b c d base ws h Rm hRm i hi K idx hr hA (Or.inr ⟨hK, hmain⟩)
        exact ⟨w, hw, h1⟩

omit [AddCommGroup P] in
/-- **When the scan fails.** `Err(NoTxPublicKey)` iff the extra has no transaction key sub-field (conjuncts 1 and 4: the opening
step never produces that error); any other error is the error of the amount-opening step of an output that DID match (C08);
with no RingCT base or type `Null` and a transaction key present the scan never fails. -/
theorem C07_errors (decP : Bytes → Option P) (p : Prefix) (v : Nat) (S : P) (a b c d : Nat) (base : Option Base) :
    (mainKey ops p = none → checkOutputsPrefix ops decP p v S a b c d base = .error .noTxPublicKey) ∧
    (∀ e, checkOutputsPrefix ops decP p v S a b c d base = .error e → mainKey ops p ≠ none →
      ∃ i, ∃ hi : i < p.outs.length, ∃ idx K Rm, mainKey ops p = some Rm ∧
        matchOutput ops (Checker.new ops v S a b c d) p.outs[i] i Rm (addKeys ops p)[i]? = some (i, idx, K) ∧
        openStep ops decP v base i K = .error e) ∧
    ((base = none ∨ ∃ bb, base = some bb ∧ bb.ty = 0) → mainKey ops p ≠ none →
      ∃ ws, checkOutputsPrefix ops decP p v S a b c d base = .ok ws) ∧
    (checkOutputsPrefix ops decP p v S a b c d base = .error .noTxPublicKey → mainKey ops p = none) := by
  refine ⟨?_, ?_, ?_, ?_⟩
  · intro hm; unfold checkOutputsPrefix; rw [checkOutputsWith_eq, hm]
  · intro e he hne
    rcases prefix_error ops decP p v S a b c d base e he with ⟨hm, _⟩ | ⟨Rm, hRm, hgo⟩
    · exact absurd hm hne
    · obtain ⟨j, hj, idx, K, h1, h2⟩ := go_error ops decP _ base Rm p.outs 0 _ e hgo
      rw [Nat.zero_add] at h1 h2
      exact ⟨j, hj, idx, K, Rm, hRm, h1, h2⟩
  · intro hb hne
    cases hm : mainKey ops p with
    | none => exact absurd hm hne
    | some Rm =>
      unfold checkOutputsPrefix; rw [checkOutputsWith_eq, hm]
      exact go_total_of_open_ok ops decP _ base Rm
        (fun i K => ⟨none, openStep_clear ops decP base _ i K hb⟩) p.outs 0 _
  · intro he
    rcases prefix_error ops decP p v S a b c d base _ he with ⟨hm, _⟩ | ⟨Rm, _, hgo⟩
    · exact hm
    · obtain ⟨j, _, idx, K, _, h2⟩ := go_error ops decP _ base Rm p.outs 0 _ _ hgo
      exact absurd h2 (openStep_ne_noTxPublicKey ops decP _ base _ K)

/-- **The sender is recognised.** Let `dest` be the wallet's address at index `(i,j)` (`(0,0)` the primary address, else
the subaddress `(V', S') = (v·S', S + m·G)`), let the sender use the secret `r` at output position `n`: output key
`Hs(8·r·V_d ‖ n)·G + S_d`, view tag either absent or the derived one, published transaction key `r·G` (primary) resp.
`r·S_d` (subaddress) — possibly shifted by a small-order point `T` (`8·T = 0`). Then the one-time-address relation holds
for that output, position `n`, that key and index `(i,j)`: wherever the key is published — as main key or as the
additional key at position `n` — `C07_complete` applies. Uses `8·(v·(r·B)) = 8·(r·(v·B))`. -/
theorem C07_sender_recognised (L : Lawful ops) (v : Nat) (S : P) (i j r n : Nat) (T : P) (hT : 8 • T = 0) (out : TxOut)
    (hout : out.target = .key (ops.enc (Spec.Sender.sendKey (specPrims ops) r (Spec.Sender.destAt (specPrims ops) v S i j) n)) ∨
      out.target = .tagged (ops.enc (Spec.Sender.sendKey (specPrims ops) r (Spec.Sender.destAt (specPrims ops) v S i j) n))
        (Spec.Sender.sendTag (specPrims ops) r (Spec.Sender.destAt (specPrims ops) v S i j) n)) :
    Addressed ops v S out n
      (ops.enc (Spec.Sender.txKey (specPrims ops) r (Spec.Sender.destAt (specPrims ops) v S i j) + T)) (i, j) := by
  have hD := derive_sender L v S i j r T hT
  have hS := destAt_spend L v S i j
  refine ⟨Spec.Sender.sendKey (specPrims ops) r (Spec.Sender.destAt (specPrims ops) v S i j) n,
    Spec.Sender.txKey (specPrims ops) r (Spec.Sender.destAt (specPrims ops) v S i j) + T, ?_, L.dec_enc _, ?_, ?_⟩
  · rcases hout with h | h <;> rw [h] <;> exact L.dec_enc _
  · rcases hout with h | h <;> rw [h]
    · rfl
    · show (_ == viewTagOf ops _ n) = true
      rw [hD, viewTagOf_eq]
      unfold Spec.Sender.sendTag
      exact beq_self_eq_true _
  · rw [hD, rvnScalar_eq, ← hS]
    unfold Spec.Sender.sendKey
    exact L.spec_oneTimeKey_val _ _ _

/-- **Sender outputs are reported** (`C07_sender_recognised` + `C07_complete`): if the output at position `n` of the
scanned transaction was built as above for an in-range index `(i,j)` and the transaction key of that construction is the
main key of the transaction — or the additional key at position `n` while the main key addresses nothing there — then an
`Ok` result reports position `n` with that key and an index whose spend key is `S'(i,j)`. -/
theorem C07_sender_reported (L : Lawful ops) (decP : Bytes → Option P) (p : Prefix) (v : Nat) (S : P) (a b c d : Nat)
    (base : Option Base) (ws : List Owned) (h : checkOutputsPrefix ops decP p v S a b c d base = .ok ws)
    (Rm : Bytes) (hRm : mainKey ops p = some Rm) (n : Nat) (hn : n < p.outs.length)
    (i j r : Nat) (T : P) (hT : 8 • T = 0) (hr : InRange a b c d (i, j))
    (hout : p.outs[n].target = .key (ops.enc (Spec.Sender.sendKey (specPrims ops) r (Spec.Sender.destAt (specPrims ops) v S i j) n)) ∨
      p.outs[n].target = .tagged (ops.enc (Spec.Sender.sendKey (specPrims ops) r (Spec.Sender.destAt (specPrims ops) v S i j) n))
        (Spec.Sender.sendTag (specPrims ops) r (Spec.Sender.destAt (specPrims ops) v S i j) n))
    (hK : ops.enc (Spec.Sender.txKey (specPrims ops) r (Spec.Sender.destAt (specPrims ops) v S i j) + T) = Rm ∨
      ((addKeys ops p)[n]? = some (ops.enc (Spec.Sender.txKey (specPrims ops) r (Spec.Sender.destAt (specPrims ops) v S i j) + T)) ∧
        ¬ AddressedVia ops v S a b c d p.outs[n] n Rm)) :
    ∃ w ∈ ws, w.index = n ∧
      w.txKey = ops.enc (Spec.Sender.txKey (specPrims ops) r (Spec.Sender.destAt (specPrims ops) v S i j) + T) ∧
      InRange a b c d w.sub ∧ subSpendPub ops v S w.sub.1 w.sub.2 = subSpendPub ops v S i j := by
  have hA := C07_sender_recognised L v S i j r n T hT p.outs[n] hout
  obtain ⟨w, hw, h1, _, h3, h4, h5, _⟩ := C07_complete L decP p v S a b c d base ws h Rm hRm n hn _ (i, j) hr hA hK
  exact ⟨w, hw, h1, h3, h4, h5⟩

/-- **The varint of the four boundary positions, byte for byte.** The encoder AS WRITTEN in Rust (`encVarintImp`: the loop
`bits = n & 0x7f; n >>= 7; push`, then `split_last` and the continuation bit OR-ed onto all but the last group — not the
recursive `encVarint`) writes `7f` for 127, `80 01` for 128, `ff 7f` for 16383 and `80 80 01` for 16384: the places where the
varint of a position grows by one byte. Closed terms, checked by evaluation; they pin the byte order and the continuation bit
independently of every definition named `leb128`. -/
theorem C07_position_anchors :
    (encVarintImp 127) = ([0x7f], 1) ∧ (encVarintImp 128) = ([0x80, 0x01], 2) ∧
    (encVarintImp 16383) = ([0xff, 0x7f], 2) ∧ (encVarintImp 16384) = ([0x80, 0x80, 0x01], 3) := by decide +kernel

omit [AddCommGroup P] in
/-- **Which bytes stand for the position in the two hashed messages, and that they determine it.** For EVERY position `i`:
1. the model hashes `enc D ‖ w(i)` for the shared scalar and `"view_tag" ‖ enc D ‖ w(i)` for the view tag, where `w(i)` is the
   byte string written by the Rust varint encoder AS WRITTEN (`(encVarintImp i).1`, C14) — and these are the specification's
   `derivationScalar` / `viewTag`;
2. `w(i)` is the reference string `Spec.leb128 i` (`C14_enc_eq_leb128`: groups / `dropLast` / `getLast` against the recursion), and
   read as base-128 groups, least significant first, by `Spec.readGroups` (which never looks at `leb128` or at the model) it has
   value `i` and ends exactly at its last byte (`C14_leb128_value`); with `C14_shortest` it is the unique shortest such string;
3. the two hashed messages determine the position: among derivations whose encodings have one length (32 bytes for Ed25519,
   `C07_position_encoding_ed25519`), two messages are equal only if the encoded derivations AND the positions are equal. So no
   two positions share a message, whatever the lengths of their varints (127/128, 16383/16384: `C07_position_anchors`).

What is and is not content here. `rvnScalar` / `viewTagOf` are DEFINED with the recursive `encVarint`, which is the same
recursion as `Spec.leb128` up to `a + b = b + a` (`encVarint_eq_leb128`: bookkeeping, NOT evidence), so "model = specification" in
clause 1 compares two near-identical texts and would survive the same edit made to both. The content is: the tie of that
recursion to the encoder as written (`encVarintImp_eq` / C14), the independent valuation of clause 2, the byte anchors, and the
injectivity of clause 3 (`leb128_prefix_free`). That the Rust scanner passes exactly these bytes to Keccak is NOT proved; it is
tied by the harness scenarios whose owned outputs sit around positions 128 and 16384. -/
theorem C07_position_encoding (D : P) (i : Nat) :
    (rvnScalar ops D i = hsOf ops (ops.enc D ++ (encVarintImp i).1) ∧
      rvnScalar ops D i = Spec.Sender.derivationScalar (specPrims ops) D i) ∧
    (viewTagOf ops D i = (ops.keccak (Gen.viewTagSalt ++ ops.enc D ++ (encVarintImp i).1)).headD 0 ∧
      viewTagOf ops D i = Spec.Sender.viewTag (specPrims ops) D i) ∧
    ((encVarintImp i).1 = Spec.leb128 i ∧ (encVarintImp i).2 = (Spec.leb128 i).length ∧
      ∃ gs, Spec.readGroups (encVarintImp i).1 = some (gs, (encVarintImp i).2) ∧ Spec.valOf gs = i) ∧
    (∀ D' i', (ops.enc D').length = (ops.enc D).length →
      ops.enc D' ++ (encVarintImp i').1 = ops.enc D ++ (encVarintImp i).1 → ops.enc D' = ops.enc D ∧ i' = i) ∧
    (∀ D' i', (ops.enc D').length = (ops.enc D).length →
      Gen.viewTagSalt ++ ops.enc D' ++ (encVarintImp i').1 = Gen.viewTagSalt ++ ops.enc D ++ (encVarintImp i).1 →
        ops.enc D' = ops.enc D ∧ i' = i) := by
  have himp : ∀ n, encVarint n = (encVarintImp n).1 := fun n => by rw [encVarintImp_eq]
  have key : ∀ D' i', (ops.enc D').length = (ops.enc D).length →
      ops.enc D' ++ (encVarintImp i').1 = ops.enc D ++ (encVarintImp i).1 → ops.enc D' = ops.enc D ∧ i' = i := by
    intro D' i' hl he
    obtain ⟨h1, h2⟩ := List.append_inj he hl
    rw [(C14.C14_enc_eq_leb128 i').1, (C14.C14_enc_eq_leb128 i).1] at h2
    exact ⟨h1, (C14.C14_leb128_injective i' i [] [] (by rw [List.append_nil, List.append_nil]; exact h2)).1⟩
  refine ⟨⟨?_, rvnScalar_eq ops D i⟩, ⟨?_, viewTagOf_eq ops D i⟩, ⟨(C14.C14_enc_eq_leb128 i).1, (C14.C14_enc_eq_leb128 i).2, ?_⟩, key, ?_⟩
  · rw [← himp]; rfl
  · rw [← himp]; rfl
  · obtain ⟨gs, h1, h2⟩ := C14.C14_leb128_value i []
    rw [List.append_nil] at h1
    exact ⟨gs, by rw [(C14.C14_enc_eq_leb128 i).1, (C14.C14_enc_eq_leb128 i).2]; exact h1, h2⟩
  · intro D' i' hl he
    rw [List.append_assoc, List.append_assoc] at he
    exact key D' i' hl (List.append_cancel_left he)

omit [AddCommGroup P] in
/-- (definitional — argument plumbing of the model) **The three entry points are one function.** `Transaction::check_outputs` is `TransactionPrefix::check_outputs` on the
prefix with `rct_signatures.sig.as_ref()`, which is `check_outputs_with` on `SubKeyChecker::new(pair, major, minor)`; and
`Transaction::check_outputs_with` is the prefix version with the same base. In the model these are definitional unfoldings
(argument plumbing only); that the Rust functions really are plumbed this way is tied by the harness, which runs every scan
through all of them and compares (`APIS-DIFFER`). -/
theorem apis_agree (decP : Bytes → Option P) (t : Tx) (v : Nat) (S : P) (a b c d : Nat) :
    checkOutputsTx ops decP t v S a b c d = checkOutputsPrefix ops decP t.pre v S a b c d t.base ∧
    checkOutputsPrefix ops decP t.pre v S a b c d t.base = checkOutputsWith ops decP t.pre (Checker.new ops v S a b c d) t.base ∧
    checkOutputsTxWith ops decP t (Checker.new ops v S a b c d) = checkOutputsWith ops decP t.pre (Checker.new ops v S a b c d) t.base :=
  ⟨rfl, rfl, rfl⟩

/-! ### Negative clauses, exact index, which output determines the error (added after the audit) -/

/-- **Not addressed ⇒ not reported** (a corollary without new content: the contrapositive of `C07_reported_iff`, stated because the
negative clauses below are its instances). An output at position
`i` that neither the main key nor the additional key at position `i` addresses for an in-range index — an output for another
wallet, for another position, for an out-of-range subaddress, with a non-matching tag — is not in an `Ok` result. What
remains an assumption (DESIGN §8) is only that such outputs do not satisfy the relation by accident. -/
theorem C07_not_addressed_not_reported (L : Lawful ops) (decP : Bytes → Option P) (p : Prefix) (v : Nat) (S : P) (a b c d : Nat)
    (base : Option Base) (ws : List Owned) (h : checkOutputsPrefix ops decP p v S a b c d base = .ok ws)
    (Rm : Bytes) (hRm : mainKey ops p = some Rm) (i : Nat) (hi : i < p.outs.length)
    (hmain : ¬ AddressedVia ops v S a b c d p.outs[i] i Rm)
    (hadd : ∀ K, (addKeys ops p)[i]? = some K → ¬ AddressedVia ops v S a b c d p.outs[i] i K) :
    ¬ ∃ w ∈ ws, w.index = i := by
  intro hrep
  rcases (C07_reported_iff L decP p v S a b c d base ws h Rm hRm i hi).mp hrep with h1 | ⟨K, hK, h2⟩
  · exact hmain h1
  · exact hadd K hK h2

/-- **Wrong view tag ⇒ not reported, unconditionally.** If the output at position `i` carries a view tag `t` that differs
from the tag derived from the main key and from the tag derived from the additional key at position `i` (when there is
one), position `i` is not reported — whatever its key is (even the right one-time key for this wallet). No hash or
discrete-log assumption is involved: the comparison is on the whole byte. -/
theorem C07_wrong_tag_not_reported (L : Lawful ops) (decP : Bytes → Option P) (p : Prefix) (v : Nat) (S : P) (a b c d : Nat)
    (base : Option Base) (ws : List Owned) (h : checkOutputsPrefix ops decP p v S a b c d base = .ok ws)
    (Rm : Bytes) (hRm : mainKey ops p = some Rm) (i : Nat) (hi : i < p.outs.length) (k : Bytes) (t : UInt8)
    (ht : p.outs[i].target = .tagged k t)
    (hmain : ∀ R, ops.dec Rm = some R → t ≠ viewTagOf ops (derive ops v R) i)
    (hadd : ∀ K R, (addKeys ops p)[i]? = some K → ops.dec K = some R → t ≠ viewTagOf ops (derive ops v R) i) :
    ¬ ∃ w ∈ ws, w.index = i := by
  refine C07_not_addressed_not_reported L decP p v S a b c d base ws h Rm hRm i hi ?_ ?_
  · rintro ⟨idx, _, hA⟩
    exact not_addressed_of_wrong_tag ops v S _ i Rm k t ht hmain idx hA
  · rintro K hK ⟨idx, _, hA⟩
    exact not_addressed_of_wrong_tag ops v S _ i K k t ht (fun R hR => hadd K R hK hR) idx hA

/-- the hypotheses of `C07_wrong_tag_not_reported` about the tags are satisfiable (a hash whose first byte is never 7) -/
example : ∃ (Q : Type) (_ : AddCommGroup Q) (o : CryptoOps Q) (t : UInt8), Lawful o ∧ ∀ D i, t ≠ viewTagOf o D i :=
  ⟨_, _, zmodOps, 7, zmodOps_lawful, fun _ _ => by show (7 : UInt8) ≠ ([] : List UInt8).headD 0; decide⟩

/-- **Out-of-range subaddress ⇒ not reported, under two explicit hypotheses.** The output at position `n` was built by the
sender for the wallet's address at index `(i,j)` with the published key `K = txKey r dest + T`, and
* `hno` (NO SPEND-KEY COLLISION): no in-range index has the spend key `S'(i,j)`. There is no separate hypothesis "`(i,j)` is not in
  the ranges": `hno` implies it (an in-range `(i,j)` would collide with itself), and for an index outside the ranges `hno` IS the
  assumption that subaddress spend keys do not collide — the hash assumption, not provable for an abstract hash;
* `hK` (THE OTHER KEY ADDRESSES NOTHING): `K` is the main key and the additional key at `n` (if any) addresses no in-range index, or
  `K` is the additional key at `n` and the main key addresses no in-range index.
Then position `n` is not reported. Content: `addressed_spend_unique` (the relation fixes the spend key) + the contrapositive of
`C07_reported_iff`; the cryptographic part is entirely inside `hno`. -/
theorem C07_out_of_range_not_reported (L : Lawful ops) (decP : Bytes → Option P) (p : Prefix) (v : Nat) (S : P) (a b c d : Nat)
    (base : Option Base) (ws : List Owned) (h : checkOutputsPrefix ops decP p v S a b c d base = .ok ws)
    (Rm : Bytes) (hRm : mainKey ops p = some Rm) (n : Nat) (hn : n < p.outs.length)
    (i j r : Nat) (T : P) (hT : 8 • T = 0)
    (hout : p.outs[n].target = .key (ops.enc (Spec.Sender.sendKey (specPrims ops) r (Spec.Sender.destAt (specPrims ops) v S i j) n)) ∨
      p.outs[n].target = .tagged (ops.enc (Spec.Sender.sendKey (specPrims ops) r (Spec.Sender.destAt (specPrims ops) v S i j) n))
        (Spec.Sender.sendTag (specPrims ops) r (Spec.Sender.destAt (specPrims ops) v S i j) n))
    (hno : ∀ idx', InRange a b c d idx' → subSpendPub ops v S idx'.1 idx'.2 ≠ subSpendPub ops v S i j)
    (hK : (ops.enc (Spec.Sender.txKey (specPrims ops) r (Spec.Sender.destAt (specPrims ops) v S i j) + T) = Rm ∧
        ∀ K, (addKeys ops p)[n]? = some K → ¬ AddressedVia ops v S a b c d p.outs[n] n K) ∨
      ((addKeys ops p)[n]? = some (ops.enc (Spec.Sender.txKey (specPrims ops) r (Spec.Sender.destAt (specPrims ops) v S i j) + T)) ∧
        ¬ AddressedVia ops v S a b c d p.outs[n] n Rm)) :
    ¬ ∃ w ∈ ws, w.index = n := by
  have hA := C07_sender_recognised L v S i j r n T hT p.outs[n] hout
  have hnot : ¬ AddressedVia ops v S a b c d p.outs[n] n
      (ops.enc (Spec.Sender.txKey (specPrims ops) r (Spec.Sender.destAt (specPrims ops) v S i j) + T)) := by
    rintro ⟨idx', hr', hA'⟩
    exact hno idx' hr' (addressed_spend_unique ops v S _ n _ idx' (i, j) hA' hA)
  refine C07_not_addressed_not_reported L decP p v S a b c d base ws h Rm hRm n hn ?_ ?_
  · rcases hK with ⟨e, _⟩ | ⟨_, h2⟩
    · rw [← e]; exact hnot
    · exact h2
  · intro K hKn
    rcases hK with ⟨_, h2⟩ | ⟨e, _⟩
    · exact h2 K hKn
    · rw [e] at hKn; cases hKn; exact hnot

/-- `hno` is satisfiable for a NON-EMPTY range and an index outside it: in the lawful instance `zmodOps1` (Proofs/ScanWitness.lean:
`Z/(8·l)` with a hash that is constantly `[1]`) the ranges `0..1 × 0..1` contain the primary address only, whose spend key `S`
differs from the spend key `S + 8` of the out-of-range index `(0,1)`. (In `zmodOps` — constant empty hash — all spend keys are
equal and `hno` holds for empty ranges only.) -/
example (v : Nat) (S : ZMod zN) : Lawful zmodOps1 ∧
    ∀ idx', InRange 0 1 0 1 idx' → subSpendPub zmodOps1 v S idx'.1 idx'.2 ≠ subSpendPub zmodOps1 v S 0 1 := by
  refine ⟨zmodOps1_lawful, ?_⟩
  rintro ⟨x1, x2⟩ hr
  unfold InRange at hr; simp only at hr
  have h1 : x1 = 0 := by omega
  have h2 : x2 = 0 := by omega
  subst h1; subst h2
  rw [zmodOps1_subSpendPub, zmodOps1_subSpendPub]
  simp only [and_self, if_true, Nat.succ_ne_zero, and_false, if_false, one_ne_zero]
  exact (zmodOps1_add8_ne S).symm

/-- **The reported index is exact** when the subaddress spend keys of the scanned ranges are pairwise different (`hinj`; the
hash assumption made explicit): under the hypotheses of `C07_complete` the reported index IS `idx`. -/
theorem C07_index_exact (L : Lawful ops) (decP : Bytes → Option P) (p : Prefix) (v : Nat) (S : P) (a b c d : Nat)
    (base : Option Base) (ws : List Owned) (h : checkOutputsPrefix ops decP p v S a b c d base = .ok ws)
    (Rm : Bytes) (hRm : mainKey ops p = some Rm) (i : Nat) (hi : i < p.outs.length) (K : Bytes) (idx : Nat × Nat)
    (hr : InRange a b c d idx) (hA : Addressed ops v S p.outs[i] i K idx)
    (hK : K = Rm ∨ ((addKeys ops p)[i]? = some K ∧ ¬ AddressedVia ops v S a b c d p.outs[i] i Rm))
    (hinj : ∀ x y, InRange a b c d x → InRange a b c d y →
      subSpendPub ops v S x.1 x.2 = subSpendPub ops v S y.1 y.2 → x = y) :
    ∃ w ∈ ws, w.index = i ∧ w.out = p.outs[i] ∧ w.txKey = K ∧ w.sub = idx := by
  obtain ⟨w, hw, h1, h2, h3, h4, h5, _⟩ := C07_complete L decP p v S a b c d base ws h Rm hRm i hi K idx hr hA hK
  exact ⟨w, hw, h1, h2, h3, hinj _ _ h4 hr h5⟩

/-- … and for the sender: the output built for the in-range index `(i,j)` is reported WITH the index `(i,j)` -/
theorem C07_sender_reported_exact (L : Lawful ops) (decP : Bytes → Option P) (p : Prefix) (v : Nat) (S : P) (a b c d : Nat)
    (base : Option Base) (ws : List Owned) (h : checkOutputsPrefix ops decP p v S a b c d base = .ok ws)
    (Rm : Bytes) (hRm : mainKey ops p = some Rm) (n : Nat) (hn : n < p.outs.length)
    (i j r : Nat) (T : P) (hT : 8 • T = 0) (hr : InRange a b c d (i, j))
    (hout : p.outs[n].target = .key (ops.enc (Spec.Sender.sendKey (specPrims ops) r (Spec.Sender.destAt (specPrims ops) v S i j) n)) ∨
      p.outs[n].target = .tagged (ops.enc (Spec.Sender.sendKey (specPrims ops) r (Spec.Sender.destAt (specPrims ops) v S i j) n))
        (Spec.Sender.sendTag (specPrims ops) r (Spec.Sender.destAt (specPrims ops) v S i j) n))
    (hK : ops.enc (Spec.Sender.txKey (specPrims ops) r (Spec.Sender.destAt (specPrims ops) v S i j) + T) = Rm ∨
      ((addKeys ops p)[n]? = some (ops.enc (Spec.Sender.txKey (specPrims ops) r (Spec.Sender.destAt (specPrims ops) v S i j) + T)) ∧
        ¬ AddressedVia ops v S a b c d p.outs[n] n Rm))
    (hinj : ∀ x y, InRange a b c d x → InRange a b c d y →
      subSpendPub ops v S x.1 x.2 = subSpendPub ops v S y.1 y.2 → x = y) :
    ∃ w ∈ ws, w.index = n ∧ w.out = p.outs[n] ∧
      w.txKey = ops.enc (Spec.Sender.txKey (specPrims ops) r (Spec.Sender.destAt (specPrims ops) v S i j) + T) ∧
      w.sub = (i, j) :=
  C07_index_exact L decP p v S a b c d base ws h Rm hRm n hn _ (i, j) hr
    (C07_sender_recognised L v S i j r n T hT p.outs[n] hout) hK hinj

/-- `hinj` is satisfiable for a range with TWO indices (where `C07_index_exact` says more than `InRange`): in `zmodOps1` the indices
`(0,0)` and `(0,1)` of the ranges `0..1 × 0..2` have the spend keys `S` and `S + 8` -/
example (v : Nat) (S : ZMod zN) : ∀ x y : Nat × Nat, InRange 0 1 0 2 x → InRange 0 1 0 2 y →
    subSpendPub zmodOps1 v S x.1 x.2 = subSpendPub zmodOps1 v S y.1 y.2 → x = y := by
  rintro ⟨x1, x2⟩ ⟨y1, y2⟩ hx hy he
  unfold InRange at hx hy; simp only at hx hy he
  have hx1 : x1 = 0 := by omega
  have hy1 : y1 = 0 := by omega
  subst hx1; subst hy1
  rw [zmodOps1_subSpendPub, zmodOps1_subSpendPub] at he
  have hx2 : x2 = 0 ∨ x2 = 1 := by omega
  have hy2 : y2 = 0 ∨ y2 = 1 := by omega
  rcases hx2 with rfl | rfl <;> rcases hy2 with rfl | rfl
  · rfl
  · simp only [and_self, if_true, Nat.succ_ne_zero, and_false, if_false, one_ne_zero] at he
    exact absurd he.symm (zmodOps1_add8_ne S)
  · simp only [and_self, if_true, Nat.succ_ne_zero, and_false, if_false, one_ne_zero] at he
    exact absurd he (zmodOps1_add8_ne S)
  · rfl

/-- … and trivially for a range with a single index, in every instance -/
example (v : Nat) (S : P) : ∀ x y : Nat × Nat, InRange 0 1 0 1 x → InRange 0 1 0 1 y →
    subSpendPub ops v S x.1 x.2 = subSpendPub ops v S y.1 y.2 → x = y := by
  intro x y hx hy _
  obtain ⟨x1, x2⟩ := x; obtain ⟨y1, y2⟩ := y
  unfold InRange at hx hy; simp only at hx hy
  have : x1 = y1 := by omega
  have : x2 = y2 := by omega
  subst_vars; rfl

omit [AddCommGroup P] in
/-- **Which output determines the error** (strengthens part 2 of `C07_errors`): an error other than `NoTxPublicKey` is the
error of the opening step of the FIRST matched position whose opening fails — every matched position before it opened
successfully (the iterator pipeline is lazy and `collect` stops at the first `Err`). -/
theorem C07_errors_first (decP : Bytes → Option P) (p : Prefix) (v : Nat) (S : P) (a b c d : Nat) (base : Option Base)
    (e : ScanErr) (he : checkOutputsPrefix ops decP p v S a b c d base = .error e) (hne : mainKey ops p ≠ none) :
    ∃ i, ∃ hi : i < p.outs.length, ∃ idx K Rm, mainKey ops p = some Rm ∧
      matchOutput ops (Checker.new ops v S a b c d) p.outs[i] i Rm (addKeys ops p)[i]? = some (i, idx, K) ∧
      openStep ops decP v base i K = .error e ∧
      ∀ i' (hi' : i' < p.outs.length), i' < i → ∀ idx' K',
        matchOutput ops (Checker.new ops v S a b c d) p.outs[i'] i' Rm (addKeys ops p)[i']? = some (i', idx', K') →
        ∃ op, openStep ops decP v base i' K' = .ok op := by
  rcases prefix_error ops decP p v S a b c d base e he with ⟨hm, _⟩ | ⟨Rm, hRm, hgo⟩
  · exact absurd hm hne
  · obtain ⟨j, hj, idx, K, h1, h2, h3⟩ := go_error_first ops decP _ base Rm p.outs 0 _ e hgo
    rw [Nat.zero_add] at h1 h2
    refine ⟨j, hj, idx, K, Rm, hRm, h1, h2, ?_⟩
    intro i' hi' hlt idx' K' hm'
    have := h3 i' hi' hlt idx' K' (by rw [Nat.zero_add]; exact hm')
    rw [Nat.zero_add] at this
    exact this

omit [AddCommGroup P] in
/-- **When the scan is `Ok`.** With a transaction key present, the scan returns `Ok` as soon as the opening step succeeds
for every position that MATCHES; nothing is required of the other outputs (their ecdh / commitment entries may be missing
or garbage). For honest RingCT transactions the premise is `C08_sender_roundtrip` (composed in `C08_honest_scan_ok`). -/
theorem C07_ok_of_matched_openings (decP : Bytes → Option P) (p : Prefix) (v : Nat) (S : P) (a b c d : Nat) (base : Option Base)
    (Rm : Bytes) (hRm : mainKey ops p = some Rm)
    (hop : ∀ i (hi : i < p.outs.length) idx K,
      matchOutput ops (Checker.new ops v S a b c d) p.outs[i] i Rm (addKeys ops p)[i]? = some (i, idx, K) →
      ∃ op, openStep ops decP v base i K = .ok op) :
    ∃ ws, checkOutputsPrefix ops decP p v S a b c d base = .ok ws := by
  unfold checkOutputsPrefix; rw [checkOutputsWith_eq, hRm]
  apply go_ok_of_matched_open
  intro j hj idx K hm
  rw [Nat.zero_add] at hm ⊢
  exact hop j hj idx K hm

omit [AddCommGroup P] in
/-- (definitional) **`SubKeyChecker::check` is `check_with_key_generator` on the generator of that transaction key** (the two public lookup
functions of onetime_key.rs have the same body; in the model this is the definition, the Rust side is tied by the harness
operation `c07_check`, which calls both on the same inputs). -/
theorem check_eq (ck : Checker P) (i : Nat) (key R : P) :
    ck.check ops i key R = ck.checkWithKeyGenerator ops (derive ops ck.v R) i key ∧
    ck.check ops i key R = tblGet ck.table (ops.enc (ops.sub key (pubOf ops (rvnScalar ops (derive ops ck.v R) i)))) :=
  ⟨rfl, rfl⟩

/-- **Direct lookup, soundness.** For a checker built by `SubKeyChecker::new`: IF `check(i, P_i, R)` returns `Some(idx)` then `idx` is
in range, `P_i = Hs(8·v·R ‖ i)·G + S'(idx)` and `idx` is the last inserted index with that spend key. (The equivalence is
`C07_check_iff`.) -/
theorem C07_check_sound (L : Lawful ops) (v : Nat) (S : P) (a b c d : Nat) (i : Nat) (key R : P) (idx : Nat × Nat)
    (h : (Checker.new ops v S a b c d).check ops i key R = some idx) :
    InRange a b c d idx ∧ key = rvnScalar ops (derive ops v R) i • ops.base + subSpendPub ops v S idx.1 idx.2 ∧
    ∀ idx', InRange a b c d idx' → subSpendPub ops v S idx'.1 idx'.2 = subSpendPub ops v S idx.1 idx.2 →
      idx' = idx ∨ LexLt idx' idx := by
  unfold Checker.check Checker.checkWithKeyGenerator at h
  rw [new_v] at h
  obtain ⟨hr, hkey, hmax⟩ := tblGet_new_some ops v S a b c d _ idx h
  refine ⟨hr, (candidate_iff L _ _ _).mp hkey, ?_⟩
  intro idx' hr' he
  exact hmax idx' hr' (by rw [he, ← hkey])

/-- … and completeness of the direct lookup -/
theorem C07_check_complete (L : Lawful ops) (v : Nat) (S : P) (a b c d : Nat) (i : Nat) (R : P) (idx : Nat × Nat)
    (hr : InRange a b c d idx) :
    ∃ idx', (Checker.new ops v S a b c d).check ops i
        (rvnScalar ops (derive ops v R) i • ops.base + subSpendPub ops v S idx.1 idx.2) R = some idx' ∧
      subSpendPub ops v S idx'.1 idx'.2 = subSpendPub ops v S idx.1 idx.2 := by
  have hkey := (candidate_iff L (rvnScalar ops (derive ops v R) i • ops.base + subSpendPub ops v S idx.1 idx.2)
    (subSpendPub ops v S idx.1 idx.2) (rvnScalar ops (derive ops v R) i)).mpr rfl
  unfold Checker.check Checker.checkWithKeyGenerator
  rw [new_v]
  cases hg : tblGet (Checker.new ops v S a b c d).table (ops.enc (ops.sub
      (rvnScalar ops (derive ops v R) i • ops.base + subSpendPub ops v S idx.1 idx.2)
      (pubOf ops (rvnScalar ops (derive ops v R) i)))) with
  | none => exact absurd hkey.symm (tblGet_new_none ops v S a b c d _ hg idx hr)
  | some idx' =>
    refine ⟨idx', rfl, ?_⟩
    have := (tblGet_new_some ops v S a b c d _ idx' hg).2.1
    rw [hkey] at this
    exact (L.enc_inj this).symm

/-- `LexLt` is asymmetric -/
private theorem lexLt_asymm {x y : Nat × Nat} (h1 : LexLt x y) (h2 : LexLt y x) : False := by
  unfold LexLt at h1 h2; omega

/-- **Direct lookup: `SubKeyChecker::check` finds exactly the addressed in-range indices.** `check(i, P_i, R)` returns `Some(idx)`
IFF `idx` is in range, `P_i = Hs(8·v·R ‖ i)·G + S'(idx)` and `idx` is the last inserted (lexicographically greatest) in-range
index with that spend key. -/
theorem C07_check_iff (L : Lawful ops) (v : Nat) (S : P) (a b c d : Nat) (i : Nat) (key R : P) (idx : Nat × Nat) :
    (Checker.new ops v S a b c d).check ops i key R = some idx ↔
      (InRange a b c d idx ∧ key = rvnScalar ops (derive ops v R) i • ops.base + subSpendPub ops v S idx.1 idx.2 ∧
        ∀ idx', InRange a b c d idx' → subSpendPub ops v S idx'.1 idx'.2 = subSpendPub ops v S idx.1 idx.2 →
          idx' = idx ∨ LexLt idx' idx) := by
  constructor
  · exact C07_check_sound L v S a b c d i key R idx
  · rintro ⟨hr, hkey, hmax⟩
    obtain ⟨idx', hc, hs⟩ := C07_check_complete L v S a b c d i R idx hr
    rw [← hkey] at hc
    obtain ⟨hr', _, hmax'⟩ := C07_check_sound L v S a b c d i key R idx' hc
    rcases hmax idx' hr' hs with e | hlt
    · rw [hc, e]
    · rcases hmax' idx hr hs.symm with e | hlt'
      · rw [hc, e]
      · exact (lexLt_asymm hlt hlt').elim

/-! ### From the sender's extra bytes (C16 composed) -/

omit [AddCommGroup P] in
/-- **The keys the scan uses are the sender's first keys.** If the extra field of the prefix is the serialization of a
well-formed sub-field sequence `fs` (what a sender writes: `ExtraField` → `RawExtraField`; well-formedness as in C16, keys
valid for `PublicKey::from_slice`), then the transaction key used by the scan is the key of the FIRST `TxPublicKey` sub-field
of `fs` and the additional keys are those of the FIRST `AdditionalPublickKey` sub-field (none if there is none). -/
theorem C07_keys_of_sender_extra (p : Prefix) (fs : List SubField) (hw : WFSeq (validKey ops) fs)
    (hp : p.extra = (fs.map encSub).flatten) :
    mainKey ops p = txPubkey fs ∧ addKeys ops p = (txAdditionalPubkeys fs).getD [] := by
  have h := tryParse_flat (validKey ops) fs hw
  unfold flat at h
  unfold mainKey addKeys rawTryParse
  rw [hp, h]
  exact ⟨rfl, rfl⟩

/-- `f` is a `SubField::TxPublicKey` -/
def IsTxPub : SubField → Prop | .txPub _ => True | _ => False
/-- `f` is a `SubField::AdditionalPublickKey` -/
def IsAddKeys : SubField → Prop | .addKeys _ => True | _ => False

/-- **`tx_pubkey` is the FIRST `TxPublicKey` sub-field** (characterisation of the `find_map`, for every sub-field list). -/
theorem C07_tx_pubkey_is_first (fs : List SubField) (k : Bytes) :
    txPubkey fs = some k ↔ ∃ pre post, fs = pre ++ .txPub k :: post ∧ ∀ f ∈ pre, ¬ IsTxPub f := by
  induction fs with
  | nil => simp [txPubkey]
  | cons f fs ih =>
    cases f with
    | txPub k' =>
      simp only [txPubkey, Option.some.injEq]
      constructor
      · rintro rfl; exact ⟨[], fs, rfl, by simp⟩
      · rintro ⟨pre, post, h, hp⟩
        cases pre with
        | nil => simp at h; exact h.1
        | cons g pre => simp at h; exact absurd (h.1 ▸ trivial) (hp g (by simp))
    | _ =>
      simp only [txPubkey, ih]
      constructor
      · rintro ⟨pre, post, rfl, hp⟩
        exact ⟨_ :: pre, post, rfl, by intro f hf; simp at hf; rcases hf with rfl | hf; exact id; exact hp f hf⟩
      · rintro ⟨pre, post, h, hp⟩
        cases pre with
        | nil => simp at h
        | cons g pre => simp at h; exact ⟨pre, post, h.2, fun f hf => hp f (by simp [hf])⟩

/-- `tx_pubkey` is `None` exactly when no sub-field is a `TxPublicKey` (then the scan is `Err(NoTxPublicKey)`, `C07_errors`). -/
theorem C07_tx_pubkey_none (fs : List SubField) : txPubkey fs = none ↔ ∀ f ∈ fs, ¬ IsTxPub f := by
  induction fs with
  | nil => simp [txPubkey]
  | cons f fs ih => cases f <;> simp [txPubkey, ih, IsTxPub]

/-- **`tx_additional_pubkeys` is the FIRST `AdditionalPublickKey` sub-field.** -/
theorem C07_additional_is_first (fs : List SubField) (ks : List Bytes) :
    txAdditionalPubkeys fs = some ks ↔ ∃ pre post, fs = pre ++ .addKeys ks :: post ∧ ∀ f ∈ pre, ¬ IsAddKeys f := by
  induction fs with
  | nil => simp [txAdditionalPubkeys]
  | cons f fs ih =>
    cases f with
    | addKeys k' =>
      simp only [txAdditionalPubkeys, Option.some.injEq]
      constructor
      · rintro rfl; exact ⟨[], fs, rfl, by simp⟩
      · rintro ⟨pre, post, h, hp⟩
        cases pre with
        | nil => simp at h; exact h.1
        | cons g pre => simp at h; exact absurd (h.1 ▸ trivial) (hp g (by simp))
    | _ =>
      simp only [txAdditionalPubkeys, ih]
      constructor
      · rintro ⟨pre, post, rfl, hp⟩
        exact ⟨_ :: pre, post, rfl, by intro f hf; simp at hf; rcases hf with rfl | hf; exact id; exact hp f hf⟩
      · rintro ⟨pre, post, h, hp⟩
        cases pre with
        | nil => simp at h
        | cons g pre => simp at h; exact ⟨pre, post, h.2, fun f hf => hp f (by simp [hf])⟩

omit [AddCommGroup P] in
/-- **A second `TxPublicKey` sub-field is ignored.** For the serialization of ANY well-formed sub-field sequence whose first
`TxPublicKey` sub-field carries `K` — whatever follows it, further `TxPublicKey` sub-fields with other keys included — the
transaction key the scan uses is `K` (`ExtraField::tx_pubkey` is a `find_map`, transaction.rs:302-308). -/
theorem C07_later_keys_ignored (p : Prefix) (pre post : List SubField) (K : Bytes)
    (hw : WFSeq (validKey ops) (pre ++ .txPub K :: post)) (hpre : ∀ f ∈ pre, ¬ IsTxPub f)
    (hp : p.extra = ((pre ++ .txPub K :: post).map encSub).flatten) :
    mainKey ops p = some K := by
  rw [(C07_keys_of_sender_extra p _ hw hp).1]
  exact (C07_tx_pubkey_is_first _ K).2 ⟨pre, post, rfl, hpre⟩


omit [AddCommGroup P] in
/-- **The scan reads nothing of the prefix but the two key sub-fields and the outputs** (non-interference): two prefixes with the
same first `TxPublicKey`, the same first `AdditionalPublickKey` list and the same outputs give the same result — `Ok` list or
error — for every checker and every `RctSigBase`; version, unlock time, inputs, nonces / padding / merge-mining sub-fields and
later key sub-fields are not looked at. -/
theorem C07_scan_reads_only_keys_and_outputs (decP : Bytes → Option P) (p p' : Prefix) (ck : Checker P) (base : Option Base)
    (hm : mainKey ops p = mainKey ops p') (ha : addKeys ops p = addKeys ops p') (ho : p.outs = p'.outs) :
    checkOutputsWith ops decP p ck base = checkOutputsWith ops decP p' ck base := by
  rw [checkOutputsWith_eq, checkOutputsWith_eq, hm, ha, ho]

omit [AddCommGroup P] in
/-- **Sub-fields appended by someone else do not change the scan.** If the sender's extra is the serialization of `fs`, which
contains a `TxPublicKey` and an `AdditionalPublickKey` sub-field, then appending ANY further sub-fields `more` (further keys
included; the whole sequence still well-formed) and changing version / unlock time / inputs leaves the scan result unchanged. -/
theorem C07_appended_fields_ignored (decP : Bytes → Option P) (p p' : Prefix) (ck : Checker P) (base : Option Base)
    (fs more : List SubField) (K : Bytes) (ks : List Bytes)
    (hK : txPubkey fs = some K) (hks : txAdditionalPubkeys fs = some ks)
    (hw : WFSeq (validKey ops) fs) (hw' : WFSeq (validKey ops) (fs ++ more))
    (hp : p.extra = (fs.map encSub).flatten) (hp' : p'.extra = ((fs ++ more).map encSub).flatten) (ho : p.outs = p'.outs) :
    checkOutputsWith ops decP p ck base = checkOutputsWith ops decP p' ck base := by
  obtain ⟨pre, post, rfl, hpre⟩ := (C07_tx_pubkey_is_first fs K).1 hK
  obtain ⟨pre2, post2, h2, hpre2⟩ := (C07_additional_is_first _ ks).1 hks
  have k1 := C07_keys_of_sender_extra p _ hw hp
  have k2 := C07_keys_of_sender_extra p' _ hw' hp'
  apply C07_scan_reads_only_keys_and_outputs decP p p' ck base _ _ ho
  · rw [k1.1, k2.1, hK]
    exact ((C07_tx_pubkey_is_first _ K).2 ⟨pre, post ++ more, by simp, hpre⟩).symm
  · rw [k1.2, k2.2, hks]
    have : txAdditionalPubkeys ((pre ++ SubField.txPub K :: post) ++ more) = some ks :=
      (C07_additional_is_first _ ks).2 ⟨pre2, post2 ++ more, by rw [h2]; simp, hpre2⟩
    rw [this]

omit [AddCommGroup P] in
/-- **No `TxPublicKey` sub-field ⇒ `Err(NoTxPublicKey)`, from the extra BYTES**: for the serialization of any well-formed sequence
without a `TxPublicKey` sub-field — additional keys or not, any outputs, any checker, any base — the scan is exactly
`Err(NoTxPublicKey)`; additional keys alone never make an output reportable. -/
theorem C07_no_tx_pubkey_field_errors (decP : Bytes → Option P) (p : Prefix) (ck : Checker P) (base : Option Base)
    (fs : List SubField) (hw : WFSeq (validKey ops) fs) (hp : p.extra = (fs.map encSub).flatten)
    (hno : ∀ f ∈ fs, ¬ IsTxPub f) :
    checkOutputsWith ops decP p ck base = .error .noTxPublicKey := by
  rw [checkOutputsWith_eq, (C07_keys_of_sender_extra p _ hw hp).1, (C07_tx_pubkey_none fs).2 hno]

/-- non-vacuity of the premises of `C07_later_keys_ignored` / `C07_appended_fields_ignored` on the sub-field level: the first of
two `TxPublicKey` sub-fields is the one returned -/
example : txPubkey [.nonce [1], .txPub [2], .txPub [3]] = some [2] ∧
    txAdditionalPubkeys [.txPub [2], .addKeys [[4]], .addKeys [[5]]] = some [[4]] := by decide

/-- **End to end from the sender's extra.** The sender writes the extra field `TxPublicKey(K) :: rest` with
`K = txKey r dest + T` (the published transaction key for the wallet's address at the in-range index `(i,j)`) and the output at
position `n` as in `C07_sender_recognised`; then in an `Ok` scan position `n` is reported with key `K` and an index with the spend
key of `(i,j)`. No hypothesis about the PARSED extra is left. -/
theorem C07_sender_tx_reported (L : Lawful ops) (decP : Bytes → Option P) (p : Prefix) (v : Nat) (S : P) (a b c d : Nat)
    (base : Option Base) (ws : List Owned) (h : checkOutputsPrefix ops decP p v S a b c d base = .ok ws)
    (n : Nat) (hn : n < p.outs.length) (i j r : Nat) (T : P) (hT : 8 • T = 0) (hr : InRange a b c d (i, j))
    (rest : List SubField)
    (hw : WFSeq (validKey ops) (.txPub (ops.enc (Spec.Sender.txKey (specPrims ops) r (Spec.Sender.destAt (specPrims ops) v S i j) + T)) :: rest))
    (hp : p.extra = ((SubField.txPub (ops.enc (Spec.Sender.txKey (specPrims ops) r (Spec.Sender.destAt (specPrims ops) v S i j) + T)) :: rest).map encSub).flatten)
    (hout : p.outs[n].target = .key (ops.enc (Spec.Sender.sendKey (specPrims ops) r (Spec.Sender.destAt (specPrims ops) v S i j) n)) ∨
      p.outs[n].target = .tagged (ops.enc (Spec.Sender.sendKey (specPrims ops) r (Spec.Sender.destAt (specPrims ops) v S i j) n))
        (Spec.Sender.sendTag (specPrims ops) r (Spec.Sender.destAt (specPrims ops) v S i j) n)) :
    ∃ w ∈ ws, w.index = n ∧
      w.txKey = ops.enc (Spec.Sender.txKey (specPrims ops) r (Spec.Sender.destAt (specPrims ops) v S i j) + T) ∧
      InRange a b c d w.sub ∧ subSpendPub ops v S w.sub.1 w.sub.2 = subSpendPub ops v S i j := by
  have hk := (C07_keys_of_sender_extra p _ hw hp).1
  exact C07_sender_reported L decP p v S a b c d base ws h _ hk n hn i j r T hT hr hout (Or.inl rfl)

/-- **An `Ok` scan that reports something (no `.ok` premise).** As `C07_sender_tx_reported`, for a scan without RingCT data (no
base, or type `Null`): the scan IS `Ok` (`C07_errors`, clause 3) and reports position `n` with the sender's key. Every
hypothesis is about the transaction the sender wrote; `C07_witness_ed25519` instantiates all of them. -/
theorem C07_sender_tx_reported_clear (L : Lawful ops) (decP : Bytes → Option P) (p : Prefix) (v : Nat) (S : P) (a b c d : Nat)
    (base : Option Base) (hb : base = none ∨ ∃ bb, base = some bb ∧ bb.ty = 0)
    (n : Nat) (hn : n < p.outs.length) (i j r : Nat) (T : P) (hT : 8 • T = 0) (hr : InRange a b c d (i, j))
    (rest : List SubField)
    (hw : WFSeq (validKey ops) (.txPub (ops.enc (Spec.Sender.txKey (specPrims ops) r (Spec.Sender.destAt (specPrims ops) v S i j) + T)) :: rest))
    (hp : p.extra = ((SubField.txPub (ops.enc (Spec.Sender.txKey (specPrims ops) r (Spec.Sender.destAt (specPrims ops) v S i j) + T)) :: rest).map encSub).flatten)
    (hout : p.outs[n].target = .key (ops.enc (Spec.Sender.sendKey (specPrims ops) r (Spec.Sender.destAt (specPrims ops) v S i j) n)) ∨
      p.outs[n].target = .tagged (ops.enc (Spec.Sender.sendKey (specPrims ops) r (Spec.Sender.destAt (specPrims ops) v S i j) n))
        (Spec.Sender.sendTag (specPrims ops) r (Spec.Sender.destAt (specPrims ops) v S i j) n)) :
    ∃ ws, checkOutputsPrefix ops decP p v S a b c d base = .ok ws ∧ ∃ w ∈ ws, w.index = n ∧
      w.txKey = ops.enc (Spec.Sender.txKey (specPrims ops) r (Spec.Sender.destAt (specPrims ops) v S i j) + T) ∧
      InRange a b c d w.sub ∧ subSpendPub ops v S w.sub.1 w.sub.2 = subSpendPub ops v S i j := by
  have hk := (C07_keys_of_sender_extra p _ hw hp).1
  have hne : mainKey ops p ≠ none := by rw [hk]; exact fun h => by cases h
  obtain ⟨ws, hws⟩ := (C07_errors decP p v S a b c d base).2.2.1 hb hne
  exact ⟨ws, hws, C07_sender_tx_reported L decP p v S a b c d base ws hws n hn i j r T hT hr rest hw hp hout⟩

/-- the hypotheses are satisfiable: a lawful instance exists -/
example : ∃ (Q : Type) (_ : AddCommGroup Q) (o : CryptoOps Q), Lawful o := ⟨_, _, zmodOps, zmodOps_lawful⟩

/-! ### Ed25519 itself: `Lawful` is a theorem, not an assumption

`Proofs/EdwardsGroup.lean` proves that the affine twisted Edwards curve −x² + y² = 1 + d·x²·y² over GF(2^255 − 19) with the
complete addition law is an abelian group (d is a non-square, −1 a square; associativity by explicit polynomial
certificates); `Proofs/EdwardsRef*.lean` that the executable reference arithmetic `Ref/Ed25519.lean` (extended coordinates,
double-and-add, RFC 8032 compression) computes in that group; `Proofs/EdwardsLawful.lean` that the resulting primitives
record `edOps` (points = curve points, `l·G = 0`, injective encoding accepted by `dec`) is `Lawful`, and that the instance
the compiled driver runs (`Drv.refOps`) refines it operation by operation. The theorems below are the theorems of this
file with that instance plugged in: no hypothesis about the group is left. (That curve25519-dalek computes the same
functions as `Ref/Ed25519.lean` remains a differential tie — dalek is a dependency.) -/
section Ed25519
open Monero.Edw

theorem C07_ed25519_lawful : Lawful edOps ∧ RefinesEd Drv.refOps := ⟨edOps_lawful, refOps_refines_edOps⟩
theorem C07_sound_ed25519 : type_of% (@C07_sound EdPoint _ edOps edOps_lawful) := C07_sound edOps_lawful
theorem C07_complete_ed25519 : type_of% (@C07_complete EdPoint _ edOps edOps_lawful) := C07_complete edOps_lawful
theorem C07_reported_iff_ed25519 : type_of% (@C07_reported_iff EdPoint _ edOps edOps_lawful) := C07_reported_iff edOps_lawful
theorem C07_sender_reported_ed25519 : type_of% (@C07_sender_reported EdPoint _ edOps edOps_lawful) := C07_sender_reported edOps_lawful
theorem C07_wrong_tag_not_reported_ed25519 : type_of% (@C07_wrong_tag_not_reported EdPoint _ edOps edOps_lawful) := C07_wrong_tag_not_reported edOps_lawful
theorem C07_out_of_range_not_reported_ed25519 : type_of% (@C07_out_of_range_not_reported EdPoint _ edOps edOps_lawful) := C07_out_of_range_not_reported edOps_lawful
theorem C07_sender_reported_exact_ed25519 : type_of% (@C07_sender_reported_exact EdPoint _ edOps edOps_lawful) := C07_sender_reported_exact edOps_lawful
theorem C07_sender_tx_reported_ed25519 : type_of% (@C07_sender_tx_reported EdPoint _ edOps edOps_lawful) := C07_sender_tx_reported edOps_lawful
theorem C07_check_sound_ed25519 : type_of% (@C07_check_sound EdPoint _ edOps edOps_lawful) := C07_check_sound edOps_lawful
theorem C07_check_iff_ed25519 : type_of% (@C07_check_iff EdPoint _ edOps edOps_lawful) := C07_check_iff edOps_lawful

/-- every Ed25519 encoding has 32 bytes -/
theorem edOps_enc_length (X : EdPoint) : (edOps.enc X).length = 32 := by rw [edOps_enc]; exact encodePt_length _

/-- the well-formedness hypothesis `hw` of `C07_sender_tx_reported` is satisfiable: for EVERY point `X` of Ed25519 the extra field
consisting of the transaction key `enc X` alone is well formed (32 bytes, accepted by `PublicKey::from_slice`) -/
example (X : EdPoint) : WFSeq (validKey edOps) [.txPub (edOps.enc X)] := by
  show (edOps.enc X).length = 32 ∧ validKey edOps (edOps.enc X) = true
  exact ⟨edOps_enc_length X, by unfold validKey; rw [edOps_lawful.dec_enc]; rfl⟩

/-- `C07_position_encoding` for Ed25519: encodings have 32 bytes, so the length hypothesis is gone — the message hashed for the
shared scalar (and for the view tag), with the position written by the encoder as written (`encVarintImp`), determines the
derivation and the position -/
theorem C07_position_encoding_ed25519 (D D' : EdPoint) (i i' : Nat) :
    (edOps.enc D' ++ (encVarintImp i').1 = edOps.enc D ++ (encVarintImp i).1 → D' = D ∧ i' = i) ∧
    (Gen.viewTagSalt ++ edOps.enc D' ++ (encVarintImp i').1 = Gen.viewTagSalt ++ edOps.enc D ++ (encVarintImp i).1 →
      D' = D ∧ i' = i) := by
  obtain ⟨_, _, _, h1, h2⟩ := C07_position_encoding (ops := edOps) D i
  have hl : (edOps.enc D').length = (edOps.enc D).length := by rw [edOps_enc_length, edOps_enc_length]
  exact ⟨fun he => ⟨edOps_enc_inj (h1 D' i' hl he).1, (h1 D' i' hl he).2⟩,
    fun he => ⟨edOps_enc_inj (h2 D' i' hl he).1, (h2 D' i' hl he).2⟩⟩

/-- **A joint witness: an `Ok` scan on Ed25519 that reports an output.** For every wallet `(v, S)` and sender secret `r`, the
version-2 transaction without inputs whose extra field is the transaction key `r·G` alone and whose single output (clear amount
5) is the sender's one-time key for the primary address scans — with ranges `0..1 × 0..1`, no base — to `Ok` and reports
position 0 with index `(0,0)`, with the sender's transaction key as `tx_pubkey`, with that very output, and with the clear amount
`Some(5)`. All hypotheses of `C07_sender_tx_reported(_clear)` hold together. This witness covers the main-key / primary-address /
untagged / `T = 0` branch only; the additional-key disjunct of `hK` (which needs `¬ AddressedVia … Rm`, a hash statement for
Ed25519) has no Lean witness — that branch is exercised by the harness only (per-output-key scenarios). -/
theorem C07_witness_ed25519 (decP : Bytes → Option EdPoint) (v r : Nat) (S : EdPoint) :
    ∃ ws, checkOutputsPrefix edOps decP
        ⟨2, 0, [], [⟨5, .key (edOps.enc (Spec.Sender.sendKey (specPrims edOps) r (Spec.Sender.destAt (specPrims edOps) v S 0 0) 0))⟩],
          ([SubField.txPub (edOps.enc (Spec.Sender.txKey (specPrims edOps) r (Spec.Sender.destAt (specPrims edOps) v S 0 0) + 0))].map encSub).flatten⟩
        v S 0 1 0 1 none = .ok ws ∧
      ∃ w ∈ ws, w.index = 0 ∧ w.sub = (0, 0) ∧
        w.txKey = edOps.enc (Spec.Sender.txKey (specPrims edOps) r (Spec.Sender.destAt (specPrims edOps) v S 0 0) + 0) ∧
        w.out = ⟨5, .key (edOps.enc (Spec.Sender.sendKey (specPrims edOps) r (Spec.Sender.destAt (specPrims edOps) v S 0 0) 0))⟩ ∧
        w.amount = some 5 := by
  have hr : InRange 0 1 0 1 ((0 : Nat), (0 : Nat)) := ⟨Nat.le_refl _, Nat.one_pos, Nat.le_refl _, Nat.one_pos⟩
  obtain ⟨ws, hws, w, hw, h1, h2, h3, _⟩ := C07_sender_tx_reported_clear edOps_lawful decP
    ⟨2, 0, [], [⟨5, .key (edOps.enc (Spec.Sender.sendKey (specPrims edOps) r (Spec.Sender.destAt (specPrims edOps) v S 0 0) 0))⟩],
      ([SubField.txPub (edOps.enc (Spec.Sender.txKey (specPrims edOps) r (Spec.Sender.destAt (specPrims edOps) v S 0 0) + 0))].map encSub).flatten⟩
    v S 0 1 0 1 none (Or.inl rfl) 0 Nat.one_pos 0 0 r 0 (smul_zero 8) hr []
    (by show (edOps.enc _).length = 32 ∧ validKey edOps (edOps.enc _) = true
        exact ⟨edOps_enc_length _, by unfold validKey; rw [edOps_lawful.dec_enc]; rfl⟩)
    rfl (Or.inl rfl)
  obtain ⟨Rm, _, hgo⟩ := prefix_ok edOps decP _ v S 0 1 0 1 none ws hws
  obtain ⟨j, hj, _, hidx, hout, hop⟩ := go_ok_sound edOps decP _ none Rm _ 0 _ ws hgo w hw
  rw [openStep_clear edOps decP none _ _ _ (Or.inl rfl)] at hop
  have hw' : w.opening = none := (Except.ok.inj hop).symm
  rw [Nat.zero_add] at hidx
  have hj0 : j = 0 := by rw [← hidx]; exact h1
  subst hj0
  have hout' : w.out = ⟨5, .key (edOps.enc (Spec.Sender.sendKey (specPrims edOps) r (Spec.Sender.destAt (specPrims edOps) v S 0 0) 0))⟩ := hout
  refine ⟨ws, hws, w, hw, h1, ?_, h2, hout', ?_⟩
  · unfold InRange at h3
    have e1 : w.sub.1 = 0 := by omega
    have e2 : w.sub.2 = 0 := by omega
    exact Prod.ext e1 e2
  · unfold Owned.amount; rw [hw', hout']; rfl
end Ed25519
end C07
