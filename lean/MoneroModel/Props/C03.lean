import MoneroModel.Proofs.WireEnc
import MoneroModel.Proofs.TxComplete2
open Monero
/-! # C03 — block and transaction wire layout is the Monero consensus layout

`Spec.specTx` / `Spec.specBlock` (Spec/Wire.lean) are flat by-the-book concatenations written from Monero's headers,
independent of the model and of /repo; `build d` is the Rust-shaped value a description denotes. Because the spec
does not mention the model or `Gen`, a *symmetric* edit of the library (same tag, count width, field order or matrix
dimension changed in encoder and decoder) keeps C01/C02 true and breaks these theorems / their correspondence.

BulletproofPlus proof count: Monero writes a varint, the library one raw byte; they coincide below 128, which is the
range these theorems cover (`BppSmall`); the deviation beyond is a recorded known finding (DESIGN.md §7 item 4). -/
namespace C03

/-- fewer than 128 BulletproofPlus proofs (the range in which the one-byte count is Monero's varint) -/
def BppSmall (d : Spec.TxD) : Prop :=
  ∀ fee e o bpps cls po, d.body = .v2 (some (.bpplus fee e o bpps cls po)) → bpps.length < 128

/-- serialising the described structure gives exactly the spec bytes — for EVERY description (both versions, any
input/output/ring counts, all seven RingCT types, arbitrary field contents; no well-shapedness needed) -/
theorem C03_enc_eq_spec (d : Spec.TxD) (hb : BppSmall d) : encTx (build d) = Spec.specTx d := by
  obtain ⟨unlock, ins, outs, extra, body⟩ := d
  cases body with
  | v1 sigs =>
    have hp := encPrefix_spec ⟨unlock, ins, outs, extra, .v1 sigs⟩
    simp only [buildPrefix, Spec.TxD.version] at hp
    simp only [build, encTx, Spec.specTx, Spec.specBody, buildPrefix, Spec.TxD.version, if_true]
    rw [hp]
    congr 1
    simp only [encSized_spec, List.map_map, Spec.cat]
    congr 1
    apply List.map_congr_left
    intro row _
    simp only [Function.comp, encSized_spec, List.map_map, Spec.cat]
    congr 1
  | v2 r =>
    have hp := encPrefix_spec ⟨unlock, ins, outs, extra, .v2 r⟩
    simp only [buildPrefix, Spec.TxD.version] at hp
    have hv : ¬ ((2 : Nat) = 1) := by decide
    cases r with
    | none =>
      simp only [build, encTx, Spec.specTx, Spec.specBody, buildPrefix, Spec.TxD.version, hv, if_false]
      rw [hp]
    | some r =>
      simp only [build, encTx, Spec.specTx, Spec.specBody, buildPrefix, Spec.TxD.version, hv, if_false]
      rw [hp]
      congr 1
      rw [encBase_spec]
      cases hpr : buildPrunable r with
      | none => cases r <;> simp [buildPrunable] at hpr; simp [Spec.specPrunable]
      | some p =>
        simp only []
        rw [encPrunable_spec r p hpr (fun fee e o bpps cls po hr => hb fee e o bpps cls po (by rw [hr]))]

/-- prefix, base and prunable parts separately (the boundaries p, q of C05 come from here) -/
theorem C03_prefix_eq_spec (d : Spec.TxD) : encPrefix (build d).pre = Spec.specPrefix d := by
  have := encPrefix_spec d
  obtain ⟨unlock, ins, outs, extra, body⟩ := d
  cases body with
  | v1 s => simpa [build] using this
  | v2 r => cases r <;> simpa [build] using this
theorem C03_base_eq_spec (r : Spec.RctD) : encBase (buildBase r) = Spec.specBase r := encBase_spec r

/-- parsing the spec bytes (followed by anything) yields exactly the described structure, whenever the described
structure is well-formed in the sense of C02 (`wfTx`: implicit lengths as implied by the counts and the type, u64
numbers, 32-byte keys, explicit vectors within the decoder's allocation cap) -/
theorem C03_dec_spec (d : Spec.TxD) (hb : BppSmall d) (hwf : wfTx (build d)) (r : Bytes) :
    tx (Spec.specTx d ++ r) = some (build d, r) := by
  rw [← C03_enc_eq_spec d hb]; exact complete_tx (build d) r hwf

theorem C03_block_enc_eq_spec (b : Spec.BlockD) (hb : BppSmall b.miner) : encBlock (buildBlock b) = Spec.specBlock b := by
  have h4 : encUintLE 4 b.hdr.nonce = Spec.u32le b.hdr.nonce := by
    simp only [encUintLE, leBytes, Spec.u32le, List.range, List.range.loop, List.map_cons, List.map_nil]
    simp
  simp only [encBlock, buildBlock, buildHeader, encHeader, Spec.specBlock, Spec.specHeader, enc_varint, C03_enc_eq_spec b.miner hb,
    encVec_spec, List.map_id, List.append_assoc, h4]

theorem C03_block_dec_spec (b : Spec.BlockD) (hb : BppSmall b.miner) (hwf : wfBlock (buildBlock b)) (r : Bytes) :
    block (Spec.specBlock b ++ r) = some (buildBlock b, r) := by
  rw [← C03_block_enc_eq_spec b hb]; exact complete_block (buildBlock b) r hwf

/- non-vacuity: a described coinbase transaction; its spec bytes are what one expects -/
example : Spec.specTx ⟨0, [.gen 5], [], [], .v2 (some .null)⟩ = [2, 0, 1, 0xff, 5, 0, 0, 0] := by
  have e (n : Nat) (h : n < 128) : Spec.leb128 n = [UInt8.ofNat n] := by rw [Spec.leb128]; simp [h]
  simp [Spec.specTx, Spec.specPrefix, Spec.specBody, Spec.specBase, Spec.specPrunable, Spec.TxD.version, Spec.varint,
    Spec.specIn, Spec.cat, e]

end C03
